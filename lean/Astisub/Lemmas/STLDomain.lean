import Astisub.Lemmas.STLMeta

/-!
# Lemmas/STLDomain — repertoire text lies in the modelled domain of `norm.NFD`, so the writer model
answers (`write … = .ok …`) for every well-formed input with non-negative times
-/

namespace Astisub
namespace C05
open Go STL

/-- the unit starts with a starter, decomposes into at most 21 characters, all inside the modelled range -/
def domGood (u : Unit) : Prop :=
  startsStarter u.text = true ∧ (u.text.flatMap decomp).length ≤ 21 ∧ u.text.all (· < Generated.STL.domainMax) = true

/-- a short text inside the modelled range -/
def small (t : List Nat) : Prop := t.length ≤ 5 ∧ t.all (· < Generated.STL.domainMax) = true

instance (t : List Nat) : Decidable (small t) := by unfold small; infer_instance

theorem lookup_mem {β} (l : List (Nat × β)) (k : Nat) (v : β) (h : l.lookup k = some v) : (k, v) ∈ l := by
  induction l with
  | nil => cases h
  | cons e es ih =>
    obtain ⟨k', v'⟩ := e
    simp only [List.lookup] at h
    split at h
    · rename_i hk
      have hk' : k = k' := by simpa using hk
      cases h; rw [hk']; simp
    · exact List.mem_cons_of_mem _ (ih h)

theorem nfd_table_len : ∀ e ∈ Generated.STL.nfd, e.2.length ≤ 4 := by decide +kernel

theorem decomp_len (c : Nat) : (decomp c).length ≤ 4 := by
  unfold decomp
  split
  · simp
  · cases h : Generated.STL.nfd.lookup c with
    | none => simp
    | some v => exact nfd_table_len _ (lookup_mem _ _ _ h)

theorem flatMap_decomp_len (t : List Nat) : (t.flatMap decomp).length ≤ 4 * t.length := by
  induction t with
  | nil => simp
  | cons c cs ih =>
    have := decomp_len c
    simp only [List.flatMap_cons, List.length_append, List.length_cons]
    omega

theorem small_dom {u : Unit} (hs : startsStarter u.text = true) (h : small u.text) : domGood u :=
  ⟨hs, by have := flatMap_decomp_len u.text; have := h.1; omega, h.2⟩

theorem table_small : ∀ e ∈ Generated.STL.cct12336, small e.2 := by decide +kernel
theorem pairs_small : ∀ e ∈ Generated.STL.nfcPairs, small e.2.2 := by decide +kernel
theorem codes_small : ∀ c ∈ ctlCodes, small [c] := by decide

theorem tableGet_small (k : Nat) : small ((tableGet k).getD []) := by
  unfold tableGet
  cases h : Generated.STL.cct12336.lookup k with
  | none => decide
  | some v => exact table_small _ (lookup_mem _ _ _ h)

theorem small_append {a b : List Nat} (ha : a.length ≤ 2) (ha' : small a) (hb : b.length ≤ 2) (hb' : small b) : small (a ++ b) := by
  unfold small at *
  refine ⟨by rw [List.length_append]; omega, ?_⟩
  rw [List.all_append, ha'.2, hb'.2]; rfl

theorem table_len : ∀ e ∈ Generated.STL.cct12336, e.2.length ≤ 2 := by decide +kernel

theorem tableGet_len (k : Nat) : ((tableGet k).getD []).length ≤ 2 := by
  unfold tableGet
  cases h : Generated.STL.cct12336.lookup k with
  | none => simp
  | some v => exact table_len _ (lookup_mem _ _ _ h)

theorem nfcPair_small (k a : Nat) : small (nfcPair k a) := by
  unfold nfcPair
  cases h : Generated.STL.nfcPairs.find? fun e => e.1 == k && e.2.1 == a with
  | some e => exact pairs_small e (List.mem_of_find?_eq_some h)
  | none => exact small_append (tableGet_len k) (tableGet_small k) (tableGet_len a) (tableGet_small a)

theorem repUnit_dom {u : Unit} (h : RepUnit u) : domGood u := by
  have hg := repUnit_good h
  refine small_dom hg.2.2.1 ?_
  cases h with
  | ch e he => exact table_small e (List.mem_filter.mp he).1
  | acc a l ha hl => exact nfcPair_small l a

theorem code_dom (c : Nat) (h : c ∈ ctlCodes) : domGood (codeUnit c) :=
  small_dom (codeUnit_encGood c h).2.1 (codes_small c h)

theorem mmr_marks (m rest : List Nat) (cur best : Nat) (h1 : cur + m.length ≤ 20) (h2 : best ≤ 20) :
    ∃ cur' best', maxMarkRun (m ++ rest) cur best = maxMarkRun rest cur' best' ∧ cur' ≤ 20 ∧ best' ≤ 20 := by
  induction m generalizing cur best with
  | nil => exact ⟨cur, best, rfl, by simpa using h1, h2⟩
  | cons x xs ih =>
    simp only [List.length_cons] at h1
    simp only [List.cons_append, maxMarkRun]
    split
    · exact ih 0 (max cur best) (by omega) (by omega)
    · exact ih (cur + 1) best (by omega) h2

theorem mmr_units (us : List Unit) (h : ∀ u ∈ us, domGood u) (cur best : Nat) (hc : cur ≤ 20) (hb : best ≤ 20) :
    maxMarkRun (us.flatMap fun u => u.text.flatMap decomp) cur best ≤ 20 := by
  induction us generalizing cur best with
  | nil => simp only [List.flatMap_nil, maxMarkRun]; omega
  | cons u us ih =>
    obtain ⟨hs, hl, _⟩ := h u (by simp)
    rw [List.flatMap_cons]
    unfold startsStarter at hs
    cases hd : u.text.flatMap decomp with
    | nil => rw [hd] at hs; cases hs
    | cons s m =>
      rw [hd] at hs hl
      have hs0 : (cccOf s == 0) = true := hs
      simp only [List.cons_append, maxMarkRun, hs0, if_true]
      obtain ⟨cur', best', e, h1, h2⟩ := mmr_marks m (us.flatMap fun u => u.text.flatMap decomp) 0 (max cur best)
        (by simp only [List.length_cons] at hl; omega) (by omega)
      rw [e]
      exact ih (fun v hv => h v (by simp [hv])) cur' best' h1 h2

theorem inDomain_units (us : List Unit) (h : ∀ u ∈ us, domGood u) : inDomain (us.flatMap (·.text)) = true := by
  unfold inDomain
  rw [Bool.and_eq_true]
  constructor
  · rw [List.all_flatMap]
    rw [List.all_eq_true]
    intro u hu
    exact (h u hu).2.2
  · rw [List.flatMap_assoc]
    simpa using mmr_units us h 0 0 (by omega) (by omega)

theorem cueUnits_dom (rows : List RRun) (h : ∀ r ∈ rows, ∀ u ∈ r.units, RepUnit u) :
    ∀ u ∈ cueUnits rows, domGood u := by
  have hrun : ∀ r ∈ rows, ∀ u ∈ r.allUnits, domGood u := by
    intro r hr u hu
    unfold RRun.allUnits at hu
    simp only [List.mem_append, List.mem_map] at hu
    rcases hu with ⟨c, hc, rfl⟩ | hu | ⟨c, hc, rfl⟩
    · exact code_dom c (isCode_ctl (r.preCodes_isCode c hc))
    · exact repUnit_dom (h r hr u hu)
    · exact code_dom c (isCode_ctl (r.postCodes_isCode c hc))
  induction rows with
  | nil => intro u hu; cases hu
  | cons r rs ih =>
    cases rs with
    | nil => exact hrun r (by simp)
    | cons r2 rs' =>
      intro u hu
      simp only [cueUnits, List.mem_append, List.mem_cons] at hu
      rcases hu with hu | rfl | hu
      · exact hrun r (by simp) u hu
      · exact code_dom _ (by decide)
      · exact ih (fun r' hr' => h r' (by simp [hr'])) (fun r' hr' => hrun r' (by simp [hr'])) u hu

/-- the text of a cue made of repertoire rows is inside the modelled domain of `norm.NFD` -/
theorem inDomain_cue (c : RCue) (h : ∀ r ∈ c.rows, r.ok) : inDomain (cueString c.toW) = true := by
  rw [cueString_rows c.toW c.rows rfl, ← cueUnits_text]
  exact inDomain_units _ (cueUnits_dom c.rows (fun r hr => (h r hr).1))

/-- non-negative times (after adding the programme start) -/
def TimesOK (tcp : Int) (c : RCue) : Prop := 0 ≤ c.startAt + tcp ∧ 0 ≤ c.endAt + tcp

instance (tcp : Int) (c : RCue) : Decidable (TimesOK tcp c) := by unfold TimesOK; infer_instance

/-- **the writer model answers**: for a non-empty list of well-formed cues with non-negative times -/
theorem write_ok (now : Date) (m : Meta) (cs : List RCue) (hne : cs ≠ []) (htcp : 0 ≤ m.tcp)
    (hok : ∀ c ∈ cs, c.ok) (ht : ∀ c ∈ cs, TimesOK m.tcp c) :
    write now (some m) (cs.map RCue.toW) = .ok (writeBody now (some m) (cs.map RCue.toW)) := by
  have h1 : (cs.map RCue.toW).isEmpty = false := by cases cs <;> simp_all
  have h2 : writeUnmodelled (some m) (cs.map RCue.toW) = false := by
    unfold writeUnmodelled
    rw [Bool.or_eq_false_iff]
    constructor
    · rw [List.any_eq_false]
      intro w hw
      obtain ⟨c, hc, rfl⟩ := List.mem_map.mp hw
      obtain ⟨t1, t2⟩ := ht c hc
      have := inDomain_cue c (hok c hc).1
      simp only [Option.map_some, Option.getD_some, this, Bool.not_true, Bool.or_false, Bool.or_eq_true, decide_eq_true_eq, not_or]
      simp only [RCue.toW]
      omega
    · simp only [Option.any_some, decide_eq_false_iff_not]; omega
  unfold write
  simp [h1, h2]

end C05
end Astisub
