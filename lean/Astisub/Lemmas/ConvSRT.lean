import Astisub.Lemmas.ConvView
import Astisub.Props.C01doc

/-!
# Lemmas/ConvSRT — conversion to SubRip (C07, destination `srt`)

* `view_norm_merge` : what the SubRip reader returns for a written cue list (`norm (mergeS s)`,
  `Props/C01doc.lean`) shows the cues of `s` with instants truncated to the millisecond;
* `PlainSRT` : plain cue lists (simple characters, no SubRip markup, any other attribute) and
  `rep_of_plain` : they are representable once adjacent unstyled runs are merged.
-/

namespace Astisub
namespace ConvSRT
open Go SRT SRTDoc ConvView Spec.Conv Driver List

/-! ## the view of the normal form -/

theorem mergePlain_texts (items : List LItem) :
    ((mergePlain items).map (·.text)).flatten = (items.map (·.text)).flatten := by
  induction items with
  | nil => rfl
  | cons a rest ih =>
    simp only [List.map_cons, List.flatten_cons, ← ih]
    cases hb : mergePlain rest with
    | nil => simp [mergePlain, hb]
    | cons b r =>
      by_cases hp : (plainRun a && plainRun b) = true
      · simp [mergePlain, hb, hp]
      · simp [mergePlain, hb, hp]

theorem lineTexts_norm_merge (k : Nat) (it : CItem) : lineTexts (normItem k (mergeItem it)) = lineTexts it := by
  simp only [lineTexts, normItem, mergeItem, List.map_map]
  apply List.map_congr_left
  intro l _
  simp only [Function.comp, normLine, mergeLine, List.map_map]
  have : (fun x => x.text) ∘ normRun = fun (x : LItem) => x.text := by funext x; rfl
  rw [this]
  exact mergePlain_texts l.items

theorem cueView_norm_merge (k : Nat) (it : CItem) :
    cueView (normItem k (mergeItem it)) = truncCue 1000000 (cueView it) := by
  have h := cueView_congr (normItem k (mergeItem it))
    { it with startAt := truncMs it.startAt, endAt := truncMs it.endAt } rfl rfl
    (by rw [lineTexts_norm_merge]; rfl)
  rw [h]
  rfl

theorem view_normItems (items : List CItem) (k : Nat) :
    (normItems k (items.map mergeItem)).map cueView = (items.map cueView).map (truncCue 1000000) := by
  induction items generalizing k with
  | nil => rfl
  | cons it rest ih => simp only [List.map_cons, normItems, ih (k + 1), cueView_norm_merge]

/-- **View of what SubRip gives back.** same cues in the same order, instants truncated to the
    millisecond, same text lines — for every cue list -/
theorem view_norm_merge (s : Subs) : viewOf (norm (mergeS s)) = truncView 1000000 (viewOf s) := by
  simp only [viewOf_eq, norm, mergeS, truncView]
  exact view_normItems s.items 0

theorem unit_srt : unitOfDst "srt" = 1000000 := by decide

/-! ## plain cue lists -/

/-- a run without SubRip markup: none of `SRTBold`, `SRTItalics`, `SRTUnderline`, a non-empty
    `SRTColor`, a non-empty `SRTPosition`.  Every other attribute (`TTMLColor`, `WebVTTTags`, `STL…`,
    `Teletext…`, `SSA…`), the inline style reference and the start offset are free. -/
def noMarkup (li : LItem) : Bool := plainRun li && ((kvGet li.attrs "SRTPosition").getD [] == [])

/-- a text that survives the reader's trimming: it begins and ends with something else than a blank -/
def edgesOk (t : Str) : Bool := t.head?.any (· != ' ') && t.getLast?.any (· != ' ')

/-- a plain line: no run has SubRip markup; the line's text (runs concatenated, however it is cut
    into runs) is made of the simple characters of `simpleText` (letters, digits, blank, `, . ! ?`),
    is not empty and has no blank at either end.  The voice is free. -/
def plainLine (l : Line) : Bool := l.items.all noMarkup && simpleText l.str && edgesOk l.str

/-- **Plain cue lists for SubRip.** at least one cue (an empty list is not written), not more than
    an `int` counts, every line of every cue plain.  Regions, styles, metadata, cue attributes,
    cue style / region references, comments, indexes are free; a cue may have no line at all. -/
def PlainSRT (s : Subs) : Bool :=
  !s.items.isEmpty && decide (s.items.length ≤ int64Max) && s.items.all fun it => it.lines.all plainLine

/-- non-vacuity: two cues with foreign attributes everywhere, several runs per line, a sub-millisecond
    instant, a voice, a comment, a region, styles, metadata -/
def exampleForeign : Subs :=
  { items := [
      { startAt := 1234567890, endAt := 3000000000, index := 7, region := some "r".toList, style := some "s".toList,
        attrs := some [("STLJustificationCode".toList, "2".toList), ("WebVTTAlign".toList, "start".toList)],
        comments := ["seen".toList],
        lines := [ { voice := "Bob".toList,
                     items := [ { text := "Hello, ".toList, attrs := some [("TTMLColor".toList, "#ff0000".toList)] },
                                { text := "".toList, startAt := 5 },
                                { text := "world  42!".toList, style := some "s".toList,
                                  attrs := some [("SSABold".toList, "true".toList), ("TeletextDoubleHeight".toList, "true".toList),
                                                 ("WebVTTTags".toList, "b|i".toList)] } ] },
                   { items := [ { text := "Is it?".toList, attrs := some [("SRTColor".toList, [])] } ] } ] },
      { startAt := 359999999999999, endAt := 0, lines := [] } ],
    regions := [{ id := "r".toList }], styles := [{ id := "s".toList, attrs := some [("TTMLColor".toList, "red".toList)] }],
    metadata := some [("Title".toList, "t".toList)] }

example : PlainSRT exampleForeign = true := by decide
example : inRange "srt" exampleForeign = true := by decide
example : plainLine { items := [{ text := " x".toList }] } = false := by decide
example : plainLine { items := [{ text := "x".toList, attrs := some [("SRTBold".toList, "true".toList)] }] } = false := by decide
example : plainLine { items := [] } = false := by decide

/-! ### a plain line is one representable run once merged -/

theorem plainRun_text (a : LItem) (t : Str) : plainRun { a with text := t } = plainRun a := rfl

/-- the runs of a line without markup collapse into one -/
theorem mergePlain_all (a : LItem) (rest : List LItem) (h : ∀ x ∈ a :: rest, plainRun x = true) :
    mergePlain (a :: rest) = [{ a with text := ((a :: rest).map (·.text)).flatten }] := by
  induction rest generalizing a with
  | nil => simp [mergePlain]
  | cons b rest ih =>
    have hb := ih b (fun x hx => h x (by simp [List.mem_cons.mp hx]))
    have ha : plainRun a = true := h a (by simp)
    have hbp : plainRun b = true := h b (by simp)
    rw [mergePlain, hb]
    simp [plainRun_text, ha, hbp]

theorem mem_head? {α} {l : List α} {a : α} (h : l.head? = some a) : a ∈ l := by
  cases l with
  | nil => cases h
  | cons x xs => simp at h; subst h; simp

theorem mem_getLast? {α} {l : List α} {a : α} (h : l.getLast? = some a) : a ∈ l :=
  List.mem_of_getLast? h

theorem visible_of_simple {c : Char} (h : simpleChar c = true) (hb : c ≠ ' ') : visible c = true := by
  simp [visible, simpleChar_space h hb]

theorem arrow_free (t : Str) (h : ∀ c ∈ t, simpleChar c = true) : Go.contains SRT.arrow t = false :=
  contains_arrow_no_dash t (fun hc => simpleChar_ne (h _ hc) (by decide) rfl)

theorem color_none_of_plain (li : LItem) (h : plainRun li = true) : (styleOf li).color = none := by
  simp only [plainRun, styled, Bool.not_eq_true', Bool.or_eq_false_iff] at h
  cases hc : (styleOf li).color with
  | none => rfl
  | some c => rw [hc] at h; simp at h

theorem styleOf_text (a : LItem) (t : Str) : styleOf { a with text := t } = styleOf a := rfl

theorem repLine_of_plain (l : Line) (h : plainLine l = true) : RepLine (mergeLine l) = true := by
  simp only [plainLine, Bool.and_eq_true, List.all_eq_true, simpleText_eq, edgesOk] at h
  obtain ⟨⟨hm, hs⟩, he⟩ := h
  have hm1 : ∀ x ∈ l.items, plainRun x = true ∧ (kvGet x.attrs "SRTPosition").getD [] = [] := by
    intro x hx
    have := hm x hx
    simpa [noMarkup] using this
  cases hi : l.items with
  | nil => simp [Line.str, hi] at he
  | cons a rest =>
    have hmerge : mergePlain l.items = [{ a with text := l.str }] := by
      rw [hi, mergePlain_all a rest (fun x hx => (hm1 x (by rw [hi]; exact hx)).1)]
      simp [Line.str, hi]
    obtain ⟨c0, hc0, hc0b⟩ : ∃ c, l.str.head? = some c ∧ c ≠ ' ' := by
      cases hh : l.str.head? with
      | none => simp [hh] at he
      | some c => exact ⟨c, rfl, by simpa [hh] using he.1⟩
    obtain ⟨c1, hc1, hc1b⟩ : ∃ c, l.str.getLast? = some c ∧ c ≠ ' ' := by
      cases hh : l.str.getLast? with
      | none => simp [hh] at he
      | some c => exact ⟨c, rfl, by simpa [hh] using he.2⟩
    have hv0 : visible c0 = true := visible_of_simple (hs c0 (mem_head? hc0)) hc0b
    have hv1 : visible c1 = true := visible_of_simple (hs c1 (mem_getLast? hc1)) hc1b
    have ha := hm1 a (by rw [hi]; simp)
    have hrun : RepRun { a with text := l.str } = true := by
      simp only [RepRun, Bool.and_eq_true, List.any_eq_true, List.all_eq_true, Bool.not_eq_true', beq_iff_eq]
      refine ⟨⟨⟨⟨⟨c0, mem_head? hc0, hv0⟩, ?_⟩, arrow_free _ hs⟩, ha.2⟩, ?_⟩
      · intro c hc
        have hsc := hs c hc
        have n1 := simpleChar_ne hsc (d := '\n') (by decide)
        have n2 := simpleChar_ne hsc (d := '\r') (by decide)
        have n3 := simpleChar_ne hsc (d := '\x00') (by decide)
        simp [n1, n2, n3]
      · rw [styleOf_text, color_none_of_plain a ha.1]
    simp only [RepLine, mergeLine, hmerge, List.isEmpty_cons, Bool.not_false, List.all_cons, List.all_nil, hrun,
      noAdjPlain, List.head?_cons, List.getLast?_singleton, hc0, hc1, Option.any_some, hv0, hv1, Bool.or_true, Bool.and_self]

/-- **Plain cue lists are representable** (after the merge of adjacent unstyled runs, which does not
    change the written text) and ask for no position tag -/
theorem rep_of_plain (s : Subs) (hr : inRange "srt" s = true) (hp : PlainSRT s = true) :
    noPosition s = true ∧ Rep (mergeS s) = true := by
  simp only [PlainSRT, Bool.and_eq_true, Bool.not_eq_true', decide_eq_true_eq, List.all_eq_true] at hp
  obtain ⟨⟨hne, hlen⟩, hl⟩ := hp
  have hrg := inRange_items (dst := "srt") (by decide) hr
  constructor
  · simp only [noPosition, List.all_eq_true]
    intro it hit l hl' li hli
    have := hl it hit l hl'
    simp only [plainLine, Bool.and_eq_true, List.all_eq_true] at this
    have := this.1.1 li hli
    simp only [noMarkup, Bool.and_eq_true] at this
    exact this.2
  · simp only [Rep, mergeS, List.isEmpty_map, hne, Bool.not_false, List.length_map, hlen, decide_true, Bool.true_and,
      List.all_map, List.all_eq_true]
    intro it hit
    obtain ⟨h1, h2, h3, h4⟩ := hrg it hit
    simp only [Function.comp, RepItem, mergeItem, hundredHours, h1, h2, h3, h4, decide_true, Bool.true_and, List.all_map,
      List.all_eq_true]
    intro l hl'
    exact repLine_of_plain l (hl it hit l hl')

end ConvSRT
end Astisub
