import Astisub.Lemmas.STL2Spec

/-!
# Lemmas/STL2Rewrite — timecode bytes of a written file, and of the file written from what was read back
-/

namespace Astisub
namespace C05
open Go STL

/-- bytes 5–12 of a TTI block: timecode in, timecode out -/
def tcBytes (fr : Nat) (tcp : Int) (startAt endAt : Int) : Bytes :=
  Duration.formatSTLBytes (startAt + tcp) fr ++ Duration.formatSTLBytes (endAt + tcp) fr

theorem tti_timecode (g : WGSI) (idx : Nat) (c : WCue) :
    ((ttiBytes g idx c).drop 5).take 8 = tcBytes g.m.framerate.toNat g.m.tcp c.startAt c.endAt := by
  unfold ttiBytes tcBytes Duration.formatSTLBytes
  simp

/-- **the timecode bytes of a file** made of a 1024-byte block followed by the TTI blocks of `cues` -/
theorem timecodes_file (G : WGSI) (gs : Bytes) (hg : gs.length = 1024) (cues : List WCue) :
    Driver.STLD.timecodes (gs ++ (cues.zipIdx.map fun (c, k) => ttiBytes G (k + 1) c).flatten)
      = cues.map fun c => tcBytes G.m.framerate.toNat G.m.tcp c.startAt c.endAt := by
  have hl : ∀ b ∈ (cues.zipIdx.map fun (c, k) => ttiBytes G (k + 1) c), b.length = 128 := by
    intro b hb
    obtain ⟨p, _, rfl⟩ := List.mem_map.mp hb
    exact ttiBytes_length _ _ _
  have hflen : ((cues.zipIdx.map fun (c, k) => ttiBytes G (k + 1) c).flatten).length = 128 * cues.length := by
    rw [flatten_const_length _ _ 128 (fun p => ttiBytes_length _ _ _), List.length_zipIdx]
  unfold Driver.STLD.timecodes
  rw [List.drop_left' hg, blocks_eq_chunks, chunks_flatten _ hl _ (by
    rw [List.length_append, hg, hflen, List.length_map, List.length_zipIdx]; omega)]
  rw [List.map_map]
  have : ((fun p : Bytes => (p.drop 5).take 8) ∘ fun (x : WCue × Nat) => ttiBytes G (x.2 + 1) x.1)
      = fun x => (fun c : WCue => tcBytes G.m.framerate.toNat G.m.tcp c.startAt c.endAt) x.1 := by
    funext x; exact tti_timecode G (x.2 + 1) x.1
  have e : (fun (x : WCue × Nat) => match x with | (c, k) => ttiBytes G (k + 1) c) = fun x => ttiBytes G (x.2 + 1) x.1 := by
    funext x; rfl
  rw [e, this]
  exact zipIdx_map_fst cues (fun c : WCue => tcBytes G.m.framerate.toNat G.m.tcp c.startAt c.endAt) 0

theorem timecodes_writeBody (now : Date) (md : Option Meta) (cues : List WCue) (G : WGSI) (hG : newGSI now md cues = G) :
    Driver.STLD.timecodes (writeBody now md cues) = cues.map fun c => tcBytes G.m.framerate.toNat G.m.tcp c.startAt c.endAt := by
  unfold writeBody
  rw [hG]
  exact timecodes_file G _ (gsiBytes_length G) cues

theorem take_drop_slice (b : Bytes) : (b.drop 256).take 8 = slice b 256 264 := rfl

/-- the programme-start field of a written file -/
theorem tcp_field_writeBody (now : Date) (md : Option Meta) (cues : List WCue) (G : WGSI) (hG : newGSI now md cues = G) :
    ((writeBody now md cues).drop 256).take 8 = padR 0x20 8 (ascii (Duration.formatSTL G.m.tcp G.m.framerate.toNat)) := by
  unfold writeBody
  rw [hG, take_drop_slice]
  generalize hgs : gsiBytes G = gs
  have hlen : gs.length = 1024 := by rw [← hgs]; exact gsiBytes_length G
  rw [slice_append_left gs _ 256 264 (by omega), ← hgs, gsi_tcp]

theorem formatSTL_rewrite (T : Int) (fr : Nat) (hfr : fr = 25 ∨ fr = 30) (h0 : 0 ≤ T) (h1 : T < 86400000000000) :
    Duration.formatSTL (frameInstant (fr : Int) T) fr = Duration.formatSTL T fr := by
  obtain ⟨hle, _⟩ := frameInstant_floor T fr hfr h0 (by omega)
  have hb := frameInstant_rewrite T fr hfr h0 h1
  have hnn : 0 ≤ frameInstant (fr : Int) T := by
    obtain ⟨n, rfl⟩ : ∃ n : Nat, T = (n : Int) := ⟨T.toNat, by omega⟩
    rw [frameInstant_nat n fr hfr (by omega)]; exact Int.natCast_nonneg _
  rw [formatSTL_dd _ fr hfr (by omega), formatSTL_dd T fr hfr (by omega)]
  unfold Duration.formatSTLBytes at hb
  simp only [List.cons.injEq, and_true] at hb
  obtain ⟨e1, e2, e3, e4⟩ := hb
  have a1 : (frameInstant (fr : Int) T).toNat / 3600000000000 = T.toNat / 3600000000000 := by omega
  rw [a1, e2, e3, e4]

/-- the cue times the reader returned, written again with the programme start the reader returned, give the
    timecode bytes of the first file -/
theorem rewrite_tc (R : GSI) (G : WGSI) (off : Int) (fr : Nat) (hfr : fr = 25 ∨ fr = 30) (hg : G.m.framerate = (fr : Int))
    (cs : List MCue) (hday : ∀ c ∈ cs, InDay (c.startAt + G.m.tcp) ∧ InDay (c.endAt + G.m.tcp)) :
    (((cs.map fun c => ttiCueM R G off c).map Driver.STLD.cueOf).map fun c2 => tcBytes fr off c2.startAt c2.endAt)
      = (cs.map MCue.toW).map fun c => tcBytes fr G.m.tcp c.startAt c.endAt := by
  rw [List.map_map, List.map_map, List.map_map]
  apply List.map_congr_left
  intro c hc
  obtain ⟨⟨s0, s1⟩, ⟨e0, e1⟩⟩ := hday c hc
  simp only [Function.comp, Driver.STLD.cueOf, ttiCueM, MCue.toW, tcBytes, hg]
  have a1 : frameInstant (fr : Int) (c.startAt + G.m.tcp) - off + off = frameInstant (fr : Int) (c.startAt + G.m.tcp) := by omega
  have a2 : frameInstant (fr : Int) (c.endAt + G.m.tcp) - off + off = frameInstant (fr : Int) (c.endAt + G.m.tcp) := by omega
  rw [a1, a2, frameInstant_rewrite _ fr hfr s0 s1, frameInstant_rewrite _ fr hfr e0 e1]

end C05
end Astisub
