import Astisub.Lemmas.SSARead2Info

/-!
# Lemmas/SSARead2SecStyles — a `[V4 Styles]` / `[V4+ Styles]` section: the reader's loop and `Spec.SSA.stylesOf`
-/

namespace Astisub
namespace SSAR
open Go SSA
open Spec.SSA (SecKind secKind classify stylesOf normCol nodup styleTable)

/-- one step of `Spec.SSA.stylesOf`, with the row computation named (`specStyleRow`) -/
theorem stylesOf_cons (l : Str) (ls : List Str) (fmt : Option (List String)) :
    stylesOf (l :: ls) fmt =
      match classify l with
      | .comment _ => stylesOf ls fmt
      | .junk => stylesOf ls fmt
      | .kv k v =>
        if k = "Format".toList then
          if fmt.isSome then none else
          if nodup ((splitC ',' v).map fun c => normCol (trimSpace c)) &&
              ((splitC ',' v).map fun c => normCol (trimSpace c)).all (fun c => c = "Name" || (styleTable.lookup c).isSome)
          then stylesOf ls (some ((splitC ',' v).map fun c => normCol (trimSpace c))) else none
        else if k = "Style".toList then
          match fmt with
          | none => none
          | some cols =>
            match specStyleRow cols v, stylesOf ls (some cols) with
            | some g, some rest => some (g :: rest)
            | _, _ => none
        else if fmt.isNone then none else stylesOf ls fmt := by
  rw [stylesOf]
  cases classify l with
  | comment c => rfl
  | junk => rfl
  | kv k v =>
    simp only
    by_cases h1 : k = "Format".toList
    · simp only [h1, ↓reduceIte]
    · simp only [h1, ↓reduceIte]
      by_cases h2 : k = "Style".toList
      · simp only [h2, ↓reduceIte]
        cases fmt with
        | none => rfl
        | some cols =>
          simp only [specStyleRow]
          by_cases h3 : (splitC ',' v).length ≠ cols.length
          · rw [if_pos h3, if_pos h3]
          · rw [if_neg h3, if_neg h3]
            cases Spec.SSA.mapM id _ <;> cases stylesOf ls (some cols) <;> rfl
      · simp only [h2, ↓reduceIte]

/-- the reader's Format list and the decoder's column list of the current section correspond -/
def FmtS (format : List Str) (fmt : Option (List String)) : Prop :=
  match fmt with
  | none => format = []
  | some cols => format ≠ [] ∧ cols = format.map normCol ∧ nodup cols = true ∧
      cols.all (fun c => c = "Name" || (styleTable.lookup c).isSome) = true


theorem stylesLine_format (st : St) (v : Str) :
    stylesLine st "Format".toList v = .ok { st with format := mergeFormat st.format ((splitC ',' v).map trimSpace) } := by
  unfold stylesLine; simp

theorem stylesLine_other (st : St) (k v : Str) (h1 : k ≠ "Format".toList) (h2 : k ≠ "Style".toList) (hf : st.format ≠ []) :
    stylesLine st k v = .ok st := by
  unfold stylesLine
  have : st.format.isEmpty = false := by cases h : st.format <;> simp_all
  rw [if_neg h1, this]
  simp only [Bool.false_eq_true, ↓reduceIte]
  rw [if_pos h2]

theorem stylesLine_style (st : St) (v : Str) (hf : st.format ≠ []) :
    stylesLine st "Style".toList v = match styleRow v st.format with
      | .ok s => .ok { st with styles := st.styles ++ [s] }
      | .err => .err
      | .unmodelled => .unmodelled := by
  unfold stylesLine
  have : st.format.isEmpty = false := by cases h : st.format <;> simp_all
  have hne : ¬ "Style".toList = "Format".toList := by decide
  rw [if_neg hne, this]
  simp only [Bool.false_eq_true, ↓reduceIte]
  rw [if_neg (fun h => h rfl)]
  cases styleRow v st.format <;> rfl

/-- **Styles section.** Whenever the decoder reads the body of a styles section as the styles `gss` (64-bit integers),
    the reader's loop succeeds on it, appends one style per decoded style — each mapped by `view` to the decoded one —
    collects the comments, and changes nothing else -/
theorem run_styles_sec : ∀ (body : List Str) (st : St) (fmt : Option (List String)) (gss : List Spec.SSA.GStyle),
    st.sec = .styles → st.first = false → (∀ l ∈ body, BodyLine l) → FmtS st.format fmt →
    stylesOf body fmt = some gss → (∀ gs ∈ gss, attrs64 gs.attrs = true) →
    ∃ st', runL st body = .ok st' ∧ st'.sec = .styles ∧ st'.first = false ∧ st'.events = st.events ∧
      st'.info.vals = st.info.vals ∧ st'.info.comments = st.info.comments ++ Spec.SSA.commentsOf body ∧
      ∃ ms, st'.styles = st.styles ++ ms ∧ ms.map styleView = gss.map some := by
  intro body
  induction body with
  | nil =>
    intro st fmt gss hs hf _ _ hd _
    simp only [stylesOf, Option.some.injEq] at hd
    subst hd
    exact ⟨st, rfl, hs, hf, rfl, rfl, by simp [Spec.SSA.commentsOf], [], by simp, rfl⟩
  | cons l ls ih =>
    intro st fmt gss hs hf hb hfmt hd h64
    have hl := hb l (by simp)
    have hu : ¬ st.sec = .unknown := by rw [hs]; decide
    have hb' : ∀ x ∈ ls, BodyLine x := fun x hx => hb x (by simp [hx])
    rw [runL, stepL_body st l hl.1 hl.2 hf, if_neg hu, commentsOf_cons]
    rw [stylesOf_cons] at hd
    cases hc : classify l with
    | comment c =>
      rw [hc] at hd
      simp only at hd ⊢
      obtain ⟨st', h1, h2, h3, h4, h5, h6, h7⟩ :=
        ih { st with info := { st.info with comments := st.info.comments ++ [c] } } fmt gss hs hf hb' hfmt hd h64
      exact ⟨st', h1, h2, h3, h4, h5, by rw [h6]; simp, h7⟩
    | junk =>
      rw [hc] at hd
      simp only at hd ⊢
      obtain ⟨st', h1, h2, h3, h4, h5, h6, h7⟩ := ih st fmt gss hs hf hb' hfmt hd h64
      exact ⟨st', h1, h2, h3, h4, h5, by rw [h6]; simp, h7⟩
    | kv k v =>
      rw [hc] at hd
      simp only at hd ⊢
      by_cases hcol : l.head? = some ':'
      · rw [if_pos hcol]
        have hk := classify_kv_colon hc hcol
        subst hk
        have e1 : ¬ ([] : Str) = "Format".toList := by decide
        have e2 : ¬ ([] : Str) = "Style".toList := by decide
        rw [if_neg e1, if_neg e2] at hd
        cases fmt with
        | none => simp at hd
        | some cols =>
          simp only [Option.isNone_some, Bool.false_eq_true, ↓reduceIte] at hd
          obtain ⟨st', h1, h2, h3, h4, h5, h6, h7⟩ := ih st (some cols) gss hs hf hb' hfmt hd h64
          exact ⟨st', h1, h2, h3, h4, h5, by rw [h6]; simp, h7⟩
      · rw [if_neg hcol, kvStep_styles st k v hs]
        by_cases hF : k = "Format".toList
        · subst hF
          rw [if_pos rfl] at hd
          cases fmt with
          | some cols => simp at hd
          | none =>
            simp only [Option.isSome_none, Bool.false_eq_true, ↓reduceIte] at hd
            split at hd
            · rename_i hcond
              rw [Bool.and_eq_true] at hcond
              have hfe : st.format = [] := hfmt
              rw [stylesLine_format]
              simp only
              have hm : mergeFormat st.format ((splitC ',' v).map trimSpace) = (splitC ',' v).map trimSpace := by
                rw [hfe]; simp [mergeFormat]
              rw [hm]
              have hfmt' : FmtS ((splitC ',' v).map trimSpace) (some ((splitC ',' v).map fun c => normCol (trimSpace c))) := by
                refine ⟨?_, by rw [List.map_map]; rfl, hcond.1, hcond.2⟩
                intro e
                exact splitC_ne_nil ',' v (List.map_eq_nil_iff.mp e)
              obtain ⟨st', h1, h2, h3, h4, h5, h6, h7⟩ :=
                ih { st with format := (splitC ',' v).map trimSpace } _ gss hs hf hb' hfmt' hd h64
              exact ⟨st', h1, h2, h3, h4, h5, by rw [h6]; simp, h7⟩
            · cases hd
        · rw [if_neg hF] at hd
          by_cases hS : k = "Style".toList
          · subst hS
            rw [if_pos rfl] at hd
            cases fmt with
            | none => simp at hd
            | some cols =>
              simp only at hd
              obtain ⟨hne, hcols, hnd, hall⟩ := hfmt
              cases hrow : specStyleRow cols v with
              | none => simp [hrow] at hd
              | some g =>
                cases hrest : stylesOf ls (some cols) with
                | none => simp [hrow, hrest] at hd
                | some rest =>
                  simp only [hrow, hrest, Option.some.injEq] at hd
                  subst hd
                  rw [hcols] at hrow hnd hall
                  obtain ⟨m, hm1, hm2⟩ := styleRow_spec st.format v g hnd hall hrow (h64 g (by simp))
                  rw [stylesLine_style st v hne, hm1]
                  simp only
                  obtain ⟨st', h1, h2, h3, h4, h5, h6, ms, h7, h8⟩ :=
                    ih { st with styles := st.styles ++ [m] } (some cols) rest hs hf hb' ⟨hne, hcols, by rw [hcols]; exact hnd, by rw [hcols]; exact hall⟩ hrest
                      (fun gs hgs => h64 gs (by simp [hgs]))
                  refine ⟨st', h1, h2, h3, h4, h5, by rw [h6]; simp, m :: ms, by rw [h7]; simp, ?_⟩
                  simp [hm2, h8]
          · rw [if_neg hS] at hd
            cases fmt with
            | none => simp at hd
            | some cols =>
              simp only [Option.isNone_some, Bool.false_eq_true, ↓reduceIte] at hd
              rw [stylesLine_other st k v hF hS hfmt.1]
              obtain ⟨st', h1, h2, h3, h4, h5, h6, h7⟩ := ih st (some cols) gss hs hf hb' hfmt hd h64
              exact ⟨st', h1, h2, h3, h4, h5, by rw [h6]; simp, h7⟩

end SSAR
end Astisub
