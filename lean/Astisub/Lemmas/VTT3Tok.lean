import Astisub.Lemmas.VTT3Ts

/-!
# Lemmas/VTT3Tok — a text token with inline timestamps: what the reader's `textToken` makes of it

A text token of a line of the decoder's class is `pre <t1> x1 <t2> x2 … <tn> xn` (`rawTok pre segs`):
`<`-free pieces separated by accepted inline timestamps.  `splitTs` finds exactly these pieces
(`splitTs_rawTok`); `textToken` returns `tokAct` (`textToken_rawTok`), which is the fold `tokVal`
except for one white-space-only item when the token is white space only (`tokAct_eq`).
Also: "blank before decoding = blank after decoding" for text without `&nbsp;` (`blank_unescape`).
-/

namespace Astisub
namespace VTTRead
open Go Spec.VTT List
open SRT (unescapeHTML)

/-! ### blank text -/

theorem trimSpace_nil_iff (x : Str) : trimSpace x = [] ↔ ∀ c ∈ x, isSpace c = true := by
  constructor
  · intro h c hc
    obtain ⟨a, b, ha, hb, e⟩ := trim_decomp x
    rw [h] at e
    rw [e] at hc
    simp only [List.append_nil, List.mem_append] at hc
    rcases hc with hc | hc
    · exact ha c hc
    · exact hb c hc
  · exact VTT.trimSpace_nil_of_all

theorem noNbsp_cons (c : Char) (cs : Str) :
    noNbsp (c :: cs) = (!hasPrefix "&nbsp;".toList (c :: cs) && noNbsp cs) := rfl

theorem noNbsp_tail {c : Char} {cs : Str} (h : noNbsp (c :: cs) = true) : noNbsp cs = true := by
  rw [noNbsp_cons] at h
  simp only [Bool.and_eq_true] at h
  exact h.2

theorem noNbsp_drop : ∀ (a b : Str), noNbsp (a ++ b) = true → noNbsp b = true := by
  intro a
  induction a with
  | nil => intro b h; exact h
  | cons c a ih => intro b h; exact ih b (noNbsp_tail h)

theorem nbsp_noLt : ∀ c ∈ "&nbsp;".toList, c ≠ '<' := by decide

theorem noNbsp_take : ∀ (x r : Str), RestLt r → noNbsp (x ++ r) = true → noNbsp x = true := by
  intro x
  induction x with
  | nil => intro _ _ _; rfl
  | cons c x ih =>
    intro r hr h
    rw [List.cons_append, noNbsp_cons] at h
    simp only [Bool.and_eq_true] at h
    rw [noNbsp_cons]
    have := hasPrefix_app "&nbsp;".toList nbsp_noLt r hr (c :: x)
    rw [List.cons_append] at this
    rw [← this, h.1, ih r hr h.2]
    rfl

theorem space_amp : isSpace '&' = false := by decide
theorem space_lt : isSpace '<' = false := by decide

theorem unescape_blank : ∀ (x : Str), noNbsp x = true →
    ((∀ c ∈ unescapeHTML x, isSpace c = true) ↔ (∀ c ∈ x, isSpace c = true)) := by
  intro x
  induction x with
  | nil => intro _; rw [unescape_nil]
  | cons c x0 ih =>
    intro hn
    by_cases hc : c = '&'
    · subst hc
      have hR : ¬ (∀ c ∈ '&' :: x0, isSpace c = true) := by
        intro h
        have := h '&' (by simp)
        rw [space_amp] at this; cases this
      have hL : ¬ (∀ c ∈ unescapeHTML ('&' :: x0), isSpace c = true) := by
        rw [unescape_amp]
        rw [noNbsp_cons, nbsp6, hasPrefix_cons] at hn
        simp only [Bool.and_eq_true, Bool.not_eq_true'] at hn
        intro h
        split at h
        · have := h '&' (by simp); rw [space_amp] at this; cases this
        · split at h
          · have := h '<' (by simp); rw [space_lt] at this; cases this
          · rw [if_neg (by rw [hn.1]; simp)] at h
            have := h '&' (by simp); rw [space_amp] at this; cases this
      exact ⟨fun h => absurd h hL, fun h => absurd h hR⟩
    · rw [unescape_char c x0 hc]
      have := ih (noNbsp_tail hn)
      constructor
      · intro h d hd
        rcases List.mem_cons.mp hd with e | e
        · subst e; exact h d (by simp)
        · exact this.mp (fun y hy => h y (by simp [hy])) d e
      · intro h d hd
        rcases List.mem_cons.mp hd with e | e
        · subst e; exact h d (by simp)
        · exact this.mpr (fun y hy => h y (by simp [hy])) d e

/-- text without `&nbsp;` is blank before decoding iff it is blank after decoding -/
theorem blank_unescape (x : Str) (hn : noNbsp x = true) :
    trimSpace (unescapeHTML x) = [] ↔ trimSpace x = [] := by
  rw [trimSpace_nil_iff, trimSpace_nil_iff]
  exact unescape_blank x hn

/-- blank text holds no character reference: decoding leaves it as it is -/
theorem unescape_of_blank : ∀ (x : Str), (∀ c ∈ x, isSpace c = true) → unescapeHTML x = x := by
  intro x
  induction x with
  | nil => intro _; exact unescape_nil
  | cons c x ih =>
    intro h
    have hc : c ≠ '&' := by
      intro e; subst e
      have := h '&' (by simp); rw [space_amp] at this; cases this
    rw [unescape_char c x hc, ih (fun d hd => h d (by simp [hd]))]

/-! ### the pieces of a text token -/

/-- an accepted inline timestamp followed by `<`-free text -/
def SegOK (p : Str × Str) : Prop := (∃ t, inlineTs p.1 = some t) ∧ ∀ c ∈ p.2, c ≠ '<'

def segRaw (p : Str × Str) : Str := '<' :: p.1 ++ '>' :: p.2

/-- the raw text token -/
def rawTok (pre : Str) (segs : List (Str × Str)) : Str := pre ++ (segs.map segRaw).flatten

theorem rawTok_nil (pre : Str) : rawTok pre [] = pre := by simp [rawTok]

theorem rawTok_snoc (pre : Str) (segs : List (Str × Str)) (cap x : Str) :
    rawTok pre (segs ++ [(cap, x)]) = rawTok pre segs ++ ('<' :: cap ++ '>' :: x) := by
  simp [rawTok, segRaw]

theorem splitTs_seg (fuel : Nat) (cap rest : Str) (h : ∃ t, inlineTs cap = some t) :
    splitTs (fuel + 1) ('<' :: cap ++ '>' :: rest) = ([], (cap, (splitTs fuel rest).1) :: (splitTs fuel rest).2) := by
  obtain ⟨t, ht⟩ := h
  have : '<' :: cap ++ '>' :: rest = '<' :: (cap ++ '>' :: rest) := by simp
  rw [this]
  simp [splitTs, tsAt_inline ht]

theorem notMem_of_ne {x : Str} (h : ∀ c ∈ x, c ≠ '<') : '<' ∉ x := fun hm => h _ hm rfl

theorem splitTs_nil (fuel : Nat) : splitTs fuel [] = ([], []) := by
  cases fuel <;> rfl

theorem splitTs_segs2 (segs : List (Str × Str)) : (∀ p ∈ segs, SegOK p) → ∀ (fuel : Nat),
    ((segs.map segRaw).flatten).length < fuel → splitTs fuel ((segs.map segRaw).flatten) = ([], segs) := by
  induction segs with
  | nil => intro _ fuel _; exact splitTs_nil fuel
  | cons p segs ih =>
    intro hs fuel hf
    obtain ⟨hcap, hx⟩ := hs p (by simp)
    simp only [map_cons, flatten_cons, segRaw, length_append, length_cons] at hf ⊢
    obtain ⟨k, rfl⟩ : ∃ k, fuel = (k + p.2.length) + 1 := ⟨fuel - p.2.length - 1, by omega⟩
    have e : ('<' :: p.1 ++ '>' :: p.2) ++ (map segRaw segs).flatten
        = '<' :: p.1 ++ '>' :: (p.2 ++ (map segRaw segs).flatten) := by simp
    have e2 : (map (fun p => '<' :: p.1 ++ '>' :: p.2) segs) = map segRaw segs := rfl
    rw [e, splitTs_seg _ _ _ hcap, VTT.splitTs_text _ (notMem_of_ne hx),
      ih (fun q hq => hs q (by simp [hq])) k (by omega)]
    simp

theorem splitTs_rawTok (pre : Str) (segs : List (Str × Str)) (hpre : ∀ c ∈ pre, c ≠ '<')
    (hs : ∀ p ∈ segs, SegOK p) :
    splitTs ((rawTok pre segs).length + 1) (rawTok pre segs) = (pre, segs) := by
  unfold rawTok
  rw [show (pre ++ (segs.map segRaw).flatten).length + 1 = (((segs.map segRaw).flatten).length + 1) + pre.length by
    simp; omega]
  rw [VTT.splitTs_text _ (notMem_of_ne hpre), splitTs_segs2 segs hs _ (by omega)]
  simp

/-! ### what `textToken` returns -/

def mkItem (attrs : Attrs) (text : Str) (at_ : Int) : LItem := { text := text, startAt := at_, attrs := attrs }

/-- one segment: a blank text leaves its instant pending, any other text is a run -/
def segStep (attrs : Attrs) (acc : List LItem × Int) (p : Str × Str) : List LItem × Int :=
  if trimSpace p.2 = [] then (acc.1, (Duration.parseVTT p.1).getD 0)
  else (acc.1 ++ [mkItem attrs (unescapeHTML p.2) ((Duration.parseVTT p.1).getD 0)], 0)

/-- the text before the first timestamp -/
def tokFirst (attrs : Attrs) (pre : Str) (pending : Int) : List LItem × Int :=
  if trimSpace pre ≠ [] then ([mkItem attrs (unescapeHTML pre) pending], 0) else ([], pending)

/-- the fold: the items with text and the pending instant of a text token -/
def tokVal (attrs : Attrs) (pre : Str) (segs : List (Str × Str)) (pending : Int) : List LItem × Int :=
  segs.foldl (segStep attrs) (tokFirst attrs pre pending)

/-- what `textToken` really returns: as `tokVal`, but a token without timestamp that is white space
    only is an item (without instant) -/
def tokAct (attrs : Attrs) (pre : Str) (segs : List (Str × Str)) (pending : Int) : List LItem × Int :=
  if segs = [] ∧ trimSpace pre = [] then ([mkItem attrs (unescapeHTML pre) 0], pending)
  else tokVal attrs pre segs pending

theorem tokVal_nil_nil (attrs : Attrs) (pending : Int) : tokVal attrs [] [] pending = ([], pending) := by
  simp [tokVal, tokFirst, trimSpace, trimLeft, trimRight]

theorem tokVal_snoc (attrs : Attrs) (pre : Str) (segs : List (Str × Str)) (pending : Int) (p : Str × Str) :
    tokVal attrs pre (segs ++ [p]) pending = segStep attrs (tokVal attrs pre segs pending) p := by
  simp [tokVal, foldl_append]

theorem segStep_indep (attrs : Attrs) (a : List LItem) (x y : Int) (p : Str × Str) :
    segStep attrs (a, x) p = segStep attrs (a, y) p := by
  simp [segStep]

theorem any_small (segs : List (Str × Str)) (hs : ∀ p ∈ segs, SegOK p) :
    segs.any (fun p => !VTT.smallNumbers p.1) = false := by
  rw [List.any_eq_false]
  intro p hp
  obtain ⟨⟨t, ht⟩, _⟩ := hs p hp
  simp [small_inline ht]

theorem textToken_rawTok (attrs : Attrs) (pre : Str) (segs : List (Str × Str)) (pending : Int)
    (hpre : ∀ c ∈ pre, c ≠ '<') (hs : ∀ p ∈ segs, SegOK p) :
    VTT.textToken attrs (rawTok pre segs) pending = some (tokAct attrs pre segs pending) := by
  unfold VTT.textToken
  rw [splitTs_rawTok pre segs hpre hs]
  simp only []
  cases segs with
  | nil =>
    simp only [isEmpty_nil, if_true, rawTok_nil, tokAct, true_and, tokVal, foldl_nil, tokFirst, mkItem]
    by_cases hb : trimSpace pre = []
    · simp [hb]
    · simp [hb]
  | cons p segs =>
    rw [if_neg (by simp), if_neg (by rw [any_small _ hs]; simp)]
    have hne : ¬ ((p :: segs) = [] ∧ trimSpace pre = []) := by simp
    have hstep : (fun (acc : List LItem × Int) (p : Str × Str) =>
        let t := (Duration.parseVTT p.1).getD 0
        if trimSpace p.2 = [] then (acc.1, t)
        else (acc.1 ++ [{ text := unescapeHTML p.2, startAt := t, attrs := attrs }], 0)) = segStep attrs := rfl
    rw [hstep]
    simp only [tokAct, if_neg hne, tokVal, foldl_cons]
    have hfirst : (tokFirst attrs pre pending).1 =
        (if trimSpace pre ≠ [] then [{ text := unescapeHTML pre, startAt := pending, attrs := attrs }] else []) := by
      unfold tokFirst
      by_cases hb : trimSpace pre = []
      · simp [hb]
      · simp [hb, mkItem]
    have : segStep attrs (tokFirst attrs pre pending) p
        = segStep attrs ((tokFirst attrs pre pending).1, pending) p :=
      segStep_indep attrs _ _ _ p
    rw [this, hfirst]

/-- the reader's state after the pending text `rawTok pre segs` has been handed over as a text token -/
theorem flushSt_rawTok (st : VTT.PT) (pre : Str) (segs : List (Str × Str))
    (hpre : ∀ c ∈ pre, c ≠ '<') (hs : ∀ p ∈ segs, SegOK p) (hne : rawTok pre segs ≠ []) :
    VTT.flushSt st (rawTok pre segs).reverse =
      some { st with items := st.items ++ (tokAct (VTT.tagsAttrs st.tags) pre segs st.pending).1,
                     pending := (tokAct (VTT.tagsAttrs st.tags) pre segs st.pending).2 } := by
  unfold VTT.flushSt
  rw [if_neg (by simpa using hne), List.reverse_reverse]
  simp only [VTT.stepTok, textToken_rawTok _ pre segs _ hpre hs]

theorem flushSt_nil (st : VTT.PT) : VTT.flushSt st [] = some st := by simp [VTT.flushSt]

end VTTRead
end Astisub
