import Astisub.Lemmas.TelePage

/-!
# Lemmas/TeleStream — PES packets and whole streams

* `process_pesPackets`: `process` on a PES payload the specification can cut and decode = `applyPacket` folded over
  the specification's packets;
* `stream_sim`: over a whole stream, the model's accumulator and the specification's automaton stay related
  (`PRel`), unless the specification leaves its class;
* `finish_pages`, `feed_first_last`, `key_agrees`: the pages handed to the page parser are the specification's
  instances, the time origin / last time are the minimum / maximum presentation times, and the character set
  designation is the specification's.
-/

namespace Astisub
namespace Teletext
open Go Generated.Teletext
open Spec.Teletext (Packet Inst St)

/-! ## one PES packet -/

theorem mapM_cons {α β} (f : α → Option β) (x : α) (xs : List α) (ys : List β)
    (h : Spec.Teletext.mapM f (x :: xs) = some ys) :
    ∃ y ys', f x = some y ∧ Spec.Teletext.mapM f xs = some ys' ∧ ys = y :: ys' := by
  simp only [Spec.Teletext.mapM] at h
  cases hx : f x with
  | none => simp [hx] at h
  | some y =>
    cases hxs : Spec.Teletext.mapM f xs with
    | none => simp [hx, hxs] at h
    | some ys' =>
      simp [hx, hxs] at h
      exact ⟨y, ys', rfl, rfl, h.symm⟩

theorem mapM_nil {α β} (f : α → Option β) : Spec.Teletext.mapM f [] = some [] := rfl

/-- the units, all bytes, whose subtitle ones the specification decodes: the model's walk over them is `applyPacket`
    over the packets -/
theorem feedUnits_packets (t : Int) : ∀ (us : List DUnit) (ps : List Packet) (b : Buf),
    (∀ u ∈ us, Bytes u.2) →
    Spec.Teletext.mapM (fun (u : Nat × List Nat) => Spec.Teletext.decodePacket u.2) (us.filter fun u => u.1 == 0x03) = some ps →
    feedUnits t b us = ps.foldl (applyPacket t) b
  | [], ps, b, _, h => by
    simp [mapM_nil] at h; subst h; rfl
  | u :: us, ps, b, hb, h => by
    by_cases h3 : u.1 = 3
    · have hf : (u :: us).filter (fun u => u.1 == 0x03) = u :: us.filter (fun u => u.1 == 0x03) := by
        simp [List.filter_cons, h3]
      rw [hf] at h
      obtain ⟨p, ps', hp, hps, e⟩ := mapM_cons _ _ _ _ h
      subst e
      have hu : parseDataUnit b u.2 u.1 t = applyPacket t b p := by
        rw [h3]; exact parseDataUnit_decodePacket b u.2 t p (hb u (by simp)) hp
      simp only [feedUnits, List.foldl_cons, hu]
      exact feedUnits_packets t us ps' _ (fun v hv => hb v (by simp [hv])) hps
    · have hf : (u :: us).filter (fun u => u.1 == 0x03) = us.filter (fun u => u.1 == 0x03) := by
        simp [List.filter_cons, h3]
      rw [hf] at h
      have hu : parseDataUnit b u.2 u.1 t = b := C06.C06_unit_not_subtitle b _ _ t h3
      simp only [feedUnits, List.foldl_cons, hu]
      exact feedUnits_packets t us ps b (fun v hv => hb v (by simp [hv])) h

theorem bytes_of_units : ∀ (us : List DUnit), Bytes (encodeUnits us) → ∀ u ∈ us, Bytes u.2
  | [], _, u, hu => by cases hu
  | v :: us, h, u, hu => by
    rw [encodeUnits_cons] at h
    rcases List.mem_cons.mp hu with e | e
    · subst e
      intro x hx
      exact h x (by simp [hx])
    · exact bytes_of_units us (fun x hx => h x (by simp [hx])) u e

/-- **`process` = the specification's packets through `applyPacket`.**  For every PES payload (all bytes) that the
    specification cuts into data units and decodes into packets `ps`: the model's `process` leaves the page
    buffer where `applyPacket` leaves it after `ps`, with the finished pages handed over. -/
theorem process_pesPackets (b : Buf) (payload : List Nat) (t : Int) (ps : List Packet) (hb : Bytes payload)
    (hdone : b.done = [])
    (h : Spec.Teletext.pesPackets payload = some ps) :
    process b payload t = ({ ps.foldl (applyPacket t) b with done := [] }, (ps.foldl (applyPacket t) b).done) := by
  cases payload with
  | nil => simp [Spec.Teletext.pesPackets] at h
  | cons ident rest =>
    simp only [Spec.Teletext.pesPackets] at h
    by_cases hid : ident < 0x10 ∨ ident > 0x1f
    · have : (decide (ident < 0x10) || decide (ident > 0x1f)) = true := by rcases hid with e | e <;> simp [e]
      simp only [this, if_true, Option.some.injEq] at h
      subst h
      rw [C06.C06_not_ebu b ident rest t hid]
      simp only [List.foldl_nil, hdone]
      cases b; simp_all
    · have : (decide (ident < 0x10) || decide (ident > 0x1f)) = false := by simp; omega
      simp only [this, Bool.false_eq_true, if_false] at h
      cases hu : Spec.Teletext.dataUnits rest.length rest with
      | none => simp [hu] at h
      | some us =>
        simp only [hu] at h
        have hrest : Bytes rest := fun x hx => hb x (by simp [hx])
        have henc := dataUnits_some _ _ _ hu
        rw [process_dataUnits b ident rest t us (by omega) hu,
          feedUnits_packets t us ps b (bytes_of_units us (henc ▸ hrest)) h]

theorem pesPackets_ok (payload : List Nat) (ps : List Packet) (h : Spec.Teletext.pesPackets payload = some ps) :
    ∀ p ∈ ps, PacketOK p := by
  cases payload with
  | nil => simp [Spec.Teletext.pesPackets] at h
  | cons ident rest =>
    simp only [Spec.Teletext.pesPackets] at h
    split at h
    · cases h; intro p hp; cases hp
    · split at h
      · cases h
      · rename_i us _
        generalize (us.filter fun u => u.1 == 0x03) = l at h
        induction l generalizing ps with
        | nil => simp [mapM_nil] at h; subst h; intro p hp; cases hp
        | cons u l ih =>
          obtain ⟨p, ps', hp, hps, e⟩ := mapM_cons _ _ _ _ h
          subst e
          intro q hq
          rcases List.mem_cons.mp hq with e | e
          · subst e; exact decodePacket_ok _ _ hp
          · exact ih ps' hps q e

/-! ## a stream -/

/-- the model's accumulator after the PES packets (the data loop of `VerifTeletextRun`) -/
def runAcc (a : Acc) (pes : List (Int × List Nat)) : Acc := pes.foldl (fun a p => feed a p.2 p.1) a

/-- the specification's automaton after the packets of the PES packets -/
def runSpec (s : St) (pk : List (Int × List Packet)) : St :=
  pk.foldl (fun s p => p.2.foldl (Spec.Teletext.step p.1) s) s

/-- model and specification between two PES packets -/
structure ARel (a : Acc) (s : St) : Prop where
  rel : PRel a.pages a.buf s
  done : a.buf.done = []

theorem runSpec_bad : ∀ (pk : List (Int × List Packet)) (s : St), s.bad = true → (runSpec s pk).bad = true
  | [], _, h => h
  | p :: pk, s, h => by
    simp only [runSpec, List.foldl_cons]
    exact runSpec_bad pk _ (foldl_step_bad p.1 p.2 s h)

theorem ARel.feed {a : Acc} {s : St} (h : ARel a s) (t : Int) (payload : List Nat) (ps : List Packet)
    (hb : Bytes payload) (hp : Spec.Teletext.pesPackets payload = some ps) :
    (ps.foldl (Spec.Teletext.step t) s).bad = true ∨ ARel (feed a payload t) (ps.foldl (Spec.Teletext.step t) s) := by
  rcases PRel.foldl t ps h.rel (pesPackets_ok payload ps hp) with hbad | hr
  · exact Or.inl hbad
  · right
    have hproc := process_pesPackets a.buf payload t ps hb h.done hp
    unfold Teletext.feed
    rw [hproc]
    refine ⟨⟨hr.sel.congr rfl rfl rfl rfl, hr.recv, hr.cur, ?_, hr.keys⟩, rfl⟩
    simp only [List.append_nil]
    exact hr.done

/-- **stream simulation**: after any list of PES packets in the specification's class, the model's accumulator and the
    specification's automaton are related, unless the specification has left its class (`bad`) -/
theorem stream_sim : ∀ (pes : List (Int × List Nat)) (pk : List (Int × List Packet)) (a : Acc) (s : St), ARel a s →
    (∀ p ∈ pes, Bytes p.2) →
    Spec.Teletext.mapM (fun (p : Int × List Nat) => (Spec.Teletext.pesPackets p.2).map fun ps => (p.1, ps)) pes = some pk →
    (runSpec s pk).bad = true ∨ ARel (runAcc a pes) (runSpec s pk)
  | [], pk, a, s, h, _, hpk => by
    simp [mapM_nil] at hpk; subst hpk; exact Or.inr h
  | p :: pes, pk, a, s, h, hb, hpk => by
    obtain ⟨q, pk', hq, hpk', e⟩ := mapM_cons _ _ _ _ hpk
    subst e
    cases hps : Spec.Teletext.pesPackets p.2 with
    | none => simp [hps] at hq
    | some ps =>
      simp [hps] at hq
      subst hq
      simp only [runSpec, runAcc, List.foldl_cons]
      rcases h.feed p.1 p.2 ps (hb p (by simp)) hps with hbad | hr
      · exact Or.inl (runSpec_bad pk' _ hbad)
      · exact stream_sim pes pk' _ _ hr (fun r hr => hb r (by simp [hr])) hpk'

/-- the page option the specification and the model read the same way: 0 (automatic) or a page below 25600 -/
theorem ARel.init (page : Nat) (hp : page < 25600) : ARel { buf := newBuf page } { sel := Spec.Teletext.selOf page } := by
  refine ⟨⟨?_, rfl, rfl, rfl, ?_⟩, rfl⟩
  · by_cases h0 : page = 0
    · subst h0; left; exact ⟨rfl, rfl, rfl, rfl⟩
    · right
      refine ⟨page / 100, page / 10 % 10, page % 10, ?_, by omega, by omega, ?_, ?_, by omega⟩
      · simp [Spec.Teletext.selOf, h0]
      · show page / 100 % 256 = page / 100; omega
      · show page % 100 = page / 10 % 10 * 10 + page % 10; omega
  · unfold KRel
    refine ⟨fun t ht => ?_, fun t ht => ?_, fun h => absurd rfl h⟩
    · exact absurd ht (by simp [newBuf])
    · exact absurd ht (by simp [newBuf])

/-! ## what `finish` starts from -/

/-- the pages `finish` hands to the page parser: the finished ones, then the one under construction ending at `last` -/
def finalPages (a : Acc) : List Page :=
  a.pages ++ (match a.buf.current with
    | some p => [{ p with end_ := a.last.getD 0 }]
    | none => [])

/-- the instances the specification turns into cues -/
def finalInsts (s : St) (last : Int) : List (Inst × Int) :=
  s.done ++ (match s.cur with | some i => [(i, last)] | none => [])

theorem finish_eq (a : Acc) :
    finish a = { items := ((finalPages a).foldl (parsePage (tripletOf a.buf.x28 a.buf.m29) (a.first.getD 0)) ({}, [])).2 } := rfl

/-- **the pages the model parses are the specification's instances** -/
theorem finish_pages (a : Acc) (s : St) (h : ARel a s) :
    finalPages a = (finalInsts s (a.last.getD 0)).map fun ie => pageOf ie.1 ie.2 := by
  unfold finalPages finalInsts
  have hd := h.rel.done
  rw [h.done, List.append_nil] at hd
  rw [List.map_append, ← hd, h.rel.cur]
  cases s.cur <;> rfl

/-- **the character set designation**: when the designations the specification met do not contradict each other, the
    key `updateCharset` derives from the remembered triplets is the specification's -/
theorem key_agrees (a : Acc) (s : St) (h : ARel a s) (hk : s.keys.any (· != s.keys.headD 0) = false) :
    keyOf (tripletOf a.buf.x28 a.buf.m29) = s.keys.headD 0 := by
  obtain ⟨k1, k2, k3⟩ := h.rel.keys
  have hall : ∀ k ∈ s.keys, k = s.keys.headD 0 := by
    intro k hkm
    have := List.any_eq_false.mp hk k hkm
    simpa using this
  unfold tripletOf
  cases hx : a.buf.x28 with
  | some t => simp only [Option.orElse, Option.getD]; exact hall _ (k1 t hx)
  | none =>
    cases hm : a.buf.m29 with
    | some t => simp only [Option.orElse, Option.getD]; exact hall _ (k2 t hm)
    | none =>
      have : s.keys = [] := by
        cases hkeys : s.keys with
        | nil => rfl
        | cons k ks =>
          have := k3 (by rw [hkeys]; simp)
          simp [hx, hm] at this
      simp only [Option.orElse, Option.getD, this, List.headD]
      decide

/-! ## times -/

theorem feed_first (a : Acc) (payload : List Nat) (t : Int) :
    (feed a payload t).first = some (match a.first with | none => t | some f => min f t) := by
  unfold feed
  cases a.first with
  | none => rfl
  | some f =>
    simp only [Option.some.injEq]
    show (if f > t then t else f) = min f t
    rw [Int.min_def]; split <;> split <;> omega

theorem feed_last (a : Acc) (payload : List Nat) (t : Int) :
    (feed a payload t).last = some (match a.last with | none => t | some f => max f t) := by
  unfold feed
  cases a.last with
  | none => rfl
  | some f =>
    simp only [Option.some.injEq]
    show (if f < t then t else f) = max f t
    rw [Int.max_def]; split <;> split <;> omega

theorem runAcc_first_last : ∀ (pes : List (Int × List Nat)) (a : Acc) (f l : Int), a.first = some f → a.last = some l →
    (runAcc a pes).first = some ((pes.map (·.1)).foldl min f) ∧ (runAcc a pes).last = some ((pes.map (·.1)).foldl max l)
  | [], a, f, l, hf, hl => ⟨hf, hl⟩
  | p :: pes, a, f, l, hf, hl => by
    simp only [runAcc, List.foldl_cons, List.map_cons]
    exact runAcc_first_last pes _ (min f p.1) (max l p.1) (by rw [feed_first, hf]) (by rw [feed_last, hl])

/-- **time origin and last time**: after a non-empty stream they are the minimum and maximum presentation times,
    computed as the specification computes them -/
theorem first_last (page : Nat) (t0 : Int) (d0 : List Nat) (pes : List (Int × List Nat)) :
    (runAcc { buf := newBuf page } ((t0, d0) :: pes)).first = some ((pes.map (·.1)).foldl min t0) ∧
    (runAcc { buf := newBuf page } ((t0, d0) :: pes)).last = some ((pes.map (·.1)).foldl max t0) := by
  simp only [runAcc, List.foldl_cons]
  exact runAcc_first_last pes _ t0 t0 (by rw [feed_first]) (by rw [feed_last])

theorem runPES_eq (page : Nat) (pes : List (Int × List Nat)) : runPES page pes = finish (runAcc { buf := newBuf page } pes) := rfl

end Teletext
end Astisub
