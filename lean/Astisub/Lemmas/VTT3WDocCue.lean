import Astisub.Lemmas.VTT3WDocDefs

/-!
# Lemmas/VTT3WDocCue — the independent decoder's cue block on the written cue lines

`cueBlock_written`: on the lines `VTT.cueCore s k it` (number, timing line, text lines) of a `cueOk2` cue the
decoder `Spec.VTT.block` appends one cue whose lines are `glOf it`.
-/

set_option linter.unusedSimpArgs false

namespace Astisub
namespace VTT3W
open Go Spec.VTT

/-! ### the cue number line -/

theorem isDigit_digitChar {k : Nat} (h : k < 10) : Spec.VTT.isDigit (digitChar k) = true := by
  rcases digitChar_lt h with h|h|h|h|h|h|h|h|h|h <;> subst h <;> decide

theorem toNat_digitChar {k : Nat} (h : k < 10) : (digitChar k).toNat - 48 = k := by
  rcases digitChar_lt h with h|h|h|h|h|h|h|h|h|h <;> subst h <;> decide

theorem isDigit_of_digitStr {t : Str} (h : DigitStr t) : ∀ c ∈ t, Spec.VTT.isDigit c = true := by
  intro c hc
  obtain ⟨k, hk, rfl⟩ := h c hc
  exact isDigit_digitChar hk

/-- the decoder's `natOf` on a non-empty digit string is `digitsVal` -/
theorem natOf_of_digitsVal {t : Str} {n : Nat} (hne : t ≠ []) (hd : ∀ c ∈ t, Spec.VTT.isDigit c = true)
    (hv : digitsVal t 0 = some n) : natOf t = some n := by
  have hf := VTTRead.digitsVal_foldl t 0 hd
  rw [hv] at hf
  have he : t.isEmpty = false := by cases t with
    | nil => exact absurd rfl hne
    | cons x xs => rfl
  have ha : t.all Spec.VTT.isDigit = true := List.all_eq_true.mpr hd
  unfold natOf
  rw [he, ha]
  simp only [Bool.not_true, Bool.or_self, Bool.false_eq_true, if_false]
  exact hf.symm

/-- the written number starts with a digit -/
theorem itoaNat_head (n : Nat) : ∃ k tl, k < 10 ∧ itoaNat n = digitChar k :: tl :=
  VTT.itoaAux_head (n + 1) n [] (by omega)

theorem natOf_itoaNat (n : Nat) : natOf (itoaNat n) = some n := by
  obtain ⟨k, tl, _, he⟩ := itoaNat_head n
  exact natOf_of_digitsVal (by rw [he]; exact List.cons_ne_nil _ _)
    (isDigit_of_digitStr (VTT.digitStr_itoaNat n)) (VTT.digitsVal_itoaNat n)

theorem no_arrow_itoaNat (n : Nat) : contains Spec.VTT.arrow (itoaNat n) = false := by
  show contains VTT.arrow (itoaNat n) = false
  apply VTT.contains_arrow_false
  intro c hc e
  obtain ⟨j, hj, rfl⟩ := VTT.digitStr_itoaNat n c hc
  exact (digitChar_ne_minus hj).mp e

theorem digitChar_ne_of {k : Nat} (hk : k < 10) (x : Char) (hx : Spec.VTT.isDigit x = false) : x ≠ digitChar k := by
  intro e
  rw [e, isDigit_digitChar hk] at hx
  cases hx

theorem hasPrefix_digitChar (p : Char) (ps : Str) {k : Nat} (hk : k < 10) (tl : Str)
    (hp : Spec.VTT.isDigit p = false) : hasPrefix (p :: ps) (digitChar k :: tl) = false :=
  VTT.hasPrefix_ne ps tl (digitChar_ne_of hk p hp)

theorem noteLine_itoaNat (n : Nat) : Spec.VTT.noteLine (itoaNat n) = none := by
  obtain ⟨k, tl, hk, he⟩ := itoaNat_head n
  rw [he]
  unfold noteLine
  rw [VTTRead.lit_note]
  have h1 : ¬ (digitChar k :: tl = ['N', 'O', 'T', 'E']) := by
    intro e
    exact digitChar_ne_of hk 'N' (by decide) (List.cons.inj e).1.symm
  rw [if_neg h1, VTT.dropPrefix?_ne _ _ (digitChar_ne_of hk 'N' (by decide))]

theorem itoaNat_ne_style (n : Nat) : itoaNat n ≠ "STYLE".toList := by
  obtain ⟨k, tl, hk, he⟩ := itoaNat_head n
  rw [he, VTTRead.lit_style]
  intro e
  exact digitChar_ne_of hk 'S' (by decide) (List.cons.inj e).1.symm

theorem metaT_itoaNat (n : Nat) : VTTRead.metaT (itoaNat n) = false := by
  obtain ⟨k, tl, hk, he⟩ := itoaNat_head n
  rw [he]
  unfold VTTRead.metaT
  rw [VTTRead.lit_region, VTTRead.lit_tsmap, hasPrefix_digitChar 'R' _ hk tl (by decide),
    hasPrefix_digitChar 'X' _ hk tl (by decide)]
  rfl

theorem lit_note_tab : "NOTE\t".toList = ['N', 'O', 'T', 'E', '\t'] := rfl

theorem opener_itoaNat (n : Nat) : opener (itoaNat n) = false := by
  obtain ⟨k, tl, hk, he⟩ := itoaNat_head n
  rw [he]
  unfold opener
  rw [VTTRead.lit_note, VTTRead.lit_note_sp, lit_note_tab, VTTRead.lit_style, VTTRead.lit_region, VTTRead.lit_tsmap,
    hasPrefix_digitChar 'N' _ hk tl (by decide), hasPrefix_digitChar 'N' _ hk tl (by decide),
    hasPrefix_digitChar 'S' _ hk tl (by decide), hasPrefix_digitChar 'R' _ hk tl (by decide),
    hasPrefix_digitChar 'X' _ hk tl (by decide)]
  have h1 : ¬ (digitChar k :: tl = ['N', 'O', 'T', 'E']) := by
    intro e
    exact digitChar_ne_of hk 'N' (by decide) (List.cons.inj e).1.symm
  simp [h1]

/-- the written cue number is an identifier for the decoder -/
theorem cueId_itoaNat (n : Nat) (h : n < 2 ^ 62) : Spec.VTT.cueId (itoaNat n) = some (n : Int) := by
  unfold cueId
  rw [opener_itoaNat, natOf_itoaNat]
  simp only [Bool.false_eq_true, if_false]
  rw [if_pos h]

/-! ### the written timestamp -/

theorem natOf_dd {v : Nat} (h : v < 100) : natOf (dd v) = some v := by
  have d1 : v / 10 < 10 := by omega
  have d2 : v % 10 < 10 := by omega
  unfold natOf dd
  simp only [List.isEmpty_cons, List.all_cons, List.all_nil, isDigit_digitChar d1, isDigit_digitChar d2,
    List.foldl_cons, List.foldl_nil, toNat_digitChar d1, toNat_digitChar d2]
  simp
  omega

theorem natOf_ddd {v : Nat} (h : v < 1000) : natOf (ddd v) = some v := by
  have d1 : v / 100 < 10 := by omega
  have d2 : v / 10 % 10 < 10 := by omega
  have d3 : v % 10 < 10 := by omega
  unfold natOf ddd
  simp only [List.isEmpty_cons, List.all_cons, List.all_nil, isDigit_digitChar d1, isDigit_digitChar d2,
    isDigit_digitChar d3, List.foldl_cons, List.foldl_nil, toNat_digitChar d1, toNat_digitChar d2,
    toNat_digitChar d3]
  simp
  omega

theorem dotPair_canon3 (h m s f : Nat) (hh : h < 100) (hm : m < 100) (hs : s < 100) (hf : f < 1000) :
    VTTRead.dotPair (C16.canon3 h m s f '.') = (dd h ++ ':' :: dd m ++ ':' :: dd s, some (ddd f)) := by
  unfold VTTRead.dotPair C16.canon3
  rw [splitC_append _ (C16.hms_not_mem h m s hh hm hs '.' (Or.inl rfl)),
    splitC_not_mem ((digitStr_ddd hf).not_mem (Or.inr (Or.inl rfl)))]

theorem timeOf_canon3 (h m s f : Nat) (hh : h < 100) (hm : m < 60) (hs : s < 60) (hf : f < 1000) :
    VTTRead.timeOf (dd h ++ ':' :: dd m ++ ':' :: dd s) (some (ddd f))
      = some (((h * 60 + m) * 60 + s) * 1000 + f) := by
  have hl : (ddd f).length = 3 := rfl
  have h33 : ¬ (3 > 3) := by decide
  unfold VTTRead.timeOf VTTRead.fracSpec
  rw [C16.hms_split h m s hh (by omega) (by omega)]
  simp only [hl, h33, if_false, natOf_ddd hf, List.map_cons, List.map_nil, natOf_dd hh,
    natOf_dd (show m < 100 by omega), natOf_dd (show s < 100 by omega), Option.map_some]
  have hc : (decide (m < 60) && decide (s < 60) && decide (h < 1000000)) = true := by
    simp only [Bool.and_eq_true, decide_eq_true_eq]; omega
  rw [if_pos hc]
  simp

theorem trimSpace_canon3 (h m s f : Nat) (hh : h < 100) (hm : m < 100) (hs : s < 100) (hf : f < 1000)
    (tl : Str) (htl : tl = [] ∨ tl = [' ']) :
    trimSpace (C16.canon3 h m s f '.' ++ tl) = C16.canon3 h m s f '.' := by
  have hns : ∀ c ∈ C16.canon3 h m s f '.', isSpace c = false :=
    fun c hc => VTT.timeChar_noSpace (VTT.timeChar_canon3 h m s f hh hm hs hf c hc)
  rcases htl with rfl | rfl
  · rw [List.append_nil]; exact trimSpace_id hns
  · exact VTT.trimSpace_trailing hns

theorem timeMs_canon3D (h m s f : Nat) (hh : h < 100) (hm : m < 60) (hs : s < 60) (hf : f < 1000)
    (tl : Str) (htl : tl = [] ∨ tl = [' ']) :
    Spec.VTT.timeMs (C16.canon3 h m s f '.' ++ tl) = some (((h * 60 + m) * 60 + s) * 1000 + f) := by
  rw [VTTRead.timeMs_eq, trimSpace_canon3 h m s f hh (by omega) (by omega) hf tl htl,
    dotPair_canon3 h m s f hh (by omega) (by omega) hf]
  exact timeOf_canon3 h m s f hh hm hs hf

/-- the written timestamp, possibly followed by white space, is a time for the decoder -/
theorem timeMs_format (t : Int) (h0 : 0 ≤ t) (h1 : t < 360000000000000) (tl : Str) (htl : tl = [] ∨ tl = [' ']) :
    ∃ ms, Spec.VTT.timeMs (Duration.formatVTT t ++ tl) = some ms := by
  obtain ⟨h, m, s, f, hh, hm, hs, hf, hfmt, _⟩ := C16.format_shape3 t '.' h0 h1
  have hF : Duration.formatVTT t = C16.canon3 h m s f '.' := hfmt
  rw [hF]
  exact ⟨_, timeMs_canon3D h m s f hh hm hs hf tl htl⟩

/-! ### the written settings -/

theorem cueSettings_cons (regs : List GRegion) (key v : Str) (ps : List Str) (s : Settings)
    (hk : ':' ∉ key) (hv : ∀ c ∈ v, c ≠ ':') :
    cueSettings regs ((key ++ ':' :: v) :: ps) s =
      (if v.isEmpty then none
       else if key = "align".toList && s.align = [] then cueSettings regs ps { s with align := v }
       else if key = "line".toList && s.line = [] then cueSettings regs ps { s with line := v }
       else if key = "position".toList && s.position = [] then cueSettings regs ps { s with position := v }
       else if key = "size".toList && s.size = [] then cueSettings regs ps { s with size := v }
       else if key = "vertical".toList && s.vertical = [] then cueSettings regs ps { s with vertical := v }
       else if key = "region".toList && s.region.isNone && regs.any (·.id = v) then
         cueSettings regs ps { s with region := some v }
       else none) := by
  rw [cueSettings, VTT.splitC_word key v hk hv]

theorem isEmpty_false {v : Str} (h : v ≠ []) : v.isEmpty = false := by
  cases v with
  | nil => exact absurd rfl h
  | cons x xs => rfl

theorem cs_align (regs : List GRegion) (o : Option Str) (ho : VTT.optOk o = true) (ps : List Str) (s : Settings)
    (hs : s.align = []) :
    cueSettings regs (VTT.word "align:" o ++ ps) s = cueSettings regs ps { s with align := o.getD [] } := by
  cases o with
  | none => cases s; simp only at hs; subst hs; rfl
  | some v =>
    have hv := VTT.settingVal_spec ho
    show cueSettings regs (("align".toList ++ ':' :: v) :: ps) s = _
    rw [cueSettings_cons _ _ _ _ _ (by decide) (fun c hc => (hv.2 c hc).2.1), isEmpty_false hv.1]
    simp [hs]

theorem cs_line (regs : List GRegion) (o : Option Str) (ho : VTT.optOk o = true) (ps : List Str) (s : Settings)
    (hs : s.line = []) :
    cueSettings regs (VTT.word "line:" o ++ ps) s = cueSettings regs ps { s with line := o.getD [] } := by
  cases o with
  | none => cases s; simp only at hs; subst hs; rfl
  | some v =>
    have hv := VTT.settingVal_spec ho
    show cueSettings regs (("line".toList ++ ':' :: v) :: ps) s = _
    rw [cueSettings_cons _ _ _ _ _ (by decide) (fun c hc => (hv.2 c hc).2.1), isEmpty_false hv.1]
    obtain ⟨h1, h2, h3, h4, h5, h6, h7, h8, h9, h10, h11, h12, h13, h14, h15⟩ := VTTRead.keys_distinct
    generalize "align".toList = A at *
    generalize "line".toList = L at *
    simp [hs, Ne.symm h1]

theorem cs_position (regs : List GRegion) (o : Option Str) (ho : VTT.optOk o = true) (ps : List Str) (s : Settings)
    (hs : s.position = []) :
    cueSettings regs (VTT.word "position:" o ++ ps) s = cueSettings regs ps { s with position := o.getD [] } := by
  cases o with
  | none => cases s; simp only at hs; subst hs; rfl
  | some v =>
    have hv := VTT.settingVal_spec ho
    show cueSettings regs (("position".toList ++ ':' :: v) :: ps) s = _
    rw [cueSettings_cons _ _ _ _ _ (by decide) (fun c hc => (hv.2 c hc).2.1), isEmpty_false hv.1]
    obtain ⟨h1, h2, h3, h4, h5, h6, h7, h8, h9, h10, h11, h12, h13, h14, h15⟩ := VTTRead.keys_distinct
    generalize "align".toList = A at *
    generalize "line".toList = L at *
    generalize "position".toList = P at *
    simp [hs, Ne.symm h2, Ne.symm h6]

theorem cs_size (regs : List GRegion) (o : Option Str) (ho : VTT.optOk o = true) (ps : List Str) (s : Settings)
    (hs : s.size = []) :
    cueSettings regs (VTT.word "size:" o ++ ps) s = cueSettings regs ps { s with size := o.getD [] } := by
  cases o with
  | none => cases s; simp only at hs; subst hs; rfl
  | some v =>
    have hv := VTT.settingVal_spec ho
    show cueSettings regs (("size".toList ++ ':' :: v) :: ps) s = _
    rw [cueSettings_cons _ _ _ _ _ (by decide) (fun c hc => (hv.2 c hc).2.1), isEmpty_false hv.1]
    obtain ⟨h1, h2, h3, h4, h5, h6, h7, h8, h9, h10, h11, h12, h13, h14, h15⟩ := VTTRead.keys_distinct
    generalize "align".toList = A at *
    generalize "line".toList = L at *
    generalize "position".toList = P at *
    generalize "size".toList = S at *
    simp [hs, Ne.symm h3, Ne.symm h7, Ne.symm h10]

theorem cs_vertical (regs : List GRegion) (o : Option Str) (ho : VTT.optOk o = true) (ps : List Str) (s : Settings)
    (hs : s.vertical = []) :
    cueSettings regs (VTT.word "vertical:" o ++ ps) s = cueSettings regs ps { s with vertical := o.getD [] } := by
  cases o with
  | none => cases s; simp only at hs; subst hs; rfl
  | some v =>
    have hv := VTT.settingVal_spec ho
    show cueSettings regs (("vertical".toList ++ ':' :: v) :: ps) s = _
    rw [cueSettings_cons _ _ _ _ _ (by decide) (fun c hc => (hv.2 c hc).2.1), isEmpty_false hv.1]
    obtain ⟨h1, h2, h3, h4, h5, h6, h7, h8, h9, h10, h11, h12, h13, h14, h15⟩ := VTTRead.keys_distinct
    generalize "align".toList = A at *
    generalize "line".toList = L at *
    generalize "position".toList = P at *
    generalize "size".toList = S at *
    generalize "vertical".toList = V at *
    simp [hs, Ne.symm h4, Ne.symm h8, Ne.symm h11, Ne.symm h13]

theorem cs_region (regs : List GRegion) (o : Option Str) (ho : VTT.optOk o = true)
    (hdef : ∀ r, o = some r → regs.any (·.id = r) = true) (ps : List Str) (s : Settings)
    (hs : s.region = none) :
    cueSettings regs (VTT.word "region:" o ++ ps) s = cueSettings regs ps { s with region := o } := by
  cases o with
  | none => cases s; simp only at hs; subst hs; rfl
  | some v =>
    have hv := VTT.settingVal_spec ho
    have hd := hdef v rfl
    show cueSettings regs (("region".toList ++ ':' :: v) :: ps) s = _
    rw [cueSettings_cons _ _ _ _ _ (by decide) (fun c hc => (hv.2 c hc).2.1), isEmpty_false hv.1]
    obtain ⟨h1, h2, h3, h4, h5, h6, h7, h8, h9, h10, h11, h12, h13, h14, h15⟩ := VTTRead.keys_distinct
    generalize "align".toList = A at *
    generalize "line".toList = L at *
    generalize "position".toList = P at *
    generalize "size".toList = S at *
    generalize "vertical".toList = V at *
    generalize "region".toList = R at *
    simp [hs, hd, Ne.symm h5, Ne.symm h9, Ne.symm h12, Ne.symm h14, Ne.symm h15]

/-- the six settings in the order of the writer -/
theorem cueSettings_all (regs : List GRegion) (al ln po rg sz ve : Option Str)
    (hal : VTT.optOk al = true) (hln : VTT.optOk ln = true) (hpo : VTT.optOk po = true) (hrg : VTT.optOk rg = true)
    (hsz : VTT.optOk sz = true) (hve : VTT.optOk ve = true)
    (hdef : ∀ r, rg = some r → regs.any (·.id = r) = true) :
    Spec.VTT.cueSettings regs (VTT.allWords al ln po rg sz ve) {}
      = some { align := al.getD [], line := ln.getD [], position := po.getD [], size := sz.getD [],
               vertical := ve.getD [], region := rg } := by
  unfold VTT.allWords
  rw [cs_align _ _ hal _ _ rfl, cs_line _ _ hln _ _ rfl, cs_position _ _ hpo _ _ rfl, cs_region _ _ hrg hdef _ _ rfl,
    cs_size _ _ hsz _ _ rfl, cs_vertical _ _ hve _ _ rfl]
  rfl

/-- the written settings are settings for the decoder, when the region is defined -/
theorem cueSettings_allWords (regs : List GRegion) (al ln po rg sz ve : Option Str)
    (hal : VTT.optOk al = true) (hln : VTT.optOk ln = true) (hpo : VTT.optOk po = true) (hrg : VTT.optOk rg = true)
    (hsz : VTT.optOk sz = true) (hve : VTT.optOk ve = true)
    (hdef : ∀ r, rg = some r → regs.any (·.id = r) = true) :
    ∃ a, Spec.VTT.cueSettings regs (VTT.allWords al ln po rg sz ve) {} = some a :=
  ⟨_, cueSettings_all regs al ln po rg sz ve hal hln hpo hrg hsz hve hdef⟩

/-! ### the cue block -/

/-- the decoder's cue core on an abstract timing line `start␣-->␣end words…` -/
theorem cueCore_timing (ds : DocSt) (id : Int) (t1 t2 : Str) (ws : List Str) (text : List Str)
    (sMs eMs : Nat) (a : Settings) (lines : List GLine)
    (ht1 : ∀ c ∈ t1, VTT.timeChar c = true) (ht2 : ∀ c ∈ t2, VTT.timeChar c = true) (hne : t2 ≠ [])
    (hws : ∀ w ∈ ws, VTT.WordOk w ∧ '>' ∉ w)
    (htext : ∀ l ∈ text, contains Spec.VTT.arrow l = false)
    (hs : timeMs (t1 ++ [' ']) = some sMs) (he : timeMs t2 = some eMs)
    (hset : cueSettings ds.regions ws {} = some a) (hlines : cueText text [] = some lines) :
    VTTRead.cueCore ds id (t1 ++ [' '] ++ Spec.VTT.arrow ++ VTT.spaced (t2 :: ws)) text
      = some { ds with comments := [], cues := ds.cues ++ [VTTRead.mkCue ds id sMs eMs a lines] } := by
  have hall : ∀ w ∈ t2 :: ws, VTT.WordOk w ∧ '>' ∉ w := by
    intro w hw
    rcases List.mem_cons.mp hw with rfl | hw
    · exact ⟨⟨hne, fun c hc => VTT.timeChar_noSpace (ht2 c hc)⟩, fun hc => VTT.timeChar_ne_gt (ht2 _ hc) rfl⟩
    · exact hws w hw
  have hany : text.any (contains Spec.VTT.arrow) = false := by
    rw [List.any_eq_false]
    intro l hl
    rw [htext l hl]
    exact Bool.false_ne_true
  have hsplit : splitOn Spec.VTT.arrow (t1 ++ [' '] ++ Spec.VTT.arrow ++ VTT.spaced (t2 :: ws))
      = [t1 ++ [' '], VTT.spaced (t2 :: ws)] := by
    apply VTT.splitOn_arrow
    · intro x hx
      rcases List.mem_append.mp hx with hx | hx
      · exact VTT.timeChar_ne_minus (ht1 x hx)
      · simp only [List.mem_singleton] at hx; subst hx; decide
    · exact VTT.spaced_noGt _ (fun w hw => (hall w hw).2)
  have hfields : fields (VTT.spaced (t2 :: ws)) = t2 :: ws := VTT.fields_spaced _ (fun w hw => (hall w hw).1)
  unfold VTTRead.cueCore
  rw [hany, hsplit]
  simp only [Bool.false_eq_true, if_false]
  rw [hfields]
  simp only [hs, he, hset, hlines]

theorem timeChar_format (t : Int) (h0 : 0 ≤ t) (h1 : t < 360000000000000) :
    (∀ c ∈ Duration.formatVTT t, VTT.timeChar c = true) ∧ Duration.formatVTT t ≠ [] := by
  obtain ⟨h, m, s, f, hh, hm, hs, hf, hfmt, _⟩ := C16.format_shape3 t '.' h0 h1
  have hF : Duration.formatVTT t = C16.canon3 h m s f '.' := hfmt
  rw [hF]
  refine ⟨VTT.timeChar_canon3 h m s f hh (by omega) (by omega) hf, ?_⟩
  rw [VTT.canon3_head]
  exact List.cons_ne_nil _ _

theorem contains_arrow_timing (a b : Str) : contains Spec.VTT.arrow (a ++ Spec.VTT.arrow ++ b) = true :=
  VTT.contains_append _ _ _ (by decide)

theorem partsOf_written (num timing : Str) (text : List Str) (id : Int)
    (h1 : contains Spec.VTT.arrow num = false) (h2 : contains Spec.VTT.arrow timing = true)
    (hid : cueId num = some id) :
    VTTRead.partsOf (num :: timing :: text) = some (id, timing, text) := by
  unfold VTTRead.partsOf
  simp only [h1, h2, hid, Bool.false_eq_true, if_false, if_true, Option.map_some]

/-- the decoder's cue block on the written cue lines (number, timing line, text lines) -/
theorem cueBlock_written (ds : DocSt) (s : Subs) (k : Nat) (it : CItem) (hok : VTT.cueOk2 s it = true)
    (hk : k + 1 < 2 ^ 62)
    (hreg : ∀ r, it.region = some r → ds.regions.any (·.id = r) = true)
    (ht : (Spec.VTT.cueText (it.lines.map VTT.lineBody) []).isSome = true) :
    ∃ c : GCue, c.lines = glOf it ∧
      Spec.VTT.block ds (VTT.cueCore s k it) = some { ds with comments := [], cues := ds.cues ++ [c] } := by
  simp only [VTT.cueOk2, Bool.and_eq_true, decide_eq_true_eq, List.all_eq_true] at hok
  obtain ⟨⟨⟨⟨⟨⟨⟨⟨⟨⟨⟨_, hr⟩, hs0⟩, hs1⟩, he0⟩, he1⟩, hal⟩, hln⟩, hpo⟩, hsz⟩, hve⟩, hlines⟩ := hok
  have hrg := VTT.optOk_of_ref hr
  obtain ⟨lines, hl⟩ := Option.isSome_iff_exists.mp ht
  obtain ⟨sMs, hsm⟩ := timeMs_format it.startAt hs0 hs1 [' '] (Or.inr rfl)
  obtain ⟨eMs, hem⟩ := timeMs_format it.endAt he0 he1 [] (Or.inl rfl)
  rw [List.append_nil] at hem
  obtain ⟨a, ha⟩ := cueSettings_allWords ds.regions _ _ _ _ _ _ hal hln hpo hrg hsz hve hreg
  have hgl : glOf it = lines := by unfold glOf; rw [hl]; rfl
  have htext : ∀ l ∈ it.lines.map VTT.lineBody, contains Spec.VTT.arrow l = false := by
    intro l hl'
    obtain ⟨x, hx, rfl⟩ := List.mem_map.mp hl'
    have := hlines x hx
    simp only [VTT.lineFit, Bool.and_eq_true, Bool.not_eq_true'] at this
    exact this.1.2
  refine ⟨VTTRead.mkCue ds ((k + 1 : Nat) : Int) sMs eMs a lines, hgl.symm, ?_⟩
  have hcore : VTT.cueCore s k it = itoaNat (k + 1) :: VTT.cueTiming s it :: it.lines.map VTT.lineBody := rfl
  rw [hcore, VTTRead.block_cases ds _ _ (noteLine_itoaNat (k + 1)) (itoaNat_ne_style (k + 1))]
  have hmeta : (itoaNat (k + 1) :: VTT.cueTiming s it :: it.lines.map VTT.lineBody).all VTTRead.metaT = false := by
    rw [List.all_cons, metaT_itoaNat]; rfl
  rw [hmeta]
  simp only [Bool.false_eq_true, if_false]
  have htim : VTT.cueTiming s it = Duration.formatVTT it.startAt ++ [' '] ++ Spec.VTT.arrow
      ++ VTT.spaced (Duration.formatVTT it.endAt :: VTT.allWords (VTT.cueSetting s it "WebVTTAlign")
          (VTT.cueSetting s it "WebVTTLine") (VTT.cueSetting s it "WebVTTPosition") it.region
          (VTT.cueSetting s it "WebVTTSize") (VTT.cueSetting s it "WebVTTVertical")) := by
    unfold VTT.cueTiming
    rw [VTT.timingLine_eq]
    rfl
  rw [VTTRead.cueBlock_eq, htim,
    partsOf_written _ _ _ ((k + 1 : Nat) : Int) (no_arrow_itoaNat (k + 1)) (contains_arrow_timing _ _)
      (cueId_itoaNat (k + 1) hk)]
  exact cueCore_timing ds _ _ _ _ _ sMs eMs a lines (timeChar_format _ hs0 hs1).1 (timeChar_format _ he0 he1).1
    (timeChar_format _ he0 he1).2 (VTT.allWords_ok _ _ _ _ _ _ hal hln hpo hrg hsz hve) htext hsm hem ha hl

end VTT3W
end Astisub
