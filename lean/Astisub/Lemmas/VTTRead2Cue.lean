import Astisub.Lemmas.VTTRead2Sim
import Astisub.Lemmas.VTTRead2Time
import Astisub.Lemmas.VTTRead2Region

/-!
# Lemmas/VTTRead2Cue — cue blocks: settings, the decoder's cue block taken apart, the text lines
-/

set_option linter.unusedSimpArgs false

namespace Astisub
namespace VTTRead
open Go Spec.VTT
open VTT (St step run Block)

/-! ### settings -/

def setRel (a : Settings) (b : VTT.SetAcc) : Prop :=
  b.align = a.align ∧ b.line = a.line ∧ b.position = a.position ∧ b.size = a.size ∧ b.vertical = a.vertical ∧
  b.region = a.region

theorem any_id_eq (mregs : List Def) (v : Str) :
    (mregs.map regionView).any (fun r => decide (r.id = v)) = mregs.any (fun d => decide (d.id = v)) := by
  rw [List.any_map]; rfl

def keysDistinct (A L P S V R : Str) : Prop :=
  A ≠ L ∧ A ≠ P ∧ A ≠ S ∧ A ≠ V ∧ A ≠ R ∧ L ≠ P ∧ L ≠ S ∧ L ≠ V ∧ L ≠ R ∧ P ≠ S ∧ P ≠ V ∧ P ≠ R ∧ S ≠ V ∧ S ≠ R ∧ V ≠ R

theorem keys_distinct :
    keysDistinct "align".toList "line".toList "position".toList "size".toList "vertical".toList "region".toList := by
  unfold keysDistinct; decide

theorem settings_of_cueSettings (gregs : List GRegion) (mregs : List Def) (hreg : mregs.map regionView = gregs) :
    ∀ (sets : List Str) (a0 : Settings) (b0 : VTT.SetAcc) (a : Settings), setRel a0 b0 →
      cueSettings gregs sets a0 = some a → ∃ b, VTT.settings mregs sets b0 = some b ∧ setRel a b := by
  intro sets
  induction sets with
  | nil =>
    intro a0 b0 a hrel h
    simp only [cueSettings, Option.some.injEq] at h
    subst h
    exact ⟨b0, rfl, hrel⟩
  | cons p ps ih =>
    intro a0 b0 a hrel h
    obtain ⟨r1, r2, r3, r4, r5, r6⟩ := hrel
    have hk := keys_distinct
    unfold cueSettings at h
    unfold VTT.settings
    generalize "align".toList = A at *
    generalize "line".toList = L at *
    generalize "position".toList = P at *
    generalize "size".toList = S at *
    generalize "vertical".toList = V at *
    generalize "region".toList = R at *
    obtain ⟨h1, h2, h3, h4, h5, h6, h7, h8, h9, h10, h11, h12, h13, h14, h15⟩ := hk
    split at h
    · rename_i k v hsp
      rw [hsp]
      simp only
      by_cases hv : v.isEmpty = true
      · simp [hv] at h
      · simp only [hv, Bool.false_eq_true, if_false] at h
        by_cases c0 : k = A
        · subst c0
          by_cases d : a0.align = []
          · simp [d, h1, h2, h3, h4, h5, h6, h7, h8, h9, h10, h11, h12, h13, h14, h15, Ne.symm h1, Ne.symm h2, Ne.symm h3, Ne.symm h4, Ne.symm h5, Ne.symm h6, Ne.symm h7, Ne.symm h8, Ne.symm h9, Ne.symm h10, Ne.symm h11, Ne.symm h12, Ne.symm h13, Ne.symm h14, Ne.symm h15] at h ⊢
            exact ih { a0 with align := v } { b0 with align := v } a ⟨rfl, r2, r3, r4, r5, r6⟩ h
          · simp [d, h1, h2, h3, h4, h5, h6, h7, h8, h9, h10, h11, h12, h13, h14, h15, Ne.symm h1, Ne.symm h2, Ne.symm h3, Ne.symm h4, Ne.symm h5, Ne.symm h6, Ne.symm h7, Ne.symm h8, Ne.symm h9, Ne.symm h10, Ne.symm h11, Ne.symm h12, Ne.symm h13, Ne.symm h14, Ne.symm h15] at h
        · 
          by_cases c1 : k = L
          · subst c1
            by_cases d : a0.line = []
            · simp [d, h1, h2, h3, h4, h5, h6, h7, h8, h9, h10, h11, h12, h13, h14, h15, Ne.symm h1, Ne.symm h2, Ne.symm h3, Ne.symm h4, Ne.symm h5, Ne.symm h6, Ne.symm h7, Ne.symm h8, Ne.symm h9, Ne.symm h10, Ne.symm h11, Ne.symm h12, Ne.symm h13, Ne.symm h14, Ne.symm h15] at h ⊢
              exact ih { a0 with line := v } { b0 with line := v } a ⟨r1, rfl, r3, r4, r5, r6⟩ h
            · simp [d, h1, h2, h3, h4, h5, h6, h7, h8, h9, h10, h11, h12, h13, h14, h15, Ne.symm h1, Ne.symm h2, Ne.symm h3, Ne.symm h4, Ne.symm h5, Ne.symm h6, Ne.symm h7, Ne.symm h8, Ne.symm h9, Ne.symm h10, Ne.symm h11, Ne.symm h12, Ne.symm h13, Ne.symm h14, Ne.symm h15] at h
          · 
            by_cases c2 : k = P
            · subst c2
              by_cases d : a0.position = []
              · simp [d, h1, h2, h3, h4, h5, h6, h7, h8, h9, h10, h11, h12, h13, h14, h15, Ne.symm h1, Ne.symm h2, Ne.symm h3, Ne.symm h4, Ne.symm h5, Ne.symm h6, Ne.symm h7, Ne.symm h8, Ne.symm h9, Ne.symm h10, Ne.symm h11, Ne.symm h12, Ne.symm h13, Ne.symm h14, Ne.symm h15] at h ⊢
                exact ih { a0 with position := v } { b0 with position := v } a ⟨r1, r2, rfl, r4, r5, r6⟩ h
              · simp [d, h1, h2, h3, h4, h5, h6, h7, h8, h9, h10, h11, h12, h13, h14, h15, Ne.symm h1, Ne.symm h2, Ne.symm h3, Ne.symm h4, Ne.symm h5, Ne.symm h6, Ne.symm h7, Ne.symm h8, Ne.symm h9, Ne.symm h10, Ne.symm h11, Ne.symm h12, Ne.symm h13, Ne.symm h14, Ne.symm h15] at h
            · 
              by_cases c3 : k = S
              · subst c3
                by_cases d : a0.size = []
                · simp [d, h1, h2, h3, h4, h5, h6, h7, h8, h9, h10, h11, h12, h13, h14, h15, Ne.symm h1, Ne.symm h2, Ne.symm h3, Ne.symm h4, Ne.symm h5, Ne.symm h6, Ne.symm h7, Ne.symm h8, Ne.symm h9, Ne.symm h10, Ne.symm h11, Ne.symm h12, Ne.symm h13, Ne.symm h14, Ne.symm h15] at h ⊢
                  exact ih { a0 with size := v } { b0 with size := v } a ⟨r1, r2, r3, rfl, r5, r6⟩ h
                · simp [d, h1, h2, h3, h4, h5, h6, h7, h8, h9, h10, h11, h12, h13, h14, h15, Ne.symm h1, Ne.symm h2, Ne.symm h3, Ne.symm h4, Ne.symm h5, Ne.symm h6, Ne.symm h7, Ne.symm h8, Ne.symm h9, Ne.symm h10, Ne.symm h11, Ne.symm h12, Ne.symm h13, Ne.symm h14, Ne.symm h15] at h
              · 
                by_cases c4 : k = V
                · subst c4
                  by_cases d : a0.vertical = []
                  · simp [d, h1, h2, h3, h4, h5, h6, h7, h8, h9, h10, h11, h12, h13, h14, h15, Ne.symm h1, Ne.symm h2, Ne.symm h3, Ne.symm h4, Ne.symm h5, Ne.symm h6, Ne.symm h7, Ne.symm h8, Ne.symm h9, Ne.symm h10, Ne.symm h11, Ne.symm h12, Ne.symm h13, Ne.symm h14, Ne.symm h15] at h ⊢
                    exact ih { a0 with vertical := v } { b0 with vertical := v } a ⟨r1, r2, r3, r4, rfl, r6⟩ h
                  · simp [d, h1, h2, h3, h4, h5, h6, h7, h8, h9, h10, h11, h12, h13, h14, h15, Ne.symm h1, Ne.symm h2, Ne.symm h3, Ne.symm h4, Ne.symm h5, Ne.symm h6, Ne.symm h7, Ne.symm h8, Ne.symm h9, Ne.symm h10, Ne.symm h11, Ne.symm h12, Ne.symm h13, Ne.symm h14, Ne.symm h15] at h
                · 
                  by_cases c5 : k = R
                  · subst c5
                    by_cases d1 : a0.region.isNone = true
                    · by_cases d2 : gregs.any (fun r => decide (r.id = v)) = true
                      · have d3 : mregs.any (fun d => decide (d.id = v)) = true := by rw [← any_id_eq, hreg]; exact d2
                        simp [c0, c1, c2, c3, c4, d1, d2] at h
                        simp [c0, c1, c2, c3, c4, d3]
                        exact ih { a0 with region := some v } { b0 with region := some v } a ⟨r1, r2, r3, r4, r5, rfl⟩ h
                      · simp [c0, c1, c2, c3, c4, d1, d2] at h
                    · simp [c0, c1, c2, c3, c4, d1] at h
                  · simp [c0, c1, c2, c3, c4, c5] at h
    · cases h

/-! ### the decoder's cue block, taken apart -/

def partsOf (b : List Str) : Option (Int × Str × List Str) :=
  match b with
  | l1 :: rest =>
    if contains Spec.VTT.arrow l1 then some (0, l1, rest)
    else match rest with
      | l2 :: rest' => if contains Spec.VTT.arrow l2 then (cueId l1).map fun i => (i, l2, rest') else none
      | [] => none
  | [] => none

def mkCue (ds : DocSt) (id : Int) (s e : Nat) (a : Settings) (lines : List GLine) : GCue :=
  { id := id, comments := ds.comments, startMs := s, endMs := e, align := a.align, line := a.line,
    position := a.position, size := a.size, vertical := a.vertical, region := a.region, lines := lines }

def cueCore (ds : DocSt) (id : Int) (timing : Str) (text : List Str) : Option DocSt :=
  if text.any (contains Spec.VTT.arrow) then none else
  match splitOn Spec.VTT.arrow timing with
  | [l, r] =>
    match fields r with
    | e :: sets =>
      match timeMs l, timeMs e, cueSettings ds.regions sets {}, cueText text [] with
      | some s, some e, some a, some lines =>
        some { ds with comments := [], cues := ds.cues ++ [mkCue ds id s e a lines] }
      | _, _, _, _ => none
    | [] => none
  | _ => none

theorem cueBlock_eq (ds : DocSt) (b : List Str) :
    cueBlock ds b = match partsOf b with
      | none => none
      | some (id, timing, text) => cueCore ds id timing text := rfl

theorem partsOf_inv {b : List Str} {id : Int} {timing : Str} {text : List Str}
    (h : partsOf b = some (id, timing, text)) :
    contains Spec.VTT.arrow timing = true ∧
    ((b = timing :: text ∧ id = 0) ∨
     (∃ l1, b = l1 :: timing :: text ∧ contains Spec.VTT.arrow l1 = false ∧ cueId l1 = some id)) := by
  unfold partsOf at h
  cases b with
  | nil => cases h
  | cons l1 rest =>
    simp only at h
    by_cases c1 : contains Spec.VTT.arrow l1 = true
    · rw [if_pos c1] at h
      simp only [Option.some.injEq, Prod.mk.injEq] at h
      obtain ⟨e1, e2, e3⟩ := h
      subst e1 e2 e3
      exact ⟨c1, Or.inl ⟨rfl, rfl⟩⟩
    · rw [if_neg c1] at h
      cases rest with
      | nil => cases h
      | cons l2 rest' =>
        simp only at h
        by_cases c2 : contains Spec.VTT.arrow l2 = true
        · rw [if_pos c2] at h
          cases hid : cueId l1 with
          | none => rw [hid] at h; cases h
          | some i =>
            rw [hid] at h
            simp only [Option.map_some, Option.some.injEq, Prod.mk.injEq] at h
            obtain ⟨e1, e2, e3⟩ := h
            subst e1 e2 e3
            exact ⟨c2, Or.inr ⟨l1, rfl, by simpa using c1, hid⟩⟩
        · rw [if_neg c2] at h; cases h

theorem cueCore_inv {ds ds' : DocSt} {id : Int} {timing : Str} {text : List Str}
    (h : cueCore ds id timing text = some ds') :
    ∃ (l r e : Str) (sets : List Str) (s en : Nat) (a : Settings) (lines : List GLine),
      text.any (contains Spec.VTT.arrow) = false ∧ splitOn Spec.VTT.arrow timing = [l, r] ∧ fields r = e :: sets ∧
      timeMs l = some s ∧ timeMs e = some en ∧ cueSettings ds.regions sets {} = some a ∧
      cueText text [] = some lines ∧
      ds' = { ds with comments := [], cues := ds.cues ++ [mkCue ds id s en a lines] } := by
  unfold cueCore at h
  cases hany : text.any (contains Spec.VTT.arrow) with
  | true => rw [hany] at h; simp at h
  | false =>
    rw [hany] at h
    simp only [Bool.false_eq_true, if_false] at h
    split at h
    · rename_i l r hsp
      split at h
      · rename_i e sets hf
        split at h
        · rename_i s en a lines h1 h2 h3 h4
          simp only [Option.some.injEq] at h
          exact ⟨l, r, e, sets, s, en, a, lines, rfl, hsp, hf, h1, h2, h3, h4, h.symm⟩
        · cases h
      · cases h
    · cases h

/-! ### the text lines of a cue -/

/-- what the cue-text layer has to provide for the lines accepted by `ok`: an invariant `good` of the
    decoder's tag stack, and for every line the decoder accepts, the reader's `parseText` returning
    the same stack, voice and runs (or not being covered by the tokenizer model) -/
structure TextLayer (ok : Str → Bool) where
  good : List GTag → Prop
  good_nil : good []
  agree : ∀ (l : Str) (stack : List GTag) (st : TextSt), ok l = true → good stack →
    textLine (l.length + 2) l { stack := stack } = some st →
    good st.stack ∧ (∀ r ∈ st.runs, runView (runItem r) = some r) ∧
    (VTT.parseText l (stack.map modelTag) = .unmodelled ∨
     VTT.parseText l (stack.map modelTag) =
       .ok (st.stack.map modelTag, { voice := st.voice.getD [], items := st.runs.map runItem }))

def lineOfG (g : GLine) : Line := { voice := g.voice, items := g.runs.map runItem }

def keptLines (gl : List GLine) : List Line := (gl.filter fun g => !g.runs.isEmpty).map lineOfG

theorem run_text_lines {ok : Str → Bool} (T : TextLayer ok) (text : List Str) :
    ∀ (stack : List GTag) (glines : List GLine) (st : St),
      st.block = .text → st.tags = stack.map modelTag → T.good stack →
      (∀ l ∈ text, BLine l ∧ ok l = true ∧ contains Spec.VTT.arrow l = false) →
      cueText text stack = some glines →
      run st (text.map some) = .unmodelled ∨
      ((∀ g ∈ glines, ∀ r ∈ g.runs, runView (runItem r) = some r) ∧
       ∃ tags', run st (text.map some) =
         .ok { st with tags := tags', cur := { st.cur with lines := st.cur.lines ++ keptLines glines } }) := by
  induction text with
  | nil =>
    intro stack glines st hb ht hg hl h
    simp only [cueText, Option.some.injEq] at h
    subst h
    right
    refine ⟨fun g hg => (by cases hg), st.tags, ?_⟩
    simp [run, keptLines]
  | cons l ls ih =>
    intro stack glines st hb ht hg hl h
    obtain ⟨hbl, hokl, hal⟩ := hl l (by simp)
    unfold cueText at h
    cases htl : textLine (l.length + 2) l { stack := stack } with
    | none => rw [htl] at h; cases h
    | some tst =>
      rw [htl] at h
      simp only at h
      cases hrest : cueText ls tst.stack with
      | none => rw [hrest] at h; cases h
      | some grest =>
        rw [hrest] at h
        simp only [Option.some.injEq] at h
        subst h
        obtain ⟨hg', hview, hp⟩ := T.agree l stack tst hokl hg htl
        simp only [List.map_cons, run]
        rw [step_text st l hbl.1 hbl.2 hb (by rw [arrow_eq]; exact hal), ht]
        rcases hp with hp | hp
        · left; rw [hp]
        · rw [hp]
          simp only
          have ih' := ih tst.stack grest
            { st with tags := tst.stack.map modelTag,
                      cur := if (tst.runs.map runItem).isEmpty then st.cur
                             else { st.cur with lines := st.cur.lines ++ [{ voice := tst.voice.getD [], items := tst.runs.map runItem }] } }
            hb rfl hg' (fun x hx => hl x (by simp [hx])) hrest
          rcases ih' with ih' | ⟨hv, tags', ih'⟩
          · left; exact ih'
          · right
            refine ⟨?_, tags', ?_⟩
            · intro g hgm r hr
              rcases List.mem_cons.mp hgm with e | e
              · subst e; exact hview r hr
              · exact hv g e r hr
            · rw [ih']
              congr 1
              cases hre : tst.runs with
              | nil => simp [keptLines, List.filter]
              | cons r0 rs =>
                simp [keptLines, List.filter, lineOfG, List.append_assoc]

/-! ### the view of the cue the reader builds -/

theorem mapM_map_some {α β} (f : α → Option β) (g : β → α) : ∀ (l : List β), (∀ x ∈ l, f (g x) = some x) →
    mapM f (l.map g) = some l := by
  intro l
  induction l with
  | nil => intro _; rfl
  | cons x xs ih =>
    intro h
    simp only [List.map_cons, mapM]
    rw [h x (by simp), ih (fun y hy => h y (by simp [hy]))]

theorem mapM_append_one {α β} (f : α → Option β) : ∀ (l : List α) (x : α) (ys : List β) (y : β),
    mapM f l = some ys → f x = some y → mapM f (l ++ [x]) = some (ys ++ [y]) := by
  intro l
  induction l with
  | nil =>
    intro x ys y h hx
    simp only [mapM, Option.some.injEq] at h
    subst h
    simp [mapM, hx]
  | cons a as ih =>
    intro x ys y h hx
    simp only [mapM] at h
    cases ha : f a with
    | none => rw [ha] at h; cases h
    | some b =>
      rw [ha] at h
      cases has : mapM f as with
      | none => rw [has] at h; cases h
      | some bs =>
        rw [has] at h
        simp only [Option.some.injEq] at h
        subst h
        simp only [List.cons_append, mapM, ha, ih x bs y has hx]

theorem lineView_lineOfG (g : GLine) (h : ∀ r ∈ g.runs, runView (runItem r) = some r) :
    lineView (lineOfG g) = some g := by
  unfold lineView lineOfG
  simp only
  rw [mapM_map_some runView runItem g.runs h]

theorem mapM_keptLines (gl : List GLine) (h : ∀ g ∈ gl, ∀ r ∈ g.runs, runView (runItem r) = some r) :
    mapM lineView (keptLines gl) = some (gl.filter fun g => !g.runs.isEmpty) := by
  unfold keptLines
  apply mapM_map_some
  intro g hg
  exact lineView_lineOfG g (h g (List.mem_filter.mp hg).1)

theorem cue_keys_pairwise (a b c d e : Option Str) :
    ([("WebVTTAlign", a), ("WebVTTLine", b), ("WebVTTPosition", c), ("WebVTTSize", d),
      ("WebVTTVertical", e)] : List (String × Option Str)).Pairwise (fun x y => x.1 ≠ y.1) := by
  simp [List.pairwise_cons]

theorem optStr_getD (s : Str) : (optStr s).getD [] = s := by
  cases s <;> simp [optStr]

theorem attrStr_cue (a b c d e : Str) (k : String) (v : Str)
    (hm : (k, optStr v) ∈ ([("WebVTTAlign", optStr a), ("WebVTTLine", optStr b), ("WebVTTPosition", optStr c),
      ("WebVTTSize", optStr d), ("WebVTTVertical", optStr e)] : List (String × Option Str))) :
    Driver.attrStr (some (mkAttrs [("WebVTTAlign", optStr a), ("WebVTTLine", optStr b), ("WebVTTPosition", optStr c),
      ("WebVTTSize", optStr d), ("WebVTTVertical", optStr e)])) k = v := by
  unfold Driver.attrStr
  rw [srt_kvGet_eq, SSA.kvGet_mkAttrs_mem _ (cue_keys_pairwise _ _ _ _ _) k (optStr v) hm, optStr_getD]

theorem cueView_built (idx : Int) (s e : Nat) (b : VTT.SetAcc) (a : Settings) (hrel : setRel a b)
    (comments : List Str) (gl : List GLine) (hv : ∀ g ∈ gl, ∀ r ∈ g.runs, runView (runItem r) = some r) :
    cueView { index := idx, startAt := (s : Int) * 1000000, endAt := (e : Int) * 1000000, region := b.region,
              comments := comments, lines := keptLines gl,
              attrs := some (mkAttrs [("WebVTTAlign", optStr b.align), ("WebVTTLine", optStr b.line),
                ("WebVTTPosition", optStr b.position), ("WebVTTSize", optStr b.size),
                ("WebVTTVertical", optStr b.vertical)]) } =
      some (slim { id := idx, comments := comments, startMs := s, endMs := e, align := a.align, line := a.line,
                   position := a.position, size := a.size, vertical := a.vertical, region := a.region, lines := gl }) := by
  obtain ⟨r1, r2, r3, r4, r5, r6⟩ := hrel
  unfold cueView
  have g1 : ¬ (((s : Int) * 1000000 % 1000000 ≠ 0 || (e : Int) * 1000000 % 1000000 ≠ 0 ||
      (s : Int) * 1000000 < 0 || (e : Int) * 1000000 < 0) = true) := by
    simp only [Bool.or_eq_true, decide_eq_true_eq, not_or]
    omega
  simp only
  rw [if_neg g1, mapM_keptLines gl hv]
  simp only
  rw [attrStr_cue _ _ _ _ _ "WebVTTAlign" b.align (by simp), attrStr_cue _ _ _ _ _ "WebVTTLine" b.line (by simp),
    attrStr_cue _ _ _ _ _ "WebVTTPosition" b.position (by simp), attrStr_cue _ _ _ _ _ "WebVTTSize" b.size (by simp),
    attrStr_cue _ _ _ _ _ "WebVTTVertical" b.vertical (by simp)]
  have e1 : ((s : Int) * 1000000 / 1000000).toNat = s := by
    rw [Int.mul_ediv_cancel _ (by decide)]; simp
  have e2 : ((e : Int) * 1000000 / 1000000).toNat = e := by
    rw [Int.mul_ediv_cancel _ (by decide)]; simp
  rw [e1, e2, r1, r2, r3, r4, r5, r6]
  rfl

end VTTRead
end Astisub
