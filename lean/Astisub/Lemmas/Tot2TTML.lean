import Astisub.Lemmas.Tot2TTMLTime

/-!
# Lemmas/Tot2TTML — `ReadFromTTML` (`ttml.go`) with Go's run-time checks explicit

Checked here, on top of `Tot2TTMLTime` (`UnmarshalText`, `duration`) and `Tot2Duration` (`parseDuration`):

* `propagateTTMLAttributes` (`subtitles.go`): `*sa.TTMLTextAlign`, `*sa.TTMLExtent`, `*sa.TTMLOrigin`,
  `*sa.TTMLWritingMode` behind their `!= nil` tests; `dimensions[0]`, `dimensions[1]` behind
  `len(dimensions) > 1`; `coordinates[0]`, `coordinates[1]` behind `len(coordinates) > 1`;
* `TTMLIn.metadata`: the cut `i[:2]` of `astikit.StrPad(t.Lang, ' ', 2, astikit.PadCut)`;
* the map look-ups `o.Styles[id]`, `o.Regions[id]` of the parent links, the regions, the paragraphs and the
  spans: the code tests `_, ok := m[id]` and then stores `m[id]`, a pointer whose `.ID` the writers read —
  here the look-up answers an `Option`, the test is `isNone ⇒ error`, and the identifier is read through
  `deref` (map-miss-then-dereference);
* `ts.Begin` / `ts.End` nil (defect D6: `<p>` without `begin` / `end`): `deref` behind the
  `ts.Begin == nil || ts.End == nil ⇒ error` test;
* the "loop through texts": written as in Go (outer loop over the items, inner loop over
  `strings.Split(tt.Text, "\n")` with `idx > 0 ⇒ new line`) and proved equal to the model's closed form
  with `getLast?` / `dropLast`; the model's `| [] =>` arm for an empty split is dead code.

`encoding/xml` (the token stream, `DecodeElement`) stays a contract: `decodeItems` is used as it is.
-/

namespace Astisub
namespace Tot
namespace TTML
open Go Astisub.TTML

/-! ## `propagateTTMLAttributes` -/

/-- `WebVTTLines` out of the second dimension -/
def linesOf (d1 : Str) : Option Str :=
  match atoi (replaceAll "%".toList [] d1) with
  | some h => let q := goDiv h 5; if q = 0 then none else some (itoa q)
  | none => none

def extOf (tb : Bool) (e : Option Str) : List (String × Option Str) :=
  match e with
  | none => []
  | some e =>
    match splitC ' ' e with
    | d0 :: d1 :: _ =>
      [("WebVTTWidth", optStr d0), ("WebVTTLines", linesOf d1), ("WebVTTSize", optStr (if tb then d0 else d1))]
    | _ => []

def orgOf (tb : Bool) (o : Option Str) : List (String × Option Str) :=
  match o with
  | none => []
  | some o =>
    [("WebVTTRegionAnchor", some "0%,0%".toList),
     ("WebVTTViewportAnchor", optStr (replaceAll " ".toList ",".toList (trimSpace o))),
     ("WebVTTScroll", some "up".toList)] ++
    (match splitC ' ' o with
     | c0 :: c1 :: _ => [("WebVTTLine", optStr (if tb then c1 else c0)), ("WebVTTPosition", optStr (if tb then c0 else c1))]
     | _ => [])

def alOf (t : Option Str) : List (String × Option Str) :=
  match t with
  | some t => [("WebVTTAlign", optStr t)]
  | none => []

def tbOf (w : Option Str) : Bool := match w with | some w => hasPrefix "tb".toList w | none => false

/-- the model's `styleAttributes` is the composition of these parts (by unfolding) -/
theorem styleAttributes_eq (a : KV) :
    styleAttributes a =
      mkAttrs ((attrTable.map fun (f, _) => ("TTML" ++ f, get a f)) ++ alOf (get a "TextAlign")
        ++ extOf (tbOf (get a "WritingMode")) (get a "Extent") ++ orgOf (tbOf (get a "WritingMode")) (get a "Origin")) := by
  unfold styleAttributes extOf orgOf alOf tbOf linesOf
  rfl

/-- `sa.TTMLWritingMode != nil && strings.HasPrefix(*sa.TTMLWritingMode, "tb")` -/
def tbOfC (w : Option Str) : Chk Bool :=
  if w.isSome then do let w ← deref w; pure (hasPrefix "tb".toList w) else pure false

theorem tbOfC_eq (w : Option Str) : tbOfC w = .ok (tbOf w) := by cases w <;> rfl

def alOfC (t : Option Str) : Chk (List (String × Option Str)) :=
  if t.isSome then do let t ← deref t; pure [("WebVTTAlign", optStr t)] else pure []

theorem alOfC_eq (t : Option Str) : alOfC t = .ok (alOf t) := by cases t <;> rfl

/-- the `TTMLExtent` block: `dimensions[0]`, `dimensions[1]` behind `len(dimensions) > 1` -/
def extOfC (tb : Bool) (e : Option Str) : Chk (List (String × Option Str)) :=
  if e.isSome then do
    let e ← deref e
    let dimensions := splitC ' ' e
    if dimensions.length > 1 then do
      let d0 ← idx dimensions 0
      let d1 ← idx dimensions 1
      pure [("WebVTTWidth", optStr d0), ("WebVTTLines", linesOf d1), ("WebVTTSize", optStr (if tb then d0 else d1))]
    else pure []
  else pure []

theorem extOfC_eq (tb : Bool) (e : Option Str) : extOfC tb e = .ok (extOf tb e) := by
  cases e with
  | none => rfl
  | some e =>
    unfold extOfC extOf
    simp only [Option.isSome_some, if_true, deref, ok_bind]
    match splitC ' ' e with
    | [] => rfl
    | [_] => rfl
    | _ :: _ :: _ => rfl

/-- the `TTMLOrigin` block: `coordinates[0]`, `coordinates[1]` behind `len(coordinates) > 1` -/
def orgOfC (tb : Bool) (o : Option Str) : Chk (List (String × Option Str)) :=
  if o.isSome then do
    let o ← deref o
    let coordinates := splitC ' ' o
    let cue ← (if coordinates.length > 1 then do
        let c0 ← idx coordinates 0
        let c1 ← idx coordinates 1
        pure [("WebVTTLine", optStr (if tb then c1 else c0)), ("WebVTTPosition", optStr (if tb then c0 else c1))]
      else pure [] : Chk (List (String × Option Str)))
    pure ([("WebVTTRegionAnchor", some "0%,0%".toList),
           ("WebVTTViewportAnchor", optStr (replaceAll " ".toList ",".toList (trimSpace o))),
           ("WebVTTScroll", some "up".toList)] ++ cue)
  else pure []

theorem orgOfC_eq (tb : Bool) (o : Option Str) : orgOfC tb o = .ok (orgOf tb o) := by
  cases o with
  | none => rfl
  | some o =>
    unfold orgOfC orgOf
    simp only [Option.isSome_some, if_true, deref, ok_bind]
    match splitC ' ' o with
    | [] => rfl
    | [_] => rfl
    | _ :: _ :: _ => rfl

/-- **`TTMLInStyleAttributes.styleAttributes()` with every dereference and index checked** -/
def styleAttributesC (a : KV) : Chk KV := do
  let tb ← tbOfC (get a "WritingMode")
  let al ← alOfC (get a "TextAlign")
  let ext ← extOfC tb (get a "Extent")
  let org ← orgOfC tb (get a "Origin")
  pure (mkAttrs ((attrTable.map fun (f, _) => ("TTML" ++ f, get a f)) ++ al ++ ext ++ org))

/-- never panics and is the model, for every set of attributes -/
theorem styleAttributesC_eq (a : KV) : styleAttributesC a = .ok (styleAttributes a) := by
  unfold styleAttributesC
  rw [tbOfC_eq, styleAttributes_eq]
  simp only [ok_bind, alOfC_eq, extOfC_eq, orgOfC_eq]
  rfl

/-- the extent block without the `len(dimensions) > 1` test -/
def extOfU (e : Str) : Chk (Str × Str) := do
  let dimensions := splitC ' ' e
  let d0 ← idx dimensions 0
  let d1 ← idx dimensions 1
  pure (d0, d1)

/-- the test is necessary: an extent with a single dimension indexes past the split -/
theorem extOfU_panics (e : Str) (h : (splitC ' ' e).length ≤ 1) : (extOfU e).safe = false := by
  unfold extOfU
  match hs : splitC ' ' e with
  | [] => rfl
  | [_] => rfl
  | _ :: _ :: _ => rw [hs] at h; simp at h

example : (splitC ' ' "100%".toList).length ≤ 1 := by decide
example : extOfC false (some "100%".toList) = .ok [] := by rfl
example : extOfC false (some "100% 20%".toList) =
    .ok [("WebVTTWidth", some "100%".toList), ("WebVTTLines", some "4".toList), ("WebVTTSize", some "20%".toList)] := by rfl

/-! ## `TTMLIn.metadata` -/

/-- `astikit.StrPad(lang, ' ', 2, astikit.PadCut)`: cut with `i[:2]`, else pad on the left -/
def pad2C (lang : Str) : Chk Str :=
  if lang.length = 2 then pure lang
  else if lang.length > 2 then slcTo lang 2
  else pure (List.replicate (2 - lang.length) ' ' ++ lang)

def languageOfC (lang : Str) : Chk (Option Str) := do
  let k ← pad2C lang
  pure (languages.lookup k)

theorem lookup_space (c : Char) : languages.lookup [' ', c] = none := by
  simp [languages, List.lookup]

theorem languageOfC_eq (lang : Str) : languageOfC lang = .ok (languageOf lang) := by
  unfold languageOfC pad2C languageOf
  match lang with
  | [] => simp only [List.length_nil]; exact congrArg Except.ok (lookup_space ' ')
  | [c] => simp only [List.length_cons, List.length_nil]; exact congrArg Except.ok (lookup_space c)
  | [a, b] => rfl
  | a :: b :: c :: t =>
    rw [if_neg (by simp), if_pos (by simp), slcTo_ok (by simp)]
    rfl

def metadataOfC (t : TIn) : Chk Attrs := do
  let l ← languageOfC t.lang
  pure (some (mkAttrs [("Framerate", if t.framerate = 0 then none else some (itoa t.framerate)),
                 ("Language", l), ("TTMLCopyright", optStr t.copyright), ("Title", optStr t.title)]))

theorem metadataOfC_eq (t : TIn) : metadataOfC t = .ok (metadataOf t) := by
  unfold metadataOfC metadataOf
  rw [languageOfC_eq]; rfl

/-! ## map look-ups -/

/-- `o.Styles[id]` / `o.Regions[id]`: the entry stored last under the identifier, `none` = not in the map -/
def findDef (l : List InDef) (id : Str) : Option InDef := l.reverse.find? (fun d => d.id == id)

theorem findDef_isSome (l : List InDef) (id : Str) : (findDef l id).isSome = (l.map (·.id)).contains id := by
  unfold findDef
  rw [Bool.eq_iff_iff, List.find?_isSome, List.contains_iff_mem, List.mem_map]
  constructor
  · rintro ⟨d, hd, he⟩; exact ⟨d, List.mem_reverse.mp hd, by simpa using he⟩
  · rintro ⟨d, hd, he⟩; exact ⟨d, List.mem_reverse.mpr hd, by simpa using he⟩

theorem findDef_id {l : List InDef} {id : Str} {d : InDef} (h : findDef l id = some d) : d.id = id := by
  unfold findDef at h
  have := List.find?_some h
  simpa using this

/-- `if _, ok := m[id]; !ok { return error }; x = m[id]` and the later `x.ID`; `none` = the error return -/
def resolveC (l : List InDef) (id : Str) : Chk (Option Str) :=
  let p := findDef l id
  if p.isNone then pure none
  else do
    let d ← deref p
    pure (some d.id)

theorem resolveC_eq (l : List InDef) (id : Str) :
    resolveC l id = .ok (if (l.map (·.id)).contains id then some id else none) := by
  unfold resolveC
  have hs := findDef_isSome l id
  cases hf : findDef l id with
  | none =>
    rw [hf] at hs
    simp only [Option.isNone_none, if_true]
    rw [← hs]; rfl
  | some d =>
    rw [hf] at hs
    simp only [Option.isNone_some, deref, ok_bind]
    rw [← hs, findDef_id hf]; rfl

/-- the look-up without the `ok` test -/
def resolveU (l : List InDef) (id : Str) : Chk Str := do
  let d ← deref (findDef l id)
  pure d.id

/-- the `ok` test is necessary: an identifier that is not in the map is a nil dereference -/
theorem resolveU_panics (l : List InDef) (id : Str) (h : (l.map (·.id)).contains id = false) :
    resolveU l id = .error .nilDeref := by
  unfold resolveU
  have hs := findDef_isSome l id
  rw [h] at hs
  cases hf : findDef l id with
  | none => rfl
  | some d => rw [hf] at hs; cases hs

/-- an optional reference (`len(name) > 0` ⇒ look up): `none` = error, `some none` = no reference -/
def refC (l : List InDef) (name : Str) : Chk (Option (Option Str)) :=
  if name ≠ [] then do
    let r ← resolveC l name
    match r with
    | none => pure none
    | some id => pure (some (some id))
  else pure (some none)

/-- what the model computes for a reference -/
def refOf (ids : List Str) (name : Str) : Option (Option Str) :=
  if name ≠ [] ∧ !ids.contains name then none else some (if name ≠ [] then some name else none)

theorem refC_eq (l : List InDef) (name : Str) : refC l name = .ok (refOf (l.map (·.id)) name) := by
  unfold refC refOf
  by_cases hn : name ≠ []
  · rw [if_pos hn, resolveC_eq]
    simp only [ok_bind]
    cases hc : (l.map (·.id)).contains name <;> simp [hn]
  · rw [if_neg hn]
    simp [hn]

/-! ## styles and regions -/

def mkDef (s : InDef) : Def :=
  { id := s.id, ref := if s.style ≠ [] then some s.style else none, attrs := some (styleAttributes s.attrs) }

/-- one style / region: inline style, then the reference to its (parent) style; `none` = error -/
def defC (styles : List InDef) (s : InDef) : Chk (Option Def) := do
  let a ← styleAttributesC s.attrs
  let r ← refC styles s.style
  match r with
  | none => pure none
  | some ref => pure (some { id := s.id, ref := ref, attrs := some a })

def defsC (styles : List InDef) : List InDef → Chk (Option (List Def))
  | [] => pure (some [])
  | s :: rest => do
    let d ← defC styles s
    match d with
    | none => pure none
    | some d => do
      let ds ← defsC styles rest
      match ds with
      | none => pure none
      | some ds => pure (some (d :: ds))

theorem defC_eq (styles : List InDef) (s : InDef) :
    defC styles s = .ok (if s.style ≠ [] ∧ !(styles.map (·.id)).contains s.style then none else some (mkDef s)) := by
  unfold defC
  rw [styleAttributesC_eq, refC_eq]
  simp only [ok_bind, refOf]
  by_cases hb : s.style ≠ [] ∧ !(styles.map (·.id)).contains s.style
  · rw [if_pos hb, if_pos hb]; rfl
  · rw [if_neg hb, if_neg hb]; rfl

theorem defsC_eq (styles : List InDef) : ∀ l : List InDef,
    defsC styles l = .ok (if l.any (fun s => s.style ≠ [] ∧ !(styles.map (·.id)).contains s.style) then none
                          else some (l.map mkDef)) := by
  intro l
  induction l with
  | nil => rfl
  | cons s rest ih =>
    unfold defsC
    rw [defC_eq]
    simp only [ok_bind, List.any_cons, List.map_cons]
    by_cases hb : s.style ≠ [] ∧ !(styles.map (·.id)).contains s.style
    · rw [if_pos hb, decide_eq_true hb, Bool.true_or, if_pos rfl]
      rfl
    · rw [if_neg hb, ih, decide_eq_false hb, Bool.false_or]
      simp only [ok_bind]
      by_cases ha : (rest.any fun s => decide (s.style ≠ [] ∧ !(styles.map (·.id)).contains s.style)) = true
      · rw [if_pos ha, if_pos ha]; rfl
      · rw [if_neg ha, if_neg ha]; rfl

/-! ## the "loop through texts" -/

def mkLItem (tt : InItem) (li : Str) : LItem :=
  { text := li, attrs := some (styleAttributes tt.attrs), style := if tt.style ≠ [] then some tt.style else none }

/-- one `LineItem`: inline style, then `o.Styles[tt.Style]` behind its `ok` test; `none` = error -/
def mkLItemC (styles : List InDef) (tt : InItem) (li : Str) : Chk (Option LItem) := do
  let a ← styleAttributesC tt.attrs
  let r ← refC styles tt.style
  match r with
  | none => pure none
  | some st => pure (some { text := li, attrs := some a, style := st })

theorem mkLItemC_eq (styles : List InDef) (tt : InItem) (li : Str) :
    mkLItemC styles tt li =
      .ok (if tt.style ≠ [] ∧ !(styles.map (·.id)).contains tt.style then none else some (mkLItem tt li)) := by
  unfold mkLItemC
  rw [styleAttributesC_eq, refC_eq]
  simp only [ok_bind, refOf]
  by_cases hb : tt.style ≠ [] ∧ !(styles.map (·.id)).contains tt.style
  · rw [if_pos hb, if_pos hb]; rfl
  · rw [if_neg hb, if_neg hb]; rfl

/-- `for idx, li := range strings.Split(tt.Text, "\n")`: `first` = `idx == 0`; state = finished lines, current line -/
def piecesC (styles : List InDef) (tt : InItem) :
    List Str → Bool → List Line → List LItem → Chk (Option (List Line × List LItem))
  | [], _, done, cur => pure (some (done, cur))
  | li :: rest, first, done, cur => do
    let it ← mkLItemC styles tt li
    match it with
    | none => pure none
    | some it =>
      if first then piecesC styles tt rest false done (cur ++ [it])
      else piecesC styles tt rest false (done ++ [{ items := cur }]) [it]

/-- the loop over the items of a paragraph, as in Go -/
def linesLoopC (styles : List InDef) : List InItem → List Line → List LItem → Chk (Option (List Line))
  | [], done, cur => pure (some (done ++ [{ items := cur }]))
  | tt :: rest, done, cur =>
    if isBr tt.name then linesLoopC styles rest (done ++ [{ items := cur }]) []
    else do
      let r ← piecesC styles tt (splitC '\n' tt.text) true done cur
      match r with
      | none => pure none
      | some (done, cur) => linesLoopC styles rest done cur

/-- the inner loop when the style resolves -/
def piecesPure (mk : Str → LItem) : List Str → Bool → List Line → List LItem → List Line × List LItem
  | [], _, done, cur => (done, cur)
  | li :: rest, first, done, cur =>
    if first then piecesPure mk rest false done (cur ++ [mk li])
    else piecesPure mk rest false (done ++ [{ items := cur }]) [mk li]

theorem piecesC_ok (styles : List InDef) (tt : InItem)
    (h : ¬ (tt.style ≠ [] ∧ !(styles.map (·.id)).contains tt.style)) :
    ∀ (ps : List Str) (first : Bool) (done : List Line) (cur : List LItem),
      piecesC styles tt ps first done cur = .ok (some (piecesPure (mkLItem tt) ps first done cur)) := by
  intro ps
  induction ps with
  | nil => intros; rfl
  | cons li rest ih =>
    intro first done cur
    unfold piecesC piecesPure
    rw [mkLItemC_eq, if_neg h]
    simp only [ok_bind]
    cases first
    · exact ih _ _ _
    · exact ih _ _ _

theorem piecesC_err (styles : List InDef) (tt : InItem)
    (h : tt.style ≠ [] ∧ !(styles.map (·.id)).contains tt.style)
    (li : Str) (rest : List Str) (first : Bool) (done : List Line) (cur : List LItem) :
    piecesC styles tt (li :: rest) first done cur = .ok none := by
  unfold piecesC
  rw [mkLItemC_eq, if_pos h]
  rfl

/-- closed form of the inner loop after its first round -/
theorem piecesPure_false (mk : Str → LItem) : ∀ (more : List Str) (done : List Line) (cur : List LItem),
    piecesPure mk more false done cur =
      (match more.getLast? with
       | none => (done, cur)
       | some last => (done ++ [{ items := cur }] ++ (more.dropLast.map fun li => ({ items := [mk li] } : Line)), [mk last])) := by
  intro more
  induction more with
  | nil => intros; rfl
  | cons x r ih =>
    intro done cur
    unfold piecesPure
    simp only [Bool.false_eq_true, if_false]
    rw [ih]
    cases r with
    | nil => simp
    | cons y r' =>
      simp only [List.getLast?_cons_cons, List.dropLast_cons_cons, List.map_cons]
      cases hl : (y :: r').getLast? with
      | none => simp at hl
      | some last => simp

/-- closed form of the whole inner loop: what the model writes with `getLast?` / `dropLast` -/
theorem piecesPure_true (mk : Str → LItem) (first : Str) (more : List Str) (done : List Line) (cur : List LItem) :
    piecesPure mk (first :: more) true done cur =
      (match more.getLast? with
       | none => (done, cur ++ [mk first])
       | some last =>
         (done ++ [{ items := cur ++ [mk first] }] ++ (more.dropLast.map fun li => ({ items := [mk li] } : Line)), [mk last])) := by
  unfold piecesPure
  simp only [if_true]
  exact piecesPure_false mk more done (cur ++ [mk first])

/-- **the line loop never panics and is the model's closed form** -/
theorem linesLoopC_eq (styles : List InDef) : ∀ (items : List InItem) (done : List Line) (cur : List LItem),
    linesLoopC styles items done cur = .ok (linesLoop (styles.map (·.id)) items done cur) := by
  intro items
  induction items with
  | nil => intros; rfl
  | cons tt rest ih =>
    intro done cur
    unfold linesLoopC linesLoop
    by_cases hb : isBr tt.name = true
    · rw [if_pos hb, if_pos hb]; exact ih _ _
    · rw [if_neg hb, if_neg hb]
      by_cases hs : tt.style ≠ [] ∧ !(styles.map (·.id)).contains tt.style
      · rw [if_pos hs]
        match hsp : splitC '\n' tt.text with
        | [] => exact absurd hsp (splitC_ne_nil _ _)
        | li :: more => rw [piecesC_err styles tt hs]; rfl
      · rw [if_neg hs, piecesC_ok styles tt hs]
        simp only [ok_bind]
        match hsp : splitC '\n' tt.text with
        | [] => exact absurd hsp (splitC_ne_nil _ _)
        | first :: more =>
          simp only
          rw [piecesPure_true]
          cases more.getLast? with
          | none => exact ih _ _
          | some last => exact ih _ _

/-! ## paragraphs -/

def parseTimesC : List Str → Option (Option InDur) → Chk (Option (Option InDur))
  | [], acc => pure acc
  | s :: rest, acc =>
    match acc with
    | none => parseTimesC rest none
    | some _ => do
      let d ← timeExprC s
      parseTimesC rest (d.map some)

theorem parseTimesC_eq : ∀ (l : List Str) (acc : Option (Option InDur)),
    parseTimesC l acc = .ok (l.foldl (fun acc s => match acc with
      | none => none
      | some _ => (timeExpr s).map some) acc) := by
  intro l
  induction l with
  | nil => intros; rfl
  | cons s rest ih =>
    intro acc
    unfold parseTimesC
    cases acc with
    | none => exact ih none
    | some a =>
      simp only [timeExprC_eq, ok_bind, List.foldl_cons]
      exact ih _

theorem parseTimesC_eq' (l : List Str) : parseTimesC l (some none) = .ok (parseTimes l) :=
  parseTimesC_eq l (some none)

/-- the body of the loop over `ttml.Subtitles` after the `begin` / `end` pointers are known to be set -/
def subBodyC (t : TIn) (ts : InSub) (b e : InDur) : Chk (Res CItem) := do
  let endAt ← durationC e t.framerate t.tickrate
  let a ← styleAttributesC ts.attrs
  let startAt ← durationC b t.framerate t.tickrate
  let region ← refC t.regions ts.region
  match region with
  | none => pure .err
  | some region => do
    let style ← refC t.styles ts.style
    match style with
    | none => pure .err
    | some style =>
      if stripIndent ts.inner ≠ ts.stripped then pure .unmodelled
      else
        match decodeItems ts.toks ts.toksOk with
        | .err => pure .err
        | .unmodelled => pure .unmodelled
        | .ok items => do
          let lines ← linesLoopC t.styles items [] []
          match lines with
          | none => pure .err
          | some lines =>
            pure (.ok { startAt := startAt, endAt := endAt, attrs := some a, region := region, style := style, lines := lines })

/-- one paragraph: `ts.Begin == nil || ts.End == nil ⇒ error` (repair of D6), then the dereferences -/
def readSubC (t : TIn) (ts : InSub) : Chk (Res CItem) := do
  let b? ← parseTimesC ts.begins (some none)
  let e? ← parseTimesC ts.ends (some none)
  match b?, e? with
  | some bp, some ep =>
    if bp.isNone || ep.isNone then pure .err
    else do
      let b ← deref bp
      let e ← deref ep
      subBodyC t ts b e
  | _, _ => pure .err

/-- the model's paragraph body once both instants are there -/
def subBody (t : TIn) (ts : InSub) (b e : InDur) : Res CItem :=
  if ts.region ≠ [] ∧ !(t.regions.map (·.id)).contains ts.region then .err
  else if ts.style ≠ [] ∧ !(t.styles.map (·.id)).contains ts.style then .err
  else if stripIndent ts.inner ≠ ts.stripped then .unmodelled
  else
    match decodeItems ts.toks ts.toksOk with
    | .err => .err
    | .unmodelled => .unmodelled
    | .ok items =>
      match linesLoop (t.styles.map (·.id)) items [] [] with
      | none => .err
      | some lines =>
        .ok { startAt := duration b t.framerate t.tickrate, endAt := duration e t.framerate t.tickrate,
              attrs := some (styleAttributes ts.attrs),
              region := if ts.region ≠ [] then some ts.region else none,
              style := if ts.style ≠ [] then some ts.style else none,
              lines := lines }

theorem readSub_eq (t : TIn) (ts : InSub) :
    readSub t (t.styles.map (·.id)) (t.regions.map (·.id)) ts =
      (match parseTimes ts.begins, parseTimes ts.ends with
       | some (some b), some (some e) => subBody t ts b e
       | _, _ => .err) := by
  unfold readSub subBody
  rfl

theorem subBodyC_eq (t : TIn) (ts : InSub) (b e : InDur) : subBodyC t ts b e = .ok (subBody t ts b e) := by
  unfold subBodyC subBody
  simp only [durationC_eq, styleAttributesC_eq, refC_eq, ok_bind, refOf]
  by_cases hr : ts.region ≠ [] ∧ !(t.regions.map (·.id)).contains ts.region
  · rw [if_pos hr, if_pos hr]; rfl
  · rw [if_neg hr, if_neg hr]
    simp only
    by_cases hs : ts.style ≠ [] ∧ !(t.styles.map (·.id)).contains ts.style
    · rw [if_pos hs, if_pos hs]; rfl
    · rw [if_neg hs, if_neg hs]
      simp only
      split
      · rfl
      · cases decodeItems ts.toks ts.toksOk with
        | err => rfl
        | unmodelled => rfl
        | ok items =>
          simp only [linesLoopC_eq, ok_bind]
          cases linesLoop (t.styles.map (·.id)) items [] [] <;> rfl

/-- never panics and is the model, for every paragraph of every document -/
theorem readSubC_eq (t : TIn) (ts : InSub) :
    readSubC t ts = .ok (readSub t (t.styles.map (·.id)) (t.regions.map (·.id)) ts) := by
  unfold readSubC
  rw [readSub_eq]
  simp only [parseTimesC_eq', ok_bind]
  generalize parseTimes ts.begins = b?
  generalize parseTimes ts.ends = e?
  cases b? with
  | none => rfl
  | some bp =>
    cases e? with
    | none => cases bp <;> rfl
    | some ep =>
      cases bp with
      | none => rfl
      | some b =>
        cases ep with
        | none => rfl
        | some e =>
          simp only [Option.isNone_some, Bool.or_self, Bool.false_eq_true, if_false, deref, ok_bind]
          rw [subBodyC_eq]

/-- the pinned code (before the repair of D6): no nil test in front of `ts.Begin.framerate = …` -/
def readSubU (t : TIn) (ts : InSub) : Chk (Res CItem) := do
  let b? ← parseTimesC ts.begins (some none)
  let e? ← parseTimesC ts.ends (some none)
  match b?, e? with
  | some bp, some ep => do
    let b ← deref bp
    let e ← deref ep
    subBodyC t ts b e
  | _, _ => pure .err

/-- **the D6 guard is necessary**: a `<p>` without `begin` whose other time attributes parse is a nil dereference -/
theorem readSubU_no_begin (t : TIn) (ts : InSub) (hb : ts.begins = []) (he : (parseTimes ts.ends).isSome) :
    readSubU t ts = .error .nilDeref := by
  unfold readSubU
  rw [hb]
  simp only [parseTimesC_eq', ok_bind]
  revert he
  generalize parseTimes ts.ends = e?
  intro he
  cases e? with
  | none => cases he
  | some ep => rfl

/-- … and the same for a `<p>` with `begin` but without `end` -/
theorem readSubU_no_end (t : TIn) (ts : InSub) (b : InDur) (hb : parseTimes ts.begins = some (some b)) (he : ts.ends = []) :
    readSubU t ts = .error .nilDeref := by
  unfold readSubU
  rw [he]
  simp only [parseTimesC_eq', ok_bind, hb]
  rfl

/-! ## the document -/

def subsC (t : TIn) : List InSub → Chk (Res (List CItem))
  | [] => pure (.ok [])
  | a :: as => do
    let r ← readSubC t a
    match r with
    | .ok b => do
      let rs ← subsC t as
      match rs with
      | .ok bs => pure (.ok (b :: bs))
      | .err => pure .err
      | .unmodelled => pure .unmodelled
    | .err => pure .err
    | .unmodelled => pure .unmodelled

theorem subsC_eq (t : TIn) : ∀ l : List InSub,
    subsC t l = .ok (mapMRes (readSub t (t.styles.map (·.id)) (t.regions.map (·.id))) l) := by
  intro l
  induction l with
  | nil => rfl
  | cons a as ih =>
    unfold subsC mapMRes
    rw [readSubC_eq]
    simp only [ok_bind]
    cases readSub t (t.styles.map (·.id)) (t.regions.map (·.id)) a with
    | err => rfl
    | unmodelled => rfl
    | ok b =>
      simp only [ih, ok_bind]
      cases mapMRes (readSub t (t.styles.map (·.id)) (t.regions.map (·.id))) as <;> rfl

/-- **`ReadFromTTML` after `xml.Decode`, with every index, slice, quotient, map look-up and pointer checked** -/
def readC (tin : Option TIn) : Chk (Res Subs) :=
  match tin with
  | none => pure .err
  | some t => do
    let md ← metadataOfC t
    let styles ← defsC t.styles t.styles
    match styles with
    | none => pure .err
    | some styles => do
      let regions ← defsC t.styles t.regions
      match regions with
      | none => pure .err
      | some regions => do
        let items ← subsC t t.subs
        match items with
        | .err => pure .err
        | .unmodelled => pure .unmodelled
        | .ok items => pure (.ok { items := items, regions := lastWins regions, styles := lastWins styles, metadata := md })

/-- **the checked TTML reader never panics and is the model, for every decoded document** -/
theorem readC_eq (tin : Option TIn) : readC tin = .ok (TTML.read tin) := by
  unfold readC TTML.read
  cases tin with
  | none => rfl
  | some t =>
    simp only [metadataOfC_eq, defsC_eq, subsC_eq, ok_bind]
    by_cases h1 : (t.styles.any fun s => decide (s.style ≠ [] ∧ !(t.styles.map (·.id)).contains s.style)) = true
    · rw [if_pos h1, if_pos h1]; rfl
    · rw [if_neg h1, if_neg h1]
      simp only
      by_cases h2 : (t.regions.any fun s => decide (s.style ≠ [] ∧ !(t.styles.map (·.id)).contains s.style)) = true
      · rw [if_pos h2, if_pos h2]; rfl
      · rw [if_neg h2, if_neg h2]
        simp only
        cases mapMRes (readSub t (t.styles.map (·.id)) (t.regions.map (·.id))) t.subs <;> rfl

end TTML
end Tot
end Astisub
