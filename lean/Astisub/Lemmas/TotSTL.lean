import Astisub.Lemmas.TotBase
import Astisub.Model.STL

/-!
# Lemmas/TotSTL — the STL reader with Go's index, slice and division checks made explicit

Checked variants (monad `Chk`) of `parseDurationSTL`, `parseDurationSTLBytes`, `parseGSIBlock`,
`parseTTIBlock` and of the block loop of `ReadFromSTL` (`stl.go`), each proved (a) never to panic
and (b) to compute what the totalised model (`Model/STL.lean`, `Model/Duration.lean`) computes.
The guards that make (a) true:

* `ReadFromSTL` hands `parseGSIBlock` exactly 1024 bytes and `parseTTIBlock` exactly 128 bytes
  (`readNBytes`: a short read is an error) — every fixed offset is below the block size;
* `parseGSIBlock` answers an error for a disk format code that `stlFramerateMapping` does not hold
  (fix-1 of C05), so the frame rate it divides by is 25 or 30, never 0;
* `parseDurationSTL` is only called on a trimmed time code of at least 8 characters (fix-2 of C05).
-/

namespace Astisub
namespace Tot
namespace STL
open Astisub.STL Go Duration

theorem idxN_ok {l : List Nat} {i : Nat} (h : i < l.length) : idx l i = .ok (l.getD i 0) := idx_ok h 0

/-! ## time codes -/

/-- the division `1e9*frames/framerate` of `parseDurationSTL` / `parseDurationSTLBytes` (stl.go) -/
def framesToNsC (ceil : Bool) (f fr : Int) : Chk Int :=
  if ceil then tdivC (1000000000 * f + fr - 1) fr else tdivC (1000000000 * f) fr

theorem framesToNsC_ok {fr : Int} (h : fr ≠ 0) (ceil : Bool) (f : Int) :
    framesToNsC ceil f fr = .ok (framesToNs ceil f fr) := by
  unfold framesToNsC framesToNs
  cases ceil <;> simp [tdivC_ok h]

theorem framesToNsC_zero (ceil : Bool) (f : Int) : framesToNsC ceil f 0 = .error .divZero := by
  cases ceil <;> rfl

/-- `parseDurationSTL(i, framerate)` (stl.go): `i[0:2]`, `i[2:4]`, `i[4:6]`, `i[6:8]`, then the division -/
def parseSTLC (ceil : Bool) (i : Str) (fr : Int) : Chk (Option Int) := do
  let hs ← slc i 0 2
  let ms ← slc i 2 4
  let ss ← slc i 4 6
  let fs ← slc i 6 8
  match atoi hs, atoi ms, atoi ss, atoi fs with
  | some h, some m, some s, some f => do
    let ns ← framesToNsC ceil f fr
    pure (some (h * nsPerH + m * nsPerMin + s * nsPerS + ns))
  | _, _, _, _ => pure none

theorem parseSTLC_eq (ceil : Bool) (i : Str) (fr : Int) (hlen : 8 ≤ i.length) (hfr : fr ≠ 0) :
    parseSTLC ceil i fr = .ok (parseSTL ceil i fr) := by
  unfold parseSTLC parseSTL
  simp (disch := omega) only [slc_ok, ok_bind, List.drop_zero, Nat.sub_zero]
  split <;> simp_all [framesToNsC_ok hfr]

/-- without the length guard the slicing panics: the guard is necessary -/
theorem parseSTLC_short (ceil : Bool) (i : Str) (fr : Int) (hlen : i.length < 8) :
    (parseSTLC ceil i fr).safe = false := by
  unfold parseSTLC
  by_cases h2 : 2 ≤ i.length
  · by_cases h4 : 4 ≤ i.length
    · by_cases h6 : 6 ≤ i.length
      · simp (disch := omega) only [slc_ok, ok_bind]
        rw [slc_panics (by omega)]; rfl
      · simp (disch := omega) only [slc_ok, ok_bind]
        rw [slc_panics (lo := 4) (by omega)]; rfl
    · simp (disch := omega) only [slc_ok, ok_bind]
      rw [slc_panics (lo := 2) (by omega)]; rfl
  · rw [slc_panics (by omega)]; rfl

/-- `parseDurationSTLBytes(b, framerate)` (stl.go): `b[0]` … `b[3]`, then the division -/
def parseSTLBytesC (ceil : Bool) (b : List Nat) (fr : Int) : Chk Int := do
  let h ← idx b 0
  let m ← idx b 1
  let s ← idx b 2
  let f ← idx b 3
  let ns ← framesToNsC ceil (f : Int) fr
  pure ((h : Int) * nsPerH + (m : Int) * nsPerMin + (s : Int) * nsPerS + ns)

theorem parseSTLBytesC_eq (ceil : Bool) (b : List Nat) (fr : Int) (hlen : b.length = 4) (hfr : fr ≠ 0) :
    parseSTLBytesC ceil b fr = .ok (parseSTLBytes ceil b fr) := by
  match b, hlen with
  | [h, m, s, f], _ =>
    unfold parseSTLBytesC parseSTLBytes
    simp [idx, framesToNsC_ok hfr]

/-! ## the frame rate table has no zero -/

theorem framerate_pos : ∀ e ∈ Generated.STL.framerates, e.2.1 ≠ 0 := by decide

/-- the frame rate `parseGSIBlock` found in `stlFramerateMapping` is not zero -/
theorem framerateOf_ne_zero {dfc : Bytes} {fr : Nat} (h : framerateOf dfc = some fr) : (fr : Int) ≠ 0 := by
  unfold framerateOf at h
  cases hf : Generated.STL.framerates.find? (fun e => e.1 == dfc) with
  | none => rw [hf] at h; cases h
  | some e =>
    rw [hf] at h
    have hm := List.mem_of_find?_eq_some hf
    have := framerate_pos e hm
    simp at h
    omega

/-! ## the GSI block -/

/-- `bytes.TrimSpace(b[lo:hi])` -/
def fieldC (b : Bytes) (lo hi : Nat) : Chk Bytes := do
  let s ← slc b lo hi
  pure (trimB s)

theorem fieldC_ok {b : Bytes} {lo hi : Nat} (h1 : lo ≤ hi) (h2 : hi ≤ b.length) : fieldC b lo hi = .ok (field b lo hi) := by
  unfold fieldC field slice; rw [slc_ok h1 h2]; rfl

/-- the time code fields of `parseGSIBlock`: blank ⇒ 0, fewer than 8 characters ⇒ error (the guard
    in front of `parseDurationSTL`), else `parseDurationSTL` -/
def gsiTimecodeC (v : Bytes) (fr : Int) : Chk (Option Int) :=
  if v.isEmpty then pure (some 0)
  else if v.length < 8 then pure none
  else parseSTLC true (chars v) fr

theorem gsiTimecodeC_eq (v : Bytes) (fr : Int) (hfr : fr ≠ 0) : gsiTimecodeC v fr = .ok (gsiTimecode v fr) := by
  unfold gsiTimecodeC gsiTimecode
  by_cases h1 : v.isEmpty = true
  · simp [h1]
  · by_cases h2 : v.length < 8
    · simp [h1, h2]
    · rw [if_neg h1, if_neg h2, if_neg h1, if_neg h2]
      exact parseSTLC_eq true (chars v) fr (by simp [chars]; omega) hfr

/-- `parseGSIBlock(b)` (stl.go) with every slice and index expression of the Go function checked —
    also those of the fields the model does not observe (`b[0:3]`, `b[255]`, `b[373:448]`) — and all
    of them evaluated before any early error return (a superset of what one Go execution evaluates) -/
def parseGSIC (b : Bytes) : Chk (Option GSI) := do
  let _cpn ← slc b 0 3
  let dfc ← slc b 3 11
  let dsc ← fieldC b 11 12
  let c12 ← idx b 12
  let c13 ← idx b 13
  let code ← fieldC b 14 16
  let title ← fieldC b 16 48
  let origEp ← fieldC b 48 80
  let trProg ← fieldC b 80 112
  let trEp ← fieldC b 112 144
  let trName ← fieldC b 144 176
  let trContact ← fieldC b 176 208
  let slr ← fieldC b 208 224
  let cd ← fieldC b 224 230
  let rd ← fieldC b 230 236
  let rn ← fieldC b 236 238
  let tnb ← fieldC b 238 243
  let tns ← fieldC b 243 248
  let tng ← fieldC b 248 251
  let mnc ← fieldC b 251 253
  let mnr ← fieldC b 253 255
  let _tcs ← idx b 255
  let tcpF ← fieldC b 256 264
  let tcfF ← fieldC b 264 272
  let tnd ← idx b 272
  let dsn ← idx b 273
  let country ← fieldC b 274 277
  let publisher ← fieldC b 277 309
  let edName ← fieldC b 309 341
  let edContact ← fieldC b 341 373
  let _uda ← slc b 373 448
  match framerateOf dfc with
  | none => pure none
  | some fr =>
    let cct := c12 * 256 + c13
    if !Generated.STL.cctNumbers.contains cct then pure none else
    match dateField cd, dateField rd, atoiField rn, atoiField tnb, atoiField tns, atoiField tng,
          atoiField mnc, atoiField mnr with
    | some cd, some rd, some rn, some _, some _, some _, some mnc, some mnr => do
      let tcp? ← gsiTimecodeC tcpF fr
      let tcf? ← gsiTimecodeC tcfF fr
      match tcp?, tcf?, atoiByte tnd, atoiByte dsn with
      | some tcp, some _, some _, some _ =>
        pure (some {
          cct := cct, langCode := code, tcpFull := tcp,
          m := { framerate := fr, language := (languageOf code).getD [], country := country,
                 creation := some cd, dsc := dsc, editorContact := edContact,
                 editorName := edName, maxChars := some (mnc.getD 0), maxRows := some (mnr.getD 0),
                 origEpisode := origEp, publisher := publisher, revisionDate := some rd,
                 revisionNumber := rn.getD 0, slr := slr, tcp := tcp,
                 translEpisode := trEp, translProgram := trProg,
                 translContact := trContact, translName := trName, title := title } })
      | _, _, _, _ => pure none
    | _, _, _, _, _, _, _, _ => pure none

theorem slcB_ok {b : Bytes} {lo hi : Nat} (h1 : lo ≤ hi) (h2 : hi ≤ b.length) : slc b lo hi = .ok (slice b lo hi) :=
  slc_ok h1 h2

theorem parseGSIC_eq (b : Bytes) (hb : b.length = 1024) : parseGSIC b = .ok (parseGSI b) := by
  unfold parseGSIC
  simp (disch := omega) only [slcB_ok, fieldC_ok, idxN_ok, ok_bind]
  unfold parseGSI
  cases hfr : framerateOf (slice b 3 11) with
  | none => rfl
  | some fr =>
    have hfr0 := framerateOf_ne_zero hfr
    simp only [gsiTimecodeC_eq _ _ hfr0, ok_bind, pure_eq]
    split
    · rfl
    · cases dateField (field b 224 230) <;> try rfl
      cases dateField (field b 230 236) <;> try rfl
      cases atoiField (field b 236 238) <;> try rfl
      cases atoiField (field b 238 243) <;> try rfl
      cases atoiField (field b 243 248) <;> try rfl
      cases atoiField (field b 248 251) <;> try rfl
      cases atoiField (field b 251 253) <;> try rfl
      cases atoiField (field b 253 255) <;> try rfl
      cases gsiTimecode (field b 256 264) fr <;> try rfl
      cases gsiTimecode (field b 264 272) fr <;> try rfl
      cases atoiByte (b.getD 272 0) <;> try rfl
      cases atoiByte (b.getD 273 0) <;> rfl

/-- a GSI block that `parseGSIBlock` accepted carries a frame rate of the table: not zero.
    This is the guard of fix-1 (unknown disk format code ⇒ error) seen from the division. -/
theorem parseGSI_framerate {b : Bytes} {g : GSI} (h : parseGSI b = some g) : g.m.framerate ≠ 0 := by
  unfold parseGSI at h
  cases hfr : framerateOf (slice b 3 11) with
  | none => rw [hfr] at h; cases h
  | some fr =>
    rw [hfr] at h
    simp only at h
    split at h
    · cases h
    · split at h
      · split at h
        · cases h; exact framerateOf_ne_zero hfr
        · cases h
      · cases h

/-! ## TTI blocks -/

/-- `parseTTIBlock(p, framerate)` (stl.go: `p[0]` … `p[4]`, `p[5:9]`, `p[9:13]`, `p[13]`, `p[14]`, `p[15]`,
    `p[16:128]`, two calls of `parseDurationSTLBytes`) and the rest of the loop body of `ReadFromSTL`
    for that block -/
def ttiItemC (g : GSI) (off : Int) (acc : Option Nat) (p : Bytes) : Chk (Option (Option CItem × Option Nat)) := do
  let _sgn ← idx p 0
  let _sn1 ← idx p 1
  let _sn2 ← idx p 2
  let ebn ← idx p 3
  let _cs ← idx p 4
  let tciB ← slc p 5 9
  let tcoB ← slc p 9 13
  let vp ← idx p 13
  let jc ← idx p 14
  let _cf ← idx p 15
  let text ← slc p 16 128
  let tci ← parseSTLBytesC true tciB g.m.framerate
  let tco ← parseSTLBytesC true tcoB g.m.framerate
  if ebn == 0xFE then pure (some (none, acc)) else
  let rows := splitRows text
  match rowsFold (g.m.dsc == [0x30]) acc rows with
  | none => pure none
  | some (lines, acc') =>
    pure (some (some { startAt := tci - off, endAt := tco - off,
                       attrs := itemAttrs jc vp (g.m.maxRows.getD 0) rows.length,
                       lines := lines }, acc'))

theorem slice_length {b : Bytes} {lo hi : Nat} (h2 : hi ≤ b.length) : (slice b lo hi).length = hi - lo := by
  simp [slice]; omega

theorem ttiItemC_eq (g : GSI) (off : Int) (acc : Option Nat) (p : Bytes) (hp : p.length = 128)
    (hfr : g.m.framerate ≠ 0) : ttiItemC g off acc p = .ok (ttiItem g off acc p) := by
  unfold ttiItemC
  simp (disch := omega) only [slcB_ok, idxN_ok, ok_bind]
  rw [parseSTLBytesC_eq true (slice p 5 9) _ (by rw [slice_length (by omega)]) hfr,
      parseSTLBytesC_eq true (slice p 9 13) _ (by rw [slice_length (by omega)]) hfr]
  simp only [ok_bind, pure_eq]
  unfold ttiItem
  split
  · rfl
  · simp only
    cases rowsFold (g.m.dsc == [0x30]) acc (splitRows (slice p 16 128)) with
    | none => rfl
    | some r => rfl

/-- a block shorter than 128 bytes would make `parseTTIBlock` panic: the block size guard is necessary -/
theorem ttiItemC_short (g : GSI) (off : Int) (acc : Option Nat) (p : Bytes) (hp : p.length < 128) :
    (ttiItemC g off acc p).safe = false := by
  unfold ttiItemC
  by_cases h : 16 ≤ p.length
  · simp (disch := omega) only [slcB_ok, idxN_ok, ok_bind]
    rw [slc_panics (by omega)]; rfl
  · by_cases h0 : p.length ≤ 0
    · rw [idx_panics h0]; rfl
    · by_cases h1 : p.length ≤ 1
      · simp (disch := omega) only [idxN_ok, ok_bind]; rw [idx_panics h1]; rfl
      · by_cases h2 : p.length ≤ 2
        · simp (disch := omega) only [idxN_ok, ok_bind]; rw [idx_panics h2]; rfl
        · by_cases h3 : p.length ≤ 3
          · simp (disch := omega) only [idxN_ok, ok_bind]; rw [idx_panics h3]; rfl
          · by_cases h4 : p.length ≤ 4
            · simp (disch := omega) only [idxN_ok, ok_bind]; rw [idx_panics h4]; rfl
            · by_cases h9 : p.length < 9
              · simp (disch := omega) only [idxN_ok, ok_bind]; rw [slc_panics h9]; rfl
              · by_cases h13 : p.length < 13
                · simp (disch := omega) only [slcB_ok, idxN_ok, ok_bind]; rw [slc_panics h13]; rfl
                · by_cases h13' : p.length ≤ 13
                  · simp (disch := omega) only [slcB_ok, idxN_ok, ok_bind]; rw [idx_panics h13']; rfl
                  · by_cases h14 : p.length ≤ 14
                    · simp (disch := omega) only [slcB_ok, idxN_ok, ok_bind]; rw [idx_panics h14]; rfl
                    · have h15 : p.length ≤ 15 := by omega
                      simp (disch := omega) only [slcB_ok, idxN_ok, ok_bind]; rw [idx_panics h15]; rfl

/-! ## the block loop of `ReadFromSTL` -/

/-- the TTI loop of `ReadFromSTL`: `readNBytes(r, 128)` — nothing left: done; fewer than 128 bytes:
    error (this is the guard that `parseTTIBlock` relies on); else parse the block.  `none` = error. -/
def ttiLoopC (g : GSI) (off : Int) : Nat → Option Nat → Bytes → Chk (Option (List CItem))
  | 0, _, _ => pure (some [])
  | fuel + 1, acc, b =>
    if b.isEmpty then pure (some [])
    else if b.length < 128 then pure none
    else do
      let r ← ttiItemC g off acc (b.take 128)
      match r with
      | none => pure none
      | some (it, acc') => do
        let rest ← ttiLoopC g off fuel acc' (b.drop 128)
        match rest with
        | none => pure none
        | some its => pure (some ((match it with | some it => [it] | none => []) ++ its))

theorem ttiLoopC_eq (g : GSI) (off : Int) (hfr : g.m.framerate ≠ 0) :
    ∀ (fuel : Nat) (acc : Option Nat) (b : Bytes), b.length < fuel →
      ttiLoopC g off fuel acc b =
        .ok (match ttiFold g off acc (chunks 128 fuel b) with
             | none => none
             | some its => if b.length % 128 ≠ 0 then none else some its) := by
  intro fuel
  induction fuel with
  | zero => intro acc b h; omega
  | succ fuel ih =>
    intro acc b hlen
    unfold ttiLoopC chunks
    by_cases he : b.isEmpty = true
    · have : b = [] := by simpa using he
      subst this
      simp [ttiFold]
    · rw [if_neg he, if_neg he]
      have hne : b ≠ [] := by simpa using he
      have hpos : 0 < b.length := List.length_pos_iff.mpr hne
      by_cases hs : b.length < 128
      · rw [if_pos hs]
        have hd : b.drop 128 = [] := List.drop_eq_nil_of_le (by omega)
        have hc : chunks 128 fuel (b.drop 128) = [] := by
          rw [hd]; cases fuel <;> simp [chunks]
        rw [hc]
        have hm : b.length % 128 ≠ 0 := by omega
        simp only [ttiFold]
        cases ttiItem g off acc (b.take 128) with
        | none => rfl
        | some r => simp [hm]
      · rw [if_neg hs]
        have htl : (b.take 128).length = 128 := by rw [List.length_take]; omega
        rw [ttiItemC_eq g off acc _ htl hfr]
        simp only [ok_bind, ttiFold]
        cases ttiItem g off acc (b.take 128) with
        | none => rfl
        | some r =>
          obtain ⟨it, acc'⟩ := r
          have hdl : (b.drop 128).length < fuel := by rw [List.length_drop]; omega
          simp only [ih acc' (b.drop 128) hdl, ok_bind]
          have hmod : (b.drop 128).length % 128 = b.length % 128 := by rw [List.length_drop]; omega
          rw [hmod]
          cases ttiFold g off acc' (chunks 128 fuel (b.drop 128)) with
          | none => rfl
          | some its =>
            by_cases hm : b.length % 128 = 0
            · simp [hm]; cases it <;> rfl
            · simp [hm]

/-- `ReadFromSTL` with every index, slice and division checked: the 1024-byte read (`readNBytes`:
    short ⇒ error), `parseGSIBlock`, the TTI loop -/
def readC (ignoreTCP : Bool) (doc : Bytes) : Chk (Astisub.STL.Res (Meta × List CItem)) :=
  if doc.length < 1024 then pure .err else do
  let g? ← parseGSIC (doc.take 1024)
  match g? with
  | none => pure .err
  | some g =>
    let rest := doc.drop 1024
    let m : Meta := if ignoreTCP then { g.m with tcp := 0 } else g.m
    do
      let r ← ttiLoopC g m.tcp (rest.length + 1) none rest
      match r with
      | none => pure .err
      | some items => pure (.ok (m, items))

theorem readC_eq (ignoreTCP : Bool) (doc : Bytes) : readC ignoreTCP doc = .ok (Astisub.STL.read ignoreTCP doc) := by
  unfold readC Astisub.STL.read
  by_cases h : doc.length < 1024
  · rw [if_pos h, if_pos h]; rfl
  · rw [if_neg h, if_neg h]
    have htl : (doc.take 1024).length = 1024 := by rw [List.length_take]; omega
    rw [parseGSIC_eq _ htl]
    simp only [ok_bind]
    cases hg : parseGSI (doc.take 1024) with
    | none => rfl
    | some g =>
      have hfr := parseGSI_framerate hg
      simp only [ttiLoopC_eq g _ hfr _ none (doc.drop 1024) (Nat.lt_succ_self _), ok_bind]
      cases ttiFold g (if ignoreTCP = true then { g.m with tcp := 0 } else g.m).tcp none
          (chunks 128 ((doc.drop 1024).length + 1) (doc.drop 1024)) with
      | none => rfl
      | some its =>
        by_cases hm : (doc.length - 1024) % 128 = 0
        · simp [hm]
        · simp [hm]

end STL
end Tot
end Astisub
