import Astisub.Lemmas.STL2File

/-!
# Lemmas/STL2Spec — the independent decoder `Spec.STL.decode` on the file the writer model emits
(display standard 0): every GSI field it checks or returns, then the TTI blocks
-/

namespace Astisub
namespace C05
open Go STL

/-! ## slices -/

theorem sl_eq_slice (b : Bytes) (lo n : Nat) : Spec.STL.sl b lo n = slice b lo (lo + n) := by
  unfold Spec.STL.sl slice
  have : lo + n - lo = n := by omega
  rw [this]

theorem sl_sub (b X : Bytes) (lo hi lo' n : Nat) (h : slice b lo hi = X) (h1 : lo ≤ lo') (h2 : lo' + n ≤ hi) :
    Spec.STL.sl b lo' n = (X.drop (lo' - lo)).take n := by
  subst h
  unfold slice Spec.STL.sl
  rw [List.drop_take, List.drop_drop, List.take_take]
  have e1 : lo + (lo' - lo) = lo' := by omega
  have e2 : min n (hi - lo - (lo' - lo)) = n := by omega
  rw [e1, e2]

theorem slice_flatten_range (parts : List Bytes) (k j lo hi : Nat)
    (hlo : ((parts.take k).map List.length).sum = lo)
    (hhi : lo + (((parts.drop k).take j).map List.length).sum = hi) :
    slice parts.flatten lo hi = ((parts.drop k).take j).flatten := by
  have hsplit : parts = parts.take k ++ ((parts.drop k).take j ++ (parts.drop k).drop j) := by
    rw [List.take_append_drop, List.take_append_drop]
  have hf : parts.flatten = (parts.take k).flatten ++ (((parts.drop k).take j).flatten ++ ((parts.drop k).drop j).flatten) := by
    conv => lhs; rw [hsplit]
    rw [List.flatten_append, List.flatten_append]
  rw [hf]
  exact slice_mid _ _ _ lo hi (by rw [List.length_flatten]; exact hlo) (by rw [List.length_flatten]; exact hhi)

theorem gsi_slice_range (g : WGSI) (k j lo hi : Nat)
    (hlo : (gsiLens.take k).sum = lo) (hhi : lo + ((gsiLens.drop k).take j).sum = hi) :
    slice (gsiBytes g) lo hi = (((gsiParts g).drop k).take j).flatten := by
  rw [gsiBytes_parts]
  apply slice_flatten_range
  · rw [List.map_take, gsiParts_lens]; exact hlo
  · rw [List.map_take, List.map_drop, gsiParts_lens]; exact hhi

theorem gsi_head (g : WGSI) : slice (gsiBytes g) 0 3 = [0x38, 0x35, 0x30] := by
  rw [gsi_slice_range g 0 1 0 3 (by decide) (by decide)]; rfl

theorem gsi_cct (g : WGSI) : slice (gsiBytes g) 12 14 = [0x30, 0x30] := by
  rw [gsi_slice_range g 3 2 12 14 (by decide) (by decide)]; rfl

theorem gsi_tcs (g : WGSI) : slice (gsiBytes g) 255 256 = [0x31] := by
  rw [gsi_slice_range g 21 1 255 256 (by decide) (by decide)]; rfl

theorem gsi_get255 (g : WGSI) : (gsiBytes g).getD 255 0 = 0x31 := getD_of_slice _ _ _ (gsi_tcs g)

/-! ## printable text fields -/

theorem printable_padR (n : Nat) (v : Bytes) (h : Spec.STL.printable v = true) :
    Spec.STL.printable (padR 0x20 n v) = true := by
  unfold Spec.STL.printable at h ⊢
  rw [List.all_eq_true] at h ⊢
  intro c hc
  unfold padR at hc
  rcases List.mem_append.mp (List.mem_of_mem_take hc) with hv | hr
  · exact h c hv
  · rw [List.eq_of_mem_replicate hr]; decide

theorem strip_eq (b : Bytes) : Spec.STL.strip b = trimBoth (· == 0x20) b := rfl

theorem allP_replicate (k : Nat) : allP (· == 0x20) (List.replicate k (0x20 : Nat)) := by
  intro c hc; rw [List.eq_of_mem_replicate hc]; rfl

theorem graphicB_ne_space {c : Nat} (h : graphicB c = true) : (c == 0x20) = false := by
  unfold graphicB at h; simp at h ⊢; omega

theorem fieldOK_edges (n : Nat) (v : Bytes) (h : fieldOK n v = true) (hne : v ≠ []) : Edges (· == 0x20) v := by
  unfold fieldOK at h
  simp only [Bool.and_eq_true, decide_eq_true_eq] at h
  obtain ⟨⟨_, h2⟩, h3⟩ := h
  constructor
  · cases v with
    | nil => exact absurd rfl hne
    | cons c r => exact ⟨c, r, rfl, graphicB_ne_space (by simpa using h2)⟩
  · cases hr : v.reverse with
    | nil =>
      have := congrArg List.length hr
      simp only [List.length_reverse, List.length_nil] at this
      exact absurd (List.length_eq_zero_iff.mp this) hne
    | cons d r' =>
      refine ⟨d, r', rfl, graphicB_ne_space ?_⟩
      have : v.getLast? = some d := by rw [List.getLast?_eq_head?_reverse, hr]; rfl
      rw [this] at h3
      simpa using h3

theorem strip_padR (n : Nat) (v : Bytes) (h : fieldOK n v = true) : Spec.STL.strip (padR 0x20 n v) = v := by
  have hlen : v.length ≤ n := by
    unfold fieldOK at h; simp only [Bool.and_eq_true, decide_eq_true_eq] at h; exact h.1.1
  rw [padR_fit _ _ _ hlen, strip_eq]
  by_cases hne : v = []
  · subst hne
    rw [List.nil_append]
    exact trimBoth_all _ _ (allP_replicate _)
  · have := trimBoth_pad (· == 0x20) [] v _ (allP_nil _) (allP_replicate (n - v.length)) (fieldOK_edges n v h hne)
    rwa [List.nil_append] at this

/-- a text field of the GSI block under the independent decoder -/
theorem textField_padR (b : Bytes) (lo hi n : Nat) (v : Bytes) (hs : slice b lo hi = padR 0x20 n v) (hhi : lo + n = hi)
    (hf : fieldOK n v = true) (hp : Spec.STL.printable v = true) : Spec.STL.textField b lo n = some v := by
  unfold Spec.STL.textField
  rw [sl_eq_slice, hhi, hs]
  simp only [padR_length, beq_self_eq_true, printable_padR n v hp, Bool.and_self, if_true, strip_padR n v hf]

/-! ## numbers, dates, timecodes -/

theorem num2_two : ∀ v : Fin 100, num 2 ((v.val : Nat) : Int) = two v.val := by decide
theorem ascii_dd_two : ∀ v : Fin 100, ascii (dd v.val) = two v.val := by decide
theorem daysIn_monthDays : ∀ yy : Fin 100, ∀ mm : Fin 13,
    daysIn mm.val (if yy.val ≥ 69 then 1900 + yy.val else 2000 + yy.val) = Spec.STL.monthDays mm.val yy.val := by decide
theorem digits_two : ∀ v : Fin 100, Spec.STL.digits (two v.val) = some v.val := by decide

theorem num2_int_two (v : Int) (h0 : 0 ≤ v) (h1 : v < 100) : num 2 v = two v.toNat := by
  have := num2_two ⟨v.toNat, by omega⟩
  simp only at this
  rwa [Int.toNat_of_nonneg h0] at this

theorem ascii_dd (v : Nat) (h : v < 100) : ascii (dd v) = two v := ascii_dd_two ⟨v, h⟩
theorem digits_two' (v : Nat) (h : v < 100) : Spec.STL.digits (two v) = some v := digits_two ⟨v, h⟩

theorem numField_two (b : Bytes) (lo : Nat) (v : Nat) (h : v < 100) (hs : Spec.STL.sl b lo 2 = two v) :
    Spec.STL.numField b lo 2 = some v := by
  unfold Spec.STL.numField
  rw [hs]
  simp only [two, List.length_cons, List.length_nil, beq_self_eq_true, if_true]
  exact digits_two' v h

theorem digits_fold_some (l : Bytes) (h : ∀ b ∈ l, digitByte b) (acc : Nat) :
    ∃ v, l.foldl (fun acc c => match acc with
      | some v => if 0x30 ≤ c && c ≤ 0x39 then some (10 * v + (c - 0x30)) else none
      | none => none) (some acc) = some v := by
  induction l generalizing acc with
  | nil => exact ⟨acc, rfl⟩
  | cons c cs ih =>
    have hc := h c (by simp)
    unfold digitByte at hc
    have : (decide (0x30 ≤ c) && decide (c ≤ 0x39)) = true := by simp; omega
    simp only [List.foldl_cons, this, if_true]
    exact ih (fun b hb => h b (by simp [hb])) _

theorem digits_some (l : Bytes) (h : ∀ b ∈ l, digitByte b) (hne : l ≠ []) : ∃ v, Spec.STL.digits l = some v := by
  cases l with
  | nil => exact absurd rfl hne
  | cons c cs => exact digits_fold_some (c :: cs) h 0

theorem numField_num (b : Bytes) (lo hi w n : Nat) (hs : slice b lo hi = num w (n : Int)) (hhi : lo + w = hi) (hw : 0 < w) :
    ∃ v, Spec.STL.numField b lo w = some v := by
  unfold Spec.STL.numField
  rw [sl_eq_slice, hhi, hs]
  simp only [num_length, beq_self_eq_true, if_true]
  apply digits_some _ (num_digits w n)
  intro e
  have := num_length w (n : Int)
  rw [e] at this; simp at this; omega

theorem numField_one (b : Bytes) (lo hi : Nat) (hs : slice b lo hi = [0x31]) (hhi : lo + 1 = hi) :
    Spec.STL.numField b lo 1 = some 1 := by
  unfold Spec.STL.numField
  rw [sl_eq_slice, hhi, hs]
  rfl

theorem formatDate_two (d : Date) : formatDate d = two d.yy ++ two d.mm ++ two d.dd := rfl

theorem dateField_format (b : Bytes) (lo hi : Nat) (d : Date) (hs : slice b lo hi = padR 0x20 6 (formatDate d))
    (hhi : lo + 6 = hi) (hd : dateOK d = true) : Spec.STL.dateField b lo = some (d.yy, d.mm, d.dd) := by
  have hp : padR 0x20 6 (formatDate d) = formatDate d := by
    rw [padR_fit _ _ _ (by rw [formatDate_length]; omega), formatDate_length]; simp
  rw [hp] at hs
  unfold dateOK at hd
  simp only [Bool.and_eq_true, decide_eq_true_eq] at hd
  obtain ⟨⟨⟨⟨h1, h2⟩, h3⟩, h4⟩, h5⟩ := hd
  have hdd : d.dd < 100 := by
    have := daysIn_le d.mm (if d.yy ≥ 69 then 1900 + d.yy else 2000 + d.yy); omega
  have e1 : Spec.STL.numField b lo 2 = some d.yy :=
    numField_two b lo d.yy h1 (by rw [sl_sub b _ lo hi lo 2 hs (by omega) (by omega), formatDate_two, Nat.sub_self]; rfl)
  have e2 : Spec.STL.numField b (lo + 2) 2 = some d.mm :=
    numField_two b (lo + 2) d.mm (by omega) (by
      rw [sl_sub b _ lo hi (lo + 2) 2 hs (by omega) (by omega), formatDate_two]
      have : lo + 2 - lo = 2 := by omega
      rw [this]; rfl)
  have e3 : Spec.STL.numField b (lo + 4) 2 = some d.dd :=
    numField_two b (lo + 4) d.dd hdd (by
      rw [sl_sub b _ lo hi (lo + 4) 2 hs (by omega) (by omega), formatDate_two]
      have : lo + 4 - lo = 4 := by omega
      rw [this]; rfl)
  have hmd := daysIn_monthDays ⟨d.yy, h1⟩ ⟨d.mm, by omega⟩
  simp only at hmd
  unfold Spec.STL.dateField
  rw [e1, e2, e3]
  simp only
  have : (decide (1 ≤ d.mm) && decide (d.mm ≤ 12) && decide (1 ≤ d.dd) && decide (d.dd ≤ Spec.STL.monthDays d.mm d.yy)) = true := by
    rw [← hmd]; simp [h2, h3, h4, h5]
  rw [if_pos this]

theorem instant_frame (T : Int) (fr : Nat) (hfr : fr = 25 ∨ fr = 30) (h0 : 0 ≤ T) (h1 : T < 86400000000000) :
    Spec.STL.instant fr (T.toNat / 3600000000000) (T.toNat % 3600000000000 / 60000000000)
      (T.toNat % 60000000000 / 1000000000) (T.toNat % 1000000000 * fr / 1000000000) = frameInstant (fr : Int) T := by
  obtain ⟨n, rfl⟩ : ∃ n : Nat, T = (n : Int) := ⟨T.toNat, by omega⟩
  rw [frameInstant_nat n fr hfr (by omega)]
  unfold Spec.STL.instant
  simp only [Int.toNat_natCast]
  have e : n % 1000000000 * fr / 1000000000 * 1000000000 + fr - 1 = 1000000000 * (n % 1000000000 * fr / 1000000000) + fr - 1 := by
    omega
  rw [e]
  generalize (1000000000 * (n % 1000000000 * fr / 1000000000) + fr - 1) / fr = K
  omega

/-- a textual timecode of the GSI block under the independent decoder -/
theorem tcText_format (b : Bytes) (lo hi : Nat) (T : Int) (fr : Nat) (hfr : fr = 25 ∨ fr = 30)
    (hs : slice b lo hi = padR 0x20 8 (ascii (Duration.formatSTL T fr))) (hhi : lo + 8 = hi)
    (h0 : 0 ≤ T) (h1 : T < 86400000000000) :
    Spec.STL.tcText b lo fr = some (frameInstant (fr : Int) T) := by
  have hF : T.toNat % 1000000000 * fr / 1000000000 < fr := by rcases hfr with rfl | rfl <;> omega
  have hF' : T.toNat % 1000000000 * fr / 1000000000 < 100 := by rcases hfr with rfl | rfl <;> omega
  have hH : T.toNat / 3600000000000 < 24 := by omega
  have hM : T.toNat % 3600000000000 / 60000000000 < 60 := by omega
  have hS : T.toNat % 60000000000 / 1000000000 < 60 := by omega
  have hinst := instant_frame T fr hfr h0 h1
  rw [formatSTL_dd T fr hfr (by omega)] at hs
  generalize T.toNat / 3600000000000 = H at hH hs hinst
  generalize T.toNat % 3600000000000 / 60000000000 = M at hM hs hinst
  generalize T.toNat % 60000000000 / 1000000000 = S at hS hs hinst
  generalize T.toNat % 1000000000 * fr / 1000000000 = F at hF hF' hs hinst
  have ha : ascii (dd H ++ dd M ++ dd S ++ dd F) = two H ++ two M ++ two S ++ two F := by
    have : ascii (dd H ++ dd M ++ dd S ++ dd F) = ascii (dd H) ++ ascii (dd M) ++ ascii (dd S) ++ ascii (dd F) := by
      unfold ascii; simp
    rw [this, ascii_dd H (by omega), ascii_dd M (by omega), ascii_dd S (by omega), ascii_dd F hF']
  have hp : padR 0x20 8 (two H ++ two M ++ two S ++ two F) = two H ++ two M ++ two S ++ two F := by
    rw [padR_fit _ _ _ (by simp [two])]; simp [two]
  rw [ha, hp] at hs
  have e1 : Spec.STL.numField b lo 2 = some H :=
    numField_two b lo H (by omega) (by rw [sl_sub b _ lo hi lo 2 hs (by omega) (by omega), Nat.sub_self]; rfl)
  have e2 : Spec.STL.numField b (lo + 2) 2 = some M :=
    numField_two b (lo + 2) M (by omega) (by
      rw [sl_sub b _ lo hi (lo + 2) 2 hs (by omega) (by omega)]
      have : lo + 2 - lo = 2 := by omega
      rw [this]; rfl)
  have e3 : Spec.STL.numField b (lo + 4) 2 = some S :=
    numField_two b (lo + 4) S (by omega) (by
      rw [sl_sub b _ lo hi (lo + 4) 2 hs (by omega) (by omega)]
      have : lo + 4 - lo = 4 := by omega
      rw [this]; rfl)
  have e4 : Spec.STL.numField b (lo + 6) 2 = some F :=
    numField_two b (lo + 6) F hF' (by
      rw [sl_sub b _ lo hi (lo + 6) 2 hs (by omega) (by omega)]
      have : lo + 6 - lo = 6 := by omega
      rw [this]; rfl)
  unfold Spec.STL.tcText
  rw [e1, e2, e3, e4]
  simp only
  have : Spec.STL.tcOK fr H M S F = true := by unfold Spec.STL.tcOK; simp [hH, hM, hS, hF]
  rw [if_pos this, hinst]

/-! ## the TTI blocks -/

theorem blocks_eq_chunks (fuel : Nat) (b : Bytes) : Spec.STL.blocks fuel b = chunks 128 fuel b := by
  induction fuel generalizing b with
  | zero => rfl
  | succ f ih => unfold Spec.STL.blocks chunks; rw [ih]

theorem spec_mapM_blocks (fr : Nat) (G : WGSI) (off : Int) (hfr : fr = 25 ∨ fr = 30) (hg : G.m.framerate = (fr : Int))
    (l : List (MCue × Nat)) (hok : ∀ p ∈ l, p.1.ok ∧ p.1.rows ≠ [] ∧ InDay (p.1.startAt + G.m.tcp) ∧ InDay (p.1.endAt + G.m.tcp)) :
    Spec.STL.mapM (Spec.STL.tti fr 0 off) (l.map fun p => ttiBytes G (p.2 + 1) p.1.toW)
      = some (l.map fun p => some (specCueM fr G off p.1)) := by
  induction l with
  | nil => rfl
  | cons p ps ih =>
    obtain ⟨h1, h2, h3, h4⟩ := hok p (by simp)
    simp only [List.map_cons, Spec.STL.mapM]
    rw [spec_tti_ttiBytesM fr G off (p.2 + 1) p.1 hfr hg h1 h2 h3 h4, ih (fun q hq => hok q (by simp [hq]))]

theorem filterMap_id_map_some {α β} (l : List α) (f : α → β) : (l.map fun c => some (f c)).filterMap id = l.map f := by
  induction l with
  | nil => rfl
  | cons a as ih => simp

/-! ## the whole file -/

/-- **what the independent decoder needs beyond `GsiOK`** (decidable): the text values and the language code
    are printable ASCII, and the two GSI timecodes (programme start, first cue) lie within a day -/
def SpecOK (g : WGSI) : Prop :=
  Spec.STL.printable g.langCode = true ∧ Spec.STL.printable g.m.title = true ∧
  Spec.STL.printable g.m.origEpisode = true ∧ Spec.STL.printable g.m.translProgram = true ∧
  Spec.STL.printable g.m.translEpisode = true ∧ Spec.STL.printable g.m.translName = true ∧
  Spec.STL.printable g.m.translContact = true ∧ Spec.STL.printable g.m.slr = true ∧
  Spec.STL.printable g.m.country = true ∧ Spec.STL.printable g.m.publisher = true ∧
  Spec.STL.printable g.m.editorName = true ∧ Spec.STL.printable g.m.editorContact = true ∧
  InDay g.m.tcp ∧ InDay g.tcf

instance (g : WGSI) : Decidable (SpecOK g) := by unfold SpecOK; infer_instance

def dateT (d : Date) : Nat × Nat × Nat := (d.yy, d.mm, d.dd)

/-- what the independent decoder denotes for the file written from `G` and `cs` -/
def specDoc (ig : Bool) (G : WGSI) (cs : List MCue) : Spec.STL.Doc :=
  let fr := G.m.framerate.toNat
  let off : Int := if ig then 0 else frameInstant G.m.framerate G.m.tcp
  { fr := fr, dsc := 0, lang := G.langCode,
    texts := [G.m.title, G.m.origEpisode, G.m.translProgram, G.m.translEpisode, G.m.translName, G.m.translContact,
              G.m.slr, G.m.country, G.m.publisher, G.m.editorName, G.m.editorContact],
    cd := dateT (G.m.creation.getD zeroDate), rd := dateT (G.m.revisionDate.getD zeroDate),
    rn := G.m.revisionNumber.toNat, mnc := (G.m.maxChars.getD 0).toNat, mnr := (G.m.maxRows.getD 0).toNat,
    tcpNs := off, cues := cs.map fun c => specCueM fr G off c }

theorem slice_append_left (a b : Bytes) (lo hi : Nat) (h : hi ≤ a.length) : slice (a ++ b) lo hi = slice a lo hi := by
  unfold slice
  by_cases hlo : lo ≤ hi
  · rw [List.drop_append_of_le_length (by omega), List.take_append_of_le_length (by rw [List.length_drop]; omega)]
  · have : hi - lo = 0 := by omega
    rw [this]; simp

theorem decode_body (ig : Bool) (G : WGSI) (cs : List MCue) (hG : GsiOK G) (hS : SpecOK G) (hdsc : G.m.dsc = [0x30])
    (hok : ∀ c ∈ cs, c.ok ∧ c.rows ≠ [] ∧ InDay (c.startAt + G.m.tcp) ∧ InDay (c.endAt + G.m.tcp)) :
    Spec.STL.decode ig (gsiBytes G ++ (ttiBlocks G cs).flatten) = some (specDoc ig G cs) := by
  obtain ⟨hfr, hfdsc, hlang, htitle, horig, htp, hte, htn, htc, hslr, hcountry, hpub, hen, hec, hcd, hrd,
    ⟨hrn0, hrn1⟩, ⟨hmc0, hmc1⟩, ⟨hmr0, hmr1⟩, _, _⟩ := hG
  obtain ⟨plang, ptitle, porig, ptp, pte, ptn, ptc, pslr, pcountry, ppub, pen, pec, ⟨htcp0, htcp1⟩, ⟨htcf0, htcf1⟩⟩ := hS
  obtain ⟨fr, hfrN, hfrI⟩ : ∃ fr : Nat, (fr = 25 ∨ fr = 30) ∧ G.m.framerate = (fr : Int) := by
    rcases hfr with e | e
    · exact ⟨25, Or.inl rfl, e⟩
    · exact ⟨30, Or.inr rfl, e⟩
  have hfrT : G.m.framerate.toNat = fr := by rw [hfrI]; rfl
  generalize hb : gsiBytes G = b
  have hblen : b.length = 1024 := by rw [← hb]; exact gsiBytes_length G
  have hflen := ttiBlocks_flatten_length G cs
  have hlen : ((b ++ (ttiBlocks G cs).flatten).length < 1024 || ((b ++ (ttiBlocks G cs).flatten).length - 1024) % 128 ≠ 0) = false := by
    rw [List.length_append, hblen, hflen]
    have e1 : ¬ (1024 + 128 * cs.length < 1024) := by omega
    have e2 : (1024 + 128 * cs.length - 1024) % 128 = 0 := by omega
    simp [e1]
  have htake : (b ++ (ttiBlocks G cs).flatten).take 1024 = b := List.take_left' hblen
  have hdrop : (b ++ (ttiBlocks G cs).flatten).drop 1024 = (ttiBlocks G cs).flatten := List.drop_left' hblen
  -- fixed fields
  have e_fr : (if (Spec.STL.sl b 3 8 == Spec.STL.lit "STL25.01") = true then some 25
      else if (Spec.STL.sl b 3 8 == Spec.STL.lit "STL30.01") = true then some 30 else none) = some fr := by
    rw [sl_eq_slice, ← hb, gsi_dfc, hfrI]
    rcases hfrN with rfl | rfl <;> decide
  have e_dsc : b.getD 11 0 = 0x30 := by
    rw [← hb]; apply getD_of_slice; rw [gsi_dsc, hdsc]; rfl
  have e_cct : (Spec.STL.sl b 12 2 != Spec.STL.lit "00") = false := by
    rw [sl_eq_slice, ← hb, gsi_cct]; decide
  have e_head : Spec.STL.printable (Spec.STL.sl b 0 3) = true := by
    rw [sl_eq_slice, ← hb, gsi_head]; decide
  have e_lc : Spec.STL.printable (Spec.STL.sl b 14 2) = true := by
    rw [sl_eq_slice, ← hb, gsi_lang]; exact printable_padR _ _ plang
  have e_255 : b.getD 255 0 = 0x31 := by rw [← hb]; exact gsi_get255 G
  have e_lang : Spec.STL.strip (Spec.STL.sl b 14 2) = G.langCode := by
    rw [sl_eq_slice, ← hb, gsi_lang]; exact strip_padR _ _ hlang
  -- text fields
  have t1 : Spec.STL.textField b 16 32 = some G.m.title := textField_padR b 16 48 32 _ (by rw [← hb]; exact gsi_title G) rfl htitle ptitle
  have t2 : Spec.STL.textField b 48 32 = some G.m.origEpisode := textField_padR b 48 80 32 _ (by rw [← hb]; exact gsi_origEpisode G) rfl horig porig
  have t3 : Spec.STL.textField b 80 32 = some G.m.translProgram := textField_padR b 80 112 32 _ (by rw [← hb]; exact gsi_translProgram G) rfl htp ptp
  have t4 : Spec.STL.textField b 112 32 = some G.m.translEpisode := textField_padR b 112 144 32 _ (by rw [← hb]; exact gsi_translEpisode G) rfl hte pte
  have t5 : Spec.STL.textField b 144 32 = some G.m.translName := textField_padR b 144 176 32 _ (by rw [← hb]; exact gsi_translName G) rfl htn ptn
  have t6 : Spec.STL.textField b 176 32 = some G.m.translContact := textField_padR b 176 208 32 _ (by rw [← hb]; exact gsi_translContact G) rfl htc ptc
  have t7 : Spec.STL.textField b 208 16 = some G.m.slr := textField_padR b 208 224 16 _ (by rw [← hb]; exact gsi_slr G) rfl hslr pslr
  have t8 : Spec.STL.textField b 274 3 = some G.m.country := textField_padR b 274 277 3 _ (by rw [← hb]; exact gsi_country G) rfl hcountry pcountry
  have t9 : Spec.STL.textField b 277 32 = some G.m.publisher := textField_padR b 277 309 32 _ (by rw [← hb]; exact gsi_publisher G) rfl hpub ppub
  have t10 : Spec.STL.textField b 309 32 = some G.m.editorName := textField_padR b 309 341 32 _ (by rw [← hb]; exact gsi_editorName G) rfl hen pen
  have t11 : Spec.STL.textField b 341 32 = some G.m.editorContact := textField_padR b 341 373 32 _ (by rw [← hb]; exact gsi_editorContact G) rfl hec pec
  -- dates and numbers
  have d1 : Spec.STL.dateField b 224 = some (dateT (G.m.creation.getD zeroDate)) :=
    dateField_format b 224 230 _ (by rw [← hb]; exact gsi_creation G) rfl hcd
  have d2 : Spec.STL.dateField b 230 = some (dateT (G.m.revisionDate.getD zeroDate)) :=
    dateField_format b 230 236 _ (by rw [← hb]; exact gsi_revisionDate G) rfl hrd
  have n1 : Spec.STL.numField b 236 2 = some G.m.revisionNumber.toNat :=
    numField_two b 236 _ (by omega) (by rw [sl_eq_slice, ← hb, gsi_revisionNumber]; exact num2_int_two _ hrn0 hrn1)
  obtain ⟨v2, n2⟩ := numField_num b 238 243 5 G.n (by rw [← hb]; exact gsi_tnb G) rfl (by omega)
  obtain ⟨v3, n3⟩ := numField_num b 243 248 5 G.n (by rw [← hb]; exact gsi_tns G) rfl (by omega)
  obtain ⟨v4, n4⟩ := numField_num b 248 251 3 1 (by rw [← hb]; exact gsi_tng G) rfl (by omega)
  have n5 : Spec.STL.numField b 251 2 = some (G.m.maxChars.getD 0).toNat :=
    numField_two b 251 _ (by omega) (by rw [sl_eq_slice, ← hb, gsi_maxChars]; exact num2_int_two _ hmc0 hmc1)
  have n6 : Spec.STL.numField b 253 2 = some (G.m.maxRows.getD 0).toNat :=
    numField_two b 253 _ (by omega) (by rw [sl_eq_slice, ← hb, gsi_maxRows]; exact num2_int_two _ hmr0 hmr1)
  have c1 : Spec.STL.tcText b 256 fr = some (frameInstant (fr : Int) G.m.tcp) :=
    tcText_format b 256 264 _ fr hfrN (by rw [← hb, gsi_tcp, hfrT]) rfl htcp0 htcp1
  have c2 : Spec.STL.tcText b 264 fr = some (frameInstant (fr : Int) G.tcf) :=
    tcText_format b 264 272 _ fr hfrN (by rw [← hb, gsi_tcf, hfrT]) rfl htcf0 htcf1
  have n7 : Spec.STL.numField b 272 1 = some 1 := numField_one b 272 273 (by rw [← hb]; exact gsi_tnd G) rfl
  have n8 : Spec.STL.numField b 273 1 = some 1 := numField_one b 273 274 (by rw [← hb]; exact gsi_dsn G) rfl
  -- blocks
  have hblocks : Spec.STL.blocks (b ++ (ttiBlocks G cs).flatten).length (ttiBlocks G cs).flatten = ttiBlocks G cs := by
    rw [blocks_eq_chunks, chunks_flatten _ (ttiBlocks_len G cs)]
    rw [List.length_append, hblen, hflen, ttiBlocks_length]; omega
  have hm := spec_mapM_blocks fr G (if ig then 0 else frameInstant (fr : Int) G.m.tcp) hfrN hfrI cs.zipIdx
    (by intro p hp; exact hok p.1 (mem_zipIdx_fst hp))
  rw [zipIdx_map_fst cs (fun c => some (specCueM fr G (if ig then 0 else frameInstant (fr : Int) G.m.tcp) c))] at hm
  have hm' : Spec.STL.mapM (Spec.STL.tti fr 0 (if ig = true then 0 else frameInstant (fr : Int) G.m.tcp)) (ttiBlocks G cs)
      = some (cs.map fun c => some (specCueM fr G (if ig then 0 else frameInstant (fr : Int) G.m.tcp) c)) := hm
  unfold Spec.STL.decode
  simp only [hlen, Bool.false_eq_true, if_false, htake, hdrop, e_fr, e_dsc, e_cct, e_head, e_lc, e_255, e_lang,
    beq_self_eq_true, Bool.or_true, Bool.and_self, Bool.not_true, Spec.STL.mapM, t1, t2, t3, t4, t5, t6, t7, t8, t9, t10, t11,
    d1, d2, n1, n2, n3, n4, n5, n6, c1, c2, n7, n8, hblocks, hm']
  unfold specDoc
  simp only [hfrI, Int.toNat_natCast, filterMap_id_map_some]

end C05
end Astisub
