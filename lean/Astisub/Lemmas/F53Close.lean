import Astisub.Props.C15

/-!
# Lemmas/F53Close — the 3 ns bound when the reference differences are *not* exactly convertible

`C15.close` assumes `float64(d2-d1)` and `float64(a2-a1)` are exact (the abstract tree `slopeA`
casts them directly). Here the two conversions are rounded as well: the slope then carries three
rounding errors instead of one (`slope_err`: at most `5u` relative), and the error analysis of
`C15.close` is redone with that budget (`close_core`).
-/

namespace Astisub
namespace C15

theorem u_pos : (0 : ℚ) < u := by unfold u; positivity

theorem u_small : u ≤ 1 / 1000000000000000 := by unfold u; norm_num

theorem fl_zero (F : FloatModel) : F.fl 0 = 0 := by
  have := F.err 0
  simp only [abs_zero, zero_mul, sub_zero] at this
  exact abs_eq_zero.mp (le_antisymm this (abs_nonneg _))

/-- quotient of two rounded numbers, rounded: relative error at most `5u` -/
theorem slope_err (F : FloatModel) (D A : ℚ) :
    |F.fl (F.fl D / F.fl A) - D / A| ≤ |D / A| * (5 * u) := by
  have hu := u_pos
  have hus := u_small
  by_cases hA : A = 0
  · subst hA
    simp [fl_zero]
  · set s : ℚ := D / A with hs
    set D' : ℚ := F.fl D with hD'
    set A' : ℚ := F.fl A with hA'
    have hApos : 0 < |A| := abs_pos.mpr hA
    have eD := F.err D
    have eA := F.err A
    rw [← hD'] at eD
    rw [← hA'] at eA
    have hDs : D = s * A := by rw [hs]; field_simp
    have hDabs : |D| = |s| * |A| := by rw [hDs, abs_mul]
    -- |A'| ≥ |A| (1 - u)
    have hA'lb : |A| * (1 - u) ≤ |A'| := by
      have : |A| ≤ |A - A'| + |A'| := by
        have := abs_add_le (A - A') A'
        simpa using this
      rw [abs_sub_comm] at this
      linarith
    have hA'pos : 0 < |A'| := by
      have : 0 < |A| * (1 - u) := mul_pos hApos (by linarith)
      linarith
    have hA'ne : A' ≠ 0 := abs_pos.mp hA'pos
    -- |D' - s A'| ≤ 2 |s| |A| u
    have hnum : |D' - s * A'| ≤ 2 * |s| * |A| * u := by
      have e : D' - s * A' = (D' - D) - s * (A' - A) := by rw [hDs]; ring
      rw [e]
      have h1 := abs_sub (D' - D) (s * (A' - A))
      have h2 : |s * (A' - A)| ≤ |s| * (|A| * u) := by
        rw [abs_mul]; exact mul_le_mul_of_nonneg_left eA (abs_nonneg _)
      rw [hDabs] at eD
      nlinarith [abs_nonneg s, abs_nonneg A]
    -- |q' - s| |A'| = |D' - s A'|
    set q' : ℚ := D' / A' with hq'
    have hqA : (q' - s) * A' = D' - s * A' := by rw [hq']; field_simp
    have hprod : |q' - s| * |A'| ≤ 2 * |s| * |A| * u := by
      rw [← abs_mul, hqA]; exact hnum
    have hq1 : |q' - s| * (1 - u) ≤ 2 * |s| * u := by
      have h1 : |q' - s| * (|A| * (1 - u)) ≤ |q' - s| * |A'| :=
        mul_le_mul_of_nonneg_left hA'lb (abs_nonneg _)
      have h2 : (|q' - s| * (1 - u)) * |A| ≤ (2 * |s| * u) * |A| := by nlinarith
      exact le_of_mul_le_mul_right h2 hApos
    have hq2 : |q' - s| ≤ 3 * |s| * u := by
      by_contra hc
      have hc' := not_le.mp hc
      have : 3 * |s| * u * (1 - u) < |q' - s| * (1 - u) :=
        mul_lt_mul_of_pos_right hc' (by linarith)
      have hsn := abs_nonneg s
      nlinarith [mul_nonneg hsn (le_of_lt hu)]
    -- final rounding
    have eq := F.err q'
    have hqabs : |q'| ≤ |s| + 3 * |s| * u := by
      have := abs_add_le (q' - s) s
      simp only [sub_add_cancel] at this
      linarith
    have hsn := abs_nonneg s
    have h3 : |q'| * u ≤ 2 * |s| * u := by
      have : |q'| ≤ 2 * |s| := by nlinarith
      exact mul_le_mul_of_nonneg_right this (le_of_lt hu)
    have := abs_sub_le (F.fl q') q' s
    linarith

/-- the error analysis of `C15.close` with a slope `a` that is within `10u` of the exact `s` -/
theorem close_core (F : FloatModel) (s a : ℚ) (a1 d1 t : ℤ)
    (hs : |s| ≤ 2) (e0 : |a - s| ≤ 10 * u)
    (ht : |(t : ℚ)| ≤ day) (ha1 : |(a1 : ℚ)| ≤ day) (hd1 : |(d1 : ℚ)| ≤ day) :
    |((tr (F.fl (a * t)) + tr (F.fl ((d1 : ℚ) - F.fl (a * a1))) : ℤ) : ℚ)
        - ((d1 : ℚ) + ((t : ℚ) - a1) * s)| ≤ 3 := by
  have hu : (0 : ℚ) ≤ u := le_of_lt u_pos
  have hu1 := u_small
  have ha3 : |a| ≤ 3 := by
    have := abs_add_le (a - s) s
    simp only [sub_add_cancel] at this
    linarith
  have hat : |a * t| ≤ 3 * day := by
    rw [abs_mul]; exact mul_le_mul ha3 ht (abs_nonneg _) (by norm_num)
  have haa1 : |a * a1| ≤ 3 * day := by
    rw [abs_mul]; exact mul_le_mul ha3 ha1 (abs_nonneg _) (by norm_num)
  have hday : (0 : ℚ) ≤ day := by unfold day; norm_num
  set x1 : ℚ := F.fl (a * t) with hx1
  set x2 : ℚ := F.fl (a * a1) with hx2
  have e1 : |x1 - a * t| ≤ 3 * day * u := by
    have := F.err (a * t)
    have h : |a * t| * u ≤ 3 * day * u := mul_le_mul_of_nonneg_right hat hu
    linarith
  have e2 : |x2 - a * a1| ≤ 3 * day * u := by
    have := F.err (a * a1)
    have h : |a * a1| * u ≤ 3 * day * u := mul_le_mul_of_nonneg_right haa1 hu
    linarith
  have hx2b : |x2| ≤ 3 * day * (1 + u) := fl_abs_le F (a * a1) (3 * day) haa1
  have hdx : |(d1 : ℚ) - x2| ≤ 5 * day := by
    have := abs_sub (d1 : ℚ) x2
    have h5 : 3 * day * (1 + u) ≤ 4 * day := by nlinarith
    linarith
  set x3 : ℚ := F.fl ((d1 : ℚ) - x2) with hx3
  have e3 : |x3 - ((d1 : ℚ) - x2)| ≤ 5 * day * u := by
    have := F.err ((d1 : ℚ) - x2)
    have h : |(d1 : ℚ) - x2| * u ≤ 5 * day * u := mul_le_mul_of_nonneg_right hdx hu
    linarith
  have t1 := tr_err x1
  have t3 := tr_err x3
  have e4 : |(a - s) * ((t : ℚ) - a1)| ≤ 10 * u * (2 * day) := by
    rw [abs_mul]
    have : |(t : ℚ) - a1| ≤ 2 * day := by
      have := abs_sub (t : ℚ) (a1 : ℚ); linarith
    exact mul_le_mul e0 this (abs_nonneg _) (by positivity)
  have key : ((tr x1 + tr x3 : ℤ) : ℚ) - ((d1 : ℚ) + ((t : ℚ) - a1) * s)
      = ((tr x1 : ℚ) - x1) + ((tr x3 : ℚ) - x3) + (x1 - a * t) + (x3 - ((d1 : ℚ) - x2)) - (x2 - a * a1)
        + (a - s) * ((t : ℚ) - a1) := by
    push_cast
    ring
  rw [key]
  have du : day * u ≤ 1 / 100 := by unfold day u; norm_num
  have t1' := abs_lt.mp t1
  have t3' := abs_lt.mp t3
  have e1' := abs_le.mp e1
  have e2' := abs_le.mp e2
  have e3' := abs_le.mp e3
  have e4' := abs_le.mp e4
  have b1 : 3 * day * u ≤ 3 / 100 := by linarith
  have b3 : 5 * day * u ≤ 5 / 100 := by linarith
  have b4 : 10 * u * (2 * day) ≤ 20 / 100 := by linarith
  rw [abs_le]
  constructor <;> linarith [t1'.1, t1'.2, t3'.1, t3'.2, e1'.1, e1'.2, e2'.1, e2'.2, e3'.1, e3'.2, e4'.1, e4'.2]

end C15
end Astisub
