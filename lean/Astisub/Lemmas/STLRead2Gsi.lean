import Astisub.Lemmas.STLRead2Row

/-!
# Lemmas/STLRead2Gsi — the GSI block: every field the independent decoder reads is what the reader model reads

For every 1024-byte block: whenever one of the decoder's own field readers (`textField`, `numField`, `dateField`,
`tcText`, the DFC / DSC / CCT tests) accepts a field, the model's reader of the same bytes (`field` = Go's
`TrimSpace`, `atoiField`, `dateField`, `gsiTimecode`, `framerateOf`, …) succeeds with the same value.  Assembled in
`parseGSI_of_spec`.
-/

namespace Astisub
namespace C05
open Go STL

/-! ## slices and bytes -/

theorem sl_add (b : Bytes) (lo n m : Nat) :
    Spec.STL.sl b lo (n + m) = Spec.STL.sl b lo n ++ Spec.STL.sl b (lo + n) m := by
  unfold Spec.STL.sl
  rw [List.take_add, List.drop_drop]

theorem drop_cons_getD (p : Bytes) (i : Nat) (h : i < p.length) : p.drop i = p.getD i 0 :: p.drop (i + 1) := by
  rw [List.drop_eq_getElem_cons h]
  congr 1
  simp [List.getD_eq_getElem?_getD, h]

theorem sl_one (b : Bytes) (lo : Nat) (h : lo < b.length) : Spec.STL.sl b lo 1 = [b.getD lo 0] := by
  unfold Spec.STL.sl
  rw [drop_cons_getD b lo h]
  rfl

theorem sl_two (b : Bytes) (lo : Nat) (h : lo + 1 < b.length) : Spec.STL.sl b lo 2 = [b.getD lo 0, b.getD (lo + 1) 0] := by
  rw [show (2 : Nat) = 1 + 1 from rfl, sl_add, sl_one b lo (by omega), sl_one b (lo + 1) h]
  rfl

/-! ## `TrimSpace` on printable ASCII is "remove the blanks at both ends" -/

theorem printable_iff (f : Bytes) : Spec.STL.printable f = true ↔ ∀ c ∈ f, 0x20 ≤ c ∧ c ≤ 0x7E := by
  unfold Spec.STL.printable
  simp [List.all_eq_true]

theorem trimWith_printable (f : Bytes → Nat) (hs : ∀ r, f (0x20 :: r) = 1) (hg : ∀ b r, graphic b → f (b :: r) = 0) :
    ∀ (l : Bytes), (∀ c ∈ l, 0x20 ≤ c ∧ c ≤ 0x7E) → ∀ fuel, l.length ≤ fuel →
      trimWith f fuel l = l.dropWhile (· == 0x20)
  | [], _, fuel, _ => trimWith_nil f fuel
  | c :: r, hl, fuel, hf => by
    cases fuel with
    | zero => simp at hf
    | succ fuel =>
      by_cases hc : c = 0x20
      · subst hc
        have ih := trimWith_printable f hs hg r (fun c hc => hl c (by simp [hc])) fuel (by simpa using hf)
        simp only [trimWith, hs]
        simpa using ih
      · have hgc : graphic c := by
          have := hl c (by simp)
          unfold graphic; omega
        rw [trimWith_stop _ _ _ (hg c r hgc)]
        have : ((c == 0x20) = true) = False := by simp [hc]
        simp [hc]

theorem trimB_printable (f : Bytes) (h : ∀ c ∈ f, 0x20 ≤ c ∧ c ≤ 0x7E) : trimB f = Spec.STL.strip f := by
  have h1 : trimLeftB f = f.dropWhile (· == 0x20) :=
    trimWith_printable wsLen wsLen_space wsLen_graphic f h _ (Nat.le_refl _)
  have hsub : ∀ c ∈ (f.dropWhile (· == 0x20)).reverse, 0x20 ≤ c ∧ c ≤ 0x7E := by
    intro c hc
    exact h c ((List.dropWhile_sublist _).subset (List.mem_reverse.mp hc))
  unfold trimB trimRightB Spec.STL.strip
  rw [h1, trimWith_printable wsLenR wsLenR_space wsLenR_graphic _ hsub _ (by simp)]

/-- a text field of the GSI block: what the decoder returns is what the model's `field` returns -/
theorem textField_field (b : Bytes) (lo n : Nat) (t : Bytes) (h : Spec.STL.textField b lo n = some t) :
    field b lo (lo + n) = t := by
  unfold Spec.STL.textField at h
  simp only at h
  split at h
  · rename_i hc
    simp only [Bool.and_eq_true] at hc
    rw [← Option.some.inj h]
    unfold field
    rw [← sl_eq_slice]
    exact trimB_printable _ ((printable_iff _).mp hc.2)
  · cases h

/-! ## numbers -/

theorem digits_fold_none (l : Bytes) :
    l.foldl (fun acc c => match acc with
      | some v => if 0x30 ≤ c && c ≤ 0x39 then some (10 * v + (c - 0x30)) else none
      | none => none) (none : Option Nat) = none := by
  induction l with
  | nil => rfl
  | cons c cs ih => simpa using ih

theorem digits_fold_inv (l : Bytes) (acc v : Nat)
    (h : l.foldl (fun acc c => match acc with
      | some v => if 0x30 ≤ c && c ≤ 0x39 then some (10 * v + (c - 0x30)) else none
      | none => none) (some acc) = some v) : ∀ c ∈ l, digitByte c := by
  induction l generalizing acc with
  | nil => intro c hc; cases hc
  | cons c cs ih =>
    simp only [List.foldl_cons] at h
    by_cases hd : (decide (0x30 ≤ c) && decide (c ≤ 0x39)) = true
    · rw [if_pos hd] at h
      intro x hx
      rcases List.mem_cons.mp hx with rfl | hx
      · simp only [Bool.and_eq_true, decide_eq_true_eq] at hd; exact hd
      · exact ih _ h x hx
    · rw [if_neg hd, digits_fold_none] at h; cases h

/-- a numeric field the decoder accepts is made of `n > 0` digits -/
theorem numField_digits_inv (b : Bytes) (lo n v : Nat) (h : Spec.STL.numField b lo n = some v) :
    (Spec.STL.sl b lo n).length = n ∧ (∀ c ∈ Spec.STL.sl b lo n, digitByte c) ∧ Spec.STL.sl b lo n ≠ [] := by
  unfold Spec.STL.numField at h
  simp only at h
  split at h
  · rename_i hl
    have hl' : (Spec.STL.sl b lo n).length = n := by simpa using hl
    cases hf : Spec.STL.sl b lo n with
    | nil => rw [hf] at h; cases h
    | cons c cs =>
      rw [hf] at h hl'
      refine ⟨hl', ?_, by simp⟩
      unfold Spec.STL.digits at h
      exact digits_fold_inv _ 0 v h
  · cases h

/-- a two-digit field the decoder reads as `v` holds the two digits of `v` -/
theorem numField_two_inv (b : Bytes) (lo v : Nat) (h : Spec.STL.numField b lo 2 = some v) :
    Spec.STL.sl b lo 2 = two v ∧ v < 100 := by
  obtain ⟨hl, hd, _⟩ := numField_digits_inv b lo 2 v h
  unfold Spec.STL.numField at h
  simp only at h
  rw [if_pos (by simpa using hl)] at h
  generalize Spec.STL.sl b lo 2 = f at *
  match f, hl, hd, h with
  | [c1, c2], _, hd, h =>
    have d1 := hd c1 (by simp)
    have d2 := hd c2 (by simp)
    unfold digitByte at d1 d2
    have e1 : (decide (0x30 ≤ c1) && decide (c1 ≤ 0x39)) = true := by simp; omega
    have e2 : (decide (0x30 ≤ c2) && decide (c2 ≤ 0x39)) = true := by simp; omega
    unfold Spec.STL.digits at h
    simp only [List.foldl_cons, List.foldl_nil, e1, e2, if_true] at h
    have hv : v = 10 * (10 * 0 + (c1 - 0x30)) + (c2 - 0x30) := (Option.some.inj h).symm
    constructor
    · unfold two
      have a1 : 0x30 + v / 10 % 10 = c1 := by omega
      have a2 : 0x30 + v % 10 = c2 := by omega
      rw [a1, a2]
    · omega

theorem atoiField_two (b : Bytes) (lo hi v : Nat) (hhi : lo + 2 = hi) (h : Spec.STL.numField b lo 2 = some v) :
    atoiField (field b lo hi) = some (some (v : Int)) := by
  obtain ⟨hs, hv⟩ := numField_two_inv b lo v h
  unfold field
  rw [← hhi, ← sl_eq_slice, hs, ← num2_two ⟨v, hv⟩]
  exact num2_roundtrip v hv

theorem atoiField_num (b : Bytes) (lo hi n v : Nat) (hhi : lo + n = hi) (hn : n ≤ 18)
    (h : Spec.STL.numField b lo n = some v) : ∃ w : Nat, atoiField (field b lo hi) = some (some (w : Int)) := by
  obtain ⟨hl, hd, hne⟩ := numField_digits_inv b lo n v h
  unfold field
  rw [← hhi, ← sl_eq_slice]
  exact atoiField_digits _ hd hne (by omega)

theorem atoiByte_digit (c : Nat) (h : digitByte c) : ∃ w : Int, atoiByte c = some (some w) := by
  unfold digitByte at h
  refine ⟨((c - 0x30 : Nat) : Int), ?_⟩
  have : c = 0x30 ∨ c = 0x31 ∨ c = 0x32 ∨ c = 0x33 ∨ c = 0x34 ∨ c = 0x35 ∨ c = 0x36 ∨ c = 0x37 ∨ c = 0x38 ∨ c = 0x39 := by
    omega
  rcases this with rfl | rfl | rfl | rfl | rfl | rfl | rfl | rfl | rfl | rfl <;> decide

theorem atoiByte_one (b : Bytes) (lo v : Nat) (hlo : lo < b.length) (h : Spec.STL.numField b lo 1 = some v) :
    ∃ w : Int, atoiByte (b.getD lo 0) = some (some w) := by
  obtain ⟨_, hd, _⟩ := numField_digits_inv b lo 1 v h
  rw [sl_one b lo hlo] at hd
  exact atoiByte_digit _ (hd _ (by simp))

/-! ## dates -/

theorem date_of_spec (b : Bytes) (lo hi : Nat) (t : Nat × Nat × Nat) (hhi : lo + 6 = hi)
    (h : Spec.STL.dateField b lo = some t) :
    dateField (field b lo hi) = some { yy := t.1, mm := t.2.1, dd := t.2.2 } := by
  unfold Spec.STL.dateField at h
  split at h
  · rename_i y m d hy hm hd
    split at h
    · rename_i hc
      simp only [Bool.and_eq_true, decide_eq_true_eq] at hc
      obtain ⟨⟨⟨c1, c2⟩, c3⟩, c4⟩ := hc
      obtain ⟨sy, ly⟩ := numField_two_inv b lo y hy
      obtain ⟨sm, lm⟩ := numField_two_inv b (lo + 2) m hm
      obtain ⟨sd, ld⟩ := numField_two_inv b (lo + 4) d hd
      have ht : t = (y, m, d) := (Option.some.inj h).symm
      subst ht
      have hs : Spec.STL.sl b lo 6 = formatDate { yy := y, mm := m, dd := d } := by
        rw [show (6 : Nat) = 2 + (2 + 2) from rfl, sl_add, sl_add, sy, sm, show lo + 2 + 2 = lo + 4 from rfl, sd]
        simp [formatDate]
      have hok : dateOK { yy := y, mm := m, dd := d } = true := by
        have hmd := daysIn_monthDays ⟨y, ly⟩ ⟨m, by omega⟩
        simp only at hmd
        unfold dateOK
        simp only [Bool.and_eq_true, decide_eq_true_eq]
        rw [hmd]
        exact ⟨⟨⟨⟨ly, c1⟩, c2⟩, c3⟩, c4⟩
      unfold field
      rw [← hhi, ← sl_eq_slice, hs, trimB_digits _ (formatDate_digits _)]
      unfold dateField
      have : (formatDate { yy := y, mm := m, dd := d }).isEmpty = false := rfl
      rw [this]
      exact parseDate_format _ hok
    · cases h
  · cases h

/-! ## textual timecodes -/

theorem chars_two (v : Nat) (h : v < 100) : chars (two v) = dd v := by
  rw [← ascii_dd v h, chars_ascii]

theorem chars_append (a b : Bytes) : chars (a ++ b) = chars a ++ chars b := by unfold chars; simp

theorem tc_of_spec (b : Bytes) (lo hi fr : Nat) (T : Int) (hhi : lo + 8 = hi) (hfr : 0 < fr)
    (h : Spec.STL.tcText b lo fr = some T) : gsiTimecode (field b lo hi) (fr : Int) = some T := by
  unfold Spec.STL.tcText at h
  split at h
  · rename_i H M S F hH hM hS hF
    split at h
    · obtain ⟨sH, lH⟩ := numField_two_inv b lo H hH
      obtain ⟨sM, lM⟩ := numField_two_inv b (lo + 2) M hM
      obtain ⟨sS, lS⟩ := numField_two_inv b (lo + 4) S hS
      obtain ⟨sF, lF⟩ := numField_two_inv b (lo + 6) F hF
      have hs : Spec.STL.sl b lo 8 = two H ++ two M ++ two S ++ two F := by
        rw [show (8 : Nat) = 2 + (2 + (2 + 2)) from rfl, sl_add, sl_add, sl_add, sH, sM,
          show lo + 2 + 2 = lo + 4 from rfl, sS, show lo + 4 + 2 = lo + 6 from rfl, sF]
        simp
      have hdig : ∀ c ∈ two H ++ two M ++ two S ++ two F, digitByte c := by
        intro c hc
        simp only [List.mem_append] at hc
        rcases hc with ((hc | hc) | hc) | hc <;> exact two_digits _ c hc
      unfold field
      rw [← hhi, ← sl_eq_slice, hs, trimB_digits _ hdig]
      unfold gsiTimecode
      have he : (two H ++ two M ++ two S ++ two F).isEmpty = false := rfl
      have hl : (two H ++ two M ++ two S ++ two F).length = 8 := rfl
      rw [he, hl]
      simp only [Bool.false_eq_true, if_false, Nat.lt_irrefl]
      rw [chars_append, chars_append, chars_append, chars_two H lH, chars_two M lM, chars_two S lS, chars_two F lF,
        parseSTL_dd H M S F lH lM lS lF, ← Option.some.inj h, ← parse_instant H M S F fr hfr]
      rfl
    · cases h
  · cases h

/-! ## the fixed fields -/

theorem framerate_of_spec (b : Bytes) (fr : Nat)
    (h : (if (Spec.STL.sl b 3 8 == Spec.STL.lit "STL25.01") = true then some 25
      else if (Spec.STL.sl b 3 8 == Spec.STL.lit "STL30.01") = true then some 30 else none) = some fr) :
    framerateOf (slice b 3 11) = some fr ∧ (fr = 25 ∨ fr = 30) := by
  rw [show slice b 3 11 = Spec.STL.sl b 3 8 from (sl_eq_slice b 3 8).symm]
  split at h
  · rename_i e
    rw [eq_of_beq e, ← Option.some.inj h]
    exact ⟨by decide, Or.inl rfl⟩
  · split at h
    · rename_i e
      rw [eq_of_beq e, ← Option.some.inj h]
      exact ⟨by decide, Or.inr rfl⟩
    · cases h

theorem dsc_of_spec (b : Bytes) (dsc : Nat) (hlen : 11 < b.length)
    (h : (match b.getD 11 0 with | 0x30 => some 0 | 0x31 => some 1 | 0x32 => some 2 | _ => none) = some dsc) :
    field b 11 12 = [0x30 + dsc] ∧ dsc ≤ 2 := by
  have hs : slice b 11 12 = [b.getD 11 0] := by
    rw [show slice b 11 12 = Spec.STL.sl b 11 1 from (sl_eq_slice b 11 1).symm]
    exact sl_one b 11 hlen
  unfold field
  rw [hs]
  split at h
  · rename_i e; rw [e, ← Option.some.inj h]; exact ⟨by decide, by omega⟩
  · rename_i e; rw [e, ← Option.some.inj h]; exact ⟨by decide, by omega⟩
  · rename_i e; rw [e, ← Option.some.inj h]; exact ⟨by decide, by omega⟩
  · cases h

theorem cct_of_spec (b : Bytes) (hlen : 13 < b.length) (h : ¬ (Spec.STL.sl b 12 2 != Spec.STL.lit "00") = true) :
    b.getD 12 0 = 0x30 ∧ b.getD 13 0 = 0x30 := by
  have e : Spec.STL.sl b 12 2 = [0x30, 0x30] := by
    have : (Spec.STL.sl b 12 2 == Spec.STL.lit "00") = true := by
      cases hb : (Spec.STL.sl b 12 2 == Spec.STL.lit "00") with
      | true => rfl
      | false => exfalso; apply h; simp [bne, hb]
    exact eq_of_beq this
  rw [sl_two b 12 hlen] at e
  injection e with e1 e2
  injection e2 with e2 _
  exact ⟨e1, e2⟩

theorem lang_of_spec (b : Bytes) (h : Spec.STL.printable (Spec.STL.sl b 14 2) = true) :
    field b 14 16 = Spec.STL.strip (Spec.STL.sl b 14 2) := by
  unfold field
  rw [show slice b 14 16 = Spec.STL.sl b 14 2 from (sl_eq_slice b 14 2).symm]
  exact trimB_printable _ ((printable_iff _).mp h)

/-! ## `mapM` -/

theorem mapM_nil_inv {α β} (f : α → Option β) (r : List β) (h : Spec.STL.mapM f [] = some r) : r = [] := by
  simp only [Spec.STL.mapM] at h
  exact (Option.some.inj h).symm

theorem mapM_cons_inv {α β} (f : α → Option β) (a : α) (as : List α) (r : List β)
    (h : Spec.STL.mapM f (a :: as) = some r) : ∃ x xs, f a = some x ∧ Spec.STL.mapM f as = some xs ∧ r = x :: xs := by
  simp only [Spec.STL.mapM] at h
  split at h
  · rename_i x xs h1 h2
    exact ⟨x, xs, h1, h2, (Option.some.inj h).symm⟩
  · cases h

/-! ## the assembly -/

/-- the `GSI` the reader model builds from the values the independent decoder reads -/
def gsiOfSpec (fr dsc : Nat) (lang : Bytes) (texts : List Bytes) (cd rd : Nat × Nat × Nat) (rn mnc mnr : Nat) (tcp : Int) : GSI :=
  { cct := 12336, langCode := lang, tcpFull := tcp,
    m := { framerate := (fr : Int), language := (languageOf lang).getD [], country := texts.getD 7 [],
           creation := some { yy := cd.1, mm := cd.2.1, dd := cd.2.2 }, dsc := [0x30 + dsc],
           editorContact := texts.getD 10 [], editorName := texts.getD 9 [], maxChars := some (mnc : Int),
           maxRows := some (mnr : Int), origEpisode := texts.getD 1 [], publisher := texts.getD 8 [],
           revisionDate := some { yy := rd.1, mm := rd.2.1, dd := rd.2.2 }, revisionNumber := (rn : Int),
           slr := texts.getD 6 [], tcp := tcp, translEpisode := texts.getD 3 [], translProgram := texts.getD 2 [],
           translContact := texts.getD 5 [], translName := texts.getD 4 [], title := texts.getD 0 [] } }

/-- **GSI block.**  For every 1024-byte block on which the independent decoder's field readers succeed (the
    hypotheses are literally the tests `Spec.STL.decode` performs), `parseGSIBlock` succeeds and every value it keeps
    is the decoder's. -/
theorem parseGSI_of_spec (b : Bytes) (hlen : b.length = 1024) (fr dsc : Nat) (texts : List Bytes)
    (cd rd : Nat × Nat × Nat) (rn n1 n2 n3 mnc mnr : Nat) (tcp tcf : Int) (n4 n5 : Nat)
    (hfr : (if (Spec.STL.sl b 3 8 == Spec.STL.lit "STL25.01") = true then some 25
      else if (Spec.STL.sl b 3 8 == Spec.STL.lit "STL30.01") = true then some 30 else none) = some fr)
    (hdsc : (match b.getD 11 0 with | 0x30 => some 0 | 0x31 => some 1 | 0x32 => some 2 | _ => none) = some dsc)
    (hcct : ¬ (Spec.STL.sl b 12 2 != Spec.STL.lit "00") = true)
    (hlang : Spec.STL.printable (Spec.STL.sl b 14 2) = true)
    (htexts : Spec.STL.mapM (fun x : Nat × Nat => Spec.STL.textField b x.fst x.snd)
      [(16, 32), (48, 32), (80, 32), (112, 32), (144, 32), (176, 32), (208, 16), (274, 3), (277, 32), (309, 32),
        (341, 32)] = some texts)
    (hcd : Spec.STL.dateField b 224 = some cd) (hrd : Spec.STL.dateField b 230 = some rd)
    (hrn : Spec.STL.numField b 236 2 = some rn) (hn1 : Spec.STL.numField b 238 5 = some n1)
    (hn2 : Spec.STL.numField b 243 5 = some n2) (hn3 : Spec.STL.numField b 248 3 = some n3)
    (hmnc : Spec.STL.numField b 251 2 = some mnc) (hmnr : Spec.STL.numField b 253 2 = some mnr)
    (htcp : Spec.STL.tcText b 256 fr = some tcp) (htcf : Spec.STL.tcText b 264 fr = some tcf)
    (hn4 : Spec.STL.numField b 272 1 = some n4) (hn5 : Spec.STL.numField b 273 1 = some n5) :
    parseGSI b = some (gsiOfSpec fr dsc (Spec.STL.strip (Spec.STL.sl b 14 2)) texts cd rd rn mnc mnr tcp) := by
  obtain ⟨e_dfc, hfr25⟩ := framerate_of_spec b fr hfr
  have hfrpos : 0 < fr := by rcases hfr25 with rfl | rfl <;> omega
  obtain ⟨f_dsc, _⟩ := dsc_of_spec b dsc (by omega) hdsc
  obtain ⟨g12, g13⟩ := cct_of_spec b (by omega) hcct
  have f_lang := lang_of_spec b hlang
  obtain ⟨t1, r1, f1, hr1, e1⟩ := mapM_cons_inv _ _ _ _ htexts
  obtain ⟨t2, r2, f2, hr2, e2⟩ := mapM_cons_inv _ _ _ _ hr1
  obtain ⟨t3, r3, f3, hr3, e3⟩ := mapM_cons_inv _ _ _ _ hr2
  obtain ⟨t4, r4, f4, hr4, e4⟩ := mapM_cons_inv _ _ _ _ hr3
  obtain ⟨t5, r5, f5, hr5, e5⟩ := mapM_cons_inv _ _ _ _ hr4
  obtain ⟨t6, r6, f6, hr6, e6⟩ := mapM_cons_inv _ _ _ _ hr5
  obtain ⟨t7, r7, f7, hr7, e7⟩ := mapM_cons_inv _ _ _ _ hr6
  obtain ⟨t8, r8, f8, hr8, e8⟩ := mapM_cons_inv _ _ _ _ hr7
  obtain ⟨t9, r9, f9, hr9, e9⟩ := mapM_cons_inv _ _ _ _ hr8
  obtain ⟨t10, r10, f10, hr10, e10⟩ := mapM_cons_inv _ _ _ _ hr9
  obtain ⟨t11, r11, f11, hr11, e11⟩ := mapM_cons_inv _ _ _ _ hr10
  have hnil := mapM_nil_inv _ _ hr11
  subst hnil e11 e10 e9 e8 e7 e6 e5 e4 e3 e2 e1
  have f_title : field b 16 48 = t1 := textField_field b 16 32 t1 f1
  have f_orig : field b 48 80 = t2 := textField_field b 48 32 t2 f2
  have f_tp : field b 80 112 = t3 := textField_field b 80 32 t3 f3
  have f_te : field b 112 144 = t4 := textField_field b 112 32 t4 f4
  have f_tn : field b 144 176 = t5 := textField_field b 144 32 t5 f5
  have f_tc : field b 176 208 = t6 := textField_field b 176 32 t6 f6
  have f_slr : field b 208 224 = t7 := textField_field b 208 16 t7 f7
  have f_country : field b 274 277 = t8 := textField_field b 274 3 t8 f8
  have f_pub : field b 277 309 = t9 := textField_field b 277 32 t9 f9
  have f_en : field b 309 341 = t10 := textField_field b 309 32 t10 f10
  have f_ec : field b 341 373 = t11 := textField_field b 341 32 t11 f11
  have e_cd := date_of_spec b 224 230 cd rfl hcd
  have e_rd := date_of_spec b 230 236 rd rfl hrd
  have e_rn := atoiField_two b 236 238 rn rfl hrn
  obtain ⟨w1, e_n1⟩ := atoiField_num b 238 243 5 n1 rfl (by omega) hn1
  obtain ⟨w2, e_n2⟩ := atoiField_num b 243 248 5 n2 rfl (by omega) hn2
  obtain ⟨w3, e_n3⟩ := atoiField_num b 248 251 3 n3 rfl (by omega) hn3
  have e_mc := atoiField_two b 251 253 mnc rfl hmnc
  have e_mr := atoiField_two b 253 255 mnr rfl hmnr
  have e_tcp := tc_of_spec b 256 264 fr tcp rfl hfrpos htcp
  have e_tcf := tc_of_spec b 264 272 fr tcf rfl hfrpos htcf
  obtain ⟨w4, e_n4⟩ := atoiByte_one b 272 n4 (by omega) hn4
  obtain ⟨w5, e_n5⟩ := atoiByte_one b 273 n5 (by omega) hn5
  unfold parseGSI
  simp only [e_dfc, g12, g13, cct_ok, Bool.false_eq_true, if_false, e_cd, e_rd, e_rn, e_n1, e_n2, e_n3,
    e_mc, e_mr, e_tcp, e_tcf, e_n4, e_n5, f_dsc, f_lang, f_title, f_orig, f_tp, f_te, f_tn, f_tc,
    f_slr, f_country, f_pub, f_en, f_ec, Option.getD_some]
  rfl

end C05
end Astisub
