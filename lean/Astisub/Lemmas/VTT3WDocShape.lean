import Astisub.Lemmas.VTT3WDocBlocks

/-!
# Lemmas/VTT3WDocShape — every written line is trimmed and not blank; the header metadata
-/

namespace Astisub
namespace VTT3W
open Go Spec.VTT VTTRead

/-! ### trimmed, non-blank lines -/

theorem bline_itoaNat (n : Nat) : BLine (itoaNat n) := by
  refine ⟨trimSpace_id (VTT.digitStr_itoaNat n).noSpace, ?_⟩
  obtain ⟨k, tl, _, he⟩ := VTT.itoaAux_head (n + 1) n [] (by omega)
  intro e
  have he' : itoaNat n = digitChar k :: tl := he
  rw [he'] at e
  cases e

theorem wordOk_format (t : Int) (h0 : 0 ≤ t) (h1 : t < 360000000000000) : VTT.WordOk (Duration.formatVTT t) := by
  obtain ⟨k, r, _, hfmt⟩ := VTT.format_head t h0 h1
  refine ⟨by rw [hfmt]; simp, fun c hc => VTT.timeChar_noSpace ((VTT.format_facts t h0 h1).1 c hc)⟩

theorem bline_timingLine (s e : Int) (hs0 : 0 ≤ s) (hs1 : s < 360000000000000)
    (he0 : 0 ≤ e) (he1 : e < 360000000000000) (al ln po rg sz ve : Option Str)
    (hal : VTT.optOk al = true) (hln : VTT.optOk ln = true) (hpo : VTT.optOk po = true) (hrg : VTT.optOk rg = true)
    (hsz : VTT.optOk sz = true) (hve : VTT.optOk ve = true) :
    BLine (VTT.timingLine s e al ln po rg sz ve) := by
  obtain ⟨k, r, hk, hfmt⟩ := VTT.format_head s hs0 hs1
  have hw := VTT.allWords_ok al ln po rg sz ve hal hln hpo hrg hsz hve
  have hFe := wordOk_format e he0 he1
  rw [VTT.timingLine_eq, hfmt]
  refine ⟨?_, by simp⟩
  apply VTT.trimSpace_line _ _ _ _ _ (isSpace_digitChar hk) (by simp)
  intro w hw'
  rcases List.mem_cons.mp hw' with rfl | h
  · exact hFe
  · exact (hw w h).1

theorem bline_cueTiming (s : Subs) (it : CItem) (hok : VTT.cueOk2 s it = true) : BLine (VTT.cueTiming s it) := by
  simp only [VTT.cueOk2, Bool.and_eq_true, decide_eq_true_eq, List.all_eq_true] at hok
  obtain ⟨⟨⟨⟨⟨⟨⟨⟨⟨⟨⟨_, hr⟩, hs0⟩, hs1⟩, he0⟩, he1⟩, hal⟩, hln⟩, hpo⟩, hsz⟩, hve⟩, _⟩ := hok
  exact bline_timingLine _ _ hs0 hs1 he0 he1 _ _ _ _ _ _ hal hln hpo (VTT.optOk_of_ref hr) hsz hve

theorem lineFit_spec {l : Line} (h : VTT.lineFit l = true) :
    BLine (VTT.lineBody l) ∧ contains Spec.VTT.arrow (VTT.lineBody l) = false := by
  simp only [VTT.lineFit, Bool.and_eq_true, Bool.not_eq_true', bne_iff_ne, ne_eq, beq_iff_eq] at h
  obtain ⟨⟨⟨⟨⟨_, _⟩, hbody⟩, htrim⟩, harrow⟩, _⟩ := h
  exact ⟨⟨htrim, hbody⟩, harrow⟩

theorem lines_of_cueOk2 {s : Subs} {it : CItem} (hok : VTT.cueOk2 s it = true) : ∀ l ∈ it.lines, VTT.lineFit l = true := by
  simp only [VTT.cueOk2, Bool.and_eq_true, List.all_eq_true] at hok
  exact hok.2

theorem comments_of_cueOk2 {s : Subs} {it : CItem} (hok : VTT.cueOk2 s it = true) : VTT.commentsOk it.comments = true := by
  simp only [VTT.cueOk2, Bool.and_eq_true] at hok
  exact hok.1.1.1.1.1.1.1.1.1.1.1

theorem bline_cueCore (s : Subs) (k : Nat) (it : CItem) (hok : VTT.cueOk2 s it = true) :
    ∀ l ∈ VTT.cueCore s k it, BLine l := by
  intro l hl
  simp only [VTT.cueCore, List.cons_append, List.nil_append, List.mem_cons, List.mem_map] at hl
  rcases hl with rfl | rfl | ⟨x, hx, rfl⟩
  · exact bline_itoaNat _
  · exact bline_cueTiming s it hok
  · exact (lineFit_spec (lines_of_cueOk2 hok x hx)).1

theorem bline_noteBlock (cs : List Str) (hok : VTT.commentsOk cs = true) : ∀ b ∈ noteBlock cs, ∀ l ∈ b, BLine l := by
  cases cs with
  | nil => intro b hb; cases hb
  | cons c cs =>
    simp only [VTT.commentsOk, Bool.and_eq_true, List.all_eq_true] at hok
    intro b hb l hl
    simp only [noteBlock, List.mem_singleton] at hb
    subst hb
    obtain ⟨hc0, hct⟩ := firstComment_spec hok.1
    rcases List.mem_cons.mp hl with rfl | hl
    · exact ⟨VTT.trimSpace_prefix 'N' "OTE ".toList c (by decide) hct hc0, by simp⟩
    · obtain ⟨g0, g1, _⟩ := contComment_spec (hok.2 l hl)
      exact ⟨g1, g0⟩

theorem noteBlock_ne (cs : List Str) : ∀ b ∈ noteBlock cs, b ≠ [] := by
  cases cs with
  | nil => intro b hb; cases hb
  | cons c cs =>
    intro b hb
    simp only [noteBlock, List.mem_singleton] at hb
    subst hb
    simp

theorem cueBlocks_shape (s : Subs) (items : List CItem) (hok : ∀ it ∈ items, VTT.cueOk2 s it = true) :
    ∀ k, ∀ b ∈ cueBlocks s k items, b ≠ [] ∧ ∀ l ∈ b, BLine l := by
  induction items with
  | nil => intro k b hb; cases hb
  | cons it rest ih =>
    intro k b hb
    have hit := hok it (by simp)
    rw [cueBlocks] at hb
    rcases List.mem_append.mp hb with hb | hb
    · rcases List.mem_append.mp hb with hb | hb
      · exact ⟨noteBlock_ne _ b hb, bline_noteBlock _ (comments_of_cueOk2 hit) b hb⟩
      · simp only [List.mem_singleton] at hb
        subst hb
        exact ⟨by simp [VTT.cueCore], bline_cueCore s k it hit⟩
    · exact ih (fun x hx => hok x (by simp [hx])) (k + 1) b hb

theorem bline_regionLine (s : Subs) (d : Def) (hok : VTT.regionOk s d = true) : BLine (VTT.regionLine s d) := by
  simp only [VTT.regionOk, Bool.and_eq_true] at hok
  obtain ⟨⟨⟨⟨⟨hid, hli⟩, han⟩, hsc⟩, hvp⟩, hwi⟩ := hok
  have hws := VTT.regWords_ok d.id _ _ _ _ _ hid hli han hsc hvp hwi
  rw [VTT.regionLine_eq]
  generalize hW : VTT.regWords d.id (VTT.regSetting s d "WebVTTLines") (VTT.regSetting s d "WebVTTRegionAnchor")
    (VTT.regSetting s d "WebVTTScroll") (VTT.regSetting s d "WebVTTViewportAnchor") (VTT.regSetting s d "WebVTTWidth") = W at hws
  have hWne : W ≠ [] := by rw [← hW]; simp [VTT.regWords]
  have htrim : trimSpace ("Region:".toList ++ VTT.spaced W) = "Region:".toList ++ VTT.spaced W := by
    have := VTT.trimSpace_line 'R' "egion:".toList [] [] W (by decide) hWne hws
    simpa using this
  exact ⟨htrim, by simp⟩

theorem mem_sortDefs {l : List Def} {d : Def} (h : d ∈ VTT.sortDefs l) : d ∈ l :=
  (List.mergeSort_perm _ _).mem_iff.mp h

theorem sortDefs_ne {l : List Def} (h : l ≠ []) : VTT.sortDefs l ≠ [] := by
  intro e
  have hp : (VTT.sortDefs l).Perm l := List.mergeSort_perm _ _
  rw [e] at hp
  exact h (List.Perm.nil_eq hp).symm

theorem restBlocks_shape (s : Subs) (hok : VTT.DocOk s = true) :
    ∀ b ∈ restBlocks s, b ≠ [] ∧ ∀ l ∈ b, BLine l := by
  have F := VTT.docOk_facts hok
  intro b hb
  unfold restBlocks at hb
  rcases List.mem_append.mp hb with hb | hb
  · rcases List.mem_append.mp hb with hb | hb
    · unfold styleBlocks at hb
      split at hb
      · cases hb
      · simp only [List.mem_singleton] at hb
        subst hb
        refine ⟨by simp, ?_⟩
        intro l hl
        rcases List.mem_cons.mp hl with rfl | hl
        · exact ⟨by decide, by decide⟩
        · exact (styleLine_spec (F.sty l hl)).1
    · unfold regionBlocks at hb
      split at hb
      · cases hb
      · rename_i hne
        simp only [List.mem_singleton] at hb
        subst hb
        have hne' : s.regions ≠ [] := by intro e; rw [e] at hne; exact hne rfl
        refine ⟨by unfold regionLines; simpa using sortDefs_ne hne', ?_⟩
        intro l hl
        obtain ⟨d, hd, rfl⟩ := List.mem_map.mp hl
        exact bline_regionLine s d (F.regs d (mem_sortDefs hd))
  · exact cueBlocks_shape s s.items F.cues 0 b hb

/-! ### the timestamp map line -/

theorem noSpace_tsLine (F m : Str) (hF : ∀ c ∈ F, VTT.timeChar c = true) (hm : ∀ c ∈ m, VTT.signDig c = true) :
    ∀ c ∈ VTT.tsLine F m, isSpace c = false := by
  intro c hc
  rw [VTT.tsLine_eq] at hc
  rcases List.mem_append.mp hc with hc' | hc
  · exact (show ∀ c ∈ "X-TIMESTAMP-MAP".toList, isSpace c = false by decide) c hc'
  · rcases List.mem_cons.mp hc with rfl | hc
    · decide
    · by_cases hcomma : c = ','
      · subst hcomma; decide
      · exact (VTT.plainC_spec (VTT.tsLine_plain F m hF hm c hc hcomma)).1

theorem hasPrefix_tsLine' (F m : Str) : hasPrefix "X-TIMESTAMP-MAP".toList (VTT.tsLine F m) = true := by
  rw [VTT.tsLine_eq]; exact hasPrefix_append _ _

theorem metaLine_tsLine (F m : Str) (hF : ∀ c ∈ F, VTT.timeChar c = true) (hm : ∀ c ∈ m, VTT.signDig c = true) :
    metaLine (VTT.tsLine F m) = true ∧ trimSpace (VTT.tsLine F m) = VTT.tsLine F m := by
  have ht := trimSpace_id (noSpace_tsLine F m hF hm)
  refine ⟨?_, ht⟩
  unfold metaLine
  rw [ht, hasPrefix_tsLine']
  simp

/-- the header metadata the writer emits: nothing, or the map line for an instant in `[0, 100 h)` and an
    unsigned tick count below 2^62 -/
theorem tsmapLines_cases (s : Subs) (hok : VTT.tsmapOk s = true) (hx : tsmapW2 s = true) :
    VTT.tsmapLines s = [] ∨
    ∃ (lv : Int) (m : Str) (n : Nat), 0 ≤ lv ∧ lv < 360000000000000 ∧ natOf m = some n ∧ n < 2 ^ 62 ∧
      (∀ c ∈ m, VTT.signDig c = true) ∧ VTT.tsmapLines s = [VTT.tsLine (Duration.formatVTT lv) m] := by
  unfold VTT.tsmapOk at hok
  unfold tsmapW2 at hx
  unfold VTT.tsmapLines
  cases hkv : SRT.kvGet s.metadata "WebVTTTimestampMap" with
  | none => exact Or.inl rfl
  | some v =>
    rw [hkv] at hok hx
    simp only [] at hok hx ⊢
    generalize splitC ',' v = parts at hok hx ⊢
    match parts, hok, hx with
    | [], _, _ => exact Or.inl rfl
    | [_], _, _ => exact Or.inl rfl
    | _ :: _ :: _ :: _, _, _ => exact Or.inl rfl
    | [l, m], hok, hx =>
      right
      simp only [Bool.and_eq_true] at hok
      simp only [] at hx
      obtain ⟨hl, hm⟩ := hok
      have hmc := VTT.atoi_signDig hm
      cases hal : atoi l with
      | none => rw [hal] at hl; cases hl
      | some lv =>
        rw [hal] at hl
        simp only [Bool.and_eq_true, decide_eq_true_eq] at hl
        cases hn : natOf m with
        | none => rw [hn] at hx; cases hx
        | some n =>
          rw [hn] at hx
          simp only [decide_eq_true_eq] at hx
          refine ⟨lv, m, n, hl.1, hl.2, hn, hx, hmc, ?_⟩
          simp only [hal, Option.getD_some]
          rfl

end VTT3W
end Astisub
