import Astisub.Lemmas.Conv2Bytes
import Astisub.Lemmas.ConvSRT
import Astisub.Lemmas.SSA2Total

/-!
# Lemmas/Conv2SSA — conversion to SSA / ASS (C07, destinations `ssa` and `ass`)

* `PlainSSA` : the plain cue lists for the SSA writer (decidable, `Bool`), with examples;
* `lineFlat_plain`, `event_text` : the `Text` cell the writer builds for a plain cue is its lines joined by `\n`;
* `repRead_of_plain` : a plain cue list in range is representable in the sense of `C04doc2.write_read`;
* `view_norm` : the normal form the reader answers shows the source's cues at centisecond resolution;
* `readBytes_written` : the driver's byte-level reader on the written bytes answers the normal form.
-/

namespace Astisub
namespace Conv2SSA
open Go SSA List Driver ConvView Spec.Conv Conv2

/-! ## plain cue lists -/

/-- the override block (`SSAEffect`) of a run; empty when unset -/
def runEff (li : LItem) : Str := (SSA.kvGet li.attrs "SSAEffect").getD []

/-- a plain line: no run carries an SSA override block (`SSAEffect` absent or empty); the line's text
    (runs concatenated, however it is cut into runs) is made of the simple characters of `simpleText`
    (so no `{`, `}`, `\`), is not empty and has no blank at either end.  The voice and all other run
    attributes are free. -/
def plainLine (l : Line) : Bool :=
  l.items.all (fun li => runEff li == []) && simpleText l.str && ConvSRT.edgesOk l.str

/-- the cells of the Dialogue row other than the instants and the text survive being cells: the margins
    and the layer the writer reads from the cue's own `SSA…` attributes fit 64 bits; the style name, the
    voice (column `Name`) and the cue's `SSAEffect` contain neither a comma nor a line feed -/
def CueCells (it : CItem) : Prop :=
  let e := eventOfItem it
  Int64 (e.layer.getD 0) ∧ Int64 (e.marginL.getD 0) ∧ Int64 (e.marginR.getD 0) ∧ Int64 (e.marginV.getD 0) ∧
  ',' ∉ e.style ∧ ',' ∉ e.name ∧ ',' ∉ e.effect ∧ '\n' ∉ e.style ∧ '\n' ∉ e.name ∧ '\n' ∉ e.effect

instance (it : CItem) : Decidable (CueCells it) := by unfold CueCells; exact inferInstance

/-- a plain cue: at least one line (a cue without text is read back with one empty line), every line
    plain, good cells -/
def plainCue (it : CItem) : Bool := !it.lines.isEmpty && it.lines.all plainLine && decide (CueCells it)

/-- the SSA-specific tables of the cue list are writable and readable (`Props/C04doc2.lean`): the
    script info read from the metadata (`Title`, `Comments`, `SSA…`) is good, every style's `SSA…`
    attributes are good cells, style names need no trimming, style identifiers are distinct.  Stated on
    the style list as given (the writer sorts it). -/
def tablesOK (s : Subs) : Bool :=
  decide (InfoOK (infoOfMeta s.metadata)) &&
  decide (∀ st ∈ s.styles.map styleOfDef, StyleOK st ∧ StyleTrimmed st ∧ StyleNL st) &&
  decide ((s.styles.map (·.id)).Nodup)

/-- the written document passes the line scanner unharmed: no carriage return anywhere (the scanner
    takes it for a line end) and no line of 64 KiB or more (`bufio.ErrTooLong`) -/
def docFit (s : Subs) : Bool :=
  match SSA.write s with
  | .ok out => out.all (· != '\r') && (splitC '\n' out).all fun l => decide (byteLen l < 65536)
  | _ => false

/-- **Plain cue lists for SSA / ASS.** at least one cue, every cue plain, writable tables, a document
    that passes the scanner.  Free: every attribute of another format on runs, cues, styles, regions
    and in the metadata; inline style references; start offsets; comments; regions; indexes; how a line
    is cut into runs; the cue's own SSA margins / layer / effect / marked flag / style reference; voices. -/
def PlainSSA (s : Subs) : Bool := !s.items.isEmpty && s.items.all plainCue && tablesOK s && docFit s

/-! ## the text cell -/

theorem lineFlat_plain (l : Line) (h : ∀ li ∈ l.items, runEff li = []) :
    (l.items.map fun li => (SSA.kvGet li.attrs "SSAEffect").getD [] ++ li.text).flatten = l.str := by
  unfold Line.str
  congr 1
  apply map_congr_left
  intro li hli
  have := h li hli
  unfold runEff at this
  rw [this, nil_append]

theorem plainLine_runs {l : Line} (h : plainLine l = true) : ∀ li ∈ l.items, runEff li = [] := by
  simp only [plainLine, Bool.and_eq_true, all_eq_true, beq_iff_eq] at h
  exact h.1.1

theorem plainLine_simple {l : Line} (h : plainLine l = true) : ∀ c ∈ l.str, simpleChar c = true := by
  simp only [plainLine, Bool.and_eq_true, simpleText_eq, all_eq_true] at h
  exact h.1.2

theorem plainLine_trimmed {l : Line} (h : plainLine l = true) : Trimmed l.str := by
  have hs := plainLine_simple h
  simp only [plainLine, Bool.and_eq_true, ConvSRT.edgesOk] at h
  obtain ⟨_, h0, h1⟩ := h
  constructor
  · intro c hc
    rw [hc] at h0
    exact simpleChar_space (hs c (ConvSRT.mem_head? hc)) (by simpa using h0)
  · intro c hc
    rw [hc] at h1
    exact simpleChar_space (hs c (ConvSRT.mem_getLast? hc)) (by simpa using h1)

theorem noPair_of_not_mem (a b : Char) : ∀ (L : Str), a ∉ L → noPair a b L = true := by
  intro L
  induction L with
  | nil => intro _; rfl
  | cons c cs ih =>
    intro h
    simp only [mem_cons, not_or] at h
    have : c ≠ a := fun e => h.1 e.symm
    simp [noPair, this, ih h.2]

theorem simple_not_mem {t : Str} (h : ∀ c ∈ t, simpleChar c = true) (d : Char) (hd : simpleChar d = false) : d ∉ t :=
  fun hm => simpleChar_ne (h d hm) hd rfl

theorem lineOK_of_plain {l : Line} (h : plainLine l = true) : LineOK l.str :=
  ⟨noPair_of_not_mem _ _ _ (simple_not_mem (plainLine_simple h) '\\' (by decide)),
   noPair_of_not_mem _ _ _ (simple_not_mem (plainLine_simple h) '\\' (by decide)),
   plainLine_trimmed h⟩

theorem noBrace_of_plain {l : Line} (h : plainLine l = true) : NoBrace l.str :=
  ⟨simple_not_mem (plainLine_simple h) '{' (by decide), simple_not_mem (plainLine_simple h) '}' (by decide)⟩

/-- the `Text` cell of a cue with plain lines: the lines joined by `\n` -/
theorem event_text (it : CItem) (h : ∀ l ∈ it.lines, plainLine l = true) :
    (eventOfItem it).text = join "\\n".toList (it.lines.map Line.str) := by
  unfold eventOfItem
  simp only
  congr 1
  apply map_congr_left
  intro l hl
  exact lineFlat_plain l (plainLine_runs (h l hl))

theorem nl_not_mem_text (it : CItem) (h : ∀ l ∈ it.lines, plainLine l = true) : '\n' ∉ (eventOfItem it).text := by
  rw [event_text it h]
  apply nl_not_mem_join (by decide)
  intro L hL
  obtain ⟨l, hl, rfl⟩ := mem_map.mp hL
  exact simple_not_mem (plainLine_simple (h l hl)) '\n' (by decide)

theorem trimmed_text (it : CItem) (h : ∀ l ∈ it.lines, plainLine l = true) : Trimmed (eventOfItem it).text := by
  rw [event_text it h, sepn]
  apply trimmed_join
  intro L hL
  obtain ⟨l, hl, rfl⟩ := mem_map.mp hL
  exact plainLine_trimmed (h l hl)

/-! ## representability -/

theorem plain_parts {s : Subs} (hp : PlainSSA s = true) :
    s.items ≠ [] ∧ (∀ it ∈ s.items, it.lines ≠ [] ∧ (∀ l ∈ it.lines, plainLine l = true) ∧ CueCells it) ∧
    InfoOK (infoOfMeta s.metadata) ∧ (∀ st ∈ s.styles.map styleOfDef, StyleOK st ∧ StyleTrimmed st ∧ StyleNL st) ∧
    (s.styles.map (·.id)).Nodup ∧ docFit s = true := by
  simp only [PlainSSA, tablesOK, Bool.and_eq_true, Bool.not_eq_true', all_eq_true, decide_eq_true_eq] at hp
  obtain ⟨⟨⟨hne, hcues⟩, ⟨hinfo, hst⟩, hnd⟩, hfit⟩ := hp
  refine ⟨by simpa using hne, ?_, hinfo, hst, hnd, hfit⟩
  intro it hit
  have := hcues it hit
  simp only [plainCue, Bool.and_eq_true, Bool.not_eq_true', all_eq_true, decide_eq_true_eq] at this
  exact ⟨by simpa using this.1.1, this.1.2, this.2⟩

theorem mem_writerStyles {s : Subs} {st : Style} (h : st ∈ writerStyles s) : st ∈ s.styles.map styleOfDef := by
  unfold writerStyles at h
  obtain ⟨d, hd, rfl⟩ := mem_map.mp h
  exact mem_map_of_mem ((mergeSort_perm _ _).mem_iff.mp hd)

theorem styleIds_nodup {s : Subs} (h : (s.styles.map (·.id)).Nodup) : (styleIds s).Nodup := by
  unfold styleIds writerStyles
  rw [map_map]
  have e : ((fun x : Style => x.name) ∘ styleOfDef) = fun d : Def => d.id := rfl
  rw [e]
  exact ((mergeSort_perm _ _).map _).nodup_iff.mpr h

/-- **Plain cue lists are representable**: the document-level round trip of `Props/C04doc2.lean` applies -/
theorem repRead_of_plain (s : Subs) (hr : inRange "ssa" s = true) (hp : PlainSSA s = true) : RepRead s := by
  obtain ⟨_, hcues, hinfo, hst, hnd, _⟩ := plain_parts hp
  have hrg := inRange_items (dst := "ssa") (by decide) hr
  refine ⟨hinfo, fun st h => hst st (mem_writerStyles h), ?_, styleIds_nodup hnd⟩
  intro e he
  obtain ⟨it, hit, rfl⟩ := mem_map.mp he
  obtain ⟨_, hl, hc⟩ := hcues it hit
  obtain ⟨r1, r2, r3, r4⟩ := hrg it hit
  obtain ⟨c1, c2, c3, c4, c5, c6, c7, c8, c9, c10⟩ := hc
  exact ⟨⟨⟨r1, r2⟩, ⟨r3, r4⟩, c1, c2, c3, c4, c5, c6, c7⟩, trimmed_text it hl, c8, c9, c10, nl_not_mem_text it hl⟩

/-! ## the view of the normal form -/

theorem lineTexts_eventItem (ids : List Str) (e : Event) :
    lineTexts (eventItem ids e) = (textLines e.text).map fun t => ((lineRuns t).map (·.text)).flatten := by
  simp only [lineTexts, eventItem, map_map]
  rfl

theorem lineRuns_text_plain (t : Str) (h : NoBrace t) : ((lineRuns t).map (·.text)).flatten = t := by
  rw [lineRuns_plain t h]
  simp [mkRun]

/-- what the reader rebuilds from the normalised event of a plain cue: the same line texts -/
theorem lineTexts_norm (ids : List Str) (v : Bool) (it : CItem) (hne : it.lines ≠ [])
    (h : ∀ l ∈ it.lines, plainLine l = true) :
    lineTexts (eventItem ids ((eventOfItem it).norm "Dialogue".toList v)) = lineTexts it := by
  rw [lineTexts_eventItem]
  have ht : ((eventOfItem it).norm "Dialogue".toList v).text = join "\\n".toList (it.lines.map Line.str) := by
    show trimSpace (eventOfItem it).text = _
    rw [trimSpace_of_trimmed (trimmed_text it h), event_text it h]
  rw [ht, textLines_join _ (by simpa using hne) (by
    intro L hL
    obtain ⟨l, hl, rfl⟩ := mem_map.mp hL
    exact lineOK_of_plain (h l hl)), map_map]
  unfold lineTexts
  apply map_congr_left
  intro l hl
  exact lineRuns_text_plain _ (noBrace_of_plain (h l hl))

theorem cueView_norm (ids : List Str) (v : Bool) (it : CItem) (hne : it.lines ≠ [])
    (h : ∀ l ∈ it.lines, plainLine l = true) :
    cueView (eventItem ids ((eventOfItem it).norm "Dialogue".toList v)) = truncCue 10000000 (cueView it) := by
  have hc := cueView_congr (eventItem ids ((eventOfItem it).norm "Dialogue".toList v))
    { it with startAt := truncTo 10000000 it.startAt, endAt := truncTo 10000000 it.endAt } rfl rfl
    (by rw [lineTexts_norm ids v it hne h]; rfl)
  rw [hc]
  rfl

/-- **View of what SSA gives back.** same cues in the same order, instants truncated to the
    centisecond, same text lines -/
theorem view_norm (s : Subs) (hp : PlainSSA s = true) : viewOf (SSA.norm s) = truncView 10000000 (viewOf s) := by
  obtain ⟨_, hcues, _⟩ := plain_parts hp
  simp only [viewOf_eq, SSA.norm, truncView, map_map]
  apply map_congr_left
  intro it hit
  obtain ⟨hne, hl, _⟩ := hcues it hit
  exact cueView_norm _ _ it hne hl

theorem unit_ssa : unitOfDst "ssa" = 10000000 := by decide
theorem unit_ass : unitOfDst "ass" = 10000000 := by decide

/-! ## the byte-level pipeline -/

theorem natAbs_trunc_lt (t : Int) (h0 : 0 ≤ t) (h1 : t < 360000000000000) :
    (t - t % 10000000).natAbs < 2 ^ 62 := by
  have e : (2 : Nat) ^ 62 = 4611686018427387904 := by decide
  rw [e]
  omega

theorem norm_item_times (ids : List Str) (v : Bool) (it : CItem) :
    (eventItem ids ((eventOfItem it).norm "Dialogue".toList v)).startAt = it.startAt - it.startAt % 10000000 ∧
    (eventItem ids ((eventOfItem it).norm "Dialogue".toList v)).endAt = it.endAt - it.endAt % 10000000 := ⟨rfl, rfl⟩

theorem inRange_norm (s : Subs) (hr : inRange "ssa" s = true) : SSAD.inRange (SSA.norm s) = true := by
  have hrg := inRange_items (dst := "ssa") (by decide) hr
  simp only [SSAD.inRange, SSA.norm, all_map, all_eq_true, Function.comp_apply, Bool.and_eq_true, decide_eq_true_eq]
  intro it hit
  obtain ⟨r1, r2, r3, r4⟩ := hrg it hit
  rw [(norm_item_times _ _ it).1, (norm_item_times _ _ it).2]
  exact ⟨natAbs_trunc_lt _ r1 r2, natAbs_trunc_lt _ r3 r4⟩

/-- **Write, encode, scan, decode, read.** the driver's byte-level reader model on the UTF-8 bytes of
    the text the writer model answers for a plain cue list in range answers the normal form -/
theorem readBytes_written (s : Subs) (out : Str) (hr : inRange "ssa" s = true) (hp : PlainSSA s = true)
    (hw : SSA.write s = .ok out) : SSAD.readBytes (utf8 out) = some (.ok (SSA.norm s)) := by
  have hrep := repRead_of_plain s hr hp
  obtain ⟨ls, hout, hnl, hsplit⟩ := written_lines s out hrep hw
  have hfit := (plain_parts hp).2.2.2.2.2
  simp only [docFit, hw, Bool.and_eq_true, all_eq_true, bne_iff_ne, ne_eq, decide_eq_true_eq] at hfit
  obtain ⟨hcr, hlen⟩ := hfit
  have hread := SSA.write_read s out hrep hw
  rw [hsplit, read_blank_end] at hread
  rw [hsplit] at hlen
  have hcr' : ∀ l ∈ ls, '\r' ∉ l := by
    intro l hl hm
    apply hcr '\r' _ rfl
    rw [hout]
    unfold SSA.unlines
    exact mem_flatten.mpr ⟨l ++ ['\n'], mem_map_of_mem hl, mem_append_left _ hm⟩
  rw [hout, readBytes_unlines ls (fun l hl => ⟨hnl l hl, hcr' l hl⟩) (fun l hl => hlen l (mem_append_left _ hl)), hread]
  simp only [inRange_norm s hr, if_true]

/-- the writer answers on every plain cue list in range -/
theorem write_plain (s : Subs) (hr : inRange "ssa" s = true) (hp : PlainSSA s = true) : ∃ out, SSA.write s = .ok out :=
  write_ok_of_rep s (repRead_of_plain s hr hp) (plain_parts hp).1

/-! ## non-vacuity -/

/-- two cues with foreign attributes everywhere (and the SSA writer's own: a margin, a style reference,
    a voice, an empty `SSAEffect`), several runs per line, a sub-centisecond instant, a comment, a region,
    two styles out of order with SSA and foreign attributes, metadata with a title and a foreign key -/
def exampleForeign : Subs :=
  { items := [
      { startAt := 1234567890, endAt := 3000000000, index := 7, region := some "r".toList, style := some "Top".toList,
        attrs := some [("SSAMarginLeft".toList, "12".toList), ("STLJustificationCode".toList, "2".toList),
                       ("WebVTTAlign".toList, "start".toList)],
        comments := ["seen".toList],
        lines := [ { voice := "Bob".toList,
                     items := [ { text := "Hello, ".toList, attrs := some [("TTMLColor".toList, "#ff0000".toList)] },
                                { text := "".toList, startAt := 5 },
                                { text := "world  42!".toList, style := some "s".toList,
                                  attrs := some [("SRTBold".toList, "true".toList), ("TeletextDoubleHeight".toList, "true".toList),
                                                 ("WebVTTTags".toList, "b|i".toList)] } ] },
                   { items := [ { text := "Is it?".toList, attrs := some [("SSAEffect".toList, [])] } ] } ] },
      { startAt := 359999999999999, endAt := 0, lines := [ { items := [ { text := "x".toList } ] } ] } ],
    regions := [{ id := "r".toList }],
    styles := [{ id := "Top".toList, attrs := some [("SSABold".toList, "true".toList), ("TTMLColor".toList, "red".toList)] },
               { id := "Base".toList, attrs := some [("SSAFontName".toList, "Arial Black".toList)] }],
    metadata := some [("Framerate".toList, "25".toList), ("Title".toList, "t".toList)] }

theorem exampleForeign_styles : writerStyles exampleForeign =
    [styleOfDef (exampleForeign.styles.getD 1 default), styleOfDef (exampleForeign.styles.getD 0 default)] := by
  simp [writerStyles, exampleForeign, mergeSort, strLt]

theorem exampleForeign_fit : docFit exampleForeign = true := by
  unfold docFit
  rw [write_eq]
  unfold writeCore
  rw [exampleForeign_styles]
  decide +kernel

theorem exampleForeign_plain : PlainSSA exampleForeign = true := by
  simp only [PlainSSA, exampleForeign_fit, Bool.and_true]
  decide

example : inRange "ssa" exampleForeign = true := by decide
-- the predicate excludes something
example : plainLine { items := [{ text := " x".toList }] } = false := by decide
example : plainLine { items := [{ text := "a{b".toList }] } = false := by decide
example : plainLine { items := [{ text := "a\\Nb".toList }] } = false := by decide
example : plainLine { items := [{ text := "x".toList, attrs := some [("SSAEffect".toList, "{\\i1}".toList)] }] } = false := by decide
example : plainCue { startAt := 0, endAt := 1, lines := [] } = false := by decide
example : plainCue { startAt := 0, endAt := 1, style := some "a,b".toList, lines := [{ items := [{ text := "x".toList }] }] } = false := by
  decide

end Conv2SSA
end Astisub
