import Astisub.Lemmas.STL2View

/-!
# Lemmas/STLRWRow — a row after one read, as runs of repertoire units again

`Lemmas/STL2Row.lean` describes what reading does to the runs of a row on the level of texts (`mergePlain`: adjacent
unstyled runs are joined, the texts separated by one blank).  Here the same is done on the level of repertoire
units: `backRow l` is the row the reader returns, as a list of `RRun`s — a joined run has the units of its parts
with the blank unit `spaceU` in between.  Three facts make the second write reproduce the first one:

* `backRow_wv` — in the view (text, italics, underline, boxing) `backRow l` is `mergePlain` of the row written;
* `backRow_bytes` — the bytes of `backRow l` in the text field are the bytes of `l` (joining changes nothing: the
  writer separates runs by the very blank the joined run contains);
* `backRow_okT`, `backRow_ne_nil` — its runs are carried as they are again (`RRun.okT`) and there is at least one.
-/

namespace Astisub
namespace C05
open Go STL

/-! ## joining adjacent unstyled runs, on units -/

/-- `body`: the units of the unstyled runs collected so far (empty = none) -/
def mrAux (body : List Unit) : List RRun → List RRun
  | [] => if body.isEmpty then [] else [{ units := body }]
  | x :: rest =>
    if x.flags = plain3 then mrAux (if body.isEmpty then x.units else body ++ spaceU :: x.units) rest
    else (if body.isEmpty then [] else [{ units := body }]) ++ x :: mrAux [] rest

/-- **the row after one read**: every stretch of adjacent unstyled runs is one run (units joined by the blank
    unit), styled runs are kept -/
def backRow (l : List RRun) : List RRun := mrAux [] l

theorem isEmpty_false_of_ne {α} {l : List α} (h : l ≠ []) : l.isEmpty = false := by
  cases l with
  | nil => exact absurd rfl h
  | cons _ _ => rfl

theorem str_nil_iff (t : List Nat) : str t = [] ↔ t = [] := by
  unfold str; simp

theorem str_space : str spaceU.text = [' '] := rfl

theorem units_ne_nil (r : RRun) (h : str r.text ≠ []) : r.units ≠ [] := by
  intro e
  apply h
  unfold RRun.text
  rw [e]; rfl

theorem str_join (body us : List Unit) :
    str ((body ++ spaceU :: us).flatMap (·.text)) = str (body.flatMap (·.text)) ++ [' '] ++ str (us.flatMap (·.text)) := by
  rw [List.flatMap_append, List.flatMap_cons, str_append, str_append, str_space]
  simp

theorem plainRun_wv (body : List Unit) : wv { units := body } = (str (body.flatMap (·.text)), plain3) := rfl

/-! ## the view (text, flags) -/

theorem mrAux_wv (l : List RRun) (hne : ∀ r ∈ l, str r.text ≠ []) (body : List Unit)
    (hb : body = [] ∨ str (body.flatMap (·.text)) ≠ []) :
    (mrAux body l).map wv = mpAux (str (body.flatMap (·.text))) (l.map wv) := by
  induction l generalizing body with
  | nil =>
    rcases hb with rfl | hb
    · rfl
    · have hbn : body ≠ [] := by intro e; subst e; exact hb rfl
      simp only [mrAux, isEmpty_false_of_ne hbn, Bool.false_eq_true, if_false, List.map_cons, List.map_nil, mpAux, hb,
        plainRun_wv]
  | cons x rest ih =>
    have hx := hne x (by simp)
    have hrest : ∀ r ∈ rest, str r.text ≠ [] := fun r hr => hne r (by simp [hr])
    rw [List.map_cons, mrAux, mpAux]
    have hw2 : (wv x).2 = x.flags := rfl
    have hw1 : (wv x).1 = str (x.units.flatMap (·.text)) := rfl
    by_cases hp : x.flags = plain3
    · have hp' : (wv x).2 = plain3 := hp
      simp only [if_pos hp, if_pos hp']
      rcases hb with rfl | hb
      · simp only [List.isEmpty_nil, if_true, List.flatMap_nil]
        have e0 : str ([] : List Nat) = [] := rfl
        rw [e0, if_pos rfl, hw1]
        exact ih hrest x.units (Or.inr hx)
      · have hbn : body ≠ [] := by intro e; subst e; exact hb rfl
        simp only [isEmpty_false_of_ne hbn, Bool.false_eq_true, if_false]
        rw [if_neg hb, hw1]
        have e1 : str ((body ++ spaceU :: x.units).flatMap (·.text))
            = str (body.flatMap (·.text)) ++ ' ' :: str (x.units.flatMap (·.text)) := by
          rw [List.flatMap_append, List.flatMap_cons, str_append, str_append, str_space]; rfl
        rw [← e1]
        apply ih hrest
        right
        rw [e1]; simp
    · have hp' : ¬ (wv x).2 = plain3 := hp
      simp only [if_neg hp, if_neg hp']
      have ih0 := ih hrest [] (Or.inl rfl)
      have e0 : str (([] : List Unit).flatMap (·.text)) = [] := rfl
      rw [e0] at ih0
      rcases hb with rfl | hb
      · simp only [List.isEmpty_nil, if_true, List.nil_append, List.map_cons, List.flatMap_nil]
        have e00 : str ([] : List Nat) = [] := rfl
        rw [e00, if_pos rfl, List.nil_append, ih0]
      · have hbn : body ≠ [] := by intro e; subst e; exact hb rfl
        simp only [isEmpty_false_of_ne hbn, Bool.false_eq_true, if_false, List.map_append, List.map_cons, List.map_nil]
        rw [if_neg hb, ih0, plainRun_wv]

/-- in the view (text, italics, underline, boxing), `backRow l` is the row written with adjacent unstyled runs joined -/
theorem backRow_wv (l : List RRun) (hne : ∀ r ∈ l, str r.text ≠ []) : (backRow l).map wv = mergePlain (l.map wv) := by
  unfold backRow mergePlain
  exact mrAux_wv l hne [] (Or.inl rfl)

theorem backRow_ne_nil (l : List RRun) (hl : l ≠ []) (hne : ∀ r ∈ l, str r.text ≠ []) : backRow l ≠ [] := by
  intro e
  have h := backRow_wv l hne
  rw [e] at h
  have : mergePlain (l.map wv) ≠ [] := by
    apply mpAux_ne_nil
    · intro x hx
      obtain ⟨r, hr, rfl⟩ := List.mem_map.mp hx
      exact hne r hr
    · left; simpa using hl
  exact this h.symm

/-! ## the bytes in the text field -/

/-- every run preceded by the blank the writer puts between runs -/
def sepB (l : List RRun) : Bytes := l.flatMap fun r => 0x20 :: r.bytes

theorem lineBytes_tail (l : List RRun) : lineBytes l = (sepB l).tail := by
  cases l with
  | nil => rfl
  | cons r rs =>
    unfold lineBytes sepB
    rw [List.map_cons, joinN_cons, List.flatMap_cons, List.flatMap_map]
    rfl

theorem plainRun_bytes (body : List Unit) : RRun.bytes { units := body } = body.flatMap (·.bytes) := by
  unfold RRun.bytes RRun.preCodes RRun.postCodes
  simp

theorem plain_bytes (r : RRun) (h : r.flags = plain3) : r.bytes = r.units.flatMap (·.bytes) := by
  obtain ⟨e1, e2⟩ := plain_codes r h
  unfold RRun.bytes
  rw [e1, e2]; simp

theorem spaceU_bytes : spaceU.bytes = [0x20] := rfl

theorem mrAux_sepB (l : List RRun) (hne : ∀ r ∈ l, r.units ≠ []) (body : List Unit) :
    sepB (mrAux body l) = (if body.isEmpty then [] else 0x20 :: body.flatMap (·.bytes)) ++ sepB l := by
  induction l generalizing body with
  | nil =>
    cases body with
    | nil => rfl
    | cons b bs =>
      simp only [mrAux, List.isEmpty_cons, Bool.false_eq_true, if_false, sepB, List.flatMap_cons, List.flatMap_nil,
        List.append_nil, plainRun_bytes]
  | cons x rest ih =>
    have hx := hne x (by simp)
    have hrest : ∀ r ∈ rest, r.units ≠ [] := fun r hr => hne r (by simp [hr])
    rw [mrAux]
    have hcons : sepB (x :: rest) = 0x20 :: x.bytes ++ sepB rest := by
      unfold sepB; rw [List.flatMap_cons]
    by_cases hp : x.flags = plain3
    · rw [if_pos hp, ih hrest, hcons, plain_bytes x hp]
      cases body with
      | nil =>
        simp only [List.isEmpty_nil, if_true, isEmpty_false_of_ne hx, Bool.false_eq_true, if_false, List.nil_append]
      | cons b bs =>
        have hn : ((b :: bs) ++ spaceU :: x.units).isEmpty = false := rfl
        simp only [List.isEmpty_cons, Bool.false_eq_true, if_false, hn, List.flatMap_append, List.flatMap_cons,
          spaceU_bytes]
        simp
    · rw [if_neg hp]
      have e : sepB ((if body.isEmpty then [] else [{ units := body }]) ++ x :: mrAux [] rest)
          = sepB (if body.isEmpty then [] else [({ units := body } : RRun)]) ++ (0x20 :: x.bytes ++ sepB (mrAux [] rest)) := by
        unfold sepB; rw [List.flatMap_append, List.flatMap_cons]
      rw [e, ih hrest [], hcons]
      cases body with
      | nil => rfl
      | cons b bs =>
        simp only [List.isEmpty_cons, Bool.false_eq_true, if_false, List.isEmpty_nil, if_true, List.nil_append, sepB,
          List.flatMap_cons, List.flatMap_nil, List.append_nil, plainRun_bytes]

/-- **the second write emits the same bytes for the row**: joining adjacent unstyled runs does not change the
    bytes of the row in the text field -/
theorem backRow_bytes (l : List RRun) (hne : ∀ r ∈ l, str r.text ≠ []) : lineBytes (backRow l) = lineBytes l := by
  rw [lineBytes_tail, lineBytes_tail]
  unfold backRow
  rw [mrAux_sepB l (fun r hr => units_ne_nil r (hne r hr)) []]
  rfl

/-! ## the runs are carried as they are again -/

theorem okT_of_tr (us : List Unit) (hu : ∀ u ∈ us, RepUnit u) (ht : Tr (str (us.flatMap (·.text)))) :
    RRun.okT { units := us } :=
  ⟨hu, ht.ne_nil, by rw [trimSpace_eq]; exact trimBoth_id isSpace _ ht⟩

theorem mrAux_okT (l : List RRun) (h : ∀ r ∈ l, r.okT) (body : List Unit)
    (hb : body = [] ∨ ((∀ u ∈ body, RepUnit u) ∧ Tr (str (body.flatMap (·.text))))) :
    ∀ r ∈ mrAux body l, r.okT := by
  induction l generalizing body with
  | nil =>
    intro r hr
    rcases hb with rfl | ⟨hu, ht⟩
    · cases hr
    · cases body with
      | nil => cases hr
      | cons b bs =>
        simp only [mrAux, List.isEmpty_cons, Bool.false_eq_true, if_false, List.mem_cons, List.not_mem_nil, or_false] at hr
        subst hr
        exact okT_of_tr _ hu ht
  | cons x rest ih =>
    have hx := h x (by simp)
    have hrest : ∀ r ∈ rest, r.okT := fun r hr => h r (by simp [hr])
    intro r hr
    rw [mrAux] at hr
    by_cases hp : x.flags = plain3
    · rw [if_pos hp] at hr
      refine ih hrest _ ?_ r hr
      right
      rcases hb with rfl | ⟨hu, ht⟩
      · simp only [List.isEmpty_nil, if_true]
        exact ⟨hx.1, hx.tr⟩
      · cases body with
        | nil => simp only [List.isEmpty_nil, if_true]; exact ⟨hx.1, hx.tr⟩
        | cons b bs =>
          simp only [List.isEmpty_cons, Bool.false_eq_true, if_false]
          constructor
          · intro u hu'
            rcases List.mem_append.mp hu' with hu' | hu'
            · exact hu u hu'
            · rcases List.mem_cons.mp hu' with rfl | hu'
              · exact spaceU_rep
              · exact hx.1 u hu'
          · have e1 : str (((b :: bs) ++ spaceU :: x.units).flatMap (·.text))
                = str ((b :: bs).flatMap (·.text)) ++ [' '] ++ str (x.units.flatMap (·.text)) := by
              exact str_join _ _
            rw [e1]
            exact Edges.append ht [' '] hx.tr
    · rw [if_neg hp] at hr
      rcases List.mem_append.mp hr with hr | hr
      · rcases hb with rfl | ⟨hu, ht⟩
        · cases hr
        · cases body with
          | nil => cases hr
          | cons b bs =>
            simp only [List.isEmpty_cons, Bool.false_eq_true, if_false, List.mem_cons, List.not_mem_nil, or_false] at hr
            subst hr
            exact okT_of_tr _ hu ht
      · rcases List.mem_cons.mp hr with rfl | hr
        · exact hx
        · exact ih hrest [] (Or.inl rfl) r hr

theorem backRow_okT (l : List RRun) (h : ∀ r ∈ l, r.okT) : ∀ r ∈ backRow l, r.okT :=
  mrAux_okT l h [] (Or.inl rfl)

end C05
end Astisub
