import Astisub.Lemmas.SRTTok

/-!
# Lemmas/SRTTokFuel — the tokenizer model does not depend on its fuel, and a leading tag is one token

* `readAttrs_length`, `readTag_length` : the attribute loop and `readTag` hand back a strictly shorter rest;
* `tokStep`, `tokLoop_succ`            : one iteration of `tokLoop`, with the recursive call reified;
* `tokStep_length`                     : every iteration that recurses does so on a strictly shorter input;
* `tokLoop_fuel`                       : any two fuels above the input length give the same result;
* `tokLoop_append`                     : tokens already emitted come out in front of the result;
* `tokenize_b` … `tokenize_font`       : `tokenize (tag ++ rest) = (tokenize rest).prepend [tok]` for the eight
                                         tags of the SubRip writer, for *any* `rest`.
-/

namespace Astisub
namespace Go
open List

namespace TokFuel

theorem length_dropWhile_le {α} (p : α → Bool) (s : List α) : (s.dropWhile p).length ≤ s.length := by
  induction s with
  | nil => simp
  | cons x xs ih =>
    simp only [List.dropWhile_cons]
    split
    · simp; omega
    · simp

theorem len_of_drop_cons {α} {s r : List α} {c : α} {n : Nat} (h : s.drop n = c :: r) :
    r.length + 1 ≤ s.length := by
  have := congrArg List.length h
  simp at this
  omega

theorem len_of_dropWhile_cons {α} {s r : List α} {c : α} {p : α → Bool} (h : s.dropWhile p = c :: r) :
    r.length + 1 ≤ s.length := by
  have := congrArg List.length h
  have h2 := length_dropWhile_le p s
  simp at this
  omega

theorem len_ite_cons {α} (b : Prop) [Decidable b] (c : α) (r : List α) :
    (if b then c :: r else r).length ≤ r.length + 1 := by
  split <;> simp

end TokFuel
open TokFuel

theorem readAttrs_length (fuel : Nat) : ∀ (s : Str) (acc : List (Str × Str)) (attrs : List (Str × Str)) (rest : Str),
    readAttrs fuel s acc = some (attrs, rest) → rest.length < s.length := by
  induction fuel with
  | zero => intro s acc attrs rest h; simp [readAttrs] at h
  | succ fuel ih =>
    intro s acc attrs rest h
    unfold readAttrs at h
    split at h
    · simp at h
    · simp at h
    · simp at h; simp [h.2]
    · rename_i s' acc' _ _ _ f heq _ _
      cases heq
      dsimp only at h
      split at h
      · simp at h
      · rename_i c r1' hr1
        have l1 := len_of_drop_cons hr1
        have l2 := len_ite_cons ((c == '=' || c == '>') = true) c r1'
        split at h
        · simp at h
        · rename_i r3 hr2
          have l3 := len_of_dropWhile_cons hr2
          have l4 := length_dropWhile_le isTagWS r3
          split at h
          · simp at h
          · have := ih _ _ _ _ h
            omega
          · rename_i q r5 _ hr4
            rw [hr4] at l4
            simp only [List.length_cons] at l4
            split at h
            · split at h
              · simp at h
              · rename_i r7 hr6
                have l5 := len_of_drop_cons hr6
                have l6 := length_dropWhile_le isTagWS r7
                split at h
                · simp at h
                · have := ih _ _ _ _ h
                  omega
            · split at h
              · simp at h
              · rename_i c2 r7 hr6
                have l5 := len_of_drop_cons hr6
                have l6 := len_ite_cons ((c2 == '>') = true) c2 r7
                have l7 := length_dropWhile_le isTagWS (if (c2 == '>') = true then c2 :: r7 else r7)
                generalize dropWhile isTagWS (if (c2 == '>') = true then c2 :: r7 else r7) = r8 at h l7
                split at h
                · simp at h
                · have := ih _ _ _ _ h
                  simp only [List.length_cons] at l5
                  omega
        · have l3 := length_dropWhile_le isTagWS (if (c == '=' || c == '>') = true then c :: r1' else r1')
          have := ih _ _ _ _ h
          omega

theorem readTag_length (s name after : Str) (attrs : List (Str × Str))
    (h : readTag s = some (name, attrs, after)) : after.length < s.length := by
  unfold readTag at h
  dsimp only at h
  split at h
  · simp at h
  · split at h
    · rename_i attrs' rest' hra
      have l1 := readAttrs_length _ _ _ _ _ hra
      have l2 := length_dropWhile_le isTagWS
        (drop (takeWhile (fun c => !(isTagWS c || c == '/' || c == '>')) s).length s)
      simp only [List.length_drop] at l2
      simp at h
      rw [← h.2.2]
      omega
    · simp at h

/-! ### one iteration of `tokLoop` -/

/-- the outcome of one iteration of `tokLoop`: a final result, or the arguments of the recursive call -/
inductive TokStep where
  | done (r : TokRes)
  | next (s acc : Str) (out : List Tok)

/-- one iteration of `tokLoop` (its body, with the recursive calls reified) -/
def tokStep (s acc : Str) (out : List Tok) : TokStep :=
    let flush (out : List Tok) : List Tok := if acc.isEmpty then out else .text acc.reverse :: out
    match s with
    | [] => .done (.ok (flush out).reverse)
    | c :: rest =>
      if c == '\x00' then .done .unmodelled else
      if c != '<' then .next rest (c :: acc) out else
      match rest with
      | [] => .done (.ok ((Tok.text (('<' :: acc).reverse)) :: out).reverse)
      | d :: rest' =>
        if isLetter d then
          match readTag (d :: rest') with
          | none => .done (.ok (flush out).reverse)
          | some (name, attrs, after) =>
            let raw := (c :: d :: rest').take ((c :: d :: rest').length - after.length)
            let lname := toLowerAscii name
            if rawTags.contains (String.ofList lname) then .done .unmodelled
            else if attrs.any (fun kv => kv.2.contains '&') then .done .unmodelled
            else
              let selfc := raw.dropLast.getLast? == some '/'
              let t := if selfc then Tok.selfClosing raw lname (lowerKV attrs) else Tok.startTag raw lname (lowerKV attrs)
              .next after [] (t :: flush out)
        else if d == '/' then
          match rest' with
          | [] => .done (.ok (Tok.text ['<', '/'] :: flush out).reverse)
          | e :: rest'' =>
            if e == '>' then .next rest'' [] (Tok.other ['<', '/', '>'] :: flush out)
            else if isLetter e then
              match readTag (e :: rest'') with
              | none => .done (.ok (flush out).reverse)
              | some (name, _, after) =>
                let raw := (c :: d :: e :: rest'').take ((c :: d :: e :: rest'').length - after.length)
                .next after [] (Tok.endTag raw (toLowerAscii name) :: flush out)
            else
              let body := (e :: rest'').takeWhile (· != '>')
              let after := ((e :: rest'').drop body.length).drop 1
              let raw := (c :: d :: e :: rest'').take ((c :: d :: e :: rest'').length - after.length)
              .next after [] (Tok.other raw :: flush out)
        else if d == '!' then .done .unmodelled
        else if d == '?' then
          let body := (d :: rest').takeWhile (· != '>')
          let after := ((d :: rest').drop body.length).drop 1
          let raw := (c :: d :: rest').take ((c :: d :: rest').length - after.length)
          .next after [] (Tok.other raw :: flush out)
        else .next (d :: rest') ('<' :: acc) out

/-- run the continuation `k` on the outcome of a step -/
def TokStep.run (k : Str → Str → List Tok → TokRes) : TokStep → TokRes
  | .done r => r
  | .next s acc out => k s acc out

theorem tokLoop_succ (fuel : Nat) (s acc : Str) (out : List Tok) :
    tokLoop (fuel + 1) s acc out = (tokStep s acc out).run (tokLoop fuel) := by
  conv => lhs; unfold tokLoop
  unfold tokStep
  dsimp only
  cases s with
  | nil => rfl
  | cons c rest =>
    dsimp only
    by_cases h0 : (c == '\x00') = true
    · simp only [h0, ↓reduceIte, TokStep.run]
    simp only [h0, Bool.false_eq_true, ↓reduceIte]
    by_cases h1 : (c != '<') = true
    · simp only [h1, ↓reduceIte, TokStep.run]
    simp only [h1, Bool.false_eq_true, ↓reduceIte]
    cases rest with
    | nil => rfl
    | cons d rest' =>
      dsimp only
      by_cases h2 : isLetter d = true
      · simp only [h2, ↓reduceIte]
        generalize readTag (d :: rest') = o
        rcases o with _ | ⟨name, attrs, after⟩
        · rfl
        · dsimp only
          by_cases h3 : rawTags.contains (String.ofList (toLowerAscii name)) = true
          · simp only [h3, ↓reduceIte, TokStep.run]
          simp only [h3, Bool.false_eq_true, ↓reduceIte]
          by_cases h4 : (attrs.any fun kv => List.contains kv.snd '&') = true
          · simp only [h4, ↓reduceIte, TokStep.run]
          simp only [h4, Bool.false_eq_true, ↓reduceIte, TokStep.run]
      simp only [h2, Bool.false_eq_true, ↓reduceIte]
      by_cases h5 : (d == '/') = true
      · simp only [h5, ↓reduceIte]
        cases rest' with
        | nil => rfl
        | cons e rest'' =>
          dsimp only
          by_cases h6 : (e == '>') = true
          · simp only [h6, ↓reduceIte, TokStep.run]
          simp only [h6, Bool.false_eq_true, ↓reduceIte]
          by_cases h7 : isLetter e = true
          · simp only [h7, ↓reduceIte]
            generalize readTag (e :: rest'') = o
            rcases o with _ | ⟨name, attrs, after⟩
            · rfl
            · rfl
          simp only [h7, Bool.false_eq_true, ↓reduceIte, TokStep.run]
      simp only [h5, Bool.false_eq_true, ↓reduceIte]
      by_cases h8 : (d == '!') = true
      · simp only [h8, ↓reduceIte, TokStep.run]
      simp only [h8, Bool.false_eq_true, ↓reduceIte]
      by_cases h9 : (d == '?') = true
      · simp only [h9, ↓reduceIte, TokStep.run]
      simp only [h9, Bool.false_eq_true, ↓reduceIte, TokStep.run]

theorem tokStep_length (s acc : Str) (out : List Tok) (s' acc' : Str) (out' : List Tok)
    (h : tokStep s acc out = .next s' acc' out') : s'.length < s.length := by
  unfold tokStep at h
  dsimp only at h
  generalize (if acc.isEmpty = true then out else Tok.text acc.reverse :: out) = fo at h
  repeat' split at h
  all_goals first | (cases h; done) | skip
  all_goals (injection h with e1 e2 e3; subst e1)
  all_goals first
    | (have := readTag_length _ _ _ _ (by assumption); simp only [List.length_cons] at *; omega)
    | (simp only [List.length_drop, List.length_cons]; omega)

/-! ### B. fuel independence -/

/-- **Fuel independence.** any two fuels above the input length give the same result -/
theorem tokLoop_fuel (s acc : Str) (out : List Tok) (f1 f2 : Nat) (h1 : s.length < f1) (h2 : s.length < f2) :
    tokLoop f1 s acc out = tokLoop f2 s acc out := by
  induction f1 generalizing f2 s acc out with
  | zero => omega
  | succ f1 ih =>
    obtain ⟨g, rfl⟩ : ∃ g, f2 = g + 1 := ⟨f2 - 1, by omega⟩
    rw [tokLoop_succ, tokLoop_succ]
    cases hst : tokStep s acc out with
    | done r => rfl
    | next s' acc' out' =>
      have := tokStep_length _ _ _ _ _ _ hst
      exact ih s' acc' out' g (by omega) (by omega)

/-- with enough fuel the tokenizer never answers `unmodelled` for lack of fuel: `tokenize` is `tokLoop`
    at any sufficient fuel -/
theorem tokenize_eq_tokLoop (s : Str) (fuel : Nat) (h : s.length < fuel) : tokenize s = tokLoop fuel s [] [] :=
  tokLoop_fuel s [] [] _ _ (by omega) h

/-! ### C. the output accumulator -/

def TokRes.prepend (pre : List Tok) : TokRes → TokRes
  | .ok ts => .ok (pre ++ ts)
  | .unmodelled => .unmodelled

def TokStep.appOut (base : List Tok) : TokStep → TokStep
  | .done r => .done (r.prepend base.reverse)
  | .next s acc out => .next s acc (out ++ base)

theorem tokStep_append (s acc : Str) (out base : List Tok) :
    tokStep s acc (out ++ base) = (tokStep s acc out).appOut base := by
  unfold tokStep
  dsimp only
  have hfl : (if acc.isEmpty = true then out ++ base else Tok.text acc.reverse :: (out ++ base))
      = (if acc.isEmpty = true then out else Tok.text acc.reverse :: out) ++ base := by
    split <;> simp
  rw [hfl]
  generalize (if acc.isEmpty = true then out else Tok.text acc.reverse :: out) = fo
  repeat' split
  all_goals simp [TokStep.appOut, TokRes.prepend]

/-- **Output accumulator.** `out` holds the tokens emitted so far, newest first; whatever lies below
    them (`base`) comes out, reversed, in front of the result -/
theorem tokLoop_append (fuel : Nat) (s acc : Str) (out base : List Tok) :
    tokLoop fuel s acc (out ++ base) = (tokLoop fuel s acc out).prepend base.reverse := by
  induction fuel generalizing s acc out with
  | zero => simp [tokLoop, TokRes.prepend]
  | succ fuel ih =>
    rw [tokLoop_succ, tokLoop_succ, tokStep_append]
    cases tokStep s acc out with
    | done r => rfl
    | next s' acc' out' => exact ih s' acc' out'

theorem tokLoop_cons (fuel : Nat) (s acc : Str) (t : Tok) :
    tokLoop fuel s acc [t] = (tokLoop fuel s acc []).prepend [t] := by
  have := tokLoop_append fuel s acc [] [t]
  simpa using this

/-- B and C together: above the input length the fuel does not matter, and the tokens already emitted
    come out in front -/
theorem tokLoop_norm (fuel : Nat) (s acc : Str) (out : List Tok) (h : s.length < fuel) :
    tokLoop fuel s acc out = (tokLoop (s.length + 1) s acc []).prepend out.reverse := by
  have := tokLoop_append (s.length + 1) s acc [] out
  rw [List.nil_append] at this
  rw [← this]
  exact tokLoop_fuel s acc out _ _ h (by omega)

/-! ### D. a leading tag -/

/-- a prefix `raw` that the loop turns into the single token `t` (emitting the pending text first)
    contributes exactly `t` in front of the tokens of the rest -/
theorem tokenize_of_tag (raw rest : Str) (t : Tok)
    (h : ∀ fuel, tokLoop (fuel + 1) (raw ++ rest) [] [] = tokLoop fuel rest [] (t :: flushText [] [])) :
    tokenize (raw ++ rest) = (tokenize rest).prepend [t] := by
  unfold tokenize
  rw [h, ← tokLoop_cons]
  simp only [flushText, List.isEmpty_nil, if_true]
  apply tokLoop_fuel <;> simp <;> omega

theorem tokenize_b (rest : Str) : tokenize ("<b>".toList ++ rest) = (tokenize rest).prepend [tokB] :=
  tokenize_of_tag _ rest tokB fun fuel => tokLoop_b fuel rest [] []
theorem tokenize_i (rest : Str) : tokenize ("<i>".toList ++ rest) = (tokenize rest).prepend [tokI] :=
  tokenize_of_tag _ rest tokI fun fuel => tokLoop_i fuel rest [] []
theorem tokenize_u (rest : Str) : tokenize ("<u>".toList ++ rest) = (tokenize rest).prepend [tokU] :=
  tokenize_of_tag _ rest tokU fun fuel => tokLoop_u fuel rest [] []
theorem tokenize_eb (rest : Str) : tokenize ("</b>".toList ++ rest) = (tokenize rest).prepend [tokEB] :=
  tokenize_of_tag _ rest tokEB fun fuel => tokLoop_eb fuel rest [] []
theorem tokenize_ei (rest : Str) : tokenize ("</i>".toList ++ rest) = (tokenize rest).prepend [tokEI] :=
  tokenize_of_tag _ rest tokEI fun fuel => tokLoop_ei fuel rest [] []
theorem tokenize_eu (rest : Str) : tokenize ("</u>".toList ++ rest) = (tokenize rest).prepend [tokEU] :=
  tokenize_of_tag _ rest tokEU fun fuel => tokLoop_eu fuel rest [] []
theorem tokenize_efont (rest : Str) : tokenize ("</font>".toList ++ rest) = (tokenize rest).prepend [tokEFont] :=
  tokenize_of_tag _ rest tokEFont fun fuel => tokLoop_efont fuel rest [] []
theorem tokenize_font (c rest : Str) (hc : colorOK c = true) :
    tokenize ("<font color=\"".toList ++ c ++ "\">".toList ++ rest) = (tokenize rest).prepend [tokFont c] :=
  tokenize_of_tag _ rest (tokFont c) fun fuel => tokLoop_font fuel c rest [] [] hc

end Go
end Astisub
