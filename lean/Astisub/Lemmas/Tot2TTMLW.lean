import Astisub.Lemmas.Tot2Base
import Astisub.Model.TTML

/-!
# Lemmas/Tot2TTMLW — `WriteToTTML` (`ttml.go`) with Go's run-time checks explicit

Sites of the writer that the model totalises:

* `s.Metadata != nil` in front of `s.Metadata.Language`, `.TTMLCopyright`, `.Title`;
* `ttmlOutStyleAttributesFromStyleAttributes(s)`: `s == nil ⇒ TTMLOutStyleAttributes{}` in front of the 24 field reads
  (called for every region, style, cue and run);
* `s.Regions[id].Style != nil` / `s.Styles[id].Style != nil` in front of `.Style.ID`; `item.Region != nil`,
  `item.Style != nil`, `lineItem.Style != nil` in front of `.ID`;
* "remove last line break": `ttmlSubtitle.Items[:len(ttmlSubtitle.Items)-1]` behind `len(ttmlSubtitle.Items) > 0` — the
  model works on the flattened token list and writes `items.take (items.length - 2)`, where natural-number
  subtraction would hide a negative bound; here the list of `TTMLOutItem`s is kept, the bound is an `Int`
  (`initC`), and the guard is proved necessary (a cue without lines).

The look-ups `s.Regions[id]` / `s.Styles[id]` by the `ID` *field* of the values are the subject of
`Tot.byIdC_safe` (`Tot2Base`): the model identifies a map key with the `ID` of its value.
-/

namespace Astisub
namespace Tot
namespace TTMLW
open Go Astisub.TTML

/-! ## attributes -/

/-- `ttmlOutStyleAttributesFromStyleAttributes` as marshalled -/
def outAttrsC (a : Attrs) : Chk (List (Str × Str)) :=
  if a.isNone then pure []
  else do
    let kv ← deref a
    pure (attrTable.filterMap fun (f, x) => (kv.lookup ("TTML" ++ f).toList).map fun v => (("tts:" ++ x).toList, v))

theorem outAttrs_none : outAttrs none = [] := by
  unfold outAttrs
  apply List.filterMap_eq_nil_iff.mpr
  intro p _
  rfl

theorem outAttrsC_eq (a : Attrs) : outAttrsC a = .ok (outAttrs a) := by
  cases a with
  | none => unfold outAttrsC; rw [outAttrs_none]; rfl
  | some kv => rfl

/-- the same without the `s == nil` test -/
def outAttrsU (a : Attrs) : Chk (List (Str × Str)) := do
  let kv ← deref a
  pure (attrTable.filterMap fun (f, x) => (kv.lookup ("TTML" ++ f).toList).map fun v => (("tts:" ++ x).toList, v))

/-- the test is necessary: a nil `InlineStyle` is dereferenced without it -/
theorem outAttrsU_nil : outAttrsU none = .error .nilDeref := rfl

/-- a string field with `,attr,omitempty` -/
def strAttr (name : String) (v : Str) : List (Str × Str) := if v.isEmpty then [] else [(name.toList, v)]

/-- `if x.Style != nil { out.Style = x.Style.ID }` (the zero value is `""`) -/
def refIdC (r : Option Str) : Chk Str := if r.isSome then deref r else pure []

theorem refAttr_eq (name : String) (r : Option Str) :
    (do let v ← refIdC r; pure (strAttr name v) : Chk _) = .ok (optAttr name r) := by
  cases r <;> rfl

/-- without the `!= nil` test -/
theorem refIdU_nil : deref (none : Option Str) = .error .nilDeref := rfl

/-! ## head -/

def headerC (name : String) (d : Def) : Chk (List WTok) := do
  let a ← outAttrsC d.attrs
  let st ← refIdC d.ref
  pure [.start name.toList (strAttr "xml:id" d.id ++ strAttr "style" st ++ a), .stop name.toList]

theorem headerC_eq (name : String) (d : Def) : headerC name d = .ok (header name d) := by
  unfold headerC header
  rw [outAttrsC_eq]
  cases d.ref <;> rfl

/-- language attribute and `<metadata>` element: everything behind `s.Metadata != nil` -/
def metaC (m : Attrs) : Chk (Option Str × List WTok) :=
  if m.isSome then do
    let kv ← deref m
    let lang : Option Str :=
      match kv.lookup "Language".toList with
      | some l => (languages.find? fun p => p.2 = l).map (·.1)
      | none => none
    let title := (kv.lookup "Title".toList).getD []
    let copyright := (kv.lookup "TTMLCopyright".toList).getD []
    let toks : List WTok :=
      if copyright ≠ [] ∨ title ≠ [] then
        [.start "metadata".toList []] ++ elemText "ttm:copyright" copyright ++ elemText "ttm:title" title ++ [.stop "metadata".toList]
      else []
    pure (lang, toks)
  else pure (none, [])

def metaOf (m : Attrs) : Option Str × List WTok :=
  let title := (kvGet m "Title").getD []
  let copyright := (kvGet m "TTMLCopyright").getD []
  (langOut m,
   if m.isSome ∧ (copyright ≠ [] ∨ title ≠ []) then
     [.start "metadata".toList []] ++ elemText "ttm:copyright" copyright ++ elemText "ttm:title" title ++ [.stop "metadata".toList]
   else [])

theorem metaC_eq (m : Attrs) : metaC m = .ok (metaOf m) := by
  cases m with
  | none => rfl
  | some kv =>
    unfold metaC metaOf langOut kvGet
    simp only [Option.isSome_some, if_true, deref, ok_bind, true_and]
    rfl

/-- the pinned shape: no `s.Metadata != nil` -/
def metaU (m : Attrs) : Chk (Option Str) := do
  let kv ← deref m
  pure (match kv.lookup "Language".toList with
        | some l => (languages.find? fun p => p.2 = l).map (·.1)
        | none => none)

theorem metaU_nil : metaU none = .error .nilDeref := rfl

/-! ## cues -/

/-- one `TTMLOutItem` named `span` -/
def spanC (li : LItem) : Chk (List WTok) := do
  let a ← outAttrsC li.attrs
  let st ← refIdC li.style
  pure ([.start "span".toList (strAttr "style" st ++ a)] ++ (if li.text.isEmpty then [] else [.text li.text]) ++ [.stop "span".toList])

theorem spanC_eq (li : LItem) : spanC li = .ok (spanOf li) := by
  unfold spanC spanOf
  rw [outAttrsC_eq]
  cases li.style <;> rfl

/-- the `TTMLOutItem`s of one line: its spans, then the line break -/
def lineItemsC (l : Line) : Chk (List (List WTok)) := do
  let spans ← mapC spanC l.items
  pure (spans ++ [brTok])

def lineItems (l : Line) : List (List WTok) := l.items.map spanOf ++ [brTok]

theorem lineItemsC_eq (l : Line) : lineItemsC l = .ok (lineItems l) := by
  unfold lineItemsC lineItems
  rw [mapC_eq spanC_eq]; rfl

theorem lineItems_flatten (l : Line) : (lineItems l).flatten = lineToks l := by
  unfold lineItems lineToks
  simp

/-- "Remove last line break": `Items[:len(Items)-1]` behind `len(Items) > 0` -/
def dropBreakC (items : List (List WTok)) : Chk (List (List WTok)) :=
  if items.length > 0 then initC items else pure items

/-- the pinned shape without the length test -/
def dropBreakU (items : List (List WTok)) : Chk (List (List WTok)) := initC items

/-- the length test is necessary: for a cue without lines the bound is `-1` -/
theorem dropBreakU_nil : dropBreakU [] = .error .slice := rfl

theorem flatten_map_flatten {α} : ∀ (L : List (List (List α))), (L.map List.flatten).flatten = L.flatten.flatten
  | [] => rfl
  | x :: xs => by simp [flatten_map_flatten xs]

/-- the items of a non-empty list of lines end with the line break of the last line -/
theorem lineItems_snoc : ∀ (lines : List Line), lines ≠ [] →
    ∃ X, (lines.map lineItems).flatten = X ++ [brTok]
  | [], h => absurd rfl h
  | [l], _ => ⟨l.items.map spanOf, by simp [lineItems]⟩
  | l :: l' :: ls, _ => by
    obtain ⟨X, hX⟩ := lineItems_snoc (l' :: ls) (by simp)
    refine ⟨lineItems l ++ X, ?_⟩
    rw [List.map_cons, List.flatten_cons, hX, List.append_assoc]

/-- dropping the last item = what the model does on the flattened tokens with `take (length - 2)` -/
theorem dropBreakC_eq (lines : List Line) :
    (do let items ← dropBreakC (lines.map lineItems).flatten; pure items.flatten : Chk _) =
      .ok (((lines.map lineToks).flatten).take ((lines.map lineToks).flatten.length - 2)) := by
  have htoks : (lines.map lineToks).flatten = ((lines.map lineItems).flatten).flatten := by
    rw [← flatten_map_flatten, List.map_map]
    congr 1
    apply List.map_congr_left
    intro l _
    exact (lineItems_flatten l).symm
  unfold dropBreakC
  cases lines with
  | nil => rfl
  | cons l ls =>
    obtain ⟨X, hX⟩ := lineItems_snoc (l :: ls) (by simp)
    rw [htoks, hX]
    rw [if_pos (by simp), initC_ok (by simp)]
    simp only [ok_bind, pure_eq, List.dropLast_concat, List.flatten_append, List.flatten_cons, List.flatten_nil,
      List.append_nil, List.length_append]
    congr 1
    have : brTok.length = 2 := rfl
    rw [this, Nat.add_sub_cancel, List.take_left']
    rfl

/-- one `<p>` -/
def subToksC (it : CItem) : Chk (List WTok) := do
  let a ← outAttrsC it.attrs
  let region ← refIdC it.region
  let style ← refIdC it.style
  let perLine ← mapC lineItemsC it.lines
  let items ← dropBreakC perLine.flatten
  pure ([.start "p".toList ([("begin".toList, Duration.formatTTML it.startAt), ("end".toList, Duration.formatTTML it.endAt)]
      ++ strAttr "region" region ++ strAttr "style" style ++ a)]
    ++ items.flatten ++ [.stop "p".toList])

/-- never panics and is the model, for every cue: no lines, empty lines, empty texts, nil pointers everywhere -/
theorem subToksC_eq (it : CItem) : subToksC it = .ok (subToks it) := by
  unfold subToksC subToks
  rw [outAttrsC_eq, mapC_eq lineItemsC_eq]
  simp only [ok_bind]
  have h := dropBreakC_eq it.lines
  cases hd : dropBreakC (it.lines.map lineItems).flatten with
  | error e => rw [hd] at h; cases h
  | ok items =>
    rw [hd] at h
    simp only [ok_bind, pure_eq] at h
    injection h with h
    simp only [ok_bind, h]
    cases it.region <;> cases it.style <;> rfl

/-- the writer with the pinned "remove last line break" -/
def subItemsU (it : CItem) : Chk (List (List WTok)) := do
  let perLine ← mapC lineItemsC it.lines
  dropBreakU perLine.flatten

/-- a cue without lines makes the unguarded slice panic -/
theorem subItemsU_no_lines (it : CItem) (h : it.lines = []) : subItemsU it = .error .slice := by
  unfold subItemsU
  rw [h]
  rfl

/-! ## the document -/

/-- **`WriteToTTML` (the element tree handed to `xml.Encoder`) with every nil test and the slice bound checked** -/
def writeC (s : Subs) : Chk (Option (List WTok)) :=
  if s.items.isEmpty then pure none
  else do
    let (lang, metaToks) ← metaC s.metadata
    let regions ← mapC (headerC "region") (sortDefs s.regions)
    let styles ← mapC (headerC "style") (sortDefs s.styles)
    let subs ← mapC subToksC s.items
    pure (some (
      [.start "tt".toList ([("xmlns".toList, "http://www.w3.org/ns/ttml".toList)] ++ optAttr "xml:lang" lang ++
          [("xmlns:ttm".toList, "http://www.w3.org/ns/ttml#metadata".toList), ("xmlns:tts".toList, "http://www.w3.org/ns/ttml#styling".toList)]),
       .start "head".toList []] ++ metaToks ++
      [.start "styling".toList []] ++ styles.flatten ++ [.stop "styling".toList] ++
      [.start "layout".toList []] ++ regions.flatten ++ [.stop "layout".toList] ++
      [.stop "head".toList, .start "body".toList [], .start "div".toList []] ++
      subs.flatten ++
      [.stop "div".toList, .stop "body".toList, .stop "tt".toList]))

/-- **the checked TTML writer never panics and is the model, for every cue list** -/
theorem writeC_eq (s : Subs) : writeC s = .ok (TTML.write s) := by
  unfold writeC TTML.write
  by_cases he : s.items.isEmpty = true
  · rw [if_pos he, if_pos he]; rfl
  · rw [if_neg he, if_neg he, metaC_eq, mapC_eq (headerC_eq "region"), mapC_eq (headerC_eq "style"), mapC_eq subToksC_eq]
    rfl

example : writeC { items := [{ startAt := 0, endAt := 1, lines := [] }] } =
    .ok (TTML.write { items := [{ startAt := 0, endAt := 1, lines := [] }] }) := writeC_eq _

end TTMLW
end Tot
end Astisub
