import Astisub.Lemmas.TTMLRead2Defs
import Astisub.Lemmas.TTMLTime
import Astisub.Props.C03
/-!
# Lemmas/TTMLRead2Time — READ clause of C03, time expressions

`denote_timeExpr`: every string the independent decoder (`Spec.TTML.denote`) accepts as a time expression is parsed
by the reader model (`TTML.timeExpr` = `TTMLInDuration.UnmarshalText`) and resolved (`TTML.duration`) to the instant
the decoder says, within 1 ns, for every frame and tick rate — on the class `timeFits` (numbers fit 64 bits).

Method: `denote` is cut into its branches (`denOff`, `denClock`, `denFrames`; `denote_eq`), each branch is inverted
into the shape of the string (`splitAt = splitC`, `num_some`, `decimal_some`, `denOff_inv`, `denClock_inv`,
`denFrames_inv`), and the model is computed on that shape (lemmas of `Lemmas/TTMLTime`, `Props/C03`, and
`parse_clock`, `parse_clock_frac` here for arbitrary digit fields).
-/

namespace Astisub
namespace TTMLR
open Go TTML

theorem int64Max_eq : TTMLR.int64Max = Go.int64Max := rfl

/-! ## the decoder's `denote`, branch by branch -/

def denOff (o : Str) (fr tr : Nat) : Option (Nat × Nat) :=
  match Spec.TTML.stripSuffix? "ms".toList o with
  | some v => (Spec.TTML.decimal? v).map fun (n, d) => (n * 1000000, d)
  | none =>
    match o.getLast?, Spec.TTML.decimal? o.dropLast with
    | some 'h', some (n, d) => some (n * 3600000000000, d)
    | some 'm', some (n, d) => some (n * 60000000000, d)
    | some 's', some (n, d) => some (n * 1000000000, d)
    | some 'f', some (n, d) => if fr > 0 then some (n * 1000000000, d * fr) else none
    | some 't', some (n, d) => if tr > 0 then some (n * 1000000000, d * tr) else none
    | _, _ => none

def secParts (sec : Str) : Str × Option Str :=
  match Spec.TTML.splitAt '.' sec with
  | [a] => (a, none)
  | [a, f] => (a, some f)
  | _ => ([], none)

def denClock (h m sec : Str) : Option (Nat × Nat) :=
  match Spec.TTML.num? h, Spec.TTML.num? m, Spec.TTML.num? (secParts sec).1 with
  | some hh, some mm, some ss =>
    if h.length < 2 || m.length ≠ 2 || (secParts sec).1.length ≠ 2 || mm ≥ 60 || ss ≥ 60 then none else
    let whole := (hh * 3600 + mm * 60 + ss) * 1000000000
    match (secParts sec).2 with
    | none => some (whole, 1)
    | some f =>
      if f.length = 0 || f.length > 3 then none else
      (Spec.TTML.num? f).map fun fv => (whole + fv * 10 ^ (9 - f.length), 1)
  | _, _, _ => none

def denFrames (h m sec ff : Str) (fr : Nat) : Option (Nat × Nat) :=
  match Spec.TTML.num? h, Spec.TTML.num? m, Spec.TTML.num? sec, Spec.TTML.num? ff with
  | some hh, some mm, some ss, some f =>
    if h.length < 2 || m.length ≠ 2 || sec.length ≠ 2 || mm ≥ 60 || ss ≥ 60 || fr = 0 || f ≥ fr then none else
    some ((hh * 3600 + mm * 60 + ss) * 1000000000 * fr + f * 1000000000, fr)
  | _, _, _, _ => none

def denL : List Str → Nat → Nat → Option (Nat × Nat)
  | [o], fr, tr => denOff o fr tr
  | [h, m, sec], _, _ => denClock h m sec
  | [h, m, sec, ff], fr, _ => denFrames h m sec ff fr
  | _, _, _ => none

theorem denote_eq (s : Str) (fr tr : Nat) :
    Spec.TTML.denote s fr tr = denL (Spec.TTML.splitAt ':' s) fr tr := by
  unfold Spec.TTML.denote
  generalize Spec.TTML.splitAt ':' s = l
  match l with
  | [] => rfl
  | [_] => rfl
  | [_, _] => rfl
  | [_, _, _] => rfl
  | [_, _, _, _] => rfl
  | _ :: _ :: _ :: _ :: _ :: _ => rfl


/-! ## strings -/

theorem splitAt_eq (c : Char) (s : Str) : Spec.TTML.splitAt c s = splitC c s := by
  induction s with
  | nil => rfl
  | cons x xs ih =>
    have e : Spec.TTML.splitAt c (x :: xs)
        = if x = c then [] :: Spec.TTML.splitAt c xs
          else match Spec.TTML.splitAt c xs with | h :: t => (x :: h) :: t | [] => [[x]] := rfl
    have e2 : splitC c (x :: xs)
        = if x = c then [] :: splitC c xs
          else match splitC c xs with | [] => [[x]] | h :: t => (x :: h) :: t := rfl
    rw [e, e2, ih]
    by_cases hx : x = c
    · simp only [hx, ↓reduceIte]
    · simp only [hx, ↓reduceIte]
      cases splitC c xs <;> rfl

theorem splitC_ne_nil (c : Char) (s : Str) : splitC c s ≠ [] := by
  cases s with
  | nil => simp [splitC]
  | cons x xs =>
    unfold splitC
    by_cases hx : x = c
    · simp [hx]
    · simp only [hx, ↓reduceIte]
      cases splitC c xs <;> simp

theorem splitC_single {c : Char} {s a : Str} (h : splitC c s = [a]) : s = a ∧ c ∉ a := by
  induction s generalizing a with
  | nil => simp [splitC] at h; subst h; simp
  | cons x xs ih =>
    unfold splitC at h
    by_cases hx : x = c
    · simp only [hx, ↓reduceIte] at h
      simp at h
      exact absurd h.2 (splitC_ne_nil c xs)
    · simp only [hx, ↓reduceIte] at h
      cases hsp : splitC c xs with
      | nil => exact absurd hsp (splitC_ne_nil c xs)
      | cons h' t =>
        rw [hsp] at h
        simp at h
        obtain ⟨h1, h2⟩ := h
        subst h2
        obtain ⟨e1, e2⟩ := ih hsp
        subst h1
        subst e1
        refine ⟨rfl, ?_⟩
        intro hm
        simp at hm
        rcases hm with hm | hm
        · exact hx hm.symm
        · exact e2 hm

theorem splitC_cons2 {c : Char} {s a b : Str} {rest : List Str} (h : splitC c s = a :: b :: rest) :
    ∃ s', s = a ++ c :: s' ∧ c ∉ a ∧ splitC c s' = b :: rest := by
  induction s generalizing a with
  | nil => simp [splitC] at h
  | cons x xs ih =>
    unfold splitC at h
    by_cases hx : x = c
    · simp only [hx, ↓reduceIte] at h
      simp at h
      obtain ⟨h1, h2⟩ := h
      subst h1
      exact ⟨xs, by simp [hx], by simp, h2⟩
    · simp only [hx, ↓reduceIte] at h
      cases hsp : splitC c xs with
      | nil => exact absurd hsp (splitC_ne_nil c xs)
      | cons h' t =>
        rw [hsp] at h
        simp at h
        obtain ⟨h1, h2⟩ := h
        subst h2
        obtain ⟨s', e1, e2, e3⟩ := ih hsp
        subst h1
        refine ⟨s', by rw [e1]; rfl, ?_, e3⟩
        intro hm
        simp at hm
        rcases hm with hm | hm
        · exact hx hm.symm
        · exact e2 hm

theorem isDig_digitChar {c : Char} (h : Spec.TTML.isDig c = true) : ∃ k, k < 10 ∧ c = digitChar k := by
  unfold Spec.TTML.isDig at h
  simp only [Bool.and_eq_true, decide_eq_true_eq] at h
  obtain ⟨h1, h2⟩ := h
  have h1' : 48 ≤ c.toNat := h1
  have h2' : c.toNat ≤ 57 := h2
  refine ⟨c.toNat - 48, by omega, ?_⟩
  unfold digitChar
  have : 48 + (c.toNat - 48) = c.toNat := by omega
  rw [this, Char.ofNat_toNat]

theorem num_some {s : Str} {n : Nat} (h : Spec.TTML.num? s = some n) :
    s ≠ [] ∧ DigitStr s ∧ n = natOfDigits s := by
  unfold Spec.TTML.num? at h
  split at h
  · exact absurd h (by simp)
  · rename_i hc
    simp only [Bool.or_eq_true, Bool.not_eq_true', not_or, Bool.not_eq_false] at hc
    refine ⟨?_, ?_, ?_⟩
    · intro e; subst e; simp at hc
    · intro c hc'
      exact isDig_digitChar (List.all_eq_true.mp hc.2 c hc')
    · simp at h; exact h.symm

theorem decimal_some {v : Str} {n d : Nat} (h : Spec.TTML.decimal? v = some (n, d)) :
    ∃ ip fp, DigitStr ip ∧ ip ≠ [] ∧ DigitStr fp ∧ n = natOfDigits (ip ++ fp) ∧ d = 10 ^ fp.length ∧
      ((v = ip ∧ fp = []) ∨ (v = ip ++ '.' :: fp ∧ fp ≠ [])) := by
  unfold Spec.TTML.decimal? at h
  rw [splitAt_eq] at h
  split at h
  · rename_i i hsp
    obtain ⟨e, _⟩ := splitC_single hsp
    cases hn : Spec.TTML.num? i with
    | none => rw [hn] at h; simp at h
    | some k =>
      rw [hn] at h
      simp at h
      obtain ⟨hne, hd, hk⟩ := num_some hn
      exact ⟨i, [], hd, hne, by intro c hc; simp at hc, by simp [← hk, h.1], by simp [h.2], Or.inl ⟨e, rfl⟩⟩
  · rename_i i f hsp
    obtain ⟨s', e1, _, e3⟩ := splitC_cons2 hsp
    obtain ⟨e4, _⟩ := splitC_single e3
    subst e4
    split at h
    · rename_i ki kf hi hf
      obtain ⟨hine, hid, _⟩ := num_some hi
      obtain ⟨hfne, hfd, _⟩ := num_some hf
      cases hn : Spec.TTML.num? (i ++ s') with
      | none => rw [hn] at h; simp at h
      | some k =>
        rw [hn] at h
        simp at h
        obtain ⟨_, _, hk⟩ := num_some hn
        exact ⟨i, s', hid, hine, hfd, by rw [← hk, h.1], h.2.symm, Or.inr ⟨e1, hfne⟩⟩
    · simp at h
  · simp at h


/-! ## arithmetic -/

theorem within1_floor (A R : Nat) (hR : 0 < R) :
    Spec.TTML.within1 ((A / R : Nat) : Int) (A, R) = true := by
  have h := C03.nat_floor_within A R hR
  have h1 : ((A / R : Nat) : Int) * (R : Int) ≤ (A : Int) := by exact_mod_cast h.1
  have h2 : (A : Int) < (((A / R : Nat) : Int) + 1) * (R : Int) := by exact_mod_cast h.2
  rw [Int.add_mul, Int.one_mul] at h2
  unfold Spec.TTML.within1
  simp only [Bool.and_eq_true, decide_eq_true_eq]
  refine ⟨⟨Int.natCast_nonneg _, hR⟩, ?_, ?_⟩
  · generalize ((A / R : Nat) : Int) * (R : Int) = X at *
    omega
  · generalize ((A / R : Nat) : Int) * (R : Int) = X at *
    omega

theorem of_instant {s : Str} {fr tr X : Int} {q : Nat × Nat} (h : instant s fr tr = some X)
    (hw : Spec.TTML.within1 X q = true) :
    ∃ d, timeExpr s = some d ∧ Spec.TTML.within1 (duration d fr tr) q = true := by
  unfold instant at h
  obtain ⟨d, hd, hX⟩ := Option.map_eq_some_iff.mp h
  exact ⟨d, hd, by rw [hX]; exact hw⟩

/-! ## offset times -/

theorem stripSuffix_some {suf o v : Str} (h : Spec.TTML.stripSuffix? suf o = some v) : o = v ++ suf := by
  unfold Spec.TTML.stripSuffix? at h
  split at h
  · rename_i hc
    simp at h
    rw [← h]
    conv => rhs; rhs; rw [← hc.2]
    exact (List.take_append_drop _ _).symm
  · simp at h

theorem getLast_shape {l : Str} {a : Char} (h : l.getLast? = some a) : l = l.dropLast ++ [a] := by
  obtain ⟨ys, rfl⟩ := List.getLast?_eq_some_iff.mp h
  simp

theorem denOff_inv {o : Str} {fr tr : Nat} {q : Nat × Nat} (h : denOff o fr tr = some q) :
    ∃ v m n d, o = v ++ m ∧ Spec.TTML.decimal? v = some (n, d) ∧
      ((m = ['h'] ∧ q = (n * 3600000000000, d) ∧ denOff o 0 0 = some q) ∨
       (m = ['m'] ∧ q = (n * 60000000000, d) ∧ denOff o 0 0 = some q) ∨
       (m = ['s'] ∧ q = (n * 1000000000, d) ∧ denOff o 0 0 = some q) ∨
       (m = ['m', 's'] ∧ q = (n * 1000000, d) ∧ denOff o 0 0 = some q) ∨
       (m = ['f'] ∧ 0 < fr ∧ q = (n * 1000000000, d * fr)) ∨
       (m = ['t'] ∧ 0 < tr ∧ q = (n * 1000000000, d * tr))) := by
  have h' := h
  unfold denOff at h
  split at h
  · rename_i v hst
    have h0 : denOff o 0 0 = some q := by
      unfold denOff; rw [hst]; exact h
    obtain ⟨⟨n, d⟩, hdec, hq⟩ := Option.map_eq_some_iff.mp h
    exact ⟨v, ['m', 's'], n, d, stripSuffix_some hst, hdec, Or.inr (Or.inr (Or.inr (Or.inl ⟨rfl, hq.symm, h0⟩)))⟩
  · rename_i hst
    split at h
    · rename_i n d hl hdec
      have h0 : denOff o 0 0 = some q := by
        unfold denOff; rw [hst]; simp only [hl, hdec]; exact h
      simp at h
      exact ⟨_, ['h'], n, d, getLast_shape hl, hdec,
        Or.inl ⟨rfl, h.symm, h0⟩⟩
    · rename_i n d hl hdec
      have h0 : denOff o 0 0 = some q := by
        unfold denOff; rw [hst]; simp only [hl, hdec]; exact h
      simp at h
      exact ⟨_, ['m'], n, d, getLast_shape hl, hdec,
        Or.inr (Or.inl ⟨rfl, h.symm, h0⟩)⟩
    · rename_i n d hl hdec
      have h0 : denOff o 0 0 = some q := by
        unfold denOff; rw [hst]; simp only [hl, hdec]; exact h
      simp at h
      exact ⟨_, ['s'], n, d, getLast_shape hl, hdec,
        Or.inr (Or.inr (Or.inl ⟨rfl, h.symm, h0⟩))⟩
    · rename_i n d hl hdec
      split at h
      · rename_i hfr
        simp at h
        exact ⟨_, ['f'], n, d, getLast_shape hl, hdec,
          Or.inr (Or.inr (Or.inr (Or.inr (Or.inl ⟨rfl, hfr, h.symm⟩))))⟩
      · simp at h
    · rename_i n d hl hdec
      split at h
      · rename_i htr
        simp at h
        exact ⟨_, ['t'], n, d, getLast_shape hl, hdec,
          Or.inr (Or.inr (Or.inr (Or.inr (Or.inr ⟨rfl, htr, h.symm⟩))))⟩
      · simp at h
    · simp at h


/-- what `timeFits` says on an offset in `h`, `m`, `s`, `ms` -/
theorem timeFits_time {s : Str} {q : Nat × Nat} (hc : ':' ∉ s) (hl : s.getLast? ≠ some 'f')
    (hl' : s.getLast? ≠ some 't') (h0 : Spec.TTML.denote s 0 0 = some q) (hf : timeFits s = true) :
    q.1 / q.2 ≤ int64Max := by
  unfold timeFits at hf
  have hcond : (s.contains ':' || s.getLast? == some 'f' || s.getLast? == some 't') = false := by
    simp [hc, hl, hl']
  rw [hcond, h0] at hf
  simpa using hf

/-- what `timeFits` says on a clock time and on an offset in frames / ticks -/
theorem timeFits_count {s : Str} (hl : ':' ∈ s ∨ s.getLast? = some 'f' ∨ s.getLast? = some 't')
    (hf : timeFits s = true) : natOfDigits (s.takeWhile isDigit) ≤ int64Max := by
  unfold timeFits at hf
  have hcond : (s.contains ':' || s.getLast? == some 'f' || s.getLast? == some 't') = true := by
    rcases hl with h | h | h <;> simp [h]
  rw [hcond] at hf
  simpa using hf

theorem offsetTime_shape {ip fp v m : Str} (hip : DigitStr ip) (hne : ip ≠ []) (hfp : DigitStr fp)
    (hv : (v = ip ∧ fp = []) ∨ (v = ip ++ '.' :: fp ∧ fp ≠ [])) (hm : m ∈ metrics) :
    offsetTime (v ++ m) = some (ip, fp, m) := by
  rcases hv with ⟨rfl, rfl⟩ | ⟨rfl, hfne⟩
  · exact C03.offsetTime_print hip hne hm
  · exact C03.offsetTime_print_frac hip hne hfp hfne hm

theorem takeWhile_shape {ip fp v : Str} {c : Char} (hip : DigitStr ip)
    (hv : (v = ip ∧ fp = []) ∨ (v = ip ++ '.' :: fp ∧ fp ≠ [])) (hc : isDigit c = false) :
    (v ++ [c]).takeWhile isDigit = ip := by
  rcases hv with ⟨rfl, rfl⟩ | ⟨rfl, _⟩
  · exact takeWhile_stop [] hip.isDigit hc
  · rw [show ip ++ '.' :: fp ++ [c] = ip ++ '.' :: (fp ++ [c]) by simp]
    exact takeWhile_stop _ hip.isDigit (by decide)

/-- offset in `h`, `m`, `s`, `ms` -/
theorem offset_time_case {ip fp v m : Str} {tbN : Nat} (fr tr : Int) (hip : DigitStr ip) (hne : ip ≠ [])
    (hfp : DigitStr fp) (hv : (v = ip ∧ fp = []) ∨ (v = ip ++ '.' :: fp ∧ fp ≠ []))
    (hm : m ∈ C03.timeMetrics) (htb : timebase m = (tbN : Int))
    (hfit : natOfDigits (ip ++ fp) * tbN / 10 ^ fp.length ≤ int64Max) :
    ∃ d, timeExpr (v ++ m) = some d ∧
      Spec.TTML.within1 (duration d fr tr) (natOfDigits (ip ++ fp) * tbN, 10 ^ fp.length) = true := by
  obtain ⟨hmm, ht, hf⟩ := C03.timeMetrics_sub hm
  have e : (natOfDigits (ip ++ fp) : Int) * (tbN : Int) / (10 : Int) ^ fp.length
      = ((natOfDigits (ip ++ fp) * tbN / 10 ^ fp.length : Nat) : Int) := by
    simp [Int.natCast_ediv, Int.natCast_mul, Int.natCast_pow]
  have hV : ((natOfDigits (ip ++ fp) * tbN / 10 ^ fp.length : Nat) : Int) ≤ 9223372036854775807 := by
    unfold int64Max at hfit
    omega
  refine ⟨{ d := ((natOfDigits (ip ++ fp) * tbN / 10 ^ fp.length : Nat) : Int) }, ?_, ?_⟩
  · unfold timeExpr
    rw [offsetTime_shape hip hne hfp hv hmm]
    simp only [ht, hf, ↓reduceIte, offsetDuration, htb, e, hV, Option.map_some]
  · rw [C03.duration_plain _ _ _ rfl rfl rfl rfl]
    exact within1_floor _ _ (Nat.pow_pos (by decide))


theorem lit_f : "f".toList = ['f'] := rfl
theorem lit_t : "t".toList = ['t'] := rfl

/-- offset in frames -/
theorem offset_frames_case {ip fp v : Str} (fr tr : Nat) (hip : DigitStr ip) (hne : ip ≠ [])
    (hfp : DigitStr fp) (hv : (v = ip ∧ fp = []) ∨ (v = ip ++ '.' :: fp ∧ fp ≠ []))
    (hmax : natOfDigits ip ≤ int64Max) (hfr : 0 < fr) :
    ∃ d, timeExpr (v ++ ['f']) = some d ∧
      Spec.TTML.within1 (duration d (fr : Int) (tr : Int))
        (natOfDigits (ip ++ fp) * 1000000000, 10 ^ fp.length * fr) = true := by
  rw [← lit_f]
  rcases hv with ⟨rfl, rfl⟩ | ⟨rfl, hfne⟩
  · refine of_instant (C03.offset_frames hip hne fr (tr : Int) hmax hfr) ?_
    simp only [List.append_nil, List.length_nil, Nat.pow_zero, Nat.one_mul]
    exact within1_floor _ _ hfr
  · refine of_instant (C03.offset_frames_frac hip hne hfp hfne fr (tr : Int) hmax hfr) ?_
    rw [C03.natOfDigits_concat]
    exact within1_floor _ _ (Nat.mul_pos (Nat.pow_pos (by decide)) hfr)

/-- offset in ticks -/
theorem offset_ticks_case {ip fp v : Str} (fr tr : Nat) (hip : DigitStr ip) (hne : ip ≠ [])
    (hfp : DigitStr fp) (hv : (v = ip ∧ fp = []) ∨ (v = ip ++ '.' :: fp ∧ fp ≠ []))
    (hmax : natOfDigits ip ≤ int64Max) (htr : 0 < tr) :
    ∃ d, timeExpr (v ++ ['t']) = some d ∧
      Spec.TTML.within1 (duration d (fr : Int) (tr : Int))
        (natOfDigits (ip ++ fp) * 1000000000, 10 ^ fp.length * tr) = true := by
  rw [← lit_t]
  rcases hv with ⟨rfl, rfl⟩ | ⟨rfl, hfne⟩
  · refine of_instant (C03.offset_ticks hip hne (fr : Int) tr hmax htr) ?_
    simp only [List.append_nil, List.length_nil, Nat.pow_zero, Nat.one_mul]
    exact within1_floor _ _ htr
  · refine of_instant (C03.offset_ticks_frac hip hne hfp hfne (fr : Int) tr hmax htr) ?_
    rw [C03.natOfDigits_concat]
    exact within1_floor _ _ (Nat.mul_pos (Nat.pow_pos (by decide)) htr)

theorem timeMetrics_mem :
    ['h'] ∈ C03.timeMetrics ∧ ['m'] ∈ C03.timeMetrics ∧ ['s'] ∈ C03.timeMetrics ∧ ['m', 's'] ∈ C03.timeMetrics := by
  rw [C03.timeMetrics_eq]; simp

theorem timebase_vals :
    timebase ['h'] = ((3600000000000 : Nat) : Int) ∧ timebase ['m'] = ((60000000000 : Nat) : Int) ∧
    timebase ['s'] = ((1000000000 : Nat) : Int) ∧ timebase ['m', 's'] = ((1000000 : Nat) : Int) := by decide

/-- **offset times**: `n[.n]` + `h|m|s|ms|f|t` -/
theorem denote_timeExpr_offset (s o : Str) (fr tr : Nat) (q : Nat × Nat)
    (hs : Spec.TTML.splitAt ':' s = [o]) (h : denOff o fr tr = some q) (hf : timeFits s = true) :
    ∃ d, TTML.timeExpr s = some d ∧ Spec.TTML.within1 (TTML.duration d (fr : Int) (tr : Int)) q = true := by
  rw [splitAt_eq] at hs
  obtain ⟨rfl, hcolon⟩ := splitC_single hs
  have hden : ∀ q', denOff s 0 0 = some q' → Spec.TTML.denote s 0 0 = some q' := by
    intro q' hq'
    rw [denote_eq, splitAt_eq, hs]; exact hq'
  obtain ⟨v, m, n, d, ho, hdec, hcases⟩ := denOff_inv h
  obtain ⟨ip, fp, hip, hne, hfp, hn, hd, hv⟩ := decimal_some hdec
  subst hn hd
  rcases hcases with ⟨rfl, rfl, h0⟩ | ⟨rfl, rfl, h0⟩ | ⟨rfl, rfl, h0⟩ | ⟨rfl, rfl, h0⟩ | ⟨rfl, hfr, rfl⟩ |
      ⟨rfl, htr, rfl⟩
  · have hfit := timeFits_time hcolon (by rw [ho]; simp) (by rw [ho]; simp) (hden _ h0) hf
    rw [ho]
    exact offset_time_case _ _ hip hne hfp hv timeMetrics_mem.1 timebase_vals.1 hfit
  · have hfit := timeFits_time hcolon (by rw [ho]; simp) (by rw [ho]; simp) (hden _ h0) hf
    rw [ho]
    exact offset_time_case _ _ hip hne hfp hv timeMetrics_mem.2.1 timebase_vals.2.1 hfit
  · have hfit := timeFits_time hcolon (by rw [ho]; simp) (by rw [ho]; simp) (hden _ h0) hf
    rw [ho]
    exact offset_time_case _ _ hip hne hfp hv timeMetrics_mem.2.2.1 timebase_vals.2.2.1 hfit
  · have hfit := timeFits_time hcolon (by rw [ho]; simp) (by rw [ho]; simp) (hden _ h0) hf
    rw [ho]
    exact offset_time_case _ _ hip hne hfp hv timeMetrics_mem.2.2.2 timebase_vals.2.2.2 hfit
  · have hmax := timeFits_count (Or.inr (Or.inl (by rw [ho]; simp))) hf
    rw [ho, takeWhile_shape hip hv (by decide)] at hmax
    rw [ho]
    exact offset_frames_case fr tr hip hne hfp hv hmax hfr
  · have hmax := timeFits_count (Or.inr (Or.inr (by rw [ho]; simp))) hf
    rw [ho, takeWhile_shape hip hv (by decide)] at hmax
    rw [ho]
    exact offset_ticks_case fr tr hip hne hfp hv hmax htr


/-! ## clock times: `parseDuration` on arbitrary digit fields -/

open Duration in
theorem hms_split' {h m s : Str} (hh : DigitStr h) (hm : DigitStr m) (hs : DigitStr s) :
    splitC ':' (h ++ ':' :: (m ++ ':' :: s)) = [h, m, s] := by
  rw [splitC_append _ (hh.not_mem (Or.inl rfl)), splitC_append _ (hm.not_mem (Or.inl rfl)),
    splitC_not_mem (hs.not_mem (Or.inl rfl))]

theorem hms_noSpace' {h m s : Str} (hh : DigitStr h) (hm : DigitStr m) (hs : DigitStr s) :
    ∀ c ∈ h ++ ':' :: (m ++ ':' :: s), isSpace c = false := by
  intro c hc
  simp only [List.mem_append, List.mem_cons] at hc
  rcases hc with hc | rfl | hc | rfl | hc
  · exact hh.noSpace c hc
  · decide
  · exact hm.noSpace c hc
  · decide
  · exact hs.noSpace c hc

theorem hms_noDot {h m s : Str} (hh : DigitStr h) (hm : DigitStr m) (hs : DigitStr s) :
    '.' ∉ h ++ ':' :: (m ++ ':' :: s) := by
  intro hc
  simp only [List.mem_append, List.mem_cons] at hc
  rcases hc with hc | hc | hc | hc | hc
  · exact hh.not_mem (Or.inr (Or.inl rfl)) hc
  · exact absurd hc (by decide)
  · exact hm.not_mem (Or.inr (Or.inl rfl)) hc
  · exact absurd hc (by decide)
  · exact hs.not_mem (Or.inr (Or.inl rfl)) hc

open Duration in
/-- `hh…:mm:ss`, any digit strings that fit -/
theorem parse_clock {h m s : Str} (hh : DigitStr h) (hhne : h ≠ []) (hhle : natOfDigits h ≤ 9223372036854775807)
    (hm : DigitStr m) (hmne : m ≠ []) (hmle : natOfDigits m ≤ 9223372036854775807)
    (hs : DigitStr s) (hsne : s ≠ []) (hsle : natOfDigits s ≤ 9223372036854775807) :
    parse (h ++ ':' :: (m ++ ':' :: s)) '.' 3
      = some ((natOfDigits s : Int) * nsPerS + (natOfDigits m : Int) * nsPerMin + (natOfDigits h : Int) * nsPerH) := by
  unfold parse
  rw [splitC_not_mem (hms_noDot hh hm hs)]
  have h12 : ¬ (1 ≥ 2) := by decide
  simp only [List.length_cons, List.length_nil, Nat.zero_add, h12, ↓reduceIte]
  rw [trimSpace_id (hms_noSpace' hh hm hs), hms_split' hh hm hs]
  simp only
  rw [trimSpace_id hs.noSpace, trimSpace_id hm.noSpace, trimSpace_id hh.noSpace,
    atoi_digits hs hsne hsle, atoi_digits hm hmne hmle, atoi_digits hh hhne hhle]
  have hl : h.length > 0 := List.length_pos_iff.mpr hhne
  simp [hl]

open Duration in
/-- `hh…:mm:ss.f…`, one to three fraction digits -/
theorem parse_clock_frac {h m s fp : Str} (hh : DigitStr h) (hhne : h ≠ [])
    (hhle : natOfDigits h ≤ 9223372036854775807)
    (hm : DigitStr m) (hmne : m ≠ []) (hmle : natOfDigits m ≤ 9223372036854775807)
    (hs : DigitStr s) (hsne : s ≠ []) (hsle : natOfDigits s ≤ 9223372036854775807)
    (hfp : DigitStr fp) (hne : fp ≠ []) (hl : fp.length ≤ 3) :
    parse (h ++ ':' :: (m ++ ':' :: s) ++ '.' :: fp) '.' 3
      = some ((natOfDigits fp : Int) * (10 : Int) ^ (3 - fp.length) * nsPerMs
          + (natOfDigits s : Int) * nsPerS + (natOfDigits m : Int) * nsPerMin + (natOfDigits h : Int) * nsPerH) := by
  have hsepF : '.' ∉ fp := hfp.not_mem (Or.inr (Or.inl rfl))
  have hlt : natOfDigits fp < 1000 :=
    Nat.lt_of_lt_of_le (natOfDigits_lt hfp) (by
      calc 10 ^ fp.length ≤ 10 ^ 3 := Nat.pow_le_pow_right (by decide) hl
        _ = 1000 := rfl)
  unfold parse
  rw [splitC_append _ (hms_noDot hh hm hs), splitC_not_mem hsepF]
  simp only [List.length_cons, List.length_nil, ge_iff_le, Nat.le_refl, ↓reduceIte, List.getLast?_cons_cons,
    List.getLast?_singleton, Option.getD_some, List.dropLast_cons_cons, List.dropLast_singleton, join]
  rw [trimSpace_id hfp.noSpace, atoi_digits hfp hne (by omega)]
  have h3 : ¬ (fp.length > 3) := by omega
  simp only [h3, ↓reduceIte]
  rw [trimSpace_id (hms_noSpace' hh hm hs), hms_split' hh hm hs]
  simp only
  rw [trimSpace_id hs.noSpace, trimSpace_id hm.noSpace, trimSpace_id hh.noSpace,
    atoi_digits hs hsne hsle, atoi_digits hm hmne hmle, atoi_digits hh hhne hhle]
  have hl : h.length > 0 := List.length_pos_iff.mpr hhne
  simp [hl]


/-! ## clock times: the decoder's side -/

theorem secParts_cases (sec : Str) :
    (secParts sec = (sec, none)) ∨ (∃ a f, sec = a ++ '.' :: f ∧ secParts sec = (a, some f)) ∨
      secParts sec = ([], none) := by
  unfold secParts
  rw [splitAt_eq]
  split
  · rename_i a hsp
    obtain ⟨e, _⟩ := splitC_single hsp
    exact Or.inl (by rw [e])
  · rename_i a f hsp
    obtain ⟨s', e1, _, e3⟩ := splitC_cons2 hsp
    obtain ⟨e4, _⟩ := splitC_single e3
    subst e4
    exact Or.inr (Or.inl ⟨a, s', e1, rfl⟩)
  · exact Or.inr (Or.inr rfl)

theorem denClock_inv {h m sec : Str} {q : Nat × Nat} (hq : denClock h m sec = some q) :
    ∃ sw fo, secParts sec = (sw, fo) ∧ DigitStr h ∧ 2 ≤ h.length ∧ DigitStr m ∧ m.length = 2 ∧
      DigitStr sw ∧ sw.length = 2 ∧
      ((fo = none ∧ q = ((natOfDigits h * 3600 + natOfDigits m * 60 + natOfDigits sw) * 1000000000, 1)) ∨
       (∃ f, fo = some f ∧ DigitStr f ∧ 1 ≤ f.length ∧ f.length ≤ 3 ∧
          q = ((natOfDigits h * 3600 + natOfDigits m * 60 + natOfDigits sw) * 1000000000
                + natOfDigits f * 10 ^ (9 - f.length), 1))) := by
  unfold denClock at hq
  cases hp : secParts sec with
  | mk sw fo =>
    rw [hp] at hq
    simp only at hq
    split at hq
    · rename_i hh mm ss e1 e2 e3
      obtain ⟨_, d1, v1⟩ := num_some e1
      obtain ⟨_, d2, v2⟩ := num_some e2
      obtain ⟨_, d3, v3⟩ := num_some e3
      subst v1 v2 v3
      split at hq
      · simp at hq
      · rename_i hc
        simp only [Bool.or_eq_true, decide_eq_true_eq, not_or, Nat.not_lt, ne_eq, Decidable.not_not,
          ge_iff_le, Nat.not_le] at hc
        obtain ⟨⟨⟨⟨c1, c2⟩, c3⟩, _⟩, _⟩ := hc
        refine ⟨sw, fo, rfl, d1, c1, d2, c2, d3, c3, ?_⟩
        split at hq
        · simp at hq
          exact Or.inl ⟨rfl, hq.symm⟩
        · rename_i f
          split at hq
          · simp at hq
          · rename_i hc'
            simp only [Bool.or_eq_true, decide_eq_true_eq, not_or, gt_iff_lt, Nat.not_lt] at hc'
            obtain ⟨fv, e4, e5⟩ := Option.map_eq_some_iff.mp hq
            obtain ⟨_, d4, v4⟩ := num_some e4
            subst v4
            exact Or.inr ⟨f, rfl, d4, by omega, hc'.2, e5.symm⟩
    · simp at hq


/-! ## clock times: the two sides together -/

theorem within1_exact (W : Nat) (X : Int) (h : X = (W : Int)) : Spec.TTML.within1 X (W, 1) = true := by
  have := within1_floor W 1 (by decide)
  rw [Nat.div_one] at this
  rw [h]; exact this

theorem len2_lt {s : Str} (hs : DigitStr s) (hl : s.length = 2) : natOfDigits s < 100 := by
  have := natOfDigits_lt hs
  rw [hl] at this
  exact this

theorem ne_nil_of_len {s : Str} {k : Nat} (hl : k ≤ s.length) (hk : 0 < k) : s ≠ [] := by
  intro e; subst e; simp at hl; omega

/-- three fields split at `:` -/
theorem split3_shape {s h m sec : Str} (hs : splitC ':' s = [h, m, sec]) : s = h ++ ':' :: (m ++ ':' :: sec) := by
  obtain ⟨s1, e1, _, r1⟩ := splitC_cons2 hs
  obtain ⟨s2, e2, _, r2⟩ := splitC_cons2 r1
  obtain ⟨e3, _⟩ := splitC_single r2
  rw [e1, e2, e3]

theorem split4_shape {s h m sec ff : Str} (hs : splitC ':' s = [h, m, sec, ff]) :
    s = h ++ ':' :: (m ++ ':' :: sec) ++ ':' :: ff := by
  obtain ⟨s1, e1, _, r1⟩ := splitC_cons2 hs
  obtain ⟨s2, e2, _, r2⟩ := splitC_cons2 r1
  obtain ⟨s3, e3, _, r3⟩ := splitC_cons2 r2
  obtain ⟨e4, _⟩ := splitC_single r3
  rw [e1, e2, e3, e4]
  simp

theorem hms_count {h m s : Str} (hh : DigitStr h) (hm : DigitStr m) (hs : DigitStr s) (tail : Str) :
    countColons (h ++ ':' :: (m ++ ':' :: s) ++ tail) = 2 + countColons tail := by
  simp only [countColons_append, countColons_colon, countColons_digits hh, countColons_digits hm,
    countColons_digits hs]

theorem hms_offset {h : Str} (hh : DigitStr h) (r tail : Str) : offsetTime (h ++ ':' :: r ++ tail) = none := by
  rw [show h ++ ':' :: r ++ tail = h ++ ':' :: (r ++ tail) by simp]
  exact offsetTime_colon hh _

theorem hms_take {h : Str} (hh : DigitStr h) (r tail : Str) : (h ++ ':' :: r ++ tail).takeWhile isDigit = h := by
  rw [show h ++ ':' :: r ++ tail = h ++ ':' :: (r ++ tail) by simp]
  exact takeWhile_stop _ hh.isDigit (by decide)

theorem hms_fits {h : Str} (hh : DigitStr h) (r tail : Str) (hf : timeFits (h ++ ':' :: r ++ tail) = true) :
    natOfDigits h ≤ 9223372036854775807 := by
  have := timeFits_count (Or.inl (by simp)) hf
  rw [hms_take hh] at this
  exact this

open Duration in
/-- **clock times** `hh:mm:ss` and `hh:mm:ss.f…` -/
theorem denote_timeExpr_clock (s h m sec : Str) (fr tr : Nat) (q : Nat × Nat)
    (hs : Spec.TTML.splitAt ':' s = [h, m, sec]) (hq : denClock h m sec = some q) (hf : timeFits s = true) :
    ∃ d, TTML.timeExpr s = some d ∧ Spec.TTML.within1 (TTML.duration d (fr : Int) (tr : Int)) q = true := by
  rw [splitAt_eq] at hs
  have hshape := split3_shape hs
  obtain ⟨sw, fo, hp, dh, lh, dm, lm, ds, ls, hcases⟩ := denClock_inv hq
  have hmne : m ≠ [] := ne_nil_of_len (k := 2) (by omega) (by decide)
  have hsne : sw ≠ [] := ne_nil_of_len (k := 2) (by omega) (by decide)
  have hhne : h ≠ [] := ne_nil_of_len lh (by decide)
  have hmlt := len2_lt dm lm
  have hslt := len2_lt ds ls
  rcases hcases with ⟨rfl, rfl⟩ | ⟨f, rfl, df, lf1, lf3, rfl⟩
  · -- no fraction
    have hsec : sec = sw := by
      rcases secParts_cases sec with e | ⟨a, f, _, e⟩ | e
      · rw [e] at hp; simp at hp; exact hp
      · rw [e] at hp; simp at hp
      · rw [e] at hp; simp at hp; exact absurd hp hsne
    subst hsec
    subst hshape
    have hfit := hms_fits dh (m ++ ':' :: sec) [] (by rw [List.append_nil]; exact hf)
    have hoff := hms_offset dh (m ++ ':' :: sec) []
    have hcc := hms_count dh dm ds []
    rw [List.append_nil] at hoff hcc
    refine ⟨{ d := (natOfDigits sec : Int) * nsPerS + (natOfDigits m : Int) * nsPerMin
                    + (natOfDigits h : Int) * nsPerH }, ?_, ?_⟩
    · rw [C03.timeExpr_clock hoff (by rw [hcc]; decide),
        parse_clock dh hhne hfit dm hmne (by omega) ds hsne (by omega)]
      rfl
    · rw [C03.duration_plain _ _ _ rfl rfl rfl rfl]
      apply within1_exact
      simp only [nsPerS, nsPerMin, nsPerH]
      omega
  · -- fraction
    have hsec : sec = sw ++ '.' :: f := by
      rcases secParts_cases sec with e | ⟨a, f', e0, e⟩ | e
      · rw [e] at hp; simp at hp
      · rw [e] at hp; simp at hp; rw [e0, hp.1, hp.2]
      · rw [e] at hp; simp at hp
    have hfne : f ≠ [] := ne_nil_of_len lf1 (by decide)
    have hshape' : s = h ++ ':' :: (m ++ ':' :: sw) ++ '.' :: f := by rw [hshape, hsec]; simp
    subst hshape'
    have hfit := hms_fits dh (m ++ ':' :: sw) ('.' :: f) hf
    have hoff := hms_offset dh (m ++ ':' :: sw) ('.' :: f)
    have hcc := hms_count dh dm ds ('.' :: f)
    rw [C03.countColons_dot df] at hcc
    refine ⟨{ d := (natOfDigits f : Int) * (10 : Int) ^ (3 - f.length) * nsPerMs + (natOfDigits sw : Int) * nsPerS
                    + (natOfDigits m : Int) * nsPerMin + (natOfDigits h : Int) * nsPerH }, ?_, ?_⟩
    · rw [C03.timeExpr_clock hoff (by rw [hcc]; decide),
        parse_clock_frac dh hhne hfit dm hmne (by omega) ds hsne (by omega) df hfne lf3]
      rfl
    · rw [C03.duration_plain _ _ _ rfl rfl rfl rfl]
      apply within1_exact
      simp only [nsPerMs, nsPerS, nsPerMin, nsPerH]
      have hl : f.length = 1 ∨ f.length = 2 ∨ f.length = 3 := by omega
      rcases hl with e | e | e <;> rw [e] <;> simp <;> omega


/-! ## clock times with frames -/

theorem denFrames_inv {h m sec ff : Str} {fr : Nat} {q : Nat × Nat} (hq : denFrames h m sec ff fr = some q) :
    DigitStr h ∧ 2 ≤ h.length ∧ DigitStr m ∧ m.length = 2 ∧ DigitStr sec ∧ sec.length = 2 ∧
      DigitStr ff ∧ ff ≠ [] ∧ 0 < fr ∧ natOfDigits ff < fr ∧
      q = ((natOfDigits h * 3600 + natOfDigits m * 60 + natOfDigits sec) * 1000000000 * fr
            + natOfDigits ff * 1000000000, fr) := by
  unfold denFrames at hq
  split at hq
  · rename_i hh mm ss f e1 e2 e3 e4
    obtain ⟨_, d1, v1⟩ := num_some e1
    obtain ⟨_, d2, v2⟩ := num_some e2
    obtain ⟨_, d3, v3⟩ := num_some e3
    obtain ⟨n4, d4, v4⟩ := num_some e4
    subst v1 v2 v3 v4
    split at hq
    · simp at hq
    · rename_i hc
      simp only [Bool.or_eq_true, decide_eq_true_eq, not_or, Nat.not_lt, ne_eq, Decidable.not_not,
        ge_iff_le, Nat.not_le] at hc
      obtain ⟨⟨⟨⟨⟨⟨c1, c2⟩, c3⟩, _⟩, _⟩, c6⟩, c7⟩ := hc
      simp at hq
      exact ⟨d1, c1, d2, c2, d3, c3, d4, n4, Nat.pos_of_ne_zero c6, c7, hq.symm⟩
  · simp at hq

theorem digitStr_000 : DigitStr ['0', '0', '0'] := by
  intro c hc
  simp at hc
  subst hc
  exact ⟨0, by decide, rfl⟩

open Duration in
/-- **clock time with frames** `hh:mm:ss:ff` -/
theorem denote_timeExpr_frames (s h m sec ff : Str) (fr tr : Nat) (q : Nat × Nat)
    (hs : Spec.TTML.splitAt ':' s = [h, m, sec, ff]) (hq : denFrames h m sec ff fr = some q)
    (hf : timeFits s = true) (hfr : fr ≤ int64Max) :
    ∃ d, TTML.timeExpr s = some d ∧ Spec.TTML.within1 (TTML.duration d (fr : Int) (tr : Int)) q = true := by
  rw [splitAt_eq] at hs
  have hshape := split4_shape hs
  subst hshape
  obtain ⟨dh, lh, dm, lm, ds, ls, df, hfne, hfr0, hflt, rfl⟩ := denFrames_inv hq
  have hmne : m ≠ [] := ne_nil_of_len (k := 2) (by omega) (by decide)
  have hsne : sec ≠ [] := ne_nil_of_len (k := 2) (by omega) (by decide)
  have hhne : h ≠ [] := ne_nil_of_len lh (by decide)
  have hmlt := len2_lt dm lm
  have hslt := len2_lt ds ls
  have hfit := hms_fits dh (m ++ ':' :: sec) (':' :: ff) hf
  have hoff := hms_offset dh (m ++ ':' :: sec) (':' :: ff)
  have hcc := hms_count dh dm ds (':' :: ff)
  rw [countColons_colon, countColons_digits df] at hcc
  have hfmax : natOfDigits ff ≤ 9223372036854775807 := by unfold int64Max at hfr; omega
  have hz : ".000".toList = '.' :: ['0', '0', '0'] := by decide
  have hp := parse_clock_frac dh hhne hfit dm hmne (by omega) ds hsne (by omega) digitStr_000 (by simp)
    (by simp)
  have hz0 : natOfDigits ['0', '0', '0'] = 0 := by decide
  rw [hz0] at hp
  let D : Int := (natOfDigits sec : Int) * nsPerS + (natOfDigits m : Int) * nsPerMin + (natOfDigits h : Int) * nsPerH
  refine ⟨{ d := D, frames := (natOfDigits ff : Int) }, ?_, ?_⟩
  · unfold timeExpr
    rw [hoff]
    simp only [hcc, ↓reduceIte]
    rw [clockFrames_digits _ df hfne]
    simp only [atoi_digits df hfne hfmax, hz, hp, Option.map_some]
    simp [D]
  · have hdur : duration { d := D, frames := (natOfDigits ff : Int) } (fr : Int) (tr : Int)
        = D + ((natOfDigits ff * 1000000000 / fr : Nat) : Int) := by
      by_cases h0 : natOfDigits ff = 0
      · rw [h0]
        simp [duration]
      · rw [C03.duration_frames _ _ _ rfl rfl ⟨Or.inl (by simp only; omega), by omega⟩]
        simp only [C03.units_floor_nil _ _ hfr0]
    rw [hdur]
    have hdiv : ((natOfDigits h * 3600 + natOfDigits m * 60 + natOfDigits sec) * 1000000000 * fr
          + natOfDigits ff * 1000000000) / fr
        = (natOfDigits h * 3600 + natOfDigits m * 60 + natOfDigits sec) * 1000000000
          + natOfDigits ff * 1000000000 / fr := by
      rw [Nat.add_comm, Nat.add_mul_div_right _ _ hfr0, Nat.add_comm]
    have hw := within1_floor ((natOfDigits h * 3600 + natOfDigits m * 60 + natOfDigits sec) * 1000000000 * fr
          + natOfDigits ff * 1000000000) fr hfr0
    rw [hdiv] at hw
    have e : D + ((natOfDigits ff * 1000000000 / fr : Nat) : Int)
        = (((natOfDigits h * 3600 + natOfDigits m * 60 + natOfDigits sec) * 1000000000
          + natOfDigits ff * 1000000000 / fr : Nat) : Int) := by
      simp only [D, nsPerS, nsPerMin, nsPerH]
      omega
    rw [e]; exact hw


/-! ## the targets -/

/-- **Time expressions.** Whatever string the independent decoder accepts as a time expression (every syntactic
    form, every frame and tick rate), the reader model parses it (`UnmarshalText`) and resolves it (`duration()`) to
    the instant the decoder says, within 1 ns — provided its numbers fit 64 bits (`timeFits`; `timeFits_needed`). -/
theorem denote_timeExpr (s : Str) (fr tr : Nat) (q : Nat × Nat)
    (h : Spec.TTML.denote s fr tr = some q) (hf : timeFits s = true) (hfr : fr ≤ int64Max) :
    ∃ d, TTML.timeExpr s = some d ∧ Spec.TTML.within1 (TTML.duration d (fr : Int) (tr : Int)) q = true := by
  rw [denote_eq] at h
  match hl : Spec.TTML.splitAt ':' s with
  | [] => rw [hl] at h; simp [denL] at h
  | [o] =>
    rw [hl] at h
    exact denote_timeExpr_offset s o fr tr q hl h hf
  | [_, _] => rw [hl] at h; simp [denL] at h
  | [a, b, c] =>
    rw [hl] at h
    exact denote_timeExpr_clock s a b c fr tr q hl h hf
  | [a, b, c, d] =>
    rw [hl] at h
    exact denote_timeExpr_frames s a b c d fr tr q hl h hf hfr
  | _ :: _ :: _ :: _ :: _ :: _ => rw [hl] at h; simp [denL] at h

theorem denote_parseTimes (s : Str) (fr tr : Nat) (q : Nat × Nat)
    (h : Spec.TTML.denote s fr tr = some q) (hf : timeFits s = true) (hfr : fr ≤ int64Max) :
    ∃ d, TTML.parseTimes [s] = some (some d) ∧
      Spec.TTML.within1 (TTML.duration d (fr : Int) (tr : Int)) q = true := by
  obtain ⟨d, hd, hw⟩ := denote_timeExpr s fr tr q h hf hfr
  exact ⟨d, by simp [parseTimes, hd], hw⟩

/-! ## non-vacuity and necessity -/

example : timeFits "00:00:01:05".toList = true := by decide
example : timeFits "01:02:03.5".toList = true := by decide
example : timeFits "12:00:00".toList = true := by decide
example : timeFits "2.5s".toList = true := by decide
example : timeFits "10t".toList = true := by decide
example : timeFits "3.25f".toList = true := by decide
example : timeFits "150ms".toList = true := by decide
example : timeFits "1.5h".toList = true := by decide
example : timeFits "90m".toList = true := by decide

example : Spec.TTML.denote "00:00:01:05".toList 25 0 = some (30000000000, 25) := by decide
example : Spec.TTML.denote "01:02:03.5".toList 0 0 = some (3723500000000, 1) := by decide
example : Spec.TTML.denote "12:00:00".toList 0 0 = some (43200000000000, 1) := by decide
example : Spec.TTML.denote "2.5s".toList 0 0 = some (25000000000, 10) := by decide
example : Spec.TTML.denote "10t".toList 0 90000 = some (10000000000, 90000) := by decide
example : Spec.TTML.denote "3.25f".toList 30 0 = some (325000000000, 3000) := by decide
example : Spec.TTML.denote "150ms".toList 0 0 = some (150000000, 1) := by decide

/-- `timeFits` cannot be dropped: strings the decoder accepts and `UnmarshalText` rejects (a number that does not
    fit 64 bits) -/
theorem timeFits_needed :
    ((Spec.TTML.denote "99999999999999999999h".toList 0 0).isSome = true ∧
      TTML.timeExpr "99999999999999999999h".toList = none) ∧
    ((Spec.TTML.denote "99999999999999999999:00:00".toList 0 0).isSome = true ∧
      TTML.timeExpr "99999999999999999999:00:00".toList = none) ∧
    ((Spec.TTML.denote "99999999999999999999f".toList 25 0).isSome = true ∧
      TTML.timeExpr "99999999999999999999f".toList = none) := by
  refine ⟨⟨?_, ?_⟩, ⟨?_, ?_⟩, ⟨?_, ?_⟩⟩ <;> decide +kernel

/-- … and these are exactly what `timeFits` excludes -/
example : timeFits "99999999999999999999h".toList = false ∧ timeFits "99999999999999999999:00:00".toList = false ∧
    timeFits "99999999999999999999f".toList = false := by
  refine ⟨?_, ?_, ?_⟩ <;> decide +kernel

end TTMLR
end Astisub
