import Astisub.Lemmas.SSARead2Doc
import Astisub.Lemmas.SSA2Fix

/-!
# Lemmas/SSARead2View — the view of the reader's answer: script info
-/

namespace Astisub
namespace SSAR
open Go SSA
open Spec.SSA (infoTable intOf floatOf infoOf classify)

theorem infoTable_eq : infoTable = SI.all.map (fun f => (f.header, f.key, gk f.kind)) := by rfl

/-- the decoder's entry of one script-info table row -/
def specInfoEntry (kvs : List (String × Str)) : String × String × Spec.SSA.GKind → Option (Option (String × Spec.SSA.GVal)) :=
  fun (h, _, kind) =>
    match (kvs.reverse.lookup h) with
    | none => some none
    | some v =>
      if kind = .str then some (if v.isEmpty then none else some (h, Spec.SSA.GVal.s v))
      else if kind = .int then (intOf v).map fun i => some (h, Spec.SSA.GVal.i i)
      else (floatOf (v.map fun c => if c = ',' then '.' else c)).map fun b => some (h, Spec.SSA.GVal.f b)

/-- every occurrence of a numeric key is well-formed (the guard of `Spec.SSA.infoOf`) -/
def infoAllOk (kvs : List (String × Str)) : Bool :=
  kvs.all fun (k, v) =>
    match infoTable.find? (fun (h, _, _) => h = k) with
    | none => true
    | some (_, _, kind) =>
      if kind = .str then true
      else if kind = .int then (intOf v).isSome
      else (floatOf (v.map fun c => if c = ',' then '.' else c)).isSome

theorem infoOf_eq (ls : List Str) :
    infoOf ls = if !infoAllOk (kvsOf ls) then none else
      (Spec.SSA.mapM id (infoTable.map (specInfoEntry (kvsOf ls)))).map fun l => l.filterMap id := rfl

theorem infoOf_some {ls : List Str} {gi : List (String × Spec.SSA.GVal)} (h : infoOf ls = some gi) :
    (Spec.SSA.mapM id (infoTable.map (specInfoEntry (kvsOf ls)))).map (fun l => l.filterMap id) = some gi := by
  rw [infoOf_eq] at h
  split at h
  · cases h
  · exact h

theorem specInfoEntry_int (kvs : List (String × Str)) (h k : String) :
    specInfoEntry kvs (h, k, .int) = match kvs.reverse.lookup h with
      | none => some none
      | some v => (intOf v).map fun i => some (h, Spec.SSA.GVal.i i) := by
  unfold specInfoEntry
  simp only
  cases kvs.reverse.lookup h <;> simp

theorem specInfoEntry_float (kvs : List (String × Str)) (h k : String) :
    specInfoEntry kvs (h, k, .float) = match kvs.reverse.lookup h with
      | none => some none
      | some v => (floatOf (commaToDot v)).map fun b => some (h, Spec.SSA.GVal.f b) := by
  unfold specInfoEntry
  simp only
  cases kvs.reverse.lookup h <;> simp [commaToDot]

theorem specInfoEntry_str (kvs : List (String × Str)) (h k : String) :
    specInfoEntry kvs (h, k, .str) = match kvs.reverse.lookup h with
      | none => some none
      | some v => some (if v.isEmpty then none else some (h, Spec.SSA.GVal.s v)) := by
  unfold specInfoEntry
  simp only
  cases kvs.reverse.lookup h <;> simp

theorem viewEntry_meta (b : Info) (f : SI) (kind : Spec.SSA.GKind) :
    viewEntry b.metadata (f.header, f.key, kind) =
      match (b.vals.get f).map Val.canon with
      | none => some none
      | some s => (Spec.SSA.canonVal kind s).map fun v => some (f.header, v) := by
  unfold viewEntry
  simp only
  rw [spec_kvGet_eq, kvGet_metadata_key]
  cases Option.map Val.canon (b.vals.get f) <;> rfl

theorem info_entry (b : Info) (kvs : List (String × Str)) (hrel : InfoRel b.vals kvs) (f : SI)
    (x : Option (String × Spec.SSA.GVal)) (h : specInfoEntry kvs (f.header, f.key, gk f.kind) = some x) :
    viewEntry b.metadata (f.header, f.key, gk f.kind) = some x := by
  rw [viewEntry_meta, hrel f]
  unfold tv
  cases hk : f.kind with
  | int =>
    rw [hk] at h
    have e : gk Kind.int = .int := rfl
    rw [e, specInfoEntry_int] at h
    rw [e]
    cases hl : kvs.reverse.lookup f.header with
    | none => rw [hl] at h; simpa using h
    | some v =>
      rw [hl] at h
      simp only [Option.bind_some] at h ⊢
      cases hi : intOf v with
      | none => simp [hi] at h
      | some i =>
        simp only [hi, Option.map_some, Option.some.injEq] at h
        subst h
        simp [Val.canon, Spec.SSA.canonVal, spec_intOf_itoa]
  | float =>
    rw [hk] at h
    have e : gk Kind.float = .float := rfl
    rw [e, specInfoEntry_float] at h
    rw [e]
    cases hl : kvs.reverse.lookup f.header with
    | none => rw [hl] at h; simpa using h
    | some v =>
      rw [hl] at h
      simp only [Option.bind_some] at h ⊢
      cases hi : floatOf (commaToDot v) with
      | none => simp [hi] at h
      | some bits =>
        simp only [hi, Option.map_some, Option.some.injEq] at h
        subst h
        simp [Val.canon, Spec.SSA.canonVal, spec_natOf_itoaNat]
  | str =>
    rw [hk] at h
    have e : gk Kind.str = .str := rfl
    rw [e, specInfoEntry_str] at h
    rw [e]
    cases hl : kvs.reverse.lookup f.header with
    | none => rw [hl] at h; simpa using h
    | some v =>
      rw [hl] at h
      simp only [Option.bind_some, Option.some.injEq] at h ⊢
      subst h
      by_cases he : v.isEmpty = true
      · simp [he]
      · simp [he, Val.canon, Spec.SSA.canonVal]
  | bool => cases f <;> simp [SI.kind] at hk
  | colour => cases f <;> simp [SI.kind] at hk

/-- **Script info, viewed.** If the reader's values are "last line wins, typed" for the lines `ls` and the decoder reads
    the script info of `ls` as `gi`, the view of the reader's metadata is `gi` -/
theorem info_view (b : Info) (ls : List Str) (gi : List (String × Spec.SSA.GVal)) (hrel : InfoRel b.vals (kvsOf ls))
    (hi : infoOf ls = some gi) : Spec.SSA.attrsView infoTable b.metadata = some gi := by
  have hi := infoOf_some hi
  rw [attrsView_eq]
  cases hm : Spec.SSA.mapM id (infoTable.map (specInfoEntry (kvsOf ls))) with
  | none => simp [hm] at hi
  | some a =>
    rw [hm] at hi
    have hmm := (mapM_id_eq_some _ _).mp hm
    have : infoTable.map (viewEntry b.metadata) = infoTable.map (specInfoEntry (kvsOf ls)) := by
      rw [hmm]
      rw [infoTable_eq, List.map_map] at hmm ⊢
      -- entrywise
      have hlen : ∀ (l : List SI) (a : List (Option (String × Spec.SSA.GVal))),
          l.map (specInfoEntry (kvsOf ls) ∘ fun f => (f.header, f.key, gk f.kind)) = a.map some →
          l.map (viewEntry b.metadata ∘ fun f => (f.header, f.key, gk f.kind)) = a.map some := by
        intro l
        induction l with
        | nil => intro a h; cases a <;> simp_all
        | cons f fs ih =>
          intro a h
          cases a with
          | nil => simp at h
          | cons x xs =>
            simp only [List.map_cons, List.cons.injEq, Function.comp] at h ⊢
            exact ⟨info_entry b _ hrel f x h.1, ih xs h.2⟩
      exact hlen _ _ hmm
    rw [this, hm]
    exact hi


theorem find_lookup {β γ} (tbl : List (String × β × γ)) (k : String) :
    (tbl.find? (fun (h, _, _) => h = k)).map (fun e => e.2) = tbl.lookup k := by
  induction tbl with
  | nil => rfl
  | cons e rest ih =>
    obtain ⟨h, b, c⟩ := e
    rw [List.find?_cons, List.lookup_cons]
    by_cases hk : h = k
    · subst hk; simp
    · have : (k == h) = false := by simp; exact fun e => hk e.symm
      simp only [hk, decide_false, this]
      exact ih

/-- the decoder's guard: in an accepted document every script-info line has the syntax its key asks for -/
theorem lineSyn_of_infoOf {ls : List Str} {gi : List (String × Spec.SSA.GVal)} (h : infoOf ls = some gi) :
    ∀ l ∈ ls, lineSyn l = true := by
  rw [infoOf_eq] at h
  have hall : infoAllOk (kvsOf ls) = true := by
    cases ha : infoAllOk (kvsOf ls) with
    | true => rfl
    | false => simp [ha] at h
  intro l hl
  unfold lineSyn
  cases hc : classify l with
  | comment c => rfl
  | junk => rfl
  | kv k v =>
    simp only
    have hm : (String.ofList k, v) ∈ kvsOf ls := by
      unfold kvsOf
      rw [List.mem_filterMap]
      exact ⟨l, hl, by rw [hc]⟩
    unfold infoAllOk at hall
    have hp := List.all_eq_true.mp hall _ hm
    simp only at hp
    unfold kvSyn
    rw [← find_lookup]
    cases hf : infoTable.find? (fun (h, _, _) => h = String.ofList k) with
    | none => rfl
    | some e =>
      obtain ⟨h0, key, kind⟩ := e
      rw [hf] at hp
      simp only [Option.map_some] at hp ⊢
      cases kind with
      | int => simpa using hp
      | float => simpa [commaToDot] using hp
      | str => rfl
      | bool => rfl
      | colour => rfl

end SSAR
end Astisub
