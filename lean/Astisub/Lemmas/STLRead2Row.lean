import Astisub.Lemmas.STL2View

/-!
# Lemmas/STLRead2Row — open-subtitling rows: the reader model and the independent decoder on ARBITRARY row bytes

`Lemmas/STL2Tok.lean` shows that both row parsers are the abstract row machine (`absStep`) on the token sequences
the *writer* emits.  Here the same is shown for every byte sequence the independent decoder accepts
(`Spec.STL.openRow … = some res`): by induction along the decoder's own recursion, the model's loop
(`STL.openFold`) stays in a state `mst a` (no diacritic pending at a token boundary) whose abstract state `a` is
the decoder's (style, pending text, closed runs).  Covered: every table byte, floating diacritic + letter pairs,
the six style codes, the filler 0x8F; everything else is outside the decoder's class.
-/

namespace Astisub
namespace C05
open Go STL

/-! ## table facts -/

theorem tab_eq_tableGet (k : Nat) : Spec.STL.tab k = tableGet k := rfl

theorem tableGet_C0 : tableGet 0xC0 = none := by decide +kernel

theorem letters_in_table : ∀ k, k < 0x7B → Spec.STL.isLetter k = true → (tableGet k).isSome = true := by
  decide +kernel

theorem isLetter_lt (k : Nat) (h : Spec.STL.isLetter k = true) : 0x41 ≤ k ∧ k < 0x7B := by
  unfold Spec.STL.isLetter at h
  simp only [Bool.or_eq_true, Bool.and_eq_true, decide_eq_true_eq] at h
  omega

theorem isDia_range (v : Nat) (h : Spec.STL.isDia v = true) : 0xC1 ≤ v ∧ v ≤ 0xCF ∧ (tableGet v).isSome = true := by
  unfold Spec.STL.isDia at h
  simp only [Bool.and_eq_true, decide_eq_true_eq] at h
  exact ⟨h.1.1, h.1.2, h.2⟩

/-- a table byte that is not one of the decoder's diacritics is not an accent byte of the model either
    (0xC0 is not in the table) -/
theorem not_accent_of_not_dia (v : Nat) (cps : List Nat) (ht : tableGet v = some cps) (hd : Spec.STL.isDia v = false) :
    isAccentByte v = false := by
  unfold Spec.STL.isDia at hd
  rw [tab_eq_tableGet, ht] at hd
  simp only [Option.isSome_some, Bool.and_true, Bool.and_eq_false_iff, decide_eq_false_iff_not] at hd
  unfold isAccentByte
  by_cases h0 : v = 0xC0
  · subst h0; rw [tableGet_C0] at ht; cases ht
  · simp only [Bool.and_eq_false_iff, decide_eq_false_iff_not]
    omega

/-! ## one step of the model for each kind of byte -/

theorem openFold_cons (st : RowSt) (v : Nat) (vs : Bytes) :
    openFold st (v :: vs) = (match openStep st v with | some st' => openFold st' vs | none => none) := rfl

/-- a character cell -/
theorem open_char (a : AS) (v : Nat) (cps : List Nat) (ht : tableGet v = some cps) (hlo : ¬ v < 0x20)
    (hnc : ¬ isCode v) (hd : Spec.STL.isDia v = false) :
    openStep (mst a) v = some (mst { a with t := a.t ++ str cps }) := by
  rw [openStep_text _ _ ⟨by omega, hnc⟩]
  have e : (mst a).acc = none := rfl
  have hdec : decode none v = (cps, none) := by
    unfold decode
    rw [ht]
    simp only [not_accent_of_not_dia v cps ht hd, Bool.false_eq_true, if_false]
  rw [e, hdec]
  rfl

/-- a floating diacritic followed by a letter -/
theorem open_dia (a : AS) (v k : Nat) (hd : Spec.STL.isDia v = true) (hl : Spec.STL.isLetter k = true) (rest : Bytes) :
    openFold (mst a) (v :: k :: rest) = openFold (mst { a with t := a.t ++ str (nfcPair k v) }) rest := by
  obtain ⟨d1, d2, d3⟩ := isDia_range v hd
  obtain ⟨l1, l2⟩ := isLetter_lt k hl
  obtain ⟨cv, hcv⟩ := Option.isSome_iff_exists.mp d3
  obtain ⟨ck, hck⟩ := Option.isSome_iff_exists.mp (letters_in_table k l2 hl)
  have hacc : isAccentByte v = true := by unfold isAccentByte; simp; omega
  have s1 : openStep (mst a) v = some { mst a with acc := some v } := by
    rw [openStep_text _ _ ⟨by omega, by omega⟩]
    have e : (mst a).acc = none := rfl
    have hdec : decode none v = ([], some v) := by
      unfold decode; rw [hcv]; simp only [hacc, if_true]
    rw [e, hdec]
    simp [mst, str]
  have s2 : openStep { mst a with acc := some v } k = some (mst { a with t := a.t ++ str (nfcPair k v) }) := by
    rw [openStep_text _ _ ⟨by omega, by omega⟩]
    have hdec : decode (some v) k = (nfcPair k v, none) := by
      unfold decode; rw [hck]
    simp only [hdec]
    rfl
  rw [openFold_cons, s1]
  simp only
  rw [openFold_cons, s2]

/-! ## the simulation -/

/-- **Open-subtitling row, any bytes.**  Whenever the independent decoder, started in the abstract state `a`
    (style, pending text, runs closed so far), accepts the rest of a row and denotes `res`, the model's loop started
    in the corresponding state `mst a` (no diacritic pending) ends in a state `mst a'` (again no diacritic pending)
    and `res` are the runs of `a'`. -/
theorem open_sim : ∀ (n : Nat) (row : Bytes), row.length ≤ n → ∀ (a : AS) (res : List Spec.STL.Run),
    Spec.STL.openRow row (ssty a.s) a.t (a.out.map runOf) = some res →
    ∃ a' : AS, openFold (mst a) row = some (mst a') ∧ res = (absEnd a').map runOf
  | _, [], _, a, res, h => by
    rw [Spec.STL.openRow, mkRun_close] at h
    refine ⟨a, rfl, ?_⟩
    rw [← Option.some.inj h]
    simp [absEnd]
  | 0, v :: rest, hlen, _, _, _ => by simp at hlen
  | n + 1, v :: rest, hlen, a, res, h => by
    have hlen' : rest.length ≤ n := by simpa using hlen
    rw [spec_openRow_cons] at h
    by_cases h8 : v = 0x8F
    · subst h8
      simp only [beq_self_eq_true, if_true] at h
      obtain ⟨a', h1, h2⟩ := open_sim n rest hlen' a res h
      refine ⟨a', ?_, h2⟩
      have hp := openFold_pad 1 (mst a)
      rw [show (0x8F :: rest) = List.replicate 1 0x8F ++ rest from rfl, openFold_append, hp]
      exact h1
    · have h8' : (v == 0x8F) = false := by simp [h8]
      rw [h8'] at h
      simp only [Bool.false_eq_true, if_false] at h
      by_cases hc : isCode v
      · rw [styCode_ssty a.s v hc] at h
        simp only at h
        rw [mkRun_close] at h
        have e : a.out.map runOf ++ (close a.t a.s).map runOf = (absStep a (.code v)).out.map runOf := by
          simp [absStep]
        rw [e] at h
        obtain ⟨a', h1, h2⟩ := open_sim n rest hlen' (absStep a (.code v)) res h
        refine ⟨a', ?_, h2⟩
        rw [show v :: rest = (Tok.code v).bytes ++ rest from rfl, openFold_append, model_tok a (.code v) hc]
        exact h1
      · rw [styCode_none _ _ hc] at h
        simp only at h
        by_cases hd : Spec.STL.isDia v = true
        · rw [if_pos hd] at h
          cases rest with
          | nil => cases h
          | cons k rest' =>
            simp only at h
            by_cases hl : Spec.STL.isLetter k = true
            · rw [if_pos hl] at h
              have hlen2 : rest'.length ≤ n := by simp at hlen'; omega
              obtain ⟨a', h1, h2⟩ := open_sim n rest' hlen2 { a with t := a.t ++ str (nfcPair k v) } res h
              exact ⟨a', by rw [open_dia a v k hd hl]; exact h1, h2⟩
            · rw [if_neg hl] at h; cases h
        · rw [if_neg hd] at h
          cases ht : Spec.STL.tab v with
          | none => rw [ht] at h; cases h
          | some cps =>
            rw [ht] at h
            simp only at h
            by_cases hlo : v < 0x20
            · rw [if_pos hlo] at h; cases h
            · rw [if_neg hlo] at h
              obtain ⟨a', h1, h2⟩ := open_sim n rest hlen' { a with t := a.t ++ str cps } res h
              refine ⟨a', ?_, h2⟩
              rw [openFold_cons, open_char a v cps ht hlo hc (by simpa using hd)]
              exact h1

/-- **Open-subtitling row, any bytes (whole row).**  If the independent decoder accepts a row and denotes the runs
    `res`, there are segments `segs` (trimmed text + the three optional style flags) such that `res` is `segs` seen as
    decoder runs and the model's `parseOpenSubtitleRow`, entered without a pending diacritic, returns `segs` seen as line
    items (one line, or no line when there is no run) and leaves no diacritic pending. -/
theorem open_row_agree (row : Bytes) (res : List Spec.STL.Run) (h : Spec.STL.openRow row {} [] [] = some res) :
    ∃ segs : List Seg, res = segs.map runOf ∧
      STL.openRow none row = some (if segs.isEmpty then none else some { items := segs.map itemOf }, none) := by
  have h' : Spec.STL.openRow row (ssty AS.init.s) AS.init.t (AS.init.out.map runOf) = some res := h
  obtain ⟨a', h1, h2⟩ := open_sim row.length row (Nat.le_refl _) AS.init res h'
  refine ⟨absEnd a', h2, ?_⟩
  unfold STL.openRow
  have e : ({ acc := none } : RowSt) = mst AS.init := rfl
  rw [e, h1]
  simp only [appendOpen_mst]
  unfold absEnd
  simp [mst]

end C05
end Astisub
