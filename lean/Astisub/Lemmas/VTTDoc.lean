import Astisub.Lemmas.VTTLine
import Astisub.Lemmas.VTTTiming

/-!
# Lemmas/VTTDoc — the written WebVTT document, line by line, through the reader

Cue lists without regions, style blocks, comments and timestamp map: the lines `write` emits and
what `read` makes of them.
-/

namespace Astisub
namespace VTT
open Go List

/-! ### the lines of the written document -/

/-- lines, each terminated by a line feed -/
def unlines (ls : List Str) : Str := (ls.map (· ++ ['\n'])).flatten

theorem unlines_append (a b : List Str) : unlines (a ++ b) = unlines a ++ unlines b := by
  simp [unlines]

theorem unlines_cons (a : Str) (b : List Str) : unlines (a :: b) = a ++ '\n' :: unlines b := by
  simp [unlines]

/-- a cue setting as the writer resolves it: the cue's own attribute, else the referenced style's -/
def cueSetting (s : Subs) (it : CItem) (k : String) : Option Str :=
  fallback it.attrs (styleAttrs s it.style) k

/-- the timing line of a cue -/
def cueTiming (s : Subs) (it : CItem) : Str :=
  timingLine it.startAt it.endAt (cueSetting s it "WebVTTAlign") (cueSetting s it "WebVTTLine")
    (cueSetting s it "WebVTTPosition") it.region (cueSetting s it "WebVTTSize") (cueSetting s it "WebVTTVertical")

/-- the lines of a cue without comments: number, timing, text lines -/
def cueCore (s : Subs) (k : Nat) (it : CItem) : List Str :=
  [itoaNat (k + 1), cueTiming s it] ++ it.lines.map lineBody

theorem cueBytes_eq (s : Subs) (k : Nat) (it : CItem) (hc : it.comments = []) :
    cueBytes s k it = unlines (cueCore s k it) ++ ['\n'] := by
  have hl : (it.lines.map lineBytes).flatten = unlines (it.lines.map lineBody) := by
    simp only [unlines, map_map]
    congr 1
  unfold cueBytes
  simp only [hc, List.isEmpty_nil, if_true, nil_append, hl]
  simp [cueCore, unlines_cons, cueTiming, timingLine, cueSetting]

/-- the cue blocks, each preceded by the blank line that ends what comes before -/
def cuesLines (s : Subs) : Nat → List CItem → List Str
  | _, [] => []
  | k, it :: rest => ([] :: cueCore s k it) ++ cuesLines s (k + 1) rest

/-- all the lines of the written document (cue lists without comments, regions, style blocks,
    timestamp map) -/
def docLineList (s : Subs) : List Str := "WEBVTT".toList :: cuesLines s 0 s.items

theorem cues_flatten (s : Subs) (items : List CItem) (hc : ∀ it ∈ items, it.comments = []) (k : Nat) :
    '\n' :: ((items.zipIdx k).map fun x => cueBytes s x.2 x.1).flatten
      = unlines (cuesLines s k items) ++ ['\n'] := by
  induction items generalizing k with
  | nil => simp [cuesLines, unlines]
  | cons it rest ih =>
    have h1 := cueBytes_eq s k it (hc it (by simp))
    have h2 := ih (fun x hx => hc x (by simp [hx])) (k + 1)
    simp only [zipIdx_cons, map_cons, flatten_cons, cuesLines, unlines_append, h1]
    rw [unlines_cons]
    simp only [nil_append, cons_append, append_assoc]
    rw [h2]

theorem header_plain (s : Subs) (hmeta : SRT.kvGet s.metadata "WebVTTTimestampMap" = none) :
    header s = "WEBVTT".toList ++ ['\n', '\n'] := by
  unfold header
  rw [hmeta]
  rfl

/-- **Layout.** the document written for a cue list without comments, regions, style blocks and
    timestamp map is exactly the lines of `docLineList`, each terminated by a line feed -/
theorem write_lines (s : Subs) (hne : s.items ≠ []) (hc : ∀ it ∈ s.items, it.comments = [])
    (hreg : s.regions = []) (hsty : styleLines s = []) (hmeta : SRT.kvGet s.metadata "WebVTTTimestampMap" = none) :
    write s = some (unlines (docLineList s)) := by
  rw [C02.write_layout s hne, header_plain s hmeta, hsty, hreg]
  have hcues := cues_flatten s s.items hc 0
  have e1 : VTT.sortDefs ([] : List Def) = [] := by simp [VTT.sortDefs]
  have e2 : (s.items.zipIdx.map fun (x : CItem × Nat) => cueBytes s x.2 x.1) = (s.items.zipIdx 0).map fun x => cueBytes s x.2 x.1 := rfl
  rw [e1]
  simp only [List.isEmpty_nil, if_true, map_nil, flatten_nil, append_nil]
  have e3 : "WEBVTT".toList ++ ['\n', '\n'] ++ ((s.items.zipIdx.map fun (x : CItem × Nat) => cueBytes s x.2 x.1)).flatten
      = unlines (docLineList s) ++ ['\n'] := by
    rw [e2, docLineList, unlines_cons]
    rw [show "WEBVTT".toList ++ ['\n', '\n'] ++ ((s.items.zipIdx 0).map fun x => cueBytes s x.2 x.1).flatten
      = "WEBVTT".toList ++ '\n' :: ('\n' :: ((s.items.zipIdx 0).map fun x => cueBytes s x.2 x.1).flatten) by simp]
    rw [hcues]
    simp
  exact congrArg some (by rw [e3]; simp)

/-! ### the reader on the lines of a cue -/

/-- what the reader makes of a written line (outer stack empty) -/
def readLine (l : Line) : Line := { voice := l.voice, items := l.items.map (readItem []) }

/-- a line that is read back as one text line of its cue: rebuilt exactly by `parseText`
    (`lineOk`), at least one run, no outer white space (the reader trims the line), no `-->`
    (it would be taken for a timing line), no line break inside -/
def lineFit (l : Line) : Bool :=
  lineOk l && !l.items.isEmpty && (lineBody l != []) && (trimSpace (lineBody l) == lineBody l) &&
  !contains arrow (lineBody l) && (lineBody l).all fun c => !(c == '\n' || c == '\r')

example : lineFit exLine = true := by decide

theorem step_textLine (st : St) (l : Line) (hfit : lineFit l = true) (hb : st.block = .text) (ht : st.tags = []) :
    step st (some (lineBody l)) = .ok { st with cur := { st.cur with lines := st.cur.lines ++ [readLine l] } } := by
  simp only [lineFit, Bool.and_eq_true, Bool.not_eq_true', bne_iff_ne, ne_eq, beq_iff_eq, List.isEmpty_eq_false_iff] at hfit
  obtain ⟨⟨⟨⟨⟨hok, hne⟩, hbody⟩, htrim⟩, harrow⟩, _⟩ := hfit
  rw [C02.text_in_cue st (lineBody l) hb (by rw [htrim]; exact hbody) (by rw [htrim]; exact harrow)]
  rw [htrim, ht, parseText_lineBody l hok []]
  have : (l.items.map (readItem [])).isEmpty = false := by
    cases hi : l.items with
    | nil => exact absurd hi hne
    | cons a b => rfl
  simp only [this, Bool.false_eq_true, if_false, readLine]

theorem run_textLines (ls : List Line) (hfit : ∀ l ∈ ls, lineFit l = true) (more : List (Option Str)) :
    ∀ (st : St), st.block = .text → st.tags = [] →
      run st (ls.map (fun l => some (lineBody l)) ++ more)
        = run { st with cur := { st.cur with lines := st.cur.lines ++ ls.map readLine } } more := by
  induction ls with
  | nil =>
    intro st _ _
    simp
  | cons l ls ih =>
    intro st hb ht
    simp only [map_cons, cons_append, run]
    rw [step_textLine st l (hfit l (by simp)) hb ht]
    simp only []
    refine (ih (fun x hx => hfit x (by simp [hx]))
      { st with cur := { st.cur with lines := st.cur.lines ++ [readLine l] } } hb ht).trans ?_
    simp

/-- a cue that is read back exactly: no comments, no region, instants in the writer's range,
    settings without white space / `:` / `>`, at least the lines fit -/
def cueOk (s : Subs) (it : CItem) : Bool :=
  (it.comments == []) && (it.region == none) &&
  decide (0 ≤ it.startAt) && decide (it.startAt < 360000000000000) &&
  decide (0 ≤ it.endAt) && decide (it.endAt < 360000000000000) &&
  optOk (cueSetting s it "WebVTTAlign") && optOk (cueSetting s it "WebVTTLine") &&
  optOk (cueSetting s it "WebVTTPosition") && optOk (cueSetting s it "WebVTTSize") &&
  optOk (cueSetting s it "WebVTTVertical") && it.lines.all lineFit

/-! non-vacuity: a two-cue list with settings (one inherited from a style) -/
def exSubs : Subs :=
  { items := [
      { startAt := 1000000000, endAt := 2500000123, lines := [exLine, { items := [exRun4] }],
        attrs := some [("WebVTTAlign".toList, "start".toList), ("WebVTTPosition".toList, "10%".toList)] },
      { startAt := 3000000000, endAt := 4000000000, lines := [{ items := [exRun1] }], style := some "s1".toList }],
    styles := [{ id := "s1".toList, attrs := some [("WebVTTLine".toList, "0".toList)] }] }

example : exSubs.items.all (cueOk exSubs) = true := by decide
example : exSubs.regions = [] ∧ styleLines exSubs = [] ∧ SRT.kvGet exSubs.metadata "WebVTTTimestampMap" = none := by
  refine ⟨rfl, ?_, rfl⟩
  have : VTT.sortDefs exSubs.styles = exSubs.styles := by simp [VTT.sortDefs, exSubs]
  simp only [styleLines, this]
  decide

/-- the cue the reader builds from the `k`-th written cue -/
def readCue (s : Subs) (k : Nat) (it : CItem) : CItem :=
  { index := (k : Int) + 1, startAt := it.startAt - it.startAt % 1000000, endAt := it.endAt - it.endAt % 1000000,
    region := none, comments := [], lines := it.lines.map readLine,
    attrs := some (mkAttrs [("WebVTTAlign", cueSetting s it "WebVTTAlign"), ("WebVTTLine", cueSetting s it "WebVTTLine"),
      ("WebVTTPosition", cueSetting s it "WebVTTPosition"), ("WebVTTSize", cueSetting s it "WebVTTSize"),
      ("WebVTTVertical", cueSetting s it "WebVTTVertical")]) }

/-- **One cue.** blank line, number, timing line, text lines: the cue under construction is
    listed and the written cue is under construction instead -/
theorem run_cue (s : Subs) (k : Nat) (it : CItem) (hok : cueOk s it = true) (hk : k + 1 ≤ int64Max)
    (more : List (Option Str)) (st : St) (hb : st.block ≠ .style) (hcm : st.comments = []) :
    ∃ st', run st ((([] :: cueCore s k it).map some) ++ more) = run st' more ∧
      flush st' = flush st ++ [readCue s k it] ∧ st'.block ≠ .style ∧ st'.comments = [] ∧
      st'.regions = st.regions ∧ st'.styleSeen = st.styleSeen ∧ st'.tsmap = st.tsmap := by
  simp only [cueOk, Bool.and_eq_true, beq_iff_eq, decide_eq_true_eq, all_eq_true] at hok
  obtain ⟨⟨⟨⟨⟨⟨⟨⟨⟨⟨⟨hc, hr⟩, hs0⟩, hs1⟩, he0⟩, he1⟩, hal⟩, hln⟩, hpo⟩, hsz⟩, hve⟩, hlines⟩ := hok
  have hblank : (C02.blankStep st).block = .none := C02.blank_ends_block st (Or.inl hb)
  have h2 := step_number (C02.blankStep st) k hblank hk
  obtain ⟨st3, h3, p1, p2, p3, p4, p5, p6, p7, p8, p9⟩ : ∃ st3 : St,
      step { C02.blankStep st with index := (k : Int) + 1 } (some (cueTiming s it)) = .ok st3 ∧
      st3.block = .text ∧ st3.tags = [] ∧ st3.done = flush st ∧ st3.curListed = true ∧
      st3.cur = { readCue s k it with lines := [] } ∧ st3.comments = [] ∧
      st3.regions = st.regions ∧ st3.styleSeen = st.styleSeen ∧ st3.tsmap = st.tsmap := by
    refine ⟨_, step_timing { C02.blankStep st with index := (k : Int) + 1 } it.startAt it.endAt hs0 hs1 he0 he1
      (cueSetting s it "WebVTTAlign") (cueSetting s it "WebVTTLine") (cueSetting s it "WebVTTPosition") it.region
      (cueSetting s it "WebVTTSize") (cueSetting s it "WebVTTVertical") hal hln hpo (by rw [hr]; rfl) hsz hve
      (by intro r h; rw [hr] at h; cases h), rfl, ?_, ?_, rfl, ?_, rfl, ?_, ?_, ?_⟩
    · simp [C02.blankStep]
    · simp [C02.blankStep, flush]
    · simp [C02.blankStep, readCue, hcm, hr]
    · simp [C02.blankStep]
    · simp [C02.blankStep]
    · simp [C02.blankStep]
  refine ⟨{ st3 with cur := { st3.cur with lines := st3.cur.lines ++ it.lines.map readLine } }, ?_, ?_⟩
  · simp only [cueCore, map_cons, cons_append, map_map, run, C02.step_blank, h2, h3, nil_append]
    exact run_textLines it.lines hlines more st3 p1 p2
  · refine ⟨?_, by simp [p1], by simp [p6], by simp [p7], by simp [p8], by simp [p9]⟩
    simp [flush, p3, p4, p5, readCue]

/-! ### the reader on the whole document -/

theorem run_cues (s : Subs) (items : List CItem) :
    ∀ (k : Nat) (st : St), (∀ it ∈ items, cueOk s it = true) → k + items.length ≤ int64Max →
      st.block ≠ .style → st.comments = [] →
      ∃ st', run st ((cuesLines s k items).map some) = .ok st' ∧
        flush st' = flush st ++ (items.zipIdx k).map (fun x => readCue s x.2 x.1) ∧
        st'.regions = st.regions ∧ st'.styleSeen = st.styleSeen ∧ st'.tsmap = st.tsmap := by
  induction items with
  | nil => intro k st _ _ _ _; exact ⟨st, by simp [cuesLines, run], by simp, rfl, rfl, rfl⟩
  | cons it rest ih =>
    intro k st hok hk hb hcm
    simp only [length_cons] at hk
    obtain ⟨st1, hrun, hfl, hb1, hcm1, hr1, hs1, ht1⟩ :=
      run_cue s k it (hok it (by simp)) (by omega) ((cuesLines s (k + 1) rest).map some) st hb hcm
    obtain ⟨st2, hrun2, hfl2, hr2, hs2, ht2⟩ :=
      ih (k + 1) st1 (fun x hx => hok x (by simp [hx])) (by omega) hb1 hcm1
    refine ⟨st2, ?_, ?_, hr2.trans hr1, hs2.trans hs1, ht2.trans ht1⟩
    · rw [cuesLines, map_append, hrun, hrun2]
    · rw [hfl2, hfl]; simp [zipIdx_cons]

/-- what the reader returns for the written document -/
def readSubs (s : Subs) : Subs :=
  { items := s.items.zipIdx.map fun x => readCue s x.2 x.1, regions := [], styles := [], metadata := none }

theorem skipHeader_webvtt (ls : List (Option Str)) : skipHeader (some "WEBVTT".toList :: ls) = some ls := by
  have : fields (trimPrefix bom "WEBVTT".toList) = ["WEBVTT".toList] := by decide
  unfold skipHeader
  rw [this]
  simp

/-- **Document.** the reader, given the lines of the written document, returns every cue with
    its number, truncated instants, settings, and lines run by run -/
theorem read_docLineList (s : Subs) (hok : ∀ it ∈ s.items, cueOk s it = true) (hlen : s.items.length ≤ int64Max) :
    read ((docLineList s).map some) = .ok (readSubs s) := by
  obtain ⟨st', hrun, hfl, hr, hs, ht⟩ := run_cues s s.items 0 {} hok (by omega) (by decide) rfl
  simp only [read, docLineList, map_cons, skipHeader_webvtt, hrun]
  have hfl' : flush st' = s.items.zipIdx.map fun x => readCue s x.2 x.1 := by
    rw [hfl]; simp [flush]
  simp [result, readSubs, hfl', hr, hs, ht]

/-! ### from the written text to its lines -/

/-- the lines of a text in which every line is terminated by a line feed (what a line scanner
    delivers when no carriage return occurs) -/
def textLines (doc : Str) : List (Option Str) := ((splitC '\n' doc).dropLast).map some

/-- no line feed and no carriage return -/
def NoBreak (l : Str) : Prop := ∀ c ∈ l, c ≠ '\n' ∧ c ≠ '\r'

theorem textLines_unlines (ls : List Str) (h : ∀ l ∈ ls, NoBreak l) : textLines (unlines ls) = ls.map some := by
  have key : splitC '\n' (unlines ls) = ls ++ [[]] := by
    induction ls with
    | nil => rfl
    | cons l ls ih =>
      rw [unlines_cons, splitC_append _ (fun hc => (h l (by simp) _ hc).1 rfl), ih (fun x hx => h x (by simp [hx]))]
      rfl
  simp [textLines, key]

theorem noBreak_of_noSpace {l : Str} (h : ∀ c ∈ l, isSpace c = false) : NoBreak l := by
  intro c hc
  have := h c hc
  constructor <;> (intro e; subst e; exact absurd this (by decide))

theorem noBreak_append {a b : Str} (ha : NoBreak a) (hb : NoBreak b) : NoBreak (a ++ b) := by
  intro c hc
  rcases mem_append.mp hc with h | h
  · exact ha c h
  · exact hb c h

theorem noBreak_format (t : Int) (h0 : 0 ≤ t) (h1 : t < 360000000000000) : NoBreak (Duration.formatVTT t) := by
  obtain ⟨h, m, sec, f, hh, hm, hs, hf, hfmt, _⟩ := C16.format_shape3 t '.' h0 h1
  apply noBreak_of_noSpace
  intro c hc
  unfold Duration.formatVTT at hc
  rw [hfmt] at hc
  exact timeChar_noSpace (timeChar_canon3 h m sec f hh (by omega) (by omega) hf c hc)

theorem noBreak_spaced (ws : List Str) (h : ∀ w ∈ ws, WordOk w) : NoBreak (spaced ws) := by
  induction ws with
  | nil => intro c hc; simp [spaced_nil] at hc
  | cons w ws ih =>
    rw [spaced_cons]
    intro c hc
    rcases mem_cons.mp hc with e | hc
    · subst e; exact ⟨by decide, by decide⟩
    · rcases mem_append.mp hc with hc | hc
      · exact noBreak_of_noSpace (h w (by simp)).2 c hc
      · exact ih (fun x hx => h x (by simp [hx])) c hc

theorem noBreak_timing (s e : Int) (hs0 : 0 ≤ s) (hs1 : s < 360000000000000) (he0 : 0 ≤ e) (he1 : e < 360000000000000)
    (al ln po rg sz ve : Option Str)
    (hal : optOk al = true) (hln : optOk ln = true) (hpo : optOk po = true) (hrg : optOk rg = true)
    (hsz : optOk sz = true) (hve : optOk ve = true) : NoBreak (timingLine s e al ln po rg sz ve) := by
  rw [timingLine_eq]
  have hw := allWords_ok al ln po rg sz ve hal hln hpo hrg hsz hve
  apply noBreak_append (noBreak_append (noBreak_append (noBreak_format s hs0 hs1) ?_) ?_) ?_
  · intro c hc; simp at hc; subst hc; exact ⟨by decide, by decide⟩
  · intro c hc
    rw [arrow_eq] at hc
    simp only [mem_cons, not_mem_nil, or_false] at hc
    rcases hc with rfl | rfl | rfl <;> exact ⟨by decide, by decide⟩
  · rw [spaced_cons]
    intro c hc
    rcases mem_cons.mp hc with e1 | hc
    · subst e1; exact ⟨by decide, by decide⟩
    · rcases mem_append.mp hc with hc | hc
      · exact noBreak_format e he0 he1 c hc
      · exact noBreak_spaced _ (fun w hx => (hw w hx).1) c hc

theorem noBreak_cueCore (s : Subs) (k : Nat) (it : CItem) (hok : cueOk s it = true) :
    ∀ l ∈ cueCore s k it, NoBreak l := by
  simp only [cueOk, Bool.and_eq_true, beq_iff_eq, decide_eq_true_eq, all_eq_true] at hok
  obtain ⟨⟨⟨⟨⟨⟨⟨⟨⟨⟨⟨hc, hr⟩, hs0⟩, hs1⟩, he0⟩, he1⟩, hal⟩, hln⟩, hpo⟩, hsz⟩, hve⟩, hlines⟩ := hok
  intro l hl
  simp only [cueCore, cons_append, nil_append, mem_cons, mem_map] at hl
  rcases hl with rfl | rfl | ⟨x, hx, rfl⟩
  · exact noBreak_of_noSpace (digitStr_itoaNat (k + 1)).noSpace
  · exact noBreak_timing _ _ hs0 hs1 he0 he1 _ _ _ _ _ _ hal hln hpo (by rw [hr]; rfl) hsz hve
  · have := hlines x hx
    simp only [lineFit, Bool.and_eq_true, all_eq_true, Bool.not_eq_true', Bool.or_eq_false_iff, beq_eq_false_iff_ne, ne_eq] at this
    exact fun c hc => this.2 c hc

theorem noBreak_docLineList (s : Subs) (hok : ∀ it ∈ s.items, cueOk s it = true) :
    ∀ l ∈ docLineList s, NoBreak l := by
  have key : ∀ (items : List CItem) (k : Nat), (∀ it ∈ items, cueOk s it = true) →
      ∀ l ∈ cuesLines s k items, NoBreak l := by
    intro items
    induction items with
    | nil => intro k _ l hl; simp [cuesLines] at hl
    | cons it rest ih =>
      intro k h l hl
      simp only [cuesLines, cons_append, mem_cons, mem_append] at hl
      rcases hl with rfl | hl | hl
      · intro c hc; simp at hc
      · exact noBreak_cueCore s k it (h it (by simp)) l hl
      · exact ih (k + 1) (fun x hx => h x (by simp [hx])) l hl
  intro l hl
  simp only [docLineList, mem_cons] at hl
  rcases hl with rfl | hl
  · intro c hc
    simp only [String.toList] at hc
    revert c; decide
  · exact key s.items 0 hok l hl

/-- **Write → read.** a cue list whose cues all satisfy `cueOk` (no comments, regions, style
    blocks, timestamp map) is written, and the reader, given the lines of the written text,
    returns `readSubs s` -/
theorem read_write (s : Subs) (hne : s.items ≠ []) (hok : ∀ it ∈ s.items, cueOk s it = true)
    (hlen : s.items.length ≤ int64Max)
    (hreg : s.regions = []) (hsty : styleLines s = []) (hmeta : SRT.kvGet s.metadata "WebVTTTimestampMap" = none) :
    ∃ doc, write s = some doc ∧ '\r' ∉ doc ∧ read (textLines doc) = .ok (readSubs s) := by
  have hcm : ∀ it ∈ s.items, it.comments = [] := by
    intro it hit
    have := hok it hit
    simp only [cueOk, Bool.and_eq_true, beq_iff_eq] at this
    exact this.1.1.1.1.1.1.1.1.1.1.1
  refine ⟨_, write_lines s hne hcm hreg hsty hmeta, ?_, ?_⟩
  · intro hc
    simp only [unlines, mem_flatten, mem_map] at hc
    obtain ⟨_, ⟨l, hl, rfl⟩, hcl⟩ := hc
    rcases mem_append.mp hcl with h | h
    · exact (noBreak_docLineList s hok l hl _ h).2 rfl
    · simp at h
  · rw [textLines_unlines _ (noBreak_docLineList s hok)]
    exact read_docLineList s hok hlen

end VTT
end Astisub
