import Astisub.Lemmas.TTMLRead2Dec
import Astisub.Lemmas.TTMLRead2XAttr
import Astisub.Lemmas.TTMLRead2SAttr

/-!
# Lemmas/TTMLRead2Doc — the independent decoder and the `encoding/xml` contract run in lockstep over a document

`Spec.TTML.step` (decoder) and `TTMLR.ustep` (`Decode(&TTMLIn)` as a function of the tokens) are two state machines
over the same token list.  `Rel` relates their states outside paragraphs; a paragraph is crossed in one jump
(`TTMLRead2Dec.para_all` on the decoder side, `urun_para` on the contract side).
-/

namespace Astisub
namespace TTMLR
open Go TTML
open Spec.TTML (St PState Tok step run GRun GDef GCue GDoc hasNL allSpace ref? styling attr? natAttr denote)
open TTMLDoc (ctxOf Ctx)
open Driver.TTMLD (specToks ttmlAttrsOf)

/-! ## 1. the contract machine inside a paragraph -/

def inU (u : USt) (pre : List Str) (s : InSub) : USt :=
  { u with path := pre ++ u.path, cur := some s, finished := false }

def addTok (s : InSub) (l : List XTok) : InSub := { s with toks := s.toks ++ l }

def closeU (u : USt) (s : InSub) : USt :=
  { u with path := u.path.tail, cur := none, subs := u.subs ++ [s], finished := false }

theorem addTok_addTok (s : InSub) (a b : List XTok) : addTok (addTok s a) b = addTok s (a ++ b) := by
  simp [addTok, List.append_assoc]

theorem urun_cons (t : XTok) (ts : List XTok) (u : USt) :
    urun (t :: ts) u = match ustep u t with | some u' => urun ts u' | none => none := rfl

theorem urun_some {t : XTok} {u u' : USt} (ts : List XTok) (h : ustep u t = some u') : urun (t :: ts) u = urun ts u' := by
  rw [urun_cons, h]

theorem ustep_in_start (u : USt) (pre : List Str) (s : InSub) (sp n : Str) (a : List XAttr) :
    ustep (inU u pre s) (.start sp n a) = some (inU u (n :: pre) (addTok s [.start sp n a])) := by
  simp [ustep, inU, addTok]

theorem ustep_in_text (u : USt) (pre : List Str) (s : InSub) (x : Str) :
    ustep (inU u pre s) (.text x) = some (inU u pre (addTok s [.text x])) := by
  simp [ustep, inU, addTok]

theorem ustep_in_other (u : USt) (pre : List Str) (s : InSub) :
    ustep (inU u pre s) .other = some (inU u pre (addTok s [.other])) := by
  simp [ustep, inU, addTok]

theorem ustep_in_stop (u : USt) (n : Str) (pre : List Str) (s : InSub) (sp m : Str) (hl : u.path.length = 4) :
    ustep (inU u (n :: pre) s) (.stop sp m) = some (inU u pre (addTok s [.stop sp m])) := by
  have : ¬ (pre.length + u.path.length + 1 = 4) := by omega
  simp [ustep, inU, addTok, this]

theorem ustep_in_close (u : USt) (s : InSub) (sp m : Str) (hl : u.path.length = 4) :
    ustep (inU u [] s) (.stop sp m) = some (closeU u s) := by
  simp [ustep, inU, closeU, hl]

theorem urun_br {b : List XTok} (h : BrBody b) : ∀ (R : List XTok) (u : USt) (n : Str) (pre : List Str) (s : InSub),
    u.path.length = 4 → urun (b ++ R) (inU u (n :: pre) s) = urun R (inU u pre (addTok s b)) := by
  induction h with
  | stop sp m =>
    intro R u n pre s hl
    rw [List.singleton_append, urun_some _ (ustep_in_stop u n pre s sp m hl)]
  | other _ ih =>
    intro R u n pre s hl
    rw [List.cons_append, urun_some _ (ustep_in_other _ _ _), ih R u n pre _ hl, addTok_addTok]
    rfl

theorem urun_span {b : List XTok} {segs : List Str} (h : SpanBody b segs) :
    ∀ (R : List XTok) (u : USt) (n : Str) (pre : List Str) (s : InSub),
    u.path.length = 4 → urun (b ++ R) (inU u (n :: pre) s) = urun R (inU u pre (addTok s b)) := by
  induction h with
  | stop sp m =>
    intro R u n pre s hl
    rw [List.singleton_append, urun_some _ (ustep_in_stop u n pre s sp m hl)]
  | other _ ih =>
    intro R u n pre s hl
    rw [List.cons_append, urun_some _ (ustep_in_other _ _ _), ih R u n pre _ hl, addTok_addTok]
    rfl
  | text _ _ ih =>
    intro R u n pre s hl
    rw [List.cons_append, urun_some _ (ustep_in_text _ _ _ _), ih R u n pre _ hl, addTok_addTok]
    rfl
  | @br sp a b r segs hb _ ih =>
    intro R u n pre s hl
    simp only [List.cons_append, List.append_assoc]
    rw [urun_some _ (ustep_in_start _ _ _ _ _ _), urun_br hb _ u _ _ _ hl, ih R u n pre _ hl,
      addTok_addTok, addTok_addTok]
    simp

theorem urun_para {r : List XTok} {its : List PItem} (h : ParaBody r its) :
    ∀ (R : List XTok) (u : USt) (s : InSub), u.path.length = 4 →
    ∃ body sp n, r = body ++ [.stop sp n] ∧ urun (r ++ R) (inU u [] s) = urun R (closeU u (addTok s body)) ∧
      ∀ sp' n', ParaBody (body ++ [.stop sp' n']) its := by
  induction h with
  | stop sp m =>
    intro R u s hl
    refine ⟨[], sp, m, rfl, ?_, fun sp' n' => .stop sp' n'⟩
    rw [List.singleton_append, urun_some _ (ustep_in_close u s sp m hl)]
    simp [addTok]
  | other _ ih =>
    intro R u s hl
    obtain ⟨body, sp, n, e, hr, hp⟩ := ih R u (addTok s [.other]) hl
    refine ⟨.other :: body, sp, n, by rw [e]; rfl, ?_, fun sp' n' => .other (hp sp' n')⟩
    rw [List.cons_append, urun_some _ (ustep_in_other _ _ _), hr, addTok_addTok]
    rfl
  | @ws x _ _ hx _ ih =>
    intro R u s hl
    obtain ⟨body, sp, n, e, hr, hp⟩ := ih R u (addTok s [.text x]) hl
    refine ⟨.text x :: body, sp, n, by rw [e]; rfl, ?_, fun sp' n' => .ws hx (hp sp' n')⟩
    rw [List.cons_append, urun_some _ (ustep_in_text _ _ _ _), hr, addTok_addTok]
    rfl
  | @text x _ _ hx hx' _ ih =>
    intro R u s hl
    obtain ⟨body, sp, n, e, hr, hp⟩ := ih R u (addTok s [.text x]) hl
    refine ⟨.text x :: body, sp, n, by rw [e]; rfl, ?_, fun sp' n' => .text hx hx' (hp sp' n')⟩
    rw [List.cons_append, urun_some _ (ustep_in_text _ _ _ _), hr, addTok_addTok]
    rfl
  | @br sp a b r its hb _ ih =>
    intro R u s hl
    obtain ⟨body, sp1, n, e, hr, hp⟩ := ih R u (addTok (addTok s [.start sp "br".toList a]) b) hl
    refine ⟨.start sp "br".toList a :: b ++ body, sp1, n, by rw [e]; simp, ?_, fun sp' n' => ?_⟩
    · simp only [List.cons_append, List.append_assoc]
      rw [urun_some _ (ustep_in_start _ _ _ _ _ _), urun_br hb _ u _ [] _ hl, hr,
        addTok_addTok, addTok_addTok]
      simp
    · have := ParaBody.br (sp := sp) (a := a) hb (hp sp' n')
      simpa using this
  | @span sp a b r segs its hb _ ih =>
    intro R u s hl
    obtain ⟨body, sp1, n, e, hr, hp⟩ := ih R u (addTok (addTok s [.start sp "span".toList a]) b) hl
    refine ⟨.start sp "span".toList a :: b ++ body, sp1, n, by rw [e]; simp, ?_, fun sp' n' => ?_⟩
    · simp only [List.cons_append, List.append_assoc]
      rw [urun_some _ (ustep_in_start _ _ _ _ _ _), urun_span hb _ u _ [] _ hl, hr,
        addTok_addTok, addTok_addTok]
      simp
    · have := ParaBody.span (sp := sp) (a := a) hb (hp sp' n')
      simpa using this


/-! ## 2. the relation between the two machines -/

inductive All2 {α β : Type} (R : α → β → Prop) : List α → List β → Prop where
  | nil : All2 R [] []
  | cons {a : α} {b : β} {as : List α} {bs : List β} : R a b → All2 R as bs → All2 R (a :: as) (b :: bs)

theorem All2.snoc {α β : Type} {R : α → β → Prop} {as : List α} {bs : List β} {a : α} {b : β}
    (h : All2 R as bs) (hab : R a b) : All2 R (as ++ [a]) (bs ++ [b]) := by
  induction h with
  | nil => exact .cons hab .nil
  | cons h1 _ ih => exact .cons h1 ih

theorem All2.length {α β : Type} {R : α → β → Prop} {as : List α} {bs : List β} (h : All2 R as bs) :
    as.length = bs.length := by
  induction h with
  | nil => rfl
  | cons _ _ ih => simp [ih]

/-- the view the `ttml.read` check takes of the attributes the reader returns for the decoded fields `kv` -/
def attrView (kv : KV) : Spec.TTML.AttrL := ttmlAttrsOf (some (styleAttributes kv))

theorem attrView_eq (kv : KV) : attrView kv = viewKV kv := view_styleAttributes kv

/-- a `style` / `region` as the decoder has it and as `encoding/xml` delivers it -/
def DefRel (g : GDef) (d : InDef) : Prop :=
  d.id = g.id ∧ d.style = g.ref.getD [] ∧ (∀ v, g.ref = some v → v ≠ []) ∧ attrView d.attrs = g.attrs

/-- a cue as the decoder has it and the `<p>` as `encoding/xml` delivers it (`toks`: the tokens of its content) -/
def CueRel (fr tr : Nat) (c : GCue) (s : InSub) : Prop :=
  (∃ b e, s.begins = [b] ∧ s.ends = [e] ∧ denote b fr tr = some c.b ∧ denote e fr tr = some c.e ∧
    timeFits b = true ∧ timeFits e = true) ∧
  s.region = c.region.getD [] ∧ (∀ v, c.region = some v → v ≠ []) ∧
  s.style = c.style.getD [] ∧ (∀ v, c.style = some v → v ≠ []) ∧
  attrView s.attrs = c.attrs ∧
  ∃ its, ParaBody (s.toks ++ [pStop]) its ∧ good its ∧
    c.lines = (semP mkTG mkSG its ([], [])).1 ++ [(semP mkTG mkSG its ([], [])).2]

structure Rel (st : St) (u : USt) : Prop where
  p : st.p = none
  cur : u.cur = none
  path : u.path = st.path
  fin : u.finished = st.finished
  fr : u.framerate = (st.fr : Int)
  tr : u.tickrate = (st.tr : Int)
  frb : st.fr ≤ int64Max
  buf : u.buf = st.buf
  title : u.title = st.doc.title
  copyright : u.copyright = st.doc.copyright
  lang : u.lang = st.doc.lang
  styles : All2 DefRel st.doc.styles u.styles
  regions : All2 DefRel st.doc.regions u.regions
  cues : All2 (CueRel st.fr st.tr) st.doc.cues u.subs
  fresh : st.path = [] → st.finished = false → st.doc.cues = [] ∧ u.subs = [] ∧ st.doc.lang = []

theorem id_matched : "id".toList ∈ matchedNames := by decide
theorem style_matched : "style".toList ∈ matchedNames := by decide
theorem region_matched : "region".toList ∈ matchedNames := by decide
theorem begin_matched : "begin".toList ∈ matchedNames := by decide
theorem end_matched : "end".toList ∈ matchedNames := by decide
theorem lang_matched : "lang".toList ∈ matchedNames := by decide

/-- a `style` / `region` start tag -/
theorem mkDef_rel (a : List XAttr) (g : GDef) (hfit : a.all attrFits = true) (h : Spec.TTML.mkDef a = some g) :
    ∃ d, mkDef a = some d ∧ DefRel g d := by
  unfold Spec.TTML.mkDef at h
  cases h1 : attr? a "id" with
  | none => simp [h1] at h
  | some o =>
    cases o with
    | none => simp [h1] at h
    | some id =>
      cases h2 : ref? a "style" with
      | none => simp [h1, h2] at h
      | some r =>
        cases h3 : styling a with
        | none => simp [h1, h2, h3] at h
        | some sa =>
          simp only [h1, h2, h3] at h
          by_cases hid : id.isEmpty = true
          · simp [hid] at h
          · simp only [hid, Bool.false_eq_true, if_false, Option.some.injEq] at h
            obtain ⟨kv, hkv, hv⟩ := styling_inAttrs a sa hfit h3
            refine ⟨{ id := lastAttr a "id", style := lastAttr a "style", attrs := kv }, by simp [mkDef, hkv], ?_⟩
            subst h
            have hid' := ((attr_unique a "id" id_matched hfit).2 id h1).2
            have hst := ref_lastAttr a "style" r style_matched hfit h2
            exact ⟨hid', hst.1, hst.2, by rw [attrView_eq]; exact hv⟩

theorem timeFits_of_attr (a : List XAttr) (name : String) (v : Str) (hn : name = "begin" ∨ name = "end")
    (hfit : a.all attrFits = true) (h : attr? a name = some (some v)) : timeFits v = true := by
  obtain ⟨x, hx, hd, hl, hv⟩ := attr_witness a name v h
  have hf : attrFits x = true := (List.all_eq_true.mp hfit) x hx
  unfold attrFits at hf
  rw [hd] at hf
  rcases hn with rfl | rfl
  · have e1 : ("begin".toList = "zIndex".toList) = False := by decide
    simp only [Bool.false_eq_true, if_false, hl, e1, true_or, Bool.true_or, Bool.or_true, decide_true, if_true] at hf
    rw [← hv]; simpa using hf
  · have e1 : ("end".toList = "zIndex".toList) = False := by decide
    simp only [Bool.false_eq_true, if_false, hl, e1, true_or, Bool.true_or, Bool.or_true, decide_true, if_true] at hf
    rw [← hv]; simpa using hf


/-! ## 3. the decoder outside paragraphs, by context -/

abbrev pRoot : List Str := [['t', 't']]
abbrev pStyle : List Str := [['s', 't', 'y', 'l', 'e'], ['s', 't', 'y', 'l', 'i', 'n', 'g'], ['h', 'e', 'a', 'd'], ['t', 't']]
abbrev pRegion : List Str := [['r', 'e', 'g', 'i', 'o', 'n'], ['l', 'a', 'y', 'o', 'u', 't'], ['h', 'e', 'a', 'd'], ['t', 't']]
abbrev pTitle : List Str := [['t', 'i', 't', 'l', 'e'], ['m', 'e', 't', 'a', 'd', 'a', 't', 'a'], ['h', 'e', 'a', 'd'], ['t', 't']]
abbrev pCopy : List Str := [['c', 'o', 'p', 'y', 'r', 'i', 'g', 'h', 't'], ['m', 'e', 't', 'a', 'd', 'a', 't', 'a'], ['h', 'e', 'a', 'd'], ['t', 't']]
abbrev pPara : List Str := [['p'], ['d', 'i', 'v'], ['b', 'o', 'd', 'y'], ['t', 't']]

theorem map_root : pRoot.map String.ofList = ["tt"] := by decide
theorem map_style : pStyle.map String.ofList = ["style", "styling", "head", "tt"] := by decide
theorem map_region : pRegion.map String.ofList = ["region", "layout", "head", "tt"] := by decide
theorem map_title : pTitle.map String.ofList = ["title", "metadata", "head", "tt"] := by decide
theorem map_copy : pCopy.map String.ofList = ["copyright", "metadata", "head", "tt"] := by decide
theorem map_para : pPara.map String.ofList = ["p", "div", "body", "tt"] := by decide

theorem map_ofList_eq {path : List Str} {l : List String} (h : path.map String.ofList = l) :
    path = l.map String.toList := by
  rw [← h, List.map_map]
  have : (String.toList ∘ String.ofList) = id := by funext x; simp
  simp [this]

theorem ctxOf_cases (p : List Str) :
    (p = pRoot ∧ ctxOf p = .root) ∨ (p = pStyle ∧ ctxOf p = .style) ∨ (p = pRegion ∧ ctxOf p = .region) ∨
    (p = pTitle ∧ ctxOf p = .title) ∨ (p = pCopy ∧ ctxOf p = .copyright) ∨ (p = pPara ∧ ctxOf p = .para) ∨
    (p ≠ pRoot ∧ p ≠ pStyle ∧ p ≠ pRegion ∧ p ≠ pTitle ∧ p ≠ pCopy ∧ p ≠ pPara ∧ ctxOf p = .other) := by
  by_cases h1 : p = pRoot
  · exact .inl ⟨h1, by subst h1; decide⟩
  by_cases h2 : p = pStyle
  · exact .inr (.inl ⟨h2, by subst h2; decide⟩)
  by_cases h3 : p = pRegion
  · exact .inr (.inr (.inl ⟨h3, by subst h3; decide⟩))
  by_cases h4 : p = pTitle
  · exact .inr (.inr (.inr (.inl ⟨h4, by subst h4; decide⟩)))
  by_cases h5 : p = pCopy
  · exact .inr (.inr (.inr (.inr (.inl ⟨h5, by subst h5; decide⟩))))
  by_cases h6 : p = pPara
  · exact .inr (.inr (.inr (.inr (.inr (.inl ⟨h6, by subst h6; decide⟩)))))
  · refine .inr (.inr (.inr (.inr (.inr (.inr ⟨h1, h2, h3, h4, h5, h6, ?_⟩)))))
    simp only [ctxOf]
    rw [if_neg h1, if_neg h2, if_neg h3, if_neg h4, if_neg h5, if_neg h6]

theorem dec_other (st : St) (hp : st.p = none) (hf : st.finished = false) : step st .other = some st := by
  unfold step
  simp [hf]

theorem dec_finished (st st' : St) (t : Spec.TTML.Tok) (hf : st.finished = true) (h : step st t = some st') :
    st' = st ∧ (t = .other ∨ ∃ s, t = .text s) := by
  unfold step at h
  simp only [hf, if_true] at h
  cases t with
  | other => simp at h; exact ⟨h.symm, .inl rfl⟩
  | text s =>
    simp only at h
    split at h
    · simp at h; exact ⟨h.symm, .inr ⟨s, rfl⟩⟩
    · cases h
  | start sp n a => simp at h
  | stop => simp at h

theorem dec_start_root (st st' : St) (sp n : Str) (a : List XAttr) (hp : st.p = none) (hf : st.finished = false)
    (hpath : n :: st.path = pRoot) (h : step st (.start sp n a) = some st') :
    ∃ fr tr, natAttr a "frameRate" = some fr ∧ natAttr a "tickRate" = some tr ∧
      ((attr? a "lang" = none ∧ st' = { st with path := n :: st.path, fr := fr, tr := tr }) ∨
       (∃ l, attr? a "lang" = some (some l) ∧
          st' = { st with path := n :: st.path, fr := fr, tr := tr, doc := { st.doc with lang := l } })) := by
  unfold step at h
  simp only [hp, hf, Bool.false_eq_true, if_false, hpath, map_root] at h
  split at h
  · cases h
  · split at h
    · rename_i fr tr h1 h2
      refine ⟨fr, tr, h1, h2, ?_⟩
      split at h
      · cases h
      · rename_i l hl
        simp only [Option.some.injEq] at h
        exact .inr ⟨l, hl, by rw [← h, hpath]; simp [hp, hf]⟩
      · rename_i hl
        simp only [Option.some.injEq] at h
        exact .inl ⟨hl, by rw [← h, hpath]; simp [hp, hf]⟩
    · cases h

theorem dec_start_style (st st' : St) (sp n : Str) (a : List XAttr) (hp : st.p = none) (hf : st.finished = false)
    (hpath : n :: st.path = pStyle) (h : step st (.start sp n a) = some st') :
    ∃ g, Spec.TTML.mkDef a = some g ∧
      st' = { st with path := n :: st.path, doc := { st.doc with styles := st.doc.styles ++ [g] } } := by
  unfold step at h
  simp only [hp, hf, Bool.false_eq_true, if_false, hpath, map_style] at h
  split at h
  · cases h
  · cases hg : Spec.TTML.mkDef a with
    | none => simp [hg] at h
    | some g =>
      refine ⟨g, rfl, ?_⟩
      simp [hg] at h
      rw [← h, hpath]
      simp [hp, hf]

theorem dec_start_region (st st' : St) (sp n : Str) (a : List XAttr) (hp : st.p = none) (hf : st.finished = false)
    (hpath : n :: st.path = pRegion) (h : step st (.start sp n a) = some st') :
    ∃ g, Spec.TTML.mkDef a = some g ∧
      st' = { st with path := n :: st.path, doc := { st.doc with regions := st.doc.regions ++ [g] } } := by
  unfold step at h
  simp only [hp, hf, Bool.false_eq_true, if_false, hpath, map_region] at h
  split at h
  · cases h
  · cases hg : Spec.TTML.mkDef a with
    | none => simp [hg] at h
    | some g =>
      refine ⟨g, rfl, ?_⟩
      simp [hg] at h
      rw [← h, hpath]
      simp [hp, hf]

theorem dec_start_title (st st' : St) (sp n : Str) (a : List XAttr) (hp : st.p = none) (hf : st.finished = false)
    (hpath : n :: st.path = pTitle ∨ n :: st.path = pCopy) (h : step st (.start sp n a) = some st') :
    st' = { st with path := n :: st.path, buf := [] } := by
  unfold step at h
  rcases hpath with hpath | hpath
  · simp only [hp, hf, Bool.false_eq_true, if_false, hpath, map_title] at h
    split at h
    · cases h
    · simp at h
      rw [← h, hpath]
      simp [hp, hf]
  · simp only [hp, hf, Bool.false_eq_true, if_false, hpath, map_copy] at h
    split at h
    · cases h
    · simp at h
      rw [← h, hpath]
      simp [hp, hf]

theorem dec_start_para (st st' : St) (sp n : Str) (a : List XAttr) (hp : st.p = none) (hf : st.finished = false)
    (hpath : n :: st.path = pPara) (h : step st (.start sp n a) = some st') :
    ∃ b e cb ce sty reg sa, attr? a "begin" = some (some b) ∧ attr? a "end" = some (some e) ∧
      ref? a "style" = some sty ∧ ref? a "region" = some reg ∧ styling a = some sa ∧
      denote b st.fr st.tr = some cb ∧ denote e st.fr st.tr = some ce ∧
      st' = inP { st with path := n :: st.path } [] { b := cb, e := ce, style := sty, region := reg, attrs := sa } := by
  unfold step at h
  simp only [hp, hf, Bool.false_eq_true, if_false, hpath, map_para] at h
  split at h
  · cases h
  · split at h
    · rename_i b e sty reg sa h1 h2 h3 h4 h5
      split at h
      · rename_i cb ce h6 h7
        refine ⟨b, e, cb, ce, sty, reg, sa, h1, h2, h3, h4, h5, h6, h7, ?_⟩
        simp only [Option.some.injEq] at h
        rw [← h, hpath]
        simp [inP]
      · cases h
    · cases h

theorem dec_start_other (st st' : St) (sp n : Str) (a : List XAttr) (hp : st.p = none) (hf : st.finished = false)
    (h1 : n :: st.path ≠ pRoot) (h2 : n :: st.path ≠ pStyle) (h3 : n :: st.path ≠ pRegion) (h4 : n :: st.path ≠ pTitle)
    (h5 : n :: st.path ≠ pCopy) (h6 : n :: st.path ≠ pPara) (h : step st (.start sp n a) = some st') :
    st' = { st with path := n :: st.path } ∧ st.path ≠ [] := by
  unfold step at h
  simp only [hp, hf, Bool.false_eq_true, if_false] at h
  split at h
  · cases h
  · split at h
    · rename_i heq; exact absurd (map_ofList_eq heq) h1
    · rename_i heq; exact absurd (map_ofList_eq heq) h2
    · rename_i heq; exact absurd (map_ofList_eq heq) h3
    · rename_i heq; exact absurd (map_ofList_eq heq) h4
    · rename_i heq; exact absurd (map_ofList_eq heq) h5
    · rename_i heq; exact absurd (map_ofList_eq heq) h6
    · split at h
      · cases h
      · rename_i hlen
        have hne : st.path ≠ [] := by
          intro e; rw [e] at hlen; simp at hlen
        split at h
        · split at h
          · simp only [Option.some.injEq] at h
            exact ⟨by rw [← h]; simp [hp, hf], hne⟩
          · cases h
        · simp only [Option.some.injEq] at h
          exact ⟨by rw [← h]; simp [hp, hf], hne⟩

theorem dec_text (st st' : St) (s : Str) (hp : st.p = none) (hf : st.finished = false)
    (h : step st (.text s) = some st') :
    (st.path = pTitle ∧ st' = { st with buf := st.buf ++ s }) ∨ (st.path = pCopy ∧ st' = { st with buf := st.buf ++ s }) ∨
    (st.path ≠ pTitle ∧ st.path ≠ pCopy ∧ st' = st) := by
  unfold step at h
  simp only [hp, hf, Bool.false_eq_true, if_false] at h
  split at h
  · rename_i heq
    simp only [Option.some.injEq] at h
    exact .inl ⟨map_ofList_eq heq, by rw [← h]; simp [hp, hf]⟩
  · rename_i heq
    simp only [Option.some.injEq] at h
    exact .inr (.inl ⟨map_ofList_eq heq, by rw [← h]; simp [hp, hf]⟩)
  · rename_i hn1 hn2
    simp only [Option.some.injEq] at h
    refine .inr (.inr ⟨fun e => hn1 (by rw [e]; exact map_title), fun e => hn2 (by rw [e]; exact map_copy), h.symm⟩)

theorem dec_stop (st st' : St) (hp : st.p = none) (hf : st.finished = false) (h : step st .stop = some st') :
    ∃ name rest, st.path = name :: rest ∧
      ((st.path = pTitle ∧ st' = { st with path := rest, finished := rest.isEmpty, doc := { st.doc with title := st.buf } }) ∨
       (st.path = pCopy ∧ st' = { st with path := rest, finished := rest.isEmpty, doc := { st.doc with copyright := st.buf } }) ∨
       (st.path ≠ pTitle ∧ st.path ≠ pCopy ∧ st' = { st with path := rest, finished := rest.isEmpty })) := by
  unfold step at h
  simp only [hp, hf, Bool.false_eq_true, if_false] at h
  cases hpath : st.path with
  | nil => simp [hpath] at h
  | cons name rest =>
    refine ⟨name, rest, rfl, ?_⟩
    simp only [hpath] at h
    split at h
    · rename_i heq
      simp only [Option.some.injEq] at h
      exact .inl ⟨map_ofList_eq heq, by rw [← h]; simp [hp, hf]⟩
    · rename_i heq
      simp only [Option.some.injEq] at h
      exact .inr (.inl ⟨map_ofList_eq heq, by rw [← h]; simp [hp, hf]⟩)
    · rename_i hn1 hn2
      simp only [Option.some.injEq] at h
      refine .inr (.inr ⟨fun e => hn1 (by rw [e]; exact map_title), fun e => hn2 (by rw [e]; exact map_copy), by rw [← h]; simp [hp, hf]⟩)


/-! ## 4. one step in lockstep -/

def tk : XTok → Spec.TTML.Tok
  | .start sp n a => .start sp n a
  | .stop _ _ => .stop
  | .text s => .text s
  | .other => .other

theorem specToks_cons (t : XTok) (T : List XTok) : specToks (t :: T) = tk t :: specToks T := by
  cases t <;> rfl

theorem ustep_fin (u : USt) (t : XTok) (h : u.finished = true) : ustep u t = some u := by
  simp [ustep, h]

theorem ustep_start (u : USt) (hf : u.finished = false) (hc : u.cur = none) (sp n : Str) (a : List XAttr) :
    ustep u (.start sp n a) =
      match ctxOf (n :: u.path) with
      | .root =>
        match intAttr a "frameRate", intAttr a "tickRate" with
        | some fr, some tr => some { u with path := n :: u.path, framerate := fr, tickrate := tr, lang := lastAttr a "lang" }
        | _, _ => none
      | .style => (mkDef a).map fun d => { u with path := n :: u.path, styles := u.styles ++ [d] }
      | .region => (mkDef a).map fun d => { u with path := n :: u.path, regions := u.regions ++ [d] }
      | .title => some { u with path := n :: u.path, buf := [] }
      | .copyright => some { u with path := n :: u.path, buf := [] }
      | .para => (mkSub a).map fun p => { u with path := n :: u.path, cur := some p }
      | .other => if u.path.isEmpty then none else some { u with path := n :: u.path } := by
  simp only [ustep, hf, hc, Bool.false_eq_true, if_false]
  cases ctxOf (n :: u.path) <;> rfl

theorem ustep_text (u : USt) (hf : u.finished = false) (hc : u.cur = none) (s : Str) :
    ustep u (.text s) =
      match ctxOf u.path with
      | .title => some { u with buf := u.buf ++ s }
      | .copyright => some { u with buf := u.buf ++ s }
      | _ => some u := by
  simp only [ustep, hf, hc, Bool.false_eq_true, if_false]
  cases ctxOf u.path <;> rfl

theorem ustep_stop (u : USt) (hf : u.finished = false) (hc : u.cur = none) (sp m name : Str) (rest : List Str)
    (hp : u.path = name :: rest) :
    ustep u (.stop sp m) =
      match ctxOf u.path with
      | .title => some { u with path := rest, title := u.buf }
      | .copyright => some { u with path := rest, copyright := u.buf }
      | _ => some { u with path := rest, finished := rest.isEmpty } := by
  simp only [ustep, hf, hc, Bool.false_eq_true, if_false, hp]
  cases ctxOf (name :: rest) <;> rfl

theorem ustep_other (u : USt) (hc : u.cur = none) : ustep u .other = some u := by
  by_cases hf : u.finished = true
  · exact ustep_fin u _ hf
  · simp [ustep, hf, hc]

theorem rel_init : Rel {} {} :=
  { p := rfl, cur := rfl, path := rfl, fin := rfl, fr := rfl, tr := rfl, frb := by decide, buf := rfl, title := rfl,
    copyright := rfl, lang := rfl, styles := .nil, regions := .nil, cues := .nil, fresh := fun _ _ => ⟨rfl, rfl, rfl⟩ }

theorem sim_step (st st1 : St) (u : USt) (t : XTok) (hR : Rel st u) (hfit : tokFits t = true)
    (h : step st (tk t) = some st1) :
    (∃ u1, ustep u t = some u1 ∧ Rel st1 u1) ∨
    (st.finished = false ∧ ∃ sp n a, t = .start sp n a ∧ n :: st.path = pPara) := by
  by_cases hf : st.finished = true
  · obtain ⟨e, _⟩ := dec_finished st st1 (tk t) hf h
    exact .inl ⟨u, ustep_fin u t (by rw [hR.fin, hf]), by rw [e]; exact hR⟩
  have hf : st.finished = false := by simpa using hf
  have hp := hR.p
  have ufin : u.finished = false := by rw [hR.fin, hf]
  have ucur := hR.cur
  cases t with
  | other =>
    have : st1 = st := by
      have := dec_other st hp hf
      simp only [tk] at h
      rw [this] at h
      exact (Option.some.inj h).symm
    exact .inl ⟨u, ustep_other u ucur, by rw [this]; exact hR⟩
  | text s =>
    left
    simp only [tk] at h
    rcases dec_text st st1 s hp hf h with ⟨hpath, e⟩ | ⟨hpath, e⟩ | ⟨h1, h2, e⟩
    · have hc : ctxOf u.path = .title := by rw [hR.path, hpath]; decide
      refine ⟨{ u with buf := u.buf ++ s }, by rw [ustep_text u ufin ucur, hc], ?_⟩
      subst e
      exact { hR with buf := by simp [hR.buf] }
    · have hc : ctxOf u.path = .copyright := by rw [hR.path, hpath]; decide
      refine ⟨{ u with buf := u.buf ++ s }, by rw [ustep_text u ufin ucur, hc], ?_⟩
      subst e
      exact { hR with buf := by simp [hR.buf] }
    · refine ⟨u, ?_, by rw [e]; exact hR⟩
      rw [ustep_text u ufin ucur]
      rcases ctxOf_cases u.path with ⟨_, hc⟩ | ⟨_, hc⟩ | ⟨_, hc⟩ | ⟨hq, _⟩ | ⟨hq, _⟩ | ⟨_, hc⟩ | ⟨_, _, _, _, _, _, hc⟩
      · rw [hc]
      · rw [hc]
      · rw [hc]
      · exact absurd (hR.path ▸ hq) h1
      · exact absurd (hR.path ▸ hq) h2
      · rw [hc]
      · rw [hc]
  | stop sp m =>
    left
    simp only [tk] at h
    obtain ⟨name, rest, hpath, hcase⟩ := dec_stop st st1 hp hf h
    have upath : u.path = name :: rest := by rw [hR.path, hpath]
    rcases hcase with ⟨hq, e⟩ | ⟨hq, e⟩ | ⟨h1, h2, e⟩
    · have hc : ctxOf u.path = .title := by rw [hR.path, hq]; decide
      have hrest : rest.isEmpty = false := by
        rw [hq] at hpath; cases hpath; rfl
      refine ⟨{ u with path := rest, title := u.buf }, by rw [ustep_stop u ufin ucur sp m name rest upath, hc], ?_⟩
      subst e
      exact { hR with
        path := rfl, fin := by simp [ufin, hrest], title := by simp [hR.buf],
        fresh := fun hh => by simp at hh; rw [hh] at hrest; simp at hrest }
    · have hc : ctxOf u.path = .copyright := by rw [hR.path, hq]; decide
      have hrest : rest.isEmpty = false := by
        rw [hq] at hpath; cases hpath; rfl
      refine ⟨{ u with path := rest, copyright := u.buf }, by rw [ustep_stop u ufin ucur sp m name rest upath, hc], ?_⟩
      subst e
      exact { hR with
        path := rfl, fin := by simp [ufin, hrest], copyright := by simp [hR.buf],
        fresh := fun hh => by simp at hh; rw [hh] at hrest; simp at hrest }
    · refine ⟨{ u with path := rest, finished := rest.isEmpty }, ?_, ?_⟩
      · rw [ustep_stop u ufin ucur sp m name rest upath]
        rcases ctxOf_cases u.path with ⟨_, hc⟩ | ⟨_, hc⟩ | ⟨_, hc⟩ | ⟨hq, _⟩ | ⟨hq, _⟩ | ⟨_, hc⟩ | ⟨_, _, _, _, _, _, hc⟩
        · rw [hc]
        · rw [hc]
        · rw [hc]
        · exact absurd (hR.path ▸ hq) h1
        · exact absurd (hR.path ▸ hq) h2
        · rw [hc]
        · rw [hc]
      · subst e
        exact { hR with
          path := rfl, fin := rfl,
          fresh := fun hh hh2 => by simp at hh hh2; rw [hh] at hh2; simp at hh2 }
  | start sp n a =>
    simp only [tk] at h
    have hfa : a.all attrFits = true := by
      have := hfit
      simp only [tokFits, Bool.and_eq_true] at this
      exact this.1
    have upath : n :: u.path = n :: st.path := by rw [hR.path]
    rcases ctxOf_cases (n :: st.path) with ⟨hq, hc⟩ | ⟨hq, hc⟩ | ⟨hq, hc⟩ | ⟨hq, hc⟩ | ⟨hq, hc⟩ | ⟨hq, _⟩ |
      ⟨h1, h2, h3, h4, h5, h6, hc⟩
    · -- root
      left
      obtain ⟨fr, tr, hfr, htr, hl⟩ := dec_start_root st st1 sp n a hp hf hq h
      obtain ⟨ifr, bfr⟩ := natAttr_intAttr a "frameRate" fr (.inl rfl) hfa hfr
      obtain ⟨itr, _⟩ := natAttr_intAttr a "tickRate" tr (.inr rfl) hfa htr
      have hpe : st.path = [] := (List.cons.inj hq).2
      obtain ⟨hc0, hs0, hl0⟩ := hR.fresh hpe hf
      refine ⟨{ u with path := n :: u.path, framerate := fr, tickrate := tr, lang := lastAttr a "lang" }, ?_, ?_⟩
      · rw [ustep_start u ufin ucur, upath, hc]
        simp only [ifr, itr]
      · rcases hl with ⟨hl, e⟩ | ⟨l, hl, e⟩
        · have := ((attr_unique a "lang" lang_matched hfa).1 hl).2
          subst e
          exact { hR with
            path := by simp [hR.path], fr := rfl, tr := rfl, frb := bfr, lang := by simp [this, hl0],
            cues := by simp only [hc0, hs0]; exact .nil,
            fresh := fun hh => by simp at hh }
        · have := ((attr_unique a "lang" lang_matched hfa).2 l hl).2
          subst e
          exact { hR with
            path := by simp [hR.path], fr := rfl, tr := rfl, frb := bfr, lang := by simp [this],
            cues := by simp only [hc0, hs0]; exact .nil,
            fresh := fun hh => by simp at hh }
    · -- style
      left
      obtain ⟨g, hg, e⟩ := dec_start_style st st1 sp n a hp hf hq h
      obtain ⟨d, hd, hrel⟩ := mkDef_rel a g hfa hg
      refine ⟨{ u with path := n :: u.path, styles := u.styles ++ [d] }, ?_, ?_⟩
      · rw [ustep_start u ufin ucur, upath, hc]
        simp only [hd, Option.map_some]
      · subst e
        exact { hR with
          path := by simp [hR.path], styles := hR.styles.snoc hrel, fresh := fun hh => by simp at hh }
    · -- region
      left
      obtain ⟨g, hg, e⟩ := dec_start_region st st1 sp n a hp hf hq h
      obtain ⟨d, hd, hrel⟩ := mkDef_rel a g hfa hg
      refine ⟨{ u with path := n :: u.path, regions := u.regions ++ [d] }, ?_, ?_⟩
      · rw [ustep_start u ufin ucur, upath, hc]
        simp only [hd, Option.map_some]
      · subst e
        exact { hR with
          path := by simp [hR.path], regions := hR.regions.snoc hrel, fresh := fun hh => by simp at hh }
    · -- title
      left
      have e := dec_start_title st st1 sp n a hp hf (.inl hq) h
      refine ⟨{ u with path := n :: u.path, buf := [] }, by rw [ustep_start u ufin ucur, upath, hc], ?_⟩
      subst e
      exact { hR with path := by simp [hR.path], buf := rfl, fresh := fun hh => by simp at hh }
    · -- copyright
      left
      have e := dec_start_title st st1 sp n a hp hf (.inr hq) h
      refine ⟨{ u with path := n :: u.path, buf := [] }, by rw [ustep_start u ufin ucur, upath, hc], ?_⟩
      subst e
      exact { hR with path := by simp [hR.path], buf := rfl, fresh := fun hh => by simp at hh }
    · -- paragraph: crossed in one jump by the caller
      exact .inr ⟨hf, sp, n, a, rfl, hq⟩
    · -- anything else
      left
      obtain ⟨e, hne⟩ := dec_start_other st st1 sp n a hp hf h1 h2 h3 h4 h5 h6 h
      have une : u.path.isEmpty = false := by
        rw [hR.path]; cases hh : st.path with
        | nil => exact absurd hh hne
        | cons _ _ => rfl
      refine ⟨{ u with path := n :: u.path }, ?_, ?_⟩
      · rw [ustep_start u ufin ucur, upath, hc]
        simp [une]
      · subst e
        exact { hR with path := by simp [hR.path], fresh := fun hh => by simp at hh }


/-! ## 5. the whole document -/

theorem para_jump (st stF : St) (u : USt) (sp n : Str) (a : List XAttr) (T : List XTok)
    (hR : Rel st u) (hf : st.finished = false) (hq : n :: st.path = pPara)
    (hfit : (XTok.start sp n a :: T).all tokFits = true)
    (hrun : run (specToks (XTok.start sp n a :: T)) st = some stF) (hfin : stF.finished = true) :
    ∃ (R : List XTok) (st2 : St) (u2 : USt), R.length ≤ T.length ∧ R.all tokFits = true ∧
      run (specToks R) st2 = some stF ∧ urun (XTok.start sp n a :: T) u = urun R u2 ∧ Rel st2 u2 := by
  obtain ⟨hft, hfT⟩ := fits_cons hfit
  have hfa : a.all attrFits = true := by
    simp only [tokFits, Bool.and_eq_true] at hft
    exact hft.1
  have hp := hR.p
  have ufin : u.finished = false := by rw [hR.fin, hf]
  have ucur := hR.cur
  rw [specToks_cons, run_cons] at hrun
  cases hstep : step st (tk (XTok.start sp n a)) with
  | none => rw [hstep] at hrun; cases hrun
  | some st1 =>
    rw [hstep] at hrun
    simp only at hrun
    obtain ⟨b, e, cb, ce, sty, reg, sa, hb, he, hsty, hreg, hsa, hcb, hce, est⟩ :=
      dec_start_para st st1 sp n a hp hf hq hstep
    have hbl : ({ st with path := n :: st.path } : St).path.length = 4 := by
      show (n :: st.path).length = 4
      rw [hq]; rfl
    rw [est] at hrun
    obtain ⟨r, R, its, eT, hpb, hg, hr⟩ :=
      (para_all T).1 { st with path := n :: st.path } { b := cb, e := ce, style := sty, region := reg, attrs := sa } stF
        rfl rfl hbl hfT hrun hfin
    obtain ⟨kv, hkv, hview⟩ := styling_inAttrs a sa hfa hsa
    -- the contract machine
    have hc : ctxOf (n :: u.path) = .para := by rw [hR.path, hq]; decide
    obtain ⟨ub, eub⟩ : ∃ ub : USt, ub = { u with path := n :: u.path } := ⟨_, rfl⟩
    obtain ⟨s0, es0⟩ : ∃ s0 : InSub, s0 =
      { begins := allAttr a "begin", ends := allAttr a "end", id := lastAttr a "id", region := lastAttr a "region",
        style := lastAttr a "style", attrs := kv, inner := [], stripped := [], toks := [], toksOk := true } := ⟨_, rfl⟩
    have hul : ub.path.length = 4 := by
      rw [eub]
      show (n :: u.path).length = 4
      rw [hR.path, hq]; rfl
    obtain ⟨body, sp1, n1, er, hur, hpb'⟩ := urun_para hpb R ub s0 hul
    have hstepU : ustep u (XTok.start sp n a) = some (inU ub [] s0) := by
      rw [ustep_start u ufin ucur, hc, eub, es0]
      simp [mkSub, hkv, inU, ufin]
    refine ⟨R, _, closeU ub (addTok s0 body), ?_, ?_, hr, ?_, ?_⟩
    · rw [eT]; simp
    · rw [eT] at hfT; simp only [List.all_append, Bool.and_eq_true] at hfT; exact hfT.2
    · rw [urun_some T hstepU, eT, hur]
    · have hpl : st.path.isEmpty = false := by
        have := (List.cons.inj hq).2
        rw [this]; rfl
      have hreg' := ref_lastAttr a "region" reg region_matched hfa hreg
      have hsty' := ref_lastAttr a "style" sty style_matched hfa hsty
      have hcue : CueRel st.fr st.tr
          { b := cb, e := ce, style := sty, region := reg, attrs := sa,
            lines := (semP mkTG mkSG its ([], [])).1 ++ [(semP mkTG mkSG its ([], [])).2] }
          (addTok s0 body) := by
        rw [es0]
        refine ⟨⟨b, e, ((attr_unique a "begin" begin_matched hfa).2 b hb).1, ((attr_unique a "end" end_matched hfa).2 e he).1,
          hcb, hce, timeFits_of_attr a "begin" b (.inl rfl) hfa hb, timeFits_of_attr a "end" e (.inr rfl) hfa he⟩,
          hreg'.1, hreg'.2, hsty'.1, hsty'.2, by rw [attrView_eq]; exact hview, its, ?_, hg, rfl⟩
        have := hpb' [] ['p']
        simpa [addTok, pStop] using this
      have hpathU : (closeU ub (addTok s0 body)).path = st.path := by
        rw [eub]; simp [closeU, hR.path]
      refine
        { p := rfl
          cur := rfl
          path := hpathU
          fin := (by rw [eub]; simp [closeU, closeP, hpl])
          fr := (by rw [eub]; exact hR.fr)
          tr := (by rw [eub]; exact hR.tr)
          frb := hR.frb
          buf := (by rw [eub]; exact hR.buf)
          title := (by rw [eub]; exact hR.title)
          copyright := (by rw [eub]; exact hR.copyright)
          lang := (by rw [eub]; exact hR.lang)
          styles := (by rw [eub]; exact hR.styles)
          regions := (by rw [eub]; exact hR.regions)
          cues := (by rw [eub]; exact hR.cues.snoc hcue)
          fresh := ?_ }
      intro hh
      simp [closeP] at hh
      rw [hh] at hpl
      simp at hpl

theorem sim : ∀ (k : Nat) (T : List XTok) (st stF : St) (u : USt), T.length ≤ k → Rel st u → T.all tokFits = true →
    run (specToks T) st = some stF → stF.finished = true →
    ∃ uF, urun T u = some uF ∧ Rel stF uF := by
  intro k
  induction k with
  | zero =>
    intro T st stF u hl hR _ hrun _
    have : T = [] := List.length_eq_zero_iff.mp (Nat.le_zero.mp hl)
    subst this
    simp only [specToks, List.map_nil, run, Option.some.injEq] at hrun
    exact ⟨u, rfl, hrun ▸ hR⟩
  | succ k ih =>
    intro T st stF u hl hR hfit hrun hfin
    cases T with
    | nil =>
      simp only [specToks, List.map_nil, run, Option.some.injEq] at hrun
      exact ⟨u, rfl, hrun ▸ hR⟩
    | cons t T =>
      have hrun0 := hrun
      rw [specToks_cons, run_cons] at hrun
      cases hstep : step st (tk t) with
      | none => rw [hstep] at hrun; cases hrun
      | some st1 =>
        rw [hstep] at hrun
        simp only at hrun
        obtain ⟨hft, hfT⟩ := fits_cons hfit
        rcases sim_step st st1 u t hR hft hstep with ⟨u1, hu1, hR1⟩ | ⟨hf, sp, n, a, et, hq⟩
        · obtain ⟨uF, huF, hRF⟩ := ih T st1 stF u1 (by simpa using hl) hR1 hfT hrun hfin
          exact ⟨uF, by rw [urun_some T hu1]; exact huF, hRF⟩
        · subst et
          obtain ⟨R, st2, u2, hlen, hfR, hr, hur, hR2⟩ := para_jump st stF u sp n a T hR hf hq hfit hrun0 hfin
          obtain ⟨uF, huF, hRF⟩ := ih R st2 stF u2 (by simp at hl; omega) hR2 hfR hr hfin
          exact ⟨uF, by rw [hur]; exact huF, hRF⟩

def okR (r : Option Str) (ids : List Str) : Bool := match r with | none => true | some x => ids.contains x

theorem okR_iff (r : Option Str) (ids : List Str) : okR r ids = true ↔ ∀ v, r = some v → v ∈ ids := by
  cases r with
  | none => simp [okR]
  | some x => simp [okR]

/-- what the decoder checks at the end -/
def finalOk (d : GDoc) : Bool :=
  Spec.TTML.nodup (d.styles.map (·.id)) && Spec.TTML.nodup (d.regions.map (·.id))
    && d.styles.all (fun s => okR s.ref (d.styles.map (·.id))) && d.regions.all (fun s => okR s.ref (d.styles.map (·.id)))
    && d.cues.all (fun c => okR c.style (d.styles.map (·.id)) && okR c.region (d.regions.map (·.id)) &&
        c.lines.all fun l => l.all fun r => okR r.style (d.styles.map (·.id)))

theorem decode_inv (toks : List Spec.TTML.Tok) (d : GDoc) (h : Spec.TTML.decode toks = some d) :
    ∃ stF, run toks {} = some stF ∧ stF.finished = true ∧ stF.doc = d ∧ finalOk d = true := by
  unfold Spec.TTML.decode at h
  cases hr : run toks {} with
  | none => rw [hr] at h; cases h
  | some stF =>
    rw [hr] at h
    simp only at h
    cases hf : stF.finished with
    | false => simp [hf] at h
    | true =>
      simp only [hf, Bool.not_true, Bool.false_eq_true, if_false] at h
      split at h
      · rename_i hc
        simp only [Option.some.injEq] at h
        exact ⟨stF, rfl, hf, h, by rw [← h]; exact hc⟩
      · cases h

/-- **The decoder and the contract agree on every document of the class**: if the decoder accepts, `Decode(&TTMLIn)`
    succeeds, and the two final states are related field by field. -/
theorem decode_unmarshal (toks : List XTok) (d : GDoc) (h : Spec.TTML.decode (specToks toks) = some d)
    (hc : InClass toks = true) :
    ∃ stF uF, stF.doc = d ∧ finalOk d = true ∧ unmarshal toks = some (tinOf uF) ∧ Rel stF uF := by
  obtain ⟨stF, hrun, hfin, hd, hfo⟩ := decode_inv _ d h
  obtain ⟨uF, hu, hR⟩ := sim toks.length toks {} stF {} (Nat.le_refl _) rel_init hc hrun hfin
  refine ⟨stF, uF, hd, hfo, ?_, hR⟩
  unfold unmarshal
  rw [hu]
  simp [hR.fin, hfin]

end TTMLR
end Astisub
