import Astisub.Model.SRT
import Astisub.Props.C01
import Astisub.Lemmas.SRTTok

/-!
# Lemmas/SRTDoc — vocabulary of the SubRip document-level round trip

* `styleOf`  : the markup `runBytes` emits for a run (what the writer looks at in the attributes);
* `Rep`      : the cue lists SubRip can carry (decidable);
* `norm`     : what the format forces on a cue list (times truncated to the ms, cues renumbered,
               attributes rebuilt from the four SubRip markers, everything else dropped);
* `linesFrom` : the text lines of the written document, and `write_eq_lines`: `SRT.write` is these
               lines, each ended by LF, behind a BOM, without the very last LF.
-/

namespace Astisub
namespace SRTDoc
open Go SRT List

/-! ## the markup of a run -/

/-- the style `LineItem.srtBytes` renders: bold / italics / underline when the attribute is set,
    a colour when `SRTColor` is set and not empty -/
def styleOf (li : LItem) : Run :=
  { bold := (kvGet li.attrs "SRTBold").isSome
    italics := (kvGet li.attrs "SRTItalics").isSome
    underline := (kvGet li.attrs "SRTUnderline").isSome
    color := match kvGet li.attrs "SRTColor" with
      | some c => if c ≠ [] then some c else none
      | none => none }

/-- does the writer put any tag around the run? (same test as in `runAttrs`) -/
def styled (r : Run) : Bool := r.bold || r.color.isSome || r.italics || r.underline

def nbsp : Char := Char.ofNat 0xA0

/-- a character that is still there after `strings.TrimSpace` of the written line: anything that
    is not white space, and the no-break space (written as `&nbsp;`) -/
def visible (c : Char) : Bool := !isSpace c || c == nbsp

/-- a colour value that survives: no `"` (ends the attribute), no `&` (entity decoding: outside the
    tokenizer model), no `>` (rejected by the independent decoder, and could complete a `-->`),
    no line break, no NUL -/
def colorRep (c : Str) : Bool :=
  c.all fun ch => ch != '"' && ch != '&' && ch != '>' && ch != '\n' && ch != '\r' && ch != '\x00'

/-- a run SubRip can carry -/
def RepRun (li : LItem) : Bool :=
  li.text.any visible                                                   -- some ink: blank runs are dropped by the reader
  && li.text.all (fun c => c != '\n' && c != '\r' && c != '\x00')      -- no line break inside a run; NUL: outside the tokenizer model
  && !contains arrow li.text                                            -- a line containing "-->" is a timing line
  && ((kvGet li.attrs "SRTPosition").getD [] == [])                     -- `{\an8}` is not read back
  && (match (styleOf li).color with | some c => colorRep c | none => true)

def plainRun (li : LItem) : Bool := !styled (styleOf li)

/-- no two unstyled runs next to each other (they would be written without anything between them
    and read back as one run) -/
def noAdjPlain : List LItem → Bool
  | a :: b :: r => !(plainRun a && plainRun b) && noAdjPlain (b :: r)
  | _ => true

/-- a line SubRip can carry: at least one run, every run representable, no two adjacent unstyled
    runs; the line does not begin or end with white space that `strings.TrimSpace` would remove
    (only possible when the first / last run is unstyled) -/
def RepLine (l : Line) : Bool :=
  !l.items.isEmpty && l.items.all RepRun && noAdjPlain l.items
  && (match l.items.head? with | some li => styled (styleOf li) || (li.text.head?.any visible) | none => false)
  && (match l.items.getLast? with | some li => styled (styleOf li) || (li.text.getLast?.any visible) | none => false)

def hundredHours : Int := 360000000000000

/-- a cue SubRip can carry: both instants in `[0, 100 h)`, every line representable -/
def RepItem (it : CItem) : Bool :=
  decide (0 ≤ it.startAt) && decide (it.startAt < hundredHours) && decide (0 ≤ it.endAt) && decide (it.endAt < hundredHours)
  && it.lines.all RepLine

/-- **Representable cue lists.** at least one cue (the writer refuses an empty list), no more cues
    than an `int` counts (the index is read back through `strconv.Atoi`), every cue representable -/
def Rep (s : Subs) : Bool :=
  !s.items.isEmpty && decide (s.items.length ≤ int64Max) && s.items.all RepItem

/-! ### non-vacuity: concrete values that satisfy / violate the predicates -/

/-- two cues; styled and unstyled runs on one line, a colour, text with `<`, `&`, `->`, a no-break
    space, an instant with a sub-millisecond part, the last representable instant, things SubRip
    drops (voice, inline style reference, a style table) -/
def exampleSubs : Subs :=
  { items := [
      { startAt := 1234567890, endAt := 3000000000, index := 7,
        lines := [ { items := [ { text := "Hello ".toList },
                                { text := "a < b & c".toList,
                                  attrs := some [("SRTBold".toList, "true".toList), ("SRTColor".toList, "#ff0000".toList)] },
                                { text := " tail".toList } ] },
                   { items := [ { text := "second -> line".toList,
                                  attrs := some [("SRTItalics".toList, "true".toList), ("SRTUnderline".toList, "true".toList)] } ] } ] },
      { startAt := 359999999999999, endAt := 4000000000,
        lines := [ { voice := "v".toList, items := [ { text := [Char.ofNat 0xA0], style := some "s".toList } ] } ] } ],
    styles := [ { id := "s".toList } ] }

example : Rep exampleSubs = true := by decide
example : RepItem { startAt := 0, endAt := 1, lines := [] } = true := by decide          -- a cue without text is fine for the library
example : RepLine { items := [{ text := "x y".toList }] } = true := by decide
example : RepRun { text := " ".toList, attrs := some [("SRTBold".toList, "true".toList)] } = false := by decide  -- no ink
example : RepLine { items := [{ text := " x".toList }] } = false := by decide             -- leading blank: trimmed by the reader
example : RepLine { items := [{ text := "a".toList }, { text := "b".toList }] } = false := by decide  -- read back as one run
example : RepRun { text := "a --> b".toList } = false := by decide
example : RepRun { text := "a".toList, attrs := some [("SRTPosition".toList, "8".toList)] } = false := by decide
example : RepRun { text := "a".toList, attrs := some [("SRTColor".toList, "\"".toList)] } = false := by decide
example : RepRun { text := "a".toList, attrs := some [("SRTColor".toList, [])] } = true := by decide    -- an empty colour is not written
example : Rep { items := [] } = false := by decide

/-! ## normalisation -/

def truncMs (t : Int) : Int := t - t % 1000000

/-- the run as it comes back: same text; the attributes are the ones the reader derives from the
    four SubRip markers (`SRTBold`, `SRTColor`, `SRTItalics`, `SRTUnderline` and the propagated
    `TTMLColor`, `WebVTTBold`, `WebVTTItalics`, `WebVTTUnderline`, `WebVTTTags`); anything else
    (inline style reference, start offset, other attributes) is not carried by the format -/
def normRun (li : LItem) : LItem := { text := li.text, attrs := runAttrs (styleOf li) }

def normLine (l : Line) : Line := { items := l.items.map normRun }

/-- the `k`-th cue (0-based) as it comes back: numbered `k+1`, instants truncated to the millisecond -/
def normItem (k : Nat) (it : CItem) : CItem :=
  { index := (k : Int) + 1, startAt := truncMs it.startAt, endAt := truncMs it.endAt, lines := it.lines.map normLine }

def normItems : Nat → List CItem → List CItem
  | _, [] => []
  | k, it :: rest => normItem k it :: normItems (k + 1) rest

/-- **Normal form.** what a SubRip file keeps of a cue list -/
def norm (s : Subs) : Subs := { items := normItems 0 s.items }

/-! ## the lines of the written document -/

def lineStr (l : Line) : Str := (l.items.map runBytes).flatten

def timingStr (it : CItem) : Str := Duration.formatSRT it.startAt ++ " --> ".toList ++ Duration.formatSRT it.endAt

/-- index line, timing line, text lines -/
def blockLines (k : Nat) (it : CItem) : List Str := itoaNat (k + 1) :: timingStr it :: it.lines.map lineStr

/-- the blocks of the cues numbered from `k+1` on, each followed by one empty line -/
def linesFrom : Nat → List CItem → List Str
  | _, [] => []
  | k, it :: rest => blockLines k it ++ [] :: linesFrom (k + 1) rest

/-- `lines.map (· ++ "\n")`, concatenated -/
def unlines (ls : List Str) : Str := ls.flatMap fun l => l ++ ['\n']

theorem unlines_append (a b : List Str) : unlines (a ++ b) = unlines a ++ unlines b := by
  simp [unlines]

theorem unlines_cons (a : Str) (b : List Str) : unlines (a :: b) = a ++ '\n' :: unlines b := by
  simp [unlines]

theorem itemBytes_eq (k : Nat) (it : CItem) : itemBytes k it = unlines (blockLines k it ++ [[]]) := by
  unfold itemBytes blockLines timingStr lineBytes lineStr
  simp [unlines, List.flatMap_def, Function.comp_def]

theorem items_bytes_eq (items : List CItem) (k : Nat) :
    ((items.zipIdx k).map fun (it, k) => itemBytes k it).flatten = unlines (linesFrom k items) := by
  induction items generalizing k with
  | nil => rfl
  | cons it rest ih =>
    rw [List.zipIdx_cons, List.map_cons, List.flatten_cons, ih (k + 1)]
    show itemBytes k it ++ _ = _
    rw [itemBytes_eq]
    simp [linesFrom, unlines_append, unlines_cons]
    rfl

theorem linesFrom_ne_nil (k : Nat) (it : CItem) (rest : List CItem) : linesFrom k (it :: rest) ≠ [] := by
  simp [linesFrom, blockLines]

/-- every non-empty `linesFrom` ends with the empty line -/
theorem linesFrom_last (k : Nat) (items : List CItem) (h : items ≠ []) :
    ∃ init, linesFrom k items = init ++ [[]] := by
  induction items generalizing k with
  | nil => exact absurd rfl h
  | cons it rest ih =>
    cases rest with
    | nil => exact ⟨blockLines k it, by simp [linesFrom]⟩
    | cons it' rest' =>
      obtain ⟨init, hi⟩ := ih (k + 1) (by simp)
      exact ⟨blockLines k it ++ [] :: init, by simp [linesFrom] at hi ⊢; exact hi⟩

/-- **Shape of the written document.** BOM, then every line followed by LF, without the last LF -/
theorem write_eq_lines (s : Subs) (h : s.items ≠ []) :
    write s = some (bom ++ (unlines (linesFrom 0 s.items)).dropLast) := by
  unfold write
  have : s.items.isEmpty = false := by cases hs : s.items with | nil => exact absurd hs h | cons => rfl
  simp only [this, Bool.false_eq_true, ↓reduceIte]
  rw [items_bytes_eq]

end SRTDoc
end Astisub
