/-!
# Lemmas/OvfBasic — `int64` wrap-around arithmetic

The transformation and timestamp models compute in unbounded `Int`; Go computes in
`time.Duration` = `int64` (and `int`, 64 bits on every supported target), where `+`, `-`, `*` and
unary minus wrap around silently. This file defines the wrap-around operations; the files
`Lemmas/Ovf*.lean` re-evaluate every modelled operation with them, step by step, and prove that
inside explicit ranges no step wraps.
-/

namespace Astisub
namespace Ovf

/-- `x` is representable as an `int64` -/
def fits64 (x : Int) : Prop := -9223372036854775808 ≤ x ∧ x < 9223372036854775808

instance (x : Int) : Decidable (fits64 x) := by unfold fits64; infer_instance

/-- the same predicate written with powers of two -/
theorem fits64_iff (x : Int) : fits64 x ↔ -2 ^ 63 ≤ x ∧ x < 2 ^ 63 := by
  unfold fits64; constructor <;> intro h <;> omega

/-- reduction into `[-2^63, 2^63)`: what an `int64` register holds after an operation whose
    mathematical result is `x` -/
def wrap (x : Int) : Int := (x + 9223372036854775808) % 18446744073709551616 - 9223372036854775808

theorem wrap_def (x : Int) : wrap x = (x + 2 ^ 63) % 2 ^ 64 - 2 ^ 63 := by
  unfold wrap; omega

/-- a register always holds a representable value -/
theorem wrap_fits (x : Int) : fits64 (wrap x) := by
  unfold fits64 wrap; omega

/-- a representable value is stored unchanged -/
theorem wrap_of_fits {x : Int} (h : fits64 x) : wrap x = x := by
  unfold fits64 at h; unfold wrap; omega

/-- … and only a representable value is -/
theorem wrap_eq_iff (x : Int) : wrap x = x ↔ fits64 x :=
  ⟨fun h => h ▸ wrap_fits x, wrap_of_fits⟩

/-- wrapping is congruent to the exact result modulo 2^64 -/
theorem wrap_mod (x : Int) : (wrap x - x) % 18446744073709551616 = 0 := by
  unfold wrap; omega

/-- Go `a + b` on `int64` -/
def wadd (a b : Int) : Int := wrap (a + b)
/-- Go `a - b` on `int64` -/
def wsub (a b : Int) : Int := wrap (a - b)
/-- Go `a * b` on `int64` -/
def wmul (a b : Int) : Int := wrap (a * b)
/-- Go `-a` on `int64` -/
def wneg (a : Int) : Int := wrap (-a)
/-- Go `a / b` on `int64` (truncated; the only quotient that does not fit is `MinInt64 / -1`) -/
def wdiv (a b : Int) : Int := wrap (Int.tdiv a b)
/-- Go `a % b` on `int64` (sign of the dividend) -/
def wmod (a b : Int) : Int := Int.tmod a b

theorem wadd_eq {a b : Int} (h : fits64 (a + b)) : wadd a b = a + b := wrap_of_fits h
theorem wsub_eq {a b : Int} (h : fits64 (a - b)) : wsub a b = a - b := wrap_of_fits h
theorem wmul_eq {a b : Int} (h : fits64 (a * b)) : wmul a b = a * b := wrap_of_fits h
theorem wneg_eq {a : Int} (h : fits64 (-a)) : wneg a = -a := wrap_of_fits h

/-- multiplying a representable value by 1 (`… * time.Nanosecond`) changes nothing -/
theorem wmul_one {a : Int} (h : fits64 a) : wmul a 1 = a := by
  unfold wmul; rw [Int.mul_one]; exact wrap_of_fits h

/-! ### witnesses: each operation really wraps just outside the range -/

example : wadd 9223372036854775807 1 = -9223372036854775808 := by decide
example : wsub (-9223372036854775808) 1 = 9223372036854775807 := by decide
example : wmul 4294967296 4294967296 = 0 := by decide
example : wneg (-9223372036854775808) = -9223372036854775808 := by decide
example : fits64 9223372036854775807 ∧ fits64 (-9223372036854775808) ∧ ¬ fits64 9223372036854775808 := by
  decide

/-! ### division and remainder never overflow for a divisor other than `-1` -/

/-- truncated division by a positive divisor stays between 0 and the dividend -/
theorem tdiv_bounds {a c : Int} (hc : 0 < c) :
    (0 ≤ a → 0 ≤ Int.tdiv a c ∧ Int.tdiv a c ≤ a) ∧ (a ≤ 0 → a ≤ Int.tdiv a c ∧ Int.tdiv a c ≤ 0) := by
  constructor
  · intro ha
    rw [Int.tdiv_eq_ediv_of_nonneg ha]
    constructor
    · exact Int.ediv_nonneg ha (Int.le_of_lt hc)
    · exact Int.ediv_le_self c ha
  · intro ha
    have h0 : 0 ≤ -a := by omega
    have e : Int.tdiv a c = -Int.tdiv (-a) c := by rw [Int.neg_tdiv, Int.neg_neg]
    rw [e, Int.tdiv_eq_ediv_of_nonneg h0]
    have h1 := Int.ediv_nonneg h0 (Int.le_of_lt hc)
    have h2 := Int.ediv_le_self c h0
    omega

/-- **`/` by a positive constant cannot overflow** -/
theorem fits64_tdiv {a c : Int} (ha : fits64 a) (hc : 0 < c) : fits64 (Int.tdiv a c) := by
  unfold fits64 at *
  have h := tdiv_bounds (a := a) hc
  by_cases h0 : 0 ≤ a
  · have := h.1 h0; omega
  · have := h.2 (by omega); omega

theorem wdiv_eq {a c : Int} (ha : fits64 a) (hc : 0 < c) : wdiv a c = Int.tdiv a c :=
  wrap_of_fits (fits64_tdiv ha hc)

/-- **`%` cannot overflow**: the remainder is smaller in magnitude than the divisor -/
theorem fits64_tmod {a c : Int} (hc : fits64 c) (hc0 : c ≠ 0) : fits64 (Int.tmod a c) := by
  unfold fits64 at *
  have h1 := Int.tmod_lt_of_pos a (b := c.natAbs) (by omega)
  have h2 : -(c.natAbs : Int) < Int.tmod a c.natAbs := Int.lt_tmod_of_pos a (by omega)
  have e : Int.tmod a (c.natAbs : Int) = Int.tmod a c := by
    rcases Int.natAbs_eq c with h | h
    · rw [← h]
    · have : (c.natAbs : Int) = -c := by omega
      rw [this, Int.tmod_neg]
  rw [e] at h1 h2
  omega

/-- the one quotient that does not fit -/
example : ¬ fits64 (Int.tdiv (-9223372036854775808) (-1)) := by decide

/-- for a non-negative dividend and positive divisor Go's `/`, `%` are the `/`, `%` on `Nat` that the
    timestamp models use -/
theorem tdiv_toNat {a c : Int} (ha : 0 ≤ a) (hc : 0 < c) : (Int.tdiv a c).toNat = a.toNat / c.toNat := by
  rw [Int.tdiv_eq_ediv_of_nonneg ha]
  have h1 : (a.toNat : Int) = a := Int.toNat_of_nonneg ha
  have h2 : (c.toNat : Int) = c := Int.toNat_of_nonneg (Int.le_of_lt hc)
  have : a / c = ((a.toNat / c.toNat : Nat) : Int) := by rw [Int.natCast_ediv, h1, h2]
  rw [this]; rfl

theorem tmod_toNat {a c : Int} (ha : 0 ≤ a) (hc : 0 < c) : (Int.tmod a c).toNat = a.toNat % c.toNat := by
  rw [Int.tmod_eq_emod_of_nonneg ha]
  have h1 : (a.toNat : Int) = a := Int.toNat_of_nonneg ha
  have h2 : (c.toNat : Int) = c := Int.toNat_of_nonneg (Int.le_of_lt hc)
  have : a % c = ((a.toNat % c.toNat : Nat) : Int) := by rw [Int.natCast_emod, h1, h2]
  rw [this]; rfl

end Ovf
end Astisub
