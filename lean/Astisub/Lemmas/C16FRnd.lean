import Astisub.Lemmas.C16FFloor

/-!
# Lemmas/C16FRnd — the roundings of the timestamp writers never cross an integer

Pure facts about `F53.rnd` (binary64 round-to-nearest-even on ℚ):

* `rnd_ge_int`, `rnd_le_int`: rounding never crosses an integer (|q| ≤ 2⁵³);
* `floor_two_div`: `⌊rnd (rnd (n / 10⁶) / k)⌋ = n / (10⁶·k)` for `0 ≤ n < 10⁹`, `1 ≤ k ≤ 1000`
  (the fraction field of `formatDuration`);
* `floor_add_div`: `⌊rnd (q + rnd (r / D))⌋ = q` for `0 ≤ q < 4096`, `0 ≤ r < D ≤ 3.6·10¹²`
  (`math.Floor(d.Hours())`, `…Minutes()`, `…Seconds()` of `formatDurationSTL`).
-/

namespace Astisub
namespace F53

/-- if an integer `q` (|q| ≤ 2⁵³) is below `x`, it is below the double nearest to `x` -/
theorem rnd_ge_int {x : ℚ} (q : ℤ) (hq : |q| ≤ 2 ^ 53) (h : (q : ℚ) ≤ x) : (q : ℚ) ≤ rnd x := by
  have := rnd_mono h
  rwa [rnd_int q hq] at this

/-- if an integer `q` (|q| ≤ 2⁵³) is above `x`, it is above the double nearest to `x` -/
theorem rnd_le_int {x : ℚ} (q : ℤ) (hq : |q| ≤ 2 ^ 53) (h : x ≤ (q : ℚ)) : rnd x ≤ (q : ℚ) := by
  have := rnd_mono h
  rwa [rnd_int q hq] at this

/-- absolute error of rounding a value in `[0, B]` -/
theorem rnd_le_add {x B : ℚ} (h0 : 0 ≤ x) (hB : x ≤ B) : rnd x ≤ x + B / 2 ^ 53 := by
  have h := rnd_err x
  rw [abs_of_nonneg h0] at h
  have h1 := (abs_le.mp h).2
  have h2 : x * (1 / 2 ^ 53) ≤ B * (1 / 2 ^ 53) := mul_le_mul_of_nonneg_right hB (by positivity)
  have h3 : B * (1 / 2 ^ 53) = B / 2 ^ 53 := by ring
  linarith

/-- **Two divisions.** For `0 ≤ n < 10⁹` and `1 ≤ k ≤ 1000` the floor of the twice-rounded
    quotient `(n / 10⁶) / k` is the integer quotient `n / (10⁶·k)`: the exact quotient is at least
    `10⁻⁹` below the next integer, the two roundings move it by less than `2.3·10⁻¹³`. -/
theorem floor_two_div (n k : ℤ) (hn0 : 0 ≤ n) (hn : n < 1000000000) (hk1 : 1 ≤ k) (hk : k ≤ 1000) :
    ⌊rnd (rnd ((n : ℚ) / 1000000) / (k : ℚ))⌋ = n / (1000000 * k) := by
  have hD : 0 < 1000000 * k := by omega
  have h1 : n / (1000000 * k) * (1000000 * k) ≤ n := Int.ediv_mul_le n (ne_of_gt hD)
  have h2 : n < (n / (1000000 * k) + 1) * (1000000 * k) := Int.lt_ediv_add_one_mul_self n hD
  have hq0 : 0 ≤ n / (1000000 * k) := Int.ediv_nonneg hn0 (le_of_lt hD)
  generalize n / (1000000 * k) = q at h1 h2 hq0 ⊢
  have hqk : q * k ≤ 999 := by nlinarith
  have hqk0 : 0 ≤ q * k := by nlinarith
  have hq999 : q ≤ 999 := by nlinarith
  -- the same facts in ℚ
  have hkQ1 : (1 : ℚ) ≤ (k : ℚ) := by exact_mod_cast hk1
  have hkQ : (k : ℚ) ≤ 1000 := by exact_mod_cast hk
  have hkpos : (0 : ℚ) < (k : ℚ) := by linarith
  have hq0Q : (0 : ℚ) ≤ (q : ℚ) := by exact_mod_cast hq0
  have hq999Q : (q : ℚ) ≤ 999 := by exact_mod_cast hq999
  have h1Q : (q : ℚ) * (1000000 * (k : ℚ)) ≤ (n : ℚ) := by exact_mod_cast h1
  have h2Q : (n : ℚ) + 1 ≤ ((q : ℚ) + 1) * (1000000 * (k : ℚ)) := by
    have : n + 1 ≤ (q + 1) * (1000000 * k) := by omega
    exact_mod_cast this
  have hnQ : (n : ℚ) < 1000000000 := by exact_mod_cast hn
  have hn0Q : (0 : ℚ) ≤ (n : ℚ) := by exact_mod_cast hn0
  -- x = n / 10⁶
  have hx0 : (0 : ℚ) ≤ (n : ℚ) / 1000000 := by positivity
  have hx1000 : (n : ℚ) / 1000000 ≤ 1000 := by rw [div_le_iff₀ (by norm_num)]; linarith
  have hxlo : ((q * k : ℤ) : ℚ) ≤ (n : ℚ) / 1000000 := by
    rw [le_div_iff₀ (by norm_num)]; push_cast; linarith
  have hxhi : (n : ℚ) / 1000000 ≤ ((q : ℚ) + 1) * (k : ℚ) - 1 / 1000000 := by
    rw [div_le_iff₀ (by norm_num)]; linarith
  -- a = rnd x
  have halo : (q : ℚ) * (k : ℚ) ≤ rnd ((n : ℚ) / 1000000) := by
    have := rnd_ge_int (q * k) (by rw [abs_of_nonneg hqk0]; omega) hxlo
    push_cast at this; exact this
  have hahi : rnd ((n : ℚ) / 1000000) ≤ (n : ℚ) / 1000000 + 1000 / 2 ^ 53 := rnd_le_add hx0 hx1000
  generalize rnd ((n : ℚ) / 1000000) = a at halo hahi
  -- y = a / k
  have hylo : ((q : ℤ) : ℚ) ≤ a / (k : ℚ) := by rw [le_div_iff₀ hkpos]; exact halo
  have hyhi : a / (k : ℚ) ≤ (q : ℚ) + 1 - 1 / 1000000000 + 1000 / 2 ^ 53 := by
    rw [div_le_iff₀ hkpos]
    have e : ((q : ℚ) + 1 - 1 / 1000000000 + 1000 / 2 ^ 53) * (k : ℚ)
        = ((q : ℚ) + 1) * (k : ℚ) - (k : ℚ) / 1000000000 + 1000 / 2 ^ 53 * (k : ℚ) := by ring
    have e1 : (k : ℚ) / 1000000000 ≤ 1 / 1000000 := by
      rw [div_le_iff₀ (by norm_num)]; linarith
    have e2 : (1000 : ℚ) / 2 ^ 53 ≤ 1000 / 2 ^ 53 * (k : ℚ) := by
      have : (0 : ℚ) ≤ 1000 / 2 ^ 53 := by positivity
      nlinarith
    rw [e]; linarith
  have hy0 : (0 : ℚ) ≤ a / (k : ℚ) := le_trans hq0Q hylo
  have hy1000 : a / (k : ℚ) ≤ 1000 := by
    have : (1000 : ℚ) / 2 ^ 53 ≤ 1 / 1000000000 := by norm_num
    linarith
  -- b = rnd y
  have hblo : (q : ℚ) ≤ rnd (a / (k : ℚ)) :=
    rnd_ge_int q (by rw [abs_of_nonneg hq0]; omega) hylo
  have hbhi : rnd (a / (k : ℚ)) ≤ a / (k : ℚ) + 1000 / 2 ^ 53 := rnd_le_add hy0 hy1000
  rw [Int.floor_eq_iff]
  refine ⟨hblo, ?_⟩
  have : (1000 : ℚ) / 2 ^ 53 + 1000 / 2 ^ 53 < 1 / 1000000000 := by norm_num
  linarith

/-- **Quotient plus rounded remainder fraction.** For an integer `0 ≤ q < 4096` and a remainder
    `0 ≤ r < D ≤ 3.6·10¹²`, the double `rnd (q + rnd (r / D))` lies in `[q, q+1)`: `r / D` is at
    least `2.7·10⁻¹³` below 1, the inner rounding moves it by at most `1.2·10⁻¹⁶`, the outer one by at
    most half an ulp of a number below 4096, `2⁻⁴² ≈ 2.27·10⁻¹³`. -/
theorem add_div_range (q r D : ℤ) (hq0 : 0 ≤ q) (hq : q < 4096) (hr0 : 0 ≤ r) (hr : r < D)
    (hD : D ≤ 3600000000000) :
    (q : ℚ) ≤ rnd ((q : ℚ) + rnd ((r : ℚ) / (D : ℚ))) ∧
      rnd ((q : ℚ) + rnd ((r : ℚ) / (D : ℚ))) < (q : ℚ) + 1 := by
  have hDpos : (0 : ℚ) < (D : ℚ) := by
    have : 0 < D := by omega
    exact_mod_cast this
  have hDQ : (D : ℚ) ≤ 3600000000000 := by exact_mod_cast hD
  have hr0Q : (0 : ℚ) ≤ (r : ℚ) := by exact_mod_cast hr0
  have hrQ : (r : ℚ) + 1 ≤ (D : ℚ) := by
    have : r + 1 ≤ D := by omega
    exact_mod_cast this
  have hq0Q : (0 : ℚ) ≤ (q : ℚ) := by exact_mod_cast hq0
  have hqQ : (q : ℚ) + 1 ≤ 4096 := by
    have : q + 1 ≤ 4096 := by omega
    exact_mod_cast this
  -- z = r / D ∈ [0, 1 - 1/D]
  have hz0 : (0 : ℚ) ≤ (r : ℚ) / (D : ℚ) := div_nonneg hr0Q (le_of_lt hDpos)
  have hz1 : (r : ℚ) / (D : ℚ) ≤ 1 - 1 / 3600000000000 := by
    rw [div_le_iff₀ hDpos]
    have : (D : ℚ) / 3600000000000 ≤ 1 := by rw [div_le_iff₀ (by norm_num)]; linarith
    have e : (1 - 1 / 3600000000000) * (D : ℚ) = (D : ℚ) - (D : ℚ) / 3600000000000 := by ring
    rw [e]; linarith
  have hf0 : (0 : ℚ) ≤ rnd ((r : ℚ) / (D : ℚ)) := rnd_nonneg hz0
  have hf1 : rnd ((r : ℚ) / (D : ℚ)) ≤ (r : ℚ) / (D : ℚ) + 1 / 2 ^ 53 :=
    rnd_le_add hz0 (by linarith)
  generalize rnd ((r : ℚ) / (D : ℚ)) = f at hf0 hf1
  -- y = q + f
  have hylo : ((q : ℤ) : ℚ) ≤ (q : ℚ) + f := by linarith
  have hyhi : (q : ℚ) + f ≤ (q : ℚ) + 1 - 1 / 3600000000000 + 1 / 2 ^ 53 := by linarith
  refine ⟨rnd_ge_int q (by rw [abs_of_nonneg hq0]; omega) hylo, ?_⟩
  by_cases hy0 : (q : ℚ) + f = 0
  · rw [hy0, rnd_zero]; linarith
  · -- half an ulp of y < 4096 is at most 2^-42
    have hypos : (0 : ℚ) < (q : ℚ) + f := lt_of_le_of_ne (by linarith) (Ne.symm hy0)
    have hy4096 : (q : ℚ) + f < 4096 := by
      have : (1 : ℚ) / 2 ^ 53 < 1 / 3600000000000 := by norm_num
      linarith
    obtain ⟨b1, _⟩ := ex_bounds hy0
    rw [abs_of_pos hypos] at b1
    have hex : ex ((q : ℚ) + f) ≤ -41 := by
      by_cases c : ex ((q : ℚ) + f) ≤ -41
      · exact c
      · exfalso
        have h12 : (2 : ℚ) ^ (12 : ℤ) ≤ 2 ^ (ex ((q : ℚ) + f) + 52) := p2_mono (by omega)
        have : (2 : ℚ) ^ (12 : ℤ) = 4096 := by norm_num
        linarith
    have hulp : (2 : ℚ) ^ ex ((q : ℚ) + f) ≤ 2 ^ (-41 : ℤ) := p2_mono hex
    have h41 : (2 : ℚ) ^ (-41 : ℤ) = 1 / 2 ^ 41 := by
      rw [zpow_neg]; norm_num
    have herr := (abs_le.mp (rnd_err_ulp ((q : ℚ) + f))).2
    rw [h41] at hulp
    generalize (2 : ℚ) ^ ex ((q : ℚ) + f) = U at hulp herr
    generalize rnd ((q : ℚ) + f) = b at herr ⊢
    have h3 : (1 : ℚ) / 2 ^ 41 / 2 + 1 / 2 ^ 53 < 1 / 3600000000000 := by norm_num
    have h4 : U / 2 ≤ 1 / 2 ^ 41 / 2 := by linarith
    linarith

theorem floor_add_div (q r D : ℤ) (hq0 : 0 ≤ q) (hq : q < 4096) (hr0 : 0 ≤ r) (hr : r < D)
    (hD : D ≤ 3600000000000) :
    ⌊rnd ((q : ℚ) + rnd ((r : ℚ) / (D : ℚ)))⌋ = q := by
  rw [Int.floor_eq_iff]
  exact add_div_range q r D hq0 hq hr0 hr hD

/-- the comparison `… < c` against an integer constant `c` gives the integer answer `q < c` -/
theorem add_div_lt_iff (q r D c : ℤ) (hq0 : 0 ≤ q) (hq : q < 4096) (hr0 : 0 ≤ r) (hr : r < D)
    (hD : D ≤ 3600000000000) :
    rnd ((q : ℚ) + rnd ((r : ℚ) / (D : ℚ))) < (c : ℚ) ↔ q < c := by
  obtain ⟨h1, h2⟩ := add_div_range q r D hq0 hq hr0 hr hD
  constructor
  · intro h
    have : (q : ℚ) < (c : ℚ) := lt_of_le_of_lt h1 h
    exact_mod_cast this
  · intro h
    have : (q : ℚ) + 1 ≤ (c : ℚ) := by
      have : q + 1 ≤ c := by omega
      exact_mod_cast this
    linarith

end F53
end Astisub
