import Astisub.Go.Strings
import Astisub.Model.Subs

/-!
# Lemmas/STL2Str — trimming at both ends (`strings.TrimSpace`, the decoder's `strip`), and looking up a key of
`mkAttrs`
-/

namespace Astisub
namespace C05
open Go

/-! ## trimming -/

def trimBoth {α} (p : α → Bool) (x : List α) : List α := ((x.dropWhile p).reverse.dropWhile p).reverse

theorem trimSpace_eq (x : Str) : trimSpace x = trimBoth isSpace x := rfl

def allP {α} (p : α → Bool) (l : List α) : Prop := ∀ c ∈ l, p c = true

/-- the list is not empty and neither its first nor its last element satisfies `p` -/
def Edges {α} (p : α → Bool) (x : List α) : Prop :=
  (∃ c r, x = c :: r ∧ p c = false) ∧ (∃ d r, x.reverse = d :: r ∧ p d = false)

theorem allP_nil {α} (p : α → Bool) : allP p ([] : List α) := by intro c hc; cases hc

theorem allP_append {α} {p : α → Bool} {a b : List α} (ha : allP p a) (hb : allP p b) : allP p (a ++ b) := by
  intro c hc
  rcases List.mem_append.mp hc with h | h
  · exact ha c h
  · exact hb c h

theorem dropWhile_allP {α} (p : α → Bool) (a b : List α) (h : allP p a) : (a ++ b).dropWhile p = b.dropWhile p := by
  induction a with
  | nil => rfl
  | cons c cs ih =>
    rw [List.cons_append, List.dropWhile_cons, if_pos (h c (by simp))]
    exact ih (fun x hx => h x (by simp [hx]))

theorem dropWhile_stop {α} (p : α → Bool) (c : α) (l : List α) (h : p c = false) : (c :: l).dropWhile p = c :: l := by
  rw [List.dropWhile_cons, if_neg (by rw [h]; exact Bool.false_ne_true)]

theorem trimBoth_all {α} (p : α → Bool) (a : List α) (h : allP p a) : trimBoth p a = [] := by
  unfold trimBoth
  have := dropWhile_allP p a [] h
  rw [List.append_nil] at this
  rw [this]; rfl

/-- anything satisfying `p` around a trimmed non-empty list is removed, nothing else -/
theorem trimBoth_pad {α} (p : α → Bool) (a x b : List α) (ha : allP p a) (hb : allP p b) (hx : Edges p x) :
    trimBoth p (a ++ x ++ b) = x := by
  obtain ⟨⟨c, r, hc, hpc⟩, ⟨d, r', hd, hpd⟩⟩ := hx
  unfold trimBoth
  rw [List.append_assoc, dropWhile_allP p a _ ha]
  have e1 : (x ++ b).dropWhile p = x ++ b := by rw [hc, List.cons_append]; exact dropWhile_stop p c _ hpc
  rw [e1, List.reverse_append, dropWhile_allP p b.reverse _ (by intro y hy; exact hb y (by simpa using hy))]
  rw [hd, dropWhile_stop p d _ hpd, ← hd, List.reverse_reverse]

theorem trimBoth_id {α} (p : α → Bool) (x : List α) (hx : Edges p x) : trimBoth p x = x := by
  have := trimBoth_pad p [] x [] (allP_nil p) (allP_nil p) hx
  simpa using this

theorem dropWhile_length_le {α} (p : α → Bool) (l : List α) : (l.dropWhile p).length ≤ l.length :=
  (List.dropWhile_sublist p).length_le

theorem trimBoth_length_le {α} (p : α → Bool) (l : List α) : (trimBoth p l).length ≤ (l.dropWhile p).length := by
  unfold trimBoth
  rw [List.length_reverse]
  have := dropWhile_length_le p (l.dropWhile p).reverse
  rwa [List.length_reverse] at this

/-- a non-empty fixed point of trimming has clean edges -/
theorem edges_of_fixed {α} (p : α → Bool) (x : List α) (hfix : trimBoth p x = x) (hne : x ≠ []) : Edges p x := by
  have h1 : x.dropWhile p = x := by
    cases x with
    | nil => exact absurd rfl hne
    | cons c r =>
      cases hpc : p c with
      | false => exact dropWhile_stop p c r hpc
      | true =>
        have l1 := trimBoth_length_le p (c :: r)
        rw [hfix, List.dropWhile_cons, if_pos hpc] at l1
        have l2 := dropWhile_length_le p r
        simp only [List.length_cons] at l1
        omega
  have h2 : x.reverse.dropWhile p = x.reverse := by
    have : (x.reverse.dropWhile p).reverse = x := by
      unfold trimBoth at hfix; rw [h1] at hfix; exact hfix
    have := congrArg List.reverse this
    rwa [List.reverse_reverse] at this
  constructor
  · cases x with
    | nil => exact absurd rfl hne
    | cons c r =>
      refine ⟨c, r, rfl, ?_⟩
      cases hpc : p c with
      | false => rfl
      | true =>
        rw [List.dropWhile_cons, if_pos hpc] at h1
        have := dropWhile_length_le p r
        rw [h1] at this
        simp only [List.length_cons] at this
        omega
  · cases hr : x.reverse with
    | nil =>
      have := congrArg List.length hr
      simp only [List.length_reverse, List.length_nil] at this
      exact absurd (List.length_eq_zero_iff.mp this) hne
    | cons d r' =>
      refine ⟨d, r', rfl, ?_⟩
      cases hpd : p d with
      | false => rfl
      | true =>
        rw [hr, List.dropWhile_cons, if_pos hpd] at h2
        have := dropWhile_length_le p r'
        rw [h2] at this
        simp only [List.length_cons] at this
        omega

theorem Edges.ne_nil {α} {p : α → Bool} {x : List α} (h : Edges p x) : x ≠ [] := by
  obtain ⟨⟨c, r, hc, _⟩, _⟩ := h
  rw [hc]; exact List.cons_ne_nil _ _

theorem Edges.append {α} {p : α → Bool} {x y : List α} (hx : Edges p x) (m : List α) (hy : Edges p y) :
    Edges p (x ++ m ++ y) := by
  obtain ⟨⟨c, r, hc, hpc⟩, _⟩ := hx
  obtain ⟨_, ⟨d, r', hd, hpd⟩⟩ := hy
  refine ⟨⟨c, r ++ m ++ y, by rw [hc]; simp, hpc⟩, ⟨d, r' ++ (x ++ m).reverse, ?_, hpd⟩⟩
  rw [List.reverse_append, hd]; rfl

/-! ## attribute lists -/

theorem lookup_some_iff' (l : KV) (h : l.Pairwise (fun a b => a.1 ≠ b.1)) (k v : Str) :
    l.lookup k = some v ↔ (k, v) ∈ l := by
  induction l with
  | nil => simp
  | cons e l ih =>
    obtain ⟨k', v'⟩ := e
    rw [List.pairwise_cons] at h
    rw [List.lookup_cons]
    by_cases hk : k = k'
    · subst hk
      have hnot : (k, v) ∉ l := fun hm => h.1 (k, v) hm rfl
      simp only [beq_self_eq_true, Option.some.injEq, List.mem_cons, Prod.mk.injEq, true_and, hnot, or_false]
      exact eq_comm
    · have hb : (k == k') = false := by simpa using hk
      simp only [hb, List.mem_cons, Prod.mk.injEq, hk, false_and, false_or]
      exact ih h.2

theorem lookup_perm' {l₁ l₂ : KV} (hp : l₁.Perm l₂) (h : l₁.Pairwise (fun a b => a.1 ≠ b.1)) (k : Str) :
    l₁.lookup k = l₂.lookup k := by
  have h2 : l₂.Pairwise (fun a b => a.1 ≠ b.1) := (hp.pairwise_iff (fun hxy => Ne.symm hxy)).mp h
  apply Option.ext
  intro v
  rw [lookup_some_iff' l₁ h, lookup_some_iff' l₂ h2, hp.mem_iff]

/-- an entry of `mkAttrs l`, for distinct keys -/
theorem lookup_mkAttrs (l : List (String × Option Str)) (hd : l.Pairwise (fun a b => a.1 ≠ b.1)) (k : String)
    (o : Option Str) (h : ∀ v, (k, some v) ∈ l ↔ o = some v) : (mkAttrs l).lookup k.toList = o := by
  have hd' : (l.filterMap fun (k, v) => v.map fun v => (k.toList, v)).Pairwise (fun a b => a.1 ≠ b.1) := by
    apply List.Pairwise.filterMap _ _ hd
    intro a a' hne b hb b' hb'
    obtain ⟨ka, va⟩ := a
    obtain ⟨ka', va'⟩ := a'
    cases va with
    | none => simp at hb
    | some x =>
      cases va' with
      | none => simp at hb'
      | some x' =>
        simp only [Option.map_some, Option.some.injEq] at hb hb'
        subst hb; subst hb'
        exact fun e => hne (String.toList_injective e)
  unfold mkAttrs sortKV
  rw [lookup_perm' (List.mergeSort_perm _ _) (by
    exact ((List.mergeSort_perm _ _).pairwise_iff (fun hxy => Ne.symm hxy)).mpr hd')]
  apply Option.ext
  intro v
  rw [lookup_some_iff' _ hd', ← h v, List.mem_filterMap]
  constructor
  · rintro ⟨⟨ka, va⟩, hm, he⟩
    cases va with
    | none => simp at he
    | some x =>
      simp only [Option.map_some, Option.some.injEq, Prod.mk.injEq] at he
      obtain ⟨e1, e2⟩ := he
      have := String.toList_injective e1
      subst this; subst e2
      exact hm
  · intro hm
    exact ⟨(k, some v), hm, rfl⟩

end C05
end Astisub
