import Astisub.Lemmas.Conv2SSA
import Astisub.Lemmas.ConvChain

/-!
# Lemmas/Conv2Chain — SubRip → SSA → SubRip (C07, chained conversions)

* `plainSSA_norm_srt` : what SubRip returns for a plain cue list (every cue with text) is in SSA's range and
  plain for SSA — provided the SSA document passes the scanner (`docFit`);
* `lines_norm`        : the lines the SSA reader rebuilds for a plain cue, explicitly;
* `plainSRT_norm_ssa` : what SSA returns for a plain cue list is in SubRip's range and plain for SubRip;
* `truncView_ms_cs`, `truncView_cs_ms` : centiseconds absorb milliseconds.
-/

namespace Astisub
namespace Conv2Chain
open Go List Driver ConvView Spec.Conv

/-! ## ranges and truncations -/

/-- the range clause is the same for every destination but STL -/
theorem inRange_congr {d d' : String} (hd : d ≠ "stl") (hd' : d' ≠ "stl") (s : Subs) : inRange d s = inRange d' s := by
  unfold inRange
  simp only [hd, hd', if_false]

theorem truncView_ms_cs (v : List VCue) : truncView 10000000 (truncView 1000000 v) = truncView 10000000 v := by
  simp only [truncView, map_map]
  apply map_congr_left
  intro c _
  simp [truncCue, C07.trunc_chain_ms_cs]

theorem truncView_cs_ms (v : List VCue) : truncView 1000000 (truncView 10000000 v) = truncView 10000000 v := by
  simp only [truncView, map_map]
  apply map_congr_left
  intro c _
  simp [truncCue, C07.trunc_chain_cs_ms]

/-- a view at resolution `u` of cues in range is in range -/
theorem inRange_of_view {d : String} (hd : d ≠ "stl") (u : Int) (hu : 0 < u) (s back : Subs)
    (hr : inRange d s = true) (hv : viewOf back = truncView u (viewOf s)) : inRange d back = true := by
  unfold inRange at hr ⊢
  simp only [hd, if_false] at hr ⊢
  rw [hv]
  simp only [truncView, all_map, all_eq_true, Function.comp_apply] at hr ⊢
  intro c hc
  have h := hr c hc
  simp only [Bool.and_eq_true, decide_eq_true_eq] at h
  obtain ⟨⟨⟨h1, h2⟩, h3⟩, h4⟩ := h
  have a := C07.trunc_le u c.startAt hu
  have b := C07.trunc_le u c.endAt hu
  have a0 : 0 ≤ truncTo u c.startAt := by
    unfold truncTo; have := Int.emod_nonneg c.startAt (Int.ne_of_gt hu); have := Int.emod_lt_of_pos c.startAt hu
    have := Int.mul_ediv_add_emod c.startAt u
    have : 0 ≤ c.startAt / u := Int.ediv_nonneg h1 (Int.le_of_lt hu)
    have : 0 ≤ u * (c.startAt / u) := Int.mul_nonneg (Int.le_of_lt hu) this
    omega
  have b0 : 0 ≤ truncTo u c.endAt := by
    unfold truncTo; have := Int.emod_nonneg c.endAt (Int.ne_of_gt hu); have := Int.emod_lt_of_pos c.endAt hu
    have := Int.mul_ediv_add_emod c.endAt u
    have : 0 ≤ c.endAt / u := Int.ediv_nonneg h2 (Int.le_of_lt hu)
    have : 0 ≤ u * (c.endAt / u) := Int.mul_nonneg (Int.le_of_lt hu) this
    omega
  simp only [truncCue, Bool.and_eq_true]
  exact ⟨⟨⟨decide_eq_true a0, decide_eq_true b0⟩, decide_eq_true (by omega)⟩, decide_eq_true (by omega)⟩

/-! ## SubRip's answer is plain for SSA -/

theorem foldl_voice_nil (ls : List Line) (h : ∀ l ∈ ls, l.voice = []) :
    ls.foldl (fun (n : Str) l => if l.voice.isEmpty then n else l.voice) [] = [] := by
  induction ls with
  | nil => rfl
  | cons l rest ih =>
    have hl : l.voice = [] := h l (by simp)
    simp only [foldl_cons, hl, isEmpty_nil, if_true]
    exact ih (fun x hx => h x (by simp [hx]))

theorem plainLine_one (t : Str) (hs : simpleText t = true) (he : ConvSRT.edgesOk t = true) :
    Conv2SSA.plainLine { items := [{ text := t }] } = true := by
  have e : ({ items := [{ text := t }] } : Line).str = t := by simp [Line.str]
  simp only [Conv2SSA.plainLine, e, hs, he, Bool.and_true, all_cons, all_nil]
  rfl

theorem cueCells_bare (st en : Int) (idx : Int) (ls : List Line) (h : ∀ l ∈ ls, l.voice = []) :
    Conv2SSA.CueCells { index := idx, startAt := st, endAt := en, lines := ls } := by
  have e1 : (SSA.eventOfItem { index := idx, startAt := st, endAt := en, lines := ls }).layer = none := rfl
  have e2 : (SSA.eventOfItem { index := idx, startAt := st, endAt := en, lines := ls }).marginL = none := rfl
  have e3 : (SSA.eventOfItem { index := idx, startAt := st, endAt := en, lines := ls }).marginR = none := rfl
  have e4 : (SSA.eventOfItem { index := idx, startAt := st, endAt := en, lines := ls }).marginV = none := rfl
  have e5 : (SSA.eventOfItem { index := idx, startAt := st, endAt := en, lines := ls }).style = [] := rfl
  have e6 : (SSA.eventOfItem { index := idx, startAt := st, endAt := en, lines := ls }).effect = [] := rfl
  have e7 : (SSA.eventOfItem { index := idx, startAt := st, endAt := en, lines := ls }).name = [] := foldl_voice_nil ls h
  unfold Conv2SSA.CueCells
  simp only [e1, e2, e3, e4, e5, e6, e7]
  decide

theorem tablesOK_bare (s : Subs) (hm : s.metadata = none) (hs : s.styles = []) : Conv2SSA.tablesOK s = true := by
  unfold Conv2SSA.tablesOK
  rw [hm, hs]
  decide

/-- **What SubRip returned is plain for SSA and in its range**, when every cue has text and the SSA
    document written for it passes the scanner -/
theorem plainSSA_norm_srt (s : Subs) (hr : inRange "srt" s = true) (hp : ConvSRT.PlainSRT s = true)
    (hl : ∀ it ∈ s.items, it.lines ≠ [])
    (hfit : Conv2SSA.docFit (SRTDoc.norm (SRTDoc.mergeS s)) = true) :
    inRange "ssa" (SRTDoc.norm (SRTDoc.mergeS s)) = true ∧ Conv2SSA.PlainSSA (SRTDoc.norm (SRTDoc.mergeS s)) = true := by
  obtain ⟨hr2, _⟩ := ConvChain.plainVTT_norm s hr hp
  refine ⟨by rw [inRange_congr (d' := "vtt") (by decide) (by decide)]; exact hr2, ?_⟩
  simp only [ConvSRT.PlainSRT, Bool.and_eq_true, Bool.not_eq_true', decide_eq_true_eq, all_eq_true] at hp
  obtain ⟨⟨hne, _⟩, hpl⟩ := hp
  have hne' : (SRTDoc.norm (SRTDoc.mergeS s)).items.isEmpty = false := by
    cases hi : s.items with
    | nil => rw [hi] at hne; cases hne
    | cons a rest => simp [SRTDoc.norm, SRTDoc.mergeS, hi, SRTDoc.normItems]
  have htab : Conv2SSA.tablesOK (SRTDoc.norm (SRTDoc.mergeS s)) = true := tablesOK_bare _ rfl rfl
  simp only [Conv2SSA.PlainSSA, hne', htab, hfit, Bool.not_false, Bool.true_and, Bool.and_true, all_eq_true]
  intro x hx
  obtain ⟨j, it', hit', rfl⟩ := ConvChain.normItems_mem _ 0 x hx
  obtain ⟨it, hit, rfl⟩ := mem_map.mp hit'
  have hlines : (SRTDoc.normItem j (SRTDoc.mergeItem it)).lines
      = it.lines.map fun l => ({ items := [{ text := l.str }] } : Line) := by
    simp only [SRTDoc.normItem, SRTDoc.mergeItem, map_map]
    apply map_congr_left
    intro l hlm
    exact ConvChain.norm_merge_line l (hpl it hit l hlm)
  have hvoice : ∀ l ∈ (SRTDoc.normItem j (SRTDoc.mergeItem it)).lines, l.voice = [] := by
    rw [hlines]
    intro l hlm
    obtain ⟨l0, _, rfl⟩ := mem_map.mp hlm
    rfl
  have hcells : Conv2SSA.CueCells (SRTDoc.normItem j (SRTDoc.mergeItem it)) :=
    cueCells_bare _ _ _ _ hvoice
  simp only [Conv2SSA.plainCue, hcells, decide_true, Bool.and_true, Bool.and_eq_true, Bool.not_eq_true', all_eq_true]
  constructor
  · rw [hlines]
    have := hl it hit
    cases hi : it.lines with
    | nil => exact absurd hi this
    | cons a r => rfl
  · rw [hlines]
    intro l hlm
    obtain ⟨l0, hl0, rfl⟩ := mem_map.mp hlm
    have h0 := hpl it hit l0 hl0
    simp only [ConvSRT.plainLine, Bool.and_eq_true] at h0
    exact plainLine_one _ h0.1.2 h0.2

/-! ## SSA's answer is plain for SubRip -/

/-- the lines the SSA reader rebuilds for a plain cue: every line one attribute-free run carrying the
    line's text, voiced with the cue's `Name` -/
theorem lines_norm (ids : List Str) (v : Bool) (it : CItem) (hne : it.lines ≠ [])
    (h : ∀ l ∈ it.lines, Conv2SSA.plainLine l = true) :
    (SSA.eventItem ids ((SSA.eventOfItem it).norm "Dialogue".toList v)).lines
      = it.lines.map fun l => { voice := (SSA.eventOfItem it).name, items := [{ text := l.str }] } := by
  have ht : ((SSA.eventOfItem it).norm "Dialogue".toList v).text = join "\\n".toList (it.lines.map Line.str) := by
    show trimSpace (SSA.eventOfItem it).text = _
    rw [trimSpace_of_trimmed (Conv2SSA.trimmed_text it h), Conv2SSA.event_text it h]
  show (SSA.textLines ((SSA.eventOfItem it).norm "Dialogue".toList v).text).map _ = _
  rw [ht, SSA.textLines_join _ (by simpa using hne) (by
    intro L hL
    obtain ⟨l, hl, rfl⟩ := mem_map.mp hL
    exact Conv2SSA.lineOK_of_plain (h l hl)), map_map]
  apply map_congr_left
  intro l hl
  simp only [Function.comp_apply, SSA.lineRuns_plain _ (Conv2SSA.noBrace_of_plain (h l hl))]
  rfl

theorem srt_plainLine_one (nm t : Str) (hs : simpleText t = true) (he : ConvSRT.edgesOk t = true) :
    ConvSRT.plainLine { voice := nm, items := [{ text := t }] } = true := by
  have e : ({ voice := nm, items := [{ text := t }] } : Line).str = t := by simp [Line.str]
  simp only [ConvSRT.plainLine, e, hs, he, Bool.and_true, all_cons, all_nil]
  rfl

/-- **What SSA returned is plain for SubRip and in its range** -/
theorem plainSRT_norm_ssa (s : Subs) (hr : inRange "ssa" s = true) (hp : Conv2SSA.PlainSSA s = true)
    (hlen : s.items.length ≤ int64Max) :
    inRange "srt" (SSA.norm s) = true ∧ ConvSRT.PlainSRT (SSA.norm s) = true := by
  constructor
  · rw [inRange_congr (d' := "ssa") (by decide) (by decide)]
    exact inRange_of_view (by decide) 10000000 (by decide) s _ hr (Conv2SSA.view_norm s hp)
  · obtain ⟨hne, hcues, _⟩ := Conv2SSA.plain_parts hp
    have hne' : (SSA.norm s).items.isEmpty = false := by
      cases hi : s.items with
      | nil => exact absurd hi hne
      | cons a r => simp [SSA.norm, hi]
    have hlen' : (SSA.norm s).items.length = s.items.length := by simp [SSA.norm]
    simp only [ConvSRT.PlainSRT, hne', hlen', hlen, Bool.not_false, decide_true, Bool.true_and, all_eq_true]
    intro x hx
    simp only [SSA.norm, mem_map] at hx
    obtain ⟨it, hit, rfl⟩ := hx
    obtain ⟨hn, hl, _⟩ := hcues it hit
    rw [lines_norm _ _ it hn hl]
    intro l hlm
    obtain ⟨l0, hl0, rfl⟩ := mem_map.mp hlm
    have h0 := hl l0 hl0
    simp only [Conv2SSA.plainLine, Bool.and_eq_true] at h0
    exact srt_plainLine_one _ _ h0.1.2 h0.2

end Conv2Chain
end Astisub
