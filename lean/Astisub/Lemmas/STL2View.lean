import Astisub.Lemmas.STL2Rewrite

/-!
# Lemmas/STL2View — the check's views (`Driver.STLD.linesView`, `specLines`, `runView`, `floorFrame`) of what the two
readers return, and lifting a writer-side cue (`WCue`) with repertoire text to runs of units (`MCue`)
-/

namespace Astisub
namespace C05
open Go STL

/-! ## runs -/

theorem lookup_absent (s : LSty) (k : String) (hk : k ≠ "STLBoxing" ∧ k ≠ "STLItalics" ∧ k ≠ "STLUnderline") :
    (mkAttrs (stlAttrs s)).lookup k.toList = none := by
  apply lookup_mkAttrs _ (stlAttrs_keys _)
  intro v
  simp [stlAttrs, hk.1, hk.2.1, hk.2.2]

/-- the check's view of a run built by the library reader is the run the independent decoder denotes -/
theorem runView_itemOf (g : Seg) : Driver.STLD.runView (itemOf g) = runOf g := by
  obtain ⟨t, s1, s2, s3⟩ := g
  have k1 : (mkAttrs (stlAttrs (lsty (s1, s2, s3)))).lookup "STLItalics".toList = optB s1 := by
    apply lookup_mkAttrs _ (stlAttrs_keys _)
    intro v; simp [stlAttrs, lsty]; exact eq_comm
  have k2 : (mkAttrs (stlAttrs (lsty (s1, s2, s3)))).lookup "STLUnderline".toList = optB s2 := by
    apply lookup_mkAttrs _ (stlAttrs_keys _)
    intro v; simp [stlAttrs, lsty]; exact eq_comm
  have k3 : (mkAttrs (stlAttrs (lsty (s1, s2, s3)))).lookup "STLBoxing".toList = optB s3 := by
    apply lookup_mkAttrs _ (stlAttrs_keys _)
    intro v; simp [stlAttrs, lsty]; exact eq_comm
  have a1 := lookup_absent (lsty (s1, s2, s3)) "TeletextColor" (by decide)
  have a2 := lookup_absent (lsty (s1, s2, s3)) "TeletextDoubleHeight" (by decide)
  have a3 := lookup_absent (lsty (s1, s2, s3)) "TeletextDoubleSize" (by decide)
  have a4 := lookup_absent (lsty (s1, s2, s3)) "TeletextDoubleWidth" (by decide)
  have a5 := lookup_absent (lsty (s1, s2, s3)) "TeletextSpacesBefore" (by decide)
  have a6 := lookup_absent (lsty (s1, s2, s3)) "TeletextSpacesAfter" (by decide)
  unfold Driver.STLD.runView Driver.STLD.optBool Driver.STLD.natOf Driver.STLD.kv itemOf runOf
  simp only [k1, k2, k3, a1, a2, a3, a4, a5, a6]
  rcases s1 with _ | (_ | _) <;> rcases s2 with _ | (_ | _) <;> rcases s3 with _ | (_ | _) <;> rfl

/-- the runs of a line as the `stl.write` stream compares them: (text, italics, underline, boxing), adjacent runs
    of equal style merged -/
def wLine (l : List RRun) : List (Str × B3) := Driver.STLD.mergeRuns (l.map wv)

theorem wv_ne (l : List RRun) (h : ∀ r ∈ l, r.okT) : ∀ x ∈ l.map wv, x.1 ≠ [] := by
  intro x hx
  obtain ⟨r, hr, rfl⟩ := List.mem_map.mp hx
  exact (h r hr).2.1

/-- library reader: the runs of a line in the check's view, before merging -/
theorem lineOf_runs (l : List RRun) (h : ∀ r ∈ l, r.okT) :
    ((lineOf l).items.map fun li => (li.text, Driver.STLD.effSty li)) = mergePlain (l.map wv) := by
  rw [← lineSegs_view l (fun r hr => (h r hr).tr)]
  unfold lineOf
  rw [List.map_map]
  apply List.map_congr_left
  intro g _
  simp only [Function.comp, effSty_itemOf]
  rfl

/-- independent decoder: the same -/
theorem specRuns (l : List RRun) (h : ∀ r ∈ l, r.okT) :
    (((lineSegs l).map runOf).map fun r => (r.text, (r.italic == some true, r.underline == some true, r.boxing == some true)))
      = mergePlain (l.map wv) := by
  rw [← lineSegs_view l (fun r hr => (h r hr).tr), List.map_map]
  rfl

theorem linesView_ttiCueM (R : GSI) (G : WGSI) (off : Int) (c : MCue) (h : ∀ l ∈ c.rows, ∀ r ∈ l, r.okT) :
    Driver.STLD.linesView (ttiCueM R G off c) = c.rows.map wLine := by
  unfold Driver.STLD.linesView ttiCueM wLine
  simp only [List.map_map]
  apply List.map_congr_left
  intro l hl
  simp only [Function.comp]
  rw [lineOf_runs l (h l hl), mergeRuns_mergePlain _ (wv_ne l (h l hl))]

theorem specLines_specCueM (fr : Nat) (G : WGSI) (off : Int) (c : MCue) (h : ∀ l ∈ c.rows, ∀ r ∈ l, r.okT) :
    Driver.STLD.specLines (specCueM fr G off c) = c.rows.map wLine := by
  unfold Driver.STLD.specLines specCueM wLine
  simp only [List.map_map]
  apply List.map_congr_left
  intro l hl
  simp only [Function.comp]
  rw [specRuns l (h l hl), mergeRuns_mergePlain _ (wv_ne l (h l hl))]

/-! ## times -/

/-- the check's `floorFrame` is the instant the reader computes -/
theorem floorFrame_eq (T : Int) (fr : Nat) (hfr : fr = 25 ∨ fr = 30) (h1 : T < 921600000000000) :
    Driver.STLD.floorFrame fr T = frameInstant (fr : Int) T := by
  by_cases h0 : 0 ≤ T
  · obtain ⟨n, rfl⟩ : ∃ n : Nat, T = (n : Int) := ⟨T.toNat, by omega⟩
    rw [frameInstant_nat n fr hfr (by omega)]
    unfold Driver.STLD.floorFrame
    simp only [Int.toNat_natCast]
    have e : n % 1000000000 * fr / 1000000000 * 1000000000 + fr - 1 = 1000000000 * (n % 1000000000 * fr / 1000000000) + fr - 1 := by
      omega
    rw [e]
  · have hz : T.toNat = 0 := by omega
    have e : frameInstant (fr : Int) T = frameInstant (fr : Int) 0 := by
      unfold frameInstant Duration.formatSTLBytes
      simp only [hz, Int.toNat_natCast]
      rfl
    rw [e]
    unfold Driver.STLD.floorFrame
    simp only [hz]
    rcases hfr with rfl | rfl <;> decide

/-! ## from the writer's cue to runs of units -/

/-- repertoire text: the concatenation of repertoire units -/
def RepText' (t : List Nat) : Prop := ∃ us : List Unit, (∀ u ∈ us, RepUnit u) ∧ t = us.flatMap (·.text)

theorem lift_run (r : WRun) (h : RepText' r.text ∧ trimSpace (str r.text) = str r.text ∧ r.text ≠ []) :
    ∃ rr : RRun, rr.toW = r ∧ rr.okT := by
  obtain ⟨⟨us, hus, ht⟩, htr, hne⟩ := h
  refine ⟨{ units := us, italics := r.italics, underline := r.underline, boxing := r.boxing }, ?_, ?_⟩
  · obtain ⟨t, i, u, b⟩ := r
    simp only [RRun.toW, RRun.text] at ht ⊢
    rw [← ht]
  · refine ⟨hus, ?_, ?_⟩
    · simp only [RRun.text, ← ht]
      intro e; apply hne
      unfold str at e; simpa using e
    · simp only [RRun.text, ← ht]; exact htr

theorem lift_list {α β} (f : β → α) (P : α → Prop) (Q : β → Prop) (hl : ∀ a, P a → ∃ b, f b = a ∧ Q b) (l : List α)
    (h : ∀ a ∈ l, P a) : ∃ l' : List β, l'.map f = l ∧ ∀ b ∈ l', Q b := by
  induction l with
  | nil => exact ⟨[], rfl, fun b hb => by cases hb⟩
  | cons a as ih =>
    obtain ⟨b, hb, hq⟩ := hl a (h a (by simp))
    obtain ⟨bs, hbs, hqs⟩ := ih (fun x hx => h x (by simp [hx]))
    refine ⟨b :: bs, by simp [hb, hbs], ?_⟩
    intro x hx
    rcases List.mem_cons.mp hx with rfl | hx
    · exact hq
    · exact hqs x hx

end C05
end Astisub
