import Astisub.Model.TTML
import Astisub.Props.C16

/-! # Lemmas/TTMLTime — digit strings under the TTML time-expression recognisers -/

namespace Astisub
namespace TTML
open Go Duration List C16

/-! ### digits -/

theorem isDigit_digitChar {k : Nat} (h : k < 10) : isDigit (digitChar k) = true := by
  rcases digitChar_lt h with h|h|h|h|h|h|h|h|h|h <;> subst h <;> decide

theorem digitChar_sub48 {k : Nat} (h : k < 10) : (digitChar k).toNat - 48 = k := by
  rcases digitChar_lt h with h|h|h|h|h|h|h|h|h|h <;> subst h <;> decide

theorem _root_.Astisub.Go.DigitStr.isDigit {s : Str} (h : DigitStr s) : ∀ c ∈ s, TTML.isDigit c = true := by
  intro c hc; obtain ⟨k, hk, rfl⟩ := h c hc; exact isDigit_digitChar hk

theorem _root_.Astisub.Go.DigitStr.tail {c : Char} {s : Str} (h : DigitStr (c :: s)) : DigitStr s :=
  fun x hx => h x (by simp [hx])

theorem _root_.Astisub.Go.DigitStr.append {a b : Str} (ha : DigitStr a) (hb : DigitStr b) : DigitStr (a ++ b) := by
  intro c hc
  rcases mem_append.mp hc with h | h
  · exact ha c h
  · exact hb c h

theorem _root_.Astisub.Go.DigitStr.ne_colon {s : Str} (h : DigitStr s) : ∀ c ∈ s, (c != ':') = true := by
  intro c hc; obtain ⟨k, hk, rfl⟩ := h c hc
  have := digitChar_ne_colon hk
  simp [this]

/-- `natOfDigits` with an accumulator -/
theorem natOfDigits_append (a b : Str) :
    natOfDigits (a ++ b) = b.foldl (fun x c => x * 10 + (c.toNat - 48)) (natOfDigits a) := by
  simp [natOfDigits, foldl_append]

theorem digitsVal_digits {s : Str} (h : DigitStr s) (acc : Nat) :
    digitsVal s acc = some (s.foldl (fun a c => a * 10 + (c.toNat - 48)) acc) := by
  induction s generalizing acc with
  | nil => rfl
  | cons c cs ih =>
    obtain ⟨k, hk, hc⟩ := h c (by simp)
    subst hc
    simp only [digitsVal, digitVal_digitChar hk, foldl_cons, digitChar_sub48 hk]
    exact ih h.tail _

/-- `strconv.Atoi` on a non-empty digit string that fits `int64` -/
theorem atoi_digits {s : Str} (h : DigitStr s) (hne : s ≠ [])
    (hle : natOfDigits s ≤ 9223372036854775807) : atoi s = some (natOfDigits s : Int) := by
  cases s with
  | nil => exact absurd rfl hne
  | cons c cs =>
    obtain ⟨k, hk, hc⟩ := h c (by simp)
    subst hc
    unfold atoi
    split
    · rename_i r heq; simp at heq; exact absurd heq.1 (by rw [digitChar_ne_minus hk]; exact id)
    · rename_i r heq; simp at heq; exact absurd heq.1 (by rw [digitChar_ne_plus hk]; exact id)
    · have : natOfDigits (digitChar k :: cs) ≤ int64Max := hle
      have e : digitsVal (digitChar k :: cs) 0 = some (natOfDigits (digitChar k :: cs)) :=
        digitsVal_digits h 0
      simp only [parseDigits, isEmpty_cons, Bool.false_eq_true, ↓reduceIte, e]
      simp [this]

theorem natOfDigits_lt {s : Str} (h : DigitStr s) : natOfDigits s < 10 ^ s.length := by
  have key : ∀ (s : Str), DigitStr s → ∀ acc n, acc < 10 ^ n →
      s.foldl (fun a c => a * 10 + (c.toNat - 48)) acc < 10 ^ (n + s.length) := by
    intro s
    induction s with
    | nil => intro _ acc n ha; simpa using ha
    | cons c cs ih =>
      intro hs acc n ha
      obtain ⟨k, hk, hc⟩ := hs c (by simp)
      subst hc
      simp only [foldl_cons, digitChar_sub48 hk, length_cons]
      have := ih hs.tail (acc * 10 + k) (n + 1) (by rw [Nat.pow_succ]; omega)
      rw [show n + (cs.length + 1) = n + 1 + cs.length by omega]
      exact this
  have := key s h 0 0 (by decide)
  simpa [natOfDigits] using this

/-! ### `takeWhile` / `dropWhile` -/

theorem takeWhile_stop {p : Char → Bool} {a : Str} {c : Char} (r : Str)
    (ha : ∀ x ∈ a, p x = true) (hc : p c = false) : (a ++ c :: r).takeWhile p = a := by
  induction a with
  | nil => simp [hc]
  | cons x xs ih =>
    have hx := ha x (by simp)
    simp only [cons_append, takeWhile_cons, hx, ↓reduceIte]
    rw [ih (fun y hy => ha y (by simp [hy]))]

theorem dropWhile_stop {p : Char → Bool} {a : Str} {c : Char} (r : Str)
    (ha : ∀ x ∈ a, p x = true) (hc : p c = false) : (a ++ c :: r).dropWhile p = c :: r := by
  induction a with
  | nil => simp [hc]
  | cons x xs ih =>
    have hx := ha x (by simp)
    simp only [cons_append, dropWhile_cons, hx, ↓reduceIte]
    rw [ih (fun y hy => ha y (by simp [hy]))]

/-! ### `offsetTime` -/

theorem isEmpty_false {s : Str} (h : s ≠ []) : s.isEmpty = false := by
  cases s with
  | nil => exact absurd rfl h
  | cons _ _ => rfl

/-- digits followed by something that is neither a digit nor `.`: no fraction -/
theorem offsetTime_plain {ip : Str} (hip : DigitStr ip) (hne : ip ≠ []) {c : Char} (r : Str)
    (hc : isDigit c = false) (hdot : c ≠ '.') :
    offsetTime (ip ++ c :: r) = if metrics.contains (c :: r) then some (ip, [], c :: r) else none := by
  unfold offsetTime
  rw [takeWhile_stop r hip.isDigit hc, dropWhile_stop r hip.isDigit hc]
  simp only [isEmpty_false hne, Bool.false_eq_true, ↓reduceIte]
  split
  · rename_i r' heq
    simp at heq
    exact absurd heq.1 hdot
  · rfl

/-- digits, `.`, digits, then something that is not a digit -/
theorem offsetTime_frac {ip fp : Str} (hip : DigitStr ip) (hne : ip ≠ []) (hfp : DigitStr fp)
    (hfne : fp ≠ []) {c : Char} (r : Str) (hc : isDigit c = false) :
    offsetTime (ip ++ '.' :: (fp ++ c :: r))
      = if metrics.contains (c :: r) then some (ip, fp, c :: r) else none := by
  unfold offsetTime
  rw [takeWhile_stop _ hip.isDigit (by decide), dropWhile_stop _ hip.isDigit (by decide)]
  simp only [isEmpty_false hne, Bool.false_eq_true, ↓reduceIte]
  rw [takeWhile_stop r hfp.isDigit hc, dropWhile_stop r hfp.isDigit hc]
  simp only [isEmpty_false hfne, Bool.false_eq_true, ↓reduceIte]

theorem metrics_colon (r : Str) : metrics.contains (':' :: r) = false := by
  simp [metrics]

/-- a clock time is never an offset time: the digits are followed by `:` -/
theorem offsetTime_colon {ip : Str} (hip : DigitStr ip) (r : Str) :
    offsetTime (ip ++ ':' :: r) = none := by
  by_cases hne : ip = []
  · subst hne
    simp [offsetTime, show isDigit ':' = false by decide]
  · rw [offsetTime_plain hip hne r (by decide) (by decide), metrics_colon]
    rfl

/-! ### colons -/

theorem countColons_digits {s : Str} (h : DigitStr s) : countColons s = 0 := by
  unfold countColons
  rw [length_eq_zero_iff, filter_eq_nil_iff]
  intro c hc
  have := h.ne_colon c hc
  simpa using this

theorem countColons_append (a b : Str) : countColons (a ++ b) = countColons a + countColons b := by
  simp [countColons]

theorem countColons_colon (b : Str) : countColons (':' :: b) = 1 + countColons b := by
  simp [countColons]; omega

/-- the frame field after the last `:` -/
theorem clockFrames_digits (pre : Str) {suf : Str} (h : DigitStr suf) (hne : suf ≠ []) :
    clockFrames (pre ++ ':' :: suf) = some (pre, suf) := by
  have hrev : ∀ x ∈ suf.reverse, (fun c : Char => c != ':') x = true := by
    intro x hx; exact h.ne_colon x (by simpa using hx)
  have e : (pre ++ ':' :: suf).reverse = suf.reverse ++ ':' :: pre.reverse := by simp
  unfold clockFrames
  rw [e, takeWhile_stop _ hrev (by decide), dropWhile_stop _ hrev (by decide)]
  have hall : suf.all isDigit = true := by
    rw [all_eq_true]; exact h.isDigit
  simp [isEmpty_false hne, hall]

/-! ### `parseDuration` on clock times -/

/-- `hh:mm:ss` without a fraction -/
theorem parse_hms (h m s : Nat) (hh : h < 100) (hm : m < 100) (hs : s < 100) :
    parse (dd h ++ ':' :: dd m ++ ':' :: dd s) '.' 3
      = some ((s : Int) * nsPerS + (m : Int) * nsPerMin + (h : Int) * nsPerH) := by
  unfold parse
  rw [splitC_not_mem (hms_not_mem h m s hh hm hs '.' (Or.inl rfl))]
  have h12 : ¬ (1 ≥ 2) := by decide
  simp only [length_cons, length_nil, Nat.zero_add, h12, ↓reduceIte]
  rw [trimSpace_id (hms_noSpace h m s hh hm hs), hms_split h m s hh hm hs]
  simp only
  rw [trimSpace_id (digitStr_dd hs).noSpace, trimSpace_id (digitStr_dd hm).noSpace,
    trimSpace_id (digitStr_dd hh).noSpace, atoi_dd hs, atoi_dd hm, atoi_dd hh]
  have hl2 : (dd h).length = 2 := rfl
  simp [hl2]

/-- `hh:mm:ss.f…` with one to three fraction digits: the fraction is scaled to milliseconds -/
theorem parse_hms_frac (h m s : Nat) (hh : h < 100) (hm : m < 100) (hs : s < 100)
    {fp : Str} (hfp : DigitStr fp) (hne : fp ≠ []) (hl : fp.length ≤ 3) :
    parse (dd h ++ ':' :: dd m ++ ':' :: dd s ++ '.' :: fp) '.' 3
      = some ((natOfDigits fp : Int) * (10 : Int) ^ (3 - fp.length) * nsPerMs
          + (s : Int) * nsPerS + (m : Int) * nsPerMin + (h : Int) * nsPerH) := by
  have hsepF : '.' ∉ fp := hfp.not_mem (Or.inr (Or.inl rfl))
  have hlt : natOfDigits fp < 1000 :=
    Nat.lt_of_lt_of_le (natOfDigits_lt hfp) (by
      calc 10 ^ fp.length ≤ 10 ^ 3 := Nat.pow_le_pow_right (by decide) hl
        _ = 1000 := rfl)
  unfold parse
  rw [splitC_append _ (hms_not_mem h m s hh hm hs '.' (Or.inl rfl)), splitC_not_mem hsepF]
  simp only [length_cons, length_nil, ge_iff_le, Nat.le_refl, ↓reduceIte, getLast?_cons_cons,
    getLast?_singleton, Option.getD_some, dropLast_cons_cons, dropLast_singleton, join]
  rw [trimSpace_id hfp.noSpace, atoi_digits hfp hne (by omega)]
  have h3 : ¬ (fp.length > 3) := by omega
  simp only [h3, ↓reduceIte]
  rw [trimSpace_id (hms_noSpace h m s hh hm hs), hms_split h m s hh hm hs]
  simp only
  rw [trimSpace_id (digitStr_dd hs).noSpace, trimSpace_id (digitStr_dd hm).noSpace,
    trimSpace_id (digitStr_dd hh).noSpace, atoi_dd hs, atoi_dd hm, atoi_dd hh]
  have hl2 : (dd h).length = 2 := rfl
  simp [hl2]

end TTML
end Astisub
