import Astisub.Lemmas.STLRead2View

/-!
# Lemmas/STLRead2Why — the predicate of the `stl.read` stream (`Driver.STLD.readWhy`) on the reader model's answer

`readWhy ig doc impl` parses the answer tokens `impl` into a `Subs` value `s` (`Proto.decSubs`) and evaluates nine
clauses on `s` against `Spec.STL.decode ig doc`.  Here: if `s` carries the reader model's answer — its cues are the
model's cues and its metadata attribute list carries the model's metadata (`MetaCarried`: what the clauses look up,
key by key) — every clause holds.  The canonical print / parse round trip itself (`decSubs ∘ encRead`) is outside
(it is exercised on every case by the stream).
-/

namespace Astisub
namespace C05
open Go STL Driver.STLD

/-- the attribute list `a` of an answer carries the metadata `m`, key by key, as `readWhy` looks it up (byte values
    through `utf8N`, numbers through `intOf`, absent = empty / zero — the conventions of `Driver.STLD.encMeta`) -/
structure MetaCarried (a : Attrs) (m : Meta) : Prop where
  framerate : ((kv a "Framerate").bind intOf).getD 0 = m.framerate
  dsc : ((kv a "STLDisplayStandardCode").map utf8N).getD [] = m.dsc
  language : ((kv a "Language").map utf8N).getD [] = m.language
  title : ((kv a "Title").map utf8N).getD [] = m.title
  origEpisode : ((kv a "STLOriginalEpisodeTitle").map utf8N).getD [] = m.origEpisode
  translProgram : ((kv a "STLTranslatedProgramTitle").map utf8N).getD [] = m.translProgram
  translEpisode : ((kv a "STLTranslatedEpisodeTitle").map utf8N).getD [] = m.translEpisode
  translName : ((kv a "STLTranslatorName").map utf8N).getD [] = m.translName
  translContact : ((kv a "STLTranslatorContactDetails").map utf8N).getD [] = m.translContact
  slr : ((kv a "STLSubtitleListReferenceCode").map utf8N).getD [] = m.slr
  country : ((kv a "STLCountryOfOrigin").map utf8N).getD [] = m.country
  publisher : ((kv a "STLPublisher").map utf8N).getD [] = m.publisher
  editorName : ((kv a "STLEditorName").map utf8N).getD [] = m.editorName
  editorContact : ((kv a "STLEditorContactDetails").map utf8N).getD [] = m.editorContact
  creation : ((kv a "STLCreationDate").map utf8N).getD [] = (m.creation.map formatDate).getD []
  revisionDate : ((kv a "STLRevisionDate").map utf8N).getD [] = (m.revisionDate.map formatDate).getD []
  revisionNumber : ((kv a "STLRevisionNumber").bind intOf).getD 0 = m.revisionNumber
  maxChars : kv a "STLMaximumNumberOfDisplayableCharactersInAnyTextRow" = m.maxChars.map fun v => (toString v).toList
  maxRows : kv a "STLMaximumNumberOfDisplayableRows" = m.maxRows.map fun v => (toString v).toList
  tcp : ((kv a "STLTimecodeStartOfProgramme").bind intOf).getD 0 = m.tcp

instance (a : Attrs) (m : Meta) : Decidable (MetaCarried a m) :=
  decidable_of_iff
    ((((kv a "Framerate").bind intOf).getD 0 = m.framerate ∧ ((kv a "STLDisplayStandardCode").map utf8N).getD [] = m.dsc ∧
      ((kv a "Language").map utf8N).getD [] = m.language ∧ ((kv a "Title").map utf8N).getD [] = m.title ∧
      ((kv a "STLOriginalEpisodeTitle").map utf8N).getD [] = m.origEpisode) ∧
     (((kv a "STLTranslatedProgramTitle").map utf8N).getD [] = m.translProgram ∧
      ((kv a "STLTranslatedEpisodeTitle").map utf8N).getD [] = m.translEpisode ∧
      ((kv a "STLTranslatorName").map utf8N).getD [] = m.translName ∧
      ((kv a "STLTranslatorContactDetails").map utf8N).getD [] = m.translContact ∧
      ((kv a "STLSubtitleListReferenceCode").map utf8N).getD [] = m.slr) ∧
     (((kv a "STLCountryOfOrigin").map utf8N).getD [] = m.country ∧ ((kv a "STLPublisher").map utf8N).getD [] = m.publisher ∧
      ((kv a "STLEditorName").map utf8N).getD [] = m.editorName ∧
      ((kv a "STLEditorContactDetails").map utf8N).getD [] = m.editorContact ∧
      ((kv a "STLCreationDate").map utf8N).getD [] = (m.creation.map formatDate).getD []) ∧
     (((kv a "STLRevisionDate").map utf8N).getD [] = (m.revisionDate.map formatDate).getD [] ∧
      ((kv a "STLRevisionNumber").bind intOf).getD 0 = m.revisionNumber ∧
      kv a "STLMaximumNumberOfDisplayableCharactersInAnyTextRow" = m.maxChars.map (fun v => (toString v).toList) ∧
      kv a "STLMaximumNumberOfDisplayableRows" = m.maxRows.map (fun v => (toString v).toList) ∧
      ((kv a "STLTimecodeStartOfProgramme").bind intOf).getD 0 = m.tcp))
    ⟨fun ⟨⟨a1, a2, a3, a4, a5⟩, ⟨b1, b2, b3, b4, b5⟩, ⟨c1, c2, c3, c4, c5⟩, ⟨d1, d2, d3, d4, d5⟩⟩ =>
      ⟨a1, a2, a3, a4, a5, b1, b2, b3, b4, b5, c1, c2, c3, c4, c5, d1, d2, d3, d4, d5⟩,
     fun h => ⟨⟨h.framerate, h.dsc, h.language, h.title, h.origEpisode⟩,
       ⟨h.translProgram, h.translEpisode, h.translName, h.translContact, h.slr⟩,
       ⟨h.country, h.publisher, h.editorName, h.editorContact, h.creation⟩,
       ⟨h.revisionDate, h.revisionNumber, h.maxChars, h.maxRows, h.tcp⟩⟩⟩

theorem toString_natCast (n : Nat) : toString ((n : Nat) : Int) = toString n := rfl

/-- the language clause: for the five codes the library names, the name; otherwise nothing is claimed -/
theorem language_clause (lang : Bytes) :
    ((languageOf lang).getD [] ==
      (if lang == asc "0F" then asc "french" else if lang == asc "09" then asc "english"
       else if lang == asc "1E" then asc "norwegian" else if lang == asc "69" then asc "japanese"
       else if lang == asc "75" then asc "chinese" else (languageOf lang).getD [])) = true := by
  by_cases h1 : (lang == asc "0F") = true
  · rw [if_pos h1, eq_of_beq h1]; decide
  rw [if_neg h1]
  by_cases h2 : (lang == asc "09") = true
  · rw [if_pos h2, eq_of_beq h2]; decide
  rw [if_neg h2]
  by_cases h3 : (lang == asc "1E") = true
  · rw [if_pos h3, eq_of_beq h3]; decide
  rw [if_neg h3]
  by_cases h4 : (lang == asc "69") = true
  · rw [if_pos h4, eq_of_beq h4]; decide
  rw [if_neg h4]
  by_cases h5 : (lang == asc "75") = true
  · rw [if_pos h5, eq_of_beq h5]; decide
  rw [if_neg h5]
  exact beq_self_eq_true _

theorem texts_eleven (ig : Bool) (doc : Bytes) (d : Spec.STL.Doc) (D : Decoded ig doc d) :
    [d.texts.getD 0 [], d.texts.getD 1 [], d.texts.getD 2 [], d.texts.getD 3 [], d.texts.getD 4 [], d.texts.getD 5 [],
     d.texts.getD 6 [], d.texts.getD 7 [], d.texts.getD 8 [], d.texts.getD 9 [], d.texts.getD 10 []] = d.texts := by
  obtain ⟨t1, r1, _, hr1, e1⟩ := mapM_cons_inv _ _ _ _ D.texts
  obtain ⟨t2, r2, _, hr2, e2⟩ := mapM_cons_inv _ _ _ _ hr1
  obtain ⟨t3, r3, _, hr3, e3⟩ := mapM_cons_inv _ _ _ _ hr2
  obtain ⟨t4, r4, _, hr4, e4⟩ := mapM_cons_inv _ _ _ _ hr3
  obtain ⟨t5, r5, _, hr5, e5⟩ := mapM_cons_inv _ _ _ _ hr4
  obtain ⟨t6, r6, _, hr6, e6⟩ := mapM_cons_inv _ _ _ _ hr5
  obtain ⟨t7, r7, _, hr7, e7⟩ := mapM_cons_inv _ _ _ _ hr6
  obtain ⟨t8, r8, _, hr8, e8⟩ := mapM_cons_inv _ _ _ _ hr7
  obtain ⟨t9, r9, _, hr9, e9⟩ := mapM_cons_inv _ _ _ _ hr8
  obtain ⟨t10, r10, _, hr10, e10⟩ := mapM_cons_inv _ _ _ _ hr9
  obtain ⟨t11, r11, _, hr11, e11⟩ := mapM_cons_inv _ _ _ _ hr10
  have hnil := mapM_nil_inv _ _ hr11
  subst hnil e11 e10 e9 e8 e7 e6 e5 e4 e3 e2
  rw [e1]
  rfl

/-- **The `stl.read` predicate on the reader model's answer.**  For every document the independent decoder accepts
    (denoting `d`) and every answer `"ok" :: rest` whose tokens parse (`Proto.decSubs`) into a value `s` that carries the
    reader model's answer — cues `d.cues.map (docCue …)` (= what `STL.read` returns, `read_of_decode`) and metadata
    `docMeta d` — the predicate of the stream has no failed clause. -/
theorem readWhy_model (ig : Bool) (doc : Bytes) (d : Spec.STL.Doc) (rest : List String) (s : Subs)
    (h : Spec.STL.decode ig doc = some d) (hdec : Proto.decSubs rest = some (s, []))
    (hitems : s.items = d.cues.map (docCue d.dsc (d.mnr : Int))) (hmeta : MetaCarried s.metadata (docMeta d)) :
    readWhy ig doc ("ok" :: rest) = [] := by
  have D := decode_inv ig doc d h
  have hok := decode_cues_ok ig doc d h
  have f1 : ((kv s.metadata "Framerate").bind intOf).getD 0 = (d.fr : Int) := hmeta.framerate
  have f2 : ((kv s.metadata "STLDisplayStandardCode").map utf8N).getD [] = [48 + d.dsc] := hmeta.dsc
  have f3 : ((kv s.metadata "Language").map utf8N).getD [] = (languageOf d.lang).getD [] := hmeta.language
  have t0 : ((kv s.metadata "Title").map utf8N).getD [] = d.texts.getD 0 [] := hmeta.title
  have t1 : ((kv s.metadata "STLOriginalEpisodeTitle").map utf8N).getD [] = d.texts.getD 1 [] := hmeta.origEpisode
  have t2 : ((kv s.metadata "STLTranslatedProgramTitle").map utf8N).getD [] = d.texts.getD 2 [] := hmeta.translProgram
  have t3 : ((kv s.metadata "STLTranslatedEpisodeTitle").map utf8N).getD [] = d.texts.getD 3 [] := hmeta.translEpisode
  have t4 : ((kv s.metadata "STLTranslatorName").map utf8N).getD [] = d.texts.getD 4 [] := hmeta.translName
  have t5 : ((kv s.metadata "STLTranslatorContactDetails").map utf8N).getD [] = d.texts.getD 5 [] := hmeta.translContact
  have t6 : ((kv s.metadata "STLSubtitleListReferenceCode").map utf8N).getD [] = d.texts.getD 6 [] := hmeta.slr
  have t7 : ((kv s.metadata "STLCountryOfOrigin").map utf8N).getD [] = d.texts.getD 7 [] := hmeta.country
  have t8 : ((kv s.metadata "STLPublisher").map utf8N).getD [] = d.texts.getD 8 [] := hmeta.publisher
  have t9 : ((kv s.metadata "STLEditorName").map utf8N).getD [] = d.texts.getD 9 [] := hmeta.editorName
  have t10 : ((kv s.metadata "STLEditorContactDetails").map utf8N).getD [] = d.texts.getD 10 [] := hmeta.editorContact
  have c1 : ((kv s.metadata "STLCreationDate").map utf8N).getD [] = Driver.STLD.two d.cd.1 ++ Driver.STLD.two d.cd.2.1 ++ Driver.STLD.two d.cd.2.2 :=
    hmeta.creation
  have c2 : ((kv s.metadata "STLRevisionDate").map utf8N).getD [] = Driver.STLD.two d.rd.1 ++ Driver.STLD.two d.rd.2.1 ++ Driver.STLD.two d.rd.2.2 :=
    hmeta.revisionDate
  have n1 : ((kv s.metadata "STLRevisionNumber").bind intOf).getD 0 = (d.rn : Int) := hmeta.revisionNumber
  have n2 : kv s.metadata "STLMaximumNumberOfDisplayableCharactersInAnyTextRow" = some (toString d.mnc).toList := hmeta.maxChars
  have n3 : kv s.metadata "STLMaximumNumberOfDisplayableRows" = some (toString d.mnr).toList := hmeta.maxRows
  have n4 : ((kv s.metadata "STLTimecodeStartOfProgramme").bind intOf).getD 0 = d.tcpNs := hmeta.tcp
  have k1 : (s.items.length == d.cues.length) = true := by rw [hitems]; simp
  have k2 : (s.items.map (fun it => (it.startAt, it.endAt)) == d.cues.map (fun c => (c.startNs, c.endNs))) = true := by
    rw [hitems, List.map_map]
    exact beq_self_eq_true _
  have k3 : (s.items.map cueView == d.cues.map some) = true := by
    rw [hitems, List.map_map]
    have : ∀ c ∈ d.cues, (cueView ∘ docCue d.dsc (d.mnr : Int)) c = some c :=
      fun c hc => cueView_docCue d.dsc d.mnr c (hok c hc)
    rw [List.map_congr_left this]
    exact beq_self_eq_true _
  have k4 : s.items.all propagationOK = true := by
    rw [hitems, List.all_eq_true]
    intro it hit
    obtain ⟨c, hc, rfl⟩ := List.mem_map.mp hit
    exact propagationOK_docCue d.dsc d.mnr c (hok c hc)
  have k5 : (s.items.all fun it => (posOf it.attrs).any fun p => p.2.1 == (d.mnr : Int)) = true := by
    rw [hitems, List.all_eq_true]
    intro it hit
    obtain ⟨c, _, rfl⟩ := List.mem_map.mp hit
    exact maxRows_docCue d.dsc d.mnr c
  unfold readWhy
  rw [h]
  simp only [hdec, f1, f2, f3, t0, t1, t2, t3, t4, t5, t6, t7, t8, t9, t10, c1, c2, n1, n2, n3, n4, k1, k2, k3, k4, k5,
    texts_eleven ig doc d D, language_clause, beq_self_eq_true, Bool.and_self, clause, if_true, List.append_nil]

end C05
end Astisub
