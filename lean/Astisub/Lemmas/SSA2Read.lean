import Astisub.Lemmas.SSA2Info

/-!
# Lemmas/SSA2Read — the written document, line by line, through `SSA.read`

* no line of the written document contains a line feed (`doc_lines_nl`), so splitting the text at
  line feeds gives the writer's lines back;
* `run_document`: the scan loop over these lines ends with the script info, the styles and the
  normalised events of the cue list;
* `styleMap_nodup`, `toDef_pick`, `metadata_tabulate`: `read`'s post-processing;
* `write_read`: `read (lines (write s)) = norm s`.
-/

namespace Astisub
namespace SSA
open Go List

/-! ### line feeds -/

theorem mem_join {sep : Str} {c : Char} : ∀ {ls : List Str}, c ∈ join sep ls → c ∈ sep ∨ ∃ l ∈ ls, c ∈ l := by
  intro ls
  induction ls with
  | nil => intro h; simp [join] at h
  | cons a rest ih =>
    intro h
    cases rest with
    | nil => exact Or.inr ⟨a, by simp, by simpa [join] using h⟩
    | cons b r =>
      have e : join sep (a :: b :: r) = a ++ sep ++ join sep (b :: r) := rfl
      rw [e] at h
      rcases mem_append.mp h with h | h
      · rcases mem_append.mp h with h | h
        · exact Or.inr ⟨a, by simp, h⟩
        · exact Or.inl h
      · rcases ih h with h | ⟨l, hl, hc⟩
        · exact Or.inl h
        · exact Or.inr ⟨l, mem_cons_of_mem _ hl, hc⟩

theorem nl_not_mem_join {sep : Str} {ls : List Str} (hs : '\n' ∉ sep) (h : ∀ l ∈ ls, '\n' ∉ l) : '\n' ∉ join sep ls := by
  intro hm
  rcases mem_join hm with h1 | ⟨l, hl, hc⟩
  · exact hs h1
  · exact h l hl hc

theorem nl_not_mem_of_noSpace {s : Str} (h : ∀ c ∈ s, isSpace c = false) : '\n' ∉ s :=
  fun hm => absurd (h _ hm) (by decide)

/-- a string value without line feed (other values never have one) -/
def ValNL : Val → Prop
  | .s str => '\n' ∉ str
  | _ => True

instance : (v : Val) → Decidable (ValNL v)
  | .s str => inferInstanceAs (Decidable ('\n' ∉ str))
  | .b _ => isTrue trivial
  | .c _ => isTrue trivial
  | .f _ => isTrue trivial
  | .i _ => isTrue trivial

/-- neither the name nor the font name of the style contains a line feed -/
def StyleNL (s : Style) : Prop := '\n' ∉ s.name ∧ ∀ f ∈ Fld.all, ∀ v, s.vals.get f = some v → ValNL v

instance (s : Style) : Decidable (StyleNL s) :=
  inferInstanceAs (Decidable ('\n' ∉ s.name ∧ ∀ f ∈ Fld.all, ∀ v, s.vals.get f = some v → ValNL v))

/-- no text column of the event contains a line feed -/
def EventNL (e : Event) : Prop := '\n' ∉ e.style ∧ '\n' ∉ e.name ∧ '\n' ∉ e.effect ∧ '\n' ∉ e.text

instance (e : Event) : Decidable (EventNL e) :=
  inferInstanceAs (Decidable ('\n' ∉ e.style ∧ '\n' ∉ e.name ∧ '\n' ∉ e.effect ∧ '\n' ∉ e.text))

theorem cell_nl (v : Val) (cell : Str) (h : v.ssa = some cell) (hv : ValNL v) : '\n' ∉ cell := by
  cases v with
  | b b => cases b <;> (simp only [Val.ssa, Option.some.injEq] at h; subst h; decide)
  | c c =>
    simp only [Val.ssa, Option.some.injEq] at h
    subst h
    apply nl_not_mem_of_noSpace
    intro x hx
    unfold colourString at hx
    rcases mem_append.mp hx with hx | hx
    · have : x = '&' ∨ x = 'H' := by simpa using hx
      rcases this with rfl | rfl <;> decide
    · have k : ∀ n, isSpace (hexDigitLower (n % 16)) = false := fun n => hex_not_spaceFin ⟨n % 16, Nat.mod_lt _ (by decide)⟩
      simp only [hex8, mem_cons, not_mem_nil, or_false] at hx
      rcases hx with rfl | rfl | rfl | rfl | rfl | rfl | rfl | rfl <;> exact k _
  | f bits => exact nl_not_mem_of_numChar (formatFloat3_numChar bits cell h)
  | i i =>
    simp only [Val.ssa, Option.some.injEq] at h
    subst h
    exact nl_not_mem_of_numChar (numChar_itoa i)
  | s str =>
    simp only [Val.ssa, Option.some.injEq] at h
    subst h
    exact hv

theorem cells_nl (s : Style) (ht : StyleNL s) : ∀ (fs : List Fld) (cs : List Str),
    allSome (fs.map (cellOf s)) = some cs → ∀ c ∈ cs, '\n' ∉ c := by
  intro fs
  induction fs with
  | nil =>
    intro cs h c hc
    simp only [map_nil, allSome, Option.some.injEq] at h
    subst h
    cases hc
  | cons f fs ih =>
    intro cs h
    simp only [map_cons, allSome] at h
    cases hcell : cellOf s f with
    | none => rw [hcell] at h; simp at h
    | some c0 =>
      cases hrest : allSome (fs.map (cellOf s)) with
      | none => rw [hcell, hrest] at h; simp at h
      | some cs' =>
        rw [hcell, hrest] at h
        simp only [Option.some.injEq] at h
        subst h
        intro c hc
        rcases mem_cons.mp hc with rfl | hc
        · unfold cellOf at hcell
          cases hget : s.vals.get f with
          | none => simp only [hget, Option.some.injEq] at hcell; subst hcell; simp
          | some v =>
            simp only [hget] at hcell
            exact cell_nl v c hcell (ht.2 f (C04.fld_all_complete f) v hget)
        · exact ih cs' hrest c hc

theorem style_row_nl (s : Style) (fs : List Fld) (ht : StyleNL s) (row : Str)
    (hrow : s.row (formatOf fs) = some row) : '\n' ∉ row := by
  rw [row_formatOf] at hrow
  cases hcs : allSome (fs.map (cellOf s)) with
  | none => rw [hcs] at hrow; cases hrow
  | some cs =>
    rw [hcs] at hrow
    simp only [Option.map_some, Option.some.injEq] at hrow
    subst hrow
    apply nl_not_mem_join (by decide)
    intro l hl
    rcases mem_cons.mp hl with rfl | hl
    · exact ht.1
    · exact cells_nl s ht fs cs hcs l hl

theorem rows_nl (fs : List Fld) : ∀ (ss : List Style) (rows : List Str), (∀ s ∈ ss, StyleNL s) →
    allSome (ss.map fun s => s.row (formatOf fs)) = some rows → ∀ r ∈ rows, '\n' ∉ r := by
  intro ss
  induction ss with
  | nil =>
    intro rows _ h r hr
    simp only [map_nil, allSome, Option.some.injEq] at h
    subst h
    cases hr
  | cons s ss ih =>
    intro rows hs h
    simp only [map_cons, allSome] at h
    cases hrow : s.row (formatOf fs) with
    | none => rw [hrow] at h; simp at h
    | some row =>
      cases hrest : allSome (ss.map fun s => s.row (formatOf fs)) with
      | none => rw [hrow, hrest] at h; simp at h
      | some rows' =>
        rw [hrow, hrest] at h
        simp only [Option.some.injEq] at h
        subst h
        intro r hr
        rcases mem_cons.mp hr with rfl | hr
        · exact style_row_nl s fs (hs s (by simp)) r hrow
        · exact ih rows' (fun s' hs' => hs s' (by simp [hs'])) hrest r hr

theorem formatSSA_nl (t : Int) (h : TimeOK t) : '\n' ∉ Duration.formatSSA t := by
  obtain ⟨hh, m, s, f, hhh, hm, hs, hf, hfmt, _⟩ := C16.format_shape2 t '.' h.1 h.2
  unfold Duration.formatSSA
  rw [hfmt]
  unfold C16.canon2
  apply nl_not_mem_of_noSpace
  intro c hc
  simp only [mem_append, mem_cons] at hc
  rcases hc with ((hc | rfl | hc) | rfl | hc) | rfl | hc
  · exact (digitStr_dd hhh).noSpace c hc
  · decide
  · exact (digitStr_dd (by omega)).noSpace c hc
  · decide
  · exact (digitStr_dd (by omega)).noSpace c hc
  · decide
  · exact (digitStr_dd hf).noSpace c hc

theorem event_row_nl (e : Event) (v : Bool) (hc : EventCells e) (hn : EventNL e) : '\n' ∉ e.row v := by
  unfold Event.row
  apply nl_not_mem_join (by decide)
  intro l hl
  simp only [mem_cons, not_mem_nil, or_false] at hl
  rcases hl with rfl | rfl | rfl | rfl | rfl | rfl | rfl | rfl | rfl | rfl
  · cases v
    · by_cases hm : e.marked = some true <;> simp only [Bool.false_eq_true, ↓reduceIte, hm] <;> decide
    · simp only [↓reduceIte]
      exact nl_not_mem_of_numChar (numChar_itoa _)
  · exact formatSSA_nl _ hc.start
  · exact formatSSA_nl _ hc.stop
  · exact hn.1
  · exact hn.2.1
  · exact nl_not_mem_of_numChar (numChar_itoa _)
  · exact nl_not_mem_of_numChar (numChar_itoa _)
  · exact nl_not_mem_of_numChar (numChar_itoa _)
  · exact hn.2.2.1
  · exact hn.2.2.2

theorem col_nl (f : Fld) : '\n' ∉ f.col.toList := by cases f <;> decide

theorem formatLine_nl (cols : List Str) (h : ∀ c ∈ cols, '\n' ∉ c) : '\n' ∉ formatLine cols := by
  unfold formatLine
  intro hm
  rcases mem_append.mp hm with hm | hm
  · revert hm; decide
  · exact nl_not_mem_join (by decide) h hm

theorem stylesBlock_nl (v : Bool) (fs : List Fld) (rows : List Str) (h : ∀ r ∈ rows, '\n' ∉ r) :
    ∀ l ∈ stylesBlock v fs rows, '\n' ∉ l := by
  intro l hl
  unfold stylesBlock at hl
  split at hl
  · cases hl
  · simp only [cons_append, nil_append, mem_cons, mem_map] at hl
    rcases hl with rfl | rfl | rfl | ⟨r, hr, rfl⟩
    · simp
    · cases v <;> decide
    · apply formatLine_nl
      intro c hc
      unfold formatOf at hc
      rcases mem_cons.mp hc with rfl | hc
      · decide
      · obtain ⟨f, _, rfl⟩ := mem_map.mp hc
        exact col_nl f
    · unfold styleLine
      intro hm
      rcases mem_append.mp hm with hm | hm
      · revert hm; decide
      · exact h r hr hm

theorem eventsBlock_nl (v : Bool) (es : List Event) (h : ∀ e ∈ es, EventCells e ∧ EventNL e) :
    ∀ l ∈ eventsBlock v es, '\n' ∉ l := by
  intro l hl
  unfold eventsBlock at hl
  simp only [cons_append, nil_append, mem_cons, mem_map] at hl
  rcases hl with rfl | rfl | rfl | ⟨e, he, rfl⟩
  · simp
  · decide
  · apply formatLine_nl
    cases v <;> decide
  · unfold dialogueLine
    intro hm
    rcases mem_append.mp hm with hm | hm
    · revert hm; decide
    · exact event_row_nl e v (h e he).1 (h e he).2 hm

/-! ### representability and normal form -/

/-- the identifiers of the styles, in the writer's (sorted) order -/
def styleIds (s : Subs) : List Str := (writerStyles s).map (·.name)

/-- **Representable cue lists (write → read).** The script info is good (`InfoOK`: comments and strings
    need no trimming and have no line feed, strings are not empty, integers fit 64 bits, `Timer`
    survives shortest formatting); every style is made of good cells (`StyleOK`), its name and font
    name need no trimming and have no line feed; every cue's event has good cells (`EventCells`), a
    text that needs no trimming, and no line feed in a text column; style identifiers are distinct. -/
def RepRead (s : Subs) : Prop :=
  InfoOK (infoOfMeta s.metadata) ∧
  (∀ st ∈ writerStyles s, StyleOK st ∧ StyleTrimmed st ∧ StyleNL st) ∧
  (∀ e ∈ s.items.map eventOfItem, EventCells e ∧ Trimmed e.text ∧ EventNL e) ∧
  (styleIds s).Nodup

instance (s : Subs) : Decidable (RepRead s) :=
  inferInstanceAs (Decidable (InfoOK (infoOfMeta s.metadata) ∧
    (∀ st ∈ writerStyles s, StyleOK st ∧ StyleTrimmed st ∧ StyleNL st) ∧
    (∀ e ∈ s.items.map eventOfItem, EventCells e ∧ Trimmed e.text ∧ EventNL e) ∧
    (styleIds s).Nodup))

/-- **Normal form**: what the reader makes of the written document, spelled out from the cue list.
    Every cue is rebuilt (`ssaEvent.item`) from its event (`newSSAEventFromItem`) in normal form
    (`Event.norm`: centisecond times, explicit margins, `Layer`/`Marked` by script type, `*Default`
    renamed) against the identifiers of the styles; the styles are the sorted styles, each with the
    canonical attributes of its typed values; the metadata is the metadata of the typed script info;
    regions are dropped. -/
def norm (s : Subs) : Subs :=
  { items := s.items.map fun it => eventItem (styleIds s) ((eventOfItem it).norm "Dialogue".toList (isV4plus s)),
    regions := [],
    styles := (writerStyles s).map Style.toDef,
    metadata := (infoOfMeta s.metadata).metadata }

/-! ### `read`'s post-processing -/

/-- with distinct names no style replaces another -/
theorem styleMap_nodup : ∀ (l : List Style), (l.map (·.name)).Nodup → styleMap l = l := by
  intro l
  induction l with
  | nil => intro _; rfl
  | cons s rest ih =>
    intro h
    simp only [map_cons, nodup_cons] at h
    unfold styleMap
    have : rest.any (fun t => decide (t.name = s.name)) = false := by
      rw [any_eq_false]
      intro t ht
      simp only [decide_eq_true_eq]
      intro e
      exact h.1 (e ▸ mem_map_of_mem ht)
    rw [this]
    simp only [Bool.false_eq_true, ↓reduceIte, ih h.2]

theorem toDef_pick (st : Style) (fs : List Fld) (hcov : ∀ f, (st.vals.get f).isSome → f ∈ fs) :
    Style.toDef { name := st.name, vals := pick st fs } = st.toDef := by
  unfold Style.toDef
  simp only [pick_get_covering st fs hcov]

theorem lookup_tab {κ} [DecidableEq κ] (g : κ → Option Val) (fs : List κ) (k : κ) :
    (fs.filterMap fun f => (g f).map fun v => (f, v)).lookup k = if k ∈ fs then g k else none := by
  induction fs with
  | nil => simp
  | cons f fs ih =>
    rw [filterMap_cons]
    cases hget : g f with
    | none =>
      simp only [Option.map_none]
      rw [ih]
      by_cases hk : k = f
      · subst hk; simp [hget]
      · simp [hk]
    | some v =>
      simp only [Option.map_some, lookup_cons]
      by_cases hk : k = f
      · subst hk; simp [hget]
      · have : (k == f) = false := by simpa using hk
        rw [this, ih]
        simp [hk]

theorem tabulate_get (b : Info) (f : SI) : (tabulate b SI.all).get f = b.vals.get f := by
  unfold tabulate Vals.get
  rw [lookup_tab (fun f => b.vals.lookup f) SI.all f]
  simp [si_all_complete f]

theorem metadata_tabulate (b : Info) :
    Info.metadata { comments := b.comments, vals := tabulate b SI.all } = b.metadata := by
  unfold Info.metadata
  simp only [tabulate_get]

/-! ### the whole document -/

theorem run_blank_end {st st' : St} {ls : List Str} (h : run st ls = .ok st') (hf : st'.first = false) :
    run st (ls ++ [[]]) = .ok st' := by
  rw [run_append_ok h]
  simp only [run, step_blank st' hf]

/-- **The scan loop over the written document.** For a representable cue list the lines of the written
    text (split at line feeds) take the reader from its initial state to: section `[Events]`, the
    writer's event Format, the script info (values tabulated in key order), the sorted styles with their
    attributes in the Format's columns, one normalised event per cue. -/
theorem run_document (s : Subs) (out : Str) (hr : RepRead s) (h : write s = .ok out) :
    run {} (splitC '\n' out) = .ok
      { sec := .events, format := eventFormat (isV4plus s), first := false,
        info := { comments := (infoOfMeta s.metadata).comments, vals := tabulate (infoOfMeta s.metadata) SI.all },
        styles := (writerStyles s).map (fun st => { name := st.name, vals := pick st (formatFlds (writerStyles s)) }),
        events := (s.items.map eventOfItem).map (Event.norm "Dialogue".toList (isV4plus s)) } := by
  obtain ⟨hinfoOK, hstyles, hevents, _⟩ := hr
  obtain ⟨infoTxt, rows, hi, hrows, rfl⟩ := write_ok_lines s out h
  obtain ⟨infoLines, rfl, hnl, hrun⟩ := run_info _ infoTxt hinfoOK hi
  rw [← unlines_append, ← unlines_append]
  have hrowsnl := rows_nl (formatFlds (writerStyles s)) (writerStyles s) rows (fun st hst => (hstyles st hst).2.2) hrows
  rw [splitC_unlines _ (by
    intro l hl
    rcases mem_append.mp hl with hl | hl
    · rcases mem_append.mp hl with hl | hl
      · rcases mem_cons.mp hl with rfl | hl
        · decide
        · exact hnl l hl
      · exact stylesBlock_nl _ _ rows hrowsnl l hl
    · exact eventsBlock_nl _ _ (fun e he => ⟨(hevents e he).1, (hevents e he).2.2⟩) l hl)]
  apply run_blank_end _ rfl
  rw [append_assoc, run_append_ok hrun]
  rw [run_body (isV4plus s) _ (formatFlds_nodup _) (writerStyles s) rows _ _ rfl
    (fun st hst => ⟨(hstyles st hst).1, (hstyles st hst).2.1⟩) hrows
    (fun e he => ⟨(hevents e he).1, (hevents e he).2.1⟩)]
  simp

theorem filter_norm (hdr : Str) (v : Bool) (es : List Event) :
    (es.map (Event.norm hdr v)).filter (fun e => e.category = hdr) = es.map (Event.norm hdr v) := by
  apply filter_eq_self.mpr
  intro e he
  obtain ⟨e0, _, rfl⟩ := mem_map.mp he
  exact decide_eq_true rfl

/-- **Write → read.** For every representable cue list, reading the lines of the written text gives
    the normal form of the cue list. -/
theorem write_read (s : Subs) (out : Str) (hr : RepRead s) (h : write s = .ok out) :
    read (splitC '\n' out) = .ok (norm s) := by
  unfold read
  rw [run_document s out hr h]
  simp only
  have hnd := hr.2.2.2
  have hmap : styleMap ((writerStyles s).map (fun st => ({ name := st.name, vals := pick st (formatFlds (writerStyles s)) } : Style)))
      = (writerStyles s).map (fun st => { name := st.name, vals := pick st (formatFlds (writerStyles s)) }) := by
    apply styleMap_nodup
    rw [map_map]
    exact hnd
  rw [hmap]
  unfold norm
  congr 2
  · have hids : map (fun x : Style => x.name) (map (fun st => ({ name := st.name, vals := pick st (formatFlds (writerStyles s)) } : Style)) (writerStyles s))
        = styleIds s := by rw [map_map]; rfl
    rw [filter_norm, map_map, map_map, hids]
    rfl
  · rw [map_map]
    apply map_congr_left
    intro st hst
    exact toDef_pick st _ (fun f hf => formatFlds_covering _ st hst f hf)
  · exact metadata_tabulate _

end SSA
end Astisub
