import Astisub.Lemmas.VTT3Tok

/-!
# Lemmas/VTT3Text — one cue-text line WITH inline timestamps: the reader model against the decoder

`parseText2_of_textLine`: on a line whose pieces of text are `chunkOK`, whose tags are in the class (`scanOK2`) and that
the decoder `Spec.VTT.textLine` accepts, the reader model `VTT.parseText` — unless the tokenizer model
does not cover the line — leaves the same stack, finds the same voice, and its items are
`rs.map runItem2` for a run list `rs` that has the decoder's runs-with-text.

The proof is a simulation over "chunk, `<…>`, chunk, `<…>` …" as in `Lemmas/VTTRead2Text.lean`, but an inline
timestamp does not end the reader's text token: `Rel2` relates the decoder's state with the reader's state at
the START of the open text token and the pieces `pre`, `segs` of the token read so far
(`rel2_pre`, `rel2_seg`, `rel2_close`); `RelB` is the relation at a token boundary.
-/

namespace Astisub
namespace VTTRead
open Go Spec.VTT List
open VTT (PT stepTok foldToks flushTok flushSt)
open SRT (unescapeHTML)

/-! ### `scanOK2` piece by piece -/

theorem scanOK2_false_cons (c : Char) (cs : Str) :
    scanOK2 false (c :: cs) = if c = '<' then scanOK2 true cs else scanOK2 false cs := by
  simp only [scanOK2]

theorem scanOK2_true_cons (c : Char) (cs : Str) :
    scanOK2 true (c :: cs) =
      if c = '>' then scanOK2 false cs
      else !(c = '=' || c = '\x0c' || c = '|' || c = '\n' || c = '\r') && scanOK2 true cs := by
  simp only [scanOK2]

theorem scanOK2_text (x r : Str) (hx : ∀ c ∈ x, c ≠ '<') : scanOK2 false (x ++ r) = scanOK2 false r := by
  induction x with
  | nil => rfl
  | cons c x ih =>
    have hc : c ≠ '<' := hx c (by simp)
    rw [List.cons_append, scanOK2_false_cons]
    simp only [hc, if_false]
    exact ih (fun d hd => hx d (by simp [hd]))

theorem scanOK2_body (body after : Str) (hb : ∀ c ∈ body, c ≠ '>') :
    scanOK2 true (body ++ '>' :: after) = (body.all tagCharOK && scanOK2 false after) := by
  induction body with
  | nil => simp [scanOK2_true_cons]
  | cons c body ih =>
    have hc : c ≠ '>' := hb c (by simp)
    rw [List.cons_append, scanOK2_true_cons]
    simp only [hc, if_false, List.all_cons, ih (fun d hd => hb d (by simp [hd])), tagCharOK, Bool.and_assoc]

theorem scanOK2_tag (body after : Str) (hb : ∀ c ∈ body, c ≠ '>')
    (h : scanOK2 false ('<' :: (body ++ '>' :: after)) = true) :
    (∀ c ∈ body, tagCharOK c = true) ∧ scanOK2 false after = true := by
  rw [scanOK2_false_cons, if_pos rfl, scanOK2_body body after hb] at h
  simp only [Bool.and_eq_true, List.all_eq_true] at h
  exact h

theorem tsScan_false_cons (c : Char) (cs : Str) :
    tsScan false (c :: cs) =
      if c = '<' then (match cs with | d :: _ => isDigit d | [] => false) || tsScan true cs else tsScan false cs := by
  simp only [tsScan]
  cases cs <;> rfl

theorem tsScan_true_cons (c : Char) (cs : Str) :
    tsScan true (c :: cs) = if c = '>' then tsScan false cs else tsScan true cs := by
  simp only [tsScan]

/-- the class of the first pass = the class of this pass without inline timestamps -/
theorem scanOK_eq : ∀ (l : Str) (b : Bool), scanOK b l = (scanOK2 b l && !tsScan b l) := by
  intro l
  induction l with
  | nil => intro b; cases b <;> rfl
  | cons c cs ih =>
    intro b
    cases b with
    | false =>
      rw [scanOK_false_cons, scanOK2_false_cons, tsScan_false_cons]
      by_cases hc : c = '<'
      · simp only [hc, if_true, ih true]
        cases cs with
        | nil => simp
        | cons d ds =>
          simp only
          cases isDigit d <;> cases scanOK2 true (d :: ds) <;> cases tsScan true (d :: ds) <;> rfl
      · simp only [hc, if_false, ih false]
    | true =>
      rw [scanOK_true_cons, scanOK2_true_cons, tsScan_true_cons]
      by_cases hc : c = '>'
      · simp only [hc, if_true, ih false]
      · simp only [hc, if_false, ih true, Bool.and_assoc]

/-- without inline timestamp the two classes agree -/
theorem scanOK_of_noTs (l : Str) (h : scanOK2 false l = true) (hts : hasTs l = false) : scanOK false l = true := by
  rw [scanOK_eq, h]
  unfold hasTs at hts
  rw [hts]
  rfl

theorem lineOK2_of_lineOK {l : Str} (h : lineOK l = true) : lineOK2 l = true := by
  unfold lineOK at h
  rw [scanOK_eq] at h
  simp only [Bool.and_eq_true, Bool.not_eq_true'] at h
  unfold lineOK2 hasTs
  rw [h.1, h.2]
  rfl

/-! ### `chunksOK` piece by piece -/

theorem chunkOK_iff {x : Str} (h : chunkOK x = true) : trimSpace (unescapeHTML x) = [] ↔ trimSpace x = [] := by
  simp only [chunkOK, beq_iff_eq, decide_eq_decide] at h
  exact h

theorem chunkOK_nil : chunkOK [] = true := by decide

theorem chunkOK_of_noNbsp {x : Str} (h : noNbsp x = true) : chunkOK x = true := by
  simp only [chunkOK, beq_iff_eq, decide_eq_decide]
  exact blank_unescape x h

theorem chunksOK_nil (b : Bool) (acc : Str) : chunksOK b [] acc = chunkOK acc.reverse := by
  cases b <;> rfl

theorem chunksOK_false_cons (c : Char) (cs acc : Str) :
    chunksOK false (c :: cs) acc =
      if c = '<' then chunkOK acc.reverse && chunksOK true cs [] else chunksOK false cs (c :: acc) := by
  simp only [chunksOK]

theorem chunksOK_true_cons (c : Char) (cs acc : Str) :
    chunksOK true (c :: cs) acc = if c = '>' then chunksOK false cs [] else chunksOK true cs [] := by
  simp only [chunksOK]

theorem chunksOK_text (x : Str) (hx : ∀ c ∈ x, c ≠ '<') : ∀ (r acc : Str),
    chunksOK false (x ++ r) acc = chunksOK false r (x.reverse ++ acc) := by
  induction x with
  | nil => intro r acc; rfl
  | cons c x ih =>
    intro r acc
    have hc : c ≠ '<' := hx c (by simp)
    rw [List.cons_append, chunksOK_false_cons, if_neg hc, ih (fun d hd => hx d (by simp [hd]))]
    simp

theorem chunksOK_body (body : Str) (hb : ∀ c ∈ body, c ≠ '>') : ∀ (after acc : Str),
    chunksOK true (body ++ '>' :: after) acc = chunksOK false after [] := by
  induction body with
  | nil => intro after acc; rw [List.nil_append, chunksOK_true_cons, if_pos rfl]
  | cons c body ih =>
    intro after acc
    have hc : c ≠ '>' := hb c (by simp)
    rw [List.cons_append, chunksOK_true_cons, if_neg hc, ih (fun d hd => hb d (by simp [hd]))]

theorem chunksOK_noGt (s : Str) (hs : ∀ c ∈ s, c ≠ '>') : chunksOK true s [] = true := by
  induction s with
  | nil => rw [chunksOK_nil]; exact chunkOK_nil
  | cons c s ih =>
    rw [chunksOK_true_cons, if_neg (hs c (by simp))]
    exact ih (fun d hd => hs d (by simp [hd]))

theorem chunksOK_restLt (r acc : Str) (hr : RestLt r) :
    chunksOK false r acc = (chunkOK acc.reverse && chunksOK false r []) := by
  cases r with
  | nil => rw [chunksOK_nil, chunksOK_nil]; simp [chunkOK_nil]
  | cons c cs =>
    have hc : c = '<' := hr c cs rfl
    subst hc
    rw [chunksOK_false_cons, if_pos rfl, chunksOK_false_cons, if_pos rfl]
    simp [chunkOK_nil]

theorem chunksOK_split (x r : Str) (hx : ∀ c ∈ x, c ≠ '<') (hr : RestLt r) :
    chunksOK false (x ++ r) [] = (chunkOK x && chunksOK false r []) := by
  rw [chunksOK_text x hx, chunksOK_restLt r _ hr]
  simp

theorem chunksOK_tag (body after : Str) (hb : ∀ c ∈ body, c ≠ '>') :
    chunksOK false ('<' :: (body ++ '>' :: after)) [] = chunksOK false after [] := by
  rw [chunksOK_false_cons, if_pos rfl, chunksOK_body body hb]
  simp [chunkOK_nil]

/-! ### the decoder's flush -/

theorem flushText_acc (st : TextSt) : (flushText st).acc = [] := by
  unfold Spec.VTT.flushText
  split
  · rename_i h; simpa using h
  · simp only
    split
    · split <;> rfl
    · rfl

theorem flushText_of_acc_nil (st : TextSt) (h : st.acc = []) : flushText st = st := by
  unfold Spec.VTT.flushText
  rw [h]
  rfl

theorem flushText_idem (st : TextSt) : flushText (flushText st) = flushText st :=
  flushText_of_acc_nil _ (flushText_acc st)

theorem flushText_voice (st : TextSt) : (flushText st).voice = st.voice := by
  unfold Spec.VTT.flushText
  split
  · rfl
  · simp only
    split
    · split <;> rfl
    · rfl

theorem rev_isEmpty_false {y : Str} (hy : y ≠ []) : (y.reverse).isEmpty = false := by
  cases hr : y.reverse with
  | nil => simp at hr; exact absurd hr hy
  | cons => rfl

/-- flush of white space while an instant is pending: dropped -/
theorem flushText_blank_pend (st : TextSt) (y : Str) (hb : trimSpace y = []) (t : Nat) (hp : st.pending = some t) :
    (flushText { st with acc := y.reverse }).runs = st.runs ∧
    (flushText { st with acc := y.reverse }).pending = some t := by
  by_cases hy : y = []
  · subst hy
    rw [List.reverse_nil, flushText_of_acc_nil _ rfl]
    exact ⟨rfl, hp⟩
  · unfold Spec.VTT.flushText
    simp only [rev_isEmpty_false hy, Bool.false_eq_true, if_false, List.reverse_reverse, hb, if_true, hp,
      Option.isSome_some]
    simp

/-- flush of white space, no instant pending: a run that `norm` drops -/
theorem flushText_blank_none (st : TextSt) (y : Str) (hb : trimSpace y = []) (hp : st.pending = none) :
    (flushText { st with acc := y.reverse }).runs.filter nb = st.runs.filter nb ∧
    (flushText { st with acc := y.reverse }).pending = none := by
  by_cases hy : y = []
  · subst hy
    rw [List.reverse_nil, flushText_of_acc_nil _ rfl]
    exact ⟨rfl, hp⟩
  · unfold Spec.VTT.flushText
    simp only [rev_isEmpty_false hy, Bool.false_eq_true, if_false, List.reverse_reverse, hb, if_true, hp,
      Option.isSome_none]
    simp [List.filter_append, nb, hb]

/-- flush of text: a run carrying the pending instant -/
theorem flushText_nonblank (st : TextSt) (y : Str) (hb : trimSpace y ≠ []) :
    (flushText { st with acc := y.reverse }).runs = st.runs ++ [{ text := y, tags := st.stack, ts := st.pending }] ∧
    (flushText { st with acc := y.reverse }).pending = none := by
  have hy : y ≠ [] := by
    intro e; subst e
    exact hb (by simp [trimSpace, trimLeft, trimRight])
  unfold Spec.VTT.flushText
  simp only [rev_isEmpty_false hy, Bool.false_eq_true, if_false, List.reverse_reverse, hb]
  simp

/-! ### the relations -/

/-- the pending instant in nanoseconds, none = 0 -/
def pendOf (o : Option Nat) : Int := ((o.getD 0 : Nat) : Int) * 1000000

/-- decoder state `stD` ~ reader state `stM`, at a token boundary -/
structure RelB (stD : TextSt) (stM : PT) : Prop where
  acc : stD.acc = []
  voiceNe : ∀ v, stD.voice = some v → v ≠ []
  good : ∀ t ∈ stD.stack, goodName t.name = true
  tagok : ∀ t ∈ stD.stack, tagOK t = true
  tags : stM.tags = stD.stack.map modelTag
  voice : stM.voice = stD.voice.getD []
  lax : ∃ rs : List GRun, stM.items = rs.map runItem2 ∧ rs.filter nb = stD.runs.filter nb ∧
    ∀ r ∈ rs, ∀ t ∈ r.tags, tagOK t = true
  pend : stM.pending = pendOf stD.pending

/-- the text the decoder is collecting: the last piece of the open token -/
def lastText (pre : Str) (segs : List (Str × Str)) : Str :=
  match segs.getLast? with
  | some p => p.2
  | none => pre

theorem lastText_nil (pre : Str) : lastText pre [] = pre := rfl

theorem lastText_snoc (pre : Str) (segs : List (Str × Str)) (p : Str × Str) : lastText pre (segs ++ [p]) = p.2 := by
  simp [lastText]

/-- decoder state `stD` ~ reader state `stM` at the start of the open text token `pre, segs`
    (the decoder has not flushed the last piece yet) -/
structure Rel2 (stD : TextSt) (stM : PT) (pre : Str) (segs : List (Str × Str)) : Prop where
  acc : stD.acc = (unescapeHTML (lastText pre segs)).reverse
  preOK : ∀ c ∈ pre, c ≠ '<'
  segsOK : ∀ p ∈ segs, SegOK p
  voiceNe : ∀ v, stD.voice = some v → v ≠ []
  good : ∀ t ∈ stD.stack, goodName t.name = true
  tagok : ∀ t ∈ stD.stack, tagOK t = true
  tags : stM.tags = stD.stack.map modelTag
  voice : stM.voice = stD.voice.getD []
  lax : ∃ rs : List GRun,
    stM.items ++ (tokVal (VTT.tagsAttrs stM.tags) pre segs stM.pending).1 = rs.map runItem2 ∧
    rs.filter nb = (flushText stD).runs.filter nb ∧ ∀ r ∈ rs, ∀ t ∈ r.tags, tagOK t = true
  pend : (tokVal (VTT.tagsAttrs stM.tags) pre segs stM.pending).2 = pendOf (flushText stD).pending

theorem runItem2_mk (text : Str) (stack : List GTag) (ts : Option Nat) :
    runItem2 { text := text, tags := stack, ts := ts } =
      mkItem (VTT.tagsAttrs (stack.map modelTag)) text (pendOf ts) := rfl

theorem nb_blank {text : Str} {tags : List GTag} {ts : Option Nat} (h : trimSpace text = []) :
    nb { text := text, tags := tags, ts := ts } = false := by
  simp [nb, h]

theorem nb_text {text : Str} {tags : List GTag} {ts : Option Nat} (h : trimSpace text ≠ []) :
    nb { text := text, tags := tags, ts := ts } = true := by
  simp [nb, h]

theorem tagok_snoc {rs : List GRun} {r : GRun} (h1 : ∀ r ∈ rs, ∀ t ∈ r.tags, tagOK t = true)
    (h2 : ∀ t ∈ r.tags, tagOK t = true) : ∀ q ∈ rs ++ [r], ∀ t ∈ q.tags, tagOK t = true := by
  intro q hq
  rcases List.mem_append.mp hq with hq | hq
  · exact h1 q hq
  · simp only [List.mem_singleton] at hq; subst hq; exact h2

/-! ### the first piece of a token -/

theorem rel2_pre {stD : TextSt} {stM : PT} (R : RelB stD stM) (x : Str) (hx : ∀ c ∈ x, c ≠ '<')
    (hn : chunkOK x = true) : Rel2 { stD with acc := (unescapeHTML x).reverse } stM x [] := by
  obtain ⟨rs, hitems, hnb, htag⟩ := R.lax
  have hval : tokVal (VTT.tagsAttrs stM.tags) x [] stM.pending = tokFirst (VTT.tagsAttrs stM.tags) x stM.pending := rfl
  by_cases hb : trimSpace x = []
  · have hbu : trimSpace (unescapeHTML x) = [] := (chunkOK_iff hn).mpr hb
    have hfirst : tokFirst (VTT.tagsAttrs stM.tags) x stM.pending = ([], stM.pending) := by
      simp [tokFirst, hb]
    have hpc : stD.pending = none ∨ ∃ t, stD.pending = some t := by
      cases stD.pending with
      | none => exact Or.inl rfl
      | some t => exact Or.inr ⟨t, rfl⟩
    rcases hpc with hp | ⟨t, hp⟩
    rotate_left
    · obtain ⟨f1, f2⟩ := flushText_blank_pend stD (unescapeHTML x) hbu t hp
      refine ⟨rfl, hx, fun p hp => (by cases hp), R.voiceNe, R.good, R.tagok, R.tags, R.voice, ?_, ?_⟩
      · exact ⟨rs, by rw [hval, hfirst, List.append_nil]; exact hitems, by rw [f1]; exact hnb, htag⟩
      · rw [hval, hfirst, f2, R.pend, hp]
    · obtain ⟨f1, f2⟩ := flushText_blank_none stD (unescapeHTML x) hbu hp
      refine ⟨rfl, hx, fun p hp => (by cases hp), R.voiceNe, R.good, R.tagok, R.tags, R.voice, ?_, ?_⟩
      · exact ⟨rs, by rw [hval, hfirst, List.append_nil]; exact hitems, by rw [f1]; exact hnb, htag⟩
      · rw [hval, hfirst, f2, R.pend, hp]
  · have hbu : trimSpace (unescapeHTML x) ≠ [] := fun h => hb ((chunkOK_iff hn).mp h)
    have hfirst : tokFirst (VTT.tagsAttrs stM.tags) x stM.pending
        = ([mkItem (VTT.tagsAttrs stM.tags) (unescapeHTML x) stM.pending], 0) := by
      simp [tokFirst, hb]
    obtain ⟨f1, f2⟩ := flushText_nonblank stD (unescapeHTML x) hbu
    refine ⟨rfl, hx, fun p hp => (by cases hp), R.voiceNe, R.good, R.tagok, R.tags, R.voice, ?_, ?_⟩
    · refine ⟨rs ++ [{ text := unescapeHTML x, tags := stD.stack, ts := stD.pending }], ?_, ?_, ?_⟩
      · rw [hval, hfirst, List.map_append, hitems, List.map_cons, List.map_nil, runItem2_mk, R.tags, R.pend]
      · rw [f1, List.filter_append, List.filter_append, hnb]
      · exact tagok_snoc htag R.tagok
    · rw [hval, hfirst, f2]; rfl

/-! ### a timestamp and the piece after it -/

theorem getD_parse {cap : Str} {t : Nat} (h : inlineTs cap = some t) :
    (Duration.parseVTT cap).getD 0 = pendOf (some t) := by
  rw [parse_inline h]; rfl

theorem rel2_seg {stD : TextSt} {stM : PT} {pre : Str} {segs : List (Str × Str)} (R : Rel2 stD stM pre segs)
    (cap : Str) (t : Nat) (ht : inlineTs cap = some t) (x : Str) (hx : ∀ c ∈ x, c ≠ '<') (hn : chunkOK x = true) :
    Rel2 { flushText stD with pending := some t, acc := (unescapeHTML x).reverse } stM pre (segs ++ [(cap, x)]) := by
  obtain ⟨rs, hitems, hnb, htag⟩ := R.lax
  have hsegs : ∀ p ∈ segs ++ [(cap, x)], SegOK p := by
    intro p hp
    rcases List.mem_append.mp hp with hp | hp
    · exact R.segsOK p hp
    · simp only [List.mem_singleton] at hp; subst hp; exact ⟨⟨t, ht⟩, hx⟩
  have hstack : (flushText stD).stack = stD.stack := flushText_stack stD
  have hvoice : (flushText stD).voice = stD.voice := flushText_voice stD
  generalize hD1 : flushText stD = D1 at hstack hvoice hnb
  have hpend := R.pend
  rw [hD1] at hpend
  by_cases hb : trimSpace x = []
  · have hbu : trimSpace (unescapeHTML x) = [] := (chunkOK_iff hn).mpr hb
    have hstep : tokVal (VTT.tagsAttrs stM.tags) pre (segs ++ [(cap, x)]) stM.pending
        = ((tokVal (VTT.tagsAttrs stM.tags) pre segs stM.pending).1, pendOf (some t)) := by
      rw [tokVal_snoc]; simp [segStep, hb, getD_parse ht]
    obtain ⟨f1, f2⟩ := flushText_blank_pend { D1 with pending := some t } (unescapeHTML x) hbu t rfl
    refine ⟨by rw [lastText_snoc], R.preOK, hsegs,
      by rw [hvoice]; exact R.voiceNe, by rw [hstack]; exact R.good, by rw [hstack]; exact R.tagok,
      by rw [hstack]; exact R.tags, by rw [hvoice]; exact R.voice, ?_, ?_⟩
    · exact ⟨rs, by rw [hstep]; exact hitems, by rw [f1]; exact hnb, htag⟩
    · rw [hstep, f2]
  · have hbu : trimSpace (unescapeHTML x) ≠ [] := fun h => hb ((chunkOK_iff hn).mp h)
    have hstep : tokVal (VTT.tagsAttrs stM.tags) pre (segs ++ [(cap, x)]) stM.pending
        = ((tokVal (VTT.tagsAttrs stM.tags) pre segs stM.pending).1 ++
            [mkItem (VTT.tagsAttrs stM.tags) (unescapeHTML x) (pendOf (some t))], 0) := by
      rw [tokVal_snoc]; simp [segStep, hb, getD_parse ht]
    obtain ⟨f1, f2⟩ := flushText_nonblank { D1 with pending := some t } (unescapeHTML x) hbu
    refine ⟨by rw [lastText_snoc], R.preOK, hsegs,
      by rw [hvoice]; exact R.voiceNe, by rw [hstack]; exact R.good, by rw [hstack]; exact R.tagok,
      by rw [hstack]; exact R.tags, by rw [hvoice]; exact R.voice, ?_, ?_⟩
    · refine ⟨rs ++ [{ text := unescapeHTML x, tags := D1.stack, ts := some t }], ?_, ?_, ?_⟩
      · rw [hstep, ← List.append_assoc, hitems, List.map_append, List.map_cons, List.map_nil, runItem2_mk, R.tags, hstack]
      · rw [f1, List.filter_append, List.filter_append, hnb]
      · exact tagok_snoc htag (by rw [hstack]; exact R.tagok)
    · rw [hstep, f2]; rfl

/-! ### the end of a token -/

theorem rawTok_eq_nil {pre : Str} {segs : List (Str × Str)} (h : rawTok pre segs = []) : pre = [] ∧ segs = [] := by
  unfold rawTok at h
  have h1 := List.append_eq_nil_iff.mp h
  refine ⟨h1.1, ?_⟩
  cases segs with
  | nil => rfl
  | cons p segs => simp [segRaw] at h1

theorem rel2_close {stD : TextSt} {stM : PT} {pre : Str} {segs : List (Str × Str)} (R : Rel2 stD stM pre segs) :
    ∃ stM2, flushSt stM (rawTok pre segs).reverse = some stM2 ∧ RelB (flushText stD) stM2 := by
  obtain ⟨rs, hitems, hnb, htag⟩ := R.lax
  have hstack : (flushText stD).stack = stD.stack := flushText_stack stD
  have hvoice : (flushText stD).voice = stD.voice := flushText_voice stD
  by_cases hne : rawTok pre segs = []
  · obtain ⟨h1, h2⟩ := rawTok_eq_nil hne
    subst h1; subst h2
    refine ⟨stM, by rw [hne]; exact flushSt_nil stM, flushText_acc stD, by rw [hvoice]; exact R.voiceNe,
      by rw [hstack]; exact R.good, by rw [hstack]; exact R.tagok, by rw [hstack]; exact R.tags,
      by rw [hvoice]; exact R.voice, ?_, ?_⟩
    · rw [tokVal_nil_nil, List.append_nil] at hitems
      exact ⟨rs, hitems, hnb, htag⟩
    · have := R.pend
      rw [tokVal_nil_nil] at this
      exact this
  · refine ⟨_, flushSt_rawTok stM pre segs R.preOK R.segsOK hne, flushText_acc stD, by rw [hvoice]; exact R.voiceNe,
      by rw [hstack]; exact R.good, by rw [hstack]; exact R.tagok, by rw [hstack]; exact R.tags,
      by rw [hvoice]; exact R.voice, ?_, ?_⟩
    · simp only
      by_cases hc : segs = [] ∧ trimSpace pre = []
      · obtain ⟨hs, hb⟩ := hc
        subst hs
        have hval : tokVal (VTT.tagsAttrs stM.tags) pre [] stM.pending = ([], stM.pending) := by
          simp [tokVal, tokFirst, hb]
        rw [hval, List.append_nil] at hitems
        have hact : tokAct (VTT.tagsAttrs stM.tags) pre [] stM.pending
            = ([mkItem (VTT.tagsAttrs stM.tags) (unescapeHTML pre) 0], stM.pending) := by
          simp [tokAct, hb]
        have hbu : unescapeHTML pre = pre := unescape_of_blank pre ((trimSpace_nil_iff pre).mp hb)
        refine ⟨rs ++ [{ text := unescapeHTML pre, tags := stD.stack, ts := none }], ?_, ?_, ?_⟩
        · rw [hact, List.map_append, hitems, List.map_cons, List.map_nil, runItem2_mk, R.tags]; rfl
        · rw [List.filter_append, hnb]
          have : [({ text := unescapeHTML pre, tags := stD.stack, ts := none } : GRun)].filter nb = [] := by
            rw [hbu]; simp [nb, hb]
          rw [this, List.append_nil]
        · exact tagok_snoc htag R.tagok
      · have hact : tokAct (VTT.tagsAttrs stM.tags) pre segs stM.pending
            = tokVal (VTT.tagsAttrs stM.tags) pre segs stM.pending := by
          simp only [tokAct, if_neg hc]
        rw [hact]
        exact ⟨rs, hitems, hnb, htag⟩
    · simp only
      have h2 : (tokAct (VTT.tagsAttrs stM.tags) pre segs stM.pending).2
          = (tokVal (VTT.tagsAttrs stM.tags) pre segs stM.pending).2 := by
        by_cases hc : segs = [] ∧ trimSpace pre = []
        · obtain ⟨hs, hb⟩ := hc
          subst hs
          simp [tokAct, tokVal, tokFirst, hb]
        · simp only [tokAct, if_neg hc]
      rw [h2, R.pend]

/-! ### one tag -/

/-- what "both sides take the tag `<body>` from related states to related states" means -/
def TagSim2 (body : Str) (stM2 : PT) (st3 : TextSt) : Prop :=
  ∃ stM3, RelB st3 stM3 ∧
    ∀ (s' : Str) (f : PT) (acc : Str) (st : PT), flushSt st acc = some stM2 → J' s' [] stM3 f →
      J' (('<' :: body ++ ['>']) ++ s') acc st f

theorem relB_close {st2 : TextSt} {stM2 : PT} (R : RelB st2 stM2) (name : Str) (st3 : TextSt)
    (h : tagStep ('/' :: name) st2 = some st3) : TagSim2 ('/' :: name) stM2 st3 := by
  have hJ : ∀ (stM3 : PT), goodName name = true →
      stM3 = (if name = "v".toList then stM2 else { stM2 with tags := stM2.tags.dropLast }) →
      ∀ (s' : Str) (f : PT) (acc : Str) (st : PT), flushSt st acc = some stM2 → J' s' [] stM3 f →
        J' (('<' :: '/' :: name ++ ['>']) ++ s') acc st f := by
    intro stM3 hg he s' f acc st hfl hJ'
    refine J'_tok (fun tok => ∃ n, tok = Tok.endTag ('<' :: '/' :: name ++ ['>']) n) (by simp) ?_ hfl ?_ hJ'
    · intro fuel out
      exact Or.inr ⟨_, ⟨_, rfl⟩, close_tok hg fuel s' acc out⟩
    · rintro tok ⟨n, rfl⟩
      rw [close_step, he]
  rcases tagStep_close name st2 st3 h with ⟨hv, _, rfl⟩ | ⟨hv, t, hlast, hname, rfl⟩
  · exact ⟨stM2, R, hJ stM2 (by rw [hv]; decide) (by rw [if_pos hv])⟩
  · have hmem : t ∈ st2.stack := by
      obtain ⟨ys, e⟩ := List.getLast?_eq_some_iff.mp hlast
      rw [e]; simp
    have hg : goodName name = true := by rw [← hname]; exact R.good t hmem
    refine ⟨{ stM2 with tags := stM2.tags.dropLast }, ?_, hJ _ hg (by rw [if_neg hv])⟩
    exact ⟨R.acc, R.voiceNe, fun u hu => R.good u (List.dropLast_subset _ hu), dropLast_ok R.tagok,
      by simp only [R.tags, List.map_dropLast], R.voice, R.lax, R.pend⟩

theorem inTagOK_of {c : Char} (h : tagCharOK c = true) : inTagOK c := by
  simp only [tagCharOK, Bool.not_eq_true', Bool.or_eq_false_iff, decide_eq_false_iff_not] at h
  obtain ⟨⟨⟨⟨h1, h2⟩, h3⟩, h4⟩, h5⟩ := h
  exact ⟨h1, h2, h3, h4, h5⟩

theorem relB_open {st2 : TextSt} {stM2 : PT} (R : RelB st2 stM2) (c : Char) (tl : Str) (st3 : TextSt)
    (hc : c ≠ '/') (hd : isDigit c = false) (hb : BodyOK (c :: tl))
    (h : tagStep (c :: tl) st2 = some st3) : TagSim2 (c :: tl) stM2 st3 := by
  obtain ⟨ha, hsl, name, classes, hsp, hne, hcase⟩ := tagStep_open c tl st2 st3 hc hd h
  have hs : ∀ d ∈ c :: tl, d ≠ '/' := by
    intro d hd e
    subst e
    have : (c :: tl).contains '/' = true := by simpa using hd
    rw [hsl] at this; cases this
  obtain ⟨hdot, hblank, _⟩ := alpha_facts ha
  obtain ⟨xs, cls, p, w, sh⟩ := shape_of_body c tl hdot hblank
  have sf := shapeF_of sh ha hb hs
  have hJ : ∀ (stM3 : PT),
      stM3 = (if name = "v".toList then (if stM2.voice = [] then { stM2 with voice := annOf (c :: tl) } else stM2)
              else { stM2 with tags := stM2.tags ++ [{ name := name, classes := classes, annotation := annOf (c :: tl) }] }) →
      ∀ (s' : Str) (f : PT) (acc : Str) (st : PT), flushSt st acc = some stM2 → J' s' [] stM3 f →
        J' (('<' :: (c :: tl) ++ ['>']) ++ s') acc st f := by
    intro stM3 he s' f acc st hfl hJ'
    refine J'_tok (fun tok => ∃ n a, tok = Tok.startTag ('<' :: (c :: tl) ++ ['>']) n a) (by simp) ?_ hfl ?_ hJ'
    · intro fuel out
      rcases open_tok sh sf fuel s' acc out with hu | ⟨n, a, e⟩
      · exact Or.inl hu
      · exact Or.inr ⟨_, ⟨n, a, rfl⟩, e⟩
    · rintro tok ⟨n, a, rfl⟩
      rw [open_step sh sf name classes hsp hne, he]
  rcases hcase with ⟨hv, hvoice, hann, rfl⟩ | ⟨hv, rfl⟩
  · have hmv : stM2.voice = [] := by rw [R.voice, hvoice]; rfl
    refine ⟨{ stM2 with voice := annOf (c :: tl) }, ?_, hJ _ (by rw [if_pos hv, if_pos hmv])⟩
    refine ⟨R.acc, ?_, R.good, R.tagok, R.tags, rfl, R.lax, R.pend⟩
    intro v hv'
    cases hv'
    exact hann
  · refine ⟨{ stM2 with tags := stM2.tags ++ [{ name := name, classes := classes, annotation := annOf (c :: tl) }] },
      ?_, hJ _ (by rw [if_neg hv])⟩
    have hsp' := hsp
    rw [sh.head] at hsp'
    obtain ⟨hname, _⟩ := classes_agree (c :: xs) cls name classes sh.nameNoDot sh.cls hsp' hne
    refine ⟨R.acc, R.voiceNe, ?_, ?_, ?_, R.voice, R.lax, R.pend⟩
    · intro t ht
      simp only [List.mem_append, List.mem_singleton] at ht
      rcases ht with ht | ht
      · exact R.good t ht
      · rw [ht, hname]; exact goodName_of_shape sf
    · intro t ht
      simp only [List.mem_append, List.mem_singleton] at ht
      rcases ht with ht | ht
      · exact R.tagok t ht
      · rw [ht]
        exact pushed_tagOK c tl name classes (fun x hx => inTagOK_of (hb.ok x hx)) ha hsp
    · simp only [R.tags, List.map_append, List.map_cons, List.map_nil, modelTag]

theorem relB_tag {st2 : TextSt} {stM2 : PT} (R : RelB st2 stM2) (body : Str) (st3 : TextSt)
    (hb : BodyOK body) (hdig : ∀ d tl, body = d :: tl → isDigit d = false)
    (h : tagStep body st2 = some st3) : TagSim2 body stM2 st3 := by
  cases body with
  | nil => rw [tagStep_nil] at h; cases h
  | cons c tl =>
    by_cases hc : c = '/'
    · subst hc; exact relB_close R tl st3 h
    · exact relB_open R c tl st3 hc (hdig c tl rfl) hb h

/-! ### an inline timestamp -/

theorem digit_not_slash {c : Char} (h : isDigit c = true) : c ≠ '/' := by
  intro e; subst e; revert h; decide

theorem digit_tok_facts {c : Char} (h : isDigit c = true) :
    isLetter c = false ∧ c ≠ '/' ∧ c ≠ '!' ∧ c ≠ '?' := by
  have hr := isDigit_range h
  refine ⟨?_, digit_not_slash h, ?_, ?_⟩
  · cases hl : isLetter c with
    | false => rfl
    | true =>
      simp only [isLetter, Bool.or_eq_true, Bool.and_eq_true, decide_eq_true_eq] at hl
      have h1 : ∀ x y : Char, x ≤ y → x.toNat ≤ y.toNat := fun x y hxy => hxy
      rcases hl with ⟨l1, _⟩ | ⟨l1, _⟩
      · have := h1 _ _ l1
        have e : 'a'.toNat = 97 := by decide
        omega
      · have := h1 _ _ l1
        have e : 'A'.toNat = 65 := by decide
        omega
  · intro e; subst e; revert h; decide
  · intro e; subst e; revert h; decide

theorem tagStep_digit (c : Char) (tl : Str) (st st3 : TextSt) (hd : isDigit c = true)
    (h : tagStep (c :: tl) st = some st3) :
    ∃ t, inlineTs (c :: tl) = some t ∧ st3 = { st with pending := some t } := by
  rw [tagStep] at h
  · simp only [hd, if_true] at h
    split at h
    · rename_i t ht
      cases h
      exact ⟨t, ht, rfl⟩
    · cases h
  · intro e; exact digit_not_slash hd e

theorem J'_lt {d : Char} {s acc : Str} {st f : PT} (hd : isLetter d = false ∧ d ≠ '/' ∧ d ≠ '!' ∧ d ≠ '?')
    (h : J' (d :: s) ('<' :: acc) st f) : J' ('<' :: d :: s) acc st f := by
  intro out st₀ h0 fuel hf
  obtain ⟨k, rfl⟩ : ∃ k, fuel = k + 1 := ⟨fuel - 1, by simp at hf; omega⟩
  rw [VTT.tokLoop_lt_text k d s acc out hd]
  exact h out st₀ h0 k (by simp at hf ⊢; omega)

/-! ### the simulation -/

theorem split_lt (s : Str) : ∃ x r, s = x ++ r ∧ (∀ c ∈ x, c ≠ '<') ∧ RestLt r := by
  refine ⟨s.takeWhile (· != '<'), s.dropWhile (· != '<'), List.takeWhile_append_dropWhile.symm, ?_, ?_⟩
  · intro c hc
    simpa using VTT.TokAux.takeWhile_all s c hc
  · intro c r' e
    simpa using VTT.TokAux.dropWhile_head s c r' e

theorem sim2 (n : Nat) : ∀ (s : Str), s.length < n → ∀ (stD : TextSt) (stM : PT) (pre : Str) (segs : List (Str × Str))
    (fD : TextSt) (fuel : Nat), Rel2 stD stM pre segs → RestLt s → scanOK2 false s = true → chunksOK false s [] = true →
    s.length + 1 ≤ fuel → textLine fuel s stD = some fD →
    ∃ fM, RelB fD fM ∧ J' s (rawTok pre segs).reverse stM fM := by
  induction n with
  | zero => intro s h; omega
  | succ n ih =>
    intro s hl stD stM pre segs fD fuel R hrl hok hnn hf h
    obtain ⟨k, rfl⟩ : ∃ k, fuel = k + 1 := ⟨fuel - 1, by omega⟩
    cases s with
    | nil =>
      rw [textLine_nil] at h
      cases h
      obtain ⟨stM2, hfl, RB⟩ := rel2_close R
      exact ⟨stM2, RB, J'_nil hfl⟩
    | cons c r' =>
      have hc : c = '<' := hrl c r' rfl
      subst hc
      obtain ⟨body, after, st3, e, hbody, hstep, hrest⟩ := textLine_lt_inv k r' _ fD h
      subst e
      obtain ⟨hokb, hokafter⟩ := scanOK2_tag body after (fun c hc => (hbody c hc).1) hok
      have hnafter : chunksOK false after [] = true := by
        rw [chunksOK_tag body after (fun c hc => (hbody c hc).1)] at hnn
        exact hnn
      obtain ⟨x, r2, e2, hx, hr2⟩ := split_lt after
      subst e2
      simp only [List.length_cons, List.length_append] at hl hf
      obtain ⟨fuel', hf', h'⟩ := textLine_chunk x.length x (Nat.le_refl _) hx r2 hr2 k st3 fD (by omega) hrest
      rw [chunksOK_split x r2 hx hr2, Bool.and_eq_true] at hnafter
      have hnx : chunkOK x = true := hnafter.1
      have hnr2 : chunksOK false r2 [] = true := hnafter.2
      have hokr2 : scanOK2 false r2 = true := by rw [scanOK2_text x r2 hx] at hokafter; exact hokafter
      cases body with
      | nil => rw [tagStep_nil] at hstep; cases hstep
      | cons d tl =>
        by_cases hdig : isDigit d = true
        · -- an inline timestamp: the reader's text token goes on
          obtain ⟨t, ht, e3⟩ := tagStep_digit d tl _ st3 hdig hstep
          subst e3
          have hacc : (flushText stD).acc = [] := flushText_acc stD
          have hst : ({ ({ flushText stD with pending := some t } : TextSt) with
              acc := (unescapeHTML x).reverse ++ ({ flushText stD with pending := some t } : TextSt).acc } : TextSt)
              = { flushText stD with pending := some t, acc := (unescapeHTML x).reverse } := by
            simp only [hacc, List.append_nil]
          rw [hst] at h'
          have R' := rel2_seg R (d :: tl) t ht x hx hnx
          obtain ⟨fM, RF, JF⟩ := ih r2 (by omega) _ stM pre (segs ++ [(d :: tl, x)]) fD fuel' R' hr2 hokr2 hnr2 hf' h'
          refine ⟨fM, RF, ?_⟩
          have hy : ∀ c ∈ (d :: tl) ++ '>' :: x, c ≠ '<' := by
            intro c hc
            rcases List.mem_append.mp hc with hc | hc
            · exact (hbody c hc).2.1
            · rcases List.mem_cons.mp hc with e | hc
              · subst e; decide
              · exact hx c hc
          have e4 : '<' :: ((d :: tl) ++ '>' :: (x ++ r2)) = '<' :: d :: ((tl ++ '>' :: x) ++ r2) := by simp
          rw [e4]
          apply J'_lt (digit_tok_facts hdig)
          have e5 : d :: ((tl ++ '>' :: x) ++ r2) = ((d :: tl) ++ '>' :: x) ++ r2 := by simp
          rw [e5]
          apply J'_text hy
          rw [rawTok_snoc] at JF
          have e6 : (rawTok pre segs ++ ('<' :: (d :: tl) ++ '>' :: x)).reverse
              = ((d :: tl) ++ '>' :: x).reverse ++ '<' :: (rawTok pre segs).reverse := by
            simp
          rw [e6] at JF
          exact JF
        · -- a tag: the reader's text token ends here
          have hdig' : isDigit d = false := by simpa using hdig
          obtain ⟨stM2, hfl, RB⟩ := rel2_close R
          obtain ⟨stM3, R3, hJ⟩ := relB_tag RB (d :: tl) st3 ⟨hbody, hokb⟩
            (by intro d' tl' e; cases e; exact hdig') hstep
          have hst : ({ st3 with acc := (unescapeHTML x).reverse ++ st3.acc } : TextSt)
              = { st3 with acc := (unescapeHTML x).reverse } := by
            simp only [R3.acc, List.append_nil]
          rw [hst] at h'
          have R' := rel2_pre R3 x hx hnx
          obtain ⟨fM, RF, JF⟩ := ih r2 (by omega) _ stM3 x [] fD fuel' R' hr2 hokr2 hnr2 hf' h'
          refine ⟨fM, RF, ?_⟩
          rw [rawTok_nil] at JF
          have J2 : J' (x ++ r2) [] stM3 fM := J'_text hx (by simpa using JF)
          have := hJ (x ++ r2) fM (rawTok pre segs).reverse stM hfl J2
          simpa using this

/-! ### the theorems -/

theorem pendOf_none : pendOf none = 0 := by simp [pendOf]

theorem relB_init (stack : List GTag) (hg : ∀ t ∈ stack, goodName t.name = true) (ht : ∀ t ∈ stack, tagOK t = true) :
    RelB { stack := stack } { tags := stack.map modelTag } := by
  constructor
  · rfl
  · intro v hv; cases hv
  · exact hg
  · exact ht
  · rfl
  · rfl
  · refine ⟨[], rfl, rfl, ?_⟩
    intro r hr; cases hr
  · show (0 : Int) = pendOf none
    rw [pendOf_none]

theorem sim_line2 (l : Str) (stack : List GTag) (st : TextSt) (hok : scanOK2 false l = true)
    (hn : chunksOK false l [] = true)
    (hg : ∀ t ∈ stack, goodName t.name = true) (ht : ∀ t ∈ stack, tagOK t = true)
    (h : textLine (l.length + 2) l { stack := stack } = some st) :
    ∃ fM, RelB st fM ∧ J' l [] { tags := stack.map modelTag } fM := by
  obtain ⟨x, r, e, hx, hr⟩ := split_lt l
  subst e
  simp only [List.length_append] at h
  obtain ⟨fuel', hf', h'⟩ := textLine_chunk x.length x (Nat.le_refl _) hx r hr _ { stack := stack } st (by omega) h
  have hst : ({ ({ stack := stack } : TextSt) with acc := (unescapeHTML x).reverse ++ ({ stack := stack } : TextSt).acc } : TextSt)
      = { ({ stack := stack } : TextSt) with acc := (unescapeHTML x).reverse } := by
    simp
  rw [hst] at h'
  rw [chunksOK_split x r hx hr, Bool.and_eq_true] at hn
  have R' := rel2_pre (relB_init stack hg ht) x hx hn.1
  obtain ⟨fM, RF, JF⟩ := sim2 (r.length + 1) r (Nat.lt_succ_self _) _ _ x [] st fuel' R' hr
    (by rw [scanOK2_text x r hx] at hok; exact hok) hn.2 hf' h'
  refine ⟨fM, RF, ?_⟩
  rw [rawTok_nil] at JF
  exact J'_text hx (by simpa using JF)

/-- the driver's view of the item built for a run: the run, a zero timestamp erased -/
theorem runView_runItem2 (r : GRun) (h : ∀ t ∈ r.tags, tagOK t = true) :
    runView (runItem2 r) = some (zeroTsRun r) := by
  obtain ⟨text, tags, ts⟩ := r
  simp only at h
  cases ts with
  | none => simp [runView, runItem2, zeroTsRun, tagsView_roundtrip tags h]
  | some k =>
    cases k with
    | zero => simp [runView, runItem2, zeroTsRun, tagsView_roundtrip tags h]
    | succ k =>
      have h1 : ((((k + 1 : Nat) : Int)) * 1000000) % 1000000 = 0 := Int.mul_emod_left _ _
      have h2 : ¬ ((((k + 1 : Nat) : Int)) * 1000000 < 0) := by omega
      have h3 : ((((k + 1 : Nat) : Int)) * 1000000) ≠ 0 := by omega
      have h4 : (((((k + 1 : Nat) : Int)) * 1000000) / 1000000).toNat = k + 1 := by
        rw [Int.mul_ediv_cancel _ (by decide)]; simp
      simp only [runView, runItem2, zeroTsRun, Option.getD_some, h1, h2, h3, h4, tagsView_roundtrip tags h]
      simp

/-- **The reader model against the decoder, one cue text line with inline timestamps.** -/
theorem parseText2_of_textLine (l : Str) (stack : List GTag) (st : TextSt)
    (hok : scanOK2 false l = true) (hn : chunksOK false l [] = true)
    (hg : ∀ t ∈ stack, goodName t.name = true) (ht : ∀ t ∈ stack, tagOK t = true)
    (h : textLine (l.length + 2) l { stack := stack } = some st) :
    ((∀ t ∈ st.stack, goodName t.name = true) ∧ (∀ t ∈ st.stack, tagOK t = true)) ∧
    (VTT.parseText l (stack.map modelTag) = .unmodelled ∨
     ∃ rs : List GRun,
       VTT.parseText l (stack.map modelTag) =
         .ok (st.stack.map modelTag, { voice := st.voice.getD [], items := rs.map runItem2 }) ∧
       rs.filter nb = st.runs.filter nb ∧
       ∀ r ∈ rs, runView (runItem2 r) = some (zeroTsRun r)) := by
  obtain ⟨fM, R, hJ⟩ := sim_line2 l stack st hok hn hg ht h
  refine ⟨⟨R.good, R.tagok⟩, ?_⟩
  rcases parseText_of_J' hJ with h1 | h1
  · exact Or.inl h1
  · right
    obtain ⟨rs, hitems, hnb, htag⟩ := R.lax
    refine ⟨rs, ?_, hnb, fun r hr => runView_runItem2 r (htag r hr)⟩
    rw [h1, R.tags, R.voice, hitems]

/-! ### a sufficient condition: no `&nbsp;` at all -/

theorem chunksOK_of_noNbsp (n : Nat) : ∀ (l : Str), l.length < n → noNbsp l = true → chunksOK false l [] = true := by
  induction n with
  | zero => intro l h; omega
  | succ n ih =>
    intro l hl hn
    obtain ⟨x, r, e, hx, hr⟩ := split_lt l
    subst e
    rw [chunksOK_split x r hx hr, chunkOK_of_noNbsp (noNbsp_take x r hr hn), Bool.true_and]
    have hnr := noNbsp_drop x r hn
    cases r with
    | nil => rw [chunksOK_nil]; exact chunkOK_nil
    | cons c r' =>
      have hc : c = '<' := hr c r' rfl
      subst hc
      have hsplit : r'.takeWhile (· != '>') ++ r'.dropWhile (· != '>') = r' := List.takeWhile_append_dropWhile
      have hb : ∀ c ∈ r'.takeWhile (· != '>'), c ≠ '>' := by
        intro c hc
        simpa using VTT.TokAux.takeWhile_all r' c hc
      generalize r'.takeWhile (· != '>') = body at hsplit hb
      cases hd : r'.dropWhile (· != '>') with
      | nil =>
        rw [hd, List.append_nil] at hsplit
        subst hsplit
        rw [chunksOK_false_cons, if_pos rfl, chunksOK_noGt body hb]
        simp [chunkOK_nil]
      | cons g after =>
        have hg : g = '>' := by simpa using VTT.TokAux.dropWhile_head r' g after hd
        subst hg
        rw [hd] at hsplit
        subst hsplit
        rw [chunksOK_tag body after hb]
        apply ih after
        · simp only [List.length_append, List.length_cons] at hl; omega
        · have : '<' :: (body ++ '>' :: after) = ('<' :: body ++ ['>']) ++ after := by simp
          rw [this] at hnr
          exact noNbsp_drop _ _ hnr

theorem lineOK2_of_noNbsp {l : Str} (h1 : scanOK2 false l = true) (h2 : noNbsp l = true) : lineOK2 l = true := by
  unfold lineOK2
  rw [h1, chunksOK_of_noNbsp (l.length + 1) l (Nat.lt_succ_self _) h2]
  simp

end VTTRead
end Astisub
