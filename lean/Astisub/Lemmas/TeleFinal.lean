import Astisub.Lemmas.TeleViewItem

/-!
# Lemmas/TeleFinal — the driver's view of the model's answer is the specification's denotation

`viewSubs_runPES`: for every stream in the specification's class, `Driver.TT.viewSubs (runPES page pes)` — the cues the
driver reads out of the model's answer — is `Spec.Teletext.decode page pes`.
-/

namespace Astisub
namespace Teletext
open Go Generated.Teletext
open Spec.Teletext (Packet Inst St Cue VRun)

/-! ## colours of the model's runs are teletext colours -/

def ColOK (st : Style) : Prop := ∀ col, st.color = some col → col < 8

theorem newStyle_col (st : Style) (v : Nat) (st' : Style) (h : ColOK st) (hn : newStyle st v = some st') : ColOK st' := by
  unfold newStyle at hn
  by_cases h8 : v < 8
  · simp only [h8, if_true] at hn
    split at hn
    · cases hn
    · cases hn
      intro col hc
      simp at hc; omega
  · simp only [h8, if_false] at hn
    repeat' split at hn
    all_goals first
      | (cases hn; exact h)
      | cases hn

structure ColInv (s : RowStR) : Prop where
  runs : ∀ r ∈ s.runs, ColOK r.1
  style : ColOK s.style

theorem rowStepR_col (c : Charset) (s : RowStR) (v : Nat) (h : ColInv s) : ColInv (rowStepR c s v) := by
  unfold rowStepR
  split
  · rename_i st hst
    refine ⟨fun r hr => ?_, newStyle_col s.style v st h.style hst⟩
    simp only [closeRunR, List.mem_append, List.mem_singleton] at hr
    rcases hr with hr | hr
    · exact h.runs r hr
    · subst hr; exact h.style
  · repeat' split
    all_goals exact ⟨h.runs, h.style⟩

theorem foldl_rowStepR_col (c : Charset) : ∀ (row : List Nat) (s : RowStR), ColInv s → ColInv (row.foldl (rowStepR c) s)
  | [], _, h => h
  | v :: row, s, h => by rw [List.foldl_cons]; exact foldl_rowStepR_col c row _ (rowStepR_col c s v h)

theorem modelRuns_col (c : Charset) (row : List Nat) : ∀ r ∈ modelRuns c row, ColOK r.1 := by
  have h0 : ColInv ({} : RowStR) := by
    refine ⟨fun r hr => ?_, fun col hc => ?_⟩
    · exact absurd hr (by simp)
    · exact absurd hc (by simp)
  have h := foldl_rowStepR_col c row {} h0
  intro r hr
  simp only [modelRuns, List.mem_append, List.mem_singleton] at hr
  rcases hr with hr | hr
  · exact h.runs r hr
  · subst hr; exact h.style

/-! ## items and `VRun`s of the raw runs of a row -/

theorem viewItem_rowRaw (c : Charset) (hs : Solid c) (row : SRow) (hx : CellsOK row.2) :
    ∀ r ∈ rowRaw c row, Driver.TT.viewItem (itemOf r) = some (denote (viewM r)) := by
  intro r hr
  have hm : r ∈ modelRuns c (row.2.map storedCell) := (List.mem_filter.mp hr).1
  rw [viewItem_itemOf r (modelRuns_col c _ r hm)]
  obtain ⟨codes, hp, he⟩ := modelRuns_decoded c row.2 hx r hm
  have ht : trimSpace r.2 = Spec.Teletext.stripSpaces r.2 := (item_denote c hs r codes hp he).1
  simp only [denote, viewM, ht]
  rfl

theorem mem_cueRaw (c : Charset) (rows : List SRow) (L : List MRun) (h : L ∈ cueRaw c rows) :
    L.isEmpty = false ∧ ∃ row ∈ rows, L = rowRaw c row := by
  unfold cueRaw at h
  obtain ⟨h1, h2⟩ := List.mem_filter.mp h
  obtain ⟨row, hr, e⟩ := List.mem_map.mp h1
  refine ⟨by simpa using h2, row, (sortedRows_perm rows).subset hr, e.symm⟩

/-! ## the driver's view -/

theorem mapM_map_eq {α β γ} (f : β → Option γ) (g : α → β) (h : α → γ) : ∀ (l : List α),
    (∀ a ∈ l, f (g a) = some (h a)) → Spec.Teletext.mapM f (l.map g) = some (l.map h)
  | [], _ => rfl
  | a :: l, hh => by
    simp only [List.map_cons, Spec.Teletext.mapM, hh a (by simp),
      mapM_map_eq f g h l (fun b hb => hh b (by simp [hb]))]

/-- the driver's reading of one line of the model -/
def viewLine (l : Line) : Option (List VRun) :=
  if !l.voice.isEmpty || l.items.isEmpty then none else Spec.Teletext.mapM Driver.TT.viewItem l.items

theorem viewLine_raw (c : Charset) (hs : Solid c) (rows : List SRow) (hrows : ∀ r ∈ rows, CellsOK r.2) :
    ∀ L ∈ cueRaw c rows, viewLine { items := L.map itemOf } = some ((L.map viewM).map denote) := by
  intro L hL
  obtain ⟨hne, row, hrow, e⟩ := mem_cueRaw c rows L hL
  have h1 : (L.map itemOf).isEmpty = false := by cases L <;> simp_all
  unfold viewLine
  simp only [List.isEmpty_nil, Bool.not_true, h1, Bool.or_self, Bool.false_eq_true, if_false]
  rw [mapM_map_eq Driver.TT.viewItem itemOf (fun r => denote (viewM r)) L, List.map_map]
  · rfl
  · intro r hr
    exact viewItem_rowRaw c hs row (hrows row hrow) r (e ▸ hr)

/-- the driver's reading of one cue of the model -/
def viewCue (it : CItem) : Option Cue :=
  if it.style.isSome || it.region.isSome || it.attrs.isSome || !it.comments.isEmpty || it.index != 0 then none else
  (Spec.Teletext.mapM viewLine it.lines).map fun lines =>
    Spec.Teletext.normCue { startNs := it.startAt, endNs := it.endAt, lines := lines }

theorem viewSubs_eq (s : Subs) :
    Driver.TT.viewSubs s =
      if !s.regions.isEmpty || !s.styles.isEmpty || s.metadata.isSome then none else Spec.Teletext.mapM viewCue s.items := rfl

/-- the driver's view of the model's cue for an instance is the specification's cue -/
theorem viewCue_modelOf (key : Nat) (first : Int) (ie : Inst × Int) (hrows : ∀ r ∈ ie.1.rows, CellsOK r.2) :
    viewCue (modelOf key first ie) = some (specOf key first ie) := by
  have hs := computeCharset_solid (key * 1024) ie.1.code
  unfold viewCue
  simp only [modelOf]
  rw [mapM_map_eq viewLine _ (fun L => (L.map viewM).map denote) _ (viewLine_raw _ hs ie.1.rows hrows)]
  rfl

/-- **The driver's view of the model's answer is the specification's denotation**, for every non-empty stream in the
    specification's class. -/
theorem viewSubs_runPES (page : Nat) (t0 : Int) (d0 : List Nat) (pes : List (Int × List Nat)) (pk : List (Int × List Packet))
    (hpage : page < 25600) (hb : ∀ p ∈ (t0, d0) :: pes, Bytes p.2)
    (hpk : specPackets ((t0, d0) :: pes) = some pk)
    (hbad : (runSpec { sel := Spec.Teletext.selOf page } pk).bad = false)
    (hkeys : (runSpec { sel := Spec.Teletext.selOf page } pk).keys.any
      (· != (runSpec { sel := Spec.Teletext.selOf page } pk).keys.headD 0) = false)
    (hknown : ∀ ie ∈ (finalInsts (runSpec { sel := Spec.Teletext.selOf page } pk) ((pes.map (·.1)).foldl max t0)).filter
        (fun ie => !ie.1.rows.isEmpty),
      (lookupCharset ((runSpec { sel := Spec.Teletext.selOf page } pk).keys.headD 0) ie.1.code).isSome = true) :
    Driver.TT.viewSubs (runPES page ((t0, d0) :: pes)) = Spec.Teletext.decode page ((t0, d0) :: pes) := by
  obtain ⟨h1, h2⟩ := stream_agree page t0 d0 pes pk hpage hb hpk hbad hkeys hknown
  rw [h1, h2, viewSubs_eq]
  simp only [List.isEmpty_nil, Bool.not_true, Option.isSome_none, Bool.or_self, Bool.false_eq_true, if_false]
  apply mapM_map_eq
  intro ie hie
  have hinsts : InstsOK (runSpec { sel := Spec.Teletext.selOf page } pk) :=
    runSpec_insts pk _ (InstsOK.init _) (specPackets_cells _ pk hpk)
  exact viewCue_modelOf _ _ ie (finalInsts_ok _ _ hinsts ie (List.mem_filter.mp hie).1).2

end Teletext
end Astisub

namespace Astisub
namespace Teletext

/-- the PES packets of the chosen PID as the reader's data loop selects them (the driver's `pesOf`) -/
theorem readLoop_runPES (page pid : Nat) (pass : List Data) :
    readLoop page pid pass true = .ok (runPES page (Driver.TT.pesOf pid pass)) := by
  unfold readLoop runPES Driver.TT.pesOf
  simp only [Bool.not_true, Bool.false_eq_true, if_false]
  congr 2
  generalize ({ buf := newBuf page } : Acc) = a
  induction pass generalizing a with
  | nil => rfl
  | cons d pass ih =>
    simp only [List.foldl_cons, List.filterMap_cons]
    cases d with
    | pes p sid pts pcr payload =>
      by_cases hc : p = pid % 65536 ∧ sid = some 189
      · have h1 : (p != pid % 65536 || sid != some 189) = false := by simp [hc.1, hc.2]
        have h2 : (decide (p = pid % 65536) && decide (sid = some 189)) = true := by simp [hc.1, hc.2]
        simp only [h1, h2, Bool.false_eq_true, if_false, if_true]
        cases ht : (pts.orElse fun _ => pcr) with
        | none => simp only [Option.map_none]; exact ih a
        | some t => simp only [Option.map_some, List.foldl_cons]; exact ih _
      · have h1 : (p != pid % 65536 || sid != some 189) = true := by
          by_cases e1 : p = pid % 65536
          · have : sid ≠ some 189 := fun e2 => hc ⟨e1, e2⟩
            simp [this]
          · simp [e1]
        have h2 : (decide (p = pid % 65536) && decide (sid = some 189)) = false := by
          by_cases e1 : p = pid % 65536
          · have : sid ≠ some 189 := fun e2 => hc ⟨e1, e2⟩
            simp [this]
          · simp [e1]
        simp only [h1, h2, if_true, Bool.false_eq_true, if_false]
        exact ih a
    | pmt _ => exact ih a
    | other => exact ih a
    | nil => exact ih a

end Teletext
end Astisub
