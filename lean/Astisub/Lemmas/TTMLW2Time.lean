import Astisub.Lemmas.TTMLW2Defs
import Astisub.Props.C16
import Astisub.Lemmas.SSAStr

/-!
# Lemmas/TTMLW2Time — what the writer's `begin` / `end` text denotes to the independent decoder

`Duration.formatTTML t` is `hh:mm:ss.mmm`; `Spec.TTML.denote` reads it as the clock time with a three-digit fraction:
exactly `t` truncated to the millisecond, whatever the frame and tick rates.
-/

namespace Astisub
namespace TTMLW2
open Go TTML List
open Spec.TTML (denote num? isDig hasNL)
open TTMLR (denote_eq denL denClock secParts)
open TTMLDoc (truncMs)

theorem isDig_digitChar {k : Nat} (h : k < 10) : isDig (digitChar k) = true := by
  rcases digitChar_lt h with h|h|h|h|h|h|h|h|h|h <;> subst h <;> decide

theorem val_digitChar {k : Nat} (h : k < 10) : (digitChar k).toNat - 48 = k := by
  rcases digitChar_lt h with h|h|h|h|h|h|h|h|h|h <;> subst h <;> decide

theorem num_dd {v : Nat} (h : v < 100) : num? (dd v) = some v := by
  have d1 : v / 10 < 10 := by omega
  have d2 : v % 10 < 10 := by omega
  unfold num? dd
  simp only [List.isEmpty_cons, List.all_cons, List.all_nil, isDig_digitChar d1, isDig_digitChar d2, Bool.and_self,
    Bool.not_true, Bool.or_self, Bool.false_eq_true, if_false, List.foldl_cons, List.foldl_nil, val_digitChar d1,
    val_digitChar d2]
  congr 1
  omega

theorem num_ddd {v : Nat} (h : v < 1000) : num? (ddd v) = some v := by
  have d1 : v / 100 < 10 := by omega
  have d2 : v / 10 % 10 < 10 := by omega
  have d3 : v % 10 < 10 := by omega
  unfold num? ddd
  simp only [List.isEmpty_cons, List.all_cons, List.all_nil, isDig_digitChar d1, isDig_digitChar d2, isDig_digitChar d3,
    Bool.and_self, Bool.not_true, Bool.or_self, Bool.false_eq_true, if_false, List.foldl_cons, List.foldl_nil,
    val_digitChar d1, val_digitChar d2, val_digitChar d3]
  congr 1
  omega

theorem secParts_frac {s f : Nat} (hs : s < 100) (hf : f < 1000) :
    secParts (dd s ++ '.' :: ddd f) = (dd s, some (ddd f)) := by
  unfold secParts
  rw [TTMLR.splitAt_eq, splitC_append _ ((digitStr_dd hs).not_mem (Or.inr (Or.inl rfl))),
    splitC_not_mem ((digitStr_ddd hf).not_mem (Or.inr (Or.inl rfl)))]

theorem split_clock {h m s f : Nat} (hh : h < 100) (hm : m < 100) (hs : s < 100) (hf : f < 1000) :
    splitC ':' (C16.canon3 h m s f '.') = [dd h, dd m, dd s ++ '.' :: ddd f] := by
  have e : C16.canon3 h m s f '.' = dd h ++ ':' :: (dd m ++ ':' :: (dd s ++ '.' :: ddd f)) := by
    simp [C16.canon3]
  have hlast : ':' ∉ dd s ++ '.' :: ddd f := by
    intro hmem
    rcases mem_append.mp hmem with h1 | h1
    · exact (digitStr_dd hs).not_mem (Or.inl rfl) h1
    · rcases mem_cons.mp h1 with h2 | h2
      · exact absurd h2 (by decide)
      · exact (digitStr_ddd hf).not_mem (Or.inl rfl) h2
  rw [e, splitC_append _ ((digitStr_dd hh).not_mem (Or.inl rfl)),
    splitC_append _ ((digitStr_dd hm).not_mem (Or.inl rfl)), splitC_not_mem hlast]

/-- the canonical clock time with a millisecond fraction denotes its value -/
theorem denote_canon3 {h m s f : Nat} (hh : h < 100) (hm : m < 60) (hs : s < 60) (hf : f < 1000) (fr tr : Nat) :
    denote (C16.canon3 h m s f '.') fr tr = some ((h * 3600 + m * 60 + s) * 1000000000 + f * 1000000, 1) := by
  rw [denote_eq, TTMLR.splitAt_eq, split_clock hh (by omega) (by omega) hf]
  show denClock (dd h) (dd m) (dd s ++ '.' :: ddd f) = _
  unfold denClock
  rw [secParts_frac (by omega) hf, num_dd hh, num_dd (by omega), num_dd (by omega)]
  have hm' : ¬ m ≥ 60 := by omega
  have hs' : ¬ s ≥ 60 := by omega
  have hl2 : ∀ v, (dd v).length = 2 := fun _ => rfl
  have hl3 : (ddd f).length = 3 := rfl
  simp only [hl2, hl3, hm', hs', num_ddd hf]
  simp

/-- **Time.**  The text the writer prints for an instant `0 ≤ t < 100 h` denotes, to the independent decoder and under
    every frame / tick rate, exactly `t` truncated to the millisecond (a whole number of nanoseconds). -/
theorem denote_formatTTML (t : Int) (h0 : 0 ≤ t) (h1 : t < 360000000000000) (fr tr : Nat) :
    denote (Duration.formatTTML t) fr tr = some ((t - t % 1000000).toNat, 1) := by
  obtain ⟨h, m, s, f, hh, hm, hs, hf, hfmt, hval⟩ := C16.format_shape3 t '.' h0 h1
  unfold Duration.formatTTML
  rw [hfmt, denote_canon3 hh hm hs hf]
  congr 2
  unfold Duration.nsPerMs Duration.nsPerS Duration.nsPerMin Duration.nsPerH at hval
  omega

/-- … and it holds no line feed -/
theorem formatTTML_noNL (t : Int) (h0 : 0 ≤ t) (h1 : t < 360000000000000) : hasNL (Duration.formatTTML t) = false := by
  obtain ⟨h, m, s, f, hh, hm, hs, hf, hfmt, _⟩ := C16.format_shape3 t '.' h0 h1
  unfold Duration.formatTTML
  rw [hfmt]
  have key : ∀ {v : Str}, DigitStr v → ∀ c ∈ v, c ≠ '\n' := by
    intro v hv c hc e
    obtain ⟨k, hk, rfl⟩ := hv c hc
    rcases digitChar_lt hk with h|h|h|h|h|h|h|h|h|h <;> subst h <;> exact absurd e (by decide)
  unfold hasNL
  rw [any_eq_false]
  intro c hc
  simp only [C16.canon3, mem_append, mem_cons] at hc
  have : c ≠ '\n' := by
    rcases hc with ((hc | rfl | hc) | rfl | hc) | rfl | hc
    · exact key (digitStr_dd hh) c hc
    · decide
    · exact key (digitStr_dd (by omega)) c hc
    · decide
    · exact key (digitStr_dd (by omega)) c hc
    · decide
    · exact key (digitStr_ddd hf) c hc
  simpa using this

/-! ### any non-negative instant (hours of any width) -/

theorem num_digitStr {s : Str} (hd : DigitStr s) (hne : s ≠ []) : num? s = some (Go.natOfDigits s) := by
  have hall : s.all isDig = true := by
    rw [List.all_eq_true]
    intro c hc
    obtain ⟨k, hk, rfl⟩ := hd c hc
    exact isDig_digitChar hk
  have he : s.isEmpty = false := by cases s with
    | nil => exact absurd rfl hne
    | cons _ _ => rfl
  unfold num?
  simp only [he, hall, Bool.not_true, Bool.or_self, Bool.false_eq_true, if_false]
  rfl

/-- the hour field of the writer: at least two digits, decimal value `h` -/
theorem pad2_spec (h : Nat) :
    DigitStr (Duration.pad2 h) ∧ 2 ≤ (Duration.pad2 h).length ∧ num? (Duration.pad2 h) = some h := by
  by_cases h100 : h < 100
  · rw [C16.pad2_eq_dd h100]
    exact ⟨digitStr_dd h100, Nat.le_refl 2, num_dd h100⟩
  · have e : Duration.pad2 h = itoaNat h := by
      unfold Duration.pad2
      rw [if_neg (by omega)]
    rw [e]
    have hd := digitStr_itoaNat h
    have hne := itoaNat_ne_nil' h
    have hv := natOfDigits_itoaNat h
    refine ⟨hd, ?_, by rw [num_digitStr hd hne, hv]⟩
    match hs : itoaNat h with
    | [] => exact absurd hs hne
    | [c] =>
      exfalso
      obtain ⟨k, hk, hc⟩ := hd c (by rw [hs]; simp)
      rw [hs, hc] at hv
      have : Go.natOfDigits [digitChar k] = k := by
        simp only [Go.natOfDigits, List.foldl_cons, List.foldl_nil, val_digitChar hk]; omega
      omega
    | _ :: _ :: _ => simp

theorem format_shape_any (t : Int) (h0 : 0 ≤ t) :
    ∃ h m s f : Nat, m < 60 ∧ s < 60 ∧ f < 1000 ∧
      Duration.formatTTML t = Duration.pad2 h ++ ':' :: (dd m ++ ':' :: (dd s ++ '.' :: ddd f)) ∧
      (h * 3600 + m * 60 + s) * 1000000000 + f * 1000000 = (t - t % 1000000).toNat := by
  obtain ⟨n, rfl⟩ : ∃ n : Nat, t = (n : Int) := ⟨t.toNat, by omega⟩
  refine ⟨n / 3600000000000, n % 3600000000000 / 60000000000, n % 60000000000 / 1000000000,
    n % 1000000000 / 1000000, by omega, by omega, by omega, ?_, by omega⟩
  unfold Duration.formatTTML Duration.format
  simp only [Int.toNat_natCast, Nat.sub_self, Nat.pow_zero, Nat.div_one]
  rw [C16.pad2_eq_dd (v := n % 3600000000000 / 60000000000) (by omega),
    C16.pad2_eq_dd (v := n % 60000000000 / 1000000000) (by omega), padLeft0_3 (by omega)]
  simp

theorem digitStr_noNL {v : Str} (hv : DigitStr v) : ∀ c ∈ v, c ≠ '\n' := by
  intro c hc e
  obtain ⟨k, hk, rfl⟩ := hv c hc
  rcases digitChar_lt hk with h|h|h|h|h|h|h|h|h|h <;> subst h <;> exact absurd e (by decide)

/-- **Time, any width.**  For every instant `0 ≤ t` the text the writer prints denotes `t` truncated to the
    millisecond, and holds no line feed. -/
theorem denote_formatTTML_any (t : Int) (h0 : 0 ≤ t) (fr tr : Nat) :
    denote (Duration.formatTTML t) fr tr = some ((t - t % 1000000).toNat, 1) ∧ hasNL (Duration.formatTTML t) = false := by
  obtain ⟨h, m, s, f, hm, hs, hf, hfmt, hval⟩ := format_shape_any t h0
  obtain ⟨hd, hlen, hnum⟩ := pad2_spec h
  have hlast : ':' ∉ dd s ++ '.' :: ddd f := by
    intro hmem
    rcases mem_append.mp hmem with h1 | h1
    · exact (digitStr_dd (by omega : s < 100)).not_mem (Or.inl rfl) h1
    · rcases mem_cons.mp h1 with h2 | h2
      · exact absurd h2 (by decide)
      · exact (digitStr_ddd hf).not_mem (Or.inl rfl) h2
  refine ⟨?_, ?_⟩
  · rw [hfmt, denote_eq, TTMLR.splitAt_eq, splitC_append _ (hd.not_mem (Or.inl rfl)),
      splitC_append _ ((digitStr_dd (by omega : m < 100)).not_mem (Or.inl rfl)), splitC_not_mem hlast]
    show denClock (Duration.pad2 h) (dd m) (dd s ++ '.' :: ddd f) = _
    unfold denClock
    rw [secParts_frac (by omega) hf, hnum, num_dd (by omega : m < 100), num_dd (by omega : s < 100)]
    have hm' : ¬ m ≥ 60 := by omega
    have hs' : ¬ s ≥ 60 := by omega
    have hl2 : ∀ v, (dd v).length = 2 := fun _ => rfl
    have hl3 : (ddd f).length = 3 := rfl
    have hlen' : ¬ (Duration.pad2 h).length < 2 := by omega
    simp only [hl2, hl3, hm', hs', hlen', num_ddd hf]
    simp [hval]
  · rw [hfmt]
    unfold hasNL
    rw [any_eq_false]
    intro c hc
    simp only [mem_append, mem_cons] at hc
    have : c ≠ '\n' := by
      rcases hc with hc | rfl | hc | rfl | hc | rfl | hc
      · exact digitStr_noNL hd c hc
      · decide
      · exact digitStr_noNL (digitStr_dd (by omega : m < 100)) c hc
      · decide
      · exact digitStr_noNL (digitStr_dd (by omega : s < 100)) c hc
      · decide
      · exact digitStr_noNL (digitStr_ddd hf) c hc
    simpa using this

end TTMLW2
end Astisub
