import Astisub.Lemmas.SSARead2Final
import Astisub.Lemmas.SSARead2Write
import Astisub.Lemmas.SSA2Spec
import Astisub.Lemmas.SSA2Fix
import Astisub.Lemmas.SSA2Fixpoint

/-!
# Lemmas/SSAW2Defs — vocabulary of "the independent decoder accepts what the writer produces" (C04, W2)

Only definitions (all executable; every predicate is decidable):

* `gval`, `infoG`, `styleG`, `eventR`, `itemRuns`, `itemLinesG`, `eventG`, `docG` — the document the decoder is
  expected to return on the written text, spelled out from the writer's *typed* values (`infoOfMeta`,
  `writerStyles`, `eventOfItem`);
* `decFloat3`, `decTimer` — the double survives `FormatFloat(·,'f',3)` / `FormatFloat(·,'f',-1)` followed by the
  *decoder's* float reader (`Spec.SSA.floatOf`: plain decimals of at most 40 characters);
* `wantInts64`, `lineWhole`, `Extra` — the explicit hypotheses the theorem needs on top of `Spec.SSA.denote s = some want`
  and `SSA.RepRead s` (each one is necessary: see the counterexamples in `Props/C04w2.lean`);
* `commentTrim` — a written comment line after `TrimSpace`.
-/

namespace Astisub
namespace SSAW
open Go SSA SSAR
open Spec.SSA (GVal GStyle GRun GEvent GDoc REvent)

/-- a typed value of the model as a value of the decoder's domain -/
def gval : Val → GVal
  | .b v => .b v
  | .c v => .c v
  | .f v => .f v
  | .i v => .i v
  | .s v => .s v

/-- the script info the decoder is expected to return: the set keys in table order -/
def infoG (b : Info) : List (String × GVal) :=
  SI.all.filterMap fun f => (b.vals.get f).map fun v => (f.header, gval v)

/-- the style the decoder is expected to return for a written style: its name, its set attributes in table order -/
def styleG (st : Style) : GStyle :=
  { name := st.name, attrs := Fld.all.filterMap fun f => (st.vals.get f).map fun v => (f.col, gval v) }

/-- the raw event the decoder is expected to return for a written `Dialogue:` row (style not yet resolved) -/
def eventR (v4plus : Bool) (e : Event) (lines : List (List GRun)) : REvent :=
  { ev := { startCs := e.startAt / 10000000, endCs := e.endAt / 10000000,
            layer := if v4plus then some (e.layer.getD 0) else none,
            marked := if v4plus then none else some (decide (e.marked = some true)),
            marginL := some (e.marginL.getD 0), marginR := some (e.marginR.getD 0), marginV := some (e.marginV.getD 0),
            effect := e.effect, name := e.name, style := none, lines := lines },
    styleName := e.style }

/-- the runs of the lines of a cue: override block (if any) and text of every `LineItem` -/
def itemRuns (it : CItem) : List (List Run) :=
  it.lines.map fun l => l.items.map fun li => (SSA.kvGet li.attrs "SSAEffect", li.text)

/-- the same, in the decoder's domain -/
def itemLinesG (it : CItem) : List (List GRun) := (itemRuns it).map fun l => l.map grun

/-- the event the decoder is expected to return for a cue -/
def eventG (v4plus : Bool) (ids : List Str) (it : CItem) : GEvent :=
  { (eventR v4plus (eventOfItem it) (itemLinesG it)).ev with style := Spec.SSA.resolve ids (eventOfItem it).style }

/-- the document the decoder is expected to return on `write s` -/
def docG (s : Subs) : GDoc :=
  { comments := (infoOfMeta s.metadata).comments,
    info := infoG (infoOfMeta s.metadata),
    styles := ((writerStyles s).map styleG).mergeSort fun a b => Spec.SSA.strLe a.name b.name,
    events := s.items.map (eventG (isV4plus s) (styleIds s)) }

/-- the double survives `FormatFloat(·,'f',3,64)` followed by the decoder's float reader -/
def decFloat3 (bits : Nat) : Bool :=
  match formatFloat3 bits with
  | some str => Spec.SSA.floatOf str == some bits
  | none => false

/-- the double survives `FormatFloat(·,'f',-1,64)` followed by the decoder's float reader -/
def decTimer (bits : Nat) : Bool :=
  match formatFloatShortest bits with
  | some str => Spec.SSA.floatOf str == some bits
  | none => false

/-- a float value of a style survives three decimals and the decoder (other values: nothing asked) -/
def valFloat3 : Val → Bool
  | .f bits => decFloat3 bits
  | _ => true

/-- a float value of the script info (`Timer`) survives shortest formatting and the decoder -/
def valTimer : Val → Bool
  | .f bits => decTimer bits
  | _ => true

/-- every integer of the denotation fits 64 bits (script info, style attributes, layer, margins, hour fields) -/
def wantInts64 (g : GDoc) : Bool := attrs64 g.info && ints64 g

/-- the text the writer emits for one line of a cue -/
def lineWhole (l : Line) : Str := (l.items.map fun li => (SSA.kvGet li.attrs "SSAEffect").getD [] ++ li.text).flatten

/-- **The hypotheses on top of `denote s = some want` and `RepRead s`.**
    * `ints`: the integers of the denotation fit Go's `int` (the decoder and `denote` count in unbounded arithmetic);
    * `timer`: `Timer` survives shortest formatting *and the decoder's 40-character limit on floats*;
    * `floats`: every float attribute of a style survives three decimals and the decoder;
    * `breaks`: no `\n` / `\N` inside a line — *override blocks included* (`denote` only checks the texts);
    * `cr`: no carriage return inside a line — *override blocks included* (`denote` only checks the texts);
    * `styleRef`: no cue refers to a style whose identifier is the empty string. -/
structure Extra (s : Subs) (want : GDoc) : Prop where
  ints : wantInts64 want = true
  timer : ∀ v, (infoOfMeta s.metadata).vals.get SI.timer = some v → valTimer v = true
  floats : ∀ st ∈ writerStyles s, ∀ f ∈ Fld.all, ∀ v, st.vals.get f = some v → valFloat3 v = true
  breaks : ∀ it ∈ s.items, ∀ l ∈ it.lines, Spec.SSA.hasBreak (lineWhole l) = false
  cr : ∀ it ∈ s.items, ∀ l ∈ it.lines, '\r' ∉ lineWhole l
  styleRef : ∀ it ∈ s.items, it.style ≠ some []

instance (s : Subs) (want : GDoc) : Decidable (Extra s want) :=
  decidable_of_iff
    (wantInts64 want = true ∧
     (∀ v, (infoOfMeta s.metadata).vals.get SI.timer = some v → valTimer v = true) ∧
     (∀ st ∈ writerStyles s, ∀ f ∈ Fld.all, ∀ v, st.vals.get f = some v → valFloat3 v = true) ∧
     (∀ it ∈ s.items, ∀ l ∈ it.lines, Spec.SSA.hasBreak (lineWhole l) = false) ∧
     (∀ it ∈ s.items, ∀ l ∈ it.lines, '\r' ∉ lineWhole l) ∧
     (∀ it ∈ s.items, it.style ≠ some []))
    ⟨fun ⟨a, b, c, d, e, f⟩ => ⟨a, b, c, d, e, f⟩, fun ⟨a, b, c, d, e, f⟩ => ⟨a, b, c, d, e, f⟩⟩

/-- a written comment line `; c` after `TrimSpace` -/
def commentTrim (c : Str) : Str := ';' :: (if c = [] then [] else ' ' :: c)

end SSAW
end Astisub
