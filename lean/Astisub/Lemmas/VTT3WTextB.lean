import Astisub.Lemmas.VTT3WTextA

/-!
# Lemmas/VTT3WTextB — the decoder on a written inline timestamp

`inlineTs (Duration.formatVTT t) = some (t / 10⁶)` for `0 ≤ t < 100 h`: the instant in milliseconds.
-/

namespace Astisub
namespace VTT3W
open Go Spec.VTT List

theorem isDigit_digitChar {k : Nat} (h : k < 10) : isDigit (digitChar k) = true := by
  rcases digitChar_lt h with h|h|h|h|h|h|h|h|h|h <;> subst h <;> decide

theorem toNat_digitChar {k : Nat} (h : k < 10) : (digitChar k).toNat - 48 = k := by
  rcases digitChar_lt h with h|h|h|h|h|h|h|h|h|h <;> subst h <;> decide

theorem natOf_dd {v : Nat} (h : v < 100) : natOf (dd v) = some v := by
  have d1 : v / 10 < 10 := by omega
  have d2 : v % 10 < 10 := by omega
  unfold natOf dd
  simp only [List.isEmpty_cons, List.all_cons, List.all_nil, isDigit_digitChar d1, isDigit_digitChar d2,
    List.foldl_cons, List.foldl_nil, toNat_digitChar d1, toNat_digitChar d2]
  simp
  omega

theorem natOf_ddd {v : Nat} (h : v < 1000) : natOf (ddd v) = some v := by
  have d1 : v / 100 < 10 := by omega
  have d2 : v / 10 % 10 < 10 := by omega
  have d3 : v % 10 < 10 := by omega
  unfold natOf ddd
  simp only [List.isEmpty_cons, List.all_cons, List.all_nil, isDigit_digitChar d1, isDigit_digitChar d2,
    isDigit_digitChar d3, List.foldl_cons, List.foldl_nil, toNat_digitChar d1, toNat_digitChar d2,
    toNat_digitChar d3]
  simp
  omega

theorem all_digit_dd {v : Nat} (h : v < 100) : (dd v).all isDigit = true := by
  have d1 : v / 10 < 10 := by omega
  have d2 : v % 10 < 10 := by omega
  simp [dd, isDigit_digitChar d1, isDigit_digitChar d2]

theorem all_digit_ddd {v : Nat} (h : v < 1000) : (ddd v).all isDigit = true := by
  have d1 : v / 100 < 10 := by omega
  have d2 : v / 10 % 10 < 10 := by omega
  have d3 : v % 10 < 10 := by omega
  simp [ddd, isDigit_digitChar d1, isDigit_digitChar d2, isDigit_digitChar d3]

/-- the part before the fraction -/
def hmsOf (h m s : Nat) : Str := dd h ++ ':' :: dd m ++ ':' :: dd s

theorem canon3_eq (h m s f : Nat) : C16.canon3 h m s f '.' = hmsOf h m s ++ '.' :: ddd f := by
  simp [C16.canon3, hmsOf]

theorem hms_no_dot (h m s : Nat) (hh : h < 100) (hm : m < 100) (hs : s < 100) : '.' ∉ hmsOf h m s := by
  intro hc
  simp only [hmsOf, mem_append, mem_cons] at hc
  rcases hc with (hc | hc | hc) | hc | hc
  · exact (digitStr_dd hh).not_mem (Or.inr (Or.inl rfl)) hc
  · exact absurd hc (by decide)
  · exact (digitStr_dd hm).not_mem (Or.inr (Or.inl rfl)) hc
  · exact absurd hc (by decide)
  · exact (digitStr_dd hs).not_mem (Or.inr (Or.inl rfl)) hc

theorem split_dot (h m s f : Nat) (hh : h < 100) (hm : m < 100) (hs : s < 100) (hf : f < 1000) :
    splitC '.' (hmsOf h m s ++ '.' :: ddd f) = [hmsOf h m s, ddd f] := by
  rw [splitC_append _ (hms_no_dot h m s hh hm hs),
    splitC_not_mem ((digitStr_ddd hf).not_mem (Or.inr (Or.inl rfl)))]

theorem canon3_noSpace (h m s f : Nat) (hh : h < 100) (hm : m < 100) (hs : s < 100) (hf : f < 1000) :
    ∀ c ∈ hmsOf h m s ++ '.' :: ddd f, isSpace c = false := by
  intro c hc
  rcases mem_append.mp hc with hc | hc
  · exact C16.hms_noSpace h m s hh hm hs c hc
  · rcases mem_cons.mp hc with e | hc
    · subst e; decide
    · exact (digitStr_ddd hf).noSpace c hc

theorem timeMs_canon3 (h m s f : Nat) (hh : h < 100) (hm : m < 60) (hs : s < 60) (hf : f < 1000) :
    timeMs (hmsOf h m s ++ '.' :: ddd f) = some (((h * 60 + m) * 60 + s) * 1000 + f) := by
  have hl : (ddd f).length = 3 := rfl
  have hsp : splitC ':' (hmsOf h m s) = [dd h, dd m, dd s] := C16.hms_split h m s hh (by omega) (by omega)
  unfold timeMs
  rw [trimSpace_id (canon3_noSpace h m s f hh (by omega) (by omega) hf)]
  simp only [split_dot h m s f hh (by omega) (by omega) hf, hl, hsp, map_cons, map_nil,
    natOf_dd hh, natOf_dd (show m < 100 by omega), natOf_dd (show s < 100 by omega), natOf_ddd hf]
  simp [hm, hs]
  omega

theorem inlineTs_canon3 (h m s f : Nat) (hh : h < 100) (hm : m < 60) (hs : s < 60) (hf : f < 1000) :
    inlineTs (hmsOf h m s ++ '.' :: ddd f) = some (((h * 60 + m) * 60 + s) * 1000 + f) := by
  have hl : (ddd f).length = 3 := rfl
  have hl2 : ∀ v, (dd v).length = 2 := fun _ => rfl
  have hsp : splitC ':' (hmsOf h m s) = [dd h, dd m, dd s] := C16.hms_split h m s hh (by omega) (by omega)
  unfold inlineTs
  simp only [split_dot h m s f hh (by omega) (by omega) hf, hl, hsp, hl2, all_digit_dd hh,
    all_digit_dd (show m < 100 by omega), all_digit_dd (show s < 100 by omega), all_digit_ddd hf]
  simp [timeMs_canon3 h m s f hh hm hs hf]

/-- the decoder reads a written inline timestamp as the instant in milliseconds -/
theorem inlineTs_format (t : Int) (h0 : 0 ≤ t) (h1 : t < 360000000000000) :
    inlineTs (Duration.formatVTT t) = some (t / 1000000).toNat := by
  obtain ⟨h, m, s, f, hh, hm, hs, hf, hfmt, hval⟩ := C16.format_shape3 t '.' h0 h1
  have e : Duration.formatVTT t = hmsOf h m s ++ '.' :: ddd f := by
    unfold Duration.formatVTT; rw [hfmt, canon3_eq]
  rw [e, inlineTs_canon3 h m s f hh hm hs hf]
  unfold Duration.nsPerMs Duration.nsPerS Duration.nsPerMin Duration.nsPerH at hval
  congr 1
  omega

end VTT3W
end Astisub
