import Astisub.Lemmas.VTTRead2Defs
import Astisub.Lemmas.VTTTiming
import Astisub.Lemmas.VTTRead2TagView

/-!
# Lemmas/VTTRead2Header — the `WEBVTT` line: the reader's header loop and the decoder's header test

* `skipHeader_of_okHeader` : on a document whose first line (after an optional BOM) passes the
  decoder's header test `okHeader`, the reader's header-skipping loop `VTT.skipHeader` stops at that
  very line and hands over the remaining lines;
* `splitLines_no_eol`      : no line of `splitLines` contains LF or CR;
* `trimSpace_no_lf`        : nor does a trimmed line.
-/

namespace Astisub
namespace VTTRead
open Go Spec.VTT

theorem lit_webvtt : "WEBVTT".toList = ['W', 'E', 'B', 'V', 'T', 'T'] := rfl

/-! ## `splitLines`, equation by equation -/

theorem splitLines_nil (acc : Str) :
    splitLines [] acc = if acc.isEmpty then [] else [acc.reverse] := by
  rw [splitLines]

theorem splitLines_crlf (rest acc : Str) :
    splitLines ('\r' :: '\n' :: rest) acc = acc.reverse :: splitLines rest [] := by
  rw [splitLines]

theorem splitLines_lf (rest acc : Str) :
    splitLines ('\n' :: rest) acc = acc.reverse :: splitLines rest [] := by
  rw [splitLines]

theorem splitLines_cr (rest acc : Str) (hnl : ∀ r, rest = '\n' :: r → False) :
    splitLines ('\r' :: rest) acc = acc.reverse :: splitLines rest [] := by
  cases rest with
  | nil => simp [splitLines]
  | cons d rest' =>
    have hd : d ≠ '\n' := fun e => hnl rest' (by rw [e])
    rw [splitLines]
    intro r e
    cases e
    exact hd rfl

theorem splitLines_other (c : Char) (rest acc : Str) (hlf : c ≠ '\n') (hcr : c ≠ '\r') :
    splitLines (c :: rest) acc = splitLines rest (c :: acc) := by
  rw [splitLines]
  · intro r e _; exact hcr e
  · exact hlf
  · exact hcr

/-! ## a character in front of the pending line -/

/-- the accumulator is kept reversed: a character at its end is a character in front of the line -/
theorem splitLines_acc_snoc (d acc : Str) (x : Char) (f : Str) (r : List Str)
    (h : splitLines d acc = f :: r) : splitLines d (acc ++ [x]) = (x :: f) :: r := by
  induction d, acc using splitLines.induct with
  | case1 acc he =>
    rw [splitLines_nil, if_pos he] at h
    cases h
  | case2 acc he =>
    have he' : acc.isEmpty = false := by simpa using he
    rw [splitLines_nil] at h ⊢
    simp only [he', Bool.false_eq_true, if_false, List.cons.injEq] at h
    have : (acc ++ [x]).isEmpty = false := by cases acc <;> rfl
    simp only [this, Bool.false_eq_true, if_false, List.reverse_append, List.reverse_cons,
      List.reverse_nil, List.nil_append, List.cons_append, h.1, h.2]
  | case3 rest acc _ =>
    rw [splitLines_crlf] at h ⊢
    simp only [List.cons.injEq] at h
    simp only [List.reverse_append, List.reverse_cons, List.reverse_nil, List.nil_append,
      List.cons_append, h.1, h.2]
  | case4 rest acc _ =>
    rw [splitLines_lf] at h ⊢
    simp only [List.cons.injEq] at h
    simp only [List.reverse_append, List.reverse_cons, List.reverse_nil, List.nil_append,
      List.cons_append, h.1, h.2]
  | case5 rest acc hnl _ =>
    rw [splitLines_cr _ _ hnl] at h ⊢
    simp only [List.cons.injEq] at h
    simp only [List.reverse_append, List.reverse_cons, List.reverse_nil, List.nil_append,
      List.cons_append, h.1, h.2]
  | case6 c rest acc _ hlf hcr ih =>
    rw [splitLines_other c rest _ hlf hcr] at h ⊢
    exact ih h

/-! ## the byte-order mark -/

theorem bom_ne_lf : Char.ofNat 0xFEFF ≠ '\n' := by decide
theorem bom_ne_cr : Char.ofNat 0xFEFF ≠ '\r' := by decide
theorem bom_ne_W : Char.ofNat 0xFEFF ≠ 'W' := by decide

/-- a BOM in front of the text is a BOM in front of its first line -/
theorem splitLines_bom (d first : Str) (rest : List Str) (h : splitLines d [] = first :: rest) :
    splitLines (Char.ofNat 0xFEFF :: d) [] = (Char.ofNat 0xFEFF :: first) :: rest := by
  rw [splitLines_other _ _ _ bom_ne_lf bom_ne_cr]
  exact splitLines_acc_snoc d [] _ first rest h

theorem trimPrefix_bom_cons (s : Str) : trimPrefix VTT.bom (Char.ofNat 0xFEFF :: s) = s := by
  show (dropPrefix? [Char.ofNat 0xFEFF] (Char.ofNat 0xFEFF :: s)).getD _ = s
  rw [dropPrefix?, if_pos rfl, dropPrefix?]
  rfl

theorem trimPrefix_bom_W (s : Str) : trimPrefix VTT.bom ('W' :: s) = 'W' :: s := by
  show (dropPrefix? [Char.ofNat 0xFEFF] ('W' :: s)).getD _ = _
  rw [VTT.dropPrefix?_ne _ _ bom_ne_W]
  rfl

/-! ## the header test -/

theorem okHeader_spec (first : Str) (h : okHeader first = true) :
    ∃ tl, first = ['W', 'E', 'B', 'V', 'T', 'T'] ++ tl ∧
      (tl = [] ∨ ∃ c tl', tl = c :: tl' ∧ isBlank c = true) := by
  unfold okHeader at h
  rw [lit_webvtt] at h
  split at h
  · rename_i hd
    exact ⟨[], VTT.dropPrefix?_some hd, Or.inl rfl⟩
  · rename_i c tl' hd
    exact ⟨c :: tl', VTT.dropPrefix?_some hd, Or.inr ⟨c, tl', rfl, h⟩⟩
  · cases h

theorem webvtt_noSpace : ∀ c ∈ ['W', 'E', 'B', 'V', 'T', 'T'], isSpace c = false := by decide

theorem isSpace_of_isBlank {c : Char} (h : isBlank c = true) : isSpace c = true := by
  unfold isBlank at h
  simp only [Bool.or_eq_true, decide_eq_true_eq] at h
  rcases h with h | h <;> subst h <;> decide

/-- `strings.Fields` of a line that passes the header test starts with the word `WEBVTT` -/
theorem fields_of_okHeader (first : Str) (h : okHeader first = true) :
    ∃ fs, fields first = ['W', 'E', 'B', 'V', 'T', 'T'] :: fs := by
  obtain ⟨tl, rfl, htl⟩ := okHeader_spec first h
  unfold fields
  rw [VTT.fieldsAux_word _ _ _ webvtt_noSpace]
  rcases htl with rfl | ⟨c, tl', rfl, hc⟩
  · exact ⟨[], by rw [fieldsAux]; rfl⟩
  · refine ⟨fieldsAux tl' [], ?_⟩
    rw [fieldsAux, if_pos (isSpace_of_isBlank hc)]
    rfl

theorem okHeader_head (first : Str) (h : okHeader first = true) : ∃ tl, first = 'W' :: tl := by
  obtain ⟨tl, rfl, _⟩ := okHeader_spec first h
  exact ⟨_, rfl⟩

/-! ## the reader's loop -/

theorem skipHeader_hit (l f : Str) (fs : List Str) (ls : List (Option Str))
    (h : fields (trimPrefix VTT.bom l) = f :: fs) (hf : f = "WEBVTT".toList) :
    VTT.skipHeader (some l :: ls) = some ls := by
  rw [VTT.skipHeader, h]
  exact if_pos hf

/-- **The header loop stops at the decoder's header line.** -/
theorem skipHeader_of_okHeader (doc first : Str) (rest : List Str)
    (h : splitLines (stripBom doc) [] = first :: rest) (hok : okHeader first = true) :
    VTT.skipHeader ((splitLines doc []).map some) = some (rest.map some) := by
  obtain ⟨fs, hfs⟩ := fields_of_okHeader first hok
  obtain ⟨tl, htl⟩ := okHeader_head first hok
  cases doc with
  | nil =>
    have : splitLines (stripBom []) [] = [] := rfl
    rw [this] at h
    cases h
  | cons c d =>
    by_cases hc : c = Char.ofNat 0xFEFF
    · subst hc
      have hs : stripBom (Char.ofNat 0xFEFF :: d) = d := by
        show (if Char.ofNat 0xFEFF = Char.ofNat 0xFEFF then d else Char.ofNat 0xFEFF :: d) = d
        rw [if_pos rfl]
      rw [hs] at h
      rw [splitLines_bom d first rest h, List.map_cons]
      exact skipHeader_hit _ _ fs _ (by rw [trimPrefix_bom_cons]; exact hfs) lit_webvtt.symm
    · have hs : stripBom (c :: d) = c :: d := by
        show (if c = Char.ofNat 0xFEFF then d else c :: d) = c :: d
        rw [if_neg hc]
      rw [hs] at h
      rw [h, List.map_cons]
      refine skipHeader_hit _ _ fs _ ?_ lit_webvtt.symm
      rw [htl, trimPrefix_bom_W, ← htl]
      exact hfs

/-! ## lines have no line breaks -/

theorem splitLines_no_eol_acc (text acc : Str) (hacc : '\n' ∉ acc ∧ '\r' ∉ acc) :
    ∀ l ∈ splitLines text acc, '\n' ∉ l ∧ '\r' ∉ l := by
  have hrev : '\n' ∉ acc.reverse ∧ '\r' ∉ acc.reverse := by
    simpa only [List.mem_reverse] using hacc
  have hnil : ('\n' : Char) ∉ ([] : Str) ∧ ('\r' : Char) ∉ ([] : Str) := by
    constructor <;> exact List.not_mem_nil
  induction text, acc using splitLines.induct with
  | case1 acc he =>
    rw [splitLines_nil, if_pos he]
    intro l hl; cases hl
  | case2 acc he =>
    have he' : acc.isEmpty = false := by simpa using he
    rw [splitLines_nil]
    simp only [he', Bool.false_eq_true, if_false]
    intro l hl
    rw [List.mem_singleton] at hl
    subst hl; exact hrev
  | case3 rest acc ih =>
    rw [splitLines_crlf]
    intro l hl
    rcases List.mem_cons.mp hl with hl | hl
    · subst hl; exact hrev
    · exact ih hnil (by simpa only [List.mem_reverse] using hnil) l hl
  | case4 rest acc ih =>
    rw [splitLines_lf]
    intro l hl
    rcases List.mem_cons.mp hl with hl | hl
    · subst hl; exact hrev
    · exact ih hnil (by simpa only [List.mem_reverse] using hnil) l hl
  | case5 rest acc hnl ih =>
    rw [splitLines_cr _ _ hnl]
    intro l hl
    rcases List.mem_cons.mp hl with hl | hl
    · subst hl; exact hrev
    · exact ih hnil (by simpa only [List.mem_reverse] using hnil) l hl
  | case6 c rest acc _ hlf hcr ih =>
    rw [splitLines_other c rest _ hlf hcr]
    have hacc' : '\n' ∉ c :: acc ∧ '\r' ∉ c :: acc := by
      constructor
      · intro hm; rcases List.mem_cons.mp hm with hm | hm
        · exact hlf hm.symm
        · exact hacc.1 hm
      · intro hm; rcases List.mem_cons.mp hm with hm | hm
        · exact hcr hm.symm
        · exact hacc.2 hm
    exact ih hacc' (by simpa only [List.mem_reverse] using hacc')

/-- **No line contains a line break.** -/
theorem splitLines_no_eol (text : Str) : ∀ l ∈ splitLines text [], '\n' ∉ l ∧ '\r' ∉ l :=
  splitLines_no_eol_acc text [] ⟨List.not_mem_nil, List.not_mem_nil⟩

theorem trimSpace_no_lf (l : Str) (h : '\n' ∉ l) : '\n' ∉ trimSpace l :=
  fun hm => h (mem_of_mem_trimSpace hm)

theorem trimSpace_no_cr (l : Str) (h : '\r' ∉ l) : '\r' ∉ trimSpace l :=
  fun hm => h (mem_of_mem_trimSpace hm)

end VTTRead
end Astisub
