import Astisub.Lemmas.VTTRead2TextA
import Astisub.Lemmas.VTTRead2TextB

/-!
# Lemmas/VTTRead2Text — one cue text line: the reader model against the decoder

`parseText_of_textLine`: on a line of the class `lineOK` that the decoder `Spec.VTT.textLine`
accepts (from a stack of tags with `goodName`s), the reader model `VTT.parseText` — unless the
tokenizer model does not cover the line — leaves the same stack, finds the same voice and, run by
run, the same texts under the same tags.  Companions: `textLine_ts_none` (no run carries an
inline timestamp), `textLine_goodStack` (the stack left has `goodName`s again: the hypothesis
threads through the lines of a cue).

The proof is a simulation over the structure "chunk, tag, chunk, tag, …" of the line: `Rel`
relates the decoder's state and the reader's state at the tag boundaries (both pending texts
empty), `sim` is the induction on the length of the remaining input.
-/

namespace Astisub
namespace VTTRead
open Go Spec.VTT List
open VTT (PT stepTok foldToks flushTok flushSt)
open SRT (unescapeHTML)

/-! ### the simulation relation -/

/-- decoder state `stD` ~ reader state `stM`, at a token boundary -/
structure Rel (stD : TextSt) (stM : PT) : Prop where
  acc : stD.acc = []
  pend : stD.pending = none
  voiceNe : ∀ v, stD.voice = some v → v ≠ []
  good : ∀ t ∈ stD.stack, goodName t.name = true
  ts : ∀ r ∈ stD.runs, r.ts = none
  tags : stM.tags = stD.stack.map modelTag
  voice : stM.voice = stD.voice.getD []
  items : stM.items = stD.runs.map runItem
  mpend : stM.pending = 0

theorem unescape_ne_nil {x : Str} (h : x ≠ []) : unescapeHTML x ≠ [] := by
  cases x with
  | nil => exact absurd rfl h
  | cons c x0 =>
    by_cases hc : c = '&'
    · subst hc
      rw [unescape_amp]
      repeat' split
      all_goals simp
    · rw [unescape_char c x0 hc]; simp

/-- the decoder's flush of a non-empty text when no instant is pending: one run -/
theorem flushText_text (st : TextSt) (y : Str) (hy : y ≠ []) (hp : st.pending = none) :
    flushText { st with acc := y.reverse } =
      { st with acc := [], runs := st.runs ++ [{ text := y, tags := st.stack, ts := none }] } := by
  have hne : (y.reverse).isEmpty = false := by
    cases hr : y.reverse with
    | nil => simp at hr; exact absurd hr hy
    | cons => rfl
  cases st with
  | mk stack voice pending acc runs =>
    simp only at hp
    subst hp
    simp only [flushText, hne, Bool.false_eq_true, if_false, List.reverse_reverse, Option.isSome_none]
    split <;> rfl

theorem flushText_empty (st : TextSt) : flushText { st with acc := [] } = { st with acc := [] } := by
  simp [flushText]

/-- both sides flush a `<`-free chunk `x` the same way -/
theorem rel_flush {stD : TextSt} {stM : PT} (R : Rel stD stM) (x : Str) (hx : ∀ c ∈ x, c ≠ '<') :
    ∃ stM2, flushSt stM x.reverse = some stM2 ∧
      Rel (flushText { stD with acc := (unescapeHTML x).reverse }) stM2 := by
  by_cases hne : x = []
  · subst hne
    refine ⟨stM, flushSt_empty stM, ?_⟩
    rw [unescape_nil, List.reverse_nil, flushText_empty]
    exact ⟨rfl, R.pend, R.voiceNe, R.good, R.ts, R.tags, R.voice, R.items, R.mpend⟩
  · refine ⟨_, flushSt_text stM x hx hne R.mpend, ?_⟩
    rw [flushText_text stD _ (unescape_ne_nil hne) R.pend]
    refine ⟨rfl, R.pend, R.voiceNe, R.good, ?_, R.tags, R.voice, ?_, rfl⟩
    · intro r hr
      simp only [List.mem_append, List.mem_singleton] at hr
      rcases hr with hr | hr
      · exact R.ts r hr
      · rw [hr]
    · simp only [List.map_append, List.map_cons, List.map_nil, R.items, R.tags, runItem]

/-! ### one tag -/

/-- what "both sides take the tag `<body>` from related states to related states" means -/
def TagSim (body : Str) (stM2 : PT) (st3 : TextSt) : Prop :=
  ∃ stM3, Rel st3 stM3 ∧
    ∀ (s' : Str) (f : PT) (acc : Str) (st : PT), flushSt st acc = some stM2 → J' s' [] stM3 f →
      J' (('<' :: body ++ ['>']) ++ s') acc st f

theorem tagStep_nil (st : TextSt) : tagStep [] st = none := by simp [tagStep]

theorem rel_close {st2 : TextSt} {stM2 : PT} (R : Rel st2 stM2) (name : Str) (st3 : TextSt)
    (h : tagStep ('/' :: name) st2 = some st3) : TagSim ('/' :: name) stM2 st3 := by
  have hJ : ∀ (stM3 : PT), goodName name = true →
      stM3 = (if name = "v".toList then stM2 else { stM2 with tags := stM2.tags.dropLast }) →
      ∀ (s' : Str) (f : PT) (acc : Str) (st : PT), flushSt st acc = some stM2 → J' s' [] stM3 f →
        J' (('<' :: '/' :: name ++ ['>']) ++ s') acc st f := by
    intro stM3 hg he s' f acc st hfl hJ'
    refine J'_tok (fun tok => ∃ n, tok = Tok.endTag ('<' :: '/' :: name ++ ['>']) n) (by simp) ?_ hfl ?_ hJ'
    · intro fuel out
      exact Or.inr ⟨_, ⟨_, rfl⟩, close_tok hg fuel s' acc out⟩
    · rintro tok ⟨n, rfl⟩
      rw [close_step, he]
  rcases tagStep_close name st2 st3 h with ⟨hv, _, rfl⟩ | ⟨hv, t, hlast, hname, rfl⟩
  · refine ⟨stM2, R, hJ stM2 (by rw [hv]; decide) (by rw [if_pos hv])⟩
  · have hmem : t ∈ st2.stack := by
      obtain ⟨ys, e⟩ := List.getLast?_eq_some_iff.mp hlast
      rw [e]; simp
    have hg : goodName name = true := by rw [← hname]; exact R.good t hmem
    refine ⟨{ stM2 with tags := stM2.tags.dropLast }, ?_, hJ _ hg (by rw [if_neg hv])⟩
    exact ⟨R.acc, R.pend, R.voiceNe, fun u hu => R.good u (List.dropLast_subset _ hu), R.ts,
      by simp only [R.tags, List.map_dropLast], R.voice, R.items, R.mpend⟩

theorem alpha_facts {c : Char} (h : isAlpha c = true) : c ≠ '.' ∧ isBlank c = false ∧ c ≠ '/' := by
  refine ⟨?_, ?_, ?_⟩
  · intro e; subst e; revert h; decide
  · cases hb : isBlank c with
    | false => rfl
    | true =>
      simp only [isBlank, Bool.or_eq_true, decide_eq_true_eq] at hb
      rcases hb with rfl | rfl <;> (revert h; decide)
  · intro e; subst e; revert h; decide

theorem rel_open {st2 : TextSt} {stM2 : PT} (R : Rel st2 stM2) (c : Char) (tl : Str) (st3 : TextSt)
    (hc : c ≠ '/') (hd : isDigit c = false) (hb : BodyOK (c :: tl))
    (h : tagStep (c :: tl) st2 = some st3) : TagSim (c :: tl) stM2 st3 := by
  obtain ⟨ha, hsl, name, classes, hsp, hne, hcase⟩ := tagStep_open c tl st2 st3 hc hd h
  have hs : ∀ d ∈ c :: tl, d ≠ '/' := by
    intro d hd e
    subst e
    have : (c :: tl).contains '/' = true := by simpa using hd
    rw [hsl] at this; cases this
  obtain ⟨hdot, hblank, _⟩ := alpha_facts ha
  obtain ⟨xs, cls, p, w, sh⟩ := shape_of_body c tl hdot hblank
  have sf := shapeF_of sh ha hb hs
  have hJ : ∀ (stM3 : PT),
      stM3 = (if name = "v".toList then (if stM2.voice = [] then { stM2 with voice := annOf (c :: tl) } else stM2)
              else { stM2 with tags := stM2.tags ++ [{ name := name, classes := classes, annotation := annOf (c :: tl) }] }) →
      ∀ (s' : Str) (f : PT) (acc : Str) (st : PT), flushSt st acc = some stM2 → J' s' [] stM3 f →
        J' (('<' :: (c :: tl) ++ ['>']) ++ s') acc st f := by
    intro stM3 he s' f acc st hfl hJ'
    refine J'_tok (fun tok => ∃ n a, tok = Tok.startTag ('<' :: (c :: tl) ++ ['>']) n a) (by simp) ?_ hfl ?_ hJ'
    · intro fuel out
      rcases open_tok sh sf fuel s' acc out with hu | ⟨n, a, e⟩
      · exact Or.inl hu
      · exact Or.inr ⟨_, ⟨n, a, rfl⟩, e⟩
    · rintro tok ⟨n, a, rfl⟩
      rw [open_step sh sf name classes hsp hne, he]
  rcases hcase with ⟨hv, hvoice, hann, rfl⟩ | ⟨hv, rfl⟩
  · have hmv : stM2.voice = [] := by rw [R.voice, hvoice]; rfl
    refine ⟨{ stM2 with voice := annOf (c :: tl) }, ?_, hJ _ (by rw [if_pos hv, if_pos hmv])⟩
    refine ⟨R.acc, R.pend, ?_, R.good, R.ts, R.tags, rfl, R.items, R.mpend⟩
    intro v hv'
    cases hv'
    exact hann
  · refine ⟨{ stM2 with tags := stM2.tags ++ [{ name := name, classes := classes, annotation := annOf (c :: tl) }] },
      ?_, hJ _ (by rw [if_neg hv])⟩
    have hsp' := hsp
    rw [sh.head] at hsp'
    obtain ⟨hname, _⟩ := classes_agree (c :: xs) cls name classes sh.nameNoDot sh.cls hsp' hne
    refine ⟨R.acc, R.pend, R.voiceNe, ?_, R.ts, ?_, R.voice, R.items, R.mpend⟩
    · intro t ht
      simp only [List.mem_append, List.mem_singleton] at ht
      rcases ht with ht | ht
      · exact R.good t ht
      · rw [ht, hname]; exact goodName_of_shape sf
    · simp only [R.tags, List.map_append, List.map_cons, List.map_nil, modelTag]

/-- **one tag**: from related states, a tag the decoder accepts (on a line of the class) is one
    token for the reader, and the states are related again -/
theorem rel_tag {st2 : TextSt} {stM2 : PT} (R : Rel st2 stM2) (body : Str) (st3 : TextSt)
    (hb : BodyOK body) (hdig : ∀ d tl, body = d :: tl → isDigit d = false)
    (h : tagStep body st2 = some st3) : TagSim body stM2 st3 := by
  cases body with
  | nil => rw [tagStep_nil] at h; cases h
  | cons c tl =>
    by_cases hc : c = '/'
    · subst hc; exact rel_close R tl st3 h
    · exact rel_open R c tl st3 hc (hdig c tl rfl) hb h

/-! ### the simulation -/

theorem sim (n : Nat) : ∀ (s : Str), s.length < n → ∀ (stD : TextSt) (stM : PT) (fD : TextSt) (fuel : Nat),
    Rel stD stM → scanOK false s = true → s.length + 1 ≤ fuel → textLine fuel s stD = some fD →
    ∃ fM, Rel fD fM ∧ J' s [] stM fM := by
  induction n with
  | zero => intro s h; omega
  | succ n ih =>
    intro s hl stD stM fD fuel R hok hf h
    have hsplit : s.takeWhile (· != '<') ++ s.dropWhile (· != '<') = s := List.takeWhile_append_dropWhile
    have hx : ∀ c ∈ s.takeWhile (· != '<'), c ≠ '<' := by
      intro c hc
      simpa using VTT.TokAux.takeWhile_all s c hc
    have hr : RestLt (s.dropWhile (· != '<')) := by
      intro c r' e
      simpa using VTT.TokAux.dropWhile_head s c r' e
    generalize s.takeWhile (· != '<') = x at hsplit hx
    generalize s.dropWhile (· != '<') = r at hsplit hr
    subst hsplit
    simp only [List.length_append] at hl hf
    obtain ⟨fuel', hf', h'⟩ := textLine_chunk x.length x (Nat.le_refl _) hx r hr fuel stD fD hf h
    rw [R.acc, List.append_nil] at h'
    obtain ⟨stM2, hfl, R2⟩ := rel_flush R x hx
    obtain ⟨k, rfl⟩ : ∃ k, fuel' = k + 1 := ⟨fuel' - 1, by omega⟩
    cases r with
    | nil =>
      rw [textLine_nil] at h'
      cases h'
      exact ⟨stM2, R2, J'_text hx (J'_nil (by simpa using hfl))⟩
    | cons c r' =>
      have hc : c = '<' := hr c r' rfl
      subst hc
      obtain ⟨body, after, st3, e, hbody, hstep, hrest⟩ := textLine_lt_inv k r' _ fD h'
      subst e
      rw [scanOK_text x _ hx] at hok
      obtain ⟨hdig, hokb, hokafter⟩ := scanOK_tag body after (fun c hc => (hbody c hc).1) hok
      obtain ⟨stM3, R3, hJ⟩ := rel_tag R2 body st3 ⟨hbody, hokb⟩ hdig hstep
      simp only [List.length_cons, List.length_append] at hl hf'
      obtain ⟨fM, RF, JF⟩ := ih after (by omega) st3 stM3 fD k R3 hokafter (by omega) hrest
      refine ⟨fM, RF, J'_text hx ?_⟩
      have := hJ after fM x.reverse stM hfl JF
      simpa using this

/-! ### the theorems -/

theorem sim_line (l : Str) (stack : List GTag) (st : TextSt) (hok : lineOK l = true)
    (hstack : ∀ t ∈ stack, goodName t.name = true)
    (h : textLine (l.length + 2) l { stack := stack } = some st) :
    ∃ fM, Rel st fM ∧ J' l [] { tags := stack.map modelTag } fM := by
  apply sim (l.length + 1) l (Nat.lt_succ_self _) { stack := stack } { tags := stack.map modelTag } st (l.length + 2)
    ?_ hok (by omega) h
  exact ⟨rfl, rfl, fun v hv => (by cases hv), hstack, fun r hr => (by cases hr), rfl, rfl, rfl, rfl⟩

/-- **The reader model against the decoder, one cue text line.**  On a line of the class `lineOK`
    that the decoder accepts from a stack of well-named tags, the reader model is outside the
    tokenizer model or answers the decoder's stack, voice and runs. -/
theorem parseText_of_textLine (l : Str) (stack : List GTag) (st : TextSt)
    (hok : lineOK l = true) (hstack : ∀ t ∈ stack, goodName t.name = true)
    (h : textLine (l.length + 2) l { stack := stack } = some st) :
    VTT.parseText l (stack.map modelTag) = .unmodelled ∨
    VTT.parseText l (stack.map modelTag) =
      .ok (st.stack.map modelTag, { voice := st.voice.getD [], items := st.runs.map runItem }) := by
  obtain ⟨fM, R, hJ⟩ := sim_line l stack st hok hstack h
  rcases parseText_of_J' hJ with h1 | h1
  · exact Or.inl h1
  · right
    rw [h1, R.tags, R.voice, R.items]

/-- on a line of the class no run carries an inline timestamp -/
theorem textLine_ts_none (l : Str) (stack : List GTag) (st : TextSt) (hok : lineOK l = true)
    (hstack : ∀ t ∈ stack, goodName t.name = true)
    (h : textLine (l.length + 2) l { stack := stack } = some st) : ∀ r ∈ st.runs, r.ts = none := by
  obtain ⟨fM, R, _⟩ := sim_line l stack st hok hstack h
  exact R.ts

/-- the stack the decoder leaves has good names again (closure of the hypothesis `hstack`) -/
theorem textLine_goodStack (l : Str) (stack : List GTag) (st : TextSt) (hok : lineOK l = true)
    (hstack : ∀ t ∈ stack, goodName t.name = true)
    (h : textLine (l.length + 2) l { stack := stack } = some st) : ∀ t ∈ st.stack, goodName t.name = true := by
  obtain ⟨fM, R, _⟩ := sim_line l stack st hok hstack h
  exact R.good

/-- a voice the decoder finds is not empty -/
theorem textLine_voice_ne (l : Str) (stack : List GTag) (st : TextSt) (hok : lineOK l = true)
    (hstack : ∀ t ∈ stack, goodName t.name = true)
    (h : textLine (l.length + 2) l { stack := stack } = some st) : ∀ v, st.voice = some v → v ≠ [] := by
  obtain ⟨fM, R, _⟩ := sim_line l stack st hok hstack h
  exact R.voiceNe

example : lineOK "<c.red.big Bob Smith>Hello &amp; <b>bye</b>".toList = true := by decide

/-! ### M1, non-vacuity, and why `hstack` is there -/

theorem lineOK_of_no_lt (l : Str) (h : '<' ∉ l) : lineOK l = true := by
  have := scanOK_text l [] (fun c hc e => h (e ▸ hc))
  rw [List.append_nil] at this
  rw [lineOK, this]; rfl

/-- M1: a line without `<` (one text token) -/
theorem parseText_of_textLine_plain (l : Str) (stack : List GTag) (st : TextSt) (hl : '<' ∉ l)
    (hstack : ∀ t ∈ stack, goodName t.name = true)
    (h : textLine (l.length + 2) l { stack := stack } = some st) :
    VTT.parseText l (stack.map modelTag) = .unmodelled ∨
    VTT.parseText l (stack.map modelTag) =
      .ok (st.stack.map modelTag, { voice := st.voice.getD [], items := st.runs.map runItem }) :=
  parseText_of_textLine l stack st (lineOK_of_no_lt l hl) hstack h

/-- the hypotheses are satisfiable: the example line is in the class and the decoder accepts it -/
example : (textLine ("<c.red.big Bob Smith>Hello &amp; <b>bye</b>".toList.length + 2)
    "<c.red.big Bob Smith>Hello &amp; <b>bye</b>".toList { stack := [] }).isSome = true := by decide

example : goodName "c".toList = true ∧ goodName "ruby".toList = true ∧ goodName "1".toList = false := by decide

/-- without `hstack` the statement is false: with the tag `1` open, the decoder closes it on `</1>`
    (stack left: empty) while the tokenizer reads `</1>` as a bogus comment and the reader keeps the tag -/
example :
    lineOK "x</1>".toList = true ∧
    (textLine 7 "x</1>".toList { stack := [{ name := "1".toList, classes := [], annotation := [] }] }).map (·.stack)
      = some [] ∧
    (match VTT.parseText "x</1>".toList [{ name := "1".toList }] with
     | .ok (tags, _) => some tags
     | _ => none) = some [{ name := "1".toList }] := by
  decide

end VTTRead
end Astisub
