import Astisub.Lemmas.VTTDoc

/-!
# Lemmas/VTT2Layout — the lines of ANY written WebVTT document

`docLines2 s` lists the lines `VTT.write s` emits for an arbitrary cue list: the `WEBVTT` line, the
timestamp map, the `STYLE` block, the region definitions, and for every cue its `NOTE` block, its
number, its timing line and its text lines.  `write_lines2` needs no proviso besides `s.items ≠ []`.
-/

namespace Astisub
namespace VTT
open Go List

/-- the `NOTE` block of a cue: `NOTE first`, the other lines, and the blank line that ends it -/
def commentLines : List Str → List Str
  | [] => []
  | c :: cs => ("NOTE ".toList ++ c) :: cs ++ [[]]

/-- the lines of one cue: comment block, number, timing, text lines -/
def cueLines2 (s : Subs) (k : Nat) (it : CItem) : List Str := commentLines it.comments ++ cueCore s k it

theorem cueBytes_eq2 (s : Subs) (k : Nat) (it : CItem) :
    cueBytes s k it = unlines (cueLines2 s k it) ++ ['\n'] := by
  have hcore := cueBytes_eq s k { it with comments := [] } rfl
  have hsplit : cueBytes s k it
      = (if it.comments.isEmpty then [] else "NOTE ".toList ++ (it.comments.map (· ++ ['\n'])).flatten ++ ['\n'])
        ++ cueBytes s k { it with comments := [] } := by
    unfold cueBytes
    simp only [List.isEmpty_nil, if_true, nil_append, append_assoc]
  have hc : cueCore s k { it with comments := [] } = cueCore s k it := rfl
  rw [hsplit, hcore, hc, cueLines2, unlines_append]
  cases hcm : it.comments with
  | nil => simp [commentLines, unlines]
  | cons c cs =>
    simp [commentLines, unlines]

/-- the cue blocks, each preceded by the blank line that ends what comes before -/
def cuesLines2 (s : Subs) : Nat → List CItem → List Str
  | _, [] => []
  | k, it :: rest => ([] :: cueLines2 s k it) ++ cuesLines2 s (k + 1) rest

theorem cues_flatten2 (s : Subs) (items : List CItem) (k : Nat) :
    '\n' :: ((items.zipIdx k).map fun x => cueBytes s x.2 x.1).flatten
      = unlines (cuesLines2 s k items) ++ ['\n'] := by
  induction items generalizing k with
  | nil => simp [cuesLines2, unlines]
  | cons it rest ih =>
    have h1 := cueBytes_eq2 s k it
    have h2 := ih (k + 1)
    simp only [zipIdx_cons, map_cons, flatten_cons, cuesLines2, unlines_append, h1]
    rw [unlines_cons]
    simp only [nil_append, cons_append, append_assoc]
    rw [h2]

/-- the `X-TIMESTAMP-MAP` line of the header (none when the metadata has no well-shaped value) -/
def tsmapLines (s : Subs) : List Str :=
  match SRT.kvGet s.metadata "WebVTTTimestampMap" with
  | some v =>
    match splitC ',' v with
    | [l, m] => ["X-TIMESTAMP-MAP=LOCAL:".toList ++ Duration.formatVTT ((atoi l).getD 0) ++ ",MPEGTS:".toList ++ m]
    | _ => []
  | none => []

theorem header_eq (s : Subs) : header s = unlines ("WEBVTT".toList :: tsmapLines s) ++ ['\n'] := by
  unfold header tsmapLines
  cases SRT.kvGet s.metadata "WebVTTTimestampMap" with
  | none => rfl
  | some v =>
    simp only []
    generalize splitC ',' v = parts
    match parts with
    | [l, m] => simp [unlines]
    | [] => rfl
    | [_] => rfl
    | _ :: _ :: _ :: _ => rfl

/-- the `STYLE` block, preceded by the blank line that ends the header -/
def styleBlock (s : Subs) : List Str :=
  if (styleLines s).isEmpty then [] else [] :: "STYLE".toList :: styleLines s

theorem join_lf (a : Str) (l : List Str) : join ['\n'] (a :: l) ++ ['\n'] = unlines (a :: l) := by
  induction l generalizing a with
  | nil => simp [join, unlines]
  | cons b l ih =>
    rw [join, unlines_cons, ← ih b]
    simp

/-- a region definition line (without its line feed) -/
def regionLine (s : Subs) (d : Def) : Str :=
  "Region: id=".toList ++ d.id
    ++ setting "lines=" (fallback d.attrs (styleAttrs s d.ref) "WebVTTLines")
    ++ setting "regionanchor=" (fallback d.attrs (styleAttrs s d.ref) "WebVTTRegionAnchor")
    ++ setting "scroll=" (fallback d.attrs (styleAttrs s d.ref) "WebVTTScroll")
    ++ setting "viewportanchor=" (fallback d.attrs (styleAttrs s d.ref) "WebVTTViewportAnchor")
    ++ setting "width=" (fallback d.attrs (styleAttrs s d.ref) "WebVTTWidth")

theorem regionBytes_eq (s : Subs) (d : Def) : regionBytes s d = regionLine s d ++ ['\n'] := rfl

/-- the region definitions (in identifier order), preceded by the blank line that ends what comes before -/
def regionBlock (s : Subs) : List Str :=
  if s.regions.isEmpty then [] else [] :: (VTT.sortDefs s.regions).map (regionLine s)

theorem regions_flatten (s : Subs) (l : List Def) :
    (l.map (regionBytes s)).flatten = unlines (l.map (regionLine s)) := by
  simp only [unlines, map_map]
  congr 1

/-- all the lines of the written document -/
def docLines2 (s : Subs) : List Str :=
  ("WEBVTT".toList :: tsmapLines s) ++ styleBlock s ++ regionBlock s ++ cuesLines2 s 0 s.items

theorem assemble (H S S' R R' C C' : Str) (hS : '\n' :: S = S' ++ ['\n']) (hR : '\n' :: R = R' ++ ['\n'])
    (hC : '\n' :: C = C' ++ ['\n']) : H ++ ['\n'] ++ S ++ R ++ C = H ++ S' ++ R' ++ C' ++ ['\n'] := by
  have e1 : H ++ ['\n'] ++ S ++ R ++ C = H ++ ('\n' :: S) ++ R ++ C := by simp
  rw [e1, hS]
  have e2 : H ++ (S' ++ ['\n']) ++ R ++ C = H ++ S' ++ ('\n' :: R) ++ C := by simp
  rw [e2, hR]
  have e3 : H ++ S' ++ (R' ++ ['\n']) ++ C = H ++ S' ++ R' ++ ('\n' :: C) := by simp
  rw [e3, hC]
  simp

theorem style_shift (s : Subs) :
    '\n' :: (if (styleLines s).isEmpty then [] else "STYLE\n".toList ++ join ['\n'] (styleLines s) ++ "\n\n".toList)
      = unlines (styleBlock s) ++ ['\n'] := by
  unfold styleBlock
  cases h : styleLines s with
  | nil => simp [unlines]
  | cons a l =>
    have hj := join_lf a l
    simp only [List.isEmpty_cons, Bool.false_eq_true, if_false]
    rw [unlines_cons, unlines_cons, ← hj]
    simp

theorem region_shift (s : Subs) :
    '\n' :: (((VTT.sortDefs s.regions).map (regionBytes s)).flatten ++ (if s.regions.isEmpty then [] else ['\n']))
      = unlines (regionBlock s) ++ ['\n'] := by
  unfold regionBlock
  rw [regions_flatten]
  cases h : s.regions with
  | nil => simp [unlines, VTT.sortDefs]
  | cons d ds =>
    simp only [List.isEmpty_cons, Bool.false_eq_true, if_false]
    rw [unlines_cons]
    simp

/-- **Layout (general).** whatever the cue list carries, the written document is exactly the lines
    of `docLines2`, each terminated by a line feed -/
theorem write_lines2 (s : Subs) (hne : s.items ≠ []) : write s = some (unlines (docLines2 s)) := by
  rw [C02.write_layout s hne, header_eq s]
  have hcues := cues_flatten2 s s.items 0
  have e2 : (s.items.zipIdx.map fun (x : CItem × Nat) => cueBytes s x.2 x.1)
      = (s.items.zipIdx 0).map fun x => cueBytes s x.2 x.1 := rfl
  have key := assemble (unlines ("WEBVTT".toList :: tsmapLines s)) _ _ _ _ _ _ (style_shift s) (region_shift s) hcues
  rw [e2]
  simp only [append_assoc] at key ⊢
  rw [key, docLines2, unlines_append, unlines_append, unlines_append]
  simp

end VTT
end Astisub
