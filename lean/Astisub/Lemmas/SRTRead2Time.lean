import Astisub.Model.Duration
import Astisub.Spec.SRT
import Astisub.Lemmas.Str

/-!
# Lemmas/SRTRead2Time — read side of the SubRip time stamp, for ALL strings

Every time stamp that the independent decoder (`Spec.SRT.timeMs`) accepts is parsed by the model
of the Go reader (`Duration.parseSRT`) to the same instant, provided the hours field fits Go's
`int`.
-/

namespace Astisub
namespace SRTRead2
open Go

/-! ## characters -/

theorem digitChar_of_isDigit {c : Char} (h : Spec.SRT.isDigit c = true) :
    ∃ k, k < 10 ∧ c = digitChar k := by
  unfold Spec.SRT.isDigit at h
  simp only [Bool.and_eq_true, decide_eq_true_eq] at h
  have h1 : 48 ≤ c.toNat := by
    have := UInt32.le_iff_toNat_le.mp (Char.le_def.mp h.1)
    exact this
  have h2 : c.toNat ≤ 57 := by
    have := UInt32.le_iff_toNat_le.mp (Char.le_def.mp h.2)
    exact this
  refine ⟨c.toNat - 48, by omega, ?_⟩
  unfold digitChar
  have : 48 + (c.toNat - 48) = c.toNat := by omega
  rw [this, Char.ofNat_toNat]

theorem toNat_digitChar {k : Nat} (h : k < 10) : (digitChar k).toNat - 48 = k := by
  rcases digitChar_lt h with h|h|h|h|h|h|h|h|h|h <;> subst h <;> decide

theorem space_ne_colon {c : Char} (h : isSpace c = true) : c ≠ ':' := by
  intro e; subst e; revert h; decide
theorem space_ne_comma {c : Char} (h : isSpace c = true) : c ≠ ',' := by
  intro e; subst e; revert h; decide
theorem space_ne_dot {c : Char} (h : isSpace c = true) : c ≠ '.' := by
  intro e; subst e; revert h; decide

/-! ## digit strings: `natOf` against `atoi` -/

/-- the decoder's left fold -/
def fold10 (t : Str) (acc : Nat) : Nat := t.foldl (fun a c => a * 10 + (c.toNat - 48)) acc

theorem natOf_spec {t : Str} {n : Nat} (h : Spec.SRT.natOf t = some n) :
    t ≠ [] ∧ DigitStr t ∧ fold10 t 0 = n := by
  unfold Spec.SRT.natOf at h
  split at h
  · exact absurd h (by simp)
  · rename_i hc
    simp only [Bool.or_eq_true, Bool.not_eq_true', not_or, Bool.not_eq_false] at hc
    refine ⟨by intro e; simp [e] at hc, ?_, by simpa [fold10] using h⟩
    intro c hcm
    exact digitChar_of_isDigit (List.all_eq_true.mp hc.2 c hcm)

theorem digitsVal_fold10 {t : Str} (h : DigitStr t) (acc : Nat) :
    digitsVal t acc = some (fold10 t acc) := by
  induction t generalizing acc with
  | nil => rfl
  | cons c cs ih =>
    obtain ⟨k, hk, rfl⟩ := h c (by simp)
    have hcs : DigitStr cs := fun d hd => h d (by simp [hd])
    simp only [digitsVal, digitVal_digitChar hk, fold10, List.foldl_cons, toNat_digitChar hk]
    exact ih hcs _

theorem fold10_bound {t : Str} (h : DigitStr t) (acc : Nat) :
    fold10 t acc + 1 ≤ (acc + 1) * 10 ^ t.length := by
  induction t generalizing acc with
  | nil => simp [fold10]
  | cons c cs ih =>
    obtain ⟨k, hk, rfl⟩ := h c (by simp)
    have hcs : DigitStr cs := fun d hd => h d (by simp [hd])
    have h1 := ih hcs (acc * 10 + k)
    have h2 : (acc * 10 + k + 1) * 10 ^ cs.length ≤ ((acc + 1) * 10) * 10 ^ cs.length :=
      Nat.mul_le_mul_right _ (by omega)
    have h3 : fold10 (digitChar k :: cs) acc = fold10 cs (acc * 10 + k) := by
      simp [fold10, toNat_digitChar hk]
    rw [h3, List.length_cons, Nat.pow_succ, Nat.mul_comm (10 ^ cs.length) 10, ← Nat.mul_assoc]
    omega

theorem digit_head_ne {t : Str} (hne : t ≠ []) (h : DigitStr t) :
    ∃ c cs, t = c :: cs ∧ c ≠ '-' ∧ c ≠ '+' := by
  cases t with
  | nil => exact absurd rfl hne
  | cons c cs =>
    obtain ⟨k, hk, rfl⟩ := h c (by simp)
    exact ⟨_, _, rfl, fun e => (digitChar_ne_minus hk).mp e, fun e => (digitChar_ne_plus hk).mp e⟩

/-- `strconv.Atoi` on a string that starts with neither sign -/
theorem atoi_unsigned {c : Char} {cs : Str} (h1 : c ≠ '-') (h2 : c ≠ '+') :
    atoi (c :: cs) = match parseDigits (c :: cs) with
      | some v => if v ≤ int64Max then some (v : Int) else none
      | none => none := by
  unfold atoi
  split
  · rename_i r heq; simp at heq; exact absurd heq.1 h1
  · rename_i r heq; simp at heq; exact absurd heq.1 h2
  · rfl

theorem atoi_of_natOf {t : Str} {n : Nat} (h : Spec.SRT.natOf t = some n) (hb : n ≤ int64Max) :
    atoi t = some (n : Int) := by
  obtain ⟨hne, hd, hv⟩ := natOf_spec h
  obtain ⟨c, cs, rfl, h1, h2⟩ := digit_head_ne hne hd
  rw [atoi_unsigned h1 h2]
  have : parseDigits (c :: cs) = some n := by
    simp only [parseDigits, List.isEmpty_cons, Bool.false_eq_true, ↓reduceIte]
    rw [digitsVal_fold10 hd, hv]
  simp [this, hb]

theorem natOf_lt {t : Str} {n : Nat} (h : Spec.SRT.natOf t = some n) : n < 10 ^ t.length := by
  obtain ⟨_, hd, hv⟩ := natOf_spec h
  have := fold10_bound hd 0
  omega

theorem digitsVal_dot {a : Str} (h : DigitStr a) (b : Str) (acc : Nat) :
    digitsVal (a ++ '.' :: b) acc = none := by
  induction a generalizing acc with
  | nil => simp [digitsVal, digitVal]
  | cons c cs ih =>
    obtain ⟨k, hk, rfl⟩ := h c (by simp)
    have hcs : DigitStr cs := fun d hd => h d (by simp [hd])
    simp only [List.cons_append, digitsVal, digitVal_digitChar hk]
    exact ih hcs _

/-- a digit field followed by `.`: `strconv.Atoi` fails -/
theorem atoi_dot {a : Str} (hne : a ≠ []) (h : DigitStr a) (b : Str) : atoi (a ++ '.' :: b) = none := by
  obtain ⟨c, cs, rfl, h1, h2⟩ := digit_head_ne hne h
  rw [List.cons_append, atoi_unsigned h1 h2]
  have : parseDigits (c :: (cs ++ '.' :: b)) = none := by
    simp only [parseDigits, List.isEmpty_cons, Bool.false_eq_true, ↓reduceIte]
    exact digitsVal_dot h b 0
  simp [this]

/-! ## `strings.Split` at one character, inverted -/

theorem splitC_ne_nil (c : Char) (x : Str) : splitC c x ≠ [] := by
  cases x with
  | nil => simp [splitC]
  | cons a as =>
    unfold splitC
    split
    · simp
    · split <;> simp

theorem join_cons_head (sep : Str) (y : Char) (h : Str) (t : List Str) :
    join sep ((y :: h) :: t) = y :: join sep (h :: t) := by
  cases t <;> simp [join]

theorem join_splitC (c : Char) (x : Str) : join [c] (splitC c x) = x := by
  induction x with
  | nil => simp [splitC, join]
  | cons y ys ih =>
    unfold splitC
    by_cases hy : y = c
    · simp only [hy, ↓reduceIte]
      rcases hL : splitC c ys with _ | ⟨h, t⟩
      · exact absurd hL (splitC_ne_nil c ys)
      · rw [hL] at ih
        simp [join, ih]
    · simp only [hy, ↓reduceIte]
      rcases hL : splitC c ys with _ | ⟨h, t⟩
      · exact absurd hL (splitC_ne_nil c ys)
      · rw [hL] at ih
        simp only [join_cons_head, ih]

theorem splitC_field_not_mem (c : Char) (x : Str) : ∀ f ∈ splitC c x, c ∉ f := by
  induction x with
  | nil => simp [splitC]
  | cons y ys ih =>
    unfold splitC
    by_cases hy : y = c
    · simp only [hy, ↓reduceIte, List.mem_cons]
      rintro f (rfl | hf)
      · simp
      · exact ih f hf
    · simp only [hy, ↓reduceIte]
      rcases hL : splitC c ys with _ | ⟨h, t⟩
      · exact absurd hL (splitC_ne_nil c ys)
      · rw [hL] at ih
        simp only [List.mem_cons]
        rintro f (rfl | hf)
        · have := ih h (by simp)
          simp only [List.mem_cons, not_or]
          exact ⟨fun e => hy e.symm, this⟩
        · exact ih f (by simp [hf])

theorem splitC_two {c : Char} {x a b : Str} (h : splitC c x = [a, b]) :
    x = a ++ c :: b ∧ c ∉ a ∧ c ∉ b := by
  have hj := join_splitC c x
  have hm := splitC_field_not_mem c x
  rw [h] at hj hm
  exact ⟨by simpa [join] using hj.symm, hm a (by simp), hm b (by simp)⟩

theorem splitC_three {c : Char} {x a b d : Str} (h : splitC c x = [a, b, d]) :
    x = a ++ c :: (b ++ c :: d) ∧ c ∉ a ∧ c ∉ b ∧ c ∉ d := by
  have hj := join_splitC c x
  have hm := splitC_field_not_mem c x
  rw [h] at hj hm
  exact ⟨by simpa [join] using hj.symm, hm a (by simp), hm b (by simp), hm d (by simp)⟩

theorem splitC_two_mk {c : Char} {a b : Str} (ha : c ∉ a) (hb : c ∉ b) :
    splitC c (a ++ c :: b) = [a, b] := by
  rw [splitC_append _ ha, splitC_not_mem hb]

theorem splitC_three_mk {c : Char} {a b d : Str} (ha : c ∉ a) (hb : c ∉ b) (hd : c ∉ d) :
    splitC c (a ++ c :: (b ++ c :: d)) = [a, b, d] := by
  rw [splitC_append _ ha, splitC_append _ hb, splitC_not_mem hd]

/-! ## `strings.TrimSpace` -/

theorem dropWhile_all {p : Char → Bool} {a : Str} (b : Str) (ha : ∀ c ∈ a, p c = true) :
    (a ++ b).dropWhile p = b.dropWhile p := by
  induction a with
  | nil => rfl
  | cons x xs ih =>
    simp only [List.cons_append, List.dropWhile_cons, ha x (by simp), ↓reduceIte]
    exact ih (fun c hc => ha c (by simp [hc]))

theorem dropWhile_head {p : Char → Bool} {t : Str} (b : Str) (hne : t ≠ []) (ht : ∀ c ∈ t, p c = false) :
    (t ++ b).dropWhile p = t ++ b := by
  cases t with
  | nil => exact absurd rfl hne
  | cons x xs => simp [ht x (by simp)]

theorem mem_takeWhile {p : Char → Bool} {l : Str} {c : Char} (h : c ∈ l.takeWhile p) : p c = true := by
  induction l with
  | nil => simp at h
  | cons x xs ih =>
    rw [List.takeWhile_cons] at h
    by_cases hx : p x = true
    · simp only [hx, ↓reduceIte, List.mem_cons] at h
      rcases h with rfl | h
      · exact hx
      · exact ih h
    · simp [hx] at h

/-- white space around a non-empty block free of white space is trimmed off -/
theorem trimSpace_pad {w1 t w2 : Str} (h1 : ∀ c ∈ w1, isSpace c = true) (h2 : ∀ c ∈ w2, isSpace c = true)
    (hne : t ≠ []) (ht : ∀ c ∈ t, isSpace c = false) : trimSpace (w1 ++ t ++ w2) = t := by
  unfold trimSpace trimRight trimLeft
  rw [List.append_assoc, dropWhile_all _ h1, dropWhile_head _ hne ht, List.reverse_append,
    dropWhile_all _ (by intro c hc; exact h2 c (by simpa using hc))]
  have := dropWhile_head (p := isSpace) (t := t.reverse) [] (by simpa using hne)
    (by intro c hc; exact ht c (by simpa using hc))
  rw [List.append_nil] at this
  rw [this, List.reverse_reverse]

/-- every string is its trimmed core between two runs of white space -/
theorem trimSpace_decomp (s : Str) : ∃ w1 w2, s = w1 ++ trimSpace s ++ w2 ∧
    (∀ c ∈ w1, isSpace c = true) ∧ (∀ c ∈ w2, isSpace c = true) := by
  refine ⟨s.takeWhile isSpace, (((s.dropWhile isSpace).reverse).takeWhile isSpace).reverse, ?_, ?_, ?_⟩
  · unfold trimSpace trimRight trimLeft
    rw [List.append_assoc, ← List.reverse_append, List.takeWhile_append_dropWhile, List.reverse_reverse,
      List.takeWhile_append_dropWhile]
  · intro c hc; exact mem_takeWhile hc
  · intro c hc; exact mem_takeWhile (List.mem_reverse.mp hc)

/-! ## the reader's `parseDuration`, in two halves -/

/-- second half of `parseDuration`: the `hh:mm:ss` part, given the milliseconds -/
def hmsPart (ms : Int) (s : Str) : Option Int :=
  match splitC ':' (trimSpace s) with
  | [pm, ps] =>
    match atoi (trimSpace ps), atoi (trimSpace pm) with
    | some sec, some min => some (ms * Duration.nsPerMs + sec * Duration.nsPerS + min * Duration.nsPerMin + 0 * Duration.nsPerH)
    | _, _ => none
  | [ph, pm, ps] =>
    match atoi (trimSpace ps), atoi (trimSpace pm) with
    | some sec, some min =>
      match (if ph.length > 0 then atoi (trimSpace ph) else some 0) with
      | some h => some (ms * Duration.nsPerMs + sec * Duration.nsPerS + min * Duration.nsPerMin + h * Duration.nsPerH)
      | none => none
    | _, _ => none
  | _ => none

theorem parse_one_part {i a : Str} {sep : Char} (digits : Nat) (h : splitC sep i = [a]) :
    Duration.parse i sep digits = hmsPart 0 i := by
  unfold Duration.parse hmsPart
  rw [h]
  simp only [List.length_cons, List.length_nil, ge_iff_le, Nat.reduceLeDiff, ↓reduceIte]
  rcases splitC ':' (trimSpace i) with _ | ⟨a, _ | ⟨b, _ | ⟨c, _ | ⟨d, l⟩⟩⟩⟩ <;> rfl

theorem parse_two_parts {i a b : Str} {sep : Char} (digits : Nat) {f : Int} (h : splitC sep i = [a, b])
    (hl : (trimSpace b).length ≤ 3) (hf : atoi (trimSpace b) = some f) :
    Duration.parse i sep digits = hmsPart (f * (10 : Int) ^ (digits - (trimSpace b).length)) a := by
  have hl' : ¬ (trimSpace b).length > 3 := by omega
  unfold Duration.parse hmsPart
  rw [h]
  simp only [List.length_cons, List.length_nil, ge_iff_le, Nat.le_refl, ↓reduceIte, List.getLast?_cons_cons,
    List.getLast?_singleton, Option.getD_some, List.dropLast_cons_cons, List.dropLast_singleton, join, hl', hf]
  rcases splitC ':' (trimSpace a) with _ | ⟨a, _ | ⟨b, _ | ⟨c, _ | ⟨d, l⟩⟩⟩⟩ <;> rfl

theorem hmsPart_two {ms : Int} {s pm ps : Str} {sec min : Int} (h : splitC ':' (trimSpace s) = [pm, ps])
    (hs : atoi (trimSpace ps) = some sec) (hm : atoi (trimSpace pm) = some min) :
    hmsPart ms s = some (ms * 1000000 + sec * 1000000000 + min * 60000000000) := by
  unfold hmsPart
  rw [h]
  simp only [hs, hm, Duration.nsPerMs, Duration.nsPerS, Duration.nsPerMin]
  simp

theorem hmsPart_three {ms : Int} {s ph pm ps : Str} {sec min hr : Int}
    (h : splitC ':' (trimSpace s) = [ph, pm, ps]) (hne : ph ≠ [])
    (hs : atoi (trimSpace ps) = some sec) (hm : atoi (trimSpace pm) = some min)
    (hh : atoi (trimSpace ph) = some hr) :
    hmsPart ms s = some (ms * 1000000 + sec * 1000000000 + min * 60000000000 + hr * 3600000000000) := by
  have hl : ph.length > 0 := List.length_pos_iff.mpr hne
  unfold hmsPart
  rw [h]
  simp only [hs, hm, hh, hl, ↓reduceIte, Duration.nsPerMs, Duration.nsPerS, Duration.nsPerMin, Duration.nsPerH]

theorem hmsPart_two_none {ms : Int} {s pm ps : Str} (h : splitC ':' (trimSpace s) = [pm, ps])
    (hs : atoi (trimSpace ps) = none) : hmsPart ms s = none := by
  unfold hmsPart
  rw [h]
  simp only [hs]

theorem hmsPart_three_none {ms : Int} {s ph pm ps : Str} (h : splitC ':' (trimSpace s) = [ph, pm, ps])
    (hs : atoi (trimSpace ps) = none) : hmsPart ms s = none := by
  unfold hmsPart
  rw [h]
  simp only [hs]

/-! ## what `timeMs s = some ms` says about `s` -/

theorem span_loop_append {p : Char → Bool} {l acc x y : Str} (h : List.span.loop p l acc = (x, y)) :
    acc.reverse ++ l = x ++ y := by
  induction l generalizing acc with
  | nil => simp only [List.span.loop, Prod.mk.injEq] at h; simp [← h.1, ← h.2]
  | cons a as ih =>
    rw [List.span.loop] at h
    by_cases hp : p a = true
    · simp only [hp] at h
      have := ih h
      simpa using this
    · have hp' : p a = false := by simpa using hp
      simp only [hp', Prod.mk.injEq] at h
      simp [← h.1, ← h.2]

theorem span_append {p : Char → Bool} {l x y : Str} (h : l.span p = (x, y)) : l = x ++ y := by
  have := span_loop_append (acc := []) h
  simpa using this

theorem timeMs_shape {s : Str} {ms : Nat} (h : Spec.SRT.timeMs s = some ms) :
    ∃ (sep : Char) (hms frac : Str) (f : Nat), (sep = ',' ∨ sep = '.') ∧ trimSpace s = hms ++ sep :: frac ∧
      frac.length ≤ 3 ∧ Spec.SRT.natOf frac = some f ∧
      ((∃ a b c hh m sec, splitC ':' hms = [a, b, c] ∧ Spec.SRT.natOf a = some hh ∧ Spec.SRT.natOf b = some m ∧
          Spec.SRT.natOf c = some sec ∧ m < 60 ∧ sec < 60 ∧
          ms = ((hh * 60 + m) * 60 + sec) * 1000 + f * 10 ^ (3 - frac.length)) ∨
       (∃ b c m sec, splitC ':' hms = [b, c] ∧ Spec.SRT.natOf b = some m ∧
          Spec.SRT.natOf c = some sec ∧ m < 60 ∧ sec < 60 ∧
          ms = (m * 60 + sec) * 1000 + f * 10 ^ (3 - frac.length))) := by
  unfold Spec.SRT.timeMs at h
  generalize trimSpace s = T at h ⊢
  rcases hsp : T.reverse.span (fun c => Spec.SRT.isDigit c) with ⟨fr, dr⟩
  have hT := span_append hsp
  dsimp only at h
  rw [hsp] at h
  rcases dr with _ | ⟨sep, rest⟩
  · simp at h
  · by_cases hsep : sep = ',' ∨ sep = '.'
    · have hsep' : (decide (sep = ',') || decide (sep = '.')) = true := by simpa using hsep
      simp only [hsep', ↓reduceIte] at h
      have hT' : T = rest.reverse ++ sep :: fr.reverse := by
        have := congrArg List.reverse hT
        simpa using this
      generalize fr.reverse = frac at h hT'
      generalize rest.reverse = hms at h hT'
      split at h
      · exact absurd h (by simp)
      · rename_i hc
        simp only [Bool.or_eq_true, decide_eq_true_eq, not_or, Nat.not_lt] at hc
        refine ⟨sep, hms, frac, ?_⟩
        split at h
        · rename_i f hh m sec hf hl
          split at h
          · rename_i hlt
            simp only [Bool.and_eq_true, decide_eq_true_eq] at hlt
            rcases hL : splitC ':' hms with _ | ⟨a, _ | ⟨b, _ | ⟨c, _ | ⟨d, l⟩⟩⟩⟩ <;> rw [hL] at hl <;>
              simp only [List.map_cons, List.map_nil, List.cons.injEq, reduceCtorEq, and_false, and_true] at hl
            refine ⟨f, hsep, hT', hc.2, hf, Or.inl ⟨a, b, c, hh, m, sec, rfl, hl.1, hl.2.1, hl.2.2, hlt.1, hlt.2, ?_⟩⟩
            exact (Option.some.inj h).symm
          · exact absurd h (by simp)
        · rename_i f m sec hf hl
          split at h
          · rename_i hlt
            simp only [Bool.and_eq_true, decide_eq_true_eq] at hlt
            rcases hL : splitC ':' hms with _ | ⟨b, _ | ⟨c, _ | ⟨d, l⟩⟩⟩ <;> rw [hL] at hl <;>
              simp only [List.map_cons, List.map_nil, List.cons.injEq, reduceCtorEq, and_false, and_true] at hl
            refine ⟨f, hsep, hT', hc.2, hf, Or.inr ⟨b, c, m, sec, rfl, hl.1, hl.2, hlt.1, hlt.2, ?_⟩⟩
            exact (Option.some.inj h).symm
          · exact absurd h (by simp)
        · exact absurd h (by simp)
    · have hsep' : (decide (sep = ',') || decide (sep = '.')) = false := by simpa using hsep
      simp [hsep'] at h

/-! ## the `hh:mm:ss` part -/

/-- free of white space, `,` and `.` -/
def Clean (t : Str) : Prop := ∀ c ∈ t, isSpace c = false ∧ c ≠ ',' ∧ c ≠ '.'

theorem clean_of_natOf {t : Str} {n : Nat} (h0 : Spec.SRT.natOf t = some n) : Clean t := by
  have h := (natOf_spec h0).2.1
  exact fun c hc =>
    ⟨h.noSpace c hc, fun e => h.not_mem (Or.inr (Or.inr rfl)) (e ▸ hc), fun e => h.not_mem (Or.inr (Or.inl rfl)) (e ▸ hc)⟩

theorem Clean.colon {a b : Str} (ha : Clean a) (hb : Clean b) : Clean (a ++ ':' :: b) := by
  intro c hc
  simp only [List.mem_append, List.mem_cons] at hc
  rcases hc with hc | rfl | hc
  · exact ha c hc
  · decide
  · exact hb c hc

/-- the decoder's view of the `hh:mm:ss` part: three fields, or two (then `hh = 0`) -/
def Fields (hms : Str) (hh m sec : Nat) : Prop :=
  (∃ a b c, splitC ':' hms = [a, b, c] ∧ Spec.SRT.natOf a = some hh ∧ Spec.SRT.natOf b = some m ∧
    Spec.SRT.natOf c = some sec) ∨
  (∃ b c, splitC ':' hms = [b, c] ∧ hh = 0 ∧ Spec.SRT.natOf b = some m ∧ Spec.SRT.natOf c = some sec)

theorem Fields.clean {hms : Str} {hh m sec : Nat} (h : Fields hms hh m sec) : hms ≠ [] ∧ Clean hms := by
  rcases h with ⟨a, b, c, hs, ha, hb, hc⟩ | ⟨b, c, hs, _, hb, hc⟩
  · obtain ⟨rfl, _⟩ := splitC_three hs
    exact ⟨by simp, (clean_of_natOf ha).colon ((clean_of_natOf hb).colon (clean_of_natOf hc))⟩
  · obtain ⟨rfl, _⟩ := splitC_two hs
    exact ⟨by simp, (clean_of_natOf hb).colon (clean_of_natOf hc)⟩

theorem atoi_field {t : Str} {n : Nat} (h : Spec.SRT.natOf t = some n) (hb : n ≤ int64Max) :
    atoi (trimSpace t) = some (n : Int) := by
  rw [trimSpace_id (natOf_spec h).2.1.noSpace]
  exact atoi_of_natOf h hb

theorem hmsPart_fields {hms w1 : Str} {hh m sec : Nat} (X : Int) (h : Fields hms hh m sec)
    (h1 : ∀ c ∈ w1, isSpace c = true) (hm : m < 60) (hs : sec < 60) (hb : hh ≤ int64Max) :
    hmsPart X (w1 ++ hms) = some (X * 1000000 + (sec : Int) * 1000000000 + (m : Int) * 60000000000
      + (hh : Int) * 3600000000000) := by
  obtain ⟨hne, hcl⟩ := h.clean
  have ht : trimSpace (w1 ++ hms) = hms := by
    have := trimSpace_pad (w2 := []) h1 (by simp) hne (fun c hc => (hcl c hc).1)
    simpa using this
  have hm' : m ≤ int64Max := by unfold int64Max; omega
  have hs' : sec ≤ int64Max := by unfold int64Max; omega
  rcases h with ⟨a, b, c, hsp, ha, hb', hc⟩ | ⟨b, c, hsp, rfl, hb', hc⟩
  · exact hmsPart_three (by rw [ht]; exact hsp) (natOf_spec ha).1 (atoi_field hc hs') (atoi_field hb' hm')
      (atoi_field ha hb)
  · rw [hmsPart_two (by rw [ht]; exact hsp) (atoi_field hc hs') (atoi_field hb' hm')]
    simp

/-- with `.` as the separator, the attempt with `,` fails at the seconds field -/
theorem hmsPart_dot {s hms frac : Str} {hh m sec : Nat} (X : Int) (h : Fields hms hh m sec)
    (hfr : DigitStr frac) (ht : trimSpace s = hms ++ '.' :: frac) : hmsPart X s = none := by
  have key : ∀ c : Str, ∀ n, Spec.SRT.natOf c = some n → atoi (trimSpace (c ++ '.' :: frac)) = none := by
    intro c n hc
    obtain ⟨hne, hd, _⟩ := natOf_spec hc
    rw [trimSpace_id]
    · exact atoi_dot hne hd _
    · intro x hx
      simp only [List.mem_append, List.mem_cons] at hx
      rcases hx with hx | rfl | hx
      · exact hd.noSpace x hx
      · decide
      · exact hfr.noSpace x hx
  have hcolon : ':' ∉ frac := hfr.not_mem (Or.inl rfl)
  rcases h with ⟨a, b, c, hsp, ha, hb', hc⟩ | ⟨b, c, hsp, _, hb', hc⟩
  · obtain ⟨rfl, na, nb, nc⟩ := splitC_three hsp
    refine hmsPart_three_none (ph := a) (pm := b) (ps := c ++ '.' :: frac) ?_ (key c _ hc)
    rw [ht]
    have : (a ++ ':' :: (b ++ ':' :: c)) ++ '.' :: frac = a ++ ':' :: (b ++ ':' :: (c ++ '.' :: frac)) := by simp
    rw [this]
    exact splitC_three_mk na nb (by simp [nc, hcolon])
  · obtain ⟨rfl, nb, nc⟩ := splitC_two hsp
    refine hmsPart_two_none (pm := b) (ps := c ++ '.' :: frac) ?_ (key c _ hc)
    rw [ht]
    have : (b ++ ':' :: c) ++ '.' :: frac = b ++ ':' :: (c ++ '.' :: frac) := by simp
    rw [this]
    exact splitC_two_mk nb (by simp [nc, hcolon])

/-! ## the split at the separator -/

theorem space_not_mem {w : Str} (h : ∀ c ∈ w, isSpace c = true) {x : Char} (hx : x = ',' ∨ x = '.') : x ∉ w := by
  intro hm
  rcases hx with rfl | rfl
  · exact space_ne_comma (h _ hm) rfl
  · exact space_ne_dot (h _ hm) rfl

theorem clean_not_mem {t : Str} (h : Clean t) {x : Char} (hx : x = ',' ∨ x = '.') : x ∉ t := by
  intro hm
  rcases hx with rfl | rfl
  · exact (h _ hm).2.1 rfl
  · exact (h _ hm).2.2 rfl

/-- `parseDuration` with the separator that the time stamp uses -/
theorem parse_sep {sep : Char} (hsep : sep = ',' ∨ sep = '.') {w1 w2 hms frac : Str} {f : Nat}
    (h1 : ∀ c ∈ w1, isSpace c = true) (h2 : ∀ c ∈ w2, isSpace c = true) (hcl : Clean hms)
    (hf : Spec.SRT.natOf frac = some f) (hl : frac.length ≤ 3) :
    Duration.parse (w1 ++ (hms ++ sep :: frac) ++ w2) sep 3
      = hmsPart ((f : Int) * (10 : Int) ^ (3 - frac.length)) (w1 ++ hms) := by
  obtain ⟨hne, hd, _⟩ := natOf_spec hf
  have hshape : w1 ++ (hms ++ sep :: frac) ++ w2 = (w1 ++ hms) ++ sep :: (frac ++ w2) := by simp
  have hdsep : sep ∉ frac := by
    rcases hsep with rfl | rfl
    · exact hd.not_mem (Or.inr (Or.inr rfl))
    · exact hd.not_mem (Or.inr (Or.inl rfl))
  have hsplit : splitC sep (w1 ++ (hms ++ sep :: frac) ++ w2) = [w1 ++ hms, frac ++ w2] := by
    rw [hshape]
    apply splitC_two_mk
    · simp only [List.mem_append, not_or]
      exact ⟨space_not_mem h1 hsep, clean_not_mem hcl hsep⟩
    · simp only [List.mem_append, not_or]
      exact ⟨hdsep, space_not_mem h2 hsep⟩
  have htrim : trimSpace (frac ++ w2) = frac := by
    have := trimSpace_pad (w1 := []) (by simp) h2 hne hd.noSpace
    simpa using this
  have hlt : f < 10 ^ 3 := Nat.lt_of_lt_of_le (natOf_lt hf) (Nat.pow_le_pow_right (by omega) hl)
  have hfb : f ≤ int64Max := by unfold int64Max; omega
  have := parse_two_parts 3 (f := (f : Int)) hsplit (by rw [htrim]; exact hl) (by rw [htrim]; exact atoi_of_natOf hf hfb)
  rw [htrim] at this
  exact this

/-- with `.` in the time stamp, the first attempt (separator `,`) fails -/
theorem parse_comma_dot {w1 w2 hms frac : Str} {hh m sec f : Nat}
    (h1 : ∀ c ∈ w1, isSpace c = true) (h2 : ∀ c ∈ w2, isSpace c = true) (hfi : Fields hms hh m sec)
    (hf : Spec.SRT.natOf frac = some f) :
    Duration.parse (w1 ++ (hms ++ '.' :: frac) ++ w2) ',' 3 = none := by
  obtain ⟨hne, hd, _⟩ := natOf_spec hf
  obtain ⟨hne', hcl⟩ := hfi.clean
  have hno : ',' ∉ w1 ++ (hms ++ '.' :: frac) ++ w2 := by
    simp only [List.mem_append, List.mem_cons, not_or]
    exact ⟨⟨space_not_mem h1 (Or.inl rfl), clean_not_mem hcl (Or.inl rfl), by decide,
      hd.not_mem (Or.inr (Or.inr rfl))⟩, space_not_mem h2 (Or.inl rfl)⟩
  rw [parse_one_part 3 (splitC_not_mem hno)]
  apply hmsPart_dot 0 hfi hd
  apply trimSpace_pad h1 h2 (by simp)
  intro c hc
  simp only [List.mem_append, List.mem_cons] at hc
  rcases hc with hc | rfl | hc
  · exact (hcl c hc).1
  · decide
  · exact hd.noSpace c hc

/-! ## the theorem -/

theorem timeMs_fields {s : Str} {ms : Nat} (h : Spec.SRT.timeMs s = some ms) :
    ∃ (sep : Char) (hms frac : Str) (f hh m sec : Nat), (sep = ',' ∨ sep = '.') ∧
      trimSpace s = hms ++ sep :: frac ∧ frac.length ≤ 3 ∧ Spec.SRT.natOf frac = some f ∧
      Fields hms hh m sec ∧ m < 60 ∧ sec < 60 ∧
      ms = ((hh * 60 + m) * 60 + sec) * 1000 + f * 10 ^ (3 - frac.length) := by
  obtain ⟨sep, hms, frac, f, hsep, ht, hl, hf, hcase⟩ := timeMs_shape h
  rcases hcase with ⟨a, b, c, hh, m, sec, hsp, ha, hb, hc, hm, hs, hv⟩ | ⟨b, c, m, sec, hsp, hb, hc, hm, hs, hv⟩
  · exact ⟨sep, hms, frac, f, hh, m, sec, hsep, ht, hl, hf, Or.inl ⟨a, b, c, hsp, ha, hb, hc⟩, hm, hs, hv⟩
  · exact ⟨sep, hms, frac, f, 0, m, sec, hsep, ht, hl, hf, Or.inr ⟨b, c, hsp, rfl, hb, hc⟩, hm, hs, by simpa using hv⟩

/-- HEADLINE: what the independent decoder reads as `ms` milliseconds, the reader model reads as
`ms` ms in nanoseconds — provided the hours field fits Go's int (`ms / 3600000 ≤ int64Max`; beyond
that `strconv.Atoi` fails in the model: "99999999999999999999:00:00,000" is accepted by the decoder
only) -/
theorem parseSRT_of_timeMs (s : Str) (ms : Nat) (h : Spec.SRT.timeMs s = some ms) (hb : ms / 3600000 ≤ int64Max) :
    Duration.parseSRT s = some ((ms : Int) * 1000000) := by
  obtain ⟨sep, hms, frac, f, hh, m, sec, hsep, ht, hl, hf, hfi, hm, hs, hv⟩ := timeMs_fields h
  obtain ⟨w1, w2, hdec, h1, h2⟩ := trimSpace_decomp s
  rw [ht] at hdec
  obtain ⟨_, hcl⟩ := hfi.clean
  generalize hX : f * 10 ^ (3 - frac.length) = X at hv
  have hhb : hh ≤ int64Max := by
    unfold int64Max at hb ⊢
    omega
  have hval : ((f : Int) * (10 : Int) ^ (3 - frac.length)) = (X : Int) := by
    rw [← hX]; push_cast; rfl
  have hgood : Duration.parse s sep 3 = some ((ms : Int) * 1000000) := by
    rw [hdec, parse_sep hsep h1 h2 hcl hf hl, hmsPart_fields _ hfi h1 hm hs hhb, hval]
    subst hv
    apply congrArg some
    omega
  unfold Duration.parseSRT
  rcases hsep with rfl | rfl
  · rw [hgood]
  · have hbad : Duration.parse s ',' 3 = none := by
      rw [hdec]; exact parse_comma_dot h1 h2 hfi hf
    rw [hbad, hgood]

end SRTRead2
end Astisub
