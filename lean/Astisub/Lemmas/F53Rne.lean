import Mathlib.Tactic.Linarith
import Mathlib.Tactic.Positivity
import Mathlib.Tactic.NormNum
import Mathlib.Algebra.Order.Floor.Ring
import Mathlib.Data.Rat.Floor

/-!
# Lemmas/F53Rne — round a rational to the nearest integer, ties to the even one

`rne y` is defined for every rational `y` (either sign). It is characterised by `IsRNE`:
`z` is within 1/2 of `y`, and if it is exactly 1/2 away then `z` is even. `rne_spec` says `rne y`
has this property, `rne_unique` says nothing else has.
-/

namespace Astisub
namespace F53

/-- nearest integer, ties to even -/
def rne (y : ℚ) : ℤ :=
  if y - ⌊y⌋ < 1 / 2 then ⌊y⌋
  else if 1 / 2 < y - ⌊y⌋ then ⌊y⌋ + 1
  else if ⌊y⌋ % 2 = 0 then ⌊y⌋ else ⌊y⌋ + 1

/-- `z` is a nearest integer of `y`, and the even one when there are two -/
def IsRNE (y : ℚ) (z : ℤ) : Prop :=
  |y - z| ≤ 1 / 2 ∧ (|y - z| = 1 / 2 → z % 2 = 0)

theorem rne_spec (y : ℚ) : IsRNE y (rne y) := by
  have h1 := Int.floor_le y
  have h2 := Int.lt_floor_add_one y
  unfold IsRNE rne
  by_cases c1 : y - ⌊y⌋ < 1 / 2
  · simp only [c1, ↓reduceIte]
    have hpos : 0 ≤ y - (⌊y⌋ : ℚ) := by linarith
    rw [abs_of_nonneg hpos]
    exact ⟨le_of_lt c1, fun h => absurd h (ne_of_lt c1)⟩
  · simp only [c1, ↓reduceIte]
    by_cases c2 : 1 / 2 < y - ⌊y⌋
    · simp only [c2, ↓reduceIte]
      have hneg : y - ((⌊y⌋ + 1 : ℤ) : ℚ) ≤ 0 := by push_cast; linarith
      rw [abs_of_nonpos hneg]
      push_cast
      refine ⟨by linarith, fun h => ?_⟩
      exfalso; linarith
    · simp only [c2, ↓reduceIte]
      have heq : y - (⌊y⌋ : ℚ) = 1 / 2 := le_antisymm (not_lt.mp c2) (not_lt.mp c1)
      by_cases c3 : ⌊y⌋ % 2 = 0
      · rw [if_pos c3, heq]
        exact ⟨by norm_num, fun _ => c3⟩
      · rw [if_neg c3]
        have hneg : y - ((⌊y⌋ + 1 : ℤ) : ℚ) ≤ 0 := by push_cast; linarith
        rw [abs_of_nonpos hneg]
        push_cast
        refine ⟨by linarith, fun _ => by omega⟩

theorem rne_unique {y : ℚ} {z : ℤ} (h : IsRNE y z) : rne y = z := by
  obtain ⟨hle, htie⟩ := h
  have h1 := Int.floor_le y
  have h2 := Int.lt_floor_add_one y
  have hab := abs_le.mp hle
  -- z is ⌊y⌋ or ⌊y⌋ + 1
  have hz1 : ⌊y⌋ ≤ z := by
    have : ((⌊y⌋ - 1 : ℤ) : ℚ) < (z : ℚ) := by push_cast; linarith [hab.1, hab.2]
    have := Int.cast_lt.mp this
    omega
  have hz2 : z ≤ ⌊y⌋ + 1 := by
    have : (z : ℚ) < ((⌊y⌋ + 2 : ℤ) : ℚ) := by push_cast; linarith [hab.1, hab.2]
    have := Int.cast_lt.mp this
    omega
  unfold rne
  by_cases c1 : y - ⌊y⌋ < 1 / 2
  · simp only [c1, ↓reduceIte]
    by_cases hz : z = ⌊y⌋
    · exact hz.symm
    · exfalso
      have hz' : z = ⌊y⌋ + 1 := by omega
      rw [hz'] at hab
      push_cast at hab
      linarith [hab.1, hab.2]
  · simp only [c1, ↓reduceIte]
    by_cases c2 : 1 / 2 < y - ⌊y⌋
    · simp only [c2, ↓reduceIte]
      by_cases hz : z = ⌊y⌋ + 1
      · exact hz.symm
      · exfalso
        have hz' : z = ⌊y⌋ := by omega
        rw [hz'] at hab
        linarith [hab.1, hab.2]
    · simp only [c2, ↓reduceIte]
      have heq : y - (⌊y⌋ : ℚ) = 1 / 2 := le_antisymm (not_lt.mp c2) (not_lt.mp c1)
      have htie' : z % 2 = 0 := by
        apply htie
        by_cases hz : z = ⌊y⌋
        · rw [hz, heq]; norm_num
        · have hz' : z = ⌊y⌋ + 1 := by omega
          have : y - ((⌊y⌋ + 1 : ℤ) : ℚ) = -(1 / 2) := by push_cast; linarith
          rw [hz', this]; norm_num
      by_cases c3 : ⌊y⌋ % 2 = 0
      · rw [if_pos c3]; omega
      · rw [if_neg c3]; omega

theorem rne_err (y : ℚ) : |y - rne y| ≤ 1 / 2 := (rne_spec y).1

theorem rne_intCast (z : ℤ) : rne (z : ℚ) = z :=
  rne_unique ⟨by simp, fun h => by simp at h⟩

theorem rne_neg (y : ℚ) : rne (-y) = -rne y := by
  apply rne_unique
  obtain ⟨h1, h2⟩ := rne_spec y
  have e : |(-y) - ((-rne y : ℤ) : ℚ)| = |y - (rne y : ℚ)| := by
    push_cast
    rw [show -y - -(rne y : ℚ) = -(y - (rne y : ℚ)) by ring, abs_neg]
  refine ⟨by rw [e]; exact h1, fun h => ?_⟩
  rw [e] at h
  have := h2 h
  omega

theorem rne_mono {x y : ℚ} (h : x ≤ y) : rne x ≤ rne y := by
  obtain ⟨hx, hxt⟩ := rne_spec x
  obtain ⟨hy, hyt⟩ := rne_spec y
  have hx' := abs_le.mp hx
  have hy' := abs_le.mp hy
  -- rne x ≤ rne y + 1, and equality is impossible
  by_cases hc : rne x ≤ rne y
  · exact hc
  · exfalso
    have hlt : rne y + 1 ≤ rne x := by omega
    have hq : ((rne y + 1 : ℤ) : ℚ) ≤ (rne x : ℚ) := Int.cast_le.mpr hlt
    push_cast at hq
    -- then x - rne x = -1/2, y - rne y = 1/2, rne x = rne y + 1: both even, contradiction
    have e1 : x - (rne x : ℚ) = -(1 / 2) := by linarith [hx'.1, hy'.2]
    have e2 : y - (rne y : ℚ) = 1 / 2 := by linarith [hx'.1, hy'.2]
    have e3 : (rne x : ℚ) = (rne y : ℚ) + 1 := by linarith [hx'.1, hy'.2]
    have e3' : rne x = rne y + 1 := by
      have : (rne x : ℚ) = ((rne y + 1 : ℤ) : ℚ) := by push_cast; exact e3
      exact Int.cast_injective this
    have p1 := hxt (by rw [e1]; norm_num)
    have p2 := hyt (by rw [e2]; norm_num)
    omega

end F53
end Astisub
