import Astisub.Driver.Conv

/-!
# Lemmas/ConvView — the view of a cue list and the conversion predicate (C07)

`Spec.Conv.viewOf` looks at a cue only through its two instants and, line by line, the
concatenation of the run texts.  This file gives that observation a name (`cueView`,
`lineTexts`), defines the view a destination of resolution `u` must return (`truncView u`), and
proves that `Driver.convOk` — the predicate the `conv.pair` check evaluates — holds as soon as the
destination read back has exactly that view.
-/

namespace Astisub
namespace ConvView
open Go Spec.Conv Driver

/-- the texts of the lines of a cue, runs concatenated -/
def lineTexts (it : CItem) : List Str := it.lines.map fun l => (l.items.map (·.text)).flatten

/-- the view of one cue -/
def cueView (it : CItem) : VCue :=
  let ls := it.lines.map fun l => squash (l.items.map (·.text)).flatten
  { startAt := it.startAt, endAt := it.endAt, lines := ls.filter (· ≠ []), blank := ls.any (· = []) }

theorem viewOf_eq (s : Subs) : viewOf s = s.items.map cueView := rfl

/-- the view depends on the instants and on the line texts only -/
theorem cueView_congr (a b : CItem) (hs : a.startAt = b.startAt) (he : a.endAt = b.endAt)
    (hl : lineTexts a = lineTexts b) : cueView a = cueView b := by
  have e : (a.lines.map fun l => squash (l.items.map (·.text)).flatten)
      = (b.lines.map fun l => squash (l.items.map (·.text)).flatten) := by
    have := congrArg (List.map squash) hl
    simpa [lineTexts, List.map_map, Function.comp_def] using this
  simp only [cueView, hs, he, e]

/-- a cue seen at resolution `u`: both instants truncated, text untouched -/
def truncCue (u : Int) (c : VCue) : VCue := { c with startAt := truncTo u c.startAt, endAt := truncTo u c.endAt }

/-- **The view a destination of resolution `u` returns**: same cues in the same order, instants
    truncated to `u`, same text lines -/
def truncView (u : Int) (v : List VCue) : List VCue := v.map (truncCue u)

theorem truncView_length (u : Int) (v : List VCue) : (truncView u v).length = v.length := by
  simp [truncView]

theorem zip_map_all {α β : Type} (f : α → β) (p : α × β → Bool) (v : List α) :
    (List.zip v (v.map f)).all p = v.all fun a => p (a, f a) := by
  induction v with
  | nil => rfl
  | cons a v ih => simp [ih]

/-- **Sufficient condition for the conversion predicate.**  For a destination other than STL
    (whose resolution is a frame, not a power of ten), if the destination read back shows exactly
    the source's cues at the destination's resolution then `convOk` holds — in both modes of the
    check (`strict` only matters for STL) -/
theorem convOk_of_view (strict : Bool) (dst : String) (hd : dst ≠ "stl") (s back : Subs)
    (h : viewOf back = truncView (unitOfDst dst) (viewOf s)) : convOk strict dst s back = true := by
  unfold convOk
  simp only [hd, if_false, h, truncView, List.length_map, beq_self_eq_true, Bool.true_and, zip_map_all]
  rw [List.all_eq_true]
  intro a _
  simp [truncCue]

/-- … and every part of the conclusion can be read off the view equality -/
theorem view_facts (u : Int) (s back : Subs) (h : viewOf back = truncView u (viewOf s)) :
    back.items.length = s.items.length ∧
    ∀ (k : Nat) (a b : CItem), s.items[k]? = some a → back.items[k]? = some b →
      b.startAt = truncTo u a.startAt ∧ b.endAt = truncTo u a.endAt ∧ (cueView b).lines = (cueView a).lines := by
  constructor
  · have := congrArg List.length h
    simpa [viewOf_eq, truncView] using this
  · intro k a b ha hb
    have h1 : (viewOf back)[k]? = some (cueView b) := by simp [viewOf_eq, hb]
    have h2 : (truncView u (viewOf s))[k]? = some (truncCue u (cueView a)) := by simp [viewOf_eq, truncView, ha]
    rw [h, h2] at h1
    have e : truncCue u (cueView a) = cueView b := Option.some.inj h1
    refine ⟨?_, ?_, ?_⟩
    · have := congrArg VCue.startAt e; simpa [truncCue, cueView] using this.symm
    · have := congrArg VCue.endAt e; simpa [truncCue, cueView] using this.symm
    · have := congrArg VCue.lines e; simpa [truncCue] using this.symm

/-- the range clause of the check, cue by cue -/
theorem inRange_items {dst : String} (hd : dst ≠ "stl") {s : Subs} (h : inRange dst s = true) :
    ∀ it ∈ s.items, 0 ≤ it.startAt ∧ it.startAt < 360000000000000 ∧ 0 ≤ it.endAt ∧ it.endAt < 360000000000000 := by
  intro it hit
  unfold inRange at h
  simp only [hd, if_false, List.all_eq_true] at h
  have := h (cueView it) (by rw [viewOf_eq]; exact List.mem_map_of_mem hit)
  simp [cueView] at this
  omega

/-! ### plain text -/

/-- a character of `simpleText` -/
def simpleChar (c : Char) : Bool :=
  ('a' ≤ c && c ≤ 'z') || ('A' ≤ c && c ≤ 'Z') || ('0' ≤ c && c ≤ '9') || c = ' ' || c = ',' || c = '.' || c = '!' || c = '?'

theorem simpleText_eq (s : Str) : simpleText s = s.all simpleChar := rfl

theorem simpleChar_le {c : Char} (h : simpleChar c = true) : 32 ≤ c.toNat ∧ c.toNat ≤ 122 := by
  simp only [simpleChar, Bool.or_eq_true, Bool.and_eq_true, decide_eq_true_eq] at h
  have hle : ∀ a b : Char, a ≤ b → a.toNat ≤ b.toNat := fun a b hab => hab
  rcases h with ((((((⟨h1, h2⟩ | ⟨h1, h2⟩) | ⟨h1, h2⟩) | h) | h) | h) | h) | h
  · have := hle _ _ h1; have := hle _ _ h2; simp at *; omega
  · have := hle _ _ h1; have := hle _ _ h2; simp at *; omega
  · have := hle _ _ h1; have := hle _ _ h2; simp at *; omega
  all_goals (subst h; decide)

/-- among the simple characters only the blank is white space -/
theorem simpleChar_space {c : Char} (h : simpleChar c = true) (hb : c ≠ ' ') : isSpace c = false := by
  have ⟨h1, h2⟩ := simpleChar_le h
  have hne : c.toNat ≠ 32 := by
    intro e
    apply hb
    apply Char.ext
    apply UInt32.toNat_inj.mp
    exact e
  unfold isSpace
  simp only [Bool.or_eq_false_iff, Bool.and_eq_false_iff, beq_eq_false_iff_ne, decide_eq_false_iff_not]
  omega

theorem simpleChar_ne {c d : Char} (h : simpleChar c = true) (hd : simpleChar d = false) : c ≠ d := by
  intro e; subst e; rw [h] at hd; cases hd

end ConvView
end Astisub
