import Astisub.Lemmas.Tot2Base
import Astisub.Model.Duration

/-!
# Lemmas/Tot2Duration — `parseDuration` (`subtitles.go`) with Go's index checks made explicit

`parseDuration` is called by every text reader (SRT, WebVTT, SSA, TTML clock times).  Its index
sites:

* `parts[len(parts)-1]` and `parts[:len(parts)-1]` after `strings.Split(i, sep)`, behind `len(parts) >= 2`
  (the model: `parts.getLast?.getD []`, `parts.dropLast`);
* `parts[1]`, `parts[0]` behind `len(parts) == 2`; `parts[2]`, `parts[1]`, `parts[0]` behind `len(parts) == 3`
  (the model: the list patterns `[pm, ps]`, `[ph, pm, ps]` with a catch-all error arm).

`parseC i sep digits = .ok (Duration.parse i sep digits)` for all inputs.
-/

namespace Astisub
namespace Tot
namespace Dur
open Go Duration

/-- the millisecond part: what is left of the last separator, and the milliseconds -/
def msPart (i : Str) (sep : Char) (digits : Nat) : Option (Int × Str) :=
  let parts := splitC sep i
  if parts.length ≥ 2 then
    let s := trimSpace (parts.getLast?.getD [])
    if s.length > 3 then none else
    match atoi s with
    | none => none
    | some ms => some (ms * (10 : Int) ^ (digits - s.length), join [sep] parts.dropLast)
  else some (0, i)

/-- the same with `parts[len(parts)-1]`, `parts[:len(parts)-1]` -/
def msPartC (i : Str) (sep : Char) (digits : Nat) : Chk (Option (Int × Str)) :=
  let parts := splitC sep i
  if parts.length ≥ 2 then do
    let last ← lastC parts
    let s := trimSpace last
    if s.length > 3 then pure none else
    match atoi s with
    | none => pure none
    | some ms => do
      let init ← initC parts
      pure (some (ms * (10 : Int) ^ (digits - s.length), join [sep] init))
  else pure (some (0, i))

theorem msPartC_eq (i : Str) (sep : Char) (digits : Nat) : msPartC i sep digits = .ok (msPart i sep digits) := by
  unfold msPartC msPart
  have hne := splitC_ne_nil sep i
  simp only
  split
  · rw [lastC_ok hne [], initC_ok hne]
    simp only [ok_bind]
    split
    · rfl
    · cases atoi (trimSpace ((splitC sep i).getLast?.getD [])) <;> rfl
  · rfl

/-- hours, minutes, seconds fields as the model's patterns take them -/
def hmsFields (hms : List Str) : Option (Str × Str × Str) :=
  match hms with
  | [pm, ps] => some ([], pm, ps)
  | [ph, pm, ps] => some (ph, pm, ps)
  | _ => none

/-- the same with `parts[i]` behind the two length tests -/
def hmsFieldsC (hms : List Str) : Chk (Option (Str × Str × Str)) :=
  if hms.length = 2 then do
    let ps ← idx hms 1
    let pm ← idx hms 0
    pure (some ([], pm, ps))
  else if hms.length = 3 then do
    let ps ← idx hms 2
    let pm ← idx hms 1
    let ph ← idx hms 0
    pure (some (ph, pm, ps))
  else pure none

theorem hmsFieldsC_eq (hms : List Str) : hmsFieldsC hms = .ok (hmsFields hms) := by
  unfold hmsFieldsC hmsFields
  match hms with
  | [] => rfl
  | [_] => rfl
  | [_, _] => rfl
  | [_, _, _] => rfl
  | _ :: _ :: _ :: _ :: t =>
    rw [if_neg (by simp), if_neg (by simp)]
    rfl

/-- the arithmetic tail of `parseDuration` (no index site) -/
def finish (ms : Int) (f : Option (Str × Str × Str)) : Option Int :=
  match f with
  | none => none
  | some (ph, pm, ps) =>
    match atoi (trimSpace ps), atoi (trimSpace pm) with
    | some sec, some min =>
      let hours : Option Int := if ph.length > 0 then atoi (trimSpace ph) else some 0
      match hours with
      | some h => some (ms * nsPerMs + sec * nsPerS + min * nsPerMin + h * nsPerH)
      | none => none
    | _, _ => none

/-- the model is the composition of the three parts (by unfolding) -/
theorem parse_eq (i : Str) (sep : Char) (digits : Nat) :
    Duration.parse i sep digits =
      (match msPart i sep digits with
       | none => none
       | some (ms, s) => finish ms (hmsFields (splitC ':' (trimSpace s)))) := by
  unfold Duration.parse msPart finish hmsFields
  rfl

/-- **`parseDuration` with every index and slice expression checked** -/
def parseC (i : Str) (sep : Char) (digits : Nat) : Chk (Option Int) := do
  let r ← msPartC i sep digits
  match r with
  | none => pure none
  | some (ms, s) => do
    let f ← hmsFieldsC (splitC ':' (trimSpace s))
    pure (finish ms f)

/-- never panics, and is the model, for every input string, separator and digit count -/
theorem parseC_eq (i : Str) (sep : Char) (digits : Nat) : parseC i sep digits = .ok (Duration.parse i sep digits) := by
  unfold parseC
  rw [msPartC_eq, parse_eq]
  simp only [ok_bind]
  cases msPart i sep digits with
  | none => rfl
  | some p =>
    obtain ⟨ms, s⟩ := p
    simp only [hmsFieldsC_eq, ok_bind]
    rfl

/-- the length tests are necessary: the three-field indexing on a two-field string panics -/
theorem hms_unguarded_panics (hms : List Str) (h : hms.length < 3) : (idx hms 2).safe = false := by
  rw [idx_panics (by omega)]; rfl

example : parseC "00:01:02.5".toList '.' 3 = .ok (some 62500000000) := by rfl
example : parseC "1:2:3:4".toList '.' 3 = .ok none := by rfl

end Dur
end Tot
end Astisub
