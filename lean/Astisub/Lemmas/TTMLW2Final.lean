import Astisub.Lemmas.TTMLW2Doc

/-!
# Lemmas/TTMLW2Final — the decoder's final checks on a written document, and the normal form of its answer
-/

namespace Astisub
namespace TTMLW2
open Go TTML List
open Driver.TTMLD (specToks resolve ttmlAttrsOf docOf normDoc defsOf sortG linesOf' runsOf)
open Spec.TTML (St GDoc GRun GCue GDef step run decode)
open TTMLR (finalOk okR okR_iff)
open TTMLDoc (titleOf copyrightOf langIn)

/-! ### `decode` from `run` -/

theorem decode_of_run (toks : List Spec.TTML.Tok) (stF : St) (hr : run toks {} = some stF) (hf : stF.finished = true)
    (hok : finalOk stF.doc = true) : decode toks = some stF.doc := by
  unfold decode
  rw [hr]
  simp only [hf, Bool.not_true, Bool.false_eq_true, if_false]
  exact if_pos hok

theorem nodup_of_Nodup {l : List Str} (h : l.Nodup) : Spec.TTML.nodup l = true := by
  induction l with
  | nil => rfl
  | cons a r ih =>
    rw [nodup_cons] at h
    simp only [Spec.TTML.nodup, Bool.and_eq_true, Bool.not_eq_true', List.contains_eq_mem, decide_eq_false_iff_not]
    exact ⟨h.1, ih h.2⟩

/-! ### what the proviso of the check says about references -/

def RefIn (r : Option Str) (ids : List Str) : Prop := ∀ v, r = some v → v ∈ ids

theorem refIn_of {r : Option Str} {ids : List Str}
    (h : (match r with | none => true | some x => !x.isEmpty && ids.contains x) = true) : RefIn r ids := by
  intro v hv
  subst hv
  simp only [Bool.and_eq_true, List.contains_eq_mem, decide_eq_true_eq] at h
  exact h.2

theorem rep_refs (s : Subs) (h : Driver.TTMLD.rep s = true) :
    (∀ d ∈ s.styles, RefIn d.ref (s.styles.map (·.id))) ∧
    (∀ d ∈ s.regions, RefIn d.ref (s.styles.map (·.id))) ∧
    (∀ it ∈ s.items, RefIn it.style (s.styles.map (·.id)) ∧ RefIn it.region (s.regions.map (·.id)) ∧
      ∀ l ∈ it.lines, ∀ li ∈ l.items, RefIn li.style (s.styles.map (·.id))) := by
  simp only [Driver.TTMLD.rep, Bool.and_eq_true, all_eq_true] at h
  obtain ⟨⟨⟨_, hs⟩, hr⟩, hi⟩ := h
  refine ⟨fun d hd => refIn_of (hs d hd).1.2, fun d hd => refIn_of (hr d hd).1.2, fun it hit => ?_⟩
  obtain ⟨⟨⟨⟨_, h1⟩, h2⟩, _⟩, h3⟩ := hi it hit
  exact ⟨refIn_of h1, refIn_of h2, fun l hl li hli => refIn_of (h3 l hl li hli).1.2⟩

theorem okR_of {r : Option Str} {ids ids' : List Str} (h : RefIn r ids) (hp : ids.Perm ids') : okR r ids' = true :=
  (okR_iff r ids').mpr fun v hv => hp.mem_iff.mp (h v hv)

theorem ids_toG (l : List Def) : (l.map toG).map (·.id) = l.map (·.id) := by
  rw [map_map]; rfl

/-- **The decoder's final checks pass**: identifiers distinct, every reference defined. -/
theorem finalOk_docW (s : Subs) (hrep : Driver.TTMLD.rep s = true) (hsn : (s.styles.map Def.id).Nodup)
    (hrn : (s.regions.map Def.id).Nodup) : finalOk (docW s) = true := by
  obtain ⟨h1, h2, h3⟩ := rep_refs s hrep
  have ps := (TTMLDoc.sortDefs_ids_perm s.styles).symm
  have pr := (TTMLDoc.sortDefs_ids_perm s.regions).symm
  simp only [finalOk, docW, ids_toG, Bool.and_eq_true, all_eq_true]
  refine ⟨⟨⟨⟨nodup_of_Nodup (ps.nodup_iff.mp hsn), nodup_of_Nodup (pr.nodup_iff.mp hrn)⟩, ?_⟩, ?_⟩, ?_⟩
  · intro g hg
    obtain ⟨d, hd, rfl⟩ := mem_map.mp hg
    exact okR_of (h1 d (TTMLDoc.mem_sortDefs.mp hd)) ps
  · intro g hg
    obtain ⟨d, hd, rfl⟩ := mem_map.mp hg
    exact okR_of (h2 d (TTMLDoc.mem_sortDefs.mp hd)) ps
  · intro c hc
    obtain ⟨it, hit, rfl⟩ := mem_map.mp hc
    obtain ⟨a1, a2, a3⟩ := h3 it hit
    refine ⟨⟨okR_of a1 ps, okR_of a2 pr⟩, ?_⟩
    intro l hl r hr
    simp only [cueG, linesOf'] at hl
    cases hls : it.lines with
    | nil =>
      simp only [hls, List.isEmpty_nil, if_true, mem_singleton] at hl
      subst hl
      simp at hr
    | cons l0 ls =>
      simp only [hls, List.isEmpty_cons, Bool.false_eq_true, if_false] at hl
      obtain ⟨l1, hl1, rfl⟩ := mem_map.mp hl
      obtain ⟨li, hli, rfl⟩ := mem_map.mp hr
      exact okR_of (a3 l1 (by rw [hls]; exact hl1) li hli) ps

/-! ### the normal form of the answer -/

def leG (a b : GDef) : Bool := !strLt b.id a.id

theorem leG_trans (a b c : GDef) : leG a b = true → leG b c = true → leG a c = true := by
  unfold leG strLt
  simp only [Bool.not_eq_true', decide_eq_false_iff_not]
  intro h1 h2 h3
  have := String.le_trans (String.not_lt.mp h1) (String.not_lt.mp h2)
  exact absurd h3 (String.not_lt.mpr this)

theorem leG_total (a b : GDef) : (leG a b || leG b a) = true := by
  unfold leG strLt
  simp only [Bool.or_eq_true, Bool.not_eq_true', decide_eq_false_iff_not]
  rcases String.le_total (String.ofList a.id) (String.ofList b.id) with h | h
  · exact Or.inl (String.not_lt.mpr h)
  · exact Or.inr (String.not_lt.mpr h)

theorem sortG_eq (l : List GDef) : sortG l = l.mergeSort leG := rfl

theorem sortG_idem (l : List GDef) : sortG (sortG l) = sortG l := by
  rw [sortG_eq, sortG_eq]
  exact mergeSort_of_pairwise (pairwise_mergeSort leG_trans leG_total l)

theorem sortDefs_toG (l : List Def) : (sortDefs l).map toG = sortG (l.map toG) := by
  unfold sortDefs
  rw [sortG_eq]
  exact List.map_mergeSort (r := fun (a b : Def) => !strLt b.id a.id) (s := leG) (f := toG) (l := l) (fun a _ b _ => rfl)

/-- the written definitions are in identifier order already -/
theorem sortG_written (l : List Def) : sortG ((sortDefs l).map toG) = defsOf l := by
  rw [sortDefs_toG, sortG_idem, ← sortDefs_toG]
  rfl

def langNames : List Str :=
  ["chinese".toList, "english".toList, "french".toList, "japanese".toList, "norwegian".toList]

theorem lang_names : ∀ p ∈ languages, p.2 ∈ langNames := by decide

/-- the two language tables agree: the code the writer puts on `<tt>` is the code the specification expects -/
theorem lang_agree (l : Str) :
    (TTMLDoc.normRef ((languages.find? fun p => p.2 = l).map (·.1))).getD [] = (Spec.TTML.languageCode l).getD [] := by
  by_cases h1 : l = "chinese".toList
  · subst h1; decide
  by_cases h2 : l = "english".toList
  · subst h2; decide
  by_cases h3 : l = "french".toList
  · subst h3; decide
  by_cases h4 : l = "japanese".toList
  · subst h4; decide
  by_cases h5 : l = "norwegian".toList
  · subst h5; decide
  have hl : l ∉ langNames := by
    simp only [langNames, mem_cons, not_mem_nil, or_false, not_or]
    exact ⟨h1, h2, h3, h4, h5⟩
  have e1 : languages.find? (fun p => p.2 = l) = none := by
    rw [find?_eq_none]
    intro p hp
    simp only [decide_eq_true_eq]
    intro e
    exact hl (e ▸ lang_names p hp)
  have e2 : Spec.TTML.languageCode l = none := by
    unfold Spec.TTML.languageCode Spec.TTML.languageTable
    simp only [findSome?_cons, findSome?_nil, h1, h2, h3, h4, h5, if_false]
  rw [e1, e2]
  rfl

theorem lang_written (m : Attrs) :
    langIn m = (match kvGet m "Language" with | some l => (Spec.TTML.languageCode l).getD [] | none => []) := by
  unfold langIn langOut
  cases kvGet m "Language" with
  | none => rfl
  | some l => exact lang_agree l

/-- **the decoder's answer, definitions sorted by identifier, is the document the check expects** -/
theorem normDoc_docW (s : Subs) : normDoc (docW s) = docOf s := by
  unfold normDoc docW docOf
  simp only [sortG_written, lang_written]
  rfl

end TTMLW2
end Astisub
