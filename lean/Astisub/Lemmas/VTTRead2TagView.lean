import Astisub.Lemmas.VTTRead2Defs
import Astisub.Lemmas.Str
import Astisub.Lemmas.VTTTagRe

/-!
# Lemmas/VTTRead2TagView — the tags of a run through the protocol's `WebVTTTags` attribute

* `tagOK`: the tags that survive `VTT.tagsAttrs` / `VTT.tagsOfAttrs` (`tagsView_roundtrip`,
  `runView_runItem`);
* the decoder `Spec.VTT.textLine` only ever pushes such tags on lines of the class (`scanOK`):
  `textLine_tagOK`, `textLine_line_tagOK`.
-/

namespace Astisub
namespace VTTRead
open Go Spec.VTT

/-- a character of a tag name or class: not the separators of the attribute string -/
def tagCh (c : Char) : Bool := c != ' ' && c != '.' && c != '|'

/-- the tags the attribute string carries faithfully -/
def tagOK (t : GTag) : Bool :=
  !t.name.isEmpty && t.name.all tagCh && t.classes.all (fun cl => cl.all tagCh) && t.annotation.all (· != '|')

example : tagOK { name := "c".toList, classes := ["red".toList], annotation := "Bob Smith".toList } = true := by decide

theorem tagCh_facts {c : Char} (h : tagCh c = true) : c ≠ ' ' ∧ c ≠ '.' ∧ c ≠ '|' := by
  simp only [tagCh, Bool.and_eq_true, bne_iff_ne, ne_eq] at h
  exact ⟨h.1.1, h.1.2, h.2⟩

structure TagGood (t : GTag) : Prop where
  ne : t.name ≠ []
  name : ∀ c ∈ t.name, c ≠ ' ' ∧ c ≠ '.' ∧ c ≠ '|'
  cls : ∀ cl ∈ t.classes, ∀ c ∈ cl, c ≠ ' ' ∧ c ≠ '.' ∧ c ≠ '|'
  ann : ∀ c ∈ t.annotation, c ≠ '|'

theorem tagOK_iff (t : GTag) : tagOK t = true ↔ TagGood t := by
  constructor
  · intro h
    simp only [tagOK, Bool.and_eq_true, List.all_eq_true, Bool.not_eq_true', bne_iff_ne, ne_eq] at h
    obtain ⟨⟨⟨h1, h2⟩, h3⟩, h4⟩ := h
    refine ⟨?_, fun c hc => tagCh_facts (h2 c hc), fun cl hcl c hc => tagCh_facts (h3 cl hcl c hc), h4⟩
    intro e; rw [e] at h1; simp at h1
  · intro ⟨h1, h2, h3, h4⟩
    simp only [tagOK, Bool.and_eq_true, List.all_eq_true, Bool.not_eq_true', bne_iff_ne, ne_eq, tagCh]
    refine ⟨⟨⟨?_, fun c hc => ?_⟩, fun cl hcl c hc => ?_⟩, h4⟩
    · cases hn : t.name with
      | nil => exact absurd hn h1
      | cons _ _ => rfl
    · obtain ⟨a, b, c'⟩ := h2 c hc; exact ⟨⟨a, b⟩, c'⟩
    · obtain ⟨a, b, c'⟩ := h3 cl hcl c hc; exact ⟨⟨a, b⟩, c'⟩

/-! ### strings -/

theorem joinBar_cons2 (a b : Str) (rest : List Str) :
    join ['|'] (a :: b :: rest) = a ++ '|' :: join ['|'] (b :: rest) := by
  simp [join]

theorem splitC_joinBar (cs : List Str) (hne : cs ≠ []) (h : ∀ c ∈ cs, '|' ∉ c) :
    splitC '|' (join ['|'] cs) = cs := by
  induction cs with
  | nil => exact absurd rfl hne
  | cons a rest ih =>
    cases rest with
    | nil => simpa [join] using splitC_not_mem (h a (by simp))
    | cons b rest =>
      rw [joinBar_cons2, splitC_append _ (h a (by simp)), ih (by simp) (fun c hc => h c (by simp [hc]))]

/-- the part of a tag's text before the annotation -/
def tagHead (t : GTag) : Str := join ['.'] (t.name :: t.classes)

theorem tagStr_eq (t : GTag) :
    VTT.Tag.str (modelTag t) = tagHead t ++ (if t.annotation.isEmpty then [] else ' ' :: t.annotation) := by
  obtain ⟨n, cls, a⟩ := t
  cases cls with
  | nil => simp [VTT.Tag.str, modelTag, tagHead, join]
  | cons c cs => simp [VTT.Tag.str, modelTag, tagHead, VTT.join_cons2]

theorem tagHead_mem {t : GTag} (h : TagGood t) : ∀ c ∈ tagHead t, c ≠ ' ' ∧ c ≠ '|' := by
  intro c hc
  rcases VTT.join_mem _ c hc with e | ⟨cl, hcl, hc⟩
  · subst e; decide
  · rcases List.mem_cons.mp hcl with e | hcl
    · subst e; exact ⟨(h.name c hc).1, (h.name c hc).2.2⟩
    · exact ⟨(h.cls cl hcl c hc).1, (h.cls cl hcl c hc).2.2⟩

theorem tagHead_split {t : GTag} (h : TagGood t) : splitC '.' (tagHead t) = t.name :: t.classes := by
  apply VTT.splitC_join _ (by simp)
  intro cl hcl hm
  rcases List.mem_cons.mp hcl with e | hcl
  · subst e; exact (h.name _ hm).2.1 rfl
  · exact (h.cls cl hcl _ hm).2.1 rfl

theorem tagStr_noBar {t : GTag} (h : TagGood t) : '|' ∉ VTT.Tag.str (modelTag t) := by
  rw [tagStr_eq]
  intro hm
  rcases List.mem_append.mp hm with hm | hm
  · exact (tagHead_mem h _ hm).2 rfl
  · by_cases he : t.annotation.isEmpty = true
    · simp [he] at hm
    · simp only [he, Bool.false_eq_true, if_false, List.mem_cons] at hm
      rcases hm with e | hm
      · exact absurd e (by decide)
      · exact h.ann _ hm rfl

theorem tagOfStr_str {t : GTag} (h : TagGood t) : VTT.tagOfStr (VTT.Tag.str (modelTag t)) = modelTag t := by
  have hh : ∀ c ∈ tagHead t, (fun c => c != ' ') c = true := by
    intro c hc; simpa using (tagHead_mem h c hc).1
  rw [tagStr_eq]
  by_cases he : t.annotation.isEmpty = true
  · have ha : t.annotation = [] := by simpa using he
    simp only [he, if_true, List.append_nil]
    unfold VTT.tagOfStr
    simp only [VTT.takeWhile_all _ hh, List.drop_length, List.drop_nil, tagHead_split h]
    simp [modelTag, ha]
  · simp only [he, Bool.false_eq_true, if_false]
    unfold VTT.tagOfStr
    have ht : (tagHead t ++ ' ' :: t.annotation).takeWhile (fun c => c != ' ') = tagHead t := by
      rw [VTT.takeWhile_app_all _ _ hh]; simp
    simp only [ht, VTT.drop_len_app, tagHead_split h]
    simp [modelTag]

theorem specTag_modelTag (t : GTag) : Driver.specTag (modelTag t) = t := rfl

/-! ### (1) the round trip -/

theorem tagsView_roundtrip (tags : List GTag) (h : ∀ t ∈ tags, tagOK t = true) :
    (VTT.tagsOfAttrs (VTT.tagsAttrs (tags.map modelTag))).map Driver.specTag = tags := by
  cases tags with
  | nil => rfl
  | cons t ts =>
    have hg : ∀ x ∈ t :: ts, TagGood x := fun x hx => (tagOK_iff x).mp (h x hx)
    have hsplit : splitC '|' (VTT.tagsStr ((t :: ts).map modelTag)) = ((t :: ts).map modelTag).map VTT.Tag.str := by
      unfold VTT.tagsStr
      apply splitC_joinBar _ (by simp)
      intro s hs
      simp only [List.map_map, List.mem_map, Function.comp] at hs
      obtain ⟨x, hx, rfl⟩ := hs
      exact tagStr_noBar (hg x hx)
    have hget : VTT.tagsOfAttrs (VTT.tagsAttrs ((t :: ts).map modelTag))
        = (splitC '|' (VTT.tagsStr ((t :: ts).map modelTag))).map VTT.tagOfStr := by
      simp [VTT.tagsOfAttrs, VTT.tagsAttrs, SRT.kvGet, List.lookup]
    rw [hget, hsplit]
    simp only [List.map_map]
    have : ∀ l : List GTag, (∀ x ∈ l, TagGood x) →
        l.map (Driver.specTag ∘ VTT.tagOfStr ∘ VTT.Tag.str ∘ modelTag) = l := by
      intro l hl
      induction l with
      | nil => rfl
      | cons a l ih =>
        simp only [List.map_cons, Function.comp]
        rw [tagOfStr_str (hl a (by simp)), specTag_modelTag]
        congr 1
        exact ih (fun x hx => hl x (by simp [hx]))
    exact this _ hg

theorem runView_runItem (r : GRun) (hts : r.ts = none) (h : ∀ t ∈ r.tags, tagOK t = true) :
    runView (runItem r) = some r := by
  obtain ⟨text, tags, ts⟩ := r
  simp only at hts h
  subst hts
  simp [runView, runItem, tagsView_roundtrip tags h]

/-! ### (2) the decoder pushes `tagOK` tags -/

/-! #### general string facts -/

theorem mem_of_mem_splitC {d : Char} : ∀ {s piece : Str} {c : Char}, piece ∈ splitC d s → c ∈ piece → c ∈ s := by
  intro s
  induction s with
  | nil => intro piece c hp hc; simp [splitC] at hp; subst hp; exact hc
  | cons x xs ih =>
    intro piece c hp hc
    unfold splitC at hp
    by_cases hx : x = d
    · simp only [hx, if_true, List.mem_cons] at hp
      rcases hp with e | hp
      · subst e; simp at hc
      · exact List.mem_cons_of_mem _ (ih hp hc)
    · simp only [hx, if_false] at hp
      cases hs : splitC d xs with
      | nil => simp only [hs, List.mem_singleton] at hp; subst hp; simp at hc; simp [hc]
      | cons h t =>
        simp only [hs, List.mem_cons] at hp
        rcases hp with e | hp
        · subst e
          rcases List.mem_cons.mp hc with e | hc
          · simp [e]
          · exact List.mem_cons_of_mem _ (ih (by rw [hs]; simp) hc)
        · exact List.mem_cons_of_mem _ (ih (by rw [hs]; simp [hp]) hc)

theorem sep_not_mem_splitC {d : Char} : ∀ {s piece : Str}, piece ∈ splitC d s → d ∉ piece := by
  intro s
  induction s with
  | nil => intro piece hp; simp [splitC] at hp; subst hp; simp
  | cons x xs ih =>
    intro piece hp
    unfold splitC at hp
    by_cases hx : x = d
    · simp only [hx, if_true, List.mem_cons] at hp
      rcases hp with e | hp
      · subst e; simp
      · exact ih hp
    · simp only [hx, if_false] at hp
      cases hs : splitC d xs with
      | nil => simp only [hs, List.mem_singleton] at hp; subst hp; simpa using fun e => hx e.symm
      | cons h t =>
        simp only [hs, List.mem_cons] at hp
        rcases hp with e | hp
        · subst e
          intro hm
          rcases List.mem_cons.mp hm with e | hm
          · exact hx e.symm
          · exact ih (by rw [hs]; simp) hm
        · exact ih (by rw [hs]; simp [hp])

theorem splitC_head_cons {d x : Char} (xs : Str) (hx : x ≠ d) :
    ∃ h t, splitC d (x :: xs) = (x :: h) :: t := by
  unfold splitC
  simp only [hx, if_false]
  cases splitC d xs with
  | nil => exact ⟨[], [], rfl⟩
  | cons h t => exact ⟨h, t, rfl⟩

theorem mem_of_mem_trimSpace {s : Str} {c : Char} (h : c ∈ trimSpace s) : c ∈ s := by
  unfold trimSpace trimRight trimLeft at h
  have h1 := List.mem_reverse.mp h
  have h2 := (List.dropWhile_sublist _).subset h1
  have h3 := List.mem_reverse.mp h2
  exact (List.dropWhile_sublist _).subset h3

theorem mem_takeWhile_pred {p : Char → Bool} : ∀ {l : Str} {c : Char}, c ∈ l.takeWhile p → p c = true := by
  intro l
  induction l with
  | nil => intro c h; simp at h
  | cons a l ih =>
    intro c h
    by_cases ha : p a = true
    · simp only [List.takeWhile_cons, ha, if_true, List.mem_cons] at h
      rcases h with e | h
      · rw [e]; exact ha
      · exact ih h
    · simp [ha] at h

theorem takeWhile_drop_split (p : Char → Bool) : ∀ (l : Str) (x : Char) (after : Str),
    l.drop (l.takeWhile p).length = x :: after → l = l.takeWhile p ++ x :: after ∧ p x = false := by
  intro l
  induction l with
  | nil => intro x after h; simp at h
  | cons a l ih =>
    intro x after h
    by_cases ha : p a = true
    · simp only [List.takeWhile_cons, ha, if_true, List.length_cons, List.drop_succ_cons] at h
      obtain ⟨e, hx⟩ := ih x after h
      refine ⟨?_, hx⟩
      simp only [List.takeWhile_cons, ha, if_true, List.cons_append]
      rw [← e]
    · simp only [List.takeWhile_cons, ha, Bool.false_eq_true, if_false, List.length_nil, List.drop_zero,
        List.cons.injEq] at h
      obtain ⟨rfl, rfl⟩ := h
      refine ⟨by simp [ha], by simpa using ha⟩

theorem dropPrefix_some : ∀ {p s r : Str}, dropPrefix? p s = some r → s = p ++ r := by
  intro p
  induction p with
  | nil => intro s r h; simp only [dropPrefix?, Option.some.injEq] at h; simp [h]
  | cons a p ih =>
    intro s r h
    cases s with
    | nil => simp [dropPrefix?] at h
    | cons x xs =>
      unfold dropPrefix? at h
      by_cases e : a = x
      · simp only [e, if_true] at h
        rw [ih h, e]; rfl
      · simp [e] at h

theorem hasPrefix_split {p s : Str} (h : hasPrefix p s = true) : s = p ++ s.drop p.length := by
  unfold hasPrefix at h
  cases hd : dropPrefix? p s with
  | none => simp [hd] at h
  | some r =>
    have e := dropPrefix_some hd
    rw [e]; simp

/-! #### the scan -/

/-- a character allowed between `<` and `>` -/
def inTagOK (c : Char) : Prop := c ≠ '=' ∧ c ≠ '\x0c' ∧ c ≠ '|' ∧ c ≠ '\n' ∧ c ≠ '\r'

theorem scanOK_true_split : ∀ (body after : Str), '>' ∉ body → scanOK true (body ++ '>' :: after) = true →
    (∀ c ∈ body, inTagOK c) ∧ scanOK false after = true := by
  intro body
  induction body with
  | nil => intro after _ h; simpa [scanOK] using h
  | cons b body ih =>
    intro after hb h
    have hb1 : b ≠ '>' := fun e => hb (by simp [e])
    have hb2 : '>' ∉ body := fun hm => hb (by simp [hm])
    simp only [List.cons_append, scanOK, hb1, if_false, Bool.and_eq_true, Bool.not_eq_true', Bool.or_eq_false_iff,
      decide_eq_false_iff_not] at h
    obtain ⟨⟨⟨⟨⟨h1, h2⟩, h3⟩, h4⟩, h5⟩, h6⟩ := h
    obtain ⟨i1, i2⟩ := ih after hb2 h6
    refine ⟨?_, i2⟩
    intro c hc
    rcases List.mem_cons.mp hc with e | hc
    · subst e; exact ⟨h1, h2, h3, h4, h5⟩
    · exact i1 c hc

theorem scanOK_lt {rest : Str} (h : scanOK false ('<' :: rest) = true) : scanOK true rest = true := by
  simp only [scanOK, if_true, Bool.and_eq_true] at h
  exact h.2

theorem scanOK_other {c : Char} {rest : Str} (hc : c ≠ '<') (h : scanOK false (c :: rest) = true) :
    scanOK false rest = true := by
  simpa only [scanOK, hc, if_false] using h

theorem scanOK_skip : ∀ (a b : Str), '<' ∉ a → scanOK false (a ++ b) = true → scanOK false b = true := by
  intro a
  induction a with
  | nil => intro b _ h; exact h
  | cons x a ih =>
    intro b ha h
    exact ih b (fun hm => ha (by simp [hm])) (scanOK_other (fun e => ha (by simp [e])) h)

theorem scanOK_prefix {p rest : Str} (hp : '<' ∉ p) (hpre : hasPrefix p rest = true)
    (h : scanOK false rest = true) : scanOK false (rest.drop p.length) = true := by
  have e := hasPrefix_split hpre
  rw [e] at h
  exact scanOK_skip _ _ hp h

/-! #### the states -/

/-- every tag of the state (open or on a run) is `tagOK` -/
def StOK (st : TextSt) : Prop :=
  (∀ t ∈ st.stack, tagOK t = true) ∧ (∀ r ∈ st.runs, ∀ t ∈ r.tags, tagOK t = true)

theorem StOK_congr {st st1 : TextSt} (hs : st1.stack = st.stack) (hr : st1.runs = st.runs) (h : StOK st) : StOK st1 := by
  unfold StOK; rw [hs, hr]; exact h

theorem flushText_stack (st : TextSt) : (flushText st).stack = st.stack := by
  unfold flushText
  split
  · rfl
  · simp only
    split
    · split <;> rfl
    · rfl

theorem flushText_StOK {st : TextSt} (h : StOK st) : StOK (flushText st) := by
  refine ⟨by rw [flushText_stack]; exact h.1, ?_⟩
  have hadd : ∀ (text : Str) (ts : Option Nat), ∀ r ∈ st.runs ++ [{ text := text, tags := st.stack, ts := ts }],
      ∀ t ∈ r.tags, tagOK t = true := by
    intro text ts r hr
    rcases List.mem_append.mp hr with hr | hr
    · exact h.2 r hr
    · simp only [List.mem_singleton] at hr; subst hr; exact h.1
  unfold flushText
  split
  · exact h.2
  · simp only
    split
    · split
      · exact h.2
      · exact hadd _ _
    · exact hadd _ _

theorem dropLast_ok {stack : List GTag} (h : ∀ t ∈ stack, tagOK t = true) : ∀ t ∈ stack.dropLast, tagOK t = true :=
  fun t ht => h t ((List.dropLast_sublist _).subset ht)

/-! #### the pushed tag -/

theorem isAlpha_facts {c : Char} (h : isAlpha c = true) : isBlank c = false ∧ c ≠ '.' := by
  refine ⟨?_, ?_⟩
  · cases hb : isBlank c with
    | false => rfl
    | true =>
      simp only [isBlank, Bool.or_eq_true, decide_eq_true_eq] at hb
      rcases hb with e | e <;> (subst e; revert h; decide)
  · intro e; subst e; revert h; decide

theorem pushed_tagOK (c : Char) (tl : Str) (name : Str) (classes : List Str)
    (hb : ∀ x ∈ c :: tl, inTagOK x) (ha : isAlpha c = true)
    (hs : splitC '.' ((c :: tl).takeWhile (fun ch => !isBlank ch)) = name :: classes) :
    tagOK { name := name, classes := classes,
            annotation := trimSpace ((c :: tl).drop ((c :: tl).takeWhile (fun ch => !isBlank ch)).length) } = true := by
  obtain ⟨hc1, hc2⟩ := isAlpha_facts ha
  -- characters of the head
  have hhead : ∀ x ∈ (c :: tl).takeWhile (fun ch => !isBlank ch), x ≠ ' ' ∧ x ≠ '|' := by
    intro x hx
    have h1 := mem_takeWhile_pred hx
    have h2 := (List.takeWhile_sublist _).subset hx
    refine ⟨?_, (hb x h2).2.2.1⟩
    intro e; subst e; revert h1; decide
  have hpiece : ∀ p ∈ name :: classes, ∀ x ∈ p, x ≠ ' ' ∧ x ≠ '.' ∧ x ≠ '|' := by
    intro p hp x hx
    rw [← hs] at hp
    have hm := hhead x (mem_of_mem_splitC hp hx)
    refine ⟨hm.1, ?_, hm.2⟩
    intro e; subst e; exact sep_not_mem_splitC hp hx
  have hne : name ≠ [] := by
    have : (c :: tl).takeWhile (fun ch => !isBlank ch) = c :: tl.takeWhile (fun ch => !isBlank ch) := by
      simp [hc1]
    rw [this] at hs
    obtain ⟨h, t, e⟩ := splitC_head_cons (tl.takeWhile (fun ch => !isBlank ch)) hc2
    rw [e] at hs
    intro hn
    rw [hn] at hs
    simp at hs
  rw [tagOK_iff]
  refine ⟨hne, hpiece name (by simp), fun cl hcl => hpiece cl (by simp [hcl]), ?_⟩
  intro x hx
  exact (hb x (List.mem_of_mem_drop (mem_of_mem_trimSpace hx))).2.2.1

/-! #### one `<…>` -/

/-- what `textLine` does at a `<`: the state it continues with after the `>` either keeps the
    stack, pops it, or pushes a tag cut out of the body -/
theorem textLine_lt_cases (fuel : Nat) (rest : Str) (st st' : TextSt)
    (h : textLine (fuel + 1) ('<' :: rest) st = some st') :
    ∃ (body after : Str) (st1 : TextSt), rest = body ++ '>' :: after ∧ '>' ∉ body ∧
      textLine fuel after st1 = some st' ∧ st1.runs = (flushText st).runs ∧
      (st1.stack = (flushText st).stack ∨ st1.stack = (flushText st).stack.dropLast ∨
        ∃ c tl name classes, body = c :: tl ∧ isAlpha c = true ∧
          splitC '.' (body.takeWhile (fun ch => !isBlank ch)) = name :: classes ∧
          st1.stack = (flushText st).stack ++
            [{ name := name, classes := classes,
               annotation := trimSpace (body.drop (body.takeWhile (fun ch => !isBlank ch)).length) }]) := by
  rw [textLine] at h
  generalize hbody : rest.takeWhile (fun x => x != '>') = body at h
  have hgt : '>' ∉ body := by
    intro hm; rw [← hbody] at hm
    have := mem_takeWhile_pred hm
    simp at this
  split at h
  · exact absurd h (by simp)
  · rename_i x after hdrop
    rw [← hbody] at hdrop
    obtain ⟨hrest, hx⟩ := takeWhile_drop_split _ rest x after hdrop
    have hx' : x = '>' := by simpa using hx
    subst hx'
    rw [hbody] at hrest
    split at h
    · exact absurd h (by simp)
    · simp only at h
      split at h
      · -- closing tag
        split at h
        · split at h
          · exact ⟨_, after, _, hrest, hgt, h, rfl, Or.inl rfl⟩
          · exact absurd h (by simp)
        · split at h
          · split at h
            · exact ⟨_, after, _, hrest, hgt, h, rfl, Or.inr (Or.inl rfl)⟩
            · exact absurd h (by simp)
          · exact absurd h (by simp)
      · rename_i c tl _ _
        split at h
        · split at h
          · exact ⟨_, after, _, hrest, hgt, h, rfl, Or.inl rfl⟩
          · exact absurd h (by simp)
        · split at h
          · rename_i halpha
            split at h
            · exact absurd h (by simp)
            · split at h
              · rename_i name classes hsplit
                split at h
                · exact absurd h (by simp)
                · split at h
                  · split at h
                    · exact absurd h (by simp)
                    · exact ⟨c :: tl, after, _, hrest, hgt, h, rfl, Or.inl rfl⟩
                  · exact ⟨c :: tl, after, _, hrest, hgt, h, rfl,
                      Or.inr (Or.inr ⟨c, tl, name, classes, rfl, halpha, hsplit, rfl⟩)⟩
              · exact absurd h (by simp)
          · exact absurd h (by simp)
      · exact absurd h (by simp)

/-! #### the induction -/

theorem textLine_StOK : ∀ (fuel : Nat) (l : Str) (st st' : TextSt), scanOK false l = true →
    textLine fuel l st = some st' → StOK st → StOK st' := by
  intro fuel
  induction fuel with
  | zero => intro l st st' _ h; rw [textLine] at h; exact absurd h (by simp)
  | succ fuel ih =>
    intro l st st' hok h hst
    cases l with
    | nil =>
      rw [textLine] at h
      simp only [Option.some.injEq] at h
      subst h
      exact flushText_StOK hst
    | cons c rest =>
      by_cases hc : c = '<'
      · subst hc
        obtain ⟨body, after, st1, hrest, hgt, hcont, hruns, hstack⟩ := textLine_lt_cases fuel rest st st' h
        have hscan := scanOK_lt hok
        rw [hrest] at hscan
        obtain ⟨hbody, hafter⟩ := scanOK_true_split body after hgt hscan
        have hf := flushText_StOK hst
        refine ih after st1 st' hafter hcont ⟨?_, by rw [hruns]; exact hf.2⟩
        rcases hstack with e | e | ⟨c, tl, name, classes, eb, halpha, hsplit, e⟩
        · rw [e]; exact hf.1
        · rw [e]; exact dropLast_ok hf.1
        · rw [e]
          intro t ht
          rcases List.mem_append.mp ht with ht | ht
          · exact hf.1 t ht
          · simp only [List.mem_singleton] at ht
            subst ht
            subst eb
            exact pushed_tagOK c tl name classes hbody halpha hsplit
      · have hrestok := scanOK_other hc hok
        by_cases hamp : c = '&'
        · subst hamp
          rw [textLine] at h
          split at h
          · rename_i hp
            exact ih _ _ st' (scanOK_prefix (by decide) hp hrestok) h (StOK_congr rfl rfl hst)
          · split at h
            · rename_i hp
              exact ih _ _ st' (scanOK_prefix (by decide) hp hrestok) h (StOK_congr rfl rfl hst)
            · split at h
              · rename_i hp
                exact ih _ _ st' (scanOK_prefix (by decide) hp hrestok) h (StOK_congr rfl rfl hst)
              · split at h
                · exact absurd h (by simp)
                · exact ih _ _ st' hrestok h (StOK_congr rfl rfl hst)
        · rw [textLine] at h
          · exact ih _ _ st' hrestok h (StOK_congr rfl rfl hst)
          · exact hc
          · exact hamp

theorem textLine_tagOK : ∀ (fuel : Nat) (l : Str) (st st' : TextSt), scanOK false l = true →
    textLine fuel l st = some st' → (∀ t ∈ st.stack, tagOK t = true) → (∀ r ∈ st.runs, ∀ t ∈ r.tags, tagOK t = true) →
    (∀ t ∈ st'.stack, tagOK t = true) ∧ (∀ r ∈ st'.runs, ∀ t ∈ r.tags, tagOK t = true) :=
  fun fuel l st st' hok h hs hr => textLine_StOK fuel l st st' hok h ⟨hs, hr⟩

theorem textLine_line_tagOK (l : Str) (stack : List GTag) (st : TextSt) (hok : lineOK l = true)
    (h : textLine (l.length + 2) l { stack := stack } = some st) (hs : ∀ t ∈ stack, tagOK t = true) :
    (∀ t ∈ st.stack, tagOK t = true) ∧ (∀ r ∈ st.runs, ∀ t ∈ r.tags, tagOK t = true) :=
  textLine_tagOK _ l _ st hok h hs (by intro r hr; simp at hr)

end VTTRead
end Astisub
