import Astisub.Lemmas.VTT3Defs

/-!
# Lemmas/VTT3Ts — an inline timestamp the decoder accepts (`Spec.VTT.inlineTs`) is one match of the
library's inline-timestamp expression (`Go.tsAt`), is within the modelled number range
(`VTT.smallNumbers`) and is parsed by `Duration.parseVTT` to the same instant
-/

namespace Astisub
namespace VTTRead
open Go Spec.VTT List

/-- the shape `mm:ss.ttt` -/
def tail9 (a b c d e f g : Char) : Str := [a, b, ':', c, d, '.', e, f, g]

structure Dig7 (a b c d e f g : Char) : Prop where
  a : isDigit a = true
  b : isDigit b = true
  c : isDigit c = true
  d : isDigit d = true
  e : isDigit e = true
  f : isDigit f = true
  g : isDigit g = true

theorem len2 {p : Str} (h : p.length = 2) : ∃ a b, p = [a, b] := by
  match p, h with
  | [a, b], _ => exact ⟨a, b, rfl⟩

theorem len3 {p : Str} (h : p.length = 3) : ∃ a b c, p = [a, b, c] := by
  match p, h with
  | [a, b, c], _ => exact ⟨a, b, c, rfl⟩

theorem shape_inv {p : Str} {n : Nat} (h : (decide (p.length = n) && p.all isDigit) = true) :
    p.length = n ∧ ∀ c ∈ p, isDigit c = true := by
  simp only [Bool.and_eq_true, decide_eq_true_eq, List.all_eq_true] at h
  exact h

theorem join2 (c : Char) (x y : Str) : join [c] [x, y] = x ++ c :: y := by
  simp [join]

theorem join3 (c : Char) (x y z : Str) : join [c] [x, y, z] = x ++ c :: (y ++ c :: z) := by
  simp [join]

/-- **the shape of an accepted inline timestamp** -/
theorem inlineTs_shape {body : Str} {t : Nat} (h : inlineTs body = some t) :
    timeMs body = some t ∧
    ∃ (a b c d e f g : Char), Dig7 a b c d e f g ∧
      (body = tail9 a b c d e f g ∨
       ∃ hh : Str, 2 ≤ hh.length ∧ hh.length ≤ 6 ∧ (∀ x ∈ hh, isDigit x = true) ∧
         body = hh ++ ':' :: tail9 a b c d e f g) := by
  unfold inlineTs at h
  split at h
  · rename_i hms fr hsp
    have hbody : body = hms ++ '.' :: fr := by
      have := join_splitC '.' body
      rw [hsp, join2] at this
      exact this.symm
    simp only at h
    by_cases hfr : (decide (fr.length = 3) && fr.all isDigit) = true
    · simp only [hfr, Bool.not_true, Bool.false_eq_true, if_false] at h
      obtain ⟨hl3, hd3⟩ := shape_inv hfr
      obtain ⟨e, f, g, rfl⟩ := len3 hl3
      split at h
      · rename_i hh m sec hsp2
        have hhms : hms = hh ++ ':' :: (m ++ ':' :: sec) := by
          have := join_splitC ':' hms
          rw [hsp2, join3] at this
          exact this.symm
        split at h
        · rename_i hc
          simp only [Bool.and_eq_true, decide_eq_true_eq, List.all_eq_true, ge_iff_le] at hc
          obtain ⟨⟨⟨⟨h1, h2⟩, h3⟩, ⟨h4, h5⟩⟩, ⟨h6, h7⟩⟩ := hc
          obtain ⟨a, b, rfl⟩ := len2 h4
          obtain ⟨c, d, rfl⟩ := len2 h6
          refine ⟨h, a, b, c, d, e, f, g, ⟨h5 a (by simp), h5 b (by simp), h7 c (by simp), h7 d (by simp),
            hd3 e (by simp), hd3 f (by simp), hd3 g (by simp)⟩, Or.inr ⟨hh, h1, h3, h2, ?_⟩⟩
          rw [hbody, hhms]
          simp [tail9]
        · cases h
      · rename_i m sec hsp2
        have hhms : hms = m ++ ':' :: sec := by
          have := join_splitC ':' hms
          rw [hsp2, join2] at this
          exact this.symm
        split at h
        · rename_i hc
          simp only [Bool.and_eq_true, decide_eq_true_eq, List.all_eq_true] at hc
          obtain ⟨⟨h4, h5⟩, ⟨h6, h7⟩⟩ := hc
          obtain ⟨a, b, rfl⟩ := len2 h4
          obtain ⟨c, d, rfl⟩ := len2 h6
          refine ⟨h, a, b, c, d, e, f, g, ⟨h5 a (by simp), h5 b (by simp), h7 c (by simp), h7 d (by simp),
            hd3 e (by simp), hd3 f (by simp), hd3 g (by simp)⟩, Or.inl ?_⟩
          rw [hbody, hhms]
          simp [tail9]
        · cases h
      · cases h
    · simp only [hfr, Bool.not_false, if_true] at h
      cases h
  · cases h

/-! ### the library's expression -/

theorem isDig_of {c : Char} (h : isDigit c = true) : isDig c = true := h

theorem colon_not_dig : isDig ':' = false := by decide
theorem dot_not_dig : isDig '.' = false := by decide

theorem msTail_tail9 {a b c d e f g : Char} (D : Dig7 a b c d e f g) (rest : Str) :
    msTail (tail9 a b c d e f g ++ '>' :: rest) = some (tail9 a b c d e f g, rest) := by
  simp [msTail, tail9, isDig_of D.a, isDig_of D.b, isDig_of D.c, isDig_of D.d, isDig_of D.e, isDig_of D.f, isDig_of D.g]

theorem msTail_short (c d e f g : Char) (rest : Str) :
    msTail (c :: d :: '.' :: e :: f :: g :: '>' :: rest) = none := by
  unfold msTail
  split
  · rename_i heq
    simp only [List.cons.injEq] at heq
    have h3 : '.' = ':' := heq.2.2.1
    exact absurd h3 (by decide)
  · rfl

theorem tsAt_tail9 {a b c d e f g : Char} (D : Dig7 a b c d e f g) (rest : Str) :
    tsAt (tail9 a b c d e f g ++ '>' :: rest) = some (tail9 a b c d e f g, rest) := by
  have hds : (tail9 a b c d e f g ++ '>' :: rest).takeWhile isDig = [a, b] := by
    simp [tail9, List.takeWhile, isDig_of D.a, isDig_of D.b, colon_not_dig]
  unfold tsAt
  simp only [hds]
  have hdrop : (tail9 a b c d e f g ++ '>' :: rest).drop [a, b].length
      = ':' :: c :: d :: '.' :: e :: f :: g :: '>' :: rest := by
    simp [tail9]
  rw [hdrop]
  simp only [List.length_cons, List.length_nil, ge_iff_le, Nat.le_refl, if_true, msTail_short, Option.map_none]
  exact msTail_tail9 D rest

theorem tsAt_hours {a b c d e f g : Char} (D : Dig7 a b c d e f g) (hh : Str) (h2 : 2 ≤ hh.length)
    (hd : ∀ x ∈ hh, isDigit x = true) (rest : Str) :
    tsAt ((hh ++ ':' :: tail9 a b c d e f g) ++ '>' :: rest) = some (hh ++ ':' :: tail9 a b c d e f g, rest) := by
  have e1 : (hh ++ ':' :: tail9 a b c d e f g) ++ '>' :: rest = hh ++ (':' :: (tail9 a b c d e f g ++ '>' :: rest)) := by
    simp
  have hds : ((hh ++ ':' :: tail9 a b c d e f g) ++ '>' :: rest).takeWhile isDig = hh := by
    rw [e1, VTT.takeWhile_app_all hh _ (fun x hx => isDig_of (hd x hx))]
    simp [List.takeWhile, colon_not_dig]
  unfold tsAt
  simp only [hds]
  rw [e1, VTT.drop_len_app]
  simp only [ge_iff_le, h2, if_true, msTail_tail9 D rest, Option.map_some]

/-- **an accepted inline timestamp is one match of the library's expression** -/
theorem tsAt_inline {body : Str} {t : Nat} (h : inlineTs body = some t) (rest : Str) :
    tsAt (body ++ '>' :: rest) = some (body, rest) := by
  obtain ⟨_, a, b, c, d, e, f, g, D, hb | ⟨hh, h2, _, hd, hb⟩⟩ := inlineTs_shape h
  · rw [hb]; exact tsAt_tail9 D rest
  · rw [hb]; exact tsAt_hours D hh h2 hd rest

/-! ### the number range of the model -/

theorem small_go_nondig (c : Char) (cs : Str) (n : Nat) (h : isDig c = false) :
    VTT.smallNumbers.go (c :: cs) n = VTT.smallNumbers.go cs 0 := by
  simp [VTT.smallNumbers.go, h]

theorem small_go_dig (c : Char) (cs : Str) (n : Nat) (h : isDig c = true) (hn : n < 6) :
    VTT.smallNumbers.go (c :: cs) n = VTT.smallNumbers.go cs (n + 1) := by
  have : ¬ n ≥ 6 := by omega
  simp [VTT.smallNumbers.go, h, this]

theorem small_go_digits (hh : Str) : ∀ (n : Nat) (r : Str), (∀ x ∈ hh, isDig x = true) → n + hh.length ≤ 6 →
    VTT.smallNumbers.go (hh ++ r) n = VTT.smallNumbers.go r (n + hh.length) := by
  induction hh with
  | nil => intro n r _ _; rfl
  | cons x xs ih =>
    intro n r hd hl
    simp only [List.length_cons] at hl
    rw [List.cons_append, small_go_dig x _ n (hd x (by simp)) (by omega),
      ih (n + 1) r (fun y hy => hd y (by simp [hy])) (by omega)]
    simp only [List.length_cons]
    congr 1
    omega

theorem small_tail9 {a b c d e f g : Char} (D : Dig7 a b c d e f g) :
    VTT.smallNumbers.go (tail9 a b c d e f g) 0 = true := by
  unfold tail9
  rw [small_go_dig a _ 0 (isDig_of D.a) (by omega), small_go_dig b _ 1 (isDig_of D.b) (by omega),
    small_go_nondig ':' _ 2 colon_not_dig,
    small_go_dig c _ 0 (isDig_of D.c) (by omega), small_go_dig d _ 1 (isDig_of D.d) (by omega),
    small_go_nondig '.' _ 2 dot_not_dig,
    small_go_dig e _ 0 (isDig_of D.e) (by omega), small_go_dig f _ 1 (isDig_of D.f) (by omega),
    small_go_dig g _ 2 (isDig_of D.g) (by omega)]
  rfl

/-- an accepted inline timestamp has no number of more than six digits -/
theorem small_inline {body : Str} {t : Nat} (h : inlineTs body = some t) : VTT.smallNumbers body = true := by
  obtain ⟨_, a, b, c, d, e, f, g, D, hb | ⟨hh, _, h6, hd, hb⟩⟩ := inlineTs_shape h
  · rw [hb]; exact small_tail9 D
  · rw [hb]
    unfold VTT.smallNumbers
    rw [small_go_digits hh 0 _ (fun x hx => isDig_of (hd x hx)) (by omega), small_go_nondig ':' _ _ colon_not_dig]
    exact small_tail9 D

/-- … and the library parses it to the same instant -/
theorem parse_inline {body : Str} {t : Nat} (h : inlineTs body = some t) :
    Duration.parseVTT body = some ((t : Int) * 1000000) :=
  parseVTT_of_timeMs body t (inlineTs_shape h).1

/-- the first character of an accepted inline timestamp is a digit -/
theorem inline_head {body : Str} {t : Nat} (h : inlineTs body = some t) :
    ∃ c tl, body = c :: tl ∧ isDigit c = true := by
  obtain ⟨_, a, b, c, d, e, f, g, D, hb | ⟨hh, h2, _, hd, hb⟩⟩ := inlineTs_shape h
  · exact ⟨a, _, hb, D.a⟩
  · cases hh with
    | nil => simp at h2
    | cons x xs => exact ⟨x, _, by rw [hb]; rfl, hd x (by simp)⟩

example : inlineTs "00:01.500".toList = some 1500 := by decide
example : inlineTs "123456:00:01.500".toList = some 444441601500 := by decide

end VTTRead
end Astisub
