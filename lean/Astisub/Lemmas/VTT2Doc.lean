import Astisub.Lemmas.VTT2TsMap

/-!
# Lemmas/VTT2Doc — the whole written document through the reader (comments, regions, STYLE block,
timestamp map)
-/

namespace Astisub
namespace VTT
open Go List

/-! ### cues with comments and a region reference -/

/-- the region a cue refers to is written as a plain setting value and is one of the regions of the list -/
def regionRefOk (s : Subs) (o : Option Str) : Bool :=
  match o with
  | none => true
  | some r => settingVal r && s.regions.any (·.id = r)

/-- a cue that is read back exactly: comment block `commentsOk`, region reference defined,
    instants in the writer's range, plain settings, every line `lineFit` -/
def cueOk2 (s : Subs) (it : CItem) : Bool :=
  commentsOk it.comments && regionRefOk s it.region &&
  decide (0 ≤ it.startAt) && decide (it.startAt < 360000000000000) &&
  decide (0 ≤ it.endAt) && decide (it.endAt < 360000000000000) &&
  optOk (cueSetting s it "WebVTTAlign") && optOk (cueSetting s it "WebVTTLine") &&
  optOk (cueSetting s it "WebVTTPosition") && optOk (cueSetting s it "WebVTTSize") &&
  optOk (cueSetting s it "WebVTTVertical") && it.lines.all lineFit

/-- the cue the reader builds from the `k`-th written cue -/
def readCue2 (s : Subs) (k : Nat) (it : CItem) : CItem :=
  { readCue s k it with region := it.region, comments := it.comments }

theorem optOk_of_ref {s : Subs} {o : Option Str} (h : regionRefOk s o = true) : optOk o = true := by
  cases o with
  | none => rfl
  | some r => simp only [regionRefOk, Bool.and_eq_true] at h; exact h.1

/-- **One cue (general).** blank line, comment block, number, timing line, text lines -/
theorem run_cue2 (s : Subs) (k : Nat) (it : CItem) (hok : cueOk2 s it = true) (hk : k + 1 ≤ int64Max)
    (more : List (Option Str)) (st : St) (hb : (C02.blankStep st).block = .none) (hcm : st.comments = [])
    (hreg : ∀ r, it.region = some r → st.regions.any (·.id = r) = true) :
    ∃ st', run st ((([] : Str) :: cueLines2 s k it).map some ++ more) = run st' more ∧
      flush st' = flush st ++ [readCue2 s k it] ∧ st'.block = .text ∧ st'.comments = [] ∧ st'.tags = [] ∧
      st'.regions = st.regions ∧ st'.styleSeen = st.styleSeen ∧ st'.styles = st.styles ∧ st'.tsmap = st.tsmap := by
  simp only [cueOk2, Bool.and_eq_true, decide_eq_true_eq, all_eq_true] at hok
  obtain ⟨⟨⟨⟨⟨⟨⟨⟨⟨⟨⟨hc, hr⟩, hs0⟩, hs1⟩, he0⟩, he1⟩, hal⟩, hln⟩, hpo⟩, hsz⟩, hve⟩, hlines⟩ := hok
  -- the state after the blank line and the comment block
  let st1 : St := { C02.blankStep st with comments := it.comments, tags := [] }
  have h1 : run st ((([] : Str) :: cueLines2 s k it).map some ++ more)
      = run st1 ((cueCore s k it).map some ++ more) := by
    simp only [cueLines2, map_cons, map_append, cons_append, append_assoc, run, C02.step_blank]
    rw [run_commentLines it.comments hc _ _ hb]
    congr 1
    simp [st1, C02.blankStep, hcm]
  have hb1 : st1.block = .none := hb
  have h2 := step_number st1 k hb1 hk
  obtain ⟨st3, h3, p1, p2, p3, p4, p5, p6, p7, p8, p9, p10⟩ : ∃ st3 : St,
      step { st1 with index := (k : Int) + 1 } (some (cueTiming s it)) = .ok st3 ∧
      st3.block = .text ∧ st3.tags = [] ∧ st3.done = flush st ∧ st3.curListed = true ∧
      st3.cur = { readCue2 s k it with lines := [] } ∧ st3.comments = [] ∧
      st3.regions = st.regions ∧ st3.styleSeen = st.styleSeen ∧ st3.styles = st.styles ∧ st3.tsmap = st.tsmap := by
    refine ⟨_, step_timing { st1 with index := (k : Int) + 1 } it.startAt it.endAt hs0 hs1 he0 he1
      (cueSetting s it "WebVTTAlign") (cueSetting s it "WebVTTLine") (cueSetting s it "WebVTTPosition") it.region
      (cueSetting s it "WebVTTSize") (cueSetting s it "WebVTTVertical") hal hln hpo (optOk_of_ref hr) hsz hve
      (by intro r h; simpa [st1, C02.blankStep] using hreg r h), rfl, ?_, ?_, rfl, ?_, rfl, ?_, ?_, ?_, ?_⟩
    · simp [st1]
    · simp [st1, C02.blankStep, flush]
    · simp [st1, readCue2, readCue]
    · simp [st1, C02.blankStep]
    · simp [st1, C02.blankStep]
    · simp [st1, C02.blankStep]
    · simp [st1, C02.blankStep]
  refine ⟨{ st3 with cur := { st3.cur with lines := st3.cur.lines ++ it.lines.map readLine } }, ?_, ?_⟩
  · rw [h1]
    simp only [cueCore, map_cons, cons_append, map_map, run, h2, h3, nil_append]
    exact run_textLines it.lines hlines more st3 p1 p2
  · refine ⟨?_, by simp [p1], by simp [p6], by simp [p2], by simp [p7], by simp [p8], by simp [p9], by simp [p10]⟩
    simp [flush, p3, p4, p5, readCue2, readCue]

theorem blank_after_text (st : St) (h : st.block = .text) : (C02.blankStep st).block = .none :=
  C02.blank_ends_block st (Or.inl (by rw [h]; decide))

theorem run_cues2 (s : Subs) (items : List CItem) :
    ∀ (k : Nat) (st : St), (∀ it ∈ items, cueOk2 s it = true) → k + items.length ≤ int64Max →
      (C02.blankStep st).block = .none → st.comments = [] → st.tags = [] →
      (∀ it ∈ items, ∀ r, it.region = some r → st.regions.any (·.id = r) = true) →
      ∃ st', run st ((cuesLines2 s k items).map some) = .ok st' ∧
        flush st' = flush st ++ (items.zipIdx k).map (fun x => readCue2 s x.2 x.1) ∧ st'.tags = [] ∧
        st'.regions = st.regions ∧ st'.styleSeen = st.styleSeen ∧ st'.styles = st.styles ∧ st'.tsmap = st.tsmap := by
  induction items with
  | nil => intro k st _ _ _ _ ht _; exact ⟨st, by simp [cuesLines2, run], by simp, ht, rfl, rfl, rfl, rfl⟩
  | cons it rest ih =>
    intro k st hok hk hb hcm _ hreg
    simp only [length_cons] at hk
    obtain ⟨st1, hrun, hfl, hb1, hcm1, htg1, hr1, hs1, hy1, ht1⟩ :=
      run_cue2 s k it (hok it (by simp)) (by omega) ((cuesLines2 s (k + 1) rest).map some) st hb hcm
        (hreg it (by simp))
    obtain ⟨st2, hrun2, hfl2, htg2, hr2, hs2, hy2, ht2⟩ :=
      ih (k + 1) st1 (fun x hx => hok x (by simp [hx])) (by omega) (blank_after_text st1 hb1) hcm1 htg1
        (fun x hx r h => by rw [hr1]; exact hreg x (by simp [hx]) r h)
    refine ⟨st2, ?_, ?_, htg2, hr2.trans hr1, hs2.trans hs1, hy2.trans hy1, ht2.trans ht1⟩
    · rw [cuesLines2, map_append, hrun, hrun2]
    · rw [hfl2, hfl]; simp [zipIdx_cons]

end VTT
end Astisub
