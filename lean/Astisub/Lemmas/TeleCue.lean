import Astisub.Lemmas.TeleStream
import Astisub.Lemmas.TeleView

/-!
# Lemmas/TeleCue — from pages to cues: `teletextPage.parse` on the page of a specification instance

`parsePage_pageOf`: on the page the model holds for an instance of the specification (row numbers distinct), the page
parser emits one cue: the instance's times relative to the time origin, and one line per row, rows in the
specification's order (`insertSorted`), each parsed by `parseRow` in the character set of the instance's code.
`finish_cues`: the whole output of `finish` as a function of the specification's instances.
-/

namespace Astisub
namespace Teletext
open Go Generated.Teletext
open Spec.Teletext (Packet Inst St insertSorted)

abbrev SRow := Nat × List (Option Nat)

/-! ## row order -/

/-- the rows of an instance in the specification's order -/
def sortedRows (rows : List SRow) : List SRow := rows.foldr insertSorted []

theorem insertSorted_perm (x : SRow) : ∀ (l : List SRow), (insertSorted x l).Perm (x :: l)
  | [] => List.Perm.refl _
  | y :: ys => by
    unfold Spec.Teletext.insertSorted
    split
    · exact List.Perm.refl _
    · exact ((insertSorted_perm x ys).cons y).trans (List.Perm.swap x y ys)

theorem sortedRows_perm : ∀ (rows : List SRow), (sortedRows rows).Perm rows
  | [] => List.Perm.refl _
  | x :: rows => by
    show (insertSorted x (sortedRows rows)).Perm (x :: rows)
    exact (insertSorted_perm x _).trans ((sortedRows_perm rows).cons x)

theorem insertSorted_sorted (x : SRow) : ∀ (l : List SRow), l.Pairwise (fun a b => a.1 ≤ b.1) →
    (insertSorted x l).Pairwise (fun a b => a.1 ≤ b.1)
  | [], _ => by simp [Spec.Teletext.insertSorted]
  | y :: ys, h => by
    unfold Spec.Teletext.insertSorted
    split
    · rename_i hxy
      refine List.Pairwise.cons ?_ h
      intro z hz
      rcases List.mem_cons.mp hz with e | e
      · subst e; exact hxy
      · exact Nat.le_trans hxy (List.rel_of_pairwise_cons h e)
    · rename_i hxy
      refine List.Pairwise.cons ?_ (insertSorted_sorted x ys h.tail)
      intro z hz
      have := (insertSorted_perm x ys).subset hz
      rcases List.mem_cons.mp this with e | e
      · subst e; omega
      · exact List.rel_of_pairwise_cons h e

theorem sortedRows_sorted : ∀ (rows : List SRow), (sortedRows rows).Pairwise (fun a b => a.1 ≤ b.1)
  | [] => List.Pairwise.nil
  | x :: rows => insertSorted_sorted x _ (sortedRows_sorted rows)

/-- Go's sort of the row numbers and the specification's insertion sort give the same order -/
theorem mergeSort_rows (rows : List SRow) :
    (rows.map (·.1)).mergeSort (fun a b => decide (a ≤ b)) = (sortedRows rows).map (·.1) := by
  apply List.Perm.eq_of_pairwise (le := fun a b => a ≤ b)
  · intro a b _ _ h1 h2; exact Nat.le_antisymm h1 h2
  · have := List.pairwise_mergeSort (le := fun (a b : Nat) => decide (a ≤ b))
      (fun a b c h1 h2 => by simp at *; omega) (fun a b => by simp; omega) (rows.map (·.1))
    exact this.imp (fun h => by simpa using h)
  · exact (sortedRows_sorted rows).map _ (fun a b h => h)
  · exact (List.mergeSort_perm _ _).trans ((sortedRows_perm rows).map _).symm

/-! ## the stored rows -/

/-- the row numbers of an instance are distinct -/
def RowsNodup (rows : List SRow) : Prop := (rows.map (·.1)).Nodup

instance (rows : List SRow) : Decidable (RowsNodup rows) := by unfold RowsNodup; infer_instance

theorem getData_pageOf : ∀ (rows : List SRow), RowsNodup rows → ∀ r ∈ rows,
    getData (rows.map fun r => (r.1, r.2.map storedCell)) r.1 = r.2.map storedCell
  | [], _, r, hr => by cases hr
  | x :: rows, hn, r, hr => by
    unfold RowsNodup at hn
    simp only [List.map_cons, List.nodup_cons] at hn
    rcases List.mem_cons.mp hr with e | e
    · subst e
      simp [getData]
    · have hne : x.1 ≠ r.1 := by
        intro he
        exact hn.1 (he ▸ List.mem_map_of_mem e)
      have ih := getData_pageOf rows hn.2 r e
      unfold getData at *
      simp only [List.map_cons, List.find?_cons]
      have : ((x.1, x.2.map storedCell).1 == r.1) = false := by simp [hne]
      rw [this]; exact ih

/-! ## the character decoder across pages -/

/-- the table the decoder holds is the one of its last code -/
def DecOK (triplet : Nat) (d : Dec) : Prop := ∀ code, d.last = some code → d.c = computeCharset triplet code

theorem updateCharset_c (triplet : Nat) (d : Dec) (code : Nat) (h : DecOK triplet d) :
    (updateCharset triplet d code).c = computeCharset triplet code ∧ DecOK triplet (updateCharset triplet d code) := by
  unfold updateCharset
  split
  · rename_i hl
    have hl' : d.last = some code := by simpa using hl
    exact ⟨h code hl', h⟩
  · refine ⟨rfl, ?_⟩
    intro c hc
    simp at hc; subst hc; rfl

theorem filterMap_congr_mem {α β} (f g : α → Option β) : ∀ (l : List α), (∀ x ∈ l, f x = g x) →
    l.filterMap f = l.filterMap g
  | [], _ => rfl
  | x :: l, h => by
    simp only [List.filterMap_cons, h x (by simp), filterMap_congr_mem f g l (fun y hy => h y (by simp [hy]))]

/-! ## one page -/

/-- the cue the model emits for an instance of the specification that ends at `e` -/
def modelCue (triplet : Nat) (first : Int) (ie : Inst × Int) : CItem :=
  { startAt := ie.1.startNs - first, endAt := ie.2 - first,
    lines := (sortedRows ie.1.rows).filterMap fun r => parseRow (computeCharset triplet ie.1.code) (r.2.map storedCell) }

theorem parsePage_pageOf (triplet : Nat) (first : Int) (d : Dec) (items : List CItem) (i : Inst) (e : Int)
    (hd : DecOK triplet d) (hn : RowsNodup i.rows) :
    ∃ d', DecOK triplet d' ∧
      parsePage triplet first (d, items) (pageOf i e) =
        (d', if i.rows.isEmpty then items else items ++ [modelCue triplet first (i, e)]) := by
  obtain ⟨hc, hd'⟩ := updateCharset_c triplet d i.code hd
  refine ⟨updateCharset triplet d i.code, hd', ?_⟩
  unfold parsePage
  simp only [pageOf]
  have he : (List.map (fun r : SRow => (r.1, r.2.map storedCell)) i.rows).isEmpty = i.rows.isEmpty := by
    cases i.rows <;> rfl
  simp only [he]
  by_cases hr : i.rows.isEmpty = true
  · simp [hr]
  · simp only [hr, if_false]
    rw [mergeSort_rows, hc]
    simp only [modelCue, List.filterMap_map]
    rw [filterMap_congr_mem _ (fun r : SRow => parseRow (computeCharset triplet i.code) (r.2.map storedCell)) (sortedRows i.rows)]
    · simp
    · intro r hrm
      simp only [Function.comp]
      rw [getData_pageOf i.rows hn r ((sortedRows_perm i.rows).subset hrm)]

theorem foldl_parsePage (triplet : Nat) (first : Int) : ∀ (insts : List (Inst × Int)) (d : Dec) (items : List CItem),
    DecOK triplet d → (∀ ie ∈ insts, RowsNodup ie.1.rows) →
    ((insts.map fun ie => pageOf ie.1 ie.2).foldl (parsePage triplet first) (d, items)).2 =
      items ++ (insts.filter fun ie => !ie.1.rows.isEmpty).map (modelCue triplet first)
  | [], _, _, _, _ => by simp
  | ie :: insts, d, items, hd, hn => by
    obtain ⟨d', hd', hp⟩ := parsePage_pageOf triplet first d items ie.1 ie.2 hd (hn ie (by simp))
    simp only [List.map_cons, List.foldl_cons, hp]
    rw [foldl_parsePage triplet first insts d' _ hd' (fun x hx => hn x (by simp [hx]))]
    cases h : ie.1.rows.isEmpty <;> simp [List.filter_cons, h]

/-! ## the rows of the specification's instances: distinct numbers, 7-bit cells -/

/-- the rows of an instance: distinct row numbers, cells are 7-bit values -/
def RowsOK (rows : List SRow) : Prop := RowsNodup rows ∧ ∀ r ∈ rows, CellsOK r.2

instance (rows : List SRow) : Decidable (RowsOK rows) := by unfold RowsOK; infer_instance

/-- the cells of a row packet are 7-bit values (what `decodePacket` guarantees) -/
def PacketCells : Packet → Prop
  | .row _ _ cells => CellsOK cells
  | _ => True

instance (p : Packet) : Decidable (PacketCells p) := by
  cases p <;> unfold PacketCells <;> infer_instance

theorem parityDecode_lt (b v : Nat) (h : Spec.Teletext.parityDecode b = some v) : v < 128 := by
  unfold Spec.Teletext.parityDecode at h
  simp only at h
  split at h
  · simp at h; omega
  · cases h

theorem decodePacket_cells (f : List Nat) (p : Packet) (h : Spec.Teletext.decodePacket f = some p) : PacketCells p := by
  unfold Spec.Teletext.decodePacket at h
  split at h
  · cases h
  · split at h
    · cases h; trivial
    · split at h
      · simp only at h
        split at h
        · split at h
          · cases h; trivial
          · cases h
        · split at h
          · cases h
            intro x hx v hv
            obtain ⟨b, _, hb⟩ := List.mem_map.mp hx
            rw [hv] at hb
            exact parityDecode_lt b v hb
          · split at h
            · split at h
              · cases h; trivial
              · cases h
            · cases h; trivial
      · cases h

theorem pesPackets_cells (payload : List Nat) (ps : List Packet) (h : Spec.Teletext.pesPackets payload = some ps) :
    ∀ p ∈ ps, PacketCells p := by
  cases payload with
  | nil => simp [Spec.Teletext.pesPackets] at h
  | cons ident rest =>
    simp only [Spec.Teletext.pesPackets] at h
    split at h
    · cases h; intro p hp; cases hp
    · split at h
      · cases h
      · rename_i us _
        generalize (us.filter fun u => u.1 == 0x03) = l at h
        induction l generalizing ps with
        | nil => simp [mapM_nil] at h; subst h; intro p hp; cases hp
        | cons u l ih =>
          obtain ⟨p, ps', hp, hps, e⟩ := mapM_cons _ _ _ _ h
          subst e
          intro q hq
          rcases List.mem_cons.mp hq with e | e
          · subst e; exact decodePacket_cells _ _ hp
          · exact ih ps' hps q e

def InstsOK (s : St) : Prop :=
  (∀ ie ∈ s.done, RowsOK ie.1.rows) ∧ (∀ i, s.cur = some i → RowsOK i.rows)

theorem specSelect_insts (s : St) (mag tens units : Nat) (subtitle : Bool) (h : InstsOK s) :
    InstsOK (specSelect s mag tens units subtitle) := by
  unfold specSelect
  split
  · split
    · exact h
    · exact h
  · exact h

theorem specCore_insts (t : Int) (s : St) (mag tens units : Nat) (serial : Bool) (code : Nat) (h : InstsOK s) :
    InstsOK (specCore t s mag tens units serial code) := by
  unfold specCore
  split
  · exact h
  · split
    · refine ⟨?_, ?_⟩
      · intro ie hie
        simp only at hie
        cases hc : s.cur with
        | none => rw [hc] at hie; exact h.1 ie hie
        | some i =>
          rw [hc] at hie
          rcases List.mem_append.mp hie with e | e
          · exact h.1 ie e
          · simp at e; subst e; exact h.2 i hc
      · intro i hi
        simp at hi; subst hi
        exact ⟨List.nodup_nil, fun r hr => by cases hr⟩
    · split
      · exact h
      · exact h

theorem step_insts (t : Int) (s : St) (p : Packet) (h : InstsOK s) (hp : PacketCells p) :
    InstsOK (Spec.Teletext.step t s p) := by
  cases p with
  | header mag tens units subtitle serial code =>
    rw [step_header]
    split
    · exact h
    · exact specCore_insts t _ mag tens units serial code (specSelect_insts s mag tens units subtitle h)
  | row mag y cells =>
    simp only [Spec.Teletext.step]
    split
    · rename_i m _ _ i hsel hcur
      split
      · split
        · exact h
        · rename_i hdup
          refine ⟨h.1, ?_⟩
          intro j hj
          simp at hj; subst hj
          obtain ⟨hn, hcells⟩ := h.2 i hcur
          refine ⟨?_, ?_⟩
          · unfold RowsNodup at *
            simp only [List.map_append, List.map_cons, List.map_nil]
            rw [List.nodup_append]
            refine ⟨hn, by simp, ?_⟩
            intro a ha b hb
            simp at hb; subst hb
            intro hab; subst hab
            apply hdup
            obtain ⟨r, hr, e⟩ := List.mem_map.mp ha
            exact List.any_eq_true.mpr ⟨r, hr, by simp [e]⟩
          · intro r hr
            rcases List.mem_append.mp hr with e | e
            · exact hcells r e
            · simp at e; subst e; exact hp
      · exact h
    · exact h
  | desig mag y dc raw =>
    simp only [Spec.Teletext.step]
    split
    · split
      · exact h
      · exact h
    · exact h
  | other => exact h

theorem foldl_step_insts (t : Int) : ∀ (ps : List Packet) (s : St), InstsOK s → (∀ p ∈ ps, PacketCells p) →
    InstsOK (ps.foldl (Spec.Teletext.step t) s)
  | [], _, h, _ => h
  | p :: ps, s, h, hp => by
    rw [List.foldl_cons]
    exact foldl_step_insts t ps _ (step_insts t s p h (hp p (by simp))) (fun q hq => hp q (by simp [hq]))

theorem runSpec_insts : ∀ (pk : List (Int × List Packet)) (s : St), InstsOK s → (∀ p ∈ pk, ∀ q ∈ p.2, PacketCells q) →
    InstsOK (runSpec s pk)
  | [], _, h, _ => h
  | p :: pk, s, h, hp => by
    simp only [runSpec, List.foldl_cons]
    exact runSpec_insts pk _ (foldl_step_insts p.1 p.2 s h (hp p (by simp))) (fun r hr => hp r (by simp [hr]))

theorem InstsOK.init (sel : Option (Nat × Nat × Nat)) : InstsOK { sel := sel } := by
  unfold InstsOK
  exact ⟨fun ie h => absurd h (by simp), fun i h => absurd h (by simp)⟩

theorem finalInsts_ok (s : St) (last : Int) (h : InstsOK s) : ∀ ie ∈ finalInsts s last, RowsOK ie.1.rows := by
  intro ie hie
  unfold finalInsts at hie
  rcases List.mem_append.mp hie with e | e
  · exact h.1 ie e
  · cases hc : s.cur with
    | none => rw [hc] at e; cases e
    | some i => rw [hc] at e; simp at e; subst e; exact h.2 i hc

/-- **the output of `finish`, in terms of the specification's instances** -/
theorem finish_cues (a : Acc) (s : St) (h : ARel a s) (hn : InstsOK s) :
    finish a =
      { items := ((finalInsts s (a.last.getD 0)).filter fun ie => !ie.1.rows.isEmpty).map
                    (modelCue (tripletOf a.buf.x28 a.buf.m29) (a.first.getD 0)) } := by
  rw [finish_eq, finish_pages a s h,
    foldl_parsePage _ _ _ ({} : Dec) ([] : List CItem) (fun c hc => absurd hc (by simp))
      (fun ie hie => (finalInsts_ok s _ hn ie hie).1)]
  simp

end Teletext
end Astisub
