import Astisub.Lemmas.TTMLRead2Doc
import Astisub.Lemmas.TTMLRead2Para
import Astisub.Lemmas.TTMLRead2Time

/-!
# Lemmas/TTMLRead2Main — from the related final states to the answer of `TTML.read` and the check `readOk`
-/

namespace Astisub
namespace TTMLR
open Go TTML
open Spec.TTML (St PState GRun GDef GCue GDoc ref? styling denote within1)
open Driver.TTMLD (specToks ttmlAttrsOf readOk runsOf linesOf' defsOf sortG)

/-! ## 1. every span leaves a run -/

def allRuns {α : Type} (dc : List (List α) × List α) : List α := dc.1.flatten ++ dc.2

theorem spanFin_mono {α : Type} (mk : Str → α) (d : List (List α)) (c : List α) (segs : List Str) (x : α)
    (h : x ∈ allRuns (d, c)) : x ∈ allRuns (spanFin mk d c segs) := by
  cases segs with
  | nil => exact h
  | cons f more =>
    simp only [spanFin]
    cases hm : more.getLast? with
    | none => simp only [allRuns, List.mem_append, List.mem_flatten] at h ⊢; rcases h with h | h
              · exact .inl h
              · exact .inr (.inl h)
    | some l =>
      simp only [allRuns, List.mem_append, List.flatten_append, List.mem_flatten] at h ⊢
      rcases h with ⟨l', hl', hx⟩ | h
      · exact .inl (.inl (.inl ⟨l', hl', hx⟩))
      · exact .inl (.inl (.inr ⟨c ++ [mk f], by simp, by simp [h]⟩))

theorem spanFin_mem {α : Type} (mk : Str → α) (d : List (List α)) (c : List α) (segs : List Str) (hne : segs ≠ []) :
    ∃ s, mk s ∈ allRuns (spanFin mk d c segs) := by
  cases segs with
  | nil => exact absurd rfl hne
  | cons f more =>
    refine ⟨f, ?_⟩
    simp only [spanFin]
    cases hm : more.getLast? with
    | none => simp [allRuns]
    | some l => simp [allRuns]

theorem semP_mono {α : Type} (mkT : Str → α) (mkS : List XAttr → Str → α) (its : List PItem) :
    ∀ (dc : List (List α) × List α) (x : α), x ∈ allRuns dc → x ∈ allRuns (semP mkT mkS its dc) := by
  induction its with
  | nil => intro dc x h; exact h
  | cons it its ih =>
    intro dc x h
    obtain ⟨d, c⟩ := dc
    cases it with
    | text s =>
      simp only [semP]
      apply ih
      simp only [allRuns, List.mem_append] at h ⊢
      rcases h with h | h
      · exact .inl h
      · exact .inr (.inl h)
    | br a =>
      simp only [semP]
      apply ih
      simp only [allRuns, List.mem_append, List.flatten_append] at h ⊢
      rcases h with h | h
      · exact .inl (.inl h)
      · exact .inl (.inr (by simpa using h))
    | span a segs =>
      simp only [semP]
      apply ih
      exact spanFin_mono _ _ _ _ _ h

theorem semP_span_mem {α : Type} (mkT : Str → α) (mkS : List XAttr → Str → α) (its : List PItem) :
    ∀ (dc : List (List α) × List α) (a : List XAttr) (segs : List Str), PItem.span a segs ∈ its → segs ≠ [] →
      ∃ s, mkS a s ∈ allRuns (semP mkT mkS its dc) := by
  induction its with
  | nil => intro dc a segs h; cases h
  | cons it its ih =>
    intro dc a segs h hne
    obtain ⟨d, c⟩ := dc
    cases h with
    | head =>
      simp only [semP]
      obtain ⟨s, hs⟩ := spanFin_mem (mkS a) d c segs hne
      exact ⟨s, semP_mono mkT mkS its _ _ hs⟩
    | tail _ h =>
      cases it with
      | text s => simp only [semP]; exact ih _ a segs h hne
      | br b => simp only [semP]; exact ih _ a segs h hne
      | span b sg => simp only [semP]; exact ih _ a segs h hne

theorem stylesOk_of (styles : List Str) (its : List PItem)
    (h : ∀ a segs, PItem.span a segs ∈ its → ∀ it, itemOfStart "span".toList a {} = some it →
      (it.style.isEmpty || styles.contains it.style) = true) : stylesOk styles its = true := by
  induction its with
  | nil => rfl
  | cons it its ih =>
    have ih' := ih (fun a segs hm => h a segs (List.mem_cons_of_mem _ hm))
    cases it with
    | text s => simp only [stylesOk]; exact ih'
    | br b => simp only [stylesOk]; exact ih'
    | span b sg =>
      simp only [stylesOk, Bool.and_eq_true]
      refine ⟨?_, ih'⟩
      cases hi : itemOfStart "span".toList b {} with
      | none => rfl
      | some it => exact h b sg (List.mem_cons_self) it hi

theorem itemsM_good (its : List PItem) (hg : good its) : ∃ items, itemsM its = some items := by
  induction its with
  | nil => exact ⟨[], rfl⟩
  | cons it its ih =>
    have hg' : good its := ⟨fun a segs hm => hg.1 a segs (List.mem_cons_of_mem _ hm), fun a hm => hg.2 a (List.mem_cons_of_mem _ hm)⟩
    obtain ⟨items, hi⟩ := ih hg'
    cases it with
    | text s => exact ⟨_, by simp only [itemsM, itemM, hi]; rfl⟩
    | br a =>
      obtain ⟨h1, h2⟩ := hg.2 a List.mem_cons_self
      obtain ⟨i, hi'⟩ := itemOfStart_br a h1 h2
      exact ⟨_, by simp only [itemsM, itemM, hi', hi, Option.map_some]; rfl⟩
    | span a segs =>
      obtain ⟨_, h2, h3⟩ := hg.1 a segs List.mem_cons_self
      cases hs : styling a with
      | none => rw [hs] at h2; cases h2
      | some sa =>
        obtain ⟨kv, hkv, _⟩ := styling_inAttrs a sa h3 hs
        obtain ⟨i, hi', _⟩ := itemOfStart_get "span".toList a kv hkv
        exact ⟨_, by simp only [itemsM, itemM, hi', hi, Option.map_some]; rfl⟩


/-! ## 2. one cue -/

def viewLI (li : LItem) : GRun := { text := li.text, style := li.style, attrs := ttmlAttrsOf li.attrs }

theorem runsOf_mkLine (l : List LItem) : runsOf (mkLine l) = l.map viewLI := rfl

theorem optOf (x : Str) (r : Option Str) (h1 : x = r.getD []) (h2 : ∀ v, r = some v → v ≠ []) :
    (if x ≠ [] then some x else none) = r := by
  cases r with
  | none => simp at h1; simp [h1]
  | some v => simp at h1; have := h2 v rfl; simp [h1, this]

theorem view_mkTM (s : Str) : viewLI (mkTM s) = mkTG s := by
  simp only [viewLI, mkTM, mkLI, mkTG]
  rw [view_styleAttributes_nil]
  simp

theorem view_mkSM (a : List XAttr) (h1 : (ref? a "style").isSome = true) (h2 : (styling a).isSome = true)
    (h3 : a.all attrFits = true) (s : Str) : viewLI (mkSM a s) = mkSG a s := by
  cases hs : styling a with
  | none => rw [hs] at h2; cases h2
  | some sa =>
    cases hr : ref? a "style" with
    | none => rw [hr] at h1; cases h1
    | some r =>
      obtain ⟨kv, hkv, hv⟩ := styling_inAttrs a sa h3 hs
      obtain ⟨it, hit, _, _, hst, hget⟩ := itemOfStart_get "span".toList a kv hkv
      have hrl := ref_lastAttr a "style" r style_matched h3 hr
      simp only [viewLI, mkSM, mkLI, mkSG, hit, Option.getD_some, hs, hr]
      have e1 : (if it.style ≠ [] then some it.style else none) = r := optOf it.style r (by rw [hst]; exact hrl.1) hrl.2
      have e2 : ttmlAttrsOf (some (styleAttributes it.attrs)) = sa := by
        rw [view_get_congr it.attrs kv hget]
        have := attrView_eq kv
        unfold attrView at this
        rw [this, hv]
      rw [e1, e2]

theorem span_style_mem (a : List XAttr) (segs : List Str) (its : List PItem) (hm : PItem.span a segs ∈ its)
    (hne : segs ≠ []) (dc : List (List GRun) × List GRun) :
    ∃ l ∈ (semP mkTG mkSG its dc).1 ++ [(semP mkTG mkSG its dc).2], ∃ r ∈ l, r.style = (ref? a "style").getD none := by
  obtain ⟨s, hs⟩ := semP_span_mem mkTG mkSG its dc a segs hm hne
  simp only [allRuns, List.mem_append, List.mem_flatten] at hs
  rcases hs with ⟨l, hl, hx⟩ | hx
  · exact ⟨l, List.mem_append_left _ hl, _, hx, rfl⟩
  · exact ⟨_, List.mem_append_right _ (List.mem_singleton.mpr rfl), _, hx, rfl⟩

/-- the clauses of `Driver.TTMLD.readOk` for one cue -/
def cueOk (c : GCue) (it : CItem) : Bool :=
  within1 it.startAt c.b && within1 it.endAt c.e &&
    it.style == c.style && it.region == c.region && ttmlAttrsOf it.attrs == c.attrs && linesOf' it.lines == c.lines

theorem isBr_p : isBr ['p'] = false := by decide

theorem readSub_rel (t : TIn) (fr tr : Nat) (hfr : t.framerate = (fr : Int)) (htr : t.tickrate = (tr : Int))
    (hb : fr ≤ int64Max) (sids rids : List Str) (c : GCue) (rs ts : InSub)
    (hrel : CueRel fr tr c rs) (hsub : subOk rs ts = true)
    (hst : ∀ v, c.style = some v → v ∈ sids) (hrg : ∀ v, c.region = some v → v ∈ rids)
    (hruns : ∀ l ∈ c.lines, ∀ r ∈ l, ∀ v, r.style = some v → v ∈ sids) :
    ∃ it, readSub t sids rids ts = .ok it ∧ cueOk c it = true := by
  obtain ⟨⟨b, e, hbs, hes, hdb, hde, hfb, hfe⟩, hreg, hregne, hsty, hstyne, hattrs, its, hpb, hg, hlines⟩ := hrel
  simp only [subOk, Bool.and_eq_true, beq_iff_eq] at hsub
  obtain ⟨⟨⟨⟨⟨⟨⟨⟨e1, e2⟩, _⟩, e4⟩, e5⟩, e6⟩, e7⟩, e8⟩, e9⟩ := hsub
  obtain ⟨db, hpb1, hw1⟩ := denote_parseTimes b fr tr c.b hdb hfb hb
  obtain ⟨de, hpe1, hw2⟩ := denote_parseTimes e fr tr c.e hde hfe hb
  -- the paragraph's tokens
  cases htk : ts.toks with
  | nil => rw [htk] at e9; cases e9
  | cons t0 rest =>
    rw [htk] at e9
    simp only [Bool.and_eq_true, beq_iff_eq] at e9
    obtain ⟨et0, ecan⟩ := e9
    obtain ⟨items, hitems⟩ := itemsM_good its hg
    have hdec : decodeItems ts.toks ts.toksOk = .ok items := by
      rw [htk, e8, et0]
      unfold pStart
      rw [decodeItems_canon [] ['p'] [] ['p'] [] [] rest (rs.toks ++ [pStop]) isBr_p isBr_p ecan]
      exact decodeItems_para [] ['p'] [] _ its items isBr_p hpb hitems
    have hsegs := para_segs _ its hpb
    have hso : stylesOk sids its = true := by
      apply stylesOk_of
      intro a segs hm it hit
      obtain ⟨h1, h2, h3⟩ := hg.1 a segs hm
      cases hr : ref? a "style" with
      | none => rw [hr] at h1; cases h1
      | some r =>
        cases hs : styling a with
        | none => rw [hs] at h2; cases h2
        | some sa =>
          obtain ⟨kv, hkv, _⟩ := styling_inAttrs a sa h3 hs
          obtain ⟨it', hit', _, _, hst', _⟩ := itemOfStart_get "span".toList a kv hkv
          rw [hit] at hit'
          cases hit'
          have hrl := ref_lastAttr a "style" r style_matched h3 hr
          cases r with
          | none => simp [hst', hrl.1]
          | some v =>
            obtain ⟨l, hl, run, hrun, hrs⟩ := span_style_mem a segs its hm (hsegs.2 a segs hm).1 ([], [])
            rw [← hlines] at hl
            have := hruns l hl run hrun v (by rw [hrs, hr]; rfl)
            simp [hst', hrl.1, this]
    have hll := linesLoop_para sids _ its items hpb hitems hso [] []
    simp only [List.map_nil] at hll
    -- assemble
    have hregion : ¬ (ts.region ≠ [] ∧ (!rids.contains ts.region) = true) := by
      rw [e4, hreg]
      cases hcr : c.region with
      | none => simp
      | some v => simp [hrg v hcr]
    have hstyle : ¬ (ts.style ≠ [] ∧ (!sids.contains ts.style) = true) := by
      rw [e5, hsty]
      cases hcs : c.style with
      | none => simp
      | some v => simp [hst v hcs]
    refine ⟨{ startAt := duration db t.framerate t.tickrate, endAt := duration de t.framerate t.tickrate,
              attrs := some (styleAttributes ts.attrs),
              region := if ts.region ≠ [] then some ts.region else none,
              style := if ts.style ≠ [] then some ts.style else none,
              lines := List.map mkLine ((semP mkTM mkSM its ([], [])).1 ++ [(semP mkTM mkSM its ([], [])).2]) }, ?_, ?_⟩
    · unfold readSub
      rw [e1, e2, hbs, hes, hpb1, hpe1]
      simp only [if_neg hregion, if_neg hstyle, e7, ne_eq, not_true_eq_false, if_false, hdec, hll]
    · simp only [cueOk, Bool.and_eq_true, beq_iff_eq]
      refine ⟨⟨⟨⟨⟨?_, ?_⟩, ?_⟩, ?_⟩, ?_⟩, ?_⟩
      · rw [hfr, htr]; exact hw1
      · rw [hfr, htr]; exact hw2
      · rw [e5]; exact optOf _ _ hsty hstyne
      · rw [e4]; exact optOf _ _ hreg hregne
      · rw [e6]; exact hattrs
      · rw [hlines]
        have hne : (List.map mkLine ((semP mkTM mkSM its ([], [])).1 ++ [(semP mkTM mkSM its ([], [])).2])).isEmpty = false := by
          simp
        simp only [linesOf', hne, Bool.false_eq_true, if_false, List.map_map]
        have hfun : (runsOf ∘ mkLine) = List.map viewLI := by funext l; rfl
        rw [hfun, List.map_append, List.map_singleton]
        have hm := semP_map viewLI mkTM mkSM its [] []
        simp only [List.map_nil] at hm
        have hT : (fun s => viewLI (mkTM s)) = mkTG := funext view_mkTM
        rw [hT] at hm
        have hc := semP_congr mkTG (fun a s => viewLI (mkSM a s)) mkSG its
          (fun a segs hmem => by
            obtain ⟨h1, h2, h3⟩ := hg.1 a segs hmem
            funext s; exact view_mkSM a h1 h2 h3 s) ([], [])
        rw [hc] at hm
        rw [hm]


/-! ## 3. definitions, cues, document -/

def toDef (s : InDef) : Def :=
  { id := s.id, ref := if s.style ≠ [] then some s.style else none, attrs := some (styleAttributes s.attrs) }

def toG (d : Def) : GDef := { id := d.id, ref := d.ref, attrs := ttmlAttrsOf d.attrs }

theorem nodup_of {l : List Str} (h : Spec.TTML.nodup l = true) : l.Nodup := by
  induction l with
  | nil => exact List.nodup_nil
  | cons a r ih =>
    simp only [Spec.TTML.nodup, Bool.and_eq_true, Bool.not_eq_true', List.contains_eq_mem, decide_eq_false_iff_not] at h
    exact List.nodup_cons.mpr ⟨h.1, ih h.2⟩

theorem all2_ids {gs : List GDef} {ds : List InDef} (h : All2 DefRel gs ds) : ds.map (·.id) = gs.map (·.id) := by
  induction h with
  | nil => rfl
  | cons h1 _ ih => simp [ih, h1.1]

theorem all2_toG {gs : List GDef} {ds : List InDef} (h : All2 DefRel gs ds) : (ds.map toDef).map toG = gs := by
  induction h with
  | nil => rfl
  | @cons g d gs ds h1 _ ih =>
    simp only [List.map_cons, ih, List.cons.injEq, and_true]
    obtain ⟨e1, e2, e3, e4⟩ := h1
    simp only [toG, toDef]
    have : (if d.style ≠ [] then some d.style else none) = g.ref := optOf _ _ e2 e3
    rw [this, e1]
    unfold attrView at e4
    rw [e4]

theorem defs_view (gs : List GDef) (ds : List InDef) (h : All2 DefRel gs ds)
    (hn : Spec.TTML.nodup (gs.map (·.id)) = true) :
    defsOf (lastWins (ds.map toDef)) = sortG gs := by
  have hids : ((ds.map toDef).map (·.id)) = gs.map (·.id) := by
    rw [List.map_map]; exact all2_ids h
  rw [C03.lastWins_nodup _ (by rw [hids]; exact nodup_of hn)]
  unfold defsOf sortG Proto.sortDefs
  have := List.map_mergeSort (r := fun (a b : Def) => !strLt b.id a.id) (s := fun (a b : GDef) => !strLt b.id a.id)
    (f := toG) (l := ds.map toDef) (fun a _ b _ => rfl)
  rw [all2_toG h] at this
  exact this

theorem parents_ok (gs : List GDef) (ds : List InDef) (ids : List Str) (h : All2 DefRel gs ds)
    (hok : ∀ g ∈ gs, ∀ v, g.ref = some v → v ∈ ids) :
    ds.any (fun s => decide (s.style ≠ [] ∧ (!ids.contains s.style) = true)) = false := by
  induction h with
  | nil => rfl
  | @cons g d gs ds h1 _ ih =>
    simp only [List.any_cons, Bool.or_eq_false_iff]
    refine ⟨?_, ih (fun g' hg' => hok g' (List.mem_cons_of_mem _ hg'))⟩
    obtain ⟨_, e2, _, _⟩ := h1
    cases hr : g.ref with
    | none => rw [hr] at e2; simp at e2; simp [e2]
    | some v =>
      rw [hr] at e2; simp at e2
      have := hok g List.mem_cons_self v hr
      simp [e2, this]

theorem cues_read (t : TIn) (fr tr : Nat) (hfr : t.framerate = (fr : Int)) (htr : t.tickrate = (tr : Int))
    (hb : fr ≤ int64Max) (sids rids : List Str) {cs : List GCue} {rs : List InSub} (h : All2 (CueRel fr tr) cs rs) :
    ∀ (ts : List InSub), ts.length = rs.length → (rs.zip ts).all (fun p => subOk p.1 p.2) = true →
    (∀ c ∈ cs, (∀ v, c.style = some v → v ∈ sids) ∧ (∀ v, c.region = some v → v ∈ rids) ∧
      ∀ l ∈ c.lines, ∀ r ∈ l, ∀ v, r.style = some v → v ∈ sids) →
    ∃ items, mapMRes (readSub t sids rids) ts = .ok items ∧ items.length = cs.length ∧
      (items.zip cs).all (fun p => cueOk p.2 p.1) = true := by
  induction h with
  | nil =>
    intro ts hl _ _
    have : ts = [] := List.length_eq_zero_iff.mp hl
    subst this
    exact ⟨[], rfl, rfl, rfl⟩
  | @cons c r cs rs h1 _ ih =>
    intro ts hl hz hc
    cases ts with
    | nil => simp at hl
    | cons x ts =>
      simp only [List.zip_cons_cons, List.all_cons, Bool.and_eq_true] at hz
      obtain ⟨h1c, h2c, h3c⟩ := hc c List.mem_cons_self
      obtain ⟨it, hit, hok⟩ := readSub_rel t fr tr hfr htr hb sids rids c r x h1 hz.1 h1c h2c h3c
      obtain ⟨items, hitems, hlen, hall⟩ := ih ts (by simpa using hl) hz.2 (fun c' hc' => hc c' (List.mem_cons_of_mem _ hc'))
      refine ⟨it :: items, ?_, by simp [hlen], ?_⟩
      · simp only [mapMRes, hit, hitems]
      · simp only [List.zip_cons_cons, List.all_cons, Bool.and_eq_true]
        exact ⟨hok, hall⟩

theorem map_defKey_inj {a b : List InDef} (h : a.map defKey = b.map defKey) : a = b := by
  induction a generalizing b with
  | nil => cases b with
    | nil => rfl
    | cons _ _ => simp at h
  | cons x a ih =>
    cases b with
    | nil => simp at h
    | cons y b =>
      simp only [List.map_cons, List.cons.injEq] at h
      have : x = y := by
        cases x; cases y
        simp only [defKey, Prod.mk.injEq] at h
        obtain ⟨⟨h1, h2, h3⟩, _⟩ := h
        subst h1; subst h2; subst h3; rfl
      rw [this, ih h.2]

/-- **MAIN (structural form).**  For every token list of the class the decoder accepts, and every `TTMLIn` view that
    belongs to it by the `encoding/xml` contract: the reader model succeeds, and its answer passes the check
    `Driver.TTMLD.readOk` against the decoded document. -/
theorem read_main (toks : List XTok) (tin : Option TIn) (d : GDoc)
    (hd : Spec.TTML.decode (specToks toks) = some d) (hc : InClass toks = true) (hk : contractOk toks tin = true) :
    ∃ s, TTML.read tin = .ok s ∧ readOk d s = true := by
  obtain ⟨stF, uF, hdoc, hfo, hun, hR⟩ := decode_unmarshal toks d hd hc
  unfold contractOk at hk
  rw [hun] at hk
  cases tin with
  | none => simp at hk
  | some t =>
    simp only [Bool.and_eq_true, beq_iff_eq] at hk
    obtain ⟨⟨⟨⟨⟨⟨⟨⟨k1, k2⟩, k3⟩, k4⟩, k5⟩, k6⟩, k7⟩, k8⟩, k9⟩ := hk
    have k6' := map_defKey_inj k6
    have k7' := map_defKey_inj k7
    simp only [tinOf] at k1 k2 k3 k4 k5 k6' k7' k8 k9
    subst hdoc
    -- the decoder's final checks
    simp only [finalOk, Bool.and_eq_true, List.all_eq_true, okR_iff] at hfo
    obtain ⟨⟨⟨⟨hn1, hn2⟩, hps⟩, hpr⟩, hcs⟩ := hfo
    have sids_eq : t.styles.map (·.id) = stF.doc.styles.map (·.id) := by rw [k7']; exact all2_ids hR.styles
    have rids_eq : t.regions.map (·.id) = stF.doc.regions.map (·.id) := by rw [k6']; exact all2_ids hR.regions
    have hpar1 := parents_ok _ _ (t.styles.map (·.id)) hR.styles (by rw [sids_eq]; exact hps)
    have hpar2 := parents_ok _ _ (t.styles.map (·.id)) hR.regions (by rw [sids_eq]; exact hpr)
    obtain ⟨items, hitems, hlen, hall⟩ := cues_read t stF.fr stF.tr (by rw [k1]; exact hR.fr) (by rw [k2]; exact hR.tr) hR.frb
      (t.styles.map (·.id)) (t.regions.map (·.id)) hR.cues t.subs k8 k9
      (fun c hc' => by
        have := hcs c hc'
        rw [sids_eq, rids_eq]
        exact ⟨this.1.1, this.1.2, this.2⟩)
    refine ⟨{ items := items,
              regions := lastWins (t.regions.map toDef),
              styles := lastWins (t.styles.map toDef), metadata := metadataOf t }, ?_, ?_⟩
    · unfold TTML.read
      simp only
      rw [← k7'] at hpar1
      rw [← k6'] at hpar2
      rw [if_neg (by rw [hpar1]; simp), if_neg (by rw [hpar2]; simp), hitems]
      rfl
    · simp only [readOk, Bool.and_eq_true, beq_iff_eq]
      refine ⟨⟨⟨⟨⟨⟨hlen, ?_⟩, ?_⟩, ?_⟩, ?_⟩, ?_⟩, ?_⟩
      · rw [List.all_eq_true] at hall ⊢
        intro p hp
        have := hall p hp
        simpa [cueOk, Bool.and_eq_true] using this
      · rw [k7']; exact defs_view _ _ hR.styles hn1
      · rw [k6']; exact defs_view _ _ hR.regions hn2
      · rw [metadata_title, k4]; exact hR.title
      · rw [metadata_copyright, k5]; exact hR.copyright
      · cases hl : Spec.TTML.languageName stF.doc.lang with
        | none => rfl
        | some n =>
          simp only [beq_iff_eq]
          rw [metadata_language, k3, hR.lang]
          exact language_view _ _ hl

end TTMLR
end Astisub
