import Astisub.Lemmas.VTT3WTextD

/-!
# Lemmas/VTT3WTextE — a written cue-text line lies in the class `lineOK2`

The three scans of `lineOK2` (`scanOK2`, `hasTs`, `noNbsp`) over the pieces the writer emits; a generic
walk `items_closed` over `itemsBytes`.
-/

namespace Astisub
namespace VTT3W
open Go Spec.VTT List
open VTT (runTags runOk runColor runBytesPN tsPart opensBytes closesBytes sharedWith itemsBytes lineBody)
open VTTRead (scanOK2 hasTs noNbsp lineOK2 tagCharOK)
open SRT (escapeHTML)

/-! ### the generic walk -/

theorem opens_closed (Q : Str → Prop) (WT : VTT.Tag → Prop)
    (hopen : ∀ t r, WT t → Q r → Q (VTT.Tag.startTag t ++ r)) (l : List VTT.Tag) (hl : ∀ t ∈ l, WT t)
    (r : Str) (h : Q r) : Q (opensBytes l ++ r) := by
  induction l with
  | nil => simpa [opensBytes] using h
  | cons t l ih =>
    simp only [opensBytes, map_cons, flatten_cons, append_assoc]
    exact hopen t _ (hl t (by simp)) (ih (fun u hu => hl u (by simp [hu])))

theorem closes_closed (Q : Str → Prop) (WT : VTT.Tag → Prop)
    (hclose : ∀ t r, WT t → Q r → Q (VTT.Tag.endTag t ++ r)) (l : List VTT.Tag) (hl : ∀ t ∈ l, WT t)
    (r : Str) (h : Q r) : Q (closesBytes l ++ r) := by
  induction l with
  | nil => simpa [closesBytes] using h
  | cons t l ih =>
    simp only [closesBytes, map_cons, flatten_cons, append_assoc]
    exact hclose t _ (hl t (by simp)) (ih (fun u hu => hl u (by simp [hu])))

/-- a property of strings that every piece preserves holds for the runs of a line -/
theorem items_closed (Q : Str → Prop) (WT : VTT.Tag → Prop) (WI : LItem → Prop)
    (hopen : ∀ t r, WT t → Q r → Q (VTT.Tag.startTag t ++ r))
    (hclose : ∀ t r, WT t → Q r → Q (VTT.Tag.endTag t ++ r))
    (hts : ∀ li r, WI li → Q r → Q (tsPart li ++ r))
    (htext : ∀ li r, WI li → Q r → Q (escapeHTML li.text ++ r)) (r : Str) (hr : Q r) :
    ∀ (items : List LItem) (prev : Option LItem),
      (∀ li ∈ items, runColor li = [] ∧ WI li ∧ ∀ t ∈ runTags li, WT t) → Q (itemsBytes prev items ++ r) := by
  intro items
  induction items with
  | nil => intro prev _; simpa [itemsBytes] using hr
  | cons li rest ih =>
    intro prev h
    obtain ⟨hc, hi, ht⟩ := h li (by simp)
    have hrest := ih (some li) (fun x hx => h x (by simp [hx]))
    simp only [itemsBytes, VTT.runBytes_eq prev rest.head? li hc, runBytesPN, append_assoc]
    apply hts li _ hi
    apply opens_closed Q WT hopen _ (fun t hm => ht t (mem_of_mem_drop hm))
    apply htext li _ hi
    exact closes_closed Q WT hclose _ (fun t hm => ht t (mem_of_mem_drop (mem_reverse.mp hm))) _ hrest

/-! ### `scanOK2` -/

def NoBreak (s : Str) : Prop := ∀ c ∈ s, c ≠ '\n' ∧ c ≠ '\r'

theorem noBreak_left {a b : Str} (h : NoBreak (a ++ b)) : NoBreak a := fun c hc => h c (by simp [hc])
theorem noBreak_right {a b : Str} (h : NoBreak (a ++ b)) : NoBreak b := fun c hc => h c (by simp [hc])

theorem scanOK2_false_cons (c : Char) (cs : Str) :
    scanOK2 false (c :: cs) = if c = '<' then scanOK2 true cs else scanOK2 false cs := by
  simp only [scanOK2]

theorem scanOK2_true_cons (c : Char) (cs : Str) :
    scanOK2 true (c :: cs) =
      if c = '>' then scanOK2 false cs
      else !(c = '=' || c = '\x0c' || c = '|' || c = '\n' || c = '\r') && scanOK2 true cs := by
  simp only [scanOK2]

theorem scanOK2_text (x r : Str) (hx : ∀ c ∈ x, c ≠ '<') : scanOK2 false (x ++ r) = scanOK2 false r := by
  induction x with
  | nil => rfl
  | cons c x ih =>
    have hc : c ≠ '<' := hx c (by simp)
    rw [cons_append, scanOK2_false_cons, if_neg hc]
    exact ih (fun d hd => hx d (by simp [hd]))

theorem scanOK2_body (body after : Str) (hb : ∀ c ∈ body, c ≠ '>') :
    scanOK2 true (body ++ '>' :: after) = (body.all tagCharOK && scanOK2 false after) := by
  induction body with
  | nil => simp [scanOK2_true_cons]
  | cons c body ih =>
    have hc : c ≠ '>' := hb c (by simp)
    rw [cons_append, scanOK2_true_cons]
    simp only [hc, if_false, all_cons, ih (fun d hd => hb d (by simp [hd])), tagCharOK, Bool.and_assoc]

theorem scanOK2_tag (body after : Str) (hb : ∀ c ∈ body, c ≠ '>') (hok : ∀ c ∈ body, tagCharOK c = true)
    (h : scanOK2 false after = true) : scanOK2 false ('<' :: (body ++ '>' :: after)) = true := by
  rw [scanOK2_false_cons, if_pos rfl, scanOK2_body body after hb, h, Bool.and_true, all_eq_true]
  exact hok

/-- the `scanOK2` property of a rest of the line -/
def Q1 (r : Str) : Prop := NoBreak r → scanOK2 false r = true

theorem tagCharOK_iff (c : Char) :
    tagCharOK c = true ↔ c ≠ '=' ∧ c ≠ '\x0c' ∧ c ≠ '|' ∧ c ≠ '\n' ∧ c ≠ '\r' := by
  simp [tagCharOK, and_assoc]

theorem alnum_tagCharOK {c : Char} (h : Char.isAlphanum c = true) : tagCharOK c = true := by
  rw [tagCharOK_iff]
  refine ⟨?_, ?_, ?_, ?_, ?_⟩ <;> (intro e; subst e; revert h; decide)

theorem okc_iff (c : Char) : okc c = true ↔ c ≠ '|' ∧ c ≠ '\x0c' := by
  simp [okc]

/-! ### no `|` in the tags of a run -/

theorem splitC_sub (c : Char) : ∀ s : Str, ∀ p ∈ splitC c s, ∀ x ∈ p, x ∈ s := by
  intro s
  induction s with
  | nil => intro p hp; simp [splitC] at hp; subst hp; simp
  | cons a xs ih =>
    intro p hp
    unfold splitC at hp
    by_cases hx : a = c
    · simp only [hx, if_true, mem_cons] at hp
      rcases hp with rfl | hp
      · simp
      · intro x hxp; exact mem_cons_of_mem _ (ih p hp x hxp)
    · simp only [hx, if_false] at hp
      cases hs : splitC c xs with
      | nil => exact absurd hs (VTTRead.splitC_ne_nil c xs)
      | cons h t =>
        rw [hs] at hp ih
        simp only [mem_cons] at hp
        rcases hp with rfl | hp
        · intro x hxp
          rcases mem_cons.mp hxp with e | hxp
          · subst e; simp
          · exact mem_cons_of_mem _ (ih h (by simp) x hxp)
        · intro x hxp; exact mem_cons_of_mem _ (ih p (by simp [hp]) x hxp)

/-- no `|` in the classes and the annotation -/
def NoBar (t : VTT.Tag) : Prop := '|' ∉ t.annotation ∧ ∀ c ∈ t.classes, '|' ∉ c

theorem tagOfStr_eq (s : Str) : VTT.tagOfStr s =
    match splitC '.' (s.takeWhile (· != ' ')) with
    | n :: cls => { name := n, classes := cls, annotation := (s.drop (s.takeWhile (· != ' ')).length).drop 1 }
    | [] => { name := [], annotation := (s.drop (s.takeWhile (· != ' ')).length).drop 1 } := rfl

theorem tagOfStr_noBar (s : Str) (h : '|' ∉ s) : NoBar (VTT.tagOfStr s) := by
  have hhead : ∀ x ∈ s.takeWhile (· != ' '), x ∈ s := fun x hx => (takeWhile_sublist _).subset hx
  have hann : '|' ∉ (s.drop (s.takeWhile (· != ' ')).length).drop 1 :=
    fun hm => h (mem_of_mem_drop (mem_of_mem_drop hm))
  rw [tagOfStr_eq]
  split
  · rename_i n cls hsp
    refine ⟨hann, ?_⟩
    intro c hc hm
    have hc' : c ∈ splitC '.' (s.takeWhile (· != ' ')) := by rw [hsp]; exact mem_cons_of_mem _ hc
    exact h (hhead _ (splitC_sub '.' _ c hc' _ hm))
  · exact ⟨hann, by intro c hc; simp at hc⟩

/-- the tags of a run hold no `|`: the library splits the attribute at `|` -/
theorem tags_noBar (a : Attrs) : ∀ t ∈ VTT.tagsOfAttrs a, NoBar t := by
  intro t ht
  unfold VTT.tagsOfAttrs at ht
  split at ht
  · rename_i v _
    obtain ⟨p, hp, rfl⟩ := mem_map.mp ht
    exact tagOfStr_noBar p (VTTRead.splitC_parts '|' v p hp)
  · simp at ht

/-- what the scans need of a tag: well-formed, no form feed in the annotation, no `|` -/
def WT (t : VTT.Tag) : Prop := t.wf = true ∧ tagW2 t = true ∧ NoBar t

theorem isTagWS_ff {c : Char} (h : isTagWS c = false) : c ≠ '\x0c' := by
  intro e; subst e; revert h; decide

theorem startBody_tagCharOK (t : VTT.Tag) (h : WT t) (c : Char) (hc : c ∈ startBody t)
    (hnb : c ≠ '\n' ∧ c ≠ '\r') : tagCharOK c = true := by
  have w := VTT.wf_facts h.1
  have h2 := h.2.1
  have hbar := h.2.2
  simp only [tagW2, all_eq_true, bne_iff_ne, ne_eq] at h2
  unfold startBody at hc
  rcases mem_append.mp hc with hc | hc
  · rcases mem_append.mp hc with hc | hc
    · exact alnum_tagCharOK (w.alnum c hc)
    · unfold VTT.clsPart at hc
      split at hc
      · simp at hc
      · have hdot : tagCharOK '.' = true := by decide
        rcases mem_cons.mp hc with e | hc
        · subst e; exact hdot
        · rcases VTT.join_mem _ c hc with e | ⟨cl, hcl, hxc⟩
          · subst e; exact hdot
          · have hcc := (w.cls cl hcl).2 c hxc
            simp only [VTT.classChar, Bool.not_eq_true', Bool.or_eq_false_iff] at hcc
            have hm := (markup_safe hcc.1.1).2
            rw [tagCharOK_iff]
            exact ⟨hm, isTagWS_ff hcc.2, fun e => hbar.2 cl hcl (e ▸ hxc), hnb.1, hnb.2⟩
  · unfold VTT.annPart at hc
    split at hc
    · simp at hc
    · rcases mem_cons.mp hc with e | hc
      · subst e; decide
      · have hm := (markup_safe ((VTT.annOk_facts w.ann).2 c hc)).2
        rw [tagCharOK_iff]
        exact ⟨hm, h2 c hc, fun e => hbar.1 (e ▸ hc), hnb.1, hnb.2⟩

theorem Q1_open (t : VTT.Tag) (r : Str) (h : WT t) (hr : Q1 r) : Q1 (VTT.Tag.startTag t ++ r) := by
  have w := VTT.wf_facts h.1
  have e : VTT.Tag.startTag t ++ r = '<' :: (startBody t ++ '>' :: r) := by
    rw [startTag_body t w.name_ne]; simp
  rw [e]
  intro hnb
  have hnb2 : NoBreak (startBody t ++ '>' :: r) := fun c hc => hnb c (by simp [hc])
  refine scanOK2_tag _ _ (fun c hc => (startBody_chars t w c hc).2.1) ?_
    (hr (fun c hc => noBreak_right hnb2 c (by simp [hc])))
  intro c hc
  exact startBody_tagCharOK t h c hc (noBreak_left hnb2 c hc)

theorem Q1_close (t : VTT.Tag) (r : Str) (h : WT t) (hr : Q1 r) : Q1 (VTT.Tag.endTag t ++ r) := by
  have w := VTT.wf_facts h.1
  have e : VTT.Tag.endTag t ++ r = '<' :: (('/' :: t.name) ++ '>' :: r) := by
    simp [VTT.Tag.endTag, w.name_ne, litClose]
  rw [e]
  intro hnb
  have hnb2 : NoBreak (('/' :: t.name) ++ '>' :: r) := fun c hc => hnb c (mem_cons_of_mem _ hc)
  refine scanOK2_tag _ _ ?_ ?_ (hr (fun c hc => noBreak_right hnb2 c (by simp [hc])))
  · intro c hc
    rcases mem_cons.mp hc with e | hc
    · subst e; decide
    · exact (alnum_safe (w.alnum c hc)).1.2.1
  · intro c hc
    rcases mem_cons.mp hc with e | hc
    · subst e; decide
    · exact alnum_tagCharOK (w.alnum c hc)

/-- what the scans need of a run -/
def WI (li : LItem) : Prop := 0 ≤ li.startAt ∧ li.startAt < 360000000000000

theorem Q1_ts (li : LItem) (r : Str) (h : WI li) (hr : Q1 r) : Q1 (tsPart li ++ r) := by
  unfold tsPart
  split
  · have e : VTT.tsText li.startAt ++ r = '<' :: (Duration.formatVTT li.startAt ++ '>' :: r) := by
      simp [VTT.tsText]
    rw [e]
    intro hnb
    have hch := format_tagchars li.startAt h.1 h.2
    refine scanOK2_tag _ _ ?_ ?_ (hr (fun c hc => hnb c (by simp [hc])))
    · intro c hc
      exact timeChar_ne (hch c hc) '>' (by decide) (by decide) (by decide)
    · intro c hc
      rw [tagCharOK_iff]
      exact ⟨timeChar_ne (hch c hc) '=' (by decide) (by decide) (by decide),
        timeChar_ne (hch c hc) '\x0c' (by decide) (by decide) (by decide),
        timeChar_ne (hch c hc) '|' (by decide) (by decide) (by decide),
        timeChar_ne (hch c hc) '\n' (by decide) (by decide) (by decide),
        timeChar_ne (hch c hc) '\r' (by decide) (by decide) (by decide)⟩
  · simpa using hr

theorem Q1_text (t r : Str) (hr : Q1 r) : Q1 (escapeHTML t ++ r) := by
  intro hnb
  rw [scanOK2_text _ _ (fun c hc e => C01.escape_no_lt t (e ▸ hc))]
  exact hr (noBreak_right hnb)

end VTT3W
end Astisub
