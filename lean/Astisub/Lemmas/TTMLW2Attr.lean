import Astisub.Lemmas.TTMLW2Defs

/-!
# Lemmas/TTMLW2Attr — the decoder's attribute functions on the attribute lists the writer emits

`Spec.TTML.attr?`, `ref?`, `styling`, `mkDef` on `(optional id / begin / end / region / style) ++ tts:*` lists with
resolved name spaces.
-/

namespace Astisub
namespace TTMLW2
open Go TTML List
open Driver.TTMLD (nsTTML nsTTS nsTTM nsXML ttmlAttrsOf)
open Spec.TTML (isDecl attr? ref? styling hasNL)
open TTMLDoc (normRef optAttr_norm NotRow)

/-! ### `attr?` through the list of matching values -/

/-- the values of the attributes with this local name that are no name-space declarations -/
def vals (A : List XAttr) (name : String) : List Str :=
  (A.filter fun a => !isDecl a && a.2.1 = name.toList).map (·.2.2)

theorem attr_eq (A : List XAttr) (name : String) :
    attr? A name = match vals A name with | [] => none | [v] => some (some v) | _ => some none := by
  unfold attr? vals
  generalize (A.filter fun a => !isDecl a && a.2.1 = name.toList) = l
  match l with
  | [] => rfl
  | [_] => rfl
  | _ :: _ :: _ => rfl

theorem vals_append (A B : List XAttr) (name : String) : vals (A ++ B) name = vals A name ++ vals B name := by
  simp [vals]

theorem vals_nil (name : String) : vals [] name = [] := rfl

theorem vals_cons_hit (x : XAttr) (A : List XAttr) (name : String) (hd : isDecl x = false) (hn : x.2.1 = name.toList) :
    vals (x :: A) name = x.2.2 :: vals A name := by
  simp [vals, hd, hn]

theorem vals_cons_miss (x : XAttr) (A : List XAttr) (name : String) (h : isDecl x = true ∨ x.2.1 ≠ name.toList) :
    vals (x :: A) name = vals A name := by
  rcases h with h | h
  · simp [vals, h]
  · simp [vals, h]

theorem attr_none {A : List XAttr} {name : String} (h : vals A name = []) : attr? A name = none := by
  rw [attr_eq, h]

theorem attr_one {A : List XAttr} {name : String} {v : Str} (h : vals A name = [v]) : attr? A name = some (some v) := by
  rw [attr_eq, h]

theorem attr_opt {A : List XAttr} {name : String} {o : Option Str} (h : vals A name = o.toList) :
    attr? A name = o.map some := by
  cases o with
  | none => exact attr_none h
  | some v => exact attr_one h

/-- a reference attribute that is absent or holds a non-empty value -/
theorem ref_opt {A : List XAttr} {name : String} {r : Option Str} (h : vals A name = (normRef r).toList) :
    ref? A name = some (normRef r) := by
  unfold ref?
  rw [attr_opt h]
  cases hr : normRef r with
  | none => rfl
  | some v =>
    have := TTMLDoc.normRef_some_ne hr
    cases v with
    | nil => exact absurd rfl this
    | cons c cs => rfl

/-! ### the `tts:*` attributes -/

/-- the resolved `tts:*` attributes of `a` -/
def outR (a : Attrs) : List XAttr := (outAttrs a).map rAttr

theorem outR_eq (a : Attrs) :
    outR a = attrTable.filterMap fun p => (kvGet a ("TTML" ++ p.1)).map fun v => (nsTTS, p.2.toList, v) := by
  unfold outR outAttrs
  rw [map_filterMap]
  apply TTMLDoc.filterMap_congr'
  intro p hp
  obtain ⟨f, x⟩ := p
  show Option.map rAttr (Option.map (fun v => (("tts:" ++ x).toList, v)) (kvGet a ("TTML" ++ f))) = _
  cases kvGet a ("TTML" ++ f) with
  | none => rfl
  | some v => simp only [Option.map_some]; rw [at_tts (p := (f, x)) hp]

theorem isDecl_tts (l v : Str) : isDecl (nsTTS, l, v) = false := by
  have h1 : ¬ nsTTS = ['x', 'm', 'l', 'n', 's'] := by decide
  have h2 : ¬ nsTTS = [] := by decide
  simp [isDecl, h1, h2]

theorem isDecl_xml (l v : Str) : isDecl (nsXML, l, v) = false := by
  have h1 : ¬ nsXML = ['x', 'm', 'l', 'n', 's'] := by decide
  have h2 : ¬ nsXML = [] := by decide
  simp [isDecl, h1, h2]

theorem isDecl_plain (l v : Str) (h : l ≠ "xmlns".toList) : isDecl ([], l, v) = false := by
  have h' : ¬ l = ['x', 'm', 'l', 'n', 's'] := h
  simp [isDecl, h']

/-- one row of a keyed table among the generated attributes -/
theorem vals_rows (val : String × String → Option Str) (l : List (String × String))
    (hnd : (l.map fun q => q.2.toList).Nodup) {p : String × String} (hp : p ∈ l) :
    vals (l.filterMap fun q => (val q).map fun v => (nsTTS, q.2.toList, v)) p.2 = (val p).toList := by
  induction l with
  | nil => simp at hp
  | cons a l ih =>
    rw [map_cons, nodup_cons] at hnd
    rw [filterMap_cons]
    by_cases ha : a = p
    · subst ha
      have hrest : vals (l.filterMap fun q => (val q).map fun v => (nsTTS, q.2.toList, v)) a.2 = [] := by
        unfold vals
        rw [map_eq_nil_iff, filter_eq_nil_iff]
        intro x hx
        obtain ⟨q, hq, he⟩ := mem_filterMap.mp hx
        cases hv : val q with
        | none => rw [hv] at he; simp at he
        | some w =>
          rw [hv] at he
          simp only [Option.map_some, Option.some.injEq] at he
          subst he
          have hne : q.2.toList ≠ a.2.toList := fun e => hnd.1 (e ▸ mem_map_of_mem (f := fun q : String × String => q.2.toList) hq)
          simp [hne]
      cases hv : val a with
      | none => simpa using hrest
      | some w =>
        simp only [Option.map_some, Option.toList_some]
        rw [vals_cons_hit (nsTTS, a.2.toList, w) _ a.2 (isDecl_tts _ _) rfl, hrest]
    · have hp' : p ∈ l := by
        rcases mem_cons.mp hp with e | e
        · exact absurd e.symm ha
        · exact e
      have hne : a.2.toList ≠ p.2.toList := fun e => hnd.1 (e ▸ mem_map_of_mem (f := fun q : String × String => q.2.toList) hp')
      cases hv : val a with
      | none => exact ih hnd.2 hp'
      | some w =>
        simp only [Option.map_some]
        rw [vals_cons_miss (nsTTS, a.2.toList, w) _ p.2 (Or.inr hne)]
        exact ih hnd.2 hp'

theorem rows_nodup : (attrTable.map fun q => q.2.toList).Nodup := by
  rw [TTMLDoc.rowNames_eq]; exact TTMLDoc.rowNames_nodup

/-- a styling attribute among the written `tts:*` attributes: present exactly when set -/
theorem vals_outR_row (a : Attrs) {p : String × String} (hp : p ∈ attrTable) :
    vals (outR a) p.2 = (kvGet a ("TTML" ++ p.1)).toList := by
  rw [outR_eq]
  exact vals_rows (fun q => kvGet a ("TTML" ++ q.1)) attrTable rows_nodup hp

/-- any other name is not among them -/
theorem vals_outR_other (a : Attrs) {nm : String} (h : NotRow nm) : vals (outR a) nm = [] := by
  rw [outR_eq]
  unfold vals
  rw [map_eq_nil_iff, filter_eq_nil_iff]
  intro x hx
  obtain ⟨q, hq, he⟩ := mem_filterMap.mp hx
  cases hv : kvGet a ("TTML" ++ q.1) with
  | none => rw [hv] at he; simp at he
  | some w =>
    rw [hv] at he
    simp only [Option.map_some, Option.some.injEq] at he
    subst he
    simp [h q hq]

theorem notRow_style : NotRow "style" := TTMLDoc.row_not_style

/-! ### line breaks in attribute values -/

def nlAttr (A : List XAttr) : Bool := A.any (fun x => x.2.2.any fun c => c = '\n')

theorem nlAttr_append (A B : List XAttr) : nlAttr (A ++ B) = (nlAttr A || nlAttr B) := by
  simp [nlAttr]

/-- the text has no line feed -/
def okStr (s : Str) : Bool := !hasNL s

theorem nlAttr_single (sp l v : Str) : nlAttr [(sp, l, v)] = hasNL v := by
  simp [nlAttr, hasNL]

theorem nlAttr_nil : nlAttr [] = false := rfl

/-! ### the view of the driver -/

theorem ttmlAttrsOf_eq (a : Attrs) :
    ttmlAttrsOf a = attrTable.filterMap fun p => (kvGet a ("TTML" ++ p.1)).map fun v => (p.2.toList, v) := by
  unfold ttmlAttrsOf
  rw [TTMLR.stylingNames_eq, filterMap_map]
  apply TTMLDoc.filterMap_congr'
  intro p hp
  have e : ("TTML" ++ String.ofList (match p.2.toList with | c :: r => c.toUpper :: r | [] => [])) = "TTML" ++ p.1 :=
    congrArg (fun x => "TTML" ++ x) (TTMLR.capital_row p hp)
  exact congrArg (fun k => Option.map (fun v => (p.2.toList, v)) (kvGet a k)) e

theorem mem_ttmlAttrsOf {a : Attrs} {p : String × String} (hp : p ∈ attrTable) {v : Str}
    (h : kvGet a ("TTML" ++ p.1) = some v) : (p.2.toList, v) ∈ ttmlAttrsOf a := by
  rw [ttmlAttrsOf_eq]
  exact mem_filterMap.mpr ⟨p, hp, by rw [h]; rfl⟩

/-- `zIndex`, if set, is an integer in canonical form (what `strconv.Itoa` prints: the Go field is `*int`) -/
def zCanon (a : Attrs) : Bool :=
  match kvGet a "TTMLZIndex" with
  | some v => (Spec.TTML.int? (Spec.TTML.trimS v)).map Spec.TTML.showInt == some v
  | none => true

/-- styling attributes the decoder reads back as they are: canonical `zIndex`, no line feed in a value -/
def attrsW (a : Attrs) : Bool := zCanon a && (ttmlAttrsOf a).all fun kv => okStr kv.2

example : attrsW (some [("TTMLColor".toList, "red".toList), ("TTMLZIndex".toList, "-7".toList)]) = true := by
  have h1 : zCanon (some [("TTMLColor".toList, "red".toList), ("TTMLZIndex".toList, "-7".toList)]) = true := by
    decide +kernel
  have h2 : (ttmlAttrsOf (some [("TTMLColor".toList, "red".toList), ("TTMLZIndex".toList, "-7".toList)])).all
      (fun kv => okStr kv.2) = true := by decide +kernel
  simp only [attrsW, h1, h2, Bool.and_self]
example : zCanon (some [("TTMLZIndex".toList, "+7".toList)]) = false := by decide +kernel

theorem nlAttr_outR (a : Attrs) (h : attrsW a = true) : nlAttr (outR a) = false := by
  simp only [attrsW, Bool.and_eq_true, all_eq_true] at h
  rw [outR_eq]
  unfold nlAttr
  rw [any_eq_false]
  intro x hx
  obtain ⟨q, hq, he⟩ := mem_filterMap.mp hx
  cases hv : kvGet a ("TTML" ++ q.1) with
  | none => rw [hv] at he; simp at he
  | some w =>
    rw [hv] at he
    simp only [Option.map_some, Option.some.injEq] at he
    subst he
    have := h.2 _ (mem_ttmlAttrsOf hq hv)
    simp [okStr, hasNL] at this ⊢
    exact fun hm => this _ hm rfl

/-! ### `styling` -/

open TTMLR (rowD stylingStep styling_eq)

theorem stylingStep_rowD (A : List XAttr) (n : String) (l : Spec.TTML.AttrL) :
    stylingStep A n (some l) = (rowD A n).map fun o => o.toList ++ l := by
  unfold stylingStep rowD
  cases attr? A n with
  | none => rfl
  | some o =>
    cases o with
    | none => rfl
    | some v =>
      simp only
      by_cases hn : n = "zIndex"
      · simp only [hn, if_true]
        cases Spec.TTML.int? (Spec.TTML.trimS v) <;> rfl
      · simp only [hn, if_false]
        rfl

theorem styling_forward (A : List XAttr) (f : String → Option (Str × Str)) :
    ∀ ns : List String, (∀ n ∈ ns, rowD A n = some (f n)) →
      ns.foldr (stylingStep A) (some []) = some (ns.filterMap f) := by
  intro ns
  induction ns with
  | nil => intro _; rfl
  | cons n ns ih =>
    intro h
    rw [foldr_cons, ih (fun m hm => h m (by simp [hm])), stylingStep_rowD, h n (by simp), filterMap_cons]
    cases f n <;> rfl

/-- `E` holds no styling attribute -/
def Plain (E : List XAttr) : Prop := ∀ p ∈ attrTable, vals E p.2 = []

theorem zindex_key : ("TTML" ++ "ZIndex" : String) = "TTMLZIndex" := by decide

theorem names_nodup : (attrTable.map fun q : String × String => q.2).Nodup := by
  have h : ((attrTable.map fun q : String × String => q.2).map String.toList).Nodup := by
    rw [map_map]; exact rows_nodup
  exact List.Pairwise.of_map String.toList (fun a b hne e => hne (by rw [e])) h

/-- **Styling attributes.**  On `E ++ tts:*` (`E` without styling attributes) the decoder reads exactly the view the
    driver takes of `a`. -/
theorem styling_written (E : List XAttr) (a : Attrs) (hE : Plain E) (hz : zCanon a = true) :
    styling (E ++ outR a) = some (ttmlAttrsOf a) := by
  rw [styling_eq, ttmlAttrsOf_eq, TTMLR.stylingNames_eq]
  have key : ∀ p ∈ attrTable, rowD (E ++ outR a) p.2 = some ((kvGet a ("TTML" ++ p.1)).map fun v => (p.2.toList, v)) := by
    intro p hp
    have hv : vals (E ++ outR a) p.2 = (kvGet a ("TTML" ++ p.1)).toList := by
      rw [vals_append, hE p hp, vals_outR_row a hp, nil_append]
    unfold rowD
    rw [attr_opt hv]
    cases hk : kvGet a ("TTML" ++ p.1) with
    | none => rfl
    | some v =>
      simp only [Option.map_some]
      by_cases hn : p.2 = "zIndex"
      · rw [if_pos hn]
        have hf : p.1 = "ZIndex" := (TTMLR.zrow_iff p hp).mp hn
        rw [hf, zindex_key] at hk
        simp only [zCanon, hk] at hz
        cases hi : Spec.TTML.int? (Spec.TTML.trimS v) with
        | none => rw [hi] at hz; simp at hz
        | some z =>
          rw [hi] at hz
          simp only [Option.map_some, beq_iff_eq, Option.some.injEq] at hz
          simp only [Option.map_some, hz]
      · rw [if_neg hn]
  have := styling_forward (E ++ outR a) (fun n => (attrTable.find? fun p => p.2 = n).bind fun p =>
      (kvGet a ("TTML" ++ p.1)).map fun v => (p.2.toList, v)) (attrTable.map (·.2)) (by
    intro n hn
    obtain ⟨p, hp, rfl⟩ := mem_map.mp hn
    have hfind : attrTable.find? (fun q => q.2 = p.2) = some p := by
      have := TTMLDoc.find_self (fun q : String × String => q.2) attrTable names_nodup hp
      simpa using this
    simp only [hfind, Option.bind_some]
    exact key p hp)
  rw [this, filterMap_map]
  apply congrArg some
  apply TTMLDoc.filterMap_congr'
  intro p hp
  have hfind : attrTable.find? (fun q => q.2 = p.2) = some p := by
    have := TTMLDoc.find_self (fun q : String × String => q.2) attrTable names_nodup hp
    simpa using this
  simp only [Function.comp, hfind, Option.bind_some]

end TTMLW2
end Astisub
