import Astisub.Lemmas.F53Round
import Astisub.Props.C15

/-!
# Lemmas/F53Ops — `ofInt`, `mul`, `sub`, `trunc` on values

Each arithmetic operation of `Go.Float53` computes the exact rational result and then applies
`Dy.round`; with `round_val` this gives `val (op x y) = rnd (val x ∘ val y)`. `Dy.trunc` is `C15.tr`.
-/

namespace Astisub
namespace F53
open Go

theorem ofInt_val (n : ℤ) : (Dy.ofInt n).val = rnd (n : ℚ) := by
  unfold Dy.ofInt
  rw [round_val, val_mk]; simp

theorem mul_val (x y : Dy) : (Dy.mul x y).val = rnd (x.val * y.val) := by
  unfold Dy.mul
  rw [round_val, val_mk]
  unfold Dy.val
  rw [p2_add]; push_cast; ring_nf

theorem sub_exact (x y : Dy) :
    (Dy.mk (x.m * (2 : ℤ) ^ (x.e - min x.e y.e).toNat - y.m * (2 : ℤ) ^ (y.e - min x.e y.e).toNat)
        (min x.e y.e)).val = x.val - y.val := by
  obtain ⟨a, ha⟩ : ∃ a : ℕ, x.e = (a : ℤ) + min x.e y.e := ⟨(x.e - min x.e y.e).toNat, by omega⟩
  obtain ⟨b, hb⟩ : ∃ b : ℕ, y.e = (b : ℤ) + min x.e y.e := ⟨(y.e - min x.e y.e).toNat, by omega⟩
  have ha' : (x.e - min x.e y.e).toNat = a := by omega
  have hb' : (y.e - min x.e y.e).toNat = b := by omega
  rw [ha', hb', val_mk]
  generalize min x.e y.e = e at ha hb
  unfold Dy.val
  rw [ha, hb, p2_add, p2_add, zpow_natCast, zpow_natCast]
  push_cast; ring

theorem sub_val (x y : Dy) : (Dy.sub x y).val = rnd (x.val - y.val) := by
  unfold Dy.sub
  simp only []
  rw [round_val, sub_exact]

/-! ### truncation -/

theorem tr_intCast (z : ℤ) : C15.tr (z : ℚ) = z := by
  unfold C15.tr; split <;> simp

theorem trunc_val (x : Dy) : x.trunc = C15.tr x.val := by
  unfold Dy.trunc
  by_cases he : x.e ≥ 0
  · simp only [he, ↓reduceIte]
    obtain ⟨k, hk⟩ : ∃ k : ℕ, x.e = (k : ℤ) := ⟨x.e.toNat, by omega⟩
    have : x.val = ((x.m * 2 ^ k : ℤ) : ℚ) := by
      unfold Dy.val; rw [hk, zpow_natCast]; push_cast; ring
    rw [this, tr_intCast, hk]; simp
  · simp only [he, ↓reduceIte]
    obtain ⟨k, hk⟩ : ∃ k : ℕ, x.e = -(k : ℤ) := ⟨(-x.e).toNat, by omega⟩
    have hk' : (-x.e).toNat = k := by omega
    rw [hk']
    have hv : x.val = (x.m : ℚ) / ((2 ^ k : ℕ) : ℚ) := by
      unfold Dy.val; rw [hk, zpow_neg, zpow_natCast]; push_cast; ring
    have hfl : ⌊((x.m.natAbs : ℤ) : ℚ) / ((2 ^ k : ℕ) : ℚ)⌋ = ((x.m.natAbs / 2 ^ k : ℕ) : ℤ) := by
      rw [Rat.floor_intCast_div_natCast]; push_cast; rfl
    have hpos : (0 : ℚ) < ((2 ^ k : ℕ) : ℚ) := by positivity
    by_cases hneg : x.m < 0
    · simp only [hneg, ↓reduceIte]
      have hm : x.m = -(x.m.natAbs : ℤ) := by omega
      have hlt : ¬ (0 : ℚ) ≤ x.val := by
        rw [hv, not_le]
        apply div_neg_of_neg_of_pos _ hpos
        exact_mod_cast hneg
      unfold C15.tr
      rw [if_neg hlt, hv]
      have : (x.m : ℚ) / ((2 ^ k : ℕ) : ℚ) = -(((x.m.natAbs : ℤ) : ℚ) / ((2 ^ k : ℕ) : ℚ)) := by
        rw [← neg_div]; congr 1
        have : (x.m : ℚ) = ((-(x.m.natAbs : ℤ) : ℤ) : ℚ) := by rw [← hm]
        rw [this]; push_cast; ring
      rw [this, Int.ceil_neg, hfl]
    · simp only [hneg, ↓reduceIte]
      have hm : x.m = (x.m.natAbs : ℤ) := by omega
      have hge : (0 : ℚ) ≤ x.val := by
        rw [hv]
        apply div_nonneg _ (le_of_lt hpos)
        have : 0 ≤ x.m := by omega
        exact_mod_cast this
      unfold C15.tr
      rw [if_pos hge, hv]
      have : (x.m : ℚ) = ((x.m.natAbs : ℤ) : ℚ) := by rw [← hm]
      rw [this, hfl]

end F53
end Astisub
