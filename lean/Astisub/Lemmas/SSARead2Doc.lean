import Astisub.Lemmas.SSARead2SecStyles
import Astisub.Lemmas.SSARead2SecEvents

/-!
# Lemmas/SSARead2Doc — the whole document: the reader's loop over the decoder's sections
-/

namespace Astisub
namespace SSAR
open Go SSA
open Spec.SSA (SecKind secKind classify stylesOf eventsOf)

@[simp] theorem enter_first (k : SecKind) (st : St) : (enter k st).first = false := by cases k <;> rfl
@[simp] theorem enter_info (k : SecKind) (st : St) : (enter k st).info = st.info := by cases k <;> rfl
@[simp] theorem enter_styles (k : SecKind) (st : St) : (enter k st).styles = st.styles := by cases k <;> rfl
@[simp] theorem enter_events (k : SecKind) (st : St) : (enter k st).events = st.events := by cases k <;> rfl

theorem mapM_cons_some {α β} (f : α → Option β) (a : α) (as : List α) (L : List β)
    (h : Spec.SSA.mapM f (a :: as) = some L) : ∃ b bs, f a = some b ∧ Spec.SSA.mapM f as = some bs ∧ L = b :: bs := by
  rw [Spec.SSA.mapM] at h
  cases hb : f a with
  | none => simp [hb] at h
  | some b =>
    cases hbs : Spec.SSA.mapM f as with
    | none => simp [hb, hbs] at h
    | some bs =>
      simp only [hb, hbs, Option.some.injEq] at h
      exact ⟨b, bs, rfl, rfl, h.symm⟩

theorem evRel_append {es1 es2 : List Event} {rs1 rs2 : List Spec.SSA.REvent} (h1 : EvRel es1 rs1) (h2 : EvRel es2 rs2) :
    EvRel (es1 ++ es2) (rs1 ++ rs2) := by
  refine ⟨?_, ?_⟩
  · intro e he
    rcases List.mem_append.mp he with h | h
    · exact h1.1 e h
    · exact h2.1 e h
  · intro names hn
    rw [List.map_append, List.map_append, h1.2 names hn, h2.2 names hn]

theorem evRel_nil : EvRel [] [] := ⟨by simp, by simp⟩

theorem kvsOf_append (a b : List Str) : kvsOf (a ++ b) = kvsOf a ++ kvsOf b := by
  unfold kvsOf; rw [List.filterMap_append]

/-- the lines of all `[Script Info]` sections -/
def infoLines (secs : List (SecKind × List Str)) : List Str :=
  ((secs.filter fun s => s.1 = .info).map (·.2)).flatten

/-- the comments of all known sections -/
def knownComments (secs : List (SecKind × List Str)) : List Str :=
  ((secs.filter fun s => s.1 ≠ .unknown).map fun s => Spec.SSA.commentsOf s.2).flatten


theorem headersOk_plain {lines : List Str} (hp : headersOk lines = true) {h : Str} (hm : h ∈ lines) {k : SecKind}
    (hk : secKind h = some k) : plainName h = true := by
  unfold headersOk at hp
  have := List.all_eq_true.mp hp h hm
  rw [hk] at this
  simpa [plainName] using this

/-- **Sections.** The reader's loop over a grouped list of non-empty lines, when the decoder accepts every styles and
    events section and the class hypotheses hold: comments of the known sections are collected in order, script-info
    values are "last line wins, typed", and styles / events are appended section by section -/
theorem run_grouped : ∀ (secs : List (SecKind × List Str)) (lines : List Str) (st : St) (kvs : List (String × Str))
    (S : List (List Spec.SSA.GStyle)) (E : List (List Spec.SSA.REvent)),
    Grouped lines secs → (∀ l ∈ lines, l ≠ []) → headersOk lines = true → infoOk secs = true →
    (∀ l ∈ infoLines secs, lineSyn l = true) →
    Spec.SSA.mapM (fun s => stylesOf s.2 none) (secs.filter fun s => s.1 = .styles) = some S →
    Spec.SSA.mapM (fun s => eventsOf s.2 none) (secs.filter fun s => s.1 = .events) = some E →
    (∀ gs ∈ S.flatten, attrs64 gs.attrs = true) → (∀ r ∈ E.flatten, event64 r.ev = true) →
    st.first = false → InfoRel st.info.vals kvs →
    ∃ st', runL st lines = .ok st' ∧ st'.info.comments = st.info.comments ++ knownComments secs ∧
      InfoRel st'.info.vals (kvs ++ kvsOf (infoLines secs)) ∧
      (∃ ms, st'.styles = st.styles ++ ms ∧ ms.map styleView = S.flatten.map some) ∧
      (∃ es, st'.events = st.events ++ es ∧ EvRel es E.flatten) := by
  intro secs
  induction secs with
  | nil =>
    intro lines st kvs S E hg _ _ _ _ hS hE _ _ _ hrel
    have : lines = [] := hg
    subst this
    simp only [List.filter_nil, Spec.SSA.mapM, Option.some.injEq] at hS hE
    subst hS; subst hE
    exact ⟨st, rfl, by simp [knownComments], by simpa [infoLines, kvsOf] using hrel, ⟨[], by simp, rfl⟩, ⟨[], by simp, evRel_nil⟩⟩
  | cons s rest ih =>
    intro lines st kvs S E hg hne hp hio hsyn hS hE hS64 hE64 hf hrel
    obtain ⟨k, body⟩ := s
    obtain ⟨h, tail, hlines, hk, hbody, hgt⟩ := hg
    simp only at hlines hk hbody
    subst hlines
    have hplain := headersOk_plain hp (List.mem_cons_self) hk
    have hB : ∀ l ∈ body, BodyLine l := fun l hl => ⟨hbody l hl, hne l (by simp [hl])⟩
    have hne' : ∀ l ∈ tail, l ≠ [] := fun l hl => hne l (by simp [hl])
    have hp' : headersOk tail = true := by
      unfold headersOk at hp ⊢
      rw [List.all_eq_true] at hp ⊢
      intro x hx
      exact hp x (by simp [hx])
    have hio' : infoOk rest = true := by
      unfold infoOk at hio ⊢
      rw [List.all_cons, Bool.and_eq_true] at hio
      exact hio.2
    rw [runL, stepL_header st h k hk hplain]
    simp only
    rw [runL_append]
    cases k with
    | unknown =>
      have e1 : (enter .unknown st).sec = .unknown := rfl
      rw [run_unknown body _ e1 (enter_first _ _) hB]
      simp only
      have fS : (((SecKind.unknown, body) :: rest).filter fun s => s.1 = .styles) = rest.filter fun s => s.1 = .styles := by
        simp
      have fE : (((SecKind.unknown, body) :: rest).filter fun s => s.1 = .events) = rest.filter fun s => s.1 = .events := by
        simp
      rw [fS] at hS
      rw [fE] at hE
      have hsyn' : ∀ l ∈ infoLines rest, lineSyn l = true := fun l hl => hsyn l (by simpa [infoLines] using hl)
      obtain ⟨st', h1, h2, h3, h4, h5⟩ := ih tail (enter .unknown st) kvs S E hgt hne' hp' hio' hsyn' hS hE hS64 hE64 (enter_first _ _) (by simpa using hrel)
      refine ⟨st', h1, ?_, ?_, ?_, ?_⟩
      · rw [h2]; simp [knownComments]
      · simpa [infoLines] using h3
      · simpa using h4
      · simpa using h5
    | info =>
      have e1 : (enter .info st).sec = .scriptInfo := rfl
      have hiob : ∀ l ∈ body, infoLineOk l = true := by
        unfold infoOk at hio
        rw [List.all_cons, Bool.and_eq_true] at hio
        have := hio.1
        simp only [ne_eq, not_true_eq_false, decide_false, Bool.false_or] at this
        exact List.all_eq_true.mp this
      have hil : infoLines ((SecKind.info, body) :: rest) = body ++ infoLines rest := by simp [infoLines]
      have hsynb : ∀ l ∈ body, lineSyn l = true := fun l hl => hsyn l (by rw [hil]; simp [hl])
      have hsyn' : ∀ l ∈ infoLines rest, lineSyn l = true := fun l hl => hsyn l (by rw [hil]; simp [hl])
      obtain ⟨st1, r1, r2, r3, r4, r5, r6, r7⟩ :=
        run_info_sec body (enter .info st) kvs e1 (enter_first _ _) hB hsynb hiob (by simpa using hrel)
      rw [r1]
      simp only
      have fS : (((SecKind.info, body) :: rest).filter fun s => s.1 = .styles) = rest.filter fun s => s.1 = .styles := by
        simp
      have fE : (((SecKind.info, body) :: rest).filter fun s => s.1 = .events) = rest.filter fun s => s.1 = .events := by
        simp
      rw [fS] at hS
      rw [fE] at hE
      obtain ⟨st', h1, h2, h3, h4, h5⟩ := ih tail st1 _ S E hgt hne' hp' hio' hsyn' hS hE hS64 hE64 r3 r7
      refine ⟨st', h1, ?_, ?_, ?_, ?_⟩
      · rw [h2, r6]; simp [knownComments]
      · have : infoLines ((SecKind.info, body) :: rest) = body ++ infoLines rest := by simp [infoLines]
        rw [this, kvsOf_append, ← List.append_assoc]
        exact h3
      · rw [r4] at h4; simpa using h4
      · rw [r5] at h5; simpa using h5
    | styles =>
      have e1 : (enter .styles st).sec = .styles := rfl
      have e2 : (enter .styles st).format = [] := rfl
      have fS : (((SecKind.styles, body) :: rest).filter fun s => s.1 = .styles) = (SecKind.styles, body) :: rest.filter fun s => s.1 = .styles := by
        simp
      have fE : (((SecKind.styles, body) :: rest).filter fun s => s.1 = .events) = rest.filter fun s => s.1 = .events := by
        simp
      rw [fS] at hS
      rw [fE] at hE
      obtain ⟨g1, S', hg1, hS', hSe⟩ := mapM_cons_some _ _ _ _ hS
      subst hSe
      simp only at hg1
      obtain ⟨st1, r1, r2, r3, r4, r5, r6, ms1, r7, r8⟩ :=
        run_styles_sec body (enter .styles st) none g1 e1 (enter_first _ _) hB e2 hg1
          (fun gs hgs => hS64 gs (by simp [hgs]))
      rw [r1]
      simp only
      have hsyn' : ∀ l ∈ infoLines rest, lineSyn l = true := fun l hl => hsyn l (by simpa [infoLines] using hl)
      obtain ⟨st', h1, h2, h3, ⟨ms, h4, h4'⟩, ⟨es, h5, h5'⟩⟩ := ih tail st1 kvs S' E hgt hne' hp' hio' hsyn' hS' hE
        (fun gs hgs => hS64 gs (by simp only [List.flatten_cons, List.mem_append]; exact Or.inr hgs)) hE64 r3 (by rw [r5]; simpa using hrel)
      refine ⟨st', h1, ?_, ?_, ⟨ms1 ++ ms, ?_, ?_⟩, ⟨es, ?_, h5'⟩⟩
      · rw [h2, r6]; simp [knownComments]
      · simpa [infoLines] using h3
      · rw [h4, r7]; simp
      · simp [r8, h4']
      · rw [h5, r4]; simp
    | events =>
      have e1 : (enter .events st).sec = .events := rfl
      have e2 : (enter .events st).format = [] := rfl
      have fS : (((SecKind.events, body) :: rest).filter fun s => s.1 = .styles) = rest.filter fun s => s.1 = .styles := by
        simp
      have fE : (((SecKind.events, body) :: rest).filter fun s => s.1 = .events) = (SecKind.events, body) :: rest.filter fun s => s.1 = .events := by
        simp
      rw [fS] at hS
      rw [fE] at hE
      obtain ⟨r0, E', hr0, hE', hEe⟩ := mapM_cons_some _ _ _ _ hE
      subst hEe
      simp only at hr0
      obtain ⟨st1, r1, r2, r3, r4, r5, r6, es1, r7, r8⟩ :=
        run_events_sec body (enter .events st) none r0 e1 (enter_first _ _) hB e2 hr0
          (fun x hx => hE64 x (by simp [hx]))
      rw [r1]
      simp only
      have hsyn' : ∀ l ∈ infoLines rest, lineSyn l = true := fun l hl => hsyn l (by simpa [infoLines] using hl)
      obtain ⟨st', h1, h2, h3, ⟨ms, h4, h4'⟩, ⟨es, h5, h5'⟩⟩ := ih tail st1 kvs S E' hgt hne' hp' hio' hsyn' hS hE' hS64
        (fun x hx => hE64 x (by simp only [List.flatten_cons, List.mem_append]; exact Or.inr hx)) r3 (by rw [r5]; simpa using hrel)
      refine ⟨st', h1, ?_, ?_, ⟨ms, ?_, h4'⟩, ⟨es1 ++ es, ?_, ?_⟩⟩
      · rw [h2, r6]; simp [knownComments]
      · simpa [infoLines] using h3
      · rw [h4, r4]; simp
      · rw [h5, r7]; simp
      · simpa using evRel_append r8 h5'

end SSAR
end Astisub
