import Astisub.Lemmas.SSAW2Common

/-!
# Lemmas/SSAW2Info — the decoder's script-info reader on the `[Script Info]` block the writer emits

`infoOf_written`: on the (trimmed) comment and key lines of a good script info `b` (`InfoOK`, `Timer` surviving the
decoder's float reader) the decoder returns the comments of `b` and `infoG b`: every set key, in table order, with
the writer's typed value.
-/

namespace Astisub
namespace SSAW
open Go SSA SSAR List
open Spec.SSA (GVal GKind classify infoTable intOf floatOf infoOf commentsOf)

/-! ### the key lines as triples (key, value, written text) -/

/-- the triple of one key, if it is set -/
def tripleOf (b : Info) (f : SI) : Option (SI × Val × Str) :=
  (b.vals.get f).bind fun v => (siText v).map fun t => (f, v, t)

/-- the set keys among `fs` with their value and the text written for it -/
def infoTriples (b : Info) (fs : List SI) : List (SI × Val × Str) := fs.filterMap (tripleOf b)

theorem tripleOf_some {b : Info} {g f : SI} {v : Val} {t : Str} :
    tripleOf b g = some (f, v, t) ↔ g = f ∧ b.vals.get f = some v ∧ siText v = some t := by
  unfold tripleOf
  rw [Option.bind_eq_some_iff]
  constructor
  · rintro ⟨w, hget, h⟩
    rw [Option.map_eq_some_iff] at h
    obtain ⟨u, hu, he⟩ := h
    simp only [Prod.mk.injEq] at he
    obtain ⟨rfl, rfl, rfl⟩ := he
    exact ⟨rfl, hget, hu⟩
  · rintro ⟨rfl, hget, ht⟩
    exact ⟨v, hget, by rw [ht]; rfl⟩

theorem mem_infoTriples {b : Info} {fs : List SI} {f : SI} {v : Val} {t : Str} :
    (f, v, t) ∈ infoTriples b fs ↔ f ∈ fs ∧ b.vals.get f = some v ∧ siText v = some t := by
  unfold infoTriples
  rw [mem_filterMap]
  constructor
  · rintro ⟨g, hg, h⟩
    obtain ⟨rfl, h2, h3⟩ := tripleOf_some.mp h
    exact ⟨hg, h2, h3⟩
  · rintro ⟨hf, hget, ht⟩
    exact ⟨f, hf, tripleOf_some.mpr ⟨rfl, hget, ht⟩⟩

theorem infoTriples_keys_sublist (b : Info) : ∀ fs : List SI, ((infoTriples b fs).map (·.1)).Sublist fs := by
  intro fs
  induction fs with
  | nil => exact Sublist.slnil
  | cons f fs ih =>
    unfold infoTriples at ih ⊢
    rw [filterMap_cons]
    cases htr : tripleOf b f with
    | none => exact Sublist.cons _ ih
    | some p =>
      obtain ⟨g, v, t⟩ := p
      obtain ⟨rfl, _, _⟩ := tripleOf_some.mp htr
      exact Sublist.cons_cons _ ih

theorem fieldLine_eq (b : Info) (f : SI) :
    fieldLine b f = match b.vals.get f with
      | none => some []
      | some v => (siText v).map fun t => [kvLine f.header.toList t] := rfl

/-- the lines `ssaScriptInfo.bytes` writes for the keys `fs`, one per triple -/
theorem go_triples (b : Info) : ∀ (fs : List SI) (ls : List Str), Info.bytes.go (fieldLine b) fs = some ls →
    ls = (infoTriples b fs).map fun p => kvLine p.1.header.toList p.2.2 := by
  intro fs
  induction fs with
  | nil =>
    intro ls h
    simp only [Info.bytes.go, Option.some.injEq] at h
    subst h
    rfl
  | cons f fs ih =>
    intro ls h
    simp only [Info.bytes.go] at h
    cases hfl : fieldLine b f with
    | none => rw [hfl] at h; simp at h
    | some a =>
      cases hrest : Info.bytes.go (fieldLine b) fs with
      | none => rw [hfl, hrest] at h; simp at h
      | some r =>
        rw [hfl, hrest] at h
        simp only [Option.some.injEq] at h
        subst h
        have := ih r hrest
        rw [fieldLine_eq] at hfl
        unfold infoTriples at this ⊢
        rw [filterMap_cons]
        cases hget : b.vals.get f with
        | none =>
          simp only [hget, Option.some.injEq] at hfl
          subst hfl
          have : tripleOf b f = none := by unfold tripleOf; rw [hget]; rfl
          simp only [this, nil_append]
          assumption
        | some v =>
          simp only [hget] at hfl
          cases ht : siText v with
          | none => rw [ht] at hfl; cases hfl
          | some t =>
            rw [ht] at hfl
            simp only [Option.map_some, Option.some.injEq] at hfl
            subst hfl
            have : tripleOf b f = some (f, v, t) := tripleOf_some.mpr ⟨rfl, hget, ht⟩
            simp only [this, map_cons, cons_append, nil_append]
            congr 1

/-! ### one value -/

theorem commaToDot_replace (str : Str) (h : ',' ∉ str) : commaToDot (replaceAll ['.'] [','] str) = str := by
  rw [← replaceAll_commaToDot]
  exact replaceAll_comma_dot str h

/-- what the decoder makes of the text written for a good value of key `f` -/
theorem value_text (f : SI) (v : Val) (t : Str) (h : SIOK f v) (htm : valTimer v = true) (ht : siText v = some t) :
    Trimmed t ∧
    ((f.kind = .int ∧ ∃ i, v = .i i ∧ intOf t = some i) ∨
     (f.kind = .float ∧ ∃ bits, v = .f bits ∧ floatOf (commaToDot t) = some bits) ∨
     (f.kind = .str ∧ v = .s t ∧ t ≠ [])) := by
  obtain ⟨t', ht', htr, _, _⟩ := parse_written {} f v h
  rw [ht] at ht'
  injection ht' with ht'
  subst ht'
  refine ⟨htr, ?_⟩
  obtain ⟨hk, hv⟩ := h
  cases v with
  | b w => rcases si_kind f with e | e | e <;> rw [e] at hk <;> cases hk
  | c w => rcases si_kind f with e | e | e <;> rw [e] at hk <;> cases hk
  | i i =>
    left
    simp only [siText, Val.canon, Option.some.injEq] at ht
    subst ht
    exact ⟨hk.symm, i, rfl, spec_intOf_itoa i⟩
  | f bits =>
    right; left
    refine ⟨hk.symm, bits, rfl, ?_⟩
    simp only [valTimer, decTimer] at htm
    simp only [siText] at ht
    cases hs : formatFloatShortest bits with
    | none => rw [hs] at ht; cases ht
    | some str =>
      rw [hs] at ht htm
      simp only [Option.map_some, Option.some.injEq] at ht
      subst ht
      rw [commaToDot_replace str (not_mem_of_numChar (formatFloatShortest_numChar bits str hs))]
      simpa using htm
  | s str =>
    right; right
    simp only [siText, Val.canon, Option.some.injEq] at ht
    subst ht
    have hs : str ≠ [] ∧ Trimmed str ∧ '\n' ∉ str := hv
    exact ⟨hk.symm, rfl, hs.1⟩

/-! ### classification of the body -/

/-- the (trimmed) lines of the block after its header -/
def infoBody (b : Info) : List Str :=
  b.comments.map commentTrim ++ (infoTriples b SI.all).map fun p => kvTrim p.1.header.toList p.2.2

theorem ofList_header (f : SI) : String.ofList f.header.toList = f.header := String.ofList_toList

theorem commentsOf_append (a b : List Str) : commentsOf (a ++ b) = commentsOf a ++ commentsOf b := by
  unfold commentsOf; rw [filterMap_append]

theorem commentsOf_comments : ∀ cs : List Str, (∀ c ∈ cs, Trimmed c) → commentsOf (cs.map commentTrim) = cs := by
  intro cs
  induction cs with
  | nil => intro _; rfl
  | cons c cs ih =>
    intro h
    rw [map_cons, commentsOf_cons, classify_commentTrim c (h c mem_cons_self), ih fun x hx => h x (mem_cons_of_mem _ hx)]
    rfl

theorem kvsOf_comments : ∀ cs : List Str, (∀ c ∈ cs, Trimmed c) → kvsOf (cs.map commentTrim) = [] := by
  intro cs
  induction cs with
  | nil => intro _; rfl
  | cons c cs ih =>
    intro h
    rw [map_cons, kvsOf_cons, classify_commentTrim c (h c mem_cons_self), ih fun x hx => h x (mem_cons_of_mem _ hx)]
    rfl

/-- lines `Header: content` (trimmed) with good headers and contents: no comments, the pairs in order -/
theorem kv_lines : ∀ (ps : List (Str × Str)), (∀ p ∈ ps, HeaderOK p.1 ∧ Trimmed p.2) →
    commentsOf (ps.map fun p => kvTrim p.1 p.2) = [] ∧
    kvsOf (ps.map fun p => kvTrim p.1 p.2) = ps.map fun p => (String.ofList p.1, p.2) := by
  intro ps
  induction ps with
  | nil => intro _; exact ⟨rfl, rfl⟩
  | cons p ps ih =>
    intro h
    obtain ⟨h1, h2⟩ := ih fun x hx => h x (mem_cons_of_mem _ hx)
    have hc := classify_kvTrim p.1 p.2 (h p mem_cons_self).1 (h p mem_cons_self).2
    constructor
    · rw [map_cons, commentsOf_cons, hc, h1]; rfl
    · rw [map_cons, kvsOf_cons, hc, h2]; rfl

/-! ### look-ups -/

theorem lookup_none_of_not_mem' {β} (k : String) : ∀ (l : List (String × β)), k ∉ l.map (·.1) → l.lookup k = none := by
  intro l
  induction l with
  | nil => intro _; rfl
  | cons p rest ih =>
    intro h
    obtain ⟨a, b⟩ := p
    rw [map_cons, mem_cons, not_or] at h
    rw [lookup_cons]
    have : (k == a) = false := by simpa using h.1
    rw [this]
    exact ih h.2

theorem lookup_of_mem' {β} : ∀ (l : List (String × β)), (l.map (·.1)).Nodup → ∀ k v, (k, v) ∈ l → l.lookup k = some v := by
  intro l
  induction l with
  | nil => intro _ k v h; cases h
  | cons p rest ih =>
    intro hnd k v hm
    obtain ⟨a, b⟩ := p
    rw [map_cons, List.nodup_cons] at hnd
    rw [lookup_cons]
    rcases mem_cons.mp hm with he | hr
    · injection he with h1 h2
      subst h1; subst h2
      simp
    · have hne : (k == a) = false := by
        simp only [beq_eq_false_iff_ne, ne_eq]
        intro hab
        subst hab
        exact hnd.1 (mem_map.mpr ⟨(k, v), hr, rfl⟩)
      rw [hne]
      exact ih hnd.2 k v hr

theorem header_injective {f g : SI} (h : f.header = g.header) : f = g := by
  have h1 := siOfHeader_header f
  have h2 := siOfHeader_header g
  rw [h] at h1
  rw [h1] at h2
  exact Option.some.inj h2

/-- the decoder's `Key: value` pairs of the block -/
def infoKvs (b : Info) : List (String × Str) := (infoTriples b SI.all).map fun p => (p.1.header, p.2.2)

theorem infoKvs_keys_nodup (b : Info) : ((infoKvs b).map (·.1)).Nodup := by
  unfold infoKvs
  rw [map_map]
  have h1 : ((infoTriples b SI.all).map (·.1)).Nodup := (infoTriples_keys_sublist b SI.all).nodup si_all_nodup
  have : (infoTriples b SI.all).map ((fun p : String × Str => p.1) ∘ fun p => (p.1.header, p.2.2))
      = ((infoTriples b SI.all).map (·.1)).map SI.header := by rw [map_map]; rfl
  rw [this]
  unfold Nodup at h1 ⊢
  rw [pairwise_map]
  exact h1.imp (fun hne he => hne (header_injective he))

theorem infoKvs_lookup_some (b : Info) (f : SI) (v : Val) (t : Str) (hget : b.vals.get f = some v) (ht : siText v = some t) :
    (infoKvs b).reverse.lookup f.header = some t := by
  apply lookup_of_mem'
  · rw [map_reverse]; exact ((reverse_perm _).nodup_iff).mpr (infoKvs_keys_nodup b)
  · rw [mem_reverse]
    unfold infoKvs
    exact mem_map.mpr ⟨(f, v, t), mem_infoTriples.mpr ⟨si_all_complete f, hget, ht⟩, rfl⟩

theorem infoKvs_lookup_none (b : Info) (f : SI) (hget : b.vals.get f = none) :
    (infoKvs b).reverse.lookup f.header = none := by
  apply lookup_none_of_not_mem'
  intro hm
  rw [map_reverse, mem_reverse] at hm
  unfold infoKvs at hm
  rw [map_map] at hm
  obtain ⟨⟨g, v, t⟩, hp, he⟩ := mem_map.mp hm
  have hg : g = f := header_injective he
  subst hg
  have := (mem_infoTriples.mp hp).2.1
  rw [hget] at this
  cases this

/-! ### the block -/

/-- a script info the decoder reads back: `InfoOK` and `Timer` surviving the decoder's float reader -/
def InfoDec (b : Info) : Prop := InfoOK b ∧ ∀ v, b.vals.get SI.timer = some v → valTimer v = true

theorem valTimer_of (b : Info) (h : InfoDec b) (f : SI) (v : Val) (hget : b.vals.get f = some v) : valTimer v = true := by
  have hs : SIOK f v := h.1.2 f (si_all_complete f) v hget
  cases v with
  | f bits =>
    have hk : f.kind = .float := hs.1.symm
    have : f = SI.timer := by cases f <;> simp [SI.kind] at hk <;> rfl
    subst this
    exact h.2 _ hget
  | b _ => rfl
  | c _ => rfl
  | i _ => rfl
  | s _ => rfl

theorem infoEntry_written (b : Info) (h : InfoDec b) (f : SI) :
    specInfoEntry (infoKvs b) (f.header, f.key, gk f.kind) = some ((b.vals.get f).map fun v => (f.header, gval v)) := by
  cases hget : b.vals.get f with
  | none =>
    have hl := infoKvs_lookup_none b f hget
    rcases si_kind f with e | e | e <;> rw [e]
    · rw [show gk Kind.int = GKind.int from rfl, specInfoEntry_int, hl]; rfl
    · rw [show gk Kind.float = GKind.float from rfl, specInfoEntry_float, hl]; rfl
    · rw [show gk Kind.str = GKind.str from rfl, specInfoEntry_str, hl]; rfl
  | some v =>
    have hs : SIOK f v := h.1.2 f (si_all_complete f) v hget
    obtain ⟨t, ht, _⟩ := parse_written {} f v hs
    have hl := infoKvs_lookup_some b f v t hget ht
    obtain ⟨_, hcase⟩ := value_text f v t hs (valTimer_of b h f v hget) ht
    rcases hcase with ⟨e, i, rfl, hi⟩ | ⟨e, bits, rfl, hb⟩ | ⟨e, rfl, hne⟩ <;> rw [e]
    · rw [show gk Kind.int = GKind.int from rfl, specInfoEntry_int, hl]
      simp only [hi, Option.map_some]; rfl
    · rw [show gk Kind.float = GKind.float from rfl, specInfoEntry_float, hl]
      simp only [hb, Option.map_some]; rfl
    · rw [show gk Kind.str = GKind.str from rfl, specInfoEntry_str, hl]
      have : t.isEmpty = false := by cases t with | nil => exact absurd rfl hne | cons _ _ => rfl
      simp only [this, Bool.false_eq_true, ↓reduceIte, Option.map_some]; rfl

theorem infoAllOk_written (b : Info) (h : InfoDec b) : infoAllOk (infoKvs b) = true := by
  unfold infoAllOk
  rw [all_eq_true]
  rintro ⟨k, t⟩ hm
  unfold infoKvs at hm
  obtain ⟨⟨f, v, t'⟩, hp, he⟩ := mem_map.mp hm
  simp only [Prod.mk.injEq] at he
  obtain ⟨rfl, rfl⟩ := he
  obtain ⟨_, hget, ht⟩ := mem_infoTriples.mp hp
  have hs : SIOK f v := h.1.2 f (si_all_complete f) v hget
  obtain ⟨_, hcase⟩ := value_text f v t' hs (valTimer_of b h f v hget) ht
  have hfl := find_lookup infoTable f.header
  rw [infoTable_lookup] at hfl
  simp only
  cases hf : infoTable.find? (fun (h, _, _) => h = f.header) with
  | none => rfl
  | some e =>
    obtain ⟨h0, key, kind⟩ := e
    rw [hf] at hfl
    simp only [Option.map_some, Option.some.injEq, Prod.mk.injEq] at hfl
    obtain ⟨_, rfl⟩ := hfl
    simp only
    rcases hcase with ⟨e, i, rfl, hi⟩ | ⟨e, bits, rfl, hb⟩ | ⟨e, rfl, hne⟩ <;> rw [e]
    · simp [gk, hi]
    · have : floatOf (t'.map fun c => if c = ',' then '.' else c) = some bits := hb
      simp [gk, this]
    · simp [gk]

/-- **The script-info block.** On the trimmed body lines of the written block the decoder collects exactly the
    comments and returns every set key with the writer's typed value, in table order. -/
theorem infoOf_written (b : Info) (h : InfoDec b) :
    commentsOf (infoBody b) = b.comments ∧ infoOf (infoBody b) = some (infoG b) := by
  have hcom : ∀ c ∈ b.comments, Trimmed c := fun c hc => (h.1.1 c hc).1
  have hps : ∀ p ∈ (infoTriples b SI.all).map (fun p => (p.1.header.toList, p.2.2)), HeaderOK p.1 ∧ Trimmed p.2 := by
    intro p hp
    obtain ⟨⟨f, v, t⟩, hq, rfl⟩ := mem_map.mp hp
    obtain ⟨_, hget, ht⟩ := mem_infoTriples.mp hq
    have hs : SIOK f v := h.1.2 f (si_all_complete f) v hget
    exact ⟨si_headerOK f, (value_text f v t hs (valTimer_of b h f v hget) ht).1⟩
  obtain ⟨k1, k2⟩ := kv_lines _ hps
  rw [map_map] at k1 k2
  have ebody : infoBody b = b.comments.map commentTrim ++
      (infoTriples b SI.all).map ((fun p : Str × Str => kvTrim p.1 p.2) ∘ fun p => (p.1.header.toList, p.2.2)) := rfl
  have ekvs : kvsOf (infoBody b) = infoKvs b := by
    rw [ebody, kvsOf_append, kvsOf_comments _ hcom, k2, map_map, nil_append]
    unfold infoKvs
    apply map_congr_left
    intro p _
    simp only [Function.comp, ofList_header]
  constructor
  · rw [ebody, commentsOf_append, commentsOf_comments _ hcom, k1, append_nil]
  · rw [infoOf_eq, ekvs, infoAllOk_written b h]
    simp only [Bool.not_true, Bool.false_eq_true, ↓reduceIte]
    have hm : Spec.SSA.mapM id (infoTable.map (specInfoEntry (infoKvs b)))
        = some (SI.all.map fun f => (b.vals.get f).map fun v => (f.header, gval v)) := by
      rw [mapM_id_eq_some, infoTable_eq, map_map, map_map]
      apply map_congr_left
      intro f _
      exact infoEntry_written b h f
    rw [hm]
    simp only [Option.map_some, Option.some.injEq]
    unfold infoG
    rw [filterMap_map]
    rfl

end SSAW
end Astisub
