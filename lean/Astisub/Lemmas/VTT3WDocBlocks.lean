import Astisub.Lemmas.VTT3WDocLines

/-!
# Lemmas/VTT3WDocBlocks — the written document as groups of lines; the decoder's `block` on a written
comment block and on the written `STYLE` block
-/

namespace Astisub
namespace VTT3W
open Go Spec.VTT VTTRead

/-! ### the groups of the written document -/

/-- the comment block of a cue (without the blank line that ends it) -/
def noteBlock : List Str → List (List Str)
  | [] => []
  | c :: cs => [("NOTE ".toList ++ c) :: cs]

/-- the blocks of the cues: for every cue its comment block, if any, and its cue block -/
def cueBlocks (s : Subs) : Nat → List CItem → List (List Str)
  | _, [] => []
  | k, it :: rest => noteBlock it.comments ++ [VTT.cueCore s k it] ++ cueBlocks s (k + 1) rest

def styleBlocks (s : Subs) : List (List Str) :=
  if (VTT.styleLines s).isEmpty then [] else ["STYLE".toList :: VTT.styleLines s]

def regionLines (s : Subs) : List Str := (VTT.sortDefs s.regions).map (VTT.regionLine s)

def regionBlocks (s : Subs) : List (List Str) :=
  if s.regions.isEmpty then [] else [regionLines s]

/-- the blocks after the header -/
def restBlocks (s : Subs) : List (List Str) := styleBlocks s ++ regionBlocks s ++ cueBlocks s 0 s.items

theorem cuesLines2_seg (s : Subs) (items : List CItem) : ∀ k, VTT.cuesLines2 s k items = segLines (cueBlocks s k items) := by
  induction items with
  | nil => intro k; rfl
  | cons it rest ih =>
    intro k
    rw [VTT.cuesLines2, cueBlocks, segLines_append, segLines_append, ← ih (k + 1), VTT.cueLines2]
    cases hc : it.comments with
    | nil => simp [VTT.commentLines, noteBlock, segLines]
    | cons c cs => simp [VTT.commentLines, noteBlock, segLines]

theorem styleBlock_seg (s : Subs) : VTT.styleBlock s = segLines (styleBlocks s) := by
  unfold VTT.styleBlock styleBlocks
  split <;> simp [segLines]

theorem regionBlock_seg (s : Subs) : VTT.regionBlock s = segLines (regionBlocks s) := by
  unfold VTT.regionBlock regionBlocks regionLines
  split <;> simp [segLines]

/-- the written lines: `WEBVTT`, the timestamp map, then the blocks, each preceded by a blank line -/
theorem docLines2_seg (s : Subs) :
    VTT.docLines2 s = ("WEBVTT".toList :: VTT.tsmapLines s) ++ segLines (restBlocks s) := by
  unfold VTT.docLines2 restBlocks
  rw [segLines_append, segLines_append, ← cuesLines2_seg, ← styleBlock_seg, ← regionBlock_seg]
  simp

theorem cueBlocks_ne (s : Subs) (k : Nat) (items : List CItem) (h : items ≠ []) : cueBlocks s k items ≠ [] := by
  cases items with
  | nil => exact absurd rfl h
  | cons it rest =>
    rw [cueBlocks]
    cases it.comments <;> simp [noteBlock]

theorem restBlocks_ne (s : Subs) (h : s.items ≠ []) : restBlocks s ≠ [] := by
  unfold restBlocks
  intro e
  have := List.append_eq_nil_iff.mp e
  exact cueBlocks_ne s 0 s.items h this.2

/-! ### `noteLine` -/

theorem noteLine_first (c : Str) (hc : trimSpace c = c) : noteLine ("NOTE ".toList ++ c) = some c := by
  have e : "NOTE ".toList ++ c = "NOTE".toList ++ (' ' :: c) := rfl
  unfold noteLine
  rw [e, VTT.dropPrefix?_append]
  have hne : ¬ ("NOTE".toList ++ ' ' :: c = "NOTE".toList) := by rw [lit_note]; simp
  rw [if_neg hne]
  simp [isBlank, hc]

theorem hasPrefix_append (p r : Str) : hasPrefix p (p ++ r) = true := by
  unfold hasPrefix; rw [VTT.dropPrefix?_append]; rfl

/-- a line that is not `NOTE`, `NOTE …`, `NOTE<tab>…` opens no comment -/
theorem noteLine_plain (l : Str) (h1 : l ≠ "NOTE".toList) (h2 : hasPrefix "NOTE ".toList l = false)
    (h3 : tabNote l = false) : noteLine l = none := by
  unfold noteLine
  rw [if_neg h1]
  cases hd : dropPrefix? "NOTE".toList l with
  | none => rfl
  | some r =>
    have e := VTT.dropPrefix?_some hd
    cases r with
    | nil => exact absurd (by rw [e]; simp) h1
    | cons ch rest =>
      simp only
      by_cases hb : isBlank ch = true
      · exfalso
        have hb' : ch = ' ' ∨ ch = '\t' := by simpa [isBlank] using hb
        rcases hb' with rfl | rfl
        · have : hasPrefix "NOTE ".toList l = true := by
            rw [e]; exact hasPrefix_append "NOTE ".toList rest
          rw [this] at h2; cases h2
        · have : tabNote l = true := by
            rw [e]; exact hasPrefix_append "NOTE\t".toList rest
          rw [this] at h3; cases h3
      · rw [if_neg hb]

/-! ### comment blocks -/

theorem firstComment_spec {c : Str} (h : VTT.firstCommentOk c = true) : c ≠ [] ∧ trimSpace c = c := by
  simp only [VTT.firstCommentOk, Bool.and_eq_true, bne_iff_ne, ne_eq, beq_iff_eq] at h
  exact ⟨h.1.1, h.1.2⟩

theorem contComment_spec {c : Str} (h : VTT.contCommentOk c = true) :
    c ≠ [] ∧ trimSpace c = c ∧ contains Spec.VTT.arrow c = false ∧ c ≠ "NOTE".toList ∧
    hasPrefix "NOTE ".toList c = false := by
  simp only [VTT.contCommentOk, Bool.and_eq_true, bne_iff_ne, ne_eq, Bool.not_eq_true'] at h
  obtain ⟨⟨⟨h1, h2⟩, h3⟩, h4⟩ := h
  exact ⟨(firstComment_spec h1).1, (firstComment_spec h1).2, h2, h3, h4⟩

theorem map_self {f : Str → Str} (cs : List Str) (h : ∀ l ∈ cs, f l = l) : cs.map f = cs := by
  induction cs with
  | nil => rfl
  | cons x xs ih =>
    rw [List.map_cons, ih (fun y hy => h y (by simp [hy])), h x (by simp)]

/-- **comment block.** the decoder adds the written comment lines to the pending comments -/
theorem block_comment (ds : DocSt) (c : Str) (cs : List Str) (hok : VTT.commentsOk (c :: cs) = true)
    (hx : commentsW2 (c :: cs) = true) :
    block ds (("NOTE ".toList ++ c) :: cs) = some { ds with comments := ds.comments ++ (c :: cs) } := by
  simp only [VTT.commentsOk, Bool.and_eq_true, List.all_eq_true] at hok
  simp only [commentsW2, Bool.and_eq_true, Bool.not_eq_true', List.all_eq_true] at hx
  obtain ⟨hc0, hct⟩ := firstComment_spec hok.1
  have hnone : ∀ l ∈ cs, noteLine l = none := by
    intro l hl
    obtain ⟨_, _, _, g1, g2⟩ := contComment_spec (hok.2 l hl)
    exact noteLine_plain l g1 g2 (hx.2 l hl)
  have hany : ((c :: cs).any fun l => contains Spec.VTT.arrow l || decide (l = [])) = false := by
    rw [List.any_eq_false]
    intro l hl
    rcases List.mem_cons.mp hl with rfl | hl
    · simp [hx.1, hc0]
    · obtain ⟨g0, _, g2, _, _⟩ := contComment_spec (hok.2 l hl)
      simp [g2, g0]
  unfold block
  simp only [noteLine_first c hct, if_neg hc0, List.singleton_append]
  rw [map_self cs, hany]
  · simp
  · intro l hl
    simp only [hnone l hl]

/-- the lines of a written comment block are of the class `noteOK` -/
theorem noteOK_comment (c : Str) (cs : List Str) (hok : VTT.commentsOk (c :: cs) = true)
    (hx : commentsW2 (c :: cs) = true) : ∀ l ∈ ("NOTE ".toList ++ c) :: cs, noteOK l = true := by
  simp only [VTT.commentsOk, Bool.and_eq_true, List.all_eq_true] at hok
  simp only [commentsW2, Bool.and_eq_true, Bool.not_eq_true', List.all_eq_true] at hx
  obtain ⟨hc0, hct⟩ := firstComment_spec hok.1
  intro l hl
  rcases List.mem_cons.mp hl with rfl | hl
  · obtain ⟨x, xs, rfl⟩ : ∃ x xs, c = x :: xs := by
      cases c with
      | nil => exact absurd rfl hc0
      | cons a b => exact ⟨a, b, rfl⟩
    have hx0 : isSpace x = false := (VTT.trimmed_of_eq hct).1 x rfl
    unfold noteOK
    rw [VTT.dropPrefix?_append]
    have : hasPrefix "NOTE\t".toList ("NOTE ".toList ++ x :: xs) = false := by
      rw [lit_note_tab, lit_note_sp]
      simp [hasPrefix, dropPrefix?]
    rw [this]
    simp [hx0]
  · obtain ⟨_, _, _, _, g2⟩ := contComment_spec (hok.2 l hl)
    have g3 : hasPrefix "NOTE\t".toList l = false := hx.2 l hl
    unfold noteOK
    rw [g3]
    have : dropPrefix? "NOTE ".toList l = none := by
      unfold hasPrefix at g2
      cases hd : dropPrefix? "NOTE ".toList l with
      | none => rfl
      | some r => rw [hd] at g2; cases g2
    rw [this]
    rfl

/-! ### the `STYLE` block -/

theorem noteLine_style : noteLine "STYLE".toList = none := by decide

theorem styleLine_spec {l : Str} (h : VTT.styleLineOk l = true) :
    BLine l ∧ contains Spec.VTT.arrow l = false ∧ l ≠ "NOTE".toList ∧ hasPrefix "NOTE ".toList l = false ∧
    hasPrefix "Region: ".toList l = false ∧ hasPrefix "STYLE".toList l = false ∧
    hasPrefix "X-TIMESTAMP-MAP".toList l = false := by
  simp only [VTT.styleLineOk, Bool.and_eq_true, bne_iff_ne, ne_eq, beq_iff_eq, Bool.not_eq_true'] at h
  obtain ⟨⟨⟨⟨⟨⟨⟨⟨hne, htrim⟩, _⟩, harrow⟩, hn1⟩, hn2⟩, hr⟩, hs⟩, hx⟩ := h
  exact ⟨⟨htrim, hne⟩, harrow, hn1, hn2, hr, hs, hx⟩

theorem opener_styleLine {l : Str} (h : VTT.styleLineOk l = true) (ht : tabNote l = false) : opener l = false := by
  obtain ⟨_, _, h1, h2, h3, h4, h5⟩ := styleLine_spec h
  have ht' : hasPrefix "NOTE\t".toList l = false := ht
  unfold opener
  rw [h2, ht', h3, h4, h5]
  simp only [Bool.or_false]
  exact decide_eq_false h1

/-- **STYLE block.** the decoder keeps the written CSS lines -/
theorem block_style (ds : DocSt) (css : List Str) (hne : css ≠ []) (hls : ∀ l ∈ css, VTT.styleLineOk l = true)
    (htab : ∀ l ∈ css, tabNote l = false) (hend : (css.getLast?.map (hasSuffix ['}'])) ≠ some false) :
    block ds ("STYLE".toList :: css) = some { ds with styles := ds.styles ++ css } := by
  have hany : (css.any fun l => contains Spec.VTT.arrow l || opener l) = false := by
    rw [List.any_eq_false]
    intro l hl
    rw [(styleLine_spec (hls l hl)).2.1, opener_styleLine (hls l hl) (htab l hl)]
    simp
  unfold block
  simp only [noteLine_style, if_true]
  rw [hany]
  simp only [Bool.false_eq_true, if_false]
  cases hl : css.getLast? with
  | none => rw [List.getLast?_eq_none_iff] at hl; exact absurd hl hne
  | some z =>
    rw [hl] at hend
    simp only
    have hz : hasSuffix ['}'] z = true := by
      cases hz : hasSuffix ['}'] z with
      | true => rfl
      | false => rw [Option.map_some, hz] at hend; exact absurd rfl hend
    rw [if_pos hz]

end VTT3W
end Astisub
