import Astisub.Lemmas.SSARead2Scalar
import Astisub.Lemmas.SSARead2Text
import Astisub.Lemmas.SSA2Fix
import Astisub.Lemmas.SSARead2EventAux

/-!
# Lemmas/SSARead2Event — one `Dialogue:` row under any Format line the decoder accepts: model = decoder
-/

namespace Astisub
namespace SSAR
open Go SSA

/-- **Dialogue row.** `format` is the model's Format (trimmed column names; the decoder accepts any list of distinct
    known event columns).  If the decoder reads the row `v` as `r` and its integers fit 64 bits, then
    `newSSAEventFromString` succeeds, and for every list of style names `names` (none starting with `*`)
    `view` maps the item `ssaEvent.item` builds to the decoder's event with its style reference resolved. -/
theorem eventRow_spec (format : List Str) (v : Str) (r : Spec.SSA.REvent)
    (hnd : Spec.SSA.nodup (format.map String.ofList) = true)
    (hall : (format.map String.ofList).all (fun c => Spec.SSA.eventCols.contains c) = true)
    (h : Spec.SSA.eventOf (format.map String.ofList) v = some r) (h64 : event64 r.ev = true) :
    ∃ e, eventRow "Dialogue".toList v format = some e ∧ e.category = "Dialogue".toList ∧
      ∀ names : List Str, (∀ n ∈ names, n.head? ≠ some '*') →
        Spec.SSA.eventView (eventItem names e) = some { r.ev with style := Spec.SSA.resolve names r.styleName } := by
  -- `hall` is not needed: both sides ignore a column they do not know
  have _ := hall
  rw [eventOf_eq] at h
  simp only [List.length_map] at h
  by_cases hlen : (splitC ',' v).length < format.length
  · rw [if_pos hlen] at h; cases h
  rw [if_neg hlen] at h
  have hnd' := format_keys_nodup format (Spec.SSA.absorbLast format.length (splitC ',' v)) hnd
  unfold eventRow
  simp only
  rw [if_neg hlen, absorb_eq]
  generalize Spec.SSA.absorbLast format.length (splitC ',' v) = cells at *
  split at h
  · rename_i st en layer ml mr mv marked text hst hen hlayer hml hmr hmv hmarked htext
    injection h with h
    subst h
    simp only [event64, Bool.and_eq_true] at h64
    obtain ⟨⟨⟨⟨⟨okL, okML⟩, okMR⟩, okMV⟩, okS⟩, okE⟩ := h64
    exact row_core _ format cells hnd' st en layer ml mr mv marked text hst hen hlayer hml hmr hmv hmarked htext
      okS okE okL okML okMR okMV
  · cases h

end SSAR
end Astisub
