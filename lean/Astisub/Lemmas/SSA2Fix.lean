import Astisub.Lemmas.SSA2Read
import Astisub.Props.C04doc
import Astisub.Props.C19

/-!
# Lemmas/SSA2Fix — writing the normal form gives the same text

* `kvGet_mkAttrs_mem`: looking a key up in a canonical (sorted) attribute list;
* `ofCanon_canon`: `Val.ofCanon ∘ Val.canon = id` on good values;
* `infoOfMeta_metadata`, `styleOfDef_toDef`, `writerStyles_norm`: script info and styles survive
  `newSSAScriptInfo ∘ metadata` and `newSSAStyleFromStyle ∘ style`;
* `flat_lineRuns`: the runs `ssaEvent.item` cuts a line into concatenate to the line (all lines);
* `eventOfItem_eventItem`: `newSSAEventFromItem ∘ ssaEvent.item = id` on events in normal form;
* `write_norm`: `write (norm s) = write s`.
-/

namespace Astisub
namespace SSA
open Go List

/-! ### looking up in a canonical attribute list -/

theorem lookup_some_iff (l : KV) (h : l.Pairwise (fun a b => a.1 ≠ b.1)) (k v : Str) :
    l.lookup k = some v ↔ (k, v) ∈ l := by
  induction l with
  | nil => simp
  | cons e l ih =>
    obtain ⟨k', v'⟩ := e
    rw [pairwise_cons] at h
    rw [lookup_cons]
    by_cases hk : k = k'
    · subst hk
      have hnot : (k, v) ∉ l := fun hm => h.1 (k, v) hm rfl
      simp only [beq_self_eq_true, Option.some.injEq, mem_cons, Prod.mk.injEq, true_and, hnot, or_false]
      exact eq_comm
    · have hb : (k == k') = false := by simpa using hk
      simp only [hb, mem_cons, Prod.mk.injEq, hk, false_and, false_or]
      exact ih h.2

theorem lookup_perm {l₁ l₂ : KV} (hp : l₁.Perm l₂) (h : l₁.Pairwise (fun a b => a.1 ≠ b.1)) (k : Str) :
    l₁.lookup k = l₂.lookup k := by
  have h2 : l₂.Pairwise (fun a b => a.1 ≠ b.1) := (hp.pairwise_iff (fun hxy => Ne.symm hxy)).mp h
  apply Option.ext
  intro v
  rw [lookup_some_iff l₁ h, lookup_some_iff l₂ h2, hp.mem_iff]

theorem pairwise_key_unique {α β} : ∀ {l : List (α × β)}, l.Pairwise (fun a b => a.1 ≠ b.1) →
    ∀ a ∈ l, ∀ b ∈ l, a.1 = b.1 → a = b := by
  intro l
  induction l with
  | nil => intro _ a ha; cases ha
  | cons z zs ih =>
    intro hd a ha b hb hab
    rw [pairwise_cons] at hd
    rcases mem_cons.mp ha with rfl | ha' <;> rcases mem_cons.mp hb with rfl | hb'
    · rfl
    · exact absurd hab (hd.1 b hb')
    · exact absurd hab.symm (hd.1 a ha')
    · exact ih hd.2 a ha' b hb' hab

/-- an entry of `mkAttrs l` (keys of `l` distinct): the value listed for the key -/
theorem kvGet_mkAttrs_mem (l : List (String × Option Str)) (hd : l.Pairwise (fun a b => a.1 ≠ b.1)) (k : String)
    (o : Option Str) (hm : (k, o) ∈ l) : kvGet (some (mkAttrs l)) k = o := by
  have hd' : (l.filterMap fun (k, v) => v.map fun v => (k.toList, v)).Pairwise (fun a b => a.1 ≠ b.1) := by
    apply Pairwise.filterMap _ _ hd
    intro a a' hne b hb b' hb'
    obtain ⟨ka, va⟩ := a
    obtain ⟨ka', va'⟩ := a'
    cases va with
    | none => simp at hb
    | some x =>
      cases va' with
      | none => simp at hb'
      | some x' =>
        simp only [Option.map_some, Option.some.injEq] at hb hb'
        subst hb; subst hb'
        exact fun e => hne (String.toList_injective e)
  unfold kvGet mkAttrs sortKV
  simp only
  rw [lookup_perm (mergeSort_perm _ _) (by
    exact ((mergeSort_perm _ _).pairwise_iff (fun hxy => Ne.symm hxy)).mpr hd')]
  apply Option.ext
  intro v
  rw [lookup_some_iff _ hd', mem_filterMap]
  constructor
  · rintro ⟨⟨ka, va⟩, hmem, he⟩
    cases va with
    | none => simp at he
    | some x =>
      simp only [Option.map_some, Option.some.injEq, Prod.mk.injEq] at he
      obtain ⟨e1, e2⟩ := he
      have := String.toList_injective e1
      subst this; subst e2
      have := pairwise_key_unique hd _ hm _ hmem rfl
      simpa using this
  · intro ho
    subst ho
    exact ⟨(k, some v), hm, rfl⟩

theorem filterMap_congr' {α β} {f g : α → Option β} : ∀ {l : List α}, (∀ x ∈ l, f x = g x) → l.filterMap f = l.filterMap g := by
  intro l
  induction l with
  | nil => intro _; rfl
  | cons a as ih =>
    intro h
    rw [filterMap_cons, filterMap_cons, h a (by simp), ih (fun x hx => h x (by simp [hx]))]

theorem info_ext (a b : Info) (h1 : a.comments = b.comments) (h2 : a.vals = b.vals) : a = b := by
  cases a; cases b; simp only at h1 h2; subst h1; subst h2; rfl

theorem style_ext (a b : Style) (h1 : a.name = b.name) (h2 : a.vals = b.vals) : a = b := by
  cases a; cases b; simp only at h1 h2; subst h1; subst h2; rfl

/-! ### `Val.ofCanon ∘ Val.canon` -/

theorem hexNat_hex8 (c : Nat) (h : c < 4294967296) : hexNat (hex8 c) = c := by
  have h7 : c / 0x10000000 % 16 < 16 := Nat.mod_lt _ (by decide)
  have h6 : c / 0x1000000 % 16 < 16 := Nat.mod_lt _ (by decide)
  have h5 : c / 0x100000 % 16 < 16 := Nat.mod_lt _ (by decide)
  have h4 : c / 0x10000 % 16 < 16 := Nat.mod_lt _ (by decide)
  have h3 : c / 0x1000 % 16 < 16 := Nat.mod_lt _ (by decide)
  have h2 : c / 0x100 % 16 < 16 := Nat.mod_lt _ (by decide)
  have h1 : c / 0x10 % 16 < 16 := Nat.mod_lt _ (by decide)
  have h0 : c % 16 < 16 := Nat.mod_lt _ (by decide)
  unfold hexNat hex8
  simp only [foldl_cons, foldl_nil, C04.digitValBase_hex h7, C04.digitValBase_hex h6, C04.digitValBase_hex h5,
    C04.digitValBase_hex h4, C04.digitValBase_hex h3, C04.digitValBase_hex h2, C04.digitValBase_hex h1,
    C04.digitValBase_hex h0, Option.getD_some]
  have e1 : c / 16 / 16 = c / 256 := by rw [Nat.div_div_eq_div_mul]
  have e2 : c / 256 / 16 = c / 4096 := by rw [Nat.div_div_eq_div_mul]
  have e3 : c / 4096 / 16 = c / 65536 := by rw [Nat.div_div_eq_div_mul]
  have e4 : c / 65536 / 16 = c / 1048576 := by rw [Nat.div_div_eq_div_mul]
  have e5 : c / 1048576 / 16 = c / 16777216 := by rw [Nat.div_div_eq_div_mul]
  have e6 : c / 16777216 / 16 = c / 268435456 := by rw [Nat.div_div_eq_div_mul]
  have e7 : c / 268435456 / 16 = c / 4294967296 := by rw [Nat.div_div_eq_div_mul]
  omega

/-- a value whose canonical text denotes it: a 32-bit colour, a 64-bit integer (anything else always) -/
def CanonOK : Val → Prop
  | .c c => c < 4294967296
  | .i i => Int64 i
  | _ => True

/-- **`ofCanon ∘ canon = id`**: the typed value is recovered from its canonical text -/
theorem ofCanon_canon (v : Val) (h : CanonOK v) : Val.ofCanon v.kind v.canon = v := by
  cases v with
  | b w => cases w <;> simp [Val.ofCanon, Val.kind, Val.canon]
  | c c => simp only [Val.ofCanon, Val.kind, Val.canon, hexNat_hex8 c h]
  | f bits => simp only [Val.ofCanon, Val.kind, Val.canon, drop_succ_cons, drop_zero, natOfDigits_itoaNat]
  | i i => simp only [Val.ofCanon, Val.kind, Val.canon, atoiLoose_itoa i h]
  | s str => rfl

theorem canonOK_of_cellOK {f : Fld} {v : Val} (h : CellOK f v) : CanonOK v := by
  cases v with
  | c c => exact h.2
  | i i => exact h.2
  | _ => trivial

theorem canonOK_of_siOK {f : SI} {v : Val} (h : SIOK f v) : CanonOK v := by
  cases v with
  | c c => rcases si_kind f with e | e | e <;> (have := h.1; rw [e] at this; cases this)
  | i i => exact h.2
  | _ => trivial

/-! ### script info -/

theorem si_keys_pairwise : ("Comments" :: SI.all.map SI.key).Pairwise (· ≠ ·) := by decide

theorem meta_list_pairwise (c : Option Str) (g : SI → Option Str) :
    (("Comments", c) :: SI.all.map fun f => (f.key, g f)).Pairwise (fun a b => a.1 ≠ b.1) := by
  have := si_keys_pairwise
  rw [show ("Comments" :: SI.all.map SI.key) = ((("Comments", c) :: SI.all.map fun f => (f.key, g f)).map (·.1)) by
    simp [map_map, Function.comp]] at this
  exact pairwise_map.mp this

theorem kvGet_metadata_key (b : Info) (f : SI) : kvGet b.metadata f.key = (b.vals.get f).map Val.canon := by
  unfold Info.metadata
  apply kvGet_mkAttrs_mem _ (meta_list_pairwise _ _)
  exact mem_cons_of_mem _ (mem_map.mpr ⟨f, si_all_complete f, rfl⟩)

theorem kvGet_metadata_comments (b : Info) :
    kvGet b.metadata "Comments" = if b.comments.isEmpty then none else some (join ['\n'] b.comments) := by
  unfold Info.metadata
  apply kvGet_mkAttrs_mem _ (meta_list_pairwise _ _)
  exact mem_cons_self

theorem splitC_join_nl : ∀ (cs : List Str), cs ≠ [] → (∀ c ∈ cs, '\n' ∉ c) → splitC '\n' (join ['\n'] cs) = cs := by
  intro cs
  induction cs with
  | nil => intro h; exact absurd rfl h
  | cons a rest ih =>
    intro _ h
    cases rest with
    | nil => simpa [join] using splitC_not_mem (h a (by simp))
    | cons b r =>
      have e : join ['\n'] (a :: b :: r) = a ++ '\n' :: join ['\n'] (b :: r) := by simp [join]
      rw [e, splitC_append _ (h a (by simp)), ih (by simp) (fun c hc => h c (by simp [hc]))]

/-- the values of `infoOfMeta m` are tabulated in key order -/
theorem infoOfMeta_get (m : Attrs) (f : SI) :
    (infoOfMeta m).vals.get f = (kvGet m f.key).map (Val.ofCanon f.kind) := by
  unfold infoOfMeta Vals.get
  simp only
  have := lookup_tab (fun f => (kvGet m f.key).map (Val.ofCanon f.kind)) SI.all f
  simp only [Option.map_map, Function.comp_def] at this
  rw [this]
  simp [si_all_complete f]

theorem infoOfMeta_tabulated (m : Attrs) : tabulate (infoOfMeta m) SI.all = (infoOfMeta m).vals := by
  unfold tabulate
  simp only [infoOfMeta_get]
  unfold infoOfMeta
  simp only [Option.map_map, Function.comp_def]

/-- **Script info.** `newSSAScriptInfo (metadata b) = b` for the script info of a cue list when it is good -/
theorem infoOfMeta_metadata (m : Attrs) (h : InfoOK (infoOfMeta m)) :
    infoOfMeta (infoOfMeta m).metadata = infoOfMeta m := by
  have hvals : (infoOfMeta (infoOfMeta m).metadata).vals = (infoOfMeta m).vals := by
    rw [← infoOfMeta_tabulated m]
    have e : (infoOfMeta (infoOfMeta m).metadata).vals = SI.all.filterMap fun f =>
        (kvGet (infoOfMeta m).metadata f.key).map fun s => (f, Val.ofCanon f.kind s) := rfl
    rw [e]
    simp only [kvGet_metadata_key, Option.map_map]
    unfold tabulate
    apply filterMap_congr'
    intro f hf
    cases hget : (infoOfMeta m).vals.get f with
    | none => rfl
    | some v =>
      have hok := h.2 f hf v hget
      simp only [Option.map_some, Function.comp, Option.some.injEq, Prod.mk.injEq, true_and]
      rw [← hok.1]
      exact ofCanon_canon v (canonOK_of_siOK hok)
  have hcom : (infoOfMeta (infoOfMeta m).metadata).comments = (infoOfMeta m).comments := by
    have e : (infoOfMeta (infoOfMeta m).metadata).comments =
        match kvGet (infoOfMeta m).metadata "Comments" with | some c => splitC '\n' c | none => [] := rfl
    rw [e, kvGet_metadata_comments]
    have hnl := h.1
    generalize (infoOfMeta m).comments = cs at hnl ⊢
    cases cs with
    | nil => rfl
    | cons c cs =>
      simp only [isEmpty_cons, Bool.false_eq_true, ↓reduceIte]
      exact splitC_join_nl _ (by simp) (fun x hx => (hnl x hx).2)
  exact info_ext _ _ hcom hvals

theorem scriptType_metadata (m : Attrs) :
    kvGet (infoOfMeta m).metadata "SSAScriptType" = kvGet m "SSAScriptType" := by
  have := kvGet_metadata_key (infoOfMeta m) .scriptType
  rw [show SI.scriptType.key = "SSAScriptType" from rfl] at this
  rw [this, infoOfMeta_get]
  rw [show SI.scriptType.key = "SSAScriptType" from rfl]
  cases kvGet m "SSAScriptType" <;> rfl

/-! ### styles -/

theorem fld_keys_pairwise : (Fld.all.map Fld.key).Pairwise (· ≠ ·) := by decide

theorem def_list_pairwise (g : Fld → Option Str) :
    (Fld.all.map fun f => (f.key, g f)).Pairwise (fun a b => a.1 ≠ b.1) := by
  have := fld_keys_pairwise
  rw [show (Fld.all.map Fld.key) = ((Fld.all.map fun f => (f.key, g f)).map (·.1)) by
    simp [map_map, Function.comp]] at this
  exact pairwise_map.mp this

theorem kvGet_toDef_key (st : Style) (f : Fld) : kvGet st.toDef.attrs f.key = (st.vals.get f).map Val.canon := by
  unfold Style.toDef
  apply kvGet_mkAttrs_mem _ (def_list_pairwise _)
  exact mem_map.mpr ⟨f, C04.fld_all_complete f, rfl⟩

theorem styleOfDef_get (d : Def) (f : Fld) :
    (styleOfDef d).vals.get f = (kvGet d.attrs f.key).map (Val.ofCanon f.kind) := by
  unfold styleOfDef Vals.get
  simp only
  have := lookup_tab (fun f => (kvGet d.attrs f.key).map (Val.ofCanon f.kind)) Fld.all f
  simp only [Option.map_map, Function.comp_def] at this
  rw [this]
  simp [C04.fld_all_complete f]

/-- **Styles.** `newSSAStyleFromStyle (style st) = st` for the style built from a definition, when its cells are good -/
theorem styleOfDef_toDef (d : Def) (h : StyleOK (styleOfDef d)) :
    styleOfDef (styleOfDef d).toDef = styleOfDef d := by
  have hvals : (styleOfDef (styleOfDef d).toDef).vals = (styleOfDef d).vals := by
    have e : ∀ d' : Def, (styleOfDef d').vals = Fld.all.filterMap fun f =>
        (kvGet d'.attrs f.key).map fun s => (f, Val.ofCanon f.kind s) := fun _ => rfl
    rw [e (styleOfDef d).toDef, e d]
    simp only [kvGet_toDef_key, Option.map_map]
    apply filterMap_congr'
    intro f hf
    have hg := styleOfDef_get d f
    cases hk : kvGet d.attrs f.key with
    | none =>
      rw [hk] at hg
      simp only [Option.map_none] at hg
      rw [hg]
      rfl
    | some x =>
      rw [hk] at hg
      simp only [Option.map_some] at hg
      have hok := h.2 f hf _ hg
      rw [hg]
      simp only [Option.map_some, Function.comp, Option.some.injEq, Prod.mk.injEq, true_and]
      have := ofCanon_canon _ (canonOK_of_cellOK hok)
      rw [hok.1] at this
      exact this
  exact style_ext _ _ rfl hvals

theorem pairwise_leId_map {l : List Def} (g : Def → Def) (hg : ∀ d, (g d).id = d.id)
    (h : l.Pairwise (fun a b => C19.leId a b = true)) : (l.map g).Pairwise (fun a b => C19.leId a b = true) := by
  rw [pairwise_map]
  apply h.imp
  intro a b hab
  unfold C19.leId at hab ⊢
  rw [hg a, hg b]
  exact hab

/-- the sorted styles of the normal form are the sorted styles -/
theorem writerStyles_toDef (s : Subs) (h : ∀ st ∈ writerStyles s, StyleOK st) :
    (((writerStyles s).map Style.toDef).mergeSort fun a b => !strLt b.id a.id).map styleOfDef = writerStyles s := by
  have hsorted : ((writerStyles s).map Style.toDef).Pairwise (fun a b => C19.leId a b = true) := by
    unfold writerStyles
    rw [map_map]
    exact pairwise_leId_map _ (fun d => rfl) (pairwise_mergeSort C19.leId_trans C19.leId_total s.styles)
  have e : (fun a b : Def => !strLt b.id a.id) = C19.leId := rfl
  rw [e, mergeSort_of_pairwise hsorted, map_map]
  conv => rhs; rw [← map_id (writerStyles s)]
  apply map_congr_left
  intro st hst
  have hst' := hst
  unfold writerStyles at hst'
  obtain ⟨d, _, rfl⟩ := mem_map.mp hst'
  exact styleOfDef_toDef d (h _ hst)

/-! ### the runs of a line concatenate to the line -/

/-- what the writer emits for the runs of a line -/
def flatRuns (rs : List LItem) : Str := (rs.map fun li => (kvGet li.attrs "SSAEffect").getD [] ++ li.text).flatten

theorem kvGet_effAttrs (e : Str) : kvGet (effAttrs e) "SSAEffect" = some e := by
  simp [kvGet, effAttrs]

theorem segsF_flat : ∀ (fuel : Nat) (s acc : Str), s.length < fuel →
    ∃ t0 rest, segsF fuel s acc = .text t0 :: rest ∧ t0 ++ flatRuns (pairRuns rest) = acc.reverse ++ s := by
  intro fuel
  induction fuel with
  | zero => intro s acc h; simp at h
  | succ n ih =>
    intro s acc h
    cases s with
    | nil => exact ⟨acc.reverse, [], rfl, by simp [pairRuns, flatRuns]⟩
    | cons c cs =>
      have hlen : cs.length < n := by simpa using h
      unfold segsF
      by_cases hc : c = '{'
      · subst hc
        simp only [↓reduceIte]
        cases hEff : effLen cs 0 none with
        | none =>
          simp only
          obtain ⟨t0, rest, h1, h2⟩ := ih cs ('{' :: acc) hlen
          exact ⟨t0, rest, h1, by rw [h2]; simp⟩
        | some k =>
          simp only
          obtain ⟨t1, rest1, h1, h2⟩ := ih (cs.drop k) [] (by rw [length_drop]; omega)
          refine ⟨acc.reverse, _, rfl, ?_⟩
          rw [h1]
          simp only [pairRuns, flatRuns, map_cons, flatten_cons, kvGet_effAttrs, Option.getD_some]
          have h2' : t1 ++ (map (fun li => (kvGet li.attrs "SSAEffect").getD [] ++ li.text) (pairRuns rest1)).flatten = drop k cs := by
            simpa [flatRuns] using h2
          rw [append_assoc ('{' :: take k cs), h2']
          simp
      · simp only [hc, ↓reduceIte]
        obtain ⟨t0, rest, h1, h2⟩ := ih cs (c :: acc) hlen
        exact ⟨t0, rest, h1, by rw [h2]; simp⟩

/-- **Runs.** Whatever the line, the runs `ssaEvent.item` cuts it into (override blocks and texts)
    concatenate — as the writer concatenates them — to the line itself. -/
theorem flat_lineRuns (L : Str) : flatRuns (lineRuns L) = L := by
  obtain ⟨t0, rest, h1, h2⟩ := segsF_flat (L.length + 1) L [] (by omega)
  unfold lineRuns segs
  rw [h1]
  cases rest with
  | nil =>
    simp only
    simpa [flatRuns, kvGet, pairRuns] using h2
  | cons r rs =>
    simp only
    rw [← show t0 ++ flatRuns (pairRuns (r :: rs)) = L by simpa using h2]
    cases t0 with
    | nil => simp [flatRuns]
    | cons x xs => simp [flatRuns, kvGet]

/-! ### `newSSAEventFromItem ∘ ssaEvent.item` -/

theorem ev_keys_pairwise (a b c d e f : Option Str) :
    ([("SSAEffect", a), ("SSALayer", b), ("SSAMarginLeft", c), ("SSAMarginRight", d), ("SSAMarginVertical", e),
      ("SSAMarked", f)] : List (String × Option Str)).Pairwise (fun x y => x.1 ≠ y.1) := by
  simp [pairwise_cons]

theorem textLines_ne_nil (t : Str) : textLines t ≠ [] := by
  unfold textLines Go.splitOn
  rw [show ("\\n".toList).isEmpty = false from rfl]
  simp only [Bool.false_eq_true, ↓reduceIte, ne_eq, map_eq_nil_iff]
  exact splitOnAux_ne_nil _ _ _ _

theorem foldl_voice (nm : Str) (g : Str → List LItem) : ∀ (ls : List Str) (n0 : Str),
    (ls.map fun s => ({ voice := nm, items := g s } : Line)).foldl (fun n l => if l.voice.isEmpty then n else l.voice) n0
      = if ls = [] ∨ nm.isEmpty then n0 else nm := by
  intro ls
  induction ls with
  | nil => intro n0; simp
  | cons l ls ih =>
    intro n0
    simp only [map_cons, foldl_cons, ih]
    by_cases hn : nm.isEmpty = true
    · simp [hn]
    · simp [hn]

/-- the style named by an event is written back: no style, or the identifier of a style of the cue list other than `*Default` -/
def StyleRef (ids : List Str) (st : Str) : Prop := st = [] ∨ (st ∈ ids ∧ st ≠ "*Default".toList)

instance (ids : List Str) (st : Str) : Decidable (StyleRef ids st) :=
  inferInstanceAs (Decidable (st = [] ∨ (st ∈ ids ∧ st ≠ "*Default".toList)))

/-- the text is unchanged by the reader's line splitting: no `\N`, no space around a `\n` -/
def TextFix (t : Str) : Prop := join "\\n".toList (textLines t) = t

instance (t : Str) : Decidable (TextFix t) := inferInstanceAs (Decidable (join "\\n".toList (textLines t) = t))

theorem resolveStyle_ref (ids : List Str) (st : Str) (h : StyleRef ids st) : (resolveStyle ids st).getD [] = st := by
  unfold resolveStyle
  rcases h with rfl | ⟨hm, _⟩
  · rfl
  · cases st with
    | nil => rfl
    | cons c cs =>
      simp [hm]

theorem optInt_back (o : Option Int) (h : ∀ v, o = some v → Int64 v) : (o.map itoa).map atoiLoose = o := by
  cases o with
  | none => rfl
  | some v => simp [atoiLoose_itoa v (h v rfl)]

theorem optBool_back (o : Option Bool) : (o.map boolStr).map (fun s => decide (s = "true".toList)) = o := by
  cases o with
  | none => rfl
  | some b => cases b <;> rfl

theorem optStr_getD (s : Str) : (optStr s).getD [] = s := by
  cases s <;> rfl

/-- an event `ssaEvent.item` and `newSSAEventFromItem` take back to itself -/
structure EventBack (ids : List Str) (x : Event) : Prop where
  cat : x.category = "Dialogue".toList
  style : StyleRef ids x.style
  layer : ∀ v, x.layer = some v → Int64 v
  marginL : ∀ v, x.marginL = some v → Int64 v
  marginR : ∀ v, x.marginR = some v → Int64 v
  marginV : ∀ v, x.marginV = some v → Int64 v
  text : TextFix x.text

/-- **Event → cue → event.** `newSSAEventFromItem (ssaEvent.item e) = e` -/
theorem eventOfItem_eventItem (ids : List Str) (x : Event) (h : EventBack ids x) :
    eventOfItem (eventItem ids x) = x := by
  obtain ⟨cat, eff, en, lay, mk, ml, mr, mv, nm, st, sty, tx⟩ := x
  obtain ⟨hcat, hsty, hl, hml, hmr, hmv, htx⟩ := h
  simp only at hcat hsty hl hml hmr hmv htx
  have hp := ev_keys_pairwise (optStr eff) (lay.map itoa) (ml.map itoa) (mr.map itoa) (mv.map itoa) (mk.map boolStr)
  unfold eventOfItem eventItem
  simp only [Event.mk.injEq]
  refine ⟨hcat.symm, ?_, trivial, ?_, ?_, ?_, ?_, ?_, ?_, trivial, ?_, ?_⟩
  · rw [kvGet_mkAttrs_mem _ hp "SSAEffect" (optStr eff) (by simp)]
    exact optStr_getD eff
  · rw [kvGet_mkAttrs_mem _ hp "SSALayer" (lay.map itoa) (by simp)]
    exact optInt_back lay hl
  · rw [kvGet_mkAttrs_mem _ hp "SSAMarked" (mk.map boolStr) (by simp)]
    exact optBool_back mk
  · rw [kvGet_mkAttrs_mem _ hp "SSAMarginLeft" (ml.map itoa) (by simp)]
    exact optInt_back ml hml
  · rw [kvGet_mkAttrs_mem _ hp "SSAMarginRight" (mr.map itoa) (by simp)]
    exact optInt_back mr hmr
  · rw [kvGet_mkAttrs_mem _ hp "SSAMarginVertical" (mv.map itoa) (by simp)]
    exact optInt_back mv hmv
  · rw [foldl_voice nm lineRuns (textLines tx) []]
    simp only [textLines_ne_nil, false_or]
    cases nm <;> rfl
  · exact resolveStyle_ref ids sty hsty
  · rw [map_map]
    have : (fun l : Line => (l.items.map fun li => (kvGet li.attrs "SSAEffect").getD [] ++ li.text).flatten)
        ∘ (fun s => ({ voice := nm, items := lineRuns s } : Line)) = fun s => s := by
      funext s
      exact flat_lineRuns s
    rw [this, map_id']
    exact htx

end SSA
end Astisub
