import Astisub.Lemmas.VTT3Defs

/-!
# Lemmas/VTT3DocNorm — the read clause with inline timestamps, document level (1):
norm facts, the relation `R2` (the reader's state against a *phantom* decoder state), and the blocks
that do not look at the cues
-/

set_option linter.unusedSimpArgs false

namespace Astisub
namespace VTTRead
open Go Spec.VTT
open VTT (St step run Block)

/-! ### `normLine` up to blank runs and zero timestamps -/

theorem zeroTsRun_text (r : GRun) : (zeroTsRun r).text = r.text := by
  unfold zeroTsRun
  by_cases h : (r.ts == some 0) = true
  · rw [if_pos h]
  · rw [if_neg h]

theorem nb_zeroTsRun (r : GRun) : nb (zeroTsRun r) = nb r := by
  unfold nb
  rw [zeroTsRun_text]

theorem filter_nb_map_zero : ∀ (rs : List GRun), (rs.map zeroTsRun).filter nb = (rs.filter nb).map zeroTsRun := by
  intro rs
  induction rs with
  | nil => rfl
  | cons r rs ih =>
    simp only [List.map_cons, List.filter_cons, nb_zeroTsRun]
    by_cases h : nb r = true
    · rw [if_pos h, if_pos h, List.map_cons, ih]
    · rw [if_neg h, if_neg h, ih]

theorem normLine_eq (l : GLine) :
    normLine l = { l with runs := (mergeRuns (l.runs.filter nb)).filter nb } := rfl

/-- runs-with-text equal ⇒ same normal form, after the zero timestamps are erased -/
theorem normLine_phantom (v : Str) (rs runs : List GRun) (h : rs.filter nb = runs.filter nb) :
    normLine { voice := v, runs := rs.map zeroTsRun } = normLine (zeroTsLine { voice := v, runs := runs }) := by
  rw [normLine_eq, normLine_eq]
  unfold zeroTsLine
  simp only
  rw [filter_nb_map_zero, filter_nb_map_zero, h]

/-! ### the phantom state -/

/-- the decoder's state with other cues -/
def swapC (cs : List GCue) (ds : DocSt) : DocSt := { ds with cues := cs }

/-- the reader's state `ms` holds what the decoder's state `ds` holds, up to blank runs and zero
    timestamps in the cues: `cs` are the cues the reader really built, viewed -/
def R2 (ds : DocSt) (ms : St) : Prop :=
  ∃ cs : List GCue, R (swapC cs ds) ms ∧ cs.map normCue = (ds.cues.map zeroTsCue).map normCue

theorem phantom_isEmpty {cs dcs : List GCue} (h : cs.map normCue = (dcs.map zeroTsCue).map normCue) :
    cs.isEmpty = dcs.isEmpty := by
  have hl := congrArg List.length h
  simp only [List.length_map] at hl
  cases cs with
  | nil =>
    cases dcs with
    | nil => rfl
    | cons _ _ => simp at hl
  | cons _ _ =>
    cases dcs with
    | nil => simp at hl
    | cons _ _ => rfl

theorem R2_init : R2 {} {} := ⟨[], R_init, rfl⟩

/-- the blank line after a block -/
theorem step_blank_R2 {ds : DocSt} {ms : St} (hR : R2 ds ms) (raw : Str) (h : trimSpace raw = []) :
    ∃ ms', step ms (some raw) = .ok ms' ∧ R2 ds ms' ∧ Between ms' := by
  obtain ⟨cs, hR1, hc⟩ := hR
  obtain ⟨ms', h1, h2, h3⟩ := step_blank_R hR1 raw h
  exact ⟨ms', h1, ⟨cs, h2, hc⟩, h3⟩

/-! ### blocks that do not look at the cues -/

theorem block_note_swap (cs : List GCue) {ds ds' : DocSt} (first : Str) (rest : List Str) (c : Str)
    (hn : noteLine first = some c) (h : block ds (first :: rest) = some ds') :
    block (swapC cs ds) (first :: rest) = some (swapC cs ds') ∧ ds'.cues = ds.cues := by
  simp only [block, hn] at h ⊢
  generalize ((if c = [] then [] else [c]) ++ List.map (fun l => match noteLine l with | some c => c | none => l) rest) = all at h ⊢
  cases hany : all.any (fun l => contains Spec.VTT.arrow l || decide (l = [])) with
  | true => rw [hany] at h; simp at h
  | false =>
    rw [hany] at h
    simp only [Bool.false_eq_true, if_false, Option.some.injEq] at h ⊢
    subst h
    exact ⟨rfl, rfl⟩

theorem block_style_swap (cs : List GCue) {ds ds' : DocSt} (rest : List Str)
    (h : block ds ("STYLE".toList :: rest) = some ds') :
    block (swapC cs ds) ("STYLE".toList :: rest) = some (swapC cs ds') ∧ ds'.cues = ds.cues := by
  have hn : noteLine "STYLE".toList = none := by decide
  simp only [block, hn, if_true] at h ⊢
  cases hany : rest.any (fun l => contains Spec.VTT.arrow l || opener l) with
  | true => rw [hany] at h; simp at h
  | false =>
    rw [hany] at h
    simp only [Bool.false_eq_true, if_false] at h ⊢
    cases hlast : rest.getLast? with
    | none =>
      rw [hlast] at h
      simp only [Option.some.injEq] at h ⊢
      subst h
      exact ⟨rfl, rfl⟩
    | some l =>
      rw [hlast] at h
      simp only at h ⊢
      by_cases hsx : hasSuffix ['}'] l = true
      · rw [if_pos hsx] at h ⊢
        simp only [Option.some.injEq] at h ⊢
        subst h
        exact ⟨rfl, rfl⟩
      · rw [if_neg hsx] at h; cases h

theorem metaStep_swap (cs : List GCue) {ds ds1 : DocSt} (l : Str) (he : cs.isEmpty = ds.cues.isEmpty)
    (h : metaStep (some ds) l = some ds1) :
    metaStep (some (swapC cs ds)) l = some (swapC cs ds1) ∧ ds1.cues = ds.cues := by
  unfold metaStep at h ⊢
  simp only at h ⊢
  by_cases hr : hasPrefix "Region: ".toList l = true
  · rw [if_pos hr] at h ⊢
    cases hrl : regionLine l with
    | none => rw [hrl] at h; cases h
    | some r =>
      rw [hrl] at h
      simp only at h ⊢
      have e : (swapC cs ds).regions = ds.regions := rfl
      rw [e]
      cases hany : ds.regions.any (fun x => decide (x.id = r.id)) with
      | true => rw [hany] at h; simp at h
      | false =>
        rw [hany] at h
        simp only [Bool.false_eq_true, if_false, Option.some.injEq] at h ⊢
        subst h
        exact ⟨rfl, rfl⟩
  · rw [if_neg hr] at h ⊢
    cases htl : tsmapLine l with
    | none => rw [htl] at h; cases h
    | some m =>
      rw [htl] at h
      simp only at h ⊢
      have e1 : (swapC cs ds).tsmap = ds.tsmap := rfl
      have e2 : (swapC cs ds).cues = cs := rfl
      rw [e1, e2, he]
      cases hc : (ds.tsmap.isSome || !ds.cues.isEmpty) with
      | true => rw [hc] at h; simp at h
      | false =>
        rw [hc] at h
        simp only [Bool.false_eq_true, if_false, Option.some.injEq] at h ⊢
        subst h
        exact ⟨rfl, rfl⟩

theorem foldl_metaStep_swap (cs : List GCue) (b : List Str) : ∀ {ds ds' : DocSt}, cs.isEmpty = ds.cues.isEmpty →
    b.foldl metaStep (some ds) = some ds' →
    b.foldl metaStep (some (swapC cs ds)) = some (swapC cs ds') ∧ ds'.cues = ds.cues := by
  induction b with
  | nil =>
    intro ds ds' _ h
    simp only [List.foldl, Option.some.injEq] at h ⊢
    subst h
    exact ⟨rfl, rfl⟩
  | cons l ls ih =>
    intro ds ds' he h
    simp only [List.foldl] at h ⊢
    cases h1 : metaStep (some ds) l with
    | none => rw [h1, foldl_metaStep_none] at h; cases h
    | some ds1 =>
      rw [h1] at h
      obtain ⟨a1, a2⟩ := metaStep_swap cs l he h1
      rw [a1]
      obtain ⟨b1, b2⟩ := ih (ds := ds1) (by rw [a2]; exact he) h
      exact ⟨b1, by rw [b2, a2]⟩

/-! ### the three kinds of blocks without cues, on `R2` -/

theorem sim_note2 {ds ds' : DocSt} {ms : St} (hR : R2 ds ms) (hB : Between ms) (first : Str) (rest : List Str) (c : Str)
    (hl : ∀ l ∈ first :: rest, BLine l) (hok : ∀ l ∈ first :: rest, noteOK l = true)
    (hn : noteLine first = some c) (h : block ds (first :: rest) = some ds') :
    ∃ ms', run ms ((first :: rest).map some) = .ok ms' ∧ R2 ds' ms' := by
  obtain ⟨cs, hR1, hc⟩ := hR
  obtain ⟨a1, a2⟩ := block_note_swap cs first rest c hn h
  obtain ⟨ms', h1, h2⟩ := sim_note hR1 hB first rest c hl hok hn a1
  exact ⟨ms', h1, cs, h2, by rw [a2]; exact hc⟩

theorem sim_style2 {ds ds' : DocSt} {ms : St} (hR : R2 ds ms) (hB : Between ms) (rest : List Str)
    (hl : ∀ l ∈ "STYLE".toList :: rest, BLine l)
    (h : block ds ("STYLE".toList :: rest) = some ds') :
    ∃ ms', run ms (("STYLE".toList :: rest).map some) = .ok ms' ∧ R2 ds' ms' := by
  obtain ⟨cs, hR1, hc⟩ := hR
  obtain ⟨a1, a2⟩ := block_style_swap cs rest h
  obtain ⟨ms', h1, h2⟩ := sim_style hR1 hB rest hl a1
  exact ⟨ms', h1, cs, h2, by rw [a2]; exact hc⟩

theorem sim_meta2 (b : List Str) {ds ds' : DocSt} {ms : St} (hR : R2 ds ms) (hB : Between ms)
    (hl : ∀ l ∈ b, BLine l) (hok : ∀ l ∈ b, regionOK l = true) (hm : ∀ l ∈ b, metaT l = true)
    (h : b.foldl metaStep (some ds) = some ds') :
    run ms (b.map some) = .unmodelled ∨ ∃ ms', run ms (b.map some) = .ok ms' ∧ R2 ds' ms' ∧ Between ms' := by
  obtain ⟨cs, hR1, hc⟩ := hR
  obtain ⟨a1, a2⟩ := foldl_metaStep_swap cs b (phantom_isEmpty hc) h
  rcases sim_meta b hR1 hB hl hok hm a1 with h1 | ⟨ms', h1, h2, h3⟩
  · exact Or.inl h1
  · exact Or.inr ⟨ms', h1, ⟨cs, h2, by rw [a2]; exact hc⟩, h3⟩

end VTTRead
end Astisub
