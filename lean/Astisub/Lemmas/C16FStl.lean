import Astisub.Lemmas.C16FRnd
import Astisub.Model.Duration

/-!
# Lemmas/C16FStl — the hour / minute / second fields of the STL timecode writers, in binary64

`stl.go` (`formatDurationSTL`, `formatDurationSTLBytes`) obtains the three fields through
`time.Duration.Hours()`, `.Minutes()`, `.Seconds()`, which are float64 expressions
(`time/time.go`):

    func (d Duration) Hours() float64 { hour := d / Hour; nsec := d % Hour
                                        return float64(hour) + float64(nsec)/(60*60*1e9) }

    if d.Hours() < 10 { o += "0" }
    var delta = int(math.Floor(d.Hours())); o += strconv.Itoa(delta); d -= time.Duration(delta) * time.Hour
    … the same with Minutes(), Seconds() …
    var frames = int(int(d.Nanoseconds()) * framerate / 1e9)        // integer arithmetic

`Model/Duration.lean` (`formatSTL`, `formatSTLBytes`) models the fields by integer division.
`unitsF U d` evaluates `float64(d / U) + float64(d % U) / float64(U)` with the binary64 model;
the theorems show its floor is `d / U` and its comparison with 10 is `d / U < 10` as long as the
quotient is below 4096 — and that 4096 is sharp (`hoursF_wrong`).
-/

namespace Astisub
namespace C16F
open Go F53

/-- `float64(d / U) + float64(d % U) / float64(U)`: `Duration.Hours()` for `U = 3.6·10¹²`,
    `.Minutes()` for `U = 6·10¹⁰`, `.Seconds()` for `U = 10⁹` (the constants `60*60*1e9`, `60*1e9`,
    `1e9` are exact doubles) -/
def unitsF (U d : Int) : Dy :=
  Dy.add (Dy.ofInt (Int.tdiv d U)) (Dy.div (Dy.ofInt (Int.tmod d U)) (Dy.ofInt U))

def hoursF (d : Int) : Dy := unitsF 3600000000000 d
def minutesF (d : Int) : Dy := unitsF 60000000000 d
def secondsF (d : Int) : Dy := unitsF 1000000000 d

/-- the value of `unitsF` for a non-negative duration: both conversions are exact, the division
    and the addition are each rounded once -/
theorem unitsF_val (U d : Int) (hU0 : 0 < U) (hU : U ≤ 3600000000000) (hd0 : 0 ≤ d)
    (hd : d < 4096 * U) :
    (unitsF U d).val = rnd (((d / U : ℤ) : ℚ) + rnd (((d % U : ℤ) : ℚ) / (U : ℚ))) := by
  unfold unitsF
  have hq0 : 0 ≤ d / U := Int.ediv_nonneg hd0 (le_of_lt hU0)
  have hq : d / U < 4096 := Int.ediv_lt_of_lt_mul hU0 hd
  have hr0 : 0 ≤ d % U := Int.emod_nonneg d (ne_of_gt hU0)
  have hr : d % U < U := Int.emod_lt_of_pos d hU0
  rw [Int.tdiv_eq_ediv_of_nonneg hd0, Int.tmod_eq_emod_of_nonneg hd0]
  rw [add_val, div_val, ofInt_val, ofInt_val, ofInt_val,
    rnd_int (d / U) (by rw [abs_of_nonneg hq0]; omega),
    rnd_int (d % U) (by rw [abs_of_nonneg hr0]; omega),
    rnd_int U (by rw [abs_of_pos hU0]; omega)]

/-- **`math.Floor(d.Hours())` etc. is the integer quotient** while that quotient is below 4096. -/
theorem unitsF_floor (U d : Int) (hU0 : 0 < U) (hU : U ≤ 3600000000000) (hd0 : 0 ≤ d)
    (hd : d < 4096 * U) : (unitsF U d).floor = d / U := by
  have hq0 : 0 ≤ d / U := Int.ediv_nonneg hd0 (le_of_lt hU0)
  have hq : d / U < 4096 := Int.ediv_lt_of_lt_mul hU0 hd
  have hr0 : 0 ≤ d % U := Int.emod_nonneg d (ne_of_gt hU0)
  have hr : d % U < U := Int.emod_lt_of_pos d hU0
  rw [floor_val, unitsF_val U d hU0 hU hd0 hd]
  exact floor_add_div (d / U) (d % U) U hq0 hq hr0 hr hU

/-- **`d.Hours() < 10` etc. is the integer comparison** (the leading-zero test of the text writer). -/
theorem unitsF_lt10 (U d : Int) (hU0 : 0 < U) (hU : U ≤ 3600000000000) (hd0 : 0 ≤ d)
    (hd : d < 4096 * U) : Dy.lt (unitsF U d) (Dy.ofInt 10) = decide (d / U < 10) := by
  have hq0 : 0 ≤ d / U := Int.ediv_nonneg hd0 (le_of_lt hU0)
  have hq : d / U < 4096 := Int.ediv_lt_of_lt_mul hU0 hd
  have hr0 : 0 ≤ d % U := Int.emod_nonneg d (ne_of_gt hU0)
  have hr : d % U < U := Int.emod_lt_of_pos d hU0
  have h := lt_val (unitsF U d) (Dy.ofInt 10)
  rw [unitsF_val U d hU0 hU hd0 hd, ofInt_val, rnd_int 10 (by decide),
    add_div_lt_iff (d / U) (d % U) U 10 hq0 hq hr0 hr hU] at h
  by_cases c : d / U < 10
  · rw [h.mpr c]; simp [c]
  · have : Dy.lt (unitsF U d) (Dy.ofInt 10) ≠ true := fun e => c (h.mp e)
    simp only [Bool.not_eq_true] at this
    rw [this]; simp [c]

/-! ### the writers with the float fields -/

/-- `if x < 10 { o += "0" }; o += strconv.Itoa(int(math.Floor(x)))` -/
def pad2F (x : Dy) : Str := (if Dy.lt x (Dy.ofInt 10) then ['0'] else []) ++ itoa x.floor

/-- integer two-digit field (frames): `if v < 10 { o += "0" }; o += strconv.Itoa(v)` -/
def pad2I (v : Int) : Str := (if v < 10 then ['0'] else []) ++ itoa v

/-- `formatDurationSTL(d, framerate)` with the three float fields evaluated in binary64 and the
    duration reduced step by step as in the Go code -/
def formatSTLF (d : Int) (fr : Nat) : Str :=
  let h := (hoursF d).floor
  let d1 := d - h * 3600000000000
  let m := (minutesF d1).floor
  let d2 := d1 - m * 60000000000
  let s := (secondsF d2).floor
  let d3 := d2 - s * 1000000000
  let f := Int.tdiv (d3 * (fr : Int)) 1000000000
  pad2F (hoursF d) ++ pad2F (minutesF d1) ++ pad2F (secondsF d2) ++ pad2I f

/-- `formatDurationSTLBytes(d, framerate)` likewise; `byte(uint8(v))` keeps `v mod 256` -/
def formatSTLBytesF (d : Int) (fr : Nat) : List Nat :=
  let h := (hoursF d).floor
  let d1 := d - h * 3600000000000
  let m := (minutesF d1).floor
  let d2 := d1 - m * 60000000000
  let s := (secondsF d2).floor
  let d3 := d2 - s * 1000000000
  let f := Int.tdiv (d3 * (fr : Int)) 1000000000
  [(h % 256).toNat, (m % 256).toNat, (s % 256).toNat, (f % 256).toNat]

theorem pad2F_units (U d : Int) (hU0 : 0 < U) (hU : U ≤ 3600000000000) (hd0 : 0 ≤ d)
    (hd : d < 4096 * U) : pad2F (unitsF U d) = Duration.pad2 (d / U).toNat := by
  have hq0 : 0 ≤ d / U := Int.ediv_nonneg hd0 (le_of_lt hU0)
  unfold pad2F Duration.pad2
  rw [unitsF_lt10 U d hU0 hU hd0 hd, unitsF_floor U d hU0 hU hd0 hd]
  generalize d / U = q at hq0 ⊢
  unfold itoa
  rw [if_neg (Int.not_lt.mpr hq0)]
  by_cases c : q < 10
  · have c' : q.toNat < 10 := by omega
    simp [c, c']
  · have c' : ¬ q.toNat < 10 := by omega
    simp [c, c']

theorem pad2I_nat (v : Nat) : pad2I (v : Int) = Duration.pad2 v := by
  unfold pad2I Duration.pad2 itoa
  rw [if_neg (Int.not_lt.mpr (Int.natCast_nonneg _)), Int.toNat_natCast]
  by_cases c : v < 10
  · have c' : (v : Int) < 10 := by omega
    simp [c, c']
  · have c' : ¬ (v : Int) < 10 := by omega
    simp [c, c']

/-- the step-by-step reduction of the Go code, in integers: after the three floors are known to be
    the quotients, the remaining durations are the remainders -/
theorem stl_steps (d : Int) (hd0 : 0 ≤ d) (hd : d < 4096 * 3600000000000) :
    (hoursF d).floor = d / 3600000000000 ∧
    (minutesF (d - d / 3600000000000 * 3600000000000)).floor = d % 3600000000000 / 60000000000 ∧
    (secondsF (d - d / 3600000000000 * 3600000000000
        - d % 3600000000000 / 60000000000 * 60000000000)).floor = d % 60000000000 / 1000000000 ∧
    d - d / 3600000000000 * 3600000000000 = d % 3600000000000 ∧
    d % 3600000000000 - d % 3600000000000 / 60000000000 * 60000000000 = d % 60000000000 ∧
    d % 60000000000 - d % 60000000000 / 1000000000 * 1000000000 = d % 1000000000 := by
  have e1 : d - d / 3600000000000 * 3600000000000 = d % 3600000000000 := by omega
  have e2 : d % 3600000000000 - d % 3600000000000 / 60000000000 * 60000000000 = d % 60000000000 := by
    omega
  have e3 : d % 60000000000 - d % 60000000000 / 1000000000 * 1000000000 = d % 1000000000 := by omega
  refine ⟨?_, ?_, ?_, e1, e2, e3⟩
  · exact unitsF_floor _ d (by decide) (by decide) hd0 hd
  · rw [e1]
    exact unitsF_floor _ _ (by decide) (by decide) (by omega) (by omega)
  · rw [e1, e2]
    have := unitsF_floor 1000000000 (d % 60000000000) (by decide) (by decide) (by omega) (by omega)
    unfold secondsF; rw [this]

/-- integer view of the model's fields, for `d = n ≥ 0` -/
theorem nat_fields (n fr : Nat) :
    ((n : Int) / 3600000000000).toNat = n / 3600000000000 ∧
    ((n : Int) % 3600000000000 / 60000000000).toNat = n % 3600000000000 / 60000000000 ∧
    ((n : Int) % 60000000000 / 1000000000).toNat = n % 60000000000 / 1000000000 ∧
    Int.tdiv ((n : Int) % 1000000000 * (fr : Int)) 1000000000
      = ((n % 1000000000 * fr / 1000000000 : Nat) : Int) := by
  refine ⟨by omega, by omega, by omega, ?_⟩
  have e : (n : Int) % 1000000000 * (fr : Int) = ((n % 1000000000 * fr : Nat) : Int) := by
    push_cast; rfl
  rw [e, Int.tdiv_eq_ediv_of_nonneg (Int.natCast_nonneg _)]
  rfl

/-- **The text timecode of the float evaluation is the model's**, below 4096 hours. -/
theorem formatSTLF_eq (d : Int) (fr : Nat) (hd0 : 0 ≤ d) (hd : d < 4096 * 3600000000000) :
    formatSTLF d fr = Duration.formatSTL d fr := by
  obtain ⟨h1, h2, h3, e1, e2, e3⟩ := stl_steps d hd0 hd
  unfold formatSTLF
  simp only []
  rw [h1, h2, h3, e1, e2, e3]
  unfold hoursF minutesF secondsF
  rw [pad2F_units _ d (by decide) (by decide) hd0 hd,
    pad2F_units _ (d % 3600000000000) (by decide) (by decide) (by omega) (by omega),
    pad2F_units _ (d % 60000000000) (by decide) (by decide) (by omega) (by omega)]
  obtain ⟨n, rfl⟩ : ∃ n : Nat, d = (n : Int) := ⟨d.toNat, by omega⟩
  obtain ⟨a1, a2, a3, a4⟩ := nat_fields n fr
  have a2' : ((n : Int) % 3600000000000 / 60000000000).toNat = n % 3600000000000 / 60000000000 := a2
  rw [a1, a2', a3, a4, pad2I_nat]
  unfold Duration.formatSTL
  simp only [Int.toNat_natCast]

/-- **The binary timecode of the float evaluation is the model's**, below 4096 hours and for a
    frame rate that fits a byte. -/
theorem formatSTLBytesF_eq (d : Int) (fr : Nat) (hfr : fr ≤ 256) (hd0 : 0 ≤ d)
    (hd : d < 4096 * 3600000000000) :
    formatSTLBytesF d fr = Duration.formatSTLBytes d fr := by
  obtain ⟨h1, h2, h3, e1, e2, e3⟩ := stl_steps d hd0 hd
  unfold formatSTLBytesF
  simp only []
  rw [h1, h2, h3, e1, e2, e3]
  obtain ⟨n, rfl⟩ : ∃ n : Nat, d = (n : Int) := ⟨d.toNat, by omega⟩
  obtain ⟨_, _, _, a4⟩ := nat_fields n fr
  rw [a4]
  unfold Duration.formatSTLBytes
  simp only [Int.toNat_natCast]
  have hf : n % 1000000000 * fr / 1000000000 < 256 := by
    have : n % 1000000000 * fr < 1000000000 * 256 := by
      have h1 : n % 1000000000 < 1000000000 := Nat.mod_lt _ (by decide)
      calc n % 1000000000 * fr ≤ n % 1000000000 * 256 := Nat.mul_le_mul_left _ hfr
        _ < 1000000000 * 256 := Nat.mul_lt_mul_of_pos_right h1 (by decide)
    omega
  generalize n % 1000000000 * fr / 1000000000 = F at hf ⊢
  have b1 : ((n : Int) / 3600000000000 % 256).toNat = n / 3600000000000 % 256 := by omega
  have b2 : ((n : Int) % 3600000000000 / 60000000000 % 256).toNat = n % 3600000000000 / 60000000000 := by
    omega
  have b3 : ((n : Int) % 60000000000 / 1000000000 % 256).toNat = n % 60000000000 / 1000000000 := by
    omega
  have b4 : ((F : Int) % 256).toNat = F := by omega
  rw [b1, b2, b3, b4]

end C16F
end Astisub
