import Astisub.Lemmas.TeleRow

/-!
# Lemmas/TeleCharset — character sets: every table `updateCharset` can build is "solid", and agrees with the
specification's look-up

* `Solid c`: code 0x20 is the blank, every other code 0x21..0x7f is one character that is not white space.
  Proved for every table `computeCharset` can return (`computeCharset_solid`), from per-table checks of the
  regenerated G0 and national option tables plus a structural lemma on the patch loop.
* For solid tables Go's `strings.TrimSpace` and the specification's blank stripping coincide on decoded text, and a
  decoded text is blank exactly when all its codes are 0x20.
* `computeCharset_agrees`: for every designation the package knows, `decodeChar (computeCharset triplet code)` is the
  specification's `charOf (triplet's key) code` on 0x20..0x7f — `C06_charset_agree` for arbitrary triplets.
-/

namespace Astisub
namespace Teletext
open Go Generated.Teletext

/-! ## solid tables -/

/-- one character that is not white space -/
def inkB (s : Str) : Bool := match s with | [ch] => !isSpace ch | _ => false

/-- code 0x20 is the blank and every other code is one visible character (decidable) -/
def solidB (c : Charset) : Bool :=
  c.getD 0 [] == [' '] && (List.range 95).all fun i => inkB (c.getD (i + 1) [])

structure Solid (c : Charset) : Prop where
  blank : c.getD 0 [] = [' ']
  ink : ∀ i, 1 ≤ i → i < 96 → inkB (c.getD i []) = true

theorem solid_of_solidB (c : Charset) (h : solidB c = true) : Solid c := by
  simp only [solidB, Bool.and_eq_true, beq_iff_eq, List.all_eq_true, List.mem_range] at h
  refine ⟨h.1, fun i h1 h2 => ?_⟩
  have := h.2 (i - 1) (by omega)
  rwa [show i - 1 + 1 = i by omega] at this

theorem solidB_of_solid (c : Charset) (h : Solid c) : solidB c = true := by
  simp only [solidB, Bool.and_eq_true, beq_iff_eq, List.all_eq_true, List.mem_range]
  exact ⟨h.blank, fun i hi => h.ink (i + 1) (by omega) (by omega)⟩

theorem solid_g0_0 : solidB (toCharset g0_0) = true := by decide +kernel
theorem solid_g0_1 : solidB (toCharset g0_1) = true := by decide +kernel
theorem solid_g0_2 : solidB (toCharset g0_2) = true := by decide +kernel
theorem solid_g0_3 : solidB (toCharset g0_3) = true := by decide +kernel
theorem solid_g0_4 : solidB (toCharset g0_4) = true := by decide +kernel

theorem solid_g0 (g : Nat) (h : g < g0Tables.length) : Solid (toCharset (g0Tables.getD g [])) := by
  apply solid_of_solidB
  have : g = 0 ∨ g = 1 ∨ g = 2 ∨ g = 3 ∨ g = 4 := by simp [g0Tables] at h; omega
  rcases this with h | h | h | h | h <;> subst h
  · exact solid_g0_0
  · exact solid_g0_1
  · exact solid_g0_2
  · exact solid_g0_3
  · exact solid_g0_4

theorem ink_nat : ∀ t ∈ natTables, (toCharset t).all inkB = true := by decide +kernel

theorem ink_nat' (n : Nat) : ∀ v ∈ toCharset (natTables.getD n []), inkB v = true := by
  by_cases h : n < natTables.length
  · have hm : natTables.getD n [] ∈ natTables := by
      rw [List.getD_eq_getElem?_getD, List.getElem?_eq_getElem h]; exact List.getElem_mem h
    have := ink_nat _ hm
    simpa [List.all_eq_true] using this
  · have : natTables.getD n [] = [] := by
      rw [List.getD_eq_getElem?_getD, List.getElem?_eq_none (by omega)]; rfl
    rw [this]; simp [toCharset]

theorem getD_set (c : Charset) (p : Nat) (v : Str) (i : Nat) :
    (c.set p v).getD i [] = if p = i ∧ p < c.length then v else c.getD i [] := by
  simp only [List.getD_eq_getElem?_getD, List.getElem?_set]
  by_cases h : p = i
  · subst h
    by_cases hl : p < c.length
    · simp [hl]
    · simp [hl, List.getElem?_eq_none (Nat.le_of_not_lt hl)]
  · simp [h]

theorem Solid.set {c : Charset} (h : Solid c) (p : Nat) (v : Str) (hp : p ≠ 0) (hv : inkB v = true) : Solid (c.set p v) := by
  refine ⟨?_, fun i h1 h2 => ?_⟩
  · rw [getD_set]
    have : ¬ (p = 0 ∧ p < c.length) := fun hh => hp hh.1
    rw [if_neg this]; exact h.blank
  · rw [getD_set]
    split
    · exact hv
    · exact h.ink i h1 h2

/-- the patch loop keeps a table solid: position 0 is not patched and the national characters are visible -/
theorem Solid.patch : ∀ (ps : List Nat) (vs : List Str) {c : Charset}, Solid c → (∀ p ∈ ps, p ≠ 0) → (∀ v ∈ vs, inkB v = true) →
    Solid (patchNational c ps vs)
  | [], _, _, h, _, _ => by simpa [patchNational] using h
  | _ :: _, [], _, h, _, _ => by simpa [patchNational] using h
  | p :: ps, v :: vs, _, h, hp, hv => by
    rw [patchNational]
    exact Solid.patch ps vs (h.set p v (hp p (by simp)) (hv v (by simp))) (fun q hq => hp q (by simp [hq]))
      (fun w hw => hv w (by simp [hw]))

theorem positions_ne_zero : ∀ p ∈ positions, p ≠ 0 := by decide

theorem solid_latin : Solid latinG0 := solid_g0 defaultG0 (by decide)

theorem lookupCharset_mem (key code : Nat) (x : Option Nat × Option Nat) (h : lookupCharset key code = some x) :
    ∃ e ∈ charsets, e.1 = key ∧ e.2.1 = code ∧ e.2.2 = x := by
  unfold lookupCharset at h
  cases hf : charsets.find? (fun e => e.1 == key && e.2.1 == code) with
  | none => simp [hf] at h
  | some e =>
    simp [hf] at h
    have hm := List.mem_of_find?_eq_some hf
    have hp := List.find?_some hf
    simp at hp
    exact ⟨e, hm, hp.1, hp.2, h⟩

/-- **every table the character decoder can build is solid** -/
theorem computeCharset_solid (triplet code : Nat) : Solid (computeCharset triplet code) := by
  unfold computeCharset
  cases hl : lookupCharset (keyOf triplet) code with
  | none => exact solid_latin
  | some x =>
    obtain ⟨g0, nat⟩ := x
    cases g0 with
    | none => exact solid_latin
    | some g0 =>
      obtain ⟨e, hm, _, _, h3⟩ := lookupCharset_mem _ _ _ hl
      have hok := C06.C06_charsets_total e hm
      simp only [C06.entryOk, h3, Bool.and_eq_true, decide_eq_true_eq] at hok
      have hs := solid_g0 g0 hok.1
      cases nat with
      | none => exact hs
      | some n => exact hs.patch positions _ positions_ne_zero (ink_nat' n)

/-! ## decoded text over a solid table -/

/-- character codes a row can hold as text -/
def Printable (codes : List Nat) : Prop := ∀ v ∈ codes, 0x20 ≤ v ∧ v < 0x80

instance (codes : List Nat) : Decidable (Printable codes) := by unfold Printable; infer_instance

theorem decodeChar_printable (c : Charset) (v : Nat) (h1 : 0x20 ≤ v) (h2 : v < 0x80) :
    decodeChar c v = c.getD (v - 0x20) [] := by
  have : ¬ (v < 0x20 ∨ v > 0x7f) := by omega
  simp [decodeChar, this]

theorem Solid.decode_blank {c : Charset} (h : Solid c) : decodeChar c 0x20 = [' '] := by
  rw [decodeChar_printable c _ (by decide) (by decide)]; exact h.blank

theorem Solid.decode_ink {c : Charset} (h : Solid c) (v : Nat) (h1 : 0x20 < v) (h2 : v < 0x80) :
    inkB (decodeChar c v) = true := by
  rw [decodeChar_printable c _ (by omega) h2]; exact h.ink _ (by omega) (by omega)

theorem inkB_elim (s : Str) (h : inkB s = true) : ∃ ch, s = [ch] ∧ isSpace ch = false := by
  match s, h with
  | [ch], h => exact ⟨ch, rfl, by simpa [inkB] using h⟩

/-- in a text decoded over a solid table the only white space is the blank -/
theorem Solid.space_is_blank {c : Charset} (h : Solid c) : ∀ (codes : List Nat), Printable codes →
    ∀ ch ∈ dec c codes, isSpace ch = true → ch = ' '
  | [], _, ch, hm, _ => by simp [dec] at hm
  | v :: codes, hp, ch, hm, hs => by
    simp only [dec, List.flatMap_cons, List.mem_append] at hm
    rcases hm with hm | hm
    · by_cases hv : v = 0x20
      · subst hv; rw [h.decode_blank] at hm; simpa using hm
      · obtain ⟨x, hx, hsx⟩ := inkB_elim _ (h.decode_ink v (by have := hp v (by simp); omega) (hp v (by simp)).2)
        rw [hx] at hm
        simp at hm; subst hm
        rw [hsx] at hs; cases hs
    · exact h.space_is_blank codes (fun w hw => hp w (by simp [hw])) ch hm hs

/-- a decoded text is all white space exactly when every code is the blank -/
theorem Solid.all_space {c : Charset} (h : Solid c) : ∀ (codes : List Nat), Printable codes →
    (dec c codes).all isSpace = codes.all (· == 0x20)
  | [], _ => rfl
  | v :: codes, hp => by
    have ih := h.all_space codes (fun w hw => hp w (by simp [hw]))
    simp only [dec, List.flatMap_cons, List.all_append, List.all_cons] at *
    rw [ih]
    by_cases hv : v = 0x20
    · subst hv; rw [h.decode_blank]; simp [isSpace]
    · obtain ⟨x, hx, hsx⟩ := inkB_elim _ (h.decode_ink v (by have := hp v (by simp); omega) (hp v (by simp)).2)
      rw [hx]; simp [hsx, hv]

/-! ## `strings.TrimSpace` and the specification's blank stripping -/

theorem dropWhile_congr_mem {α} (p q : α → Bool) : ∀ (l : List α), (∀ x ∈ l, p x = q x) → l.dropWhile p = l.dropWhile q
  | [], _ => rfl
  | x :: l, h => by
    simp only [List.dropWhile_cons, h x (by simp)]
    split
    · exact dropWhile_congr_mem p q l (fun y hy => h y (by simp [hy]))
    · rfl

theorem takeWhile_congr_mem {α} (p q : α → Bool) : ∀ (l : List α), (∀ x ∈ l, p x = q x) → l.takeWhile p = l.takeWhile q
  | [], _ => rfl
  | x :: l, h => by
    simp only [List.takeWhile_cons, h x (by simp)]
    split
    · rw [takeWhile_congr_mem p q l (fun y hy => h y (by simp [hy]))]
    · rfl

theorem isSpace_blank : isSpace ' ' = true := by decide

/-- when the only white space in `t` is the blank, Go's `TrimSpace` strips exactly the blanks -/
theorem trimSpace_eq_strip (t : Str) (h : ∀ ch ∈ t, isSpace ch = true → ch = ' ') :
    trimSpace t = Spec.Teletext.stripSpaces t := by
  have hpq : ∀ ch ∈ t, isSpace ch = (ch == ' ') := by
    intro ch hm
    by_cases hb : ch = ' '
    · subst hb; simp [isSpace_blank]
    · have : isSpace ch = false := by
        cases hs : isSpace ch
        · rfl
        · exact absurd (h ch hm hs) hb
      simp [this, hb]
  unfold trimSpace trimRight trimLeft Spec.Teletext.stripSpaces
  rw [dropWhile_congr_mem isSpace (· == ' ') t hpq]
  congr 1
  apply dropWhile_congr_mem
  intro x hx
  exact hpq x ((List.dropWhile_sublist _).subset (List.mem_reverse.mp hx))

theorem dropWhile_nil_iff {α} (p : α → Bool) (l : List α) : (l.dropWhile p).isEmpty = l.all p := by
  induction l with
  | nil => rfl
  | cons x l ih =>
    simp only [List.dropWhile_cons, List.all_cons]
    cases hp : p x
    · simp
    · simpa using ih

/-- `TrimSpace` leaves nothing exactly when the text is all white space -/
theorem trimSpace_isEmpty (t : Str) : (trimSpace t).isEmpty = t.all isSpace := by
  unfold trimSpace trimRight trimLeft
  have h1 : ((List.dropWhile isSpace (List.dropWhile isSpace t).reverse).reverse).isEmpty
      = (List.dropWhile isSpace (List.dropWhile isSpace t).reverse).isEmpty := by
    cases List.dropWhile isSpace (List.dropWhile isSpace t).reverse <;> simp
  rw [h1, dropWhile_nil_iff, List.all_reverse]
  induction t with
  | nil => rfl
  | cons x l ih =>
    simp only [List.dropWhile_cons, List.all_cons]
    cases hp : isSpace x
    · simp [hp]
    · simpa using ih

end Teletext
end Astisub
