import Astisub.Go.Bufio

namespace Astisub
namespace Go
open List

theorem breakEOL_cons_append {p a : List UInt8} {b : UInt8} {r : List UInt8} (x : List UInt8)
    (h : breakEOL p = (a, b :: r)) : breakEOL (p ++ x) = (a, b :: r ++ x) := by
  induction p generalizing a with
  | nil => simp [breakEOL] at h
  | cons c cs ih =>
    simp only [breakEOL] at h ⊢
    simp only [List.cons_append, breakEOL]
    split
    · rename_i hc; simp [hc] at h; obtain ⟨rfl, rfl, rfl⟩ := h; simp
    · rename_i hc; simp [hc] at h
      obtain ⟨rfl, h2⟩ := h
      have := ih (a := (breakEOL cs).1) (by rw [← h2])
      simp [this]

theorem breakEOL_len {p a r : List UInt8} (h : breakEOL p = (a, r)) : a.length + r.length = p.length := by
  induction p generalizing a r with
  | nil => simp [breakEOL] at h; obtain ⟨rfl, rfl⟩ := h; rfl
  | cons c cs ih =>
    simp only [breakEOL] at h
    split at h
    · simp at h; obtain ⟨rfl, rfl⟩ := h; simp
    · simp at h; obtain ⟨rfl, rfl⟩ := h
      have := ih (a := (breakEOL cs).1) (r := (breakEOL cs).2) rfl
      simp; omega

/-- a token found before EOF stays the same token when more data is appended, whatever the EOF flag -/
theorem splitLine_tok_stable {p : List UInt8} {adv : Nat} {t : List UInt8}
    (h : splitLine true p false = .tok adv t) (x : List UInt8) (e : Bool) :
    splitLine true (p ++ x) e = .tok adv t ∧ adv ≤ p.length := by
  have hne := splitLine_tok_ne_nil h
  unfold splitLine at h ⊢
  have hemp : (e && (p ++ x).isEmpty) = false := by
    cases p with
    | nil => contradiction
    | cons => simp
  simp only [Bool.false_and, Bool.false_eq_true, ↓reduceIte] at h
  rw [hemp]; simp only [Bool.false_eq_true, ↓reduceIte]
  rcases hb : breakEOL p with ⟨a, r⟩
  rw [hb] at h
  cases r with
  | nil => simp at h
  | cons b r =>
    have hlen := breakEOL_len hb
    rw [breakEOL_cons_append x hb]
    simp only [List.cons_append] at h ⊢
    split at h
    · rename_i hb10; simp [hb10] at h ⊢; obtain ⟨rfl, rfl⟩ := h; simp at hlen ⊢; omega
    · rename_i hb10
      rw [if_neg hb10]
      cases r with
      | nil => simp at h
      | cons c r' =>
        simp only [List.cons_append] at h ⊢
        split at h <;> rename_i hc <;> simp [hc] at h ⊢ <;> obtain ⟨rfl, rfl⟩ := h <;> simp at hlen ⊢ <;> omega

theorem splitLine_noeof_ne_stop (f : Bool) (p : List UInt8) : splitLine f p false ≠ .stop := by
  unfold splitLine
  simp only [Bool.false_and, Bool.false_eq_true, ↓reduceIte]
  rcases hb : breakEOL p with ⟨a, r⟩
  cases r with
  | nil => simp
  | cons b r =>
    simp only
    split
    · simp
    · cases r with
      | nil => simp only; split <;> simp
      | cons c r' => simp only; split <;> simp

theorem tok_adv_pos {f : Bool} {p : List UInt8} {e : Bool} {adv : Nat} {t : List UInt8}
    (h : splitLine f p e = .tok adv t) : adv ≠ 0 := by
  have hne := splitLine_tok_ne_nil h
  unfold splitLine at h
  split at h
  · cases h
  · rcases hb : breakEOL p with ⟨a, r⟩
    rw [hb] at h
    cases r with
    | nil =>
      simp only at h
      split at h
      · cases h; cases p <;> simp_all
      · cases h
    | cons b r =>
      simp only at h
      split at h
      · cases h; omega
      · cases r with
        | nil => simp only at h; split at h <;> cases h; omega
        | cons c r' => simp only at h; split at h <;> cases h <;> omega

/-! ### facts about `breakEOL` and the too-long test -/

theorem breakEOL_append (p : List UInt8) : (breakEOL p).1 ++ (breakEOL p).2 = p := by
  induction p with
  | nil => rfl
  | cons c cs ih =>
    simp only [breakEOL]
    split
    · rfl
    · simp [ih]

theorem breakEOL_snd_nil {p a : List UInt8} (h : breakEOL p = (a, [])) : a = p := by
  have := breakEOL_append p
  rw [h] at this; simpa using this

theorem breakEOL_fst_append_le (p x : List UInt8) :
    (breakEOL p).1.length ≤ (breakEOL (p ++ x)).1.length := by
  induction p with
  | nil => simp [breakEOL]
  | cons c cs ih =>
    simp only [List.cons_append, breakEOL]
    split
    · simp
    · simp; exact ih

theorem breakEOL_fst_append_of_eol {p : List UInt8} (x : List UInt8) (h : (breakEOL p).2 ≠ []) :
    (breakEOL (p ++ x)).1 = (breakEOL p).1 := by
  rcases hb : breakEOL p with ⟨a, r⟩
  rw [hb] at h
  cases r with
  | nil => simp at h
  | cons b r => rw [breakEOL_cons_append x hb]

/-- once too long, always too long: more data cannot repair it -/
theorem lineTooLong_append {p : List UInt8} (x : List UInt8) (h : lineTooLong p = true) :
    lineTooLong (p ++ x) = true := by
  have := breakEOL_fst_append_le p x
  simp only [lineTooLong, decide_eq_true_eq] at h ⊢
  omega

theorem lineTooLong_append_of_eol {p : List UInt8} (x : List UInt8) (h : (breakEOL p).2 ≠ []) :
    lineTooLong (p ++ x) = lineTooLong p := by
  simp only [lineTooLong, breakEOL_fst_append_of_eol x h]

/-- a token is always the bytes before the first CR/LF of the data (all of it if there is none) -/
theorem splitLine_tok_fst {f : Bool} {p : List UInt8} {e : Bool} {adv : Nat} {t : List UInt8}
    (h : splitLine f p e = .tok adv t) : t = (breakEOL p).1 := by
  unfold splitLine at h
  split at h
  · cases h
  · rcases hb : breakEOL p with ⟨a, r⟩
    rw [hb] at h
    cases r with
    | nil =>
      simp only at h
      split at h
      · cases h; exact (breakEOL_snd_nil hb).symm
      · cases h
    | cons b r =>
      simp only at h
      split at h
      · cases h; rfl
      · cases r with
        | nil => simp only at h; split at h <;> cases h; rfl
        | cons c r' => simp only at h; split at h <;> cases h <;> rfl

/-- before EOF a token is only cut at a CR/LF -/
theorem tok_noeof_has_eol {f : Bool} {p : List UInt8} {adv : Nat} {t : List UInt8}
    (h : splitLine f p false = .tok adv t) : (breakEOL p).2 ≠ [] := by
  unfold splitLine at h
  simp only [Bool.false_and, Bool.false_eq_true, ↓reduceIte] at h
  rcases hb : breakEOL p with ⟨a, r⟩
  rw [hb] at h
  cases r with
  | nil => simp at h
  | cons b r => simp

/-- **The scanner's own limit is out of reach** (repaired code): when the split function asks for
    more data, at most `maxLineSize + 1` bytes are pending (65535 and a CR) — fewer than the
    `maxLineSize + 2` bytes of the buffer. -/
theorem more_lt_bufSize {p : List UInt8} (hl : lineTooLong p = false)
    (h : splitLine true p false = .more) : p.length < bufSize true := by
  simp only [lineTooLong, decide_eq_false_iff_not] at hl
  unfold splitLine at h
  simp only [Bool.false_and, Bool.false_eq_true, ↓reduceIte] at h
  rcases hb : breakEOL p with ⟨a, r⟩
  have hlen := breakEOL_len hb
  rw [hb] at h hl
  simp only [bufSize, ↓reduceIte]
  cases r with
  | nil => simp at hlen hl ⊢; omega
  | cons b r =>
    simp only at h
    split at h
    · cases h
    · cases r with
      | nil => simp at hlen hl ⊢; omega
      | cons c r' => simp only at h; split at h <;> cases h

/-! unfolding lemmas keep `split` away from the well-founded definitions -/

theorem drain_tok {f : Bool} {p : List UInt8} {adv : Nat} {t : List UInt8}
    (h : splitLine f p true = .tok adv t) : drain f p = t :: drain f (p.drop adv) := by
  have h0 := tok_adv_pos h
  rw [drain]; split
  · rename_i h'; rw [h] at h'; cases h'; simp [h0]
  · rename_i h'; exact (h' _ _ h).elim

theorem drain_nil (f : Bool) : drain f [] = [] := by
  rw [drain]; split
  · rename_i h'; simp [splitLine] at h'
  · rfl

theorem splitLine_eof_nil (f : Bool) : splitLine f [] true = .stop := by simp [splitLine]

/-- at EOF non-empty data always yields a token -/
theorem splitLine_eof_tok (f : Bool) {p : List UInt8} (hp : p ≠ []) :
    ∃ adv t, splitLine f p true = .tok adv t := by
  unfold splitLine
  have : (true && p.isEmpty) = false := by cases p <;> simp_all
  rw [this]; simp only [Bool.false_eq_true, ↓reduceIte]
  rcases hb : breakEOL p with ⟨a, r⟩
  cases r with
  | nil => simp
  | cons b r =>
    simp only
    split
    · simp
    · cases r with
      | nil => simp
      | cons c r' => simp only; split <;> simp

theorem drainL_long {p : List UInt8} (h : lineTooLong p = true) : drainL true p = ([], true) := by
  rw [drainL]; simp [h]

theorem drainL_tok {f : Bool} {p : List UInt8} {adv : Nat} {t : List UInt8}
    (hl : (f && lineTooLong p) = false) (h : splitLine f p true = .tok adv t) :
    drainL f p = (t :: (drainL f (p.drop adv)).1, (drainL f (p.drop adv)).2) := by
  have h0 := tok_adv_pos h
  rw [drainL]; simp only [hl, Bool.false_eq_true, ↓reduceIte]
  split
  · rename_i h'; rw [h] at h'; cases h'; simp [h0]
  · rename_i h'; exact (h' _ _ h).elim

theorem lineTooLong_nil : lineTooLong [] = false := by simp [lineTooLong, breakEOL]

theorem drainL_nil (f : Bool) : drainL f [] = ([], false) := by
  rw [drainL]; simp only [lineTooLong_nil, Bool.and_false, Bool.false_eq_true, ↓reduceIte]
  split
  · rename_i h'; simp [splitLine] at h'
  · rfl

theorem scan_nil (f : Bool) (p : List UInt8) (e : End) (k : Nat) :
    scan f p [] e k = ((drainL f p).1, finalErr e (drainL f p).2) := by
  unfold scan; rfl

/-- the split function's own error ends the scan -/
theorem scan_long {p c : List UInt8} {cs : List (List UInt8)} {e : End} {k : Nat}
    (hl : lineTooLong p = true) : scan true p (c :: cs) e k = ([], some .tooLong) := by
  rw [scan]; simp [hl]

theorem scan_tok {f : Bool} {p c : List UInt8} {cs : List (List UInt8)} {e : End} {k adv : Nat} {t : List UInt8}
    (hl : (f && lineTooLong p) = false) (h : splitLine f p false = .tok adv t) :
    scan f p (c :: cs) e k = (t :: (scan f (p.drop adv) (c :: cs) e 0).1, (scan f (p.drop adv) (c :: cs) e 0).2) := by
  have h0 := tok_adv_pos h
  rw [scan]; simp only [hl, Bool.false_eq_true, ↓reduceIte]
  split <;> rename_i h' <;> rw [h] at h' <;> cases h'
  simp [h0]

theorem scan_more {f : Bool} {p c : List UInt8} {cs : List (List UInt8)} {e : End} {k : Nat}
    (hl : (f && lineTooLong p) = false) (h : splitLine f p false = .more) :
    scan f p (c :: cs) e k =
      if p.length ≥ bufSize f then ([], some .tooLong)
      else if c.isEmpty then
        (if k + 1 > maxEmptyReads then ((drainL f p).1, some .noProgress) else scan f p cs e (k + 1))
      else if p.length + c.length > bufSize f then ((drainL f p).1, some .badRead)
      else scan f (p ++ c) cs e 0 := by
  rw [scan]; simp only [hl, Bool.false_eq_true, ↓reduceIte]
  split <;> rename_i h' <;> rw [h] at h' <;> cases h'

/-- the measure of the inner induction: a token consumes at least one byte -/
theorem drop_tok_lt {f : Bool} {p : List UInt8} {e : Bool} {adv : Nat} {t : List UInt8}
    (h : splitLine f p e = .tok adv t) : (p.drop adv).length < p.length := by
  have hne := splitLine_tok_ne_nil h
  have h0 := tok_adv_pos h
  cases p with
  | nil => contradiction
  | cons => simp; omega

/-! ### the pinned code has no too-long test -/

theorem drainL_false (p : List UInt8) : drainL false p = (drain false p, false) := by
  induction hn : p.length using Nat.strongRecOn generalizing p with
  | _ n ih =>
    by_cases hp : p = []
    · subst hp; rw [drainL_nil, drain_nil]
    · obtain ⟨adv, t, hs⟩ := splitLine_eof_tok false hp
      rw [drainL_tok (by simp) hs, drain_tok hs, ih _ (by subst hn; exact drop_tok_lt hs) _ rfl]

/-! ### the byte-level semantics: `drainL true` is "the lines before the first long one" -/

theorem linesOf_empty : linesOf [] = [] := drain_nil true

theorem linesOf_cons {p : List UInt8} {adv : Nat} {t : List UInt8}
    (h : splitLine true p true = .tok adv t) : linesOf p = (breakEOL p).1 :: linesOf (p.drop adv) := by
  unfold linesOf; rw [drain_tok h, splitLine_tok_fst h]

theorem drainL_bytes (p : List UInt8) : drainL true p = (linesBefore p, firstLong p) := by
  induction hn : p.length using Nat.strongRecOn generalizing p with
  | _ n ih =>
    by_cases hp : p = []
    · subst hp; rw [drainL_nil]; simp [linesBefore, firstLong, linesOf_empty]
    · obtain ⟨adv, t, hs⟩ := splitLine_eof_tok true hp
      have hlo := linesOf_cons hs
      cases hl : lineTooLong p with
      | true =>
        rw [drainL_long hl]
        simp only [lineTooLong, decide_eq_true_eq] at hl
        have hnle : ¬ (breakEOL p).1.length ≤ maxLineSize := by omega
        simp [linesBefore, firstLong, hlo, hl, hnle]
      | false =>
        rw [drainL_tok (by simp [hl]) hs, ih _ (by subst hn; exact drop_tok_lt hs) _ rfl]
        simp only [lineTooLong, decide_eq_false_iff_not] at hl
        have hle : (breakEOL p).1.length ≤ maxLineSize := by omega
        simp [linesBefore, firstLong, hlo, hl, hle, splitLine_tok_fst hs]

theorem takeWhile_le_of_not_any_gt (M : Nat) (ls : List (List UInt8))
    (h : (ls.any fun l => decide (l.length > M)) = false) :
    (ls.takeWhile fun l => decide (l.length ≤ M)) = ls := by
  induction ls with
  | nil => rfl
  | cons l ls ih =>
    simp only [List.any_cons, Bool.or_eq_false_iff, decide_eq_false_iff_not] at h
    have : l.length ≤ M := by omega
    simp [this, ih h.2]

theorem mem_takeWhile_le (M : Nat) (ls : List (List UInt8)) :
    ∀ t ∈ (ls.takeWhile fun l => decide (l.length ≤ M)), t.length ≤ M := by
  induction ls with
  | nil => simp
  | cons l ls ih =>
    intro t ht
    rw [List.takeWhile_cons] at ht
    split at ht
    · rename_i hd
      rcases mem_cons.mp ht with rfl | ht
      · simpa using hd
      · exact ih t ht
    · simp at ht

/-- without a long line nothing is cut off -/
theorem linesBefore_eq_of_not_long {bs : List UInt8} (h : firstLong bs = false) :
    linesBefore bs = linesOf bs :=
  takeWhile_le_of_not_any_gt maxLineSize (linesOf bs) h

/-! ### the scanner, for every schedule -/

/-- the run hit none of the scanner's own limits -/
def LimitFree (r : Option ScanErr) : Prop := r ≠ some .tooLong ∧ r ≠ some .noProgress ∧ r ≠ some .badRead

/-- the reader did not misbehave: the run hit neither the empty-read limit nor a bad read count -/
def NoStall (r : Option ScanErr) : Prop := r ≠ some .noProgress ∧ r ≠ some .badRead

theorem LimitFree.noStall {r : Option ScanErr} (h : LimitFree r) : NoStall r := ⟨h.2.1, h.2.2⟩

/-- **Core of C17 (repaired code).** Unless the reader misbehaves (100 empty reads, a bad read
    count), the tokens are those of the end-of-input run over all the bytes — for every schedule —
    and the error is either the one that run gives (`finalErr`), or `bufio.ErrTooLong` reported by
    the split function before the end of the stream was seen (then that run is too long as well). -/
theorem scan_full (p : List UInt8) (cs : List (List UInt8)) (e : End) (k : Nat)
    (hno : NoStall (scan true p cs e k).2) :
    (scan true p cs e k).1 = (drainL true (p ++ cs.flatten)).1 ∧
    ((scan true p cs e k).2 = finalErr e (drainL true (p ++ cs.flatten)).2 ∨
      ((drainL true (p ++ cs.flatten)).2 = true ∧ (scan true p cs e k).2 = some .tooLong)) := by
  induction cs generalizing p k with
  | nil => rw [scan_nil]; simp
  | cons c cs ih =>
    induction hn : p.length using Nat.strongRecOn generalizing p k with
    | _ n ihn =>
      unfold NoStall at hno
      cases hl : lineTooLong p with
      | true =>
        rw [scan_long hl, drainL_long (lineTooLong_append _ hl)]
        simp
      | false =>
        have hl' : (true && lineTooLong p) = false := by simp [hl]
        cases hs : splitLine true p false with
        | stop => exact absurd hs (splitLine_noeof_ne_stop true p)
        | more =>
          have h1 : ¬ p.length ≥ bufSize true := by have := more_lt_bufSize hl hs; omega
          rw [scan_more hl' hs] at hno ⊢
          simp only [h1, ↓reduceIte] at hno ⊢
          by_cases h2 : c.isEmpty
          · simp only [h2, ↓reduceIte] at hno ⊢
            by_cases h3 : k + 1 > maxEmptyReads
            · simp [h3] at hno
            · simp only [h3, ↓reduceIte] at hno ⊢
              have : c = [] := by simpa using h2
              subst this
              simpa using ih p (k + 1) hno
          · simp only [h2, Bool.false_eq_true, ↓reduceIte] at hno ⊢
            by_cases h4 : p.length + c.length > bufSize true
            · simp [h4] at hno
            · simp only [h4, ↓reduceIte] at hno ⊢
              simpa using ih (p ++ c) 0 hno
        | tok adv t =>
          have ⟨hst, hle⟩ := splitLine_tok_stable hs (c :: cs).flatten true
          have heol := tok_noeof_has_eol hs
          have hl2 : (true && lineTooLong (p ++ (c :: cs).flatten)) = false := by
            rw [lineTooLong_append_of_eol _ heol]; exact hl'
          rw [scan_tok hl' hs] at hno ⊢
          rw [drainL_tok hl2 hst, List.drop_append_of_le_length hle]
          have := ihn _ (by subst hn; exact drop_tok_lt hs) (p.drop adv) 0 hno rfl
          simp only [List.cons.injEq, true_and]
          exact this

/-- the same, in terms of the bytes: the tokens are the lines before the first long line -/
theorem scan_bytes_gen (p : List UInt8) (cs : List (List UInt8)) (e : End) (k : Nat)
    (hno : NoStall (scan true p cs e k).2) :
    (scan true p cs e k).1 = linesBefore (p ++ cs.flatten) ∧
    ((scan true p cs e k).2 = finalErr e (firstLong (p ++ cs.flatten)) ∨
      (firstLong (p ++ cs.flatten) = true ∧ (scan true p cs e k).2 = some .tooLong)) := by
  have := scan_full p cs e k hno
  rwa [drainL_bytes] at this

/-- when the stream ends with `io.EOF` the whole result is a function of the bytes -/
theorem scan_bytes_eof (p : List UInt8) (cs : List (List UInt8)) (k : Nat)
    (hno : NoStall (scan true p cs .eof k).2) :
    scan true p cs .eof k =
      (linesBefore (p ++ cs.flatten), if firstLong (p ++ cs.flatten) then some .tooLong else none) := by
  obtain ⟨h1, h2⟩ := scan_bytes_gen p cs .eof k hno
  refine Prod.ext h1 ?_
  rcases h2 with h2 | ⟨hl, h2⟩
  · simpa [finalErr] using h2
  · simp [hl, h2]

/-- **Core of C17 (as before the repair).** If the run hit neither the line-length limit nor the
    empty-read limit nor a bad read count, the error is the stream's own and the tokens are the
    lines of the delivered bytes (all of them when the stream ended with `io.EOF`; when it ended
    with a read error, those before a final over-long line that the read error masks). -/
theorem scan_spec (p : List UInt8) (cs : List (List UInt8)) (e : End) (k : Nat)
    (hno : LimitFree (scan true p cs e k).2) :
    scan true p cs e k = (linesBefore (p ++ cs.flatten), endErr e) := by
  obtain ⟨h1, h2⟩ := scan_bytes_gen p cs e k hno.noStall
  refine Prod.ext h1 ?_
  rcases h2 with h2 | ⟨_, h2⟩
  · cases e with
    | fault => simpa [finalErr, endErr] using h2
    | eof =>
      cases hf : firstLong (p ++ cs.flatten) with
      | false => simpa [finalErr, endErr, hf] using h2
      | true => rw [hf] at h2; exact absurd h2 hno.1
  · exact absurd h2 hno.1

theorem scan_spec_eof (p : List UInt8) (cs : List (List UInt8)) (k : Nat)
    (hno : LimitFree (scan true p cs .eof k).2) :
    scan true p cs .eof k = (drain true (p ++ cs.flatten), none) := by
  have h := scan_bytes_eof p cs k hno.noStall
  cases hf : firstLong (p ++ cs.flatten) with
  | true => rw [h, hf] at hno; exact absurd rfl hno.1
  | false =>
    rw [h, hf, linesBefore_eq_of_not_long hf]; rfl

/-- **Core of C18 (reads).** A stream that ends in an error other than EOF always leaves the
    scanner with a non-nil error — whatever the schedule, the fault offset and the data. -/
theorem scan_fault (f : Bool) (p : List UInt8) (cs : List (List UInt8)) (k : Nat) :
    (scan f p cs .fault k).2 ≠ none := by
  induction cs generalizing p k with
  | nil => rw [scan_nil]; simp [finalErr]
  | cons c cs ih =>
    induction hn : p.length using Nat.strongRecOn generalizing p k with
    | _ n ihn =>
      cases hl : (f && lineTooLong p) with
      | true =>
        have hf : f = true := by cases f <;> simp_all
        subst hf
        rw [scan_long (by simpa using hl)]; simp
      | false =>
        cases hs : splitLine f p false with
        | stop => exact absurd hs (splitLine_noeof_ne_stop f p)
        | more =>
          rw [scan_more hl hs]
          split
          · simp
          · split
            · split
              · simp
              · exact ih p (k + 1)
            · split
              · simp
              · exact ih (p ++ c) 0
        | tok adv t =>
          rw [scan_tok hl hs]
          exact ihn _ (by subst hn; exact drop_tok_lt hs) (p.drop adv) 0 rfl

/-- **Core of the long-line clause of C18.** The split function's own error is never lost: when
    it is reported the scanner's error is not nil — `bufio.ErrTooLong`, or the error latched
    before it (`setErr` keeps the first). Here: a too-long pending line at any point of the run. -/
theorem scan_pending_long (p : List UInt8) (cs : List (List UInt8)) (e : End) (k : Nat)
    (hl : lineTooLong p = true) : (scan true p cs e k).2 = some .tooLong ∨ (e = .fault ∧ cs = []) := by
  cases cs with
  | nil =>
    cases e with
    | fault => right; exact ⟨rfl, rfl⟩
    | eof => left; rw [scan_nil, drainL_long hl]; rfl
  | cons c cs => left; rw [scan_long hl]

/-! ### token lengths -/

theorem breakEOL_fst_len (p : List UInt8) : (breakEOL p).1.length ≤ p.length := by
  have := breakEOL_len (p := p) (a := (breakEOL p).1) (r := (breakEOL p).2) rfl
  omega

/-- a token is never longer than the data it was cut from -/
theorem splitLine_tok_len {f : Bool} {p : List UInt8} {e : Bool} {adv : Nat} {t : List UInt8}
    (h : splitLine f p e = .tok adv t) : t.length ≤ p.length := by
  rw [splitLine_tok_fst h]; exact breakEOL_fst_len p

theorem drain_tok_len (f : Bool) (p : List UInt8) : ∀ t ∈ drain f p, t.length ≤ p.length := by
  induction hn : p.length using Nat.strongRecOn generalizing p with
  | _ n ih =>
    intro t ht
    by_cases hp : p = []
    · subst hp; rw [drain_nil] at ht; simp at ht
    · obtain ⟨adv, tk, hs⟩ := splitLine_eof_tok f hp
      rw [drain_tok hs] at ht
      rcases mem_cons.mp ht with rfl | ht
      · have := splitLine_tok_len hs; omega
      · have hlt := drop_tok_lt hs
        have := ih _ (by subst hn; exact hlt) (p.drop adv) rfl t ht
        omega

theorem drainL_tok_len (f : Bool) (p : List UInt8) : ∀ t ∈ (drainL f p).1, t.length ≤ p.length := by
  induction hn : p.length using Nat.strongRecOn generalizing p with
  | _ n ih =>
    intro t ht
    cases hl : (f && lineTooLong p) with
    | true =>
      have hf : f = true := by cases f <;> simp_all
      subst hf
      rw [drainL_long (by simpa using hl)] at ht; simp at ht
    | false =>
      by_cases hp : p = []
      · subst hp; rw [drainL_nil] at ht; simp at ht
      · obtain ⟨adv, tk, hs⟩ := splitLine_eof_tok f hp
        rw [drainL_tok hl hs] at ht
        rcases mem_cons.mp ht with rfl | ht
        · have := splitLine_tok_len hs; omega
        · have hlt := drop_tok_lt hs
          have := ih _ (by subst hn; exact hlt) (p.drop adv) rfl t ht
          omega

/-- no token delivered by the scanner exceeds the buffer (pending data never exceeds `bufSize`) -/
theorem scan_tok_len (f : Bool) (p : List UInt8) (cs : List (List UInt8)) (e : End) (k : Nat)
    (hp : p.length ≤ bufSize f) : ∀ t ∈ (scan f p cs e k).1, t.length ≤ bufSize f := by
  induction cs generalizing p k with
  | nil =>
    rw [scan_nil]; intro t ht
    have := drainL_tok_len f p t ht; omega
  | cons c cs ih =>
    induction hn : p.length using Nat.strongRecOn generalizing p k with
    | _ n ihn =>
      cases hl : (f && lineTooLong p) with
      | true =>
        have hf : f = true := by cases f <;> simp_all
        subst hf
        rw [scan_long (by simpa using hl)]; simp
      | false =>
        cases hs : splitLine f p false with
        | stop => exact absurd hs (splitLine_noeof_ne_stop f p)
        | more =>
          rw [scan_more hl hs]
          split
          · simp
          · split
            · split
              · intro t ht; have := drainL_tok_len f p t ht; omega
              · exact ih p (k + 1) hp
            · split
              · intro t ht; have := drainL_tok_len f p t ht; omega
              · rename_i h4
                exact ih (p ++ c) 0 (by simp at h4 ⊢; omega)
        | tok adv tk =>
          rw [scan_tok hl hs]
          intro t ht
          rcases mem_cons.mp ht with rfl | ht
          · have := splitLine_tok_len hs; omega
          · have hlt := drop_tok_lt hs
            exact ihn _ (by subst hn; exact hlt) (p.drop adv) 0 (by omega) rfl t ht

/-- the repaired scanner never delivers a line of more than `maxLineSize` bytes — whatever the
    schedule, the pending bytes and the way the stream ends -/
theorem drainL_tok_le (p : List UInt8) : ∀ t ∈ (drainL true p).1, t.length ≤ maxLineSize := by
  rw [drainL_bytes]; intro t ht
  exact mem_takeWhile_le maxLineSize (linesOf p) t ht

theorem scan_tok_le (p : List UInt8) (cs : List (List UInt8)) (e : End) (k : Nat) :
    ∀ t ∈ (scan true p cs e k).1, t.length ≤ maxLineSize := by
  induction cs generalizing p k with
  | nil => rw [scan_nil]; exact drainL_tok_le p
  | cons c cs ih =>
    induction hn : p.length using Nat.strongRecOn generalizing p k with
    | _ n ihn =>
      cases hl : lineTooLong p with
      | true => rw [scan_long hl]; simp
      | false =>
        have hl' : (true && lineTooLong p) = false := by simp [hl]
        cases hs : splitLine true p false with
        | stop => exact absurd hs (splitLine_noeof_ne_stop true p)
        | more =>
          rw [scan_more hl' hs]
          split
          · simp
          · split
            · split
              · exact drainL_tok_le p
              · exact ih p (k + 1)
            · split
              · exact drainL_tok_le p
              · exact ih (p ++ c) 0
        | tok adv tk =>
          rw [scan_tok hl' hs]
          intro t ht
          rcases mem_cons.mp ht with rfl | ht
          · rw [splitLine_tok_fst hs]
            simpa [lineTooLong] using hl
          · exact ihn _ (by subst hn; exact drop_tok_lt hs) (p.drop adv) 0 rfl t ht

/-! ### when the hypothesis `NoStall` holds; long lines without evaluating 65536-element lists -/

theorem noStall_finalErr (e : End) (b : Bool) : NoStall (finalErr e b) := by
  cases e <;> cases b <;> simp [NoStall, finalErr]

theorem splitLine_nil_noeof (f : Bool) : splitLine f [] false = .more := by simp [splitLine, breakEOL]

theorem bufSize_pos (f : Bool) : 0 < bufSize f := by cases f <;> simp [bufSize, maxLineSize, maxTokenSize]

/-- the first read of a run -/
theorem scan_start (f : Bool) (c : List UInt8) (cs : List (List UInt8)) (e : End) (k : Nat) :
    scan f [] (c :: cs) e k =
      if c.isEmpty then (if k + 1 > maxEmptyReads then ([], some .noProgress) else scan f [] cs e (k + 1))
      else if c.length > bufSize f then ([], some .badRead)
      else scan f c cs e 0 := by
  have := bufSize_pos f
  rw [scan_more (by simp [lineTooLong_nil]) (splitLine_nil_noeof f)]
  simp [drainL_nil]
  omega

/-- a reader that returns one byte per `Read` never runs into the scanner's checks on readers:
    with the repaired buffer of `maxLineSize + 2` bytes there is always room for it -/
theorem noStall_bytewise (p : List UInt8) (cs : List (List UInt8)) (e : End) (k : Nat)
    (h : ∀ c ∈ cs, c.length = 1) : NoStall (scan true p cs e k).2 := by
  induction cs generalizing p k with
  | nil => rw [scan_nil]; exact noStall_finalErr _ _
  | cons c cs ih =>
    have hc : c.length = 1 := h c (by simp)
    have hcs : ∀ c ∈ cs, c.length = 1 := fun c' hc' => h c' (by simp [hc'])
    induction hn : p.length using Nat.strongRecOn generalizing p k with
    | _ n ihn =>
      cases hl : lineTooLong p with
      | true => rw [scan_long hl]; simp [NoStall]
      | false =>
        have hl' : (true && lineTooLong p) = false := by simp [hl]
        cases hs : splitLine true p false with
        | stop => exact absurd hs (splitLine_noeof_ne_stop true p)
        | more =>
          have h1 := more_lt_bufSize hl hs
          have h2 : c.isEmpty = false := by cases c <;> simp_all
          rw [scan_more hl' hs]
          rw [if_neg (by omega), h2, if_neg (by simp), if_neg (by omega)]
          exact ih (p ++ c) 0 hcs
        | tok adv t =>
          rw [scan_tok hl' hs]
          exact ihn _ (by subst hn; exact drop_tok_lt hs) (p.drop adv) 0 rfl

/-- a reader that returns the whole stream (at most the buffer's `maxLineSize + 2` bytes) in one
    `Read` — with or without `io.EOF` in the same call, see the header of `Go/Bufio.lean` -/
theorem noStall_one_read (bs : List UInt8) (e : End) (h : bs.length ≤ bufSize true) :
    NoStall (scan true [] [bs] e 0).2 := by
  rw [scan_start]
  by_cases hb : bs.isEmpty
  · have : ¬ (0 + 1 > maxEmptyReads) := by simp [maxEmptyReads]
    simp only [hb, ↓reduceIte]
    rw [if_neg this, scan_nil]; exact noStall_finalErr _ _
  · simp only [hb, Bool.false_eq_true, ↓reduceIte]
    rw [if_neg (by omega), scan_nil]; exact noStall_finalErr _ _

/-- no CR, no LF -/
def NoEOL (l : List UInt8) : Prop := ∀ b ∈ l, isEOL b = false

theorem breakEOL_noEOL {l : List UInt8} (h : NoEOL l) : breakEOL l = (l, []) := by
  induction l with
  | nil => rfl
  | cons b bs ih =>
    have hb : isEOL b = false := h b (by simp)
    have := ih (fun c hc => h c (by simp [hc]))
    simp [breakEOL, hb, this]

/-- more than `maxLineSize` bytes without CR/LF at the head of the data: too long, whatever follows -/
theorem lineTooLong_of_noEOL {l : List UInt8} (x : List UInt8) (h : NoEOL l) (hlen : maxLineSize < l.length) :
    lineTooLong (l ++ x) = true := by
  apply lineTooLong_append
  simp only [lineTooLong, breakEOL_noEOL h, decide_eq_true_eq]
  omega

theorem lineTooLong_of_noEOL' {l : List UInt8} (h : NoEOL l) (hlen : maxLineSize < l.length) :
    lineTooLong l = true := by
  simpa using lineTooLong_of_noEOL [] h hlen

theorem firstLong_of_lineTooLong {bs : List UInt8} (h : lineTooLong bs = true) :
    linesBefore bs = [] ∧ firstLong bs = true := by
  have h1 := drainL_bytes bs
  rw [drainL_long h] at h1
  exact ⟨(congrArg Prod.fst h1).symm, (congrArg Prod.snd h1).symm⟩

theorem noEOL_replicate (n : Nat) : NoEOL (List.replicate n 97) := by
  intro b hb
  rw [List.eq_of_mem_replicate hb]; decide

/-- at most `maxLineSize` bytes without CR/LF, then the end of the data: one line -/
theorem drainL_noEOL {l : List UInt8} (f : Bool) (h : NoEOL l) (hne : l ≠ []) (hlen : l.length ≤ maxLineSize) :
    drainL f l = ([l], false) := by
  have hb := breakEOL_noEOL h
  have hl : lineTooLong l = false := by simp [lineTooLong, hb]; omega
  have hs : splitLine f l true = .tok l.length l := by
    unfold splitLine
    have : (true && l.isEmpty) = false := by cases l <;> simp_all
    rw [this, hb]; simp
  rw [drainL_tok (by simp [hl]) hs]; simp [drainL_nil]

theorem firstLong_iff (bs : List UInt8) :
    firstLong bs = true ↔ ∃ l ∈ linesOf bs, maxLineSize < l.length := by
  simp [firstLong, List.any_eq_true]

end Go
end Astisub
