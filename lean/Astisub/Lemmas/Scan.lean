import Astisub.Go.Bufio

namespace Astisub
namespace Go
open List

theorem breakEOL_cons_append {p a : List UInt8} {b : UInt8} {r : List UInt8} (x : List UInt8)
    (h : breakEOL p = (a, b :: r)) : breakEOL (p ++ x) = (a, b :: r ++ x) := by
  induction p generalizing a with
  | nil => simp [breakEOL] at h
  | cons c cs ih =>
    simp only [breakEOL] at h ⊢
    simp only [List.cons_append, breakEOL]
    split
    · rename_i hc; simp [hc] at h; obtain ⟨rfl, rfl, rfl⟩ := h; simp
    · rename_i hc; simp [hc] at h
      obtain ⟨rfl, h2⟩ := h
      have := ih (a := (breakEOL cs).1) (by rw [← h2])
      simp [this]

theorem breakEOL_len {p a r : List UInt8} (h : breakEOL p = (a, r)) : a.length + r.length = p.length := by
  induction p generalizing a r with
  | nil => simp [breakEOL] at h; obtain ⟨rfl, rfl⟩ := h; rfl
  | cons c cs ih =>
    simp only [breakEOL] at h
    split at h
    · simp at h; obtain ⟨rfl, rfl⟩ := h; simp
    · simp at h; obtain ⟨rfl, rfl⟩ := h
      have := ih (a := (breakEOL cs).1) (r := (breakEOL cs).2) rfl
      simp; omega

/-- a token found before EOF stays the same token when more data is appended, whatever the EOF flag -/
theorem splitLine_tok_stable {p : List UInt8} {adv : Nat} {t : List UInt8}
    (h : splitLine true p false = .tok adv t) (x : List UInt8) (e : Bool) :
    splitLine true (p ++ x) e = .tok adv t ∧ adv ≤ p.length := by
  have hne := splitLine_tok_ne_nil h
  unfold splitLine at h ⊢
  have hemp : (e && (p ++ x).isEmpty) = false := by
    cases p with
    | nil => contradiction
    | cons => simp
  simp only [Bool.false_and, Bool.false_eq_true, ↓reduceIte] at h
  rw [hemp]; simp only [Bool.false_eq_true, ↓reduceIte]
  rcases hb : breakEOL p with ⟨a, r⟩
  rw [hb] at h
  cases r with
  | nil => simp at h
  | cons b r =>
    have hlen := breakEOL_len hb
    rw [breakEOL_cons_append x hb]
    simp only [List.cons_append] at h ⊢
    split at h
    · rename_i hb10; simp [hb10] at h ⊢; obtain ⟨rfl, rfl⟩ := h; simp at hlen ⊢; omega
    · rename_i hb10
      rw [if_neg hb10]
      cases r with
      | nil => simp at h
      | cons c r' =>
        simp only [List.cons_append] at h ⊢
        split at h <;> rename_i hc <;> simp [hc] at h ⊢ <;> obtain ⟨rfl, rfl⟩ := h <;> simp at hlen ⊢ <;> omega

theorem splitLine_noeof_ne_stop (f : Bool) (p : List UInt8) : splitLine f p false ≠ .stop := by
  unfold splitLine
  simp only [Bool.false_and, Bool.false_eq_true, ↓reduceIte]
  rcases hb : breakEOL p with ⟨a, r⟩
  cases r with
  | nil => simp
  | cons b r =>
    simp only
    split
    · simp
    · cases r with
      | nil => simp only; split <;> simp
      | cons c r' => simp only; split <;> simp

theorem tok_adv_pos {f : Bool} {p : List UInt8} {e : Bool} {adv : Nat} {t : List UInt8}
    (h : splitLine f p e = .tok adv t) : adv ≠ 0 := by
  have hne := splitLine_tok_ne_nil h
  unfold splitLine at h
  split at h
  · cases h
  · rcases hb : breakEOL p with ⟨a, r⟩
    rw [hb] at h
    cases r with
    | nil =>
      simp only at h
      split at h
      · cases h; cases p <;> simp_all
      · cases h
    | cons b r =>
      simp only at h
      split at h
      · cases h; omega
      · cases r with
        | nil => simp only at h; split at h <;> cases h; omega
        | cons c r' => simp only at h; split at h <;> cases h <;> omega

/-! unfolding lemmas keep `split` away from the well-founded definitions -/

theorem drain_tok {f : Bool} {p : List UInt8} {adv : Nat} {t : List UInt8}
    (h : splitLine f p true = .tok adv t) : drain f p = t :: drain f (p.drop adv) := by
  have h0 := tok_adv_pos h
  rw [drain]; split
  · rename_i h'; rw [h] at h'; cases h'; simp [h0]
  · rename_i h'; exact (h' _ _ h).elim

theorem scan_nil (f : Bool) (p : List UInt8) (e : End) (k : Nat) :
    scan f p [] e k = (drain f p, match e with | .eof => none | .fault => some .io) := by
  unfold scan; rfl

theorem scan_tok {f : Bool} {p c : List UInt8} {cs : List (List UInt8)} {e : End} {k adv : Nat} {t : List UInt8}
    (h : splitLine f p false = .tok adv t) :
    scan f p (c :: cs) e k = (t :: (scan f (p.drop adv) (c :: cs) e 0).1, (scan f (p.drop adv) (c :: cs) e 0).2) := by
  have h0 := tok_adv_pos h
  rw [scan]; split <;> rename_i h' <;> rw [h] at h' <;> cases h'
  simp [h0]

theorem scan_more {f : Bool} {p c : List UInt8} {cs : List (List UInt8)} {e : End} {k : Nat}
    (h : splitLine f p false = .more) :
    scan f p (c :: cs) e k =
      if p.length ≥ maxTokenSize then ([], some .tooLong)
      else if c.isEmpty then
        (if k + 1 > maxEmptyReads then (drain f p, some .noProgress) else scan f p cs e (k + 1))
      else if p.length + c.length > maxTokenSize then (drain f p, some .badRead)
      else scan f (p ++ c) cs e 0 := by
  rw [scan]; split <;> rename_i h' <;> rw [h] at h' <;> cases h'

def endErr : End → Option ScanErr
  | .eof => none
  | .fault => some .io

/-- the run hit none of the scanner's own limits -/
def LimitFree (r : Option ScanErr) : Prop := r ≠ some .tooLong ∧ r ≠ some .noProgress ∧ r ≠ some .badRead

/-- **Core of C17.** If the run hit neither the 64 KiB token limit nor the empty-read limit, the
    tokens are exactly the lines of the delivered bytes and the error is the stream's own — for
    every schedule. -/
theorem scan_spec (p : List UInt8) (cs : List (List UInt8)) (e : End) (k : Nat)
    (hno : LimitFree (scan true p cs e k).2) :
    scan true p cs e k = (drain true (p ++ cs.flatten), endErr e) := by
  induction cs generalizing p k with
  | nil => rw [scan_nil]; simp; cases e <;> rfl
  | cons c cs ih =>
    induction hn : p.length using Nat.strongRecOn generalizing p k with
    | _ n ihn =>
      unfold LimitFree at hno
      cases hs : splitLine true p false with
      | stop => exact absurd hs (splitLine_noeof_ne_stop true p)
      | more =>
        rw [scan_more hs] at hno ⊢
        by_cases h1 : p.length ≥ maxTokenSize
        · simp [h1] at hno
        · simp only [h1, ↓reduceIte] at hno ⊢
          by_cases h2 : c.isEmpty
          · simp only [h2, ↓reduceIte] at hno ⊢
            by_cases h3 : k + 1 > maxEmptyReads
            · simp [h3] at hno
            · simp only [h3, ↓reduceIte] at hno ⊢
              rw [ih p (k + 1) hno]
              have : c = [] := by simpa using h2
              simp [this]
          · simp only [h2, Bool.false_eq_true, ↓reduceIte] at hno ⊢
            by_cases h4 : p.length + c.length > maxTokenSize
            · simp [h4] at hno
            · simp only [h4, ↓reduceIte] at hno ⊢
              rw [ih (p ++ c) 0 hno]; simp
      | tok adv t =>
        have ⟨hst, hle⟩ := splitLine_tok_stable hs (c :: cs).flatten true
        have hne := splitLine_tok_ne_nil hs
        have h0 := tok_adv_pos hs
        rw [scan_tok hs] at hno ⊢
        rw [drain_tok hst]
        have hlt : (p.drop adv).length < n := by
          subst hn
          cases p with
          | nil => contradiction
          | cons => simp; omega
        have := ihn (p.drop adv).length hlt (p.drop adv) 0 hno rfl
        rw [this, List.drop_append_of_le_length hle]

/-- **Core of C18 (reads).** A stream that ends in an error other than EOF always leaves the
    scanner with a non-nil error — whatever the schedule, the fault offset and the data. -/
theorem scan_fault (f : Bool) (p : List UInt8) (cs : List (List UInt8)) (k : Nat) :
    (scan f p cs .fault k).2 ≠ none := by
  induction cs generalizing p k with
  | nil => rw [scan_nil]; simp
  | cons c cs ih =>
    induction hn : p.length using Nat.strongRecOn generalizing p k with
    | _ n ihn =>
      cases hs : splitLine f p false with
      | stop => exact absurd hs (splitLine_noeof_ne_stop f p)
      | more =>
        rw [scan_more hs]
        split
        · simp
        · split
          · split
            · simp
            · exact ih p (k + 1)
          · split
            · simp
            · exact ih (p ++ c) 0
      | tok adv t =>
        have hne := splitLine_tok_ne_nil hs
        have h0 := tok_adv_pos hs
        rw [scan_tok hs]
        have hlt : (p.drop adv).length < n := by
          subst hn
          cases p with
          | nil => contradiction
          | cons => simp; omega
        exact ihn (p.drop adv).length hlt (p.drop adv) 0 rfl

end Go
end Astisub

namespace Astisub
namespace Go
open List

theorem breakEOL_fst_len (p : List UInt8) : (breakEOL p).1.length ≤ p.length := by
  have := breakEOL_len (p := p) (a := (breakEOL p).1) (r := (breakEOL p).2) rfl
  omega

/-- a token is never longer than the data it was cut from -/
theorem splitLine_tok_len {f : Bool} {p : List UInt8} {e : Bool} {adv : Nat} {t : List UInt8}
    (h : splitLine f p e = .tok adv t) : t.length ≤ p.length := by
  unfold splitLine at h
  split at h
  · cases h
  · rcases hb : breakEOL p with ⟨a, r⟩
    have hl := breakEOL_len hb
    rw [hb] at h
    cases r with
    | nil => simp only at h; split at h <;> cases h; omega
    | cons b r =>
      simp only at h
      split at h
      · cases h; omega
      · cases r with
        | nil => simp only at h; split at h <;> cases h; omega
        | cons c r' => simp only at h; split at h <;> cases h <;> omega

theorem drain_tok_len (f : Bool) (p : List UInt8) : ∀ t ∈ drain f p, t.length ≤ p.length := by
  induction hn : p.length using Nat.strongRecOn generalizing p with
  | _ n ih =>
    intro t ht
    cases hs : splitLine f p true with
    | tok adv tk =>
      rw [drain_tok hs] at ht
      have hne := splitLine_tok_ne_nil hs
      have h0 := tok_adv_pos hs
      rcases mem_cons.mp ht with rfl | ht
      · have := splitLine_tok_len hs; omega
      · have hlt : (p.drop adv).length < n := by
          subst hn
          cases p with
          | nil => contradiction
          | cons => simp; omega
        have := ih _ hlt (p.drop adv) rfl t ht
        simp at this; omega
    | more => rw [drain] at ht; split at ht <;> rename_i h' <;> rw [hs] at h' <;> first | cases h' | simp at ht
    | stop => rw [drain] at ht; split at ht <;> rename_i h' <;> rw [hs] at h' <;> first | cases h' | simp at ht

/-- no token delivered by the scanner exceeds the buffer (pending data never exceeds 65536 bytes) -/
theorem scan_tok_len (f : Bool) (p : List UInt8) (cs : List (List UInt8)) (e : End) (k : Nat)
    (hp : p.length ≤ maxTokenSize) : ∀ t ∈ (scan f p cs e k).1, t.length ≤ maxTokenSize := by
  induction cs generalizing p k with
  | nil =>
    rw [scan_nil]; intro t ht
    have := drain_tok_len f p t ht; omega
  | cons c cs ih =>
    induction hn : p.length using Nat.strongRecOn generalizing p k with
    | _ n ihn =>
      cases hs : splitLine f p false with
      | stop => exact absurd hs (splitLine_noeof_ne_stop f p)
      | more =>
        rw [scan_more hs]
        split
        · simp
        · split
          · split
            · intro t ht; have := drain_tok_len f p t ht; omega
            · exact ih p (k + 1) hp
          · split
            · intro t ht; have := drain_tok_len f p t ht; omega
            · rename_i h4
              exact ih (p ++ c) 0 (by simp at h4 ⊢; omega)
      | tok adv tk =>
        have hne := splitLine_tok_ne_nil hs
        have h0 := tok_adv_pos hs
        rw [scan_tok hs]
        intro t ht
        rcases mem_cons.mp ht with rfl | ht
        · have := splitLine_tok_len hs; omega
        · have hlt : (p.drop adv).length < n := by
            subst hn
            cases p with
            | nil => contradiction
            | cons => simp; omega
          exact ihn _ hlt (p.drop adv) 0 (by simp; omega) rfl t ht

end Go
end Astisub
