import Astisub.Lemmas.TeleCharset

/-!
# Lemmas/TeleView — from runs to what is compared: the model's line items and the specification's `VRun`s

* `computeCharset_agrees`: the table of the character decoder and the specification's `charOf`, any triplet;
* `viewRun_eq`: what the specification's `viewRun` returns for a run of printable codes;
* `itemsOf_eq`: the model's items are `itemOf` of the non-blank raw runs;
* `row_views`: the specification's line of a row is `denote` of the model's non-blank raw runs.
-/

namespace Astisub
namespace Teletext
open Go Generated.Teletext
open Spec.Teletext (cell closeRun Run Attr VRun)

/-! ## the table of the character decoder and the specification's look-up -/

/-- the specification's look-up for designation (key, code) and the table `c` give the same characters on 0x20..0x7f -/
def Agrees (key code : Nat) (c : Charset) : Prop :=
  ∀ v, v < 0x80 → 0x20 ≤ v → Spec.Teletext.charOf key code v = some (decodeChar c v)

instance (key code : Nat) (c : Charset) : Decidable (Agrees key code c) := by unfold Agrees; infer_instance

theorem computeCharset_congr (t t' code : Nat) (h : keyOf t = keyOf t') : computeCharset t code = computeCharset t' code := by
  unfold computeCharset; rw [h]

theorem keys_lt : ∀ e ∈ charsets, e.1 < 16 := by decide

/-- for every designation the package knows — whatever the other bits of the triplet — the table `updateCharset` builds
    and the specification's look-up agree on all of 0x20..0x7f -/
theorem computeCharset_agrees (triplet code : Nat) (hk : (lookupCharset (keyOf triplet) code).isSome = true) :
    Agrees (keyOf triplet) code (computeCharset triplet code) := by
  obtain ⟨x, hx⟩ := Option.isSome_iff_exists.mp hk
  obtain ⟨e, hm, h1, h2, _⟩ := lookupCharset_mem _ _ _ hx
  have hag := C06.C06_charset_agree e hm
  have hkey : keyOf (e.1 * 1024) = keyOf triplet := by
    rw [C06.C06_key_of_triplet (e.1 * 1024), ← h1]
    have := keys_lt e hm
    omega
  simp only [C06.charsetAgrees] at hag
  rw [computeCharset_congr _ _ _ hkey, h1, h2] at hag
  intro v hv1 hv2
  simp only [List.all_eq_true, List.mem_range, beq_iff_eq] at hag
  have := hag (v - 0x20) (by omega)
  rwa [show v - 0x20 + 0x20 = v by omega] at this

/-! ## the specification's `viewRun` -/

theorem mapM_eq_map {α β} (f : α → Option β) (g : α → β) : ∀ (l : List α), (∀ x ∈ l, f x = some (g x)) →
    Spec.Teletext.mapM f l = some (l.map g)
  | [], _ => rfl
  | x :: l, h => by
    simp only [Spec.Teletext.mapM, h x (by simp), mapM_eq_map f g l (fun y hy => h y (by simp [hy])), List.map_cons]

/-- what a pair (attributes, untrimmed text) denotes: the text without the blanks around it, and their numbers -/
def denote (r : Attr × Str) : VRun :=
  { attr := r.1, text := Spec.Teletext.stripSpaces r.2,
    before := (r.2.takeWhile (· == ' ')).length, after := (r.2.reverse.takeWhile (· == ' ')).length }

theorem viewRun_eq (key code : Nat) (c : Charset) (r : Run) (ha : Agrees key code c) (hp : Printable r.codes) :
    Spec.Teletext.viewRun key code r = some (denote (viewS c r)) := by
  unfold Spec.Teletext.viewRun
  rw [mapM_eq_map _ (decodeChar c) r.codes (fun v hv => ha v (hp v hv).2 (hp v hv).1)]
  simp only [Option.map_some, denote, viewS, dec, List.flatMap_def]

/-! ## the specification's codes are printable -/

def CodesOK (s : Spec.Teletext.RowSt) : Prop := (∀ r ∈ s.runs, Printable r.codes) ∧ Printable s.cur.codes

theorem codesOK_close {s : Spec.Teletext.RowSt} (h : CodesOK s) (a : Attr) : CodesOK (closeRun s a) := by
  refine ⟨fun r hr => ?_, fun v hv => by simp [closeRun] at hv⟩
  simp only [closeRun, List.mem_append, List.mem_singleton] at hr
  rcases hr with hr | hr
  · exact h.1 r hr
  · subst hr; exact h.2

theorem codesOK_cell {s : Spec.Teletext.RowSt} (h : CodesOK s) (x : Option Nat) (hx : ∀ v, x = some v → v < 128) :
    CodesOK (cell s x) := by
  cases x with
  | none => exact h
  | some v =>
    have hv := hx v rfl
    simp only [Spec.Teletext.cell]
    repeat' split
    all_goals first
      | exact h
      | exact codesOK_close h _
      | (refine ⟨h.1, fun w hw => ?_⟩
         simp only [List.mem_append, List.mem_singleton] at hw
         rcases hw with hw | hw
         · exact h.2 w hw
         · rw [hw]; omega)

theorem codesOK_foldl : ∀ (cells : List (Option Nat)) {s : Spec.Teletext.RowSt}, CodesOK s →
    (∀ x ∈ cells, ∀ v, x = some v → v < 128) → CodesOK (cells.foldl cell s)
  | [], _, h, _ => h
  | x :: cells, _, h, hx => by
    rw [List.foldl_cons]
    exact codesOK_foldl cells (codesOK_cell h x (hx x (by simp))) (fun y hy => hx y (by simp [hy]))

theorem specRuns_printable (cells : List (Option Nat)) (hx : ∀ x ∈ cells, ∀ v, x = some v → v < 128) :
    ∀ r ∈ specRuns cells, Printable r.codes := by
  have h0 : CodesOK {} := by
    refine ⟨fun r hr => ?_, fun v hv => ?_⟩
    · exact absurd hr (by simp)
    · exact absurd hv (by simp)
  have h : CodesOK (cells.foldl cell {}) := codesOK_foldl cells h0 hx
  intro r hr
  simp only [specRuns, List.mem_append, List.mem_singleton] at hr
  rcases hr with hr | hr
  · exact h.1 r hr
  · subst hr; exact h.2

/-! ## the model's items -/

/-- a pair (attributes, text) that `appendTeletextLineItem` keeps / the specification keeps: not all white space -/
def nonblank (r : Attr × Str) : Bool := !(trimSpace r.2).isEmpty

/-- the line item `appendTeletextLineItem` builds for a raw run -/
def itemOf (r : MRun) : LItem :=
  { text := trimSpace r.2,
    attrs := some (mkAttrs [
      ("TTMLColor", r.1.color.map fun c => (colorStrings c).2),
      ("TeletextColor", r.1.color.map fun c => (colorStrings c).1),
      ("TeletextDoubleHeight", r.1.dh.map boolStr), ("TeletextDoubleSize", r.1.ds.map boolStr),
      ("TeletextDoubleWidth", r.1.dw.map boolStr),
      ("TeletextSpacesAfter", some (natStr (countLeading r.2.reverse))),
      ("TeletextSpacesBefore", some (natStr (countLeading r.2)))]) }

theorem appendItem_eq (l : List LItem) (r : MRun) :
    appendItem l r.2 r.1 = if nonblank (viewM r) then l ++ [itemOf r] else l := by
  unfold appendItem nonblank viewM itemOf
  cases h : (trimSpace r.2).isEmpty <;> simp [h]

theorem foldl_appendItem : ∀ (rs : List MRun) (l : List LItem),
    rs.foldl (fun l r => appendItem l r.2 r.1) l = l ++ (rs.filter fun r => nonblank (viewM r)).map itemOf
  | [], l => by simp
  | r :: rs, l => by
    rw [List.foldl_cons, foldl_appendItem rs, appendItem_eq]
    cases h : nonblank (viewM r) <;> simp [h]

/-- the items of raw runs: one item per non-blank run -/
theorem itemsOf_eq (rs : List MRun) : itemsOf rs = (rs.filter fun r => nonblank (viewM r)).map itemOf := by
  unfold itemsOf; rw [foldl_appendItem]; simp

/-! ## a row -/

/-- received cells are 7-bit values -/
def CellsOK (cells : List (Option Nat)) : Prop := ∀ x ∈ cells, ∀ v, x = some v → v < 128

instance (cells : List (Option Nat)) : Decidable (CellsOK cells) := by
  unfold CellsOK
  exact List.decidableBAll (fun x => ∀ v, x = some v → v < 128) cells

theorem filter_map_congr {α β γ} (f : α → γ) (g : β → γ) (q : γ → Bool) : ∀ (l1 : List α) (l2 : List β),
    l1.map f = l2.map g → (l1.filter (q ∘ f)).map f = (l2.filter (q ∘ g)).map g
  | [], [], _ => rfl
  | [], _ :: _, h => by simp at h
  | _ :: _, [], h => by simp at h
  | a :: l1, b :: l2, h => by
    simp only [List.map_cons, List.cons.injEq] at h
    have ih := filter_map_congr f g q l1 l2 h.2
    simp only [List.filter_cons, Function.comp, h.1]
    split
    · simp only [List.map_cons, h.1, List.cons.injEq, true_and]; exact ih
    · exact ih

theorem any_ne_blank : ∀ (l : List Nat), l.any (· != 0x20) = !l.all (· == 0x20)
  | [] => rfl
  | v :: l => by
    simp only [List.any_cons, List.all_cons, any_ne_blank l, Bool.not_and]
    rfl

theorem nonblank_viewS (c : Charset) (hs : Solid c) (r : Run) (hp : Printable r.codes) :
    nonblank (viewS c r) = r.codes.any (· != 0x20) := by
  unfold nonblank viewS
  rw [trimSpace_isEmpty, hs.all_space r.codes hp]
  exact (any_ne_blank r.codes).symm

/-- **the specification's line of a row is the denotation of the model's non-blank raw runs** -/
theorem row_views (key code : Nat) (c : Charset) (cells : List (Option Nat)) (hs : Solid c) (ha : Agrees key code c)
    (hx : CellsOK cells) :
    (Spec.Teletext.rowRuns cells).bind (fun runs => Spec.Teletext.mapM (Spec.Teletext.viewRun key code) runs) =
      some ((((modelRuns c (cells.map storedCell)).filter fun r => nonblank (viewM r)).map viewM).map denote) := by
  rw [rowRuns_specRuns, Option.bind_some]
  have hp := specRuns_printable cells hx
  have hf : (specRuns cells).filter (fun r => r.codes.any (· != 0x20)) = (specRuns cells).filter (nonblank ∘ viewS c) := by
    apply List.filter_congr
    intro r hr
    exact (nonblank_viewS c hs r (hp r hr)).symm
  rw [hf, mapM_eq_map _ (fun r => denote (viewS c r))]
  · have := filter_map_congr viewM (viewS c) nonblank _ _ (modelRuns_specRuns c cells hx)
    have e : (fun r => nonblank (viewM r)) = nonblank ∘ viewM := rfl
    rw [e, this, List.map_map]
    rfl
  · intro r hr
    exact viewRun_eq key code c r ha (hp r (List.mem_filter.mp hr).1)

/-- **the model's line of a row is `itemOf` of the same raw runs** -/
theorem parseRow_items (c : Charset) (row : List Nat) :
    parseRow c row =
      (let items := ((modelRuns c row).filter fun r => nonblank (viewM r)).map itemOf
       if items.isEmpty then none else some { items := items }) := by
  rw [parseRow_modelRuns, itemsOf_eq]

/-- every raw run of the model holds a text decoded from printable codes -/
theorem modelRuns_decoded (c : Charset) (cells : List (Option Nat)) (hx : CellsOK cells) :
    ∀ r ∈ modelRuns c (cells.map storedCell), ∃ codes, Printable codes ∧ r.2 = dec c codes := by
  intro r hr
  have hm : viewM r ∈ (modelRuns c (cells.map storedCell)).map viewM := List.mem_map_of_mem hr
  rw [modelRuns_specRuns c cells hx] at hm
  obtain ⟨s, hs, he⟩ := List.mem_map.mp hm
  refine ⟨s.codes, specRuns_printable cells hx s hs, ?_⟩
  have := congrArg Prod.snd he
  simpa [viewM, viewS] using this.symm

/-- an item and the `VRun` of the same raw run say the same: same text, same numbers of blanks, and the attributes
    the style denotes -/
theorem item_denote (c : Charset) (hs : Solid c) (r : MRun) (codes : List Nat) (hp : Printable codes) (hr : r.2 = dec c codes) :
    (itemOf r).text = (denote (viewM r)).text ∧ (denote (viewM r)).attr = attrOf r.1 ∧
    (denote (viewM r)).before = countLeading r.2 ∧ (denote (viewM r)).after = countLeading r.2.reverse := by
  refine ⟨?_, rfl, rfl, rfl⟩
  show trimSpace r.2 = Spec.Teletext.stripSpaces r.2
  rw [hr]
  exact trimSpace_eq_strip _ (hs.space_is_blank codes hp)

end Teletext
end Astisub
