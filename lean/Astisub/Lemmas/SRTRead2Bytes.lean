import Astisub.Lemmas.SRTBytes
import Astisub.Lemmas.SRTSpecLines

/-!
# Lemmas/SRTRead2Bytes — the scanner's lines of ANY UTF-8 document are the decoder's lines

`Driver.docLines` cuts the bytes of a document into lines the way `bufio.ScanLines` does
(`Go.linesOf`) and decodes each line as UTF-8; the independent decoder `Spec.SRT.decode` cuts the
decoded text with `Spec.SRT.splitLines`.  For every byte string that decodes as UTF-8 the two
agree: `docLines_of_decodeLine`.  LF, CRLF and a lone CR each end a line (a lone CR at the very
end included), a final unterminated line is a line, the empty document has no line.

* `utf8_of_decodeLine` : a byte string that decodes to `text` is the encoding of `text`;
* `linesOf_crlf`, `linesOf_cr_other`, `linesOf_cr_end`, `linesOf_plain` : one step of the scanner
  (with `SRTDoc.linesOf_lf`);
* `linesOf_utf8_acc`   : the induction, generalised over the accumulator of `splitLines`;
* `linesOf_utf8`, `docLines_of_decodeLine`.
-/

namespace Astisub
namespace SRTRead2
open Go SRTDoc

/-! ## decoding is injective -/
theorem utf8_of_decodeLine (doc : List UInt8) (text : Str) (h : Driver.decodeLine doc = some text) :
    doc = Driver.utf8 text := by
  unfold Driver.decodeLine at h
  rw [String.fromUTF8?] at h
  split at h
  · rename_i hv
    simp only [Option.map_some, Option.some.injEq] at h
    subst h
    unfold Driver.utf8
    rw [String.ofList_toList]
    simp [String.fromUTF8, byteArray_toList]
  · simp at h

/-! ## one step of the scanner -/

theorem breakEOL_cr (p rest : List UInt8) (hp : ∀ b ∈ p, b ≠ 10 ∧ b ≠ 13) :
    breakEOL (p ++ 13 :: rest) = (p, 13 :: rest) := by
  induction p with
  | nil => simp [breakEOL, isEOL]
  | cons c cs ih =>
    have hc := hp c (by simp)
    have := ih (fun b hb => hp b (by simp [hb]))
    simp [breakEOL, isEOL, hc.1, hc.2, this]

theorem breakEOL_plain (p : List UInt8) (hp : ∀ b ∈ p, b ≠ 10 ∧ b ≠ 13) :
    breakEOL p = (p, []) := by
  induction p with
  | nil => simp [breakEOL]
  | cons c cs ih =>
    have hc := hp c (by simp)
    have := ih (fun b hb => hp b (by simp [hb]))
    simp [breakEOL, isEOL, hc.1, hc.2, this]

theorem splitLine_crlf (p rest : List UInt8) (hp : ∀ b ∈ p, b ≠ 10 ∧ b ≠ 13) :
    splitLine true (p ++ 13 :: 10 :: rest) true = .tok (p.length + 2) p := by
  unfold splitLine
  rw [breakEOL_cr p _ hp]
  simp

theorem splitLine_cr_other (p rest : List UInt8) (c : UInt8) (hc : c ≠ 10)
    (hp : ∀ b ∈ p, b ≠ 10 ∧ b ≠ 13) :
    splitLine true (p ++ 13 :: c :: rest) true = .tok (p.length + 1) p := by
  unfold splitLine
  rw [breakEOL_cr p _ hp]
  simp [hc]

theorem splitLine_cr_end (p : List UInt8) (hp : ∀ b ∈ p, b ≠ 10 ∧ b ≠ 13) :
    splitLine true (p ++ [13]) true = .tok (p.length + 1) p := by
  unfold splitLine
  rw [breakEOL_cr p _ hp]
  simp

theorem splitLine_plain (p : List UInt8) (hne : p ≠ []) (hp : ∀ b ∈ p, b ≠ 10 ∧ b ≠ 13) :
    splitLine true p true = .tok p.length p := by
  unfold splitLine
  rw [breakEOL_plain p hp]
  simp [hne]

theorem linesOf_crlf (p rest : List UInt8) (hp : ∀ b ∈ p, b ≠ 10 ∧ b ≠ 13) :
    linesOf (p ++ 13 :: 10 :: rest) = p :: linesOf rest := by
  unfold linesOf
  rw [drain_tok (splitLine_crlf p rest hp)]
  simp

theorem linesOf_cr_other (p rest : List UInt8) (c : UInt8) (hc : c ≠ 10)
    (hp : ∀ b ∈ p, b ≠ 10 ∧ b ≠ 13) :
    linesOf (p ++ 13 :: c :: rest) = p :: linesOf (c :: rest) := by
  unfold linesOf
  rw [drain_tok (splitLine_cr_other p rest c hc hp)]
  simp

theorem linesOf_cr_end (p : List UInt8) (hp : ∀ b ∈ p, b ≠ 10 ∧ b ≠ 13) :
    linesOf (p ++ [13]) = [p] := by
  unfold linesOf
  rw [drain_tok (splitLine_cr_end p hp)]
  simp
  exact linesOf_nil

theorem linesOf_plain (p : List UInt8) (hne : p ≠ []) (hp : ∀ b ∈ p, b ≠ 10 ∧ b ≠ 13) :
    linesOf p = [p] := by
  unfold linesOf
  rw [drain_tok (splitLine_plain p hne hp)]
  simp
  exact linesOf_nil

/-! ## the encoding of single characters -/

theorem utf8_cr : Driver.utf8 ['\r'] = [13] := by
  simp [utf8_eq_flatMap]; decide

theorem utf8_cons (c : Char) (s : Str) :
    Driver.utf8 (c :: s) = String.utf8EncodeChar c ++ Driver.utf8 s := by
  simp [utf8_eq_flatMap]

theorem utf8_cons_lf (s : Str) : Driver.utf8 ('\n' :: s) = 10 :: Driver.utf8 s := by
  rw [show '\n' :: s = ['\n'] ++ s from rfl, utf8_append, utf8_newline]; rfl

theorem utf8_cons_cr (s : Str) : Driver.utf8 ('\r' :: s) = 13 :: Driver.utf8 s := by
  rw [show '\r' :: s = ['\r'] ++ s from rfl, utf8_append, utf8_cr]; rfl

theorem encodeChar_ne_nil (c : Char) : String.utf8EncodeChar c ≠ [] := by
  intro h
  have h1 := String.length_utf8EncodeChar c
  have h2 := Char.utf8Size_pos c
  rw [h, List.length_nil] at h1
  omega

theorem utf8_ne_nil (s : Str) (h : s ≠ []) : Driver.utf8 s ≠ [] := by
  cases s with
  | nil => contradiction
  | cons c s => rw [utf8_cons]; simp [encodeChar_ne_nil c]

/-- the encoding of a text that starts with a character other than LF starts with a byte other than 10 -/
theorem utf8_head_ne_lf (d : Char) (s : Str) (hd : d ≠ '\n') :
    ∃ b bs, Driver.utf8 (d :: s) = b :: bs ∧ b ≠ 10 := by
  rw [utf8_cons]
  cases he : String.utf8EncodeChar d with
  | nil => exact absurd he (encodeChar_ne_nil d)
  | cons b bs =>
    refine ⟨b, bs ++ Driver.utf8 s, rfl, ?_⟩
    intro e; subst e
    exact hd (lf_mem_encodeChar (by rw [he]; simp))

theorem splitLines_nil (acc : Str) :
    Spec.SRT.splitLines [] acc = if acc.isEmpty then [] else [acc.reverse] := by
  simp [Spec.SRT.splitLines]

theorem splitLines_crlf (rest acc : Str) :
    Spec.SRT.splitLines ('\r' :: '\n' :: rest) acc = acc.reverse :: Spec.SRT.splitLines rest [] := by
  simp [Spec.SRT.splitLines]

theorem splitLines_cr_end (acc : Str) :
    Spec.SRT.splitLines ['\r'] acc = [acc.reverse] := by
  simp [Spec.SRT.splitLines]

theorem splitLines_cr_other (d : Char) (rest acc : Str) (hd : d ≠ '\n') :
    Spec.SRT.splitLines ('\r' :: d :: rest) acc = acc.reverse :: Spec.SRT.splitLines (d :: rest) [] := by
  rw [Spec.SRT.splitLines]
  intro r h; cases h; contradiction

theorem linesOf_utf8_acc (n : Nat) : ∀ (rest acc : Str), rest.length = n → ('\n' ∉ acc ∧ '\r' ∉ acc) →
    linesOf (Driver.utf8 acc.reverse ++ Driver.utf8 rest) = (Spec.SRT.splitLines rest acc).map Driver.utf8 := by
  induction n using Nat.strongRecOn with
  | _ n ih =>
    intro rest acc hn hacc
    have hp : ∀ b ∈ Driver.utf8 acc.reverse, b ≠ 10 ∧ b ≠ 13 :=
      utf8_no_eol _ (by simpa using hacc)
    have hnil : ('\n' : Char) ∉ ([] : Str) ∧ '\r' ∉ ([] : Str) := by simp
    cases rest with
    | nil =>
      rw [splitLines_nil, utf8_nil, List.append_nil]
      cases acc with
      | nil => simp [utf8_nil, linesOf_nil]
      | cons a acc =>
        rw [linesOf_plain _ (utf8_ne_nil _ (by simp)) hp]
        simp
    | cons c rest =>
      by_cases hlf : c = '\n'
      · subst hlf
        rw [utf8_cons_lf, linesOf_lf _ _ hp, splitLines_lf]
        have := ih rest.length (by simp at hn; omega) rest [] rfl hnil
        simp only [List.reverse_nil, utf8_nil, List.nil_append] at this
        rw [this]; simp
      · by_cases hcr : c = '\r'
        · subst hcr
          rw [utf8_cons_cr]
          cases rest with
          | nil =>
            rw [utf8_nil, linesOf_cr_end _ hp, splitLines_cr_end]; simp
          | cons d rest =>
            by_cases hd : d = '\n'
            · subst hd
              rw [utf8_cons_lf, linesOf_crlf _ _ hp, splitLines_crlf]
              have := ih rest.length (by simp at hn; omega) rest [] rfl hnil
              simp only [List.reverse_nil, utf8_nil, List.nil_append] at this
              rw [this]; simp
            · obtain ⟨b, bs, hb, hb10⟩ := utf8_head_ne_lf d rest hd
              rw [hb, linesOf_cr_other _ _ _ hb10 hp, ← hb, splitLines_cr_other _ _ _ hd]
              have := ih (d :: rest).length (by simp at hn ⊢; omega) (d :: rest) [] rfl hnil
              simp only [List.reverse_nil, utf8_nil, List.nil_append] at this
              rw [this]; simp
        · rw [splitLines_char c rest acc hlf hcr]
          have := ih rest.length (by simp at hn; omega) rest (c :: acc) rfl
            (by simp [hacc.1, hacc.2, Ne.symm hlf, Ne.symm hcr])
          have e : Driver.utf8 (c :: rest) = Driver.utf8 [c] ++ Driver.utf8 rest := utf8_append [c] rest
          rw [← this, e, List.reverse_cons, utf8_append, List.append_assoc]

theorem linesOf_utf8 (text : Str) :
    linesOf (Driver.utf8 text) = (Spec.SRT.splitLines text []).map Driver.utf8 := by
  have := linesOf_utf8_acc text.length text [] rfl (by simp)
  simpa [utf8_nil] using this

/-- **Bytes to lines, for every document.**  A byte string that decodes as UTF-8 to `text` is cut
    by the scanner into lines that decode to exactly the lines the independent decoder cuts `text`
    into. -/
theorem docLines_of_decodeLine (doc : List UInt8) (text : Str) (h : Driver.decodeLine doc = some text) :
    Driver.docLines doc = (Spec.SRT.splitLines text []).map some := by
  rw [utf8_of_decodeLine doc text h]
  unfold Driver.docLines
  rw [linesOf_utf8, List.map_map]
  apply List.map_congr_left
  intro l _
  exact decodeLine_utf8 l

end SRTRead2
end Astisub
