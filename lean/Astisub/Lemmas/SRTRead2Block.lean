import Astisub.Lemmas.SRTRead2Step
import Astisub.Lemmas.SRTSpecLines

/-!
# Lemmas/SRTRead2Block — one block of a SubRip document: reader model against `Spec.SRT.decodeBlock`

State invariant `Good st cues n X`: the reader's loop state `st` holds the cues `cues` (all but the
last in `st.done`, the last one being filled in `st.cur`), followed by `n` place holders of empty
lines and by `X` (what an index line left behind: nothing, a place holder, or a line with text).
-/

namespace Astisub
namespace SRTRead2
open Go SRT SRTDoc
open Spec.SRT (GRun GCue Sty runsOf tagAt cueLines timing timeMs decodeBlock)

/-- the contract of `Lemmas/SRTRead2Time.lean` (`parseSRT_of_timeMs`) -/
def TimeSim : Prop :=
  ∀ (s : Str) (ms : Nat), timeMs s = some ms → ms / 3600000 ≤ int64Max →
    Duration.parseSRT s = some ((ms : Int) * 1000000)

/-- a stored text line: at least one item, every item has text -/
def Solid (l : Line) : Prop := l.items ≠ [] ∧ ∀ it ∈ l.items, it.text ≠ []

def linesView (ls : List Line) : List (List GRun) := ls.map fun l => l.items.map drvRun

/-! ## `runG` -/

theorem runG_append (st : St) (a b : List Str) :
    runG st (a ++ b) = match runG st a with
      | .ok st' => runG st' b
      | .err => .err
      | .unmodelled => .unmodelled := by
  induction a generalizing st with
  | nil => rfl
  | cons l a ih =>
    simp only [List.cons_append, runG]
    cases stepG st l with
    | ok st' => exact ih st'
    | err => rfl
    | unmodelled => rfl

theorem runG_cons_ok {st st' : St} {l : Str} (ls : List Str) (h : stepG st l = .ok st') :
    runG st (l :: ls) = runG st' ls := by
  simp only [runG, h]

theorem stepG_modelled {st : St} {l : Str} {ls : List Str} (h : runG st (l :: ls) ≠ .unmodelled) :
    stepG st l ≠ .unmodelled := by
  intro e; apply h; simp only [runG, e]

theorem runG_prefix_modelled {st : St} {a b : List Str} (h : runG st (a ++ b) ≠ .unmodelled) :
    runG st a ≠ .unmodelled := by
  intro e; apply h; rw [runG_append, e]

/-! ## trailing empty lines -/

theorem str_ne_nil_of_solid {l : Line} (h : Solid l) : l.str ≠ [] := by
  obtain ⟨h1, h2⟩ := h
  unfold Line.str
  cases hi : l.items with
  | nil => exact absurd hi h1
  | cons a as =>
    have := h2 a (by rw [hi]; simp)
    cases ht : a.text with
    | nil => exact absurd ht this
    | cons c cs => simp [ht]

theorem stripItems_solid {l : Line} (h : Solid l) : stripItems l = l := by
  obtain ⟨h1, h2⟩ := h
  unfold stripItems
  have : l.items.reverse.dropWhile (fun it => it.text.isEmpty) = l.items.reverse := by
    cases hr : l.items.reverse with
    | nil => rfl
    | cons a as =>
      have ha : a ∈ l.items := by
        have : a ∈ l.items.reverse := by rw [hr]; simp
        simpa using this
      have := h2 a ha
      have e : a.text.isEmpty = false := by
        cases ht : a.text with
        | nil => exact absurd ht this
        | cons _ _ => rfl
      simp [List.dropWhile, e]
  rw [this, List.reverse_reverse]

theorem stripLines_blanks (T : List Line) (n : Nat) (h : ∀ l ∈ T, Solid l) :
    stripLines (T ++ List.replicate n blankLine) = T := by
  unfold stripLines
  induction T with
  | nil =>
    cases n with
    | zero => rfl
    | succ n => rfl
  | cons l T ih =>
    have hl := h l (by simp)
    have e : (!(l.items.isEmpty)) = true := by
      cases hi : l.items with
      | nil => exact absurd hi hl.1
      | cons _ _ => rfl
    simp only [List.cons_append, List.map_cons, stripItems_solid hl, List.takeWhile_cons, e, ↓reduceIte]
    rw [ih (fun x hx => h x (by simp [hx]))]

theorem idxSplit_nil : idxSplit [] = ([], []) := rfl

theorem idxSplit_blank (L : List Line) : idxSplit (L ++ [blankLine]) = ([], L ++ [blankLine]) := by
  unfold idxSplit
  rw [List.getLast?_concat]
  rfl

theorem idxSplit_solid (L : List Line) (l : Line) (h : Solid l) : idxSplit (L ++ [l]) = (l.str, L) := by
  unfold idxSplit
  rw [List.getLast?_concat]
  simp only [ne_eq, str_ne_nil_of_solid h, not_false_eq_true, ↓reduceIte, List.dropLast_concat]

/-- what an index line leaves behind in the cue being filled -/
def XOK (X : List Line) : Prop := X = [] ∨ X = [blankLine] ∨ ∃ l, X = [l] ∧ Solid l

/-- at a timing line, the lines kept for the previous cue are its text lines -/
theorem strip_prev (T : List Line) (n : Nat) (X : List Line) (hT : ∀ l ∈ T, Solid l) (hX : XOK X)
    (hn : 1 ≤ n ∨ X ≠ []) : stripLines (idxSplit (T ++ List.replicate n blankLine ++ X)).2 = T := by
  rcases hX with rfl | rfl | ⟨l, rfl, hl⟩
  · have : 1 ≤ n := by
      rcases hn with h | h
      · exact h
      · exact absurd rfl h
    obtain ⟨k, rfl⟩ : ∃ k, n = k + 1 := ⟨n - 1, by omega⟩
    rw [List.append_nil, List.replicate_succ', ← List.append_assoc, idxSplit_blank, List.append_assoc,
      ← List.replicate_succ']
    exact stripLines_blanks T (k + 1) hT
  · rw [idxSplit_blank, List.append_assoc, ← List.replicate_succ']
    exact stripLines_blanks T (n + 1) hT
  · rw [idxSplit_solid _ _ hl]
    exact stripLines_blanks T n hT

/-! ## `mapM` and the view -/

theorem mapM_append {α β} (f : α → Option β) (a b : List α) (x y : List β)
    (ha : Spec.SRT.mapM f a = some x) (hb : Spec.SRT.mapM f b = some y) :
    Spec.SRT.mapM f (a ++ b) = some (x ++ y) := by
  induction a generalizing x with
  | nil => simp only [Spec.SRT.mapM] at ha; cases ha; simpa using hb
  | cons c a ih =>
    simp only [Spec.SRT.mapM] at ha
    cases hc : f c with
    | none => rw [hc] at ha; cases ha
    | some v =>
      cases hr : Spec.SRT.mapM f a with
      | none => rw [hc, hr] at ha; cases ha
      | some vs =>
        rw [hc, hr] at ha
        cases ha
        simp only [List.cons_append, Spec.SRT.mapM, hc, ih vs hr]

theorem mapM_cons_some {α β} (f : α → Option β) (a : α) (as : List α) (ys : List β)
    (h : Spec.SRT.mapM f (a :: as) = some ys) :
    ∃ y ys', f a = some y ∧ Spec.SRT.mapM f as = some ys' ∧ ys = y :: ys' := by
  simp only [Spec.SRT.mapM] at h
  cases hc : f a with
  | none => rw [hc] at h; cases h
  | some v =>
    cases hr : Spec.SRT.mapM f as with
    | none => rw [hc, hr] at h; cases h
    | some vs => rw [hc, hr] at h; cases h; exact ⟨v, vs, rfl, rfl, rfl⟩

theorem drvItem_of (it : CItem) (s e : Nat) (h1 : it.startAt = (s : Int) * 1000000) (h2 : it.endAt = (e : Int) * 1000000) :
    drvItem it = some { startMs := s, endMs := e, lines := linesView it.lines } := by
  have e1 : it.startAt % 1000000 = 0 := by omega
  have e2 : it.endAt % 1000000 = 0 := by omega
  have e3 : ¬ (it.startAt < 0) := by omega
  have e4 : ¬ (it.endAt < 0) := by omega
  have e5 : (it.startAt / 1000000).toNat = s := by omega
  have e6 : (it.endAt / 1000000).toNat = e := by omega
  unfold drvItem linesView
  simp only [e1, e2, e3, e4, e5, e6, ne_eq, not_true_eq_false, decide_false, Bool.or_self, Bool.false_eq_true,
    ↓reduceIte]

/-! ## the state invariant -/

def Good (st : St) (cues : List GCue) (n : Nat) (X : List Line) : Prop :=
  (cues = [] ∧ st.curListed = false ∧ st.done = []) ∨
  (∃ pc c T, cues = pc ++ [c] ∧ st.curListed = true ∧ Spec.SRT.mapM drvItem st.done = some pc ∧
     drvItem { st.cur with lines := T } = some c ∧ st.cur.lines = T ++ List.replicate n blankLine ++ X ∧
     ∀ l ∈ T, Solid l)

theorem good_init : Good {} [] 0 [] := Or.inl ⟨rfl, rfl, rfl⟩

/-- the cue list `SRT.read` returns for a final state -/
def finish (st : St) : Subs :=
  { items := if st.curListed then st.done ++ [{ st.cur with lines := stripLines st.cur.lines }] else st.done }

theorem good_finish {st : St} {cues : List GCue} {n : Nat} (h : Good st cues n []) :
    Driver.srtView (finish st) = some cues := by
  rw [srtView_eq]
  unfold finish
  rcases h with ⟨rfl, h1, h2⟩ | ⟨pc, c, T, rfl, h1, h2, h3, h4, h5⟩
  · simp only [h1, Bool.false_eq_true, ↓reduceIte, h2, Spec.SRT.mapM]
  · simp only [h1, ↓reduceIte]
    apply mapM_append _ _ _ _ _ h2
    rw [h4, List.append_nil, stripLines_blanks T n h5]
    simp only [Spec.SRT.mapM, h3]

/-- an empty line -/
theorem good_blank {st : St} {cues : List GCue} {n : Nat} (h : Good st cues n []) :
    ∃ st', stepG st [] = .ok st' ∧ Good st' cues (n + 1) [] := by
  refine ⟨_, stepG_blank st, ?_⟩
  rcases h with ⟨rfl, h1, h2⟩ | ⟨pc, c, T, rfl, h1, h2, h3, h4, h5⟩
  · exact Or.inl ⟨rfl, h1, h2⟩
  · refine Or.inr ⟨pc, c, T, rfl, h1, h2, h3, ?_, h5⟩
    simp only [h4, List.append_nil, List.replicate_succ', List.append_assoc]

/-- an index line: any line without `-->` in front of a timing line -/
theorem good_index {st : St} {cues : List GCue} {n : Nat} (h : Good st cues n []) (m : Str)
    (hc : contains arrow m = false) (hm : stepG st m ≠ .unmodelled) :
    ∃ st' X, stepG st m = .ok st' ∧ XOK X ∧ Good st' cues n X ∧ (trimSpace m = [] → X ≠ []) := by
  rw [stepG_plain st m hc] at hm ⊢
  cases hp : parseText m st.sa with
  | unmodelled => rw [hp] at hm; exact absurd rfl hm
  | err =>
    exfalso
    unfold parseText at hp
    split at hp
    · cases hp
    · split at hp <;> cases hp
  | ok r =>
    obtain ⟨sa', ln⟩ := r
    simp only
    rcases parseText_shape m st.sa sa' ln hp with ⟨rfl, _, _⟩ | ⟨hne, htx⟩
    · refine ⟨_, [blankLine], rfl, Or.inr (Or.inl rfl), ?_, fun _ => by simp⟩
      rcases h with ⟨rfl, h1, h2⟩ | ⟨pc, c, T, rfl, h1, h2, h3, h4, h5⟩
      · exact Or.inl ⟨rfl, h1, h2⟩
      · refine Or.inr ⟨pc, c, T, rfl, h1, h2, h3, ?_, h5⟩
        show (if blankLine.items.isEmpty then st.cur else { st.cur with lines := st.cur.lines ++ [blankLine] }).lines = _
        have : blankLine.items.isEmpty = false := rfl
        simp only [this, Bool.false_eq_true, ↓reduceIte, h4, List.append_nil]
    · cases hi : ln.items with
      | nil =>
        refine ⟨_, [], rfl, Or.inl rfl, ?_, fun e => absurd e hne⟩
        rcases h with ⟨rfl, h1, h2⟩ | ⟨pc, c, T, rfl, h1, h2, h3, h4, h5⟩
        · exact Or.inl ⟨rfl, h1, h2⟩
        · refine Or.inr ⟨pc, c, T, rfl, h1, h2, h3, ?_, h5⟩
          simp only [List.isEmpty_nil, ↓reduceIte, h4]
      | cons a as =>
        have hs : Solid ln := ⟨by rw [hi]; simp, htx⟩
        refine ⟨_, [ln], rfl, Or.inr (Or.inr ⟨ln, rfl, hs⟩), ?_, fun e => absurd e hne⟩
        rcases h with ⟨rfl, h1, h2⟩ | ⟨pc, c, T, rfl, h1, h2, h3, h4, h5⟩
        · exact Or.inl ⟨rfl, h1, h2⟩
        · refine Or.inr ⟨pc, c, T, rfl, h1, h2, h3, ?_, h5⟩
          simp only [List.isEmpty_cons, Bool.false_eq_true, ↓reduceIte, h4, List.append_nil]

/-! ## the timing line -/

/-- what the reader model needs from a timing line to start the cue `[s ms, e ms)` -/
def TimingOK (m : Str) (s e : Nat) : Prop :=
  ∃ left right rest1 endTok rest2, contains arrow m = true ∧ splitOn arrow m = left :: right :: rest1 ∧
    fields right = endTok :: rest2 ∧ Duration.parseSRT left = some ((s : Int) * 1000000) ∧
    Duration.parseSRT endTok = some ((e : Int) * 1000000)

/-- the reader is filling the cue `[s ms, e ms)` whose lines so far are `L`; the cues before it are `cues` -/
def AtCue (st : St) (cues : List GCue) (s e : Nat) (L : List Line) : Prop :=
  st.curListed = true ∧ Spec.SRT.mapM drvItem st.done = some cues ∧ st.cur.startAt = (s : Int) * 1000000 ∧
    st.cur.endAt = (e : Int) * 1000000 ∧ st.cur.lines = L

theorem good_timing {st : St} {cues : List GCue} {n : Nat} {X : List Line} (h : Good st cues n X) (hX : XOK X)
    (hn : cues = [] ∨ 1 ≤ n ∨ X ≠ []) (m : Str) (s e : Nat) (ht : TimingOK m s e) :
    ∃ st', stepG st m = .ok st' ∧ AtCue st' cues s e [] ∧ st'.sa = {} := by
  obtain ⟨left, right, rest1, endTok, rest2, hc, hs, hf, h1, h2⟩ := ht
  refine ⟨_, stepG_timing st m left right endTok rest1 rest2 _ _ hc hs hf h1 h2, ⟨rfl, ?_, rfl, rfl, rfl⟩, rfl⟩
  rcases h with ⟨rfl, g1, g2⟩ | ⟨pc, c, T, rfl, g1, g2, g3, g4, g5⟩
  · simp only [g1, Bool.false_eq_true, ↓reduceIte, g2, Spec.SRT.mapM]
  · simp only [g1, ↓reduceIte]
    apply mapM_append _ _ _ _ _ g2
    have hn' : 1 ≤ n ∨ X ≠ [] := by
      rcases hn with hn | hn
      · simp at hn
      · exact hn
    rw [g4, strip_prev T n X g5 hX hn']
    simp only [Spec.SRT.mapM, g3]

theorem atCue_good {st : St} {cues : List GCue} {s e : Nat} {L : List Line} (h : AtCue st cues s e L)
    (hL : ∀ l ∈ L, Solid l) : Good st (cues ++ [{ startMs := s, endMs := e, lines := linesView L }]) 0 [] := by
  obtain ⟨h1, h2, h3, h4, h5⟩ := h
  refine Or.inr ⟨cues, _, L, rfl, h1, h2, ?_, by simp [h5], hL⟩
  exact drvItem_of _ s e h3 h4

/-! ## the text lines of a cue -/

theorem cueLines_cons {t : Str} {ts : List Str} {sty : Sty} {ls : List (List GRun)}
    (h : cueLines (t :: ts) sty = some ls) :
    ∃ sty' runs rest, runsOf (t.length + 2) t sty [] [] = some (sty', runs) ∧ cueLines ts sty' = some rest ∧
      runs ≠ [] ∧ ls = runs :: rest := by
  rw [cueLines] at h
  cases hr : runsOf (t.length + 2) t sty [] [] with
  | none => rw [hr] at h; cases h
  | some r =>
    obtain ⟨sty', runs⟩ := r
    rw [hr] at h
    simp only at h
    cases hc : cueLines ts sty' with
    | none => rw [hc] at h; cases h
    | some rest =>
      rw [hc] at h
      simp only at h
      cases hre : runs with
      | nil => rw [hre] at h; simp at h
      | cons a as =>
        rw [hre] at h
        simp only [List.isEmpty_cons, Bool.false_eq_true, ↓reduceIte, Option.some.injEq] at h
        exact ⟨sty', a :: as, rest, rfl, hc, by simp, h.symm⟩

/-- the state after a text line has been stored -/
def pushLine (st : St) (l : Line) (sa : Run) : St :=
  { st with cur := { st.cur with lines := st.cur.lines ++ [l] }, sa := sa, lineNum := st.lineNum + 1 }

theorem text_sim (TS : TagSim) : ∀ (text : List Str) (st : St) (cues : List GCue) (s e : Nat) (L : List Line)
    (ls : List (List GRun)), AtCue st cues s e L → cueLines text (styOf st.sa) = some ls →
    (∀ t ∈ text, trimSpace t ≠ [] ∧ contains arrow t = false) → runG st text ≠ .unmodelled →
    ∃ st' L', runG st text = .ok st' ∧ AtCue st' cues s e (L ++ L') ∧ linesView L' = ls ∧ ∀ l ∈ L', Solid l := by
  intro text
  induction text with
  | nil =>
    intro st cues s e L ls h hc _ _
    rw [cueLines] at hc
    cases hc
    exact ⟨st, [], rfl, by simpa using h, rfl, by simp⟩
  | cons t ts ih =>
    intro st cues s e L ls h hc ht hm
    obtain ⟨sty', runs, rest, hr, hc', hne, rfl⟩ := cueLines_cons hc
    obtain ⟨ht1, ht2⟩ := ht t (by simp)
    have hm1 := stepG_modelled hm
    rw [stepG_plain st t ht2] at hm1
    have hpm : parseText t st.sa ≠ .unmodelled := by
      intro e; rw [e] at hm1; exact hm1 rfl
    obtain ⟨sa', items, hp, hsty, hview⟩ := parseText_sim TS t st.sa (sty', runs) ht1 hr hpm
    have hi : items ≠ [] := by
      intro e; rw [e] at hview; exact hne hview.symm
    have hie : items.isEmpty = false := by
      cases items with
      | nil => exact absurd rfl hi
      | cons _ _ => rfl
    have hstep : stepG st t = .ok (pushLine st { items := items } sa') := by
      rw [stepG_plain st t ht2, hp]
      simp only [hie, Bool.false_eq_true, ↓reduceIte]
      rfl
    rw [runG_cons_ok ts hstep] at hm ⊢
    obtain ⟨h1, h2, h3, h4, h5⟩ := h
    have hat : AtCue (pushLine st { items := items } sa') cues s e (L ++ [{ items := items }]) :=
      ⟨h1, h2, h3, h4, by simp only [pushLine, h5]⟩
    have hsolid : Solid ({ items := items } : Line) := by
      refine ⟨hi, ?_⟩
      rcases parseText_shape t st.sa sa' _ hp with ⟨_, _, hb⟩ | ⟨_, htx⟩
      · exact absurd hb ht1
      · exact htx
    obtain ⟨st', L', hrun, hat', hv, hs⟩ := ih _ cues s e _ rest hat (by show cueLines ts (styOf sa') = some rest; rw [hsty]; exact hc')
      (fun x hx => ht x (by simp [hx])) hm
    refine ⟨st', { items := items } :: L', hrun, by simpa using hat', ?_, ?_⟩
    · simp only [linesView, List.map_cons] at hv ⊢
      rw [hv, hview]
    · intro l hl
      rcases List.mem_cons.mp hl with rfl | hl
      · exact hsolid
      · exact hs l hl

/-! ## the decoder's view of a block -/

theorem splitOnAux_not_contains (sep : Str) : ∀ (s : Str) (fuel : Nat) (acc : Str), s.length < fuel →
    contains sep s = false → splitOnAux sep fuel s acc = [acc.reverse ++ s] := by
  intro s
  induction s with
  | nil =>
    intro fuel acc hf _
    cases fuel with
    | zero => omega
    | succ fuel => simp [splitOnAux]
  | cons x xs ih =>
    intro fuel acc hf hc
    cases fuel with
    | zero => omega
    | succ fuel =>
      unfold contains at hc
      simp only [Bool.or_eq_false_iff] at hc
      have hd : dropPrefix? sep (x :: xs) = none := by
        have := hc.1
        unfold hasPrefix at this
        cases hdp : dropPrefix? sep (x :: xs) with
        | none => rfl
        | some r => rw [hdp] at this; cases this
      rw [splitOnAux, hd]
      simp only
      rw [ih fuel (x :: acc) (by simp only [List.length_cons] at hf; omega) hc.2]
      simp

theorem splitOn_not_contains (s : Str) (hc : contains arrow s = false) : splitOn arrow s = [s] := by
  unfold splitOn
  have : arrow.isEmpty = false := rfl
  rw [this]
  simp only [Bool.false_eq_true, ↓reduceIte]
  rw [splitOnAux_not_contains arrow s _ [] (Nat.lt_succ_self _) hc]
  rfl

theorem timing_parts {d : Str} {s e : Nat} (h : timing d = some (s, e)) :
    ∃ l r e' rest, splitOn arrow d = [l, r] ∧ fields r = e' :: rest ∧ timeMs l = some s ∧ timeMs e' = some e := by
  unfold timing at h
  split at h
  · rename_i l r hs
    split at h
    · rename_i e' rest hf
      split at h
      · rename_i s' e'' h1 h2
        injection h with h
        injection h with ha hb
        subst ha; subst hb
        exact ⟨l, r, e', rest, hs, hf, h1, h2⟩
      · cases h
    · cases h
  · cases h

theorem timingOK_of_timing (TM : TimeSim) {d : Str} {s e : Nat} (h : timing d = some (s, e))
    (hs : s / 3600000 ≤ int64Max) (he : e / 3600000 ≤ int64Max) : TimingOK d s e := by
  obtain ⟨l, r, e', rest, h1, h2, h3, h4⟩ := timing_parts h
  refine ⟨l, r, [], e', rest, ?_, h1, h2, TM l s h3 hs, TM e' e h4 he⟩
  cases hc : contains arrow d with
  | true => rfl
  | false => rw [splitOn_not_contains d hc] at h1; cases h1

theorem timing_contains {d : Str} {t : Nat × Nat} (h : timing d = some t) : contains arrow d = true := by
  obtain ⟨s, e⟩ := t
  obtain ⟨l, r, e', rest, h1, _, _, _⟩ := timing_parts h
  cases hc : contains arrow d with
  | true => rfl
  | false => rw [splitOn_not_contains d hc] at h1; cases h1

theorem block_tail {s e : Nat} {text : List Str} {c : GCue}
    (h : (if text.isEmpty || text.any (contains "-->".toList) then none else
      (cueLines text {}).map fun ls => ({ startMs := s, endMs := e, lines := ls } : GCue)) = some c) :
    ∃ ls, c = { startMs := s, endMs := e, lines := ls } ∧ text ≠ [] ∧ (∀ t ∈ text, contains arrow t = false) ∧
      cueLines text {} = some ls := by
  split at h
  · cases h
  · rename_i hcond
    simp only [Bool.or_eq_true, not_or, Bool.not_eq_true] at hcond
    cases hcl : cueLines text {} with
    | none => rw [hcl] at h; cases h
    | some ls =>
      rw [hcl] at h
      simp only [Option.map_some, Option.some.injEq] at h
      refine ⟨ls, h.symm, ?_, ?_, rfl⟩
      · intro e; rw [e] at hcond; simp at hcond
      · intro t ht
        have := hcond.2
        rw [List.any_eq_false] at this
        have := this t ht
        have h' : contains ['-', '-', '>'] t = false := by simpa using this
        exact h'

theorem decodeBlock_cases (d1 : Str) (tl : List Str) (c : GCue) (h : decodeBlock (d1 :: tl) = some c) :
    ∃ s e text ls, c = { startMs := s, endMs := e, lines := ls } ∧ text ≠ [] ∧
      (∀ t ∈ text, contains arrow t = false) ∧ cueLines text {} = some ls ∧
      ((timing d1 = some (s, e) ∧ tl = text) ∨
       (timing d1 = none ∧ contains arrow d1 = false ∧ ∃ l2, tl = l2 :: text ∧ timing l2 = some (s, e))) := by
  unfold decodeBlock at h
  cases ht : timing d1 with
  | some t =>
    obtain ⟨s, e⟩ := t
    simp only [ht] at h
    obtain ⟨ls, h1, h2, h3, h4⟩ := block_tail h
    exact ⟨s, e, tl, ls, h1, h2, h3, h4, Or.inl ⟨rfl, rfl⟩⟩
  | none =>
    simp only [ht] at h
    cases tl with
    | nil => cases h
    | cons l2 text =>
      simp only at h
      cases hc : contains "-->".toList d1 with
      | true => simp only [hc, ↓reduceIte] at h; cases h
      | false =>
        simp only [hc, Bool.false_eq_true, ↓reduceIte] at h
        cases ht2 : timing l2 with
        | none => simp only [ht2, Option.map_none] at h; cases h
        | some t =>
          obtain ⟨s, e⟩ := t
          simp only [ht2, Option.map_some] at h
          obtain ⟨ls, h1, h2, h3, h4⟩ := block_tail h
          exact ⟨s, e, text, ls, h1, h2, h3, h4, Or.inr ⟨rfl, hc, l2, rfl, ht2⟩⟩

/-! ## one block -/

/-- what the first line of a block may look like to the reader (`m`) when the decoder sees `d`: the same
    line, except on the very first line of a document (byte order mark, see `Lemmas/SRTRead2Doc.lean`) -/
def HeadRel (d m : Str) : Prop :=
  (d = [] → m = []) ∧
  (∀ s e, timing d = some (s, e) → s / 3600000 ≤ int64Max → e / 3600000 ≤ int64Max → TimingOK m s e) ∧
  (contains arrow d = false → contains arrow m = false)

theorem headRel_refl (TM : TimeSim) (d : Str) : HeadRel d d :=
  ⟨id, fun _ _ h hs he => timingOK_of_timing TM h hs he, id⟩

/-- both instants of the cue have an hours field that fits Go's `int` -/
def InRangeCue (c : GCue) : Prop := c.startMs / 3600000 ≤ int64Max ∧ c.endMs / 3600000 ≤ int64Max

instance (c : GCue) : Decidable (InRangeCue c) := by unfold InRangeCue; infer_instance

theorem styOf_default : styOf ({} : Run) = ({} : Sty) := rfl

/-- **One block.** From a state that holds the cues so far (followed by at least one empty line unless
    there is no cue yet), a block that the decoder turns into the cue `c` takes the reader to a state
    that holds the cues so far and `c` -/
theorem block_sim (TS : TagSim) (TM : TimeSim) {st : St} {cues : List GCue} {n : Nat} (hg : Good st cues n [])
    (hn : cues = [] ∨ 1 ≤ n) (d1 m1 : Str) (tl : List Str) (hrel : HeadRel d1 m1) (c : GCue)
    (hdec : decodeBlock (d1 :: tl) = some c) (hrange : InRangeCue c) (htl : ∀ l ∈ tl, trimSpace l ≠ [])
    (hm : runG st (m1 :: tl) ≠ .unmodelled) :
    ∃ st', runG st (m1 :: tl) = .ok st' ∧ Good st' (cues ++ [c]) 0 [] := by
  obtain ⟨s, e, text, ls, rfl, hne, harrow, hcl, hcase⟩ := decodeBlock_cases d1 tl c hdec
  obtain ⟨hr1, hr2⟩ := hrange
  rcases hcase with ⟨ht, rfl⟩ | ⟨ht, hc1, l2, rfl, ht2⟩
  · -- no index line
    have hok := hrel.2.1 s e ht hr1 hr2
    obtain ⟨st1, hstep, hat, hsa⟩ := good_timing hg (Or.inl rfl) (by rcases hn with h | h; exact Or.inl h; exact Or.inr (Or.inl h))
      m1 s e hok
    rw [runG_cons_ok _ hstep] at hm ⊢
    obtain ⟨st2, L', hrun, hat2, hv, hs⟩ := text_sim TS tl st1 cues s e [] ls hat (by rw [hsa]; exact hcl)
      (fun t ht => ⟨htl t ht, harrow t ht⟩) hm
    refine ⟨st2, hrun, ?_⟩
    have := atCue_good hat2 (by simpa using hs)
    simpa [hv] using this
  · -- an index line first
    have hcm := hrel.2.2 hc1
    obtain ⟨st1, X, hstep1, hX, hg1, _⟩ := good_index hg m1 hcm (stepG_modelled hm)
    rw [runG_cons_ok _ hstep1] at hm ⊢
    have hok := timingOK_of_timing TM ht2 hr1 hr2
    obtain ⟨st2, hstep2, hat, hsa⟩ := good_timing hg1 hX
      (by rcases hn with h | h; exact Or.inl h; exact Or.inr (Or.inl h)) l2 s e hok
    rw [runG_cons_ok _ hstep2] at hm ⊢
    obtain ⟨st3, L', hrun, hat2, hv, hs⟩ := text_sim TS text st2 cues s e [] ls hat (by rw [hsa]; exact hcl)
      (fun t ht => ⟨htl t (by simp [ht]), harrow t ht⟩) hm
    refine ⟨st3, hrun, ?_⟩
    have := atCue_good hat2 (by simpa using hs)
    simpa [hv] using this

end SRTRead2
end Astisub
