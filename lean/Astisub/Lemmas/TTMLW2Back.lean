import Astisub.Lemmas.TTMLW2Final

/-!
# Lemmas/TTMLW2Back — the second clause of the `ttml.write` check for the model's answer

The reader model's answer on a written document is `TTMLDoc.norm s` (`C03doc.write_read`, behind the `encoding/xml`
contract `TTMLDoc.unmarshal`).  Here: on the class `repB` (`repW`, every `zIndex` within 64 bits, instants below 100 h) that answer passes
`readOk (docOf s)`, and `repB s` implies the proviso `TTMLDoc.rep s` of the write → read theorem.
-/

namespace Astisub
namespace TTMLW2
open Go TTML List
open Driver.TTMLD (ttmlAttrsOf docOf normDoc defsOf sortG linesOf' runsOf readOk)
open TTMLDoc (normRef inKV inVal normDef normItem normLItem normLine normLines normMeta norm truncMs titleOf copyrightOf langIn)

/-! ### `zIndex` within 64 bits -/

/-- `zIndex`, if set, fits `int64` (the library parses it with `strconv.ParseInt(…, 10, 64)`) -/
def zFit (a : Attrs) : Bool :=
  match kvGet a "TTMLZIndex" with
  | some v => TTMLR.zFits v
  | none => true

/-- every `zIndex` of the cue list fits `int64` -/
def zFitAll (s : Subs) : Bool :=
  s.styles.all (fun d => zFit d.attrs) && s.regions.all (fun d => zFit d.attrs) &&
  s.items.all fun it => zFit it.attrs && it.lines.all fun l => l.items.all fun li => zFit li.attrs

/-- every instant is below 100 h (the class on which the write → read theorem `C03doc.write_read` is proved) -/
def timeAll (s : Subs) : Bool := s.items.all fun it => TTMLDoc.timeOk it.startAt && TTMLDoc.timeOk it.endAt

/-- **the class of the whole `ttml.write` predicate**: `repW`, every `zIndex` within 64 bits, instants below 100 h -/
def repB (s : Subs) : Bool := repW s && zFitAll s && timeAll s

/-- the canonical `zIndex` is read back by the library as the same text -/
theorem zindex_back (a : Attrs) (hz : zCanon a = true) (hf : zFit a = true) (v : Str) (hk : kvGet a "TTMLZIndex" = some v) :
    (parseIntAttr v).map itoa = some v := by
  simp only [zCanon, hk] at hz
  simp only [zFit, hk] at hf
  cases hi : Spec.TTML.int? (Spec.TTML.trimS v) with
  | none => rw [hi] at hz; simp at hz
  | some z =>
    rw [hi] at hz
    simp only [Option.map_some, beq_iff_eq, Option.some.injEq] at hz
    obtain ⟨h1, h2⟩ := TTMLR.zIndex_value v z hi hf
    rw [h1, Option.map_some, h2, hz]

theorem attrsOk_of (a : Attrs) (hz : zCanon a = true) (hf : zFit a = true) : TTMLDoc.attrsOk a = true := by
  unfold TTMLDoc.attrsOk
  cases hk : kvGet a "TTMLZIndex" with
  | none => rfl
  | some v =>
    have := zindex_back a hz hf v hk
    cases hp : parseIntAttr v with
    | none => rw [hp] at this; simp at this
    | some z => simp [hp]

/-- **the styling attributes survive the reader** (`TTMLInStyleAttributes` and `styleAttributes()`) -/
theorem attrs_back (a : Attrs) (hz : zCanon a = true) (hf : zFit a = true) :
    ttmlAttrsOf (some (styleAttributes (inKV a))) = ttmlAttrsOf a := by
  rw [TTMLR.view_styleAttributes, ttmlAttrsOf_eq]
  apply TTMLDoc.filterMap_congr'
  intro p hp
  rw [TTMLDoc.inKV_get a hp]
  cases hk : kvGet a ("TTML" ++ p.1) with
  | none => rfl
  | some v =>
    simp only [Option.bind_some, Option.map_some]
    unfold inVal
    by_cases hzz : p.1 = "ZIndex"
    · rw [if_pos hzz]
      rw [hzz, zindex_key] at hk
      rw [zindex_back a hz hf v hk]
      rfl
    · rw [if_neg hzz]
      rfl

/-! ### pieces of `readOk` -/

theorem zCanon_of {a : Attrs} (h : attrsW a = true) : zCanon a = true := by
  simp only [attrsW, Bool.and_eq_true] at h; exact h.1

theorem toG_normDef (d : Def) (h : defW d = true) (hf : zFit d.attrs = true) : toG (normDef d) = toG d := by
  simp only [defW, Bool.and_eq_true] at h
  obtain ⟨⟨_, href⟩, hat⟩ := h
  simp only [toG, normDef, refW_norm href, attrs_back d.attrs (zCanon_of hat) hf]

theorem runG_norm (li : LItem) (h : runW li = true) (hf : zFit li.attrs = true) : runG (normLItem li) = runG li := by
  simp only [runW, Bool.and_eq_true] at h
  obtain ⟨⟨_, href⟩, hat⟩ := h
  simp only [runG, normLItem, refW_norm href, attrs_back li.attrs (zCanon_of hat) hf]

theorem linesOf_norm (ls : List Line) (h : ∀ l ∈ ls, ∀ li ∈ l.items, runW li = true)
    (hf : ∀ l ∈ ls, ∀ li ∈ l.items, zFit li.attrs = true) : linesOf' (normLines ls) = linesOf' ls := by
  cases ls with
  | nil => rfl
  | cons l ls =>
    simp only [normLines, linesOf', List.isEmpty_cons, Bool.false_eq_true, if_false, map_map, List.map_cons,
      List.isEmpty_map]
    show map (runsOf ∘ normLine) (l :: ls) = map runsOf (l :: ls)
    apply map_congr_left
    intro l' hl'
    simp only [Function.comp, runsOf_eq, normLine, map_map]
    apply map_congr_left
    intro li hli
    exact runG_norm li (h l' hl' li hli) (hf l' hl' li hli)

def leD (a b : Def) : Bool := !strLt b.id a.id

theorem leD_trans (a b c : Def) : leD a b = true → leD b c = true → leD a c = true := by
  unfold leD strLt
  simp only [Bool.not_eq_true', decide_eq_false_iff_not]
  intro h1 h2 h3
  have := String.le_trans (String.not_lt.mp h1) (String.not_lt.mp h2)
  exact absurd h3 (String.not_lt.mpr this)

theorem leD_total (a b : Def) : (leD a b || leD b a) = true := by
  unfold leD strLt
  simp only [Bool.or_eq_true, Bool.not_eq_true', decide_eq_false_iff_not]
  rcases String.le_total (String.ofList a.id) (String.ofList b.id) with h | h
  · exact Or.inl (String.not_lt.mpr h)
  · exact Or.inr (String.not_lt.mpr h)

theorem sortDefs_eq (l : List Def) : sortDefs l = l.mergeSort leD := rfl

theorem sortDefs_idem (l : List Def) : sortDefs (sortDefs l) = sortDefs l := by
  rw [sortDefs_eq, sortDefs_eq]
  exact mergeSort_of_pairwise (pairwise_mergeSort leD_trans leD_total l)

theorem sortDefs_normDef (l : List Def) : (sortDefs l).map normDef = sortDefs (l.map normDef) := by
  rw [sortDefs_eq, sortDefs_eq]
  exact List.map_mergeSort (r := leD) (s := leD) (f := normDef) (l := l) (fun a _ b _ => rfl)

theorem defsOf_eq (l : List Def) : defsOf l = (sortDefs l).map toG := rfl

/-- the definitions the reader returns, viewed by the check, are the written ones -/
theorem defs_back (l : List Def) (h : ∀ d ∈ l, defW d = true) (hf : ∀ d ∈ l, zFit d.attrs = true) :
    defsOf ((sortDefs l).map normDef) = sortG (defsOf l) := by
  rw [defsOf_eq, sortDefs_normDef, sortDefs_idem, ← sortDefs_normDef, map_map, defsOf_eq, sortDefs_toG, sortG_idem,
    ← sortDefs_toG]
  apply map_congr_left
  intro d hd
  have hd' := TTMLDoc.mem_sortDefs.mp hd
  exact toG_normDef d (h d hd') (hf d hd')

theorem within1_trunc (t : Int) (h0 : 0 ≤ t) : Spec.TTML.within1 (truncMs t) ((t - t % 1000000).toNat, 1) = true := by
  apply TTMLR.within1_exact
  unfold truncMs
  omega

/-- the tin view of the written document is only used for its metadata -/
theorem normMeta_eq (ix : List XTok → Str) (s : Subs) : normMeta s.metadata = metadataOf (TTMLDoc.tinOfSubs ix s) := by
  simp [metadataOf, normMeta, TTMLDoc.tinOfSubs, titleOf, copyrightOf]

theorem zip_maps {α β γ : Type} (f : α → β) (g : α → γ) (l : List α) :
    (l.map f).zip (l.map g) = l.map fun x => (f x, g x) := by
  induction l with
  | nil => rfl
  | cons a l ih => simp [ih]

/-- **`readOk (docOf s) (norm s)`**: what the reader model answers for the written document passes the check against
    the document the cue list should denote. -/
theorem readOk_norm (s : Subs) (h : repB s = true) : readOk (docOf s) (norm s) = true := by
  simp only [repB, repW, zFitAll, timeAll, Bool.and_eq_true, all_eq_true, decide_eq_true_eq, Bool.not_eq_true'] at h
  obtain ⟨⟨⟨⟨⟨⟨⟨⟨_, _⟩, _⟩, _⟩, hst⟩, hrg⟩, hit⟩, ⟨⟨fst, frg⟩, fit⟩⟩, _⟩ := h
  have ix : List XTok → Str := fun _ => []
  unfold readOk
  simp only [Bool.and_eq_true]
  refine ⟨⟨⟨⟨⟨⟨?_, ?_⟩, ?_⟩, ?_⟩, ?_⟩, ?_⟩, ?_⟩
  · simp [norm, docOf]
  · simp only [norm, docOf, zip_maps, all_eq_true, mem_map]
    rintro _ ⟨it, hi, rfl⟩
    have hc := hit it hi
    simp only [cueW, cueHeadW, Bool.and_eq_true, all_eq_true, decide_eq_true_eq] at hc
    obtain ⟨⟨⟨⟨⟨hs, he⟩, hsty⟩, hreg⟩, hat⟩, hl⟩ := hc
    obtain ⟨fa, fl⟩ := fit it hi
    simp only [normItem, Bool.and_eq_true, beq_iff_eq]
    exact ⟨⟨⟨⟨⟨within1_trunc _ hs, within1_trunc _ he⟩, refW_norm hsty⟩, refW_norm hreg⟩,
      attrs_back it.attrs (zCanon_of hat) fa⟩, linesOf_norm it.lines hl fl⟩
  · simp only [beq_iff_eq]
    exact defs_back s.styles hst fst
  · simp only [beq_iff_eq]
    exact defs_back s.regions hrg frg
  · simp only [beq_iff_eq, norm, normMeta_eq ix s, TTMLR.metadata_title]
    rfl
  · simp only [beq_iff_eq, norm, normMeta_eq ix s, TTMLR.metadata_copyright]
    rfl
  · cases hn : Spec.TTML.languageName (docOf s).lang with
    | none => rfl
    | some n =>
      simp only [beq_iff_eq, norm, normMeta_eq ix s, TTMLR.metadata_language]
      have e : (docOf s).lang = langIn s.metadata := (lang_written s.metadata).symm
      rw [e] at hn
      exact TTMLR.language_view _ n hn

/-! ### the proviso of the write → read theorem -/

theorem refOk_of {r : Option Str} {ids : List Str} (h : RefIn r ids) : TTMLDoc.refOk ids r = true := by
  rw [TTMLDoc.refOk_iff]
  intro v hv
  cases r with
  | none => simp [normRef] at hv
  | some x =>
    by_cases hx : x = []
    · simp [normRef, hx] at hv
    · simp [normRef, hx] at hv
      exact h v (by rw [hv])

/-- **`repB` implies the proviso of `C03doc.write_read`.** -/
theorem rep_of_repB (s : Subs) (h : repB s = true) : TTMLDoc.rep s = true := by
  simp only [repB, repW, zFitAll, timeAll, Bool.and_eq_true, all_eq_true, decide_eq_true_eq, Bool.not_eq_true'] at h
  obtain ⟨⟨⟨⟨⟨⟨⟨⟨hrep, hne⟩, hsn⟩, hrn⟩, hst⟩, hrg⟩, hit⟩, ⟨⟨fst, frg⟩, fit⟩⟩, htm⟩ := h
  obtain ⟨r1, r2, r3⟩ := rep_refs s hrep
  simp only [TTMLDoc.rep, Bool.and_eq_true, all_eq_true, decide_eq_true_eq, Bool.not_eq_true']
  have hdef : ∀ d, defW d = true → zFit d.attrs = true → TTMLDoc.attrsOk d.attrs = true := by
    intro d hd hf
    simp only [defW, Bool.and_eq_true] at hd
    exact attrsOk_of _ (zCanon_of hd.2) hf
  refine ⟨⟨⟨⟨⟨hne, hsn⟩, hrn⟩, ?_⟩, ?_⟩, ?_⟩
  · intro d hd
    simp only [TTMLDoc.defOk, Bool.and_eq_true]
    exact ⟨hdef d (hst d hd) (fst d hd), refOk_of (r1 d hd)⟩
  · intro d hd
    simp only [TTMLDoc.defOk, Bool.and_eq_true]
    exact ⟨hdef d (hrg d hd) (frg d hd), refOk_of (r2 d hd)⟩
  · intro it hi
    have hc := hit it hi
    simp only [cueW, cueHeadW, Bool.and_eq_true, all_eq_true] at hc
    obtain ⟨⟨⟨⟨_, _⟩, _⟩, hat⟩, hl⟩ := hc
    obtain ⟨hs, he⟩ := htm it hi
    obtain ⟨fa, fl⟩ := fit it hi
    obtain ⟨a1, a2, a3⟩ := r3 it hi
    simp only [TTMLDoc.cueOk, Bool.and_eq_true, all_eq_true]
    refine ⟨⟨⟨⟨⟨hs, he⟩, attrsOk_of _ (zCanon_of hat) fa⟩, refOk_of a1⟩, refOk_of a2⟩, ?_⟩
    intro l hl' li hli
    have hr := hl l hl' li hli
    simp only [runW, Bool.and_eq_true] at hr
    obtain ⟨⟨htx, _⟩, hla⟩ := hr
    simp only [TTMLDoc.runOk, Bool.and_eq_true, Bool.not_eq_true']
    refine ⟨⟨attrsOk_of _ (zCanon_of hla) (fl l hl' li hli), ?_⟩, refOk_of (a3 l hl' li hli)⟩
    simp only [okStr, Spec.TTML.hasNL, Bool.not_eq_true'] at htx
    have hnm : ¬ '\n' ∈ li.text := by
      intro hm
      have : (li.text.any fun c => decide (c = '\n')) = true :=
        List.any_eq_true.mpr ⟨'\n', hm, decide_eq_true rfl⟩
      rw [htx] at this; cases this
    simpa using hnm

end TTMLW2
end Astisub
