import Astisub.Lemmas.STLTti

/-!
# Lemmas/STLTime — `frameInstant`: the instant the reader assigns to a written timecode
-/

namespace Astisub
namespace C05
open Go STL

theorem frameInstant_nat (n fr : Nat) (hfr : fr = 25 ∨ fr = 30) (hn : n < 921600000000000) :
    frameInstant (fr : Int) (n : Int)
      = ((n / 1000000000 * 1000000000 + (1000000000 * (n % 1000000000 * fr / 1000000000) + fr - 1) / fr : Nat) : Int) := by
  have hfrpos : 0 < fr := by rcases hfr with rfl | rfl <;> omega
  unfold frameInstant Duration.formatSTLBytes Duration.parseSTLBytes
  simp only [Int.toNat_natCast]
  rw [C16.framesToNs_nat _ _ hfrpos]
  unfold Duration.nsPerH Duration.nsPerMin Duration.nsPerS
  generalize (1000000000 * (n % 1000000000 * fr / 1000000000) + fr - 1) / fr = K
  omega

/-- **the value read back is the start of the frame**: not after the instant written, and less than one
    frame (`10⁹ / fr` ns) before it -/
theorem frameInstant_floor (T : Int) (fr : Nat) (hfr : fr = 25 ∨ fr = 30) (h0 : 0 ≤ T) (h1 : T < 921600000000000) :
    frameInstant (fr : Int) T ≤ T ∧ T - frameInstant (fr : Int) T ≤ 1000000000 / (fr : Int) := by
  obtain ⟨n, rfl⟩ : ∃ n : Nat, T = (n : Int) := ⟨T.toNat, by omega⟩
  rw [frameInstant_nat n fr hfr (by omega)]
  rcases hfr with rfl | rfl <;> omega

/-- writing the value read back gives the same four bytes -/
theorem frameInstant_rewrite (T : Int) (fr : Nat) (hfr : fr = 25 ∨ fr = 30) (h0 : 0 ≤ T) (h1 : T < 86400000000000) :
    Duration.formatSTLBytes (frameInstant (fr : Int) T) fr = Duration.formatSTLBytes T fr := by
  unfold frameInstant
  simp only [Int.toNat_natCast]
  exact (C16.stl_bytes_rewrite T fr hfr h0 h1).1

/-- reading is idempotent on what it returned -/
theorem frameInstant_idem (T : Int) (fr : Nat) (hfr : fr = 25 ∨ fr = 30) (h0 : 0 ≤ T) (h1 : T < 86400000000000) :
    frameInstant (fr : Int) (frameInstant (fr : Int) T) = frameInstant (fr : Int) T := by
  have := frameInstant_rewrite T fr hfr h0 h1
  have e : frameInstant (fr : Int) (frameInstant (fr : Int) T)
      = Duration.parseSTLBytes true (Duration.formatSTLBytes (frameInstant (fr : Int) T) fr) (fr : Int) := rfl
  rw [e, this]
  unfold frameInstant
  simp only [Int.toNat_natCast]

/-- an instant the format carries exactly (decidable) -/
def FrameAligned (fr : Int) (T : Int) : Prop := frameInstant fr T = T

instance (fr T : Int) : Decidable (FrameAligned fr T) := by unfold FrameAligned; infer_instance

/-- at 25 frames per second every multiple of 40 ms is carried exactly -/
theorem aligned_25 (T : Int) (h0 : 0 ≤ T) (h1 : T < 921600000000000) (h : T % 40000000 = 0) : FrameAligned 25 T := by
  obtain ⟨n, rfl⟩ : ∃ n : Nat, T = (n : Int) := ⟨T.toNat, by omega⟩
  unfold FrameAligned
  have := frameInstant_nat n 25 (Or.inl rfl) (by omega)
  have e : ((25 : Nat) : Int) = 25 := rfl
  rw [e] at this
  rw [this]
  omega

/-- at either frame rate every whole second is carried exactly -/
theorem aligned_second (T : Int) (fr : Nat) (hfr : fr = 25 ∨ fr = 30) (h0 : 0 ≤ T) (h1 : T < 921600000000000)
    (h : T % 1000000000 = 0) : FrameAligned (fr : Int) T := by
  obtain ⟨n, rfl⟩ : ∃ n : Nat, T = (n : Int) := ⟨T.toNat, by omega⟩
  unfold FrameAligned
  rw [frameInstant_nat n fr hfr (by omega)]
  rcases hfr with rfl | rfl <;> omega

end C05
end Astisub
