import Astisub.Lemmas.STL2Tti

/-!
# Lemmas/STL2File — the whole file for cues whose rows are made of several runs: `read (writeBody …)` under
display standard 0, and the writer model answers
-/

namespace Astisub
namespace C05
open Go STL

theorem ttiFold_blocksM (R : GSI) (G : WGSI) (off : Int) (hfr : R.m.framerate = G.m.framerate) (hdsc : R.m.dsc = [0x30])
    (l : List (MCue × Nat)) (hok : ∀ p ∈ l, p.1.ok) :
    ttiFold R off none (l.map fun p => ttiBytes G (p.2 + 1) p.1.toW)
      = some (l.map fun p => ttiCueM R G off p.1) := by
  induction l with
  | nil => rfl
  | cons p ps ih =>
    have hp := hok p (by simp)
    simp only [List.map_cons, ttiFold]
    rw [ttiItem_ttiBytesM R G off (p.2 + 1) p.1 hfr hdsc hp]
    simp only
    rw [ih (fun q hq => hok q (by simp [hq]))]
    rfl

theorem zipIdx_toWM (cs : List MCue) (G : WGSI) :
    ((cs.map MCue.toW).zipIdx.map fun (c, k) => ttiBytes G (k + 1) c)
      = (cs.zipIdx.map fun p => ttiBytes G (p.2 + 1) p.1.toW) := by
  rw [List.zipIdx_map, List.map_map]
  rfl

/-- the TTI blocks of the written file, one per cue -/
def ttiBlocks (G : WGSI) (cs : List MCue) : List Bytes := cs.zipIdx.map fun p => ttiBytes G (p.2 + 1) p.1.toW

theorem writeBody_eq (now : Date) (md : Option Meta) (cs : List MCue) :
    writeBody now md (cs.map MCue.toW)
      = gsiBytes (newGSI now md (cs.map MCue.toW)) ++ (ttiBlocks (newGSI now md (cs.map MCue.toW)) cs).flatten := by
  unfold writeBody ttiBlocks; rw [zipIdx_toWM]

theorem ttiBlocks_len (G : WGSI) (cs : List MCue) : ∀ b ∈ ttiBlocks G cs, b.length = 128 := by
  intro b hb
  obtain ⟨p, _, rfl⟩ := List.mem_map.mp hb
  exact ttiBytes_length _ _ _

theorem ttiBlocks_flatten_length (G : WGSI) (cs : List MCue) : (ttiBlocks G cs).flatten.length = 128 * cs.length := by
  unfold ttiBlocks
  rw [flatten_const_length _ _ 128 (fun p => ttiBytes_length _ _ _), List.length_zipIdx]

theorem ttiBlocks_length (G : WGSI) (cs : List MCue) : (ttiBlocks G cs).length = cs.length := by
  unfold ttiBlocks; rw [List.length_map, List.length_zipIdx]

theorem read_writeBodyM (ig : Bool) (now : Date) (md : Option Meta) (cs : List MCue)
    (hG : GsiOK (newGSI now md (cs.map MCue.toW))) (hdsc : (newGSI now md (cs.map MCue.toW)).m.dsc = [0x30])
    (hok : ∀ c ∈ cs, c.ok) :
    STL.read ig (writeBody now md (cs.map MCue.toW))
      = .ok (readMeta ig (gsiBack (newGSI now md (cs.map MCue.toW))),
             cs.map fun c => ttiCueM (gsiBack (newGSI now md (cs.map MCue.toW))) (newGSI now md (cs.map MCue.toW))
               (readMeta ig (gsiBack (newGSI now md (cs.map MCue.toW)))).tcp c) := by
  rw [writeBody_eq]
  generalize newGSI now md (cs.map MCue.toW) = G at hG hdsc ⊢
  have hflen := ttiBlocks_flatten_length G cs
  have hlen : ¬ (gsiBytes G ++ (ttiBlocks G cs).flatten).length < 1024 := by
    rw [List.length_append, gsiBytes_length]; omega
  have htake : (gsiBytes G ++ (ttiBlocks G cs).flatten).take 1024 = gsiBytes G := List.take_left' (gsiBytes_length G)
  have hdrop : (gsiBytes G ++ (ttiBlocks G cs).flatten).drop 1024 = (ttiBlocks G cs).flatten :=
    List.drop_left' (gsiBytes_length G)
  have hR : (gsiBack G).m.dsc = [0x30] := hdsc
  have hfr : (gsiBack G).m.framerate = G.m.framerate := rfl
  unfold STL.read
  rw [if_neg hlen, htake, parseGSI_gsiBytes G hG]
  simp only [hdrop]
  rw [chunks_flatten _ (ttiBlocks_len G cs) _ (by rw [ttiBlocks_length, hflen]; omega)]
  have hfold := ttiFold_blocksM (gsiBack G) G (readMeta ig (gsiBack G)).tcp hfr hR cs.zipIdx
    (by intro p hp; exact hok p.1 (mem_zipIdx_fst hp))
  rw [zipIdx_map_fst cs (fun c => ttiCueM (gsiBack G) G (readMeta ig (gsiBack G)).tcp c)] at hfold
  unfold readMeta at hfold ⊢
  unfold ttiBlocks
  rw [hfold]
  have : ((cs.zipIdx.map fun p => ttiBytes G (p.2 + 1) p.1.toW).flatten).length = 128 * cs.length := hflen
  simp only [this, Nat.mul_mod_right, ne_eq, not_true_eq_false, if_false]

/-- non-negative times (after adding the programme start) -/
def MTimesOK (tcp : Int) (c : MCue) : Prop := 0 ≤ c.startAt + tcp ∧ 0 ≤ c.endAt + tcp

instance (tcp : Int) (c : MCue) : Decidable (MTimesOK tcp c) := by unfold MTimesOK; infer_instance

/-- **the writer model answers**: for a non-empty list of well-formed cues with non-negative times -/
theorem write_okM (now : Date) (m : Meta) (cs : List MCue) (hne : cs ≠ []) (htcp : 0 ≤ m.tcp)
    (hok : ∀ c ∈ cs, c.ok) (ht : ∀ c ∈ cs, MTimesOK m.tcp c) :
    write now (some m) (cs.map MCue.toW) = .ok (writeBody now (some m) (cs.map MCue.toW)) := by
  have h1 : (cs.map MCue.toW).isEmpty = false := by cases cs <;> simp_all
  have h2 : writeUnmodelled (some m) (cs.map MCue.toW) = false := by
    unfold writeUnmodelled
    rw [Bool.or_eq_false_iff]
    constructor
    · rw [List.any_eq_false]
      intro w hw
      obtain ⟨c, hc, rfl⟩ := List.mem_map.mp hw
      obtain ⟨t1, t2⟩ := ht c hc
      have := inDomain_cueM c (fun l hl r hr => (((hok c hc).1 l hl).2 r hr).1)
      simp only [Option.map_some, Option.getD_some, this, Bool.not_true, Bool.or_false, Bool.or_eq_true, decide_eq_true_eq, not_or]
      simp only [MCue.toW]
      omega
    · simp only [Option.any_some, decide_eq_false_iff_not]; omega
  unfold write
  simp [h1, h2]

end C05
end Astisub
