import Astisub.Props.C12

/-!
# Lemmas/OPSStable — a stable sort of a duplicate-free list is unique

Generic part (any type, any key into `Int`): two lists that are permutations of the same
duplicate-free list `xs`, sorted by key, and keep the relative order `xs` gives to equal-key
elements, are equal.  `Props/C11inv.stable_sort_unique` instantiates this with `Ops.order`.
-/

namespace Astisub
namespace OPS
open List

/-- a two-element sub-sequence of `x :: t`: either it lies in `t`, or it starts with `x` -/
theorem pair_sublist_cons {α : Type} {a b x : α} {t : List α} :
    [a, b] <+ x :: t ↔ [a, b] <+ t ∨ (a = x ∧ b ∈ t) := by
  rw [sublist_cons_iff]
  constructor
  · rintro (h | ⟨r, hr, hs⟩)
    · exact Or.inl h
    · simp only [cons.injEq] at hr
      obtain ⟨rfl, rfl⟩ := hr
      exact Or.inr ⟨rfl, singleton_sublist.mp hs⟩
  · rintro (h | ⟨rfl, hb⟩)
    · exact Or.inl h
    · exact Or.inr ⟨[b], rfl, singleton_sublist.mpr hb⟩

theorem pair_sublist_mem {α : Type} {a b : α} {l : List α} (h : [a, b] <+ l) : a ∈ l ∧ b ∈ l :=
  ⟨h.subset (by simp), h.subset (by simp)⟩

/-- in a duplicate-free list two elements cannot occur in both orders -/
theorem nodup_pair_asymm {α : Type} {a b : α} {l : List α} (hn : l.Nodup)
    (h1 : [a, b] <+ l) (h2 : [b, a] <+ l) : False := by
  induction l with
  | nil => simp at h1
  | cons x t ih =>
    have hx : x ∉ t := (nodup_cons.mp hn).1
    have ht : t.Nodup := (nodup_cons.mp hn).2
    rcases pair_sublist_cons.mp h1 with h1' | ⟨rfl, hb⟩
    · rcases pair_sublist_cons.mp h2 with h2' | ⟨rfl, _⟩
      · exact ih ht h1' h2'
      · exact hx (pair_sublist_mem h1').2
    · rcases pair_sublist_cons.mp h2 with h2' | ⟨rfl, _⟩
      · exact hx (pair_sublist_mem h2').2
      · exact hx hb

/-- two different members of a list occur in one of the two orders -/
theorem pair_sublist_total {α : Type} {a b : α} {l : List α} (ha : a ∈ l) (hb : b ∈ l) (hab : a ≠ b) :
    [a, b] <+ l ∨ [b, a] <+ l := by
  induction l with
  | nil => simp at ha
  | cons x t ih =>
    rcases mem_cons.mp ha with rfl | ha'
    · rcases mem_cons.mp hb with rfl | hb'
      · exact absurd rfl hab
      · exact Or.inl (pair_sublist_cons.mpr (Or.inr ⟨rfl, hb'⟩))
    · rcases mem_cons.mp hb with rfl | hb'
      · exact Or.inr (pair_sublist_cons.mpr (Or.inr ⟨rfl, ha'⟩))
      · rcases ih ha' hb' with h | h
        · exact Or.inl (h.cons _)
        · exact Or.inr (h.cons _)

/-- "`a` must come before `b`": smaller key, or equal key and `a` before `b` in `xs` -/
def Before {α : Type} (key : α → Int) (xs : List α) (a b : α) : Prop :=
  key a < key b ∨ (key a = key b ∧ [a, b] <+ xs)

/-- `ys` is a stable sort of `xs` by `key` -/
structure StableSortOf {α : Type} (key : α → Int) (xs ys : List α) : Prop where
  perm : ys ~ xs
  sorted : ys.Pairwise (fun a b => key a ≤ key b)
  stable : ∀ a b, key a = key b → [a, b] <+ xs → [a, b] <+ ys

/-- a stable sort of a duplicate-free list lists its elements in the `Before` order -/
theorem StableSortOf.pairwise_before {α : Type} {key : α → Int} {xs ys : List α}
    (h : StableSortOf key xs ys) (hn : xs.Nodup) : ys.Pairwise (Before key xs) := by
  have hny : ys.Nodup := (h.perm.nodup_iff).mpr hn
  rw [pairwise_iff_forall_sublist]
  intro a b hab
  have hle : key a ≤ key b := (pairwise_iff_forall_sublist.mp h.sorted) hab
  by_cases hlt : key a < key b
  · exact Or.inl hlt
  · have heq : key a = key b := by omega
    refine Or.inr ⟨heq, ?_⟩
    have hm := pair_sublist_mem hab
    have hne : a ≠ b := by
      rintro rfl
      have := pairwise_iff_forall_sublist.mp hny hab
      exact this rfl
    rcases pair_sublist_total (h.perm.subset hm.1) (h.perm.subset hm.2) hne with hx | hx
    · exact hx
    · exact (nodup_pair_asymm hny hab (h.stable b a heq.symm hx)).elim

/-- **Uniqueness of a stable sort** (generic form). -/
theorem stableSort_unique {α : Type} {key : α → Int} {xs ys zs : List α} (hn : xs.Nodup)
    (hy : StableSortOf key xs ys) (hz : StableSortOf key xs zs) : ys = zs := by
  refine Perm.eq_of_pairwise (le := Before key xs) ?_ (hy.pairwise_before hn) (hz.pairwise_before hn)
    (hy.perm.trans hz.perm.symm)
  intro a b _ _ hab hba
  rcases hab with h1 | ⟨_, h1⟩
  · rcases hba with h2 | ⟨h2, _⟩ <;> omega
  · rcases hba with h2 | ⟨_, h2⟩
    · omega
    · exact (nodup_pair_asymm hn h1 h2).elim

/-- `Ops.order` is a stable sort by start -/
theorem order_stableSortOf (xs : List Item) : StableSortOf (·.startAt) xs (Ops.order xs) :=
  ⟨C12.order_perm xs, C12.order_sorted xs,
   fun a b hab h => C12.order_stable xs a b (by omega) h⟩

end OPS
end Astisub
