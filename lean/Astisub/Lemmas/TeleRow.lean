import Astisub.Lemmas.TelePacket

/-!
# Lemmas/TeleRow — one row: the model's `parseTeletextRow` and the specification's `rowRuns`

The model's row parser keeps the items it has already emitted; the specification keeps the runs of character
codes.  `rowStepR` is the model's step with the *raw* runs (style, untrimmed decoded text) kept instead of the
items; it is proved to project onto `rowStep` (`rowStepR_proj`), so `parseRow` is `appendItem` folded over
`modelRuns` (`parseRow_modelRuns`).  The raw runs are then proved to be the specification's runs, one by one:
same attributes, text = the run's codes decoded in the character set (`modelRuns_specRuns`).
-/

namespace Astisub
namespace Teletext
open Go Generated.Teletext

/-! ## the model's step, class by class -/

theorem appendItem_nil (l : List LItem) (st : Style) : appendItem l [] st = l := by
  simp [appendItem, trimSpace, trimRight, trimLeft]

/-- the flush of `rowStep` (fix-5) always hands the text to `appendItem` -/
def flush (s : RowSt) : RowSt := { s with items := appendItem s.items s.text s.style, text := [] }

theorem flush_eq (s : RowSt) :
    (if s.started || !s.text.isEmpty then { s with items := appendItem s.items s.text s.style, text := [] } else s) = flush s := by
  cases hs : s.started
  · cases ht : s.text with
    | nil =>
      obtain ⟨i, tx, st, sd⟩ := s
      simp at hs ht
      subst hs ht
      simp [flush, appendItem_nil]
    | cons a as => simp [flush, ht, hs]
  · simp [flush, hs]

theorem rowStep_color (c : Charset) (s : RowSt) (v : Nat) (hv : v < 8) :
    rowStep c s v = if s.style.color = some v then s else { flush s with style := { s.style with color := some v } } := by
  have h2 : v ≠ 0xa := by omega
  have h3 : v ≠ 0xb := by omega
  have h4 : v ≠ 0xc := by omega
  have h5 : v ≠ 0xd := by omega
  have h6 : v ≠ 0xe := by omega
  have h7 : v ≠ 0xf := by omega
  unfold rowStep
  simp only [hv, h2, h3, h4, h5, h6, h7, if_true, if_false, Option.isSome_some, Option.isSome_none, Bool.or_false, ptrDiffers, Bool.true_and]
  by_cases hc : s.style.color = some v
  · simp [hc]
  · have : (some v != s.style.color) = true := by simp [bne_iff_ne]; exact fun h => hc h.symm
    simp only [this, hc, if_true, if_false, flush_eq]
    rfl

theorem rowStep_endBox (c : Charset) (s : RowSt) : rowStep c s 0xa = { s with started := false } := by
  simp [rowStep]

/-- normal size (0x0c): a change when one of the three size flags is on -/
theorem rowStep_normal (c : Charset) (s : RowSt) :
    rowStep c s 0xc =
      if s.style.dh.getD false || s.style.ds.getD false || s.style.dw.getD false
      then { flush s with style := { s.style with dh := some false, ds := some false, dw := some false } } else s := by
  unfold rowStep
  simp only [show ¬ (0xc < 8) by decide, show (0xc : Nat) ≠ 0xa by decide, show (0xc : Nat) ≠ 0xb by decide, if_true, if_false,
    Option.isSome_some, Option.isSome_none, Bool.or_true, Bool.true_or, ptrDiffers, Bool.false_and, Bool.false_or,
    Bool.false_bne]
  by_cases hc : (s.style.dh.getD false || s.style.ds.getD false || s.style.dw.getD false) = true
  · simp only [hc, if_true, flush_eq]; rfl
  · simp only [hc, if_false]; simp

theorem rowStep_dh (c : Charset) (s : RowSt) :
    rowStep c s 0xd = if s.style.dh.getD false then s else { flush s with style := { s.style with dh := some true } } := by
  unfold rowStep
  simp only [show ¬ (0xd < 8) by decide, show (0xd : Nat) ≠ 0xa by decide, show (0xd : Nat) ≠ 0xb by decide,
    show (0xd : Nat) ≠ 0xc by decide, show (0xd : Nat) ≠ 0xe by decide, show (0xd : Nat) ≠ 0xf by decide, if_true, if_false,
    Option.isSome_some, Option.isSome_none, Bool.or_true, Bool.true_or, Bool.or_false, ptrDiffers, Bool.false_and, Bool.false_or,
    Bool.true_bne]
  by_cases hc : s.style.dh.getD false = true
  · simp [hc]
  · simp only [hc, Bool.not_eq_true] at *
    simp only [hc, Bool.not_false, if_true, flush_eq, Bool.false_eq_true, if_false]; rfl

theorem rowStep_dw (c : Charset) (s : RowSt) :
    rowStep c s 0xe = if s.style.dw.getD false then s else { flush s with style := { s.style with dw := some true } } := by
  unfold rowStep
  simp only [show ¬ (0xe < 8) by decide, show (0xe : Nat) ≠ 0xa by decide, show (0xe : Nat) ≠ 0xb by decide,
    show (0xe : Nat) ≠ 0xc by decide, show (0xe : Nat) ≠ 0xd by decide, show (0xe : Nat) ≠ 0xf by decide, if_true, if_false,
    Option.isSome_some, Option.isSome_none, Bool.or_true, Bool.true_or, Bool.or_false, ptrDiffers, Bool.false_and, Bool.false_or,
    Bool.true_bne]
  by_cases hc : s.style.dw.getD false = true
  · simp [hc]
  · simp only [hc, Bool.not_eq_true] at *
    simp only [hc, Bool.not_false, if_true, flush_eq, Bool.false_eq_true, if_false]; rfl

theorem rowStep_ds (c : Charset) (s : RowSt) :
    rowStep c s 0xf = if s.style.ds.getD false then s else { flush s with style := { s.style with ds := some true } } := by
  unfold rowStep
  simp only [show ¬ (0xf < 8) by decide, show (0xf : Nat) ≠ 0xa by decide, show (0xf : Nat) ≠ 0xb by decide,
    show (0xf : Nat) ≠ 0xc by decide, show (0xf : Nat) ≠ 0xd by decide, show (0xf : Nat) ≠ 0xe by decide, if_true, if_false,
    Option.isSome_some, Option.isSome_none, Bool.or_true, Bool.true_or, Bool.or_false, ptrDiffers, Bool.false_and, Bool.false_or,
    Bool.true_bne]
  by_cases hc : s.style.ds.getD false = true
  · simp [hc]
  · simp only [hc, Bool.not_eq_true] at *
    simp only [hc, Bool.not_false, if_true, flush_eq, Bool.false_eq_true, if_false]; rfl

/-- a code that is no colour, box or size code (8, 9, 0x10 and above): text when inside the box -/
theorem rowStep_inert (c : Charset) (s : RowSt) (v : Nat) (h8 : 8 ≤ v) (hv : v < 0xa ∨ 0x10 ≤ v) :
    rowStep c s v = if s.started then { s with text := s.text ++ decodeChar c v } else s := by
  have h1 : ¬ v < 8 := by omega
  have h2 : v ≠ 0xa := by omega
  have h3 : v ≠ 0xb := by omega
  have h4 : v ≠ 0xc := by omega
  have h5 : v ≠ 0xd := by omega
  have h6 : v ≠ 0xe := by omega
  have h7 : v ≠ 0xf := by omega
  simp [rowStep, h1, h2, h3, h4, h5, h6, h7]

/-! ## raw runs of the model -/

/-- a raw run of the model: the style and the untrimmed decoded text handed to `appendTeletextLineItem` -/
abbrev MRun := Style × Str

/-- the items of a list of raw runs: `appendTeletextLineItem` on each, in order (blank runs vanish) -/
def itemsOf (rs : List MRun) : List LItem := rs.foldl (fun l r => appendItem l r.2 r.1) []

theorem itemsOf_snoc (rs : List MRun) (r : MRun) : itemsOf (rs ++ [r]) = appendItem (itemsOf rs) r.2 r.1 := by
  simp [itemsOf]

/-- the state of the row parser with the raw runs kept instead of the items -/
structure RowStR where
  runs : List MRun := []
  text : Str := []
  style : Style := {}
  started : Bool := false

def RowStR.proj (s : RowStR) : RowSt :=
  { items := itemsOf s.runs, text := s.text, style := s.style, started := s.started }

/-- the style after a colour or size code that changes it (`none`: the code changes nothing or is no such code) -/
def newStyle (st : Style) (v : Nat) : Option Style :=
  if v < 8 then (if st.color = some v then none else some { st with color := some v })
  else if v = 0xc then
    (if st.dh.getD false || st.ds.getD false || st.dw.getD false
     then some { st with dh := some false, ds := some false, dw := some false } else none)
  else if v = 0xd then (if st.dh.getD false then none else some { st with dh := some true })
  else if v = 0xe then (if st.dw.getD false then none else some { st with dw := some true })
  else if v = 0xf then (if st.ds.getD false then none else some { st with ds := some true })
  else none

def closeRunR (s : RowStR) (st : Style) : RowStR :=
  { s with runs := s.runs ++ [(s.style, s.text)], text := [], style := st }

/-- one column of `parseTeletextRow`, raw runs kept -/
def rowStepR (c : Charset) (s : RowStR) (v : Nat) : RowStR :=
  match newStyle s.style v with
  | some st => closeRunR s st
  | none =>
    if v < 8 || (0xc ≤ v && v ≤ 0xf) then s
    else if v = 0xa then { s with started := false }
    else if v = 0xb then { s with started := true }
    else if s.started then { s with text := s.text ++ decodeChar c v } else s

theorem proj_close (s : RowStR) (st : Style) : (closeRunR s st).proj = { flush s.proj with style := st } := by
  simp [closeRunR, RowStR.proj, flush, itemsOf_snoc]

/-- `rowStepR` is `rowStep` with the runs kept -/
theorem rowStepR_proj (c : Charset) (s : RowStR) (v : Nat) : (rowStepR c s v).proj = rowStep c s.proj v := by
  by_cases h8 : v < 8
  · rw [rowStep_color c _ v h8]
    by_cases hc : s.style.color = some v
    · simp [rowStepR, newStyle, h8, hc, RowStR.proj]
    · have : s.proj.style.color = s.style.color := rfl
      simp only [rowStepR, newStyle, h8, hc, if_true, if_false, this, proj_close]
      rfl
  · by_cases ha : v = 0xa
    · subst ha; rw [rowStep_endBox]; simp [rowStepR, newStyle, RowStR.proj]
    · by_cases hb : v = 0xb
      · subst hb; rw [C06.rowStep_startBox]; simp [rowStepR, newStyle, RowStR.proj]
      · by_cases hc : v = 0xc
        · subst hc; rw [rowStep_normal]
          have e1 : s.proj.style = s.style := rfl
          by_cases hh : (s.style.dh.getD false || s.style.ds.getD false || s.style.dw.getD false) = true
          · simp only [rowStepR, newStyle, e1, hh, if_true]; exact proj_close s _
          · simp only [rowStepR, newStyle, e1, hh, if_false]; simp
        · by_cases hd : v = 0xd
          · subst hd; rw [rowStep_dh]
            have e1 : s.proj.style = s.style := rfl
            by_cases hh : s.style.dh.getD false = true
            · simp only [rowStepR, newStyle, e1, hh, if_true]; simp
            · simp only [rowStepR, newStyle, e1, hh, if_false]; exact proj_close s _
          · by_cases he : v = 0xe
            · subst he; rw [rowStep_dw]
              have e1 : s.proj.style = s.style := rfl
              by_cases hh : s.style.dw.getD false = true
              · simp only [rowStepR, newStyle, e1, hh, if_true]; simp
              · simp only [rowStepR, newStyle, e1, hh, if_false]; exact proj_close s _
            · by_cases hf : v = 0xf
              · subst hf; rw [rowStep_ds]
                have e1 : s.proj.style = s.style := rfl
                by_cases hh : s.style.ds.getD false = true
                · simp only [rowStepR, newStyle, e1, hh, if_true]; simp
                · simp only [rowStepR, newStyle, e1, hh, if_false]; exact proj_close s _
              · rw [rowStep_inert c _ v (by omega) (by omega)]
                have g1 : ¬ (0xc ≤ v ∧ v ≤ 0xf) := by omega
                cases hs : s.started <;> simp [rowStepR, newStyle, h8, ha, hb, hc, hd, he, hf, g1, hs, RowStR.proj]

theorem foldl_rowStepR_proj (c : Charset) : ∀ (row : List Nat) (s : RowStR),
    (row.foldl (rowStepR c) s).proj = row.foldl (rowStep c) s.proj
  | [], _ => rfl
  | v :: row, s => by
    rw [List.foldl_cons, List.foldl_cons, foldl_rowStepR_proj c row, rowStepR_proj]

/-- the raw runs of a row, the one under construction at the end of the row included -/
def modelRuns (c : Charset) (row : List Nat) : List MRun :=
  let s := row.foldl (rowStepR c) {}
  s.runs ++ [(s.style, s.text)]

/-- `parseTeletextRow` is `appendTeletextLineItem` over the raw runs -/
theorem parseRow_modelRuns (c : Charset) (row : List Nat) :
    parseRow c row = (let items := itemsOf (modelRuns c row); if items.isEmpty then none else some { items := items }) := by
  have h := foldl_rowStepR_proj c row {}
  have h0 : ({} : RowStR).proj = {} := rfl
  rw [h0] at h
  unfold parseRow modelRuns
  rw [← h]
  simp only [itemsOf_snoc]
  rfl

/-! ## the specification's step, class by class -/

open Spec.Teletext (cell closeRun Run Attr)

theorem cell_none (s : Spec.Teletext.RowSt) : cell s none = s := rfl

theorem cell_color (s : Spec.Teletext.RowSt) (v : Nat) (hv : v < 8) :
    cell s (some v) = if s.cur.attr.color = some v then s else closeRun s { s.cur.attr with color := some v } := by
  simp [cell, hv]

theorem cell_endBox (s : Spec.Teletext.RowSt) : cell s (some 0xa) = { s with boxed := false } := by simp [cell]
theorem cell_startBox (s : Spec.Teletext.RowSt) : cell s (some 0xb) = { s with boxed := true } := by simp [cell]

theorem cell_normal (s : Spec.Teletext.RowSt) :
    cell s (some 0xc) = if !s.cur.attr.dh && !s.cur.attr.dw && !s.cur.attr.ds then s
      else closeRun s { s.cur.attr with dh := false, dw := false, ds := false } := by simp [cell]

theorem cell_dh (s : Spec.Teletext.RowSt) :
    cell s (some 0xd) = if s.cur.attr.dh then s else closeRun s { s.cur.attr with dh := true } := by simp [cell]
theorem cell_dw (s : Spec.Teletext.RowSt) :
    cell s (some 0xe) = if s.cur.attr.dw then s else closeRun s { s.cur.attr with dw := true } := by simp [cell]
theorem cell_ds (s : Spec.Teletext.RowSt) :
    cell s (some 0xf) = if s.cur.attr.ds then s else closeRun s { s.cur.attr with ds := true } := by simp [cell]

theorem cell_low (s : Spec.Teletext.RowSt) (v : Nat) (h8 : 8 ≤ v) (hv : v < 0xa ∨ 0x10 ≤ v) (h20 : v < 0x20) :
    cell s (some v) = s := by
  have h1 : ¬ v < 8 := by omega
  have h2 : v ≠ 0xa := by omega
  have h3 : v ≠ 0xb := by omega
  have h4 : v ≠ 0xc := by omega
  have h5 : v ≠ 0xd := by omega
  have h6 : v ≠ 0xe := by omega
  have h7 : v ≠ 0xf := by omega
  simp [cell, h1, h2, h3, h4, h5, h6, h7, h20]

theorem cell_char (s : Spec.Teletext.RowSt) (v : Nat) (h20 : 0x20 ≤ v) :
    cell s (some v) = if s.boxed then { s with cur := { s.cur with codes := s.cur.codes ++ [v] } } else s := by
  have h1 : ¬ v < 8 := by omega
  have h2 : v ≠ 0xa := by omega
  have h3 : v ≠ 0xb := by omega
  have h4 : v ≠ 0xc := by omega
  have h5 : v ≠ 0xd := by omega
  have h6 : v ≠ 0xe := by omega
  have h7 : v ≠ 0xf := by omega
  have h8 : ¬ v < 0x20 := by omega
  simp [cell, h1, h2, h3, h4, h5, h6, h7, h8]

/-! ## the simulation -/

/-- the attributes a style of the model denotes (an unset size pointer is "off") -/
def attrOf (st : Style) : Attr :=
  { color := st.color, dh := st.dh.getD false, dw := st.dw.getD false, ds := st.ds.getD false }

/-- character codes decoded in a character set -/
def dec (c : Charset) (codes : List Nat) : Str := codes.flatMap (decodeChar c)

/-- a raw run of the model as (attributes, text) -/
def viewM (r : MRun) : Attr × Str := (attrOf r.1, r.2)

/-- a run of the specification as (attributes, text in character set `c`) -/
def viewS (c : Charset) (r : Run) : Attr × Str := (r.attr, dec c r.codes)

structure Rel (c : Charset) (m : RowStR) (s : Spec.Teletext.RowSt) : Prop where
  boxed : m.started = s.boxed
  attr : attrOf m.style = s.cur.attr
  text : m.text = dec c s.cur.codes
  runs : m.runs.map viewM = s.runs.map (viewS c)

theorem Rel.close {c : Charset} {m : RowStR} {s : Spec.Teletext.RowSt} (h : Rel c m s) (st : Style) (a : Attr)
    (ha : attrOf st = a) : Rel c (closeRunR m st) (closeRun s a) := by
  refine ⟨h.boxed, ha, by simp [closeRunR, closeRun, dec], ?_⟩
  simp only [closeRunR, closeRun, List.map_append, h.runs, List.map_cons, List.map_nil]
  congr 2
  simp only [viewM, viewS, h.attr, h.text]

theorem Rel.init (c : Charset) : Rel c {} {} := ⟨rfl, rfl, rfl, rfl⟩

theorem decodeChar_low (c : Charset) (v : Nat) (h : v < 0x20) : decodeChar c v = [] := by
  simp [decodeChar, h]

/-- one cell: the model on the stored value, the specification on the received cell -/
theorem Rel.step {c : Charset} {m : RowStR} {s : Spec.Teletext.RowSt} (h : Rel c m s) (x : Option Nat)
    (hx : ∀ v, x = some v → v < 128) : Rel c (rowStepR c m (storedCell x)) (cell s x) := by
  have hcol : s.cur.attr.color = m.style.color := by rw [← h.attr]; rfl
  have hdh : s.cur.attr.dh = m.style.dh.getD false := by rw [← h.attr]; rfl
  have hdw : s.cur.attr.dw = m.style.dw.getD false := by rw [← h.attr]; rfl
  have hds : s.cur.attr.ds = m.style.ds.getD false := by rw [← h.attr]; rfl
  cases x with
  | none =>
    have : rowStepR c m (storedCell none) = if m.started then { m with text := m.text ++ [] } else m := by
      simp [rowStepR, newStyle, storedCell, invalidChar, decodeChar]
    rw [this, cell_none]
    by_cases hs : m.started = true
    · rw [if_pos hs]; simp only [List.append_nil]; exact h
    · rw [if_neg hs]; exact h
  | some v =>
    have hv := hx v rfl
    simp only [storedCell]
    by_cases h8 : v < 8
    · rw [cell_color s v h8, hcol]
      by_cases hc : m.style.color = some v
      · simp only [rowStepR, newStyle, h8, hc, if_true, Bool.true_or]; exact h
      · simp only [rowStepR, newStyle, h8, hc, if_true, if_false]
        exact h.close _ _ (by simp [attrOf, hdh, hdw, hds])
    · by_cases ha : v = 0xa
      · subst ha; rw [cell_endBox]
        exact ⟨rfl, h.attr, h.text, h.runs⟩
      · by_cases hb : v = 0xb
        · subst hb; rw [cell_startBox]
          exact ⟨rfl, h.attr, h.text, h.runs⟩
        · by_cases hc : v = 0xc
          · subst hc; rw [cell_normal, hdh, hdw, hds]
            by_cases hh : (m.style.dh.getD false || m.style.ds.getD false || m.style.dw.getD false) = true
            · have : (!m.style.dh.getD false && !m.style.dw.getD false && !m.style.ds.getD false) = false := by
                revert hh; cases m.style.dh.getD false <;> cases m.style.ds.getD false <;> cases m.style.dw.getD false <;> simp
              simp only [rowStepR, newStyle, hh, this, if_true, if_false, Bool.false_eq_true, show ¬ (12 < 8) by decide]
              exact h.close _ _ (by simp [attrOf, hcol])
            · have : (!m.style.dh.getD false && !m.style.dw.getD false && !m.style.ds.getD false) = true := by
                revert hh; cases m.style.dh.getD false <;> cases m.style.ds.getD false <;> cases m.style.dw.getD false <;> simp
              simp only [rowStepR, newStyle, hh, this, if_true, if_false, show ¬ (12 < 8) by decide]
              simp; exact h
          · by_cases hd : v = 0xd
            · subst hd; rw [cell_dh, hdh]
              by_cases hh : m.style.dh.getD false = true
              · simp only [rowStepR, newStyle, hh, if_true, show ¬ (13 < 8) by decide, if_false]; simp; exact h
              · simp only [rowStepR, newStyle, hh, if_true, show ¬ (13 < 8) by decide, if_false]
                simp only [show (13 : Nat) ≠ 12 by decide, if_false]
                exact h.close _ _ (by simp [attrOf, hcol, hdw, hds])
            · by_cases he : v = 0xe
              · subst he; rw [cell_dw, hdw]
                by_cases hh : m.style.dw.getD false = true
                · simp only [rowStepR, newStyle, hh, if_true, show ¬ (14 < 8) by decide, if_false]; simp; exact h
                · simp only [rowStepR, newStyle, hh, if_true, show ¬ (14 < 8) by decide, if_false]
                  simp only [show (14 : Nat) ≠ 12 by decide, show (14 : Nat) ≠ 13 by decide, if_false]
                  exact h.close _ _ (by simp [attrOf, hcol, hdh, hds])
              · by_cases hf : v = 0xf
                · subst hf; rw [cell_ds, hds]
                  by_cases hh : m.style.ds.getD false = true
                  · simp only [rowStepR, newStyle, hh, if_true, show ¬ (15 < 8) by decide, if_false]; simp; exact h
                  · simp only [rowStepR, newStyle, hh, if_true, show ¬ (15 < 8) by decide, if_false]
                    simp only [show (15 : Nat) ≠ 12 by decide, show (15 : Nat) ≠ 13 by decide, show (15 : Nat) ≠ 14 by decide, if_false]
                    exact h.close _ _ (by simp [attrOf, hcol, hdh, hdw])
                · have g1 : ¬ (0xc ≤ v ∧ v ≤ 0xf) := by omega
                  have hstep : rowStepR c m v = if m.started then { m with text := m.text ++ decodeChar c v } else m := by
                    simp [rowStepR, newStyle, h8, ha, hb, hc, hd, he, hf, g1]
                  rw [hstep]
                  by_cases h20 : v < 0x20
                  · rw [cell_low s v (by omega) (by omega) h20, decodeChar_low c v h20]
                    by_cases hs : m.started = true
                    · rw [if_pos hs]; simp only [List.append_nil]; exact h
                    · rw [if_neg hs]; exact h
                  · rw [cell_char s v (by omega), ← h.boxed]
                    by_cases hs : m.started = true
                    · rw [if_pos hs, if_pos hs]
                      refine ⟨rfl, h.attr, ?_, h.runs⟩
                      simp [dec, h.text]
                    · rw [if_neg hs, if_neg hs]; exact h

theorem Rel.foldl {c : Charset} : ∀ (cells : List (Option Nat)) {m : RowStR} {s : Spec.Teletext.RowSt}, Rel c m s →
    (∀ x ∈ cells, ∀ v, x = some v → v < 128) →
    Rel c ((cells.map storedCell).foldl (rowStepR c) m) (cells.foldl cell s)
  | [], _, _, h, _ => h
  | x :: cells, _, _, h, hx => by
    simp only [List.map_cons, List.foldl_cons]
    exact Rel.foldl cells (h.step x (hx x (by simp))) (fun y hy => hx y (by simp [hy]))

/-- the runs of the specification before blank runs are dropped, the one under construction included -/
def specRuns (cells : List (Option Nat)) : List Run :=
  let s := cells.foldl cell {}
  s.runs ++ [s.cur]

theorem cell_bad (s : Spec.Teletext.RowSt) (x : Option Nat) : (cell s x).bad = s.bad := by
  cases x with
  | none => rfl
  | some v =>
    unfold cell
    repeat' split
    all_goals rfl

theorem foldl_cell_bad : ∀ (cells : List (Option Nat)) (s : Spec.Teletext.RowSt), (cells.foldl cell s).bad = s.bad
  | [], _ => rfl
  | x :: cells, s => by rw [List.foldl_cons, foldl_cell_bad cells, cell_bad]

/-- `rowRuns` never fails: it is `specRuns` without the runs that hold no character other than the blank -/
theorem rowRuns_specRuns (cells : List (Option Nat)) :
    Spec.Teletext.rowRuns cells = some ((specRuns cells).filter fun r => r.codes.any (· != 0x20)) := by
  unfold Spec.Teletext.rowRuns specRuns
  have : (cells.foldl cell {}).bad = false := foldl_cell_bad cells {}
  simp [this]

/-- **Run agreement.**  The raw runs of the model on the stored row are the runs of the specification on the
    received cells: same number, same attributes, and each text is the run's codes decoded in `c`. -/
theorem modelRuns_specRuns (c : Charset) (cells : List (Option Nat)) (hx : ∀ x ∈ cells, ∀ v, x = some v → v < 128) :
    (modelRuns c (cells.map storedCell)).map viewM = (specRuns cells).map (viewS c) := by
  have h := Rel.foldl cells (Rel.init c) hx
  unfold modelRuns specRuns
  simp only [List.map_append, h.runs, List.map_cons, List.map_nil]
  congr 2
  simp only [viewM, viewS, h.attr, h.text]

end Teletext
end Astisub
