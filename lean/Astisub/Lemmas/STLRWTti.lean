import Astisub.Lemmas.STLRWRow
import Astisub.Lemmas.STLRead2View

/-!
# Lemmas/STLRWTti — one TTI block, written from the cue that was read back

`Driver.STLD.cueOf` is the view of a read-back cue that the `stl.write` stream hands to the writer again: it parses
`STLJustification` and `STLPosition` with `String.toInt?` and takes the text and the three effective style flags of
every run.  Here:

* `cueOf_ttiCueM` — applied to the cue the reader returns for the block of a well-formed cue `c`, `cueOf` gives
  `(backCue G off c).toW`: a cue over repertoire units again (rows `backRow`), with the justification and vertical
  position the first block carried;
* `backCue_ok` — that cue is well-formed again (`MCue.ok`), its encoded text *is* the encoded text of `c`;
* `ttiBytes_back` — the 128 bytes the writer emits for it are the 128 bytes emitted for `c`.
-/

namespace Astisub
namespace C05
open Go STL

/-! ## characters and numbers -/

theorem toNat_ofNat_small (c : Nat) (h : c < 12288) : (Char.ofNat c).toNat = c := by
  have hv : c.isValidChar := Or.inl (by omega)
  unfold Char.ofNat
  rw [dif_pos hv]
  rfl

theorem str_toNat (t : List Nat) (h : ∀ c ∈ t, c < 12288) : (str t).map Char.toNat = t := by
  induction t with
  | nil => rfl
  | cons c cs ih =>
    unfold str at ih ⊢
    rw [List.map_cons, List.map_cons, toNat_ofNat_small c (h c (by simp)), ih (fun x hx => h x (by simp [hx]))]

theorem repUnit_small {u : Unit} (h : RepUnit u) : ∀ c ∈ u.text, c < 12288 := by
  intro c hc
  have := (repUnit_dom h).2.2
  rw [List.all_eq_true] at this
  have := this c hc
  exact of_decide_eq_true this

theorem run_text_small (r : RRun) (h : ∀ u ∈ r.units, RepUnit u) : ∀ c ∈ r.text, c < 12288 := by
  intro c hc
  unfold RRun.text at hc
  obtain ⟨u, hu, hcu⟩ := List.mem_flatMap.mp hc
  exact repUnit_small (h u hu) c hcu

theorem takeWhile_sep (a b : Str) (h : ',' ∉ a) : (a ++ ',' :: b).takeWhile (· ≠ ',') = a := by
  induction a with
  | nil => simp
  | cons x xs ih =>
    have hx : x ≠ ',' := fun e => h (by simp [e])
    have hxs : ',' ∉ xs := fun e => h (by simp [e])
    rw [List.cons_append, List.takeWhile_cons, if_pos (by simpa using hx), ih hxs]

/-! ## justification and vertical position -/

theorem justCode_back (j : Option Int) : justCode (some ((justOf (justCode j) : Nat) : Int)) = justCode j := by
  have h := justCode_le j
  have : justCode j = 0 ∨ justCode j = 1 ∨ justCode j = 2 ∨ justCode j = 3 := by omega
  rcases this with e | e | e | e <;> rw [e] <;> decide

theorem vpByte_open (vp : Int) : vpByte vp [0x30] = (vp % 256).toNat := by
  unfold vpByte
  have c1 : (([0x30] : Bytes) == [0x31] || ([0x30] : Bytes) == [0x32]) = false := by decide
  simp only [c1, Bool.and_false, Bool.false_eq_true, if_false]

theorem vpByte_back (vp : Int) : vpByte ((vpByte vp [0x30] : Nat) : Int) [0x30] = vpByte vp [0x30] := by
  rw [vpByte_open, vpByte_open]
  omega

/-- the vertical position `cueOf` parses out of `STLPosition` -/
theorem vp_itemAttrs (jc vp : Nat) (mnr : Int) (rows : Nat) :
    ((Driver.STLD.kv (itemAttrs jc vp mnr rows) "STLPosition").bind fun s => Driver.STLD.intOf (s.takeWhile (· ≠ ',')))
      = some (vp : Int) := by
  rw [kv_pos, Option.bind_some]
  have e : itoaNat vp ++ [','] ++ itoa mnr ++ [','] ++ itoaNat rows = itoaNat vp ++ ',' :: (itoa mnr ++ [','] ++ itoaNat rows) := by
    simp
  rw [e, takeWhile_sep _ _ (comma_not_digit vp)]
  exact intOf_itoaNat vp

/-! ## the cue read back, over units again -/

/-- the cue the reader returned for the block of `c`, as a cue over repertoire units: frame instants minus the
    programme start the reader subtracted, the justification and vertical position the block carried, and the
    rows with adjacent unstyled runs joined -/
def backCue (G : WGSI) (off : Int) (c : MCue) : MCue :=
  { startAt := frameInstant G.m.framerate (c.startAt + G.m.tcp) - off,
    endAt := frameInstant G.m.framerate (c.endAt + G.m.tcp) - off,
    just := some ((justOf (justCode c.just) : Nat) : Int),
    vp := some ((vpByte (c.vp.getD 20) G.m.dsc : Nat) : Int),
    rows := c.rows.map backRow }

/-- a run as the writer is handed it, from the check's view (text, effective style) -/
def viewRun (p : Str × B3) : WRun := { text := p.1.map Char.toNat, italics := p.2.1, underline := p.2.2.1, boxing := p.2.2.2 }

theorem viewRun_wv (r : RRun) (h : ∀ u ∈ r.units, RepUnit u) : viewRun (wv r) = r.toW := by
  unfold viewRun wv RRun.toW RRun.flags
  simp only [str_toNat r.text (run_text_small r h)]

theorem cueOf_row (l : List RRun) (h : ∀ r ∈ l, r.okT) :
    ((lineOf l).items.map fun li =>
        ({ text := li.text.map Char.toNat, italics := Driver.STLD.isTrue li.attrs "STLItalics",
           underline := Driver.STLD.isTrue li.attrs "STLUnderline", boxing := Driver.STLD.isTrue li.attrs "STLBoxing" } : WRun))
      = (backRow l).map RRun.toW := by
  have e : (fun li : LItem =>
        ({ text := li.text.map Char.toNat, italics := Driver.STLD.isTrue li.attrs "STLItalics",
           underline := Driver.STLD.isTrue li.attrs "STLUnderline", boxing := Driver.STLD.isTrue li.attrs "STLBoxing" } : WRun))
      = viewRun ∘ fun li => (li.text, Driver.STLD.effSty li) := rfl
  rw [e, ← List.map_map, lineOf_runs l h, ← backRow_wv l (fun r hr => (h r hr).2.1), List.map_map]
  apply List.map_congr_left
  intro r hr
  exact viewRun_wv r (backRow_okT l h r hr).1

/-- **`cueOf` of the cue read back** is the writer's view of `backCue` -/
theorem cueOf_ttiCueM (R : GSI) (G : WGSI) (off : Int) (c : MCue) (h : ∀ l ∈ c.rows, ∀ r ∈ l, r.okT) :
    Driver.STLD.cueOf (ttiCueM R G off c) = (backCue G off c).toW := by
  unfold Driver.STLD.cueOf ttiCueM backCue MCue.toW
  simp only [just_itemAttrs, vp_itemAttrs, List.map_map]
  congr 1
  apply List.map_congr_left
  intro l hl
  exact cueOf_row l (h l hl)

theorem backCue_text (G : WGSI) (off : Int) (c : MCue) (hok : c.ok) :
    encodeText (cueString (backCue G off c).toW) = encodeText (cueString c.toW) := by
  have hrep : ∀ l ∈ c.rows, ∀ r ∈ l, ∀ u ∈ r.units, RepUnit u := fun l hl r hr => ((hok.1 l hl).2 r hr).1
  have hrep' : ∀ l ∈ (backCue G off c).rows, ∀ r ∈ l, ∀ u ∈ r.units, RepUnit u := by
    intro l hl r hr
    simp only [backCue, List.mem_map] at hl
    obtain ⟨l0, hl0, rfl⟩ := hl
    exact (backRow_okT l0 (hok.1 l0 hl0).2 r hr).1
  rw [encode_cueM _ hrep', encode_cueM c hrep]
  simp only [backCue, List.map_map]
  congr 1
  apply List.map_congr_left
  intro l hl
  exact backRow_bytes l (fun r hr => ((hok.1 l hl).2 r hr).2.1)

/-- the cue read back is well-formed again -/
theorem backCue_ok (G : WGSI) (off : Int) (c : MCue) (hok : c.ok) : (backCue G off c).ok := by
  refine ⟨?_, by rw [backCue_text G off c hok]; exact hok.2⟩
  intro l hl
  simp only [backCue, List.mem_map] at hl
  obtain ⟨l0, hl0, rfl⟩ := hl
  obtain ⟨hne, hr⟩ := hok.1 l0 hl0
  exact ⟨backRow_ne_nil l0 hne (fun r hr' => (hr r hr').2.1), backRow_okT l0 hr⟩

theorem frameInstant_nonneg (T : Int) (fr : Nat) (hfr : fr = 25 ∨ fr = 30) (h0 : 0 ≤ T) (h1 : T < 921600000000000) :
    0 ≤ frameInstant (fr : Int) T := by
  obtain ⟨n, rfl⟩ : ∃ n : Nat, T = (n : Int) := ⟨T.toNat, by omega⟩
  rw [frameInstant_nat n fr hfr (by omega)]
  exact Int.natCast_nonneg _

/-- **the block written from the cue read back is the block read**: every one of the 128 bytes — subtitle number,
    cumulative status, both timecodes, vertical position, justification, comment flag and the 112-byte text field
    (style codes, blanks between runs and padding included) -/
theorem ttiBytes_back (G G2 : WGSI) (off : Int) (fr : Nat) (idx : Nat) (c : MCue)
    (hfr : fr = 25 ∨ fr = 30) (hg : G.m.framerate = (fr : Int)) (hg2 : G2.m.framerate = (fr : Int))
    (hdsc : G.m.dsc = [0x30]) (hdsc2 : G2.m.dsc = [0x30]) (htcp : G2.m.tcp = off) (hok : c.ok)
    (hs : InDay (c.startAt + G.m.tcp)) (he : InDay (c.endAt + G.m.tcp)) :
    ttiBytes G2 idx (backCue G off c).toW = ttiBytes G idx c.toW := by
  have ht := backCue_text G off c hok
  unfold ttiBytes
  rw [ht]
  have a1 : ((backCue G off c).toW).startAt + G2.m.tcp = frameInstant (fr : Int) (c.startAt + G.m.tcp) := by
    simp only [backCue, MCue.toW, htcp, hg]; omega
  have a2 : ((backCue G off c).toW).endAt + G2.m.tcp = frameInstant (fr : Int) (c.endAt + G.m.tcp) := by
    simp only [backCue, MCue.toW, htcp, hg]; omega
  have a3 : vpByte (((backCue G off c).toW).vp.getD 20) G2.m.dsc = vpByte ((c.toW).vp.getD 20) G.m.dsc := by
    simp only [backCue, MCue.toW, Option.getD_some, hdsc, hdsc2]
    exact vpByte_back _
  have a4 : justCode ((backCue G off c).toW).just = justCode (c.toW).just := by
    simp only [backCue, MCue.toW]
    exact justCode_back _
  have t1 : (c.toW).startAt = c.startAt := rfl
  have t2 : (c.toW).endAt = c.endAt := rfl
  rw [a1, a2, a3, a4, hg, hg2, t1, t2]
  simp only [Int.toNat_natCast]
  rw [frameInstant_rewrite _ fr hfr hs.1 hs.2, frameInstant_rewrite _ fr hfr he.1 he.2]

end C05
end Astisub
