import Astisub.Lemmas.Conv3TTML
import Astisub.Lemmas.ConvErase

/-!
# Lemmas/Conv3Erase — the TTML writer ignores foreign attributes (C07)

`eraseTTML` removes from a cue list everything `WriteToTTML` does not look at; the element tree handed to
`xml.Encoder` is the same, for every cue list (`ttml_write_erase`), and so are the view (`view_eraseTTML`),
plainness (`plain_eraseTTML`) and the range clause.
-/

namespace Astisub
namespace Conv3Erase
open Go List TTML ConvErase

theorem kvGet_keep' (keys : List String) (a : Attrs) (k : String) (hk : k ∈ keys) :
    TTML.kvGet (keepAttrs keys a) k = TTML.kvGet a k := kvGet_keep keys a k hk

/-- what the writer reads of a `StyleAttributes` value: the 24 `TTML…` attributes of `TTML.attrTable` -/
def ttmlKeys : List String := attrTable.map fun p => "TTML" ++ p.1

/-- … of the metadata: `Language`, `TTMLCopyright`, `Title` -/
def ttmlMetaKeys : List String := ["Language", "TTMLCopyright", "Title"]

theorem key_mem {p : String × String} (hp : p ∈ attrTable) : "TTML" ++ p.1 ∈ ttmlKeys :=
  mem_map.mpr ⟨p, hp, rfl⟩

/-- what the TTML writer looks at: of a run its text, inline style reference and `TTML…` attributes; of a
    line its runs; of a cue its instants, style and region references, `TTML…` attributes and lines; of a
    style / region its identifier, reference and `TTML…` attributes; of the metadata `Language`,
    `TTMLCopyright`, `Title` -/
def eraseRun (li : LItem) : LItem := { text := li.text, style := li.style, attrs := keepAttrs ttmlKeys li.attrs }
def eraseLine (l : Line) : Line := { items := l.items.map eraseRun }
def eraseItem (it : CItem) : CItem :=
  { startAt := it.startAt, endAt := it.endAt, style := it.style, region := it.region,
    attrs := keepAttrs ttmlKeys it.attrs, lines := it.lines.map eraseLine }
def eraseDef (d : Def) : Def := { id := d.id, ref := d.ref, attrs := keepAttrs ttmlKeys d.attrs }
def eraseTTML (s : Subs) : Subs :=
  { items := s.items.map eraseItem, regions := s.regions.map eraseDef, styles := s.styles.map eraseDef,
    metadata := keepAttrs ttmlMetaKeys s.metadata }

theorem outAttrs_keep (a : Attrs) : outAttrs (keepAttrs ttmlKeys a) = outAttrs a := by
  unfold outAttrs
  apply TTMLDoc.filterMap_congr'
  intro p hp
  obtain ⟨f, x⟩ := p
  simp only [kvGet_keep' ttmlKeys a _ (key_mem hp)]

theorem attrsOk_keep (a : Attrs) : TTMLDoc.attrsOk (keepAttrs ttmlKeys a) = TTMLDoc.attrsOk a := by
  unfold TTMLDoc.attrsOk
  rw [kvGet_keep' ttmlKeys a "TTMLZIndex" (by decide)]

theorem spanOf_erase (li : LItem) : spanOf (eraseRun li) = spanOf li := by
  unfold spanOf
  show [WTok.start "span".toList (optAttr "style" li.style ++ outAttrs (keepAttrs ttmlKeys li.attrs))] ++ _ ++ _ = _
  rw [outAttrs_keep]
  rfl

theorem lineToks_erase (l : Line) : lineToks (eraseLine l) = lineToks l := by
  simp only [lineToks, eraseLine, map_map]
  congr 2
  apply map_congr_left
  intro li _
  exact spanOf_erase li

theorem subToks_erase (it : CItem) : subToks (eraseItem it) = subToks it := by
  have e : (it.lines.map eraseLine).map lineToks = it.lines.map lineToks := by
    rw [map_map]
    apply map_congr_left
    intro l _
    exact lineToks_erase l
  simp only [subToks, eraseItem, outAttrs_keep, e]

theorem header_erase (name : String) (d : Def) : header name (eraseDef d) = header name d := by
  simp only [header, eraseDef, outAttrs_keep]

theorem sortDefs_erase (l : List Def) : sortDefs (l.map eraseDef) = (sortDefs l).map eraseDef := by
  unfold sortDefs
  rw [← map_mergeSort (r := fun a b : Def => !strLt b.id a.id) (f := eraseDef) (fun a _ b _ => rfl)]

theorem headers_erase (name : String) (l : List Def) :
    (sortDefs (l.map eraseDef)).map (header name) = (sortDefs l).map (header name) := by
  rw [sortDefs_erase, map_map]
  apply map_congr_left
  intro d _
  exact header_erase name d

theorem isSome_keep (keys : List String) (a : Attrs) : (keepAttrs keys a).isSome = a.isSome := by
  cases a <;> rfl

/-- **The TTML writer ignores foreign attributes.** erasing everything but what is listed at `eraseRun` …
    `eraseTTML` does not change what `WriteToTTML` hands to `xml.Encoder` (or its refusal) -/
theorem ttml_write_erase (s : Subs) : TTML.write (eraseTTML s) = TTML.write s := by
  have h1 : (eraseTTML s).items.isEmpty = s.items.isEmpty := by simp [eraseTTML]
  have h2 : (eraseTTML s).items.map subToks = s.items.map subToks := by
    simp only [eraseTTML, map_map]
    apply map_congr_left
    intro it _
    exact subToks_erase it
  have h3 : (sortDefs (eraseTTML s).styles).map (header "style") = (sortDefs s.styles).map (header "style") :=
    headers_erase "style" s.styles
  have h4 : (sortDefs (eraseTTML s).regions).map (header "region") = (sortDefs s.regions).map (header "region") :=
    headers_erase "region" s.regions
  have h5 : TTML.kvGet (eraseTTML s).metadata "Title" = TTML.kvGet s.metadata "Title" :=
    kvGet_keep' ttmlMetaKeys s.metadata "Title" (by decide)
  have h6 : TTML.kvGet (eraseTTML s).metadata "TTMLCopyright" = TTML.kvGet s.metadata "TTMLCopyright" :=
    kvGet_keep' ttmlMetaKeys s.metadata "TTMLCopyright" (by decide)
  have h7 : langOut (eraseTTML s).metadata = langOut s.metadata := by
    unfold langOut
    rw [show (eraseTTML s).metadata = keepAttrs ttmlMetaKeys s.metadata from rfl,
      kvGet_keep' ttmlMetaKeys s.metadata "Language" (by decide)]
  have h8 : (eraseTTML s).metadata.isSome = s.metadata.isSome := isSome_keep _ _
  unfold TTML.write
  simp only [h1, h2, h3, h4, h5, h6, h7, h8]

/-- the view does not see the erased attributes either -/
theorem view_eraseTTML (s : Subs) : Spec.Conv.viewOf (eraseTTML s) = Spec.Conv.viewOf s := by
  simp only [Spec.Conv.viewOf, eraseTTML, map_map]
  apply map_congr_left
  intro it _
  simp only [Function.comp_apply, eraseItem, map_map]
  have e : ((fun (l : Line) => Spec.Conv.squash (l.items.map (·.text)).flatten) ∘ eraseLine)
      = fun (l : Line) => Spec.Conv.squash (l.items.map (·.text)).flatten := by
    funext l
    simp only [Function.comp_apply, eraseLine, map_map]
    rfl
  rw [e]

/-- the range clause does not see them -/
theorem inRange_eraseTTML (dst : String) (s : Subs) : Driver.inRange dst (eraseTTML s) = Driver.inRange dst s := by
  unfold Driver.inRange
  rw [view_eraseTTML]

/-! ### plainness does not depend on foreign attributes -/

theorem legalAttrs_keep (a : Attrs) : Conv3TTML.legalAttrs (keepAttrs ttmlKeys a) = Conv3TTML.legalAttrs a := by
  unfold Conv3TTML.legalAttrs
  rw [outAttrs_keep]

theorem plainRun_erase (ids : List Str) (li : LItem) : Conv3TTML.plainRun ids (eraseRun li) = Conv3TTML.plainRun ids li := by
  simp only [Conv3TTML.plainRun, Conv3TTML.ownRun, eraseRun, attrsOk_keep, legalAttrs_keep]

theorem plainCue_erase (sids rids : List Str) (it : CItem) :
    Conv3TTML.plainCue sids rids (eraseItem it) = Conv3TTML.plainCue sids rids it := by
  have e : ((it.lines.map eraseLine).all fun l => l.items.all (Conv3TTML.plainRun sids))
      = it.lines.all fun l => l.items.all (Conv3TTML.plainRun sids) := by
    rw [all_map]
    apply all_congr rfl
    intro l
    simp only [Function.comp_apply, eraseLine, all_map]
    apply all_congr rfl
    intro li
    exact plainRun_erase sids li
  simp only [Conv3TTML.plainCue, eraseItem, attrsOk_keep, legalAttrs_keep, e, isEmpty_map]

theorem ownDef_erase (sids : List Str) (d : Def) : Conv3TTML.ownDef sids (eraseDef d) = Conv3TTML.ownDef sids d := by
  simp only [Conv3TTML.ownDef, TTMLDoc.defOk, eraseDef, attrsOk_keep, legalAttrs_keep]

/-- **`PlainTTML` does not look at foreign attributes**: a cue list is plain exactly when it is plain once
    everything the writer ignores is erased -/
theorem plain_eraseTTML (s : Subs) : Conv3TTML.PlainTTML (eraseTTML s) = Conv3TTML.PlainTTML s := by
  have i1 : (eraseTTML s).styles.map Def.id = s.styles.map Def.id := by simp [eraseTTML, eraseDef, Function.comp_def]
  have i2 : (eraseTTML s).regions.map Def.id = s.regions.map Def.id := by simp [eraseTTML, eraseDef, Function.comp_def]
  have t1 : TTMLDoc.titleOf (eraseTTML s) = TTMLDoc.titleOf s := by
    unfold TTMLDoc.titleOf
    rw [show (eraseTTML s).metadata = keepAttrs ttmlMetaKeys s.metadata from rfl,
      kvGet_keep' ttmlMetaKeys s.metadata "Title" (by decide)]
  have t2 : TTMLDoc.copyrightOf (eraseTTML s) = TTMLDoc.copyrightOf s := by
    unfold TTMLDoc.copyrightOf
    rw [show (eraseTTML s).metadata = keepAttrs ttmlMetaKeys s.metadata from rfl,
      kvGet_keep' ttmlMetaKeys s.metadata "TTMLCopyright" (by decide)]
  have d1 : (eraseTTML s).styles.all (Conv3TTML.ownDef (s.styles.map Def.id)) = s.styles.all (Conv3TTML.ownDef (s.styles.map Def.id)) := by
    simp only [eraseTTML, all_map]
    apply all_congr rfl
    intro d
    exact ownDef_erase _ d
  have d2 : (eraseTTML s).regions.all (Conv3TTML.ownDef (s.styles.map Def.id)) = s.regions.all (Conv3TTML.ownDef (s.styles.map Def.id)) := by
    simp only [eraseTTML, all_map]
    apply all_congr rfl
    intro d
    exact ownDef_erase _ d
  have c1 : (eraseTTML s).items.all (Conv3TTML.plainCue (s.styles.map Def.id) (s.regions.map Def.id))
      = s.items.all (Conv3TTML.plainCue (s.styles.map Def.id) (s.regions.map Def.id)) := by
    simp only [eraseTTML, all_map]
    apply all_congr rfl
    intro it
    exact plainCue_erase _ _ it
  have n1 : (eraseTTML s).items.isEmpty = s.items.isEmpty := by simp [eraseTTML]
  unfold Conv3TTML.PlainTTML
  rw [i1, i2, t1, t2, d1, d2, c1, n1]

end Conv3Erase
end Astisub
