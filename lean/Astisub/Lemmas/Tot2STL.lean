import Astisub.Lemmas.TotBase
import Astisub.Model.STL

/-!
# Lemmas/Tot2STL — the EBU STL writer with Go's index, slice and nil-pointer checks made explicit

Checked variants (monad `Chk`) of the functions `WriteToSTL` is made of (`stl.go`, and
`bytesPadder.pad` of `astikit/bytes.go`), each proved (a) never to panic and (b) to compute what the
totalised model (`Model/STL.lean`, writer part) computes; then, guard by guard, the variant without
the guard is proved to panic exactly when the guarded part is absent.  The Go sites:

* `newGSIBlock`: `s.Metadata.…` behind `if s.Metadata != nil` (defect D15: the pinned code had no such
  guard); `*s.Metadata.STLCreationDate`, `*…STLMaximumNumberOfDisplayableCharactersInAnyTextRow`,
  `*…STLMaximumNumberOfDisplayableRows`, `*…STLRevisionDate`, each behind its `!= nil`;
  `s.Items[0].StartAt` behind `len(s.Items) > 0`  — `newGSIG`, `newGSIC`;
* `gsiBlock.bytes`: `bs[1:]`, `bs[:2]` on the 4-byte scratch buffer, the `_ = b[3]` / `_ = b[1]` bounds
  checks of `binary.BigEndian.PutUint32/16`, 36 calls of `astikit.BytesPad(…, PadCut)`.  The model's
  `WGSI` keeps the four optional values as `Option`s and reads them with `getD`: here they are
  dereferenced (`deref`) and `newGSI_filled` shows `newGSIBlock` always filled them — `gsiBytesC`;
* `bytesPadder.pad`: `i[:p.length]` behind `len(i) > p.length`, and `o = o[:p.length]` after the padding
  loop (which appends *two* bytes per missing byte when padding to the right, and one on each side when
  padding to the left: the final slice is in range and cuts the surplus) — `padC`, `padRC`, `padLC`;
* `encodeTextSTL`: `append(o[:len(o)-1], v, o[len(o)-1])` behind `len(o) == 0` (defect D17: a text that
  starts with a combining mark).  `len(o)-1` is a Go `int`, −1 for the empty slice: the index is
  computed in `Int` here (`lastIx`, `slcToI`, `idxI`) so that the unguarded variant really panics —
  `encStepC`, `encodeTextC` (on the *forward* slice as in Go; the model keeps it reversed);
* `newTTIBlock`, `stlJustificationCodeFromStyle`, `stlVerticalPositionFromStyle`:
  `*sa.STLJustification` behind `sa == nil || sa.STLJustification == nil`,
  `sa.STLPosition.VerticalPosition` behind `sa != nil && sa.STLPosition != nil` (the model's `WCue` is
  the flattened view: `just`, `vp : Option Int`) — `justCodeC`, `vpC`.  `LineItem.STLString`'s
  `li.InlineStyle != nil`, `….STLItalics != nil && *…` are Booleans already in the model's `WRun`:
  no dereference is left to check there;
* `ttiBlock.bytes`: the `_ = b[1]` check of `binary.LittleEndian.PutUint16` on the 2-byte buffer,
  `BytesPad(encodeTextSTL(…), 0x8f, 112, PadRight, PadCut)` — `ttiBytesC`;
* `WriteToSTL`: `len(s.Items) == 0 ⇒ ErrNoSubtitlesToWrite`, the `range s.Items` loop — `writeBodyC`,
  `writeC`.

No panic site: `formatDurationSTL`, `formatDurationSTLBytes` (no index expression; their only integer
division is by the constant `1e9`, see `framesC_eq`; the rest is `float64`), `validateVerticalPosition`,
`strings.Join`.  Not representable in `Panic` and not modelled: the type assertions `v.(string)` /
`v.(byte)` on the values of the package's own `BiMap` tables (the tables are homogeneous).
-/

namespace Astisub
namespace Tot
namespace STLW
open Astisub.STL Go

/-! ## Go `int` indices -/

/-- `l[i]` for a Go `int` index: a negative index panics -/
def idxI {α} (l : List α) (i : Int) : Chk α := if i < 0 then .error .index else idx l i.toNat

/-- `l[:hi]` for a Go `int` bound: a negative bound panics -/
def slcToI {α} (l : List α) (hi : Int) : Chk (List α) := if hi < 0 then .error .slice else slcTo l hi.toNat

/-- `len(o)-1` as Go computes it: −1 for the empty slice (Lean's `Nat` subtraction would answer 0) -/
def lastIx {α} (o : List α) : Int := (o.length : Int) - 1

/-- on the empty slice `o[len(o)-1]` panics -/
theorem idxI_lastIx_nil {α} : idxI ([] : List α) (lastIx ([] : List α)) = .error .index := rfl

/-- on the empty slice `o[:len(o)-1]` panics -/
theorem slcToI_lastIx_nil {α} : slcToI ([] : List α) (lastIx ([] : List α)) = .error .slice := rfl

/-- on a slice that ends with `x`, `o[len(o)-1]` is `x` -/
theorem idxI_lastIx_concat {α} (xs : List α) (x : α) : idxI (xs ++ [x]) (lastIx (xs ++ [x])) = .ok x := by
  have h : lastIx (xs ++ [x]) = (xs.length : Int) := by simp [lastIx]
  rw [h]
  simp [idxI, idx]

/-- on a slice that ends with `x`, `o[:len(o)-1]` is the rest -/
theorem slcToI_lastIx_concat {α} (xs : List α) (x : α) : slcToI (xs ++ [x]) (lastIx (xs ++ [x])) = .ok xs := by
  have h : lastIx (xs ++ [x]) = (xs.length : Int) := by simp [lastIx]
  rw [h]
  simp [slcToI, slcTo]

/-! ## `encodeTextSTL` -/

/-- one rune of the loop of `encodeTextSTL`, on the forward slice `o` as in Go.  `guard = false` is the
    pinned code, without `if len(o) == 0`.  Go evaluates the arguments of `append` left to right: the
    slice expression first -/
def encStepG (guard : Bool) (o : Bytes) (c : Nat) : Chk Bytes :=
  match Generated.STL.unicodeInv.lookup c with
  | some b => pure (o ++ [b])
  | none =>
    match Generated.STL.diacriticInv.lookup c with
    | some b =>
      if guard && o.length == 0 then pure (o ++ [b])
      else do
        let init ← slcToI o (lastIx o)
        let last ← idxI o (lastIx o)
        pure (init ++ [b, last])
    | none => pure (o ++ [c % 256])

/-- the repaired loop body -/
def encStepC (o : Bytes) (c : Nat) : Chk Bytes := encStepG true o c
/-- the pinned loop body -/
def encStepU (o : Bytes) (c : Nat) : Chk Bytes := encStepG false o c

/-- `encodeTextSTL` (`norm.NFD` is the model's `nfd`: no index site of this package) -/
def encodeTextG (guard : Bool) (s : List Nat) : Chk Bytes := (nfd s).foldlM (encStepG guard) []
/-- the repaired `encodeTextSTL` -/
def encodeTextC (s : List Nat) : Chk Bytes := encodeTextG true s
/-- the pinned `encodeTextSTL` -/
def encodeTextU (s : List Nat) : Chk Bytes := encodeTextG false s

/-- a slice is empty or ends with some element -/
theorem nil_or_concat {α} (o : List α) : o = [] ∨ ∃ xs x, o = xs ++ [x] := by
  cases h : o.reverse with
  | nil => left; simpa using h
  | cons x xs =>
    right
    refine ⟨xs.reverse, x, ?_⟩
    have := congrArg List.reverse h
    simpa using this

/-- the repaired loop body never panics and is the model's step (the model keeps the slice reversed) -/
theorem encStepC_eq (o : Bytes) (c : Nat) : encStepC o c = .ok (encStep o.reverse c).reverse := by
  unfold encStepC encStepG encStep
  cases Generated.STL.unicodeInv.lookup c with
  | some b => simp
  | none =>
    cases Generated.STL.diacriticInv.lookup c with
    | none => simp
    | some b =>
      rcases nil_or_concat o with h | ⟨xs, x, h⟩
      · subst h; rfl
      · subst h
        simp [slcToI_lastIx_concat, idxI_lastIx_concat]

/-- the fold of the repaired loop body is the model's fold -/
theorem foldlM_encStepC (l : List Nat) : ∀ o : Bytes,
    l.foldlM encStepC o = .ok (l.foldl encStep o.reverse).reverse := by
  induction l with
  | nil => intro o; simp
  | cons c cs ih =>
    intro o
    rw [List.foldlM_cons, encStepC_eq, ok_bind, ih]
    simp

/-- **`encodeTextSTL` never panics** and computes the model's `encodeText`, for every text -/
theorem encodeTextC_eq (s : List Nat) : encodeTextC s = .ok (encodeText s) := by
  unfold encodeTextC encodeTextG encodeText
  exact foldlM_encStepC (nfd s) []

/-- what makes a rune take the diacritic branch of `encodeTextSTL` -/
def isDiacritic (c : Nat) : Bool :=
  (Generated.STL.unicodeInv.lookup c).isNone && (Generated.STL.diacriticInv.lookup c).isSome

/-- **the guard `len(o) == 0` is necessary**: the pinned loop body panics (`o[:-1]`) on the empty slice for
    every floating diacritic -/
theorem encStepU_nil_panics (c : Nat) (b : Nat) (hu : Generated.STL.unicodeInv.lookup c = none)
    (hd : Generated.STL.diacriticInv.lookup c = some b) : encStepU [] c = .error .slice := by
  unfold encStepU encStepG
  rw [hu, hd]
  rfl

/-- off the empty slice the pinned loop body is the repaired one -/
theorem encStepU_eq_of_ne_nil (o : Bytes) (c : Nat) (h : o ≠ []) : encStepU o c = encStepC o c := by
  unfold encStepU encStepC encStepG
  have : (o.length == 0) = false := by
    cases o with
    | nil => exact absurd rfl h
    | cons _ _ => rfl
  simp [this]

/-- the pinned loop body panics **exactly** on (empty slice, floating diacritic) -/
theorem encStepU_safe_iff (o : Bytes) (c : Nat) : (encStepU o c).safe = false ↔ (o = [] ∧ isDiacritic c = true) := by
  by_cases ho : o = []
  · subst ho
    unfold encStepU encStepG isDiacritic
    cases Generated.STL.unicodeInv.lookup c with
    | some b => simp [Chk.safe]
    | none =>
      cases Generated.STL.diacriticInv.lookup c with
      | none => simp [Chk.safe]
      | some b => simp [slcToI_lastIx_nil, Chk.safe]
  · rw [encStepU_eq_of_ne_nil o c ho, encStepC_eq]
    simp [ho]

/-- a failing step makes the whole fold fail -/
theorem foldlM_error {α β} (f : β → α → Chk β) (a : α) (l : List α) (o : β) (e : Panic)
    (h : f o a = .error e) : (a :: l).foldlM f o = .error e := by
  rw [List.foldlM_cons, h]; rfl

/-- the pinned `encodeTextSTL` panics on **every** text whose decomposition starts with a floating diacritic -/
theorem encodeTextU_panics (s : List Nat) (c : Nat) (rest : List Nat) (hs : nfd s = c :: rest)
    (hc : isDiacritic c = true) : encodeTextU s = .error .slice := by
  unfold encodeTextU encodeTextG
  rw [hs]
  apply foldlM_error
  unfold isDiacritic at hc
  cases hu : Generated.STL.unicodeInv.lookup c with
  | some b => rw [hu] at hc; simp at hc
  | none =>
    cases hd : Generated.STL.diacriticInv.lookup c with
    | none => rw [hd] at hc; simp at hc
    | some b => exact encStepU_nil_panics c b hu hd

/-- U+0301 COMBINING ACUTE ACCENT is a floating diacritic (byte 0xC2) and no entry of `stlUnicodeMapping` -/
example : Generated.STL.diacriticInv.lookup 0x0301 = some 0xC2 := by decide
example : isDiacritic 0x0301 = true := by decide

/-- U+0301 alone is its own canonical decomposition -/
theorem nfd_acute : nfd [0x0301] = [0x0301] := by decide +kernel

/-- **D17, concretely**: the pinned `encodeTextSTL` panics on the text U+0301 — -/
example : encodeTextU [0x0301] = .error .slice := encodeTextU_panics _ _ _ nfd_acute (by decide)
/-- — the repaired one answers the diacritic byte -/
example : encodeText [0x0301] = [0xC2] := by decide +kernel
/-- "é" (decomposed by NFD into e + U+0301) never met the defect: the diacritic is swapped in front of the letter -/
example : encodeText [0xE9] = [0xC2, 0x65] := by decide +kernel
example : (encodeTextU [0xE9]).safe = true := by decide +kernel

/-! ## `astikit.BytesPad` (`bytesPadder.pad`) -/

/-- the padding loop `for idx := 0; idx < p.length-len(i); idx++`: one `repeat` on the chosen side, and
    then one more at the end (sic) -/
def padLoop (right : Bool) (fill : Nat) : Nat → Bytes → Bytes
  | 0, o => o
  | k + 1, o => padLoop right fill k ((if right then o ++ [fill] else [fill] ++ o) ++ [fill])

/-- `bytesPadder.pad(i)` with `direction = right?`, `cut`, `repeat = fill`, `length = n`: the slice
    expressions `i[:p.length]` and `o = o[:p.length]` checked -/
def padC (right cut : Bool) (fill n : Nat) (s : Bytes) : Chk Bytes :=
  if s.length = n then pure s
  else if s.length > n then (if cut then slcTo s n else pure s)
  else slcTo (padLoop right fill (n - s.length) s) n

/-- `astikit.BytesPad(s, fill, n, astikit.PadRight, astikit.PadCut)` -/
def padRC (fill n : Nat) (s : Bytes) : Chk Bytes := padC true true fill n s
/-- `astikit.BytesPad(s, fill, n, astikit.PadCut)` (the default direction is left) -/
def padLC (fill n : Nat) (s : Bytes) : Chk Bytes := padC false true fill n s

/-- what the loop builds when padding to the right: twice the missing bytes -/
theorem padLoop_right (fill : Nat) : ∀ (k : Nat) (o : Bytes), padLoop true fill k o = o ++ List.replicate (2 * k) fill := by
  intro k
  induction k with
  | zero => intro o; simp [padLoop]
  | succ k ih =>
    intro o
    have h2 : 2 * (k + 1) = 2 * k + 1 + 1 := by omega
    rw [padLoop, ih, h2]
    simp [List.replicate_succ]

/-- what the loop builds when padding to the left: the missing bytes in front and as many behind -/
theorem padLoop_left (fill : Nat) : ∀ (k : Nat) (o : Bytes),
    padLoop false fill k o = List.replicate k fill ++ o ++ List.replicate k fill := by
  intro k
  induction k with
  | zero => intro o; simp [padLoop]
  | succ k ih =>
    intro o
    rw [padLoop, ih]
    simp only [Bool.false_eq_true, if_false]
    have hc : [fill] ++ List.replicate k fill = List.replicate k fill ++ [fill] := by
      rw [← List.replicate_succ']; rfl
    rw [List.replicate_succ' (n := k)]
    simp only [List.append_assoc]
    rw [hc]

/-- **right padding with cut never panics** and is the model's `padR` -/
theorem padRC_eq (fill n : Nat) (s : Bytes) : padRC fill n s = .ok (padR fill n s) := by
  unfold padRC padC padR
  by_cases h1 : s.length = n
  · rw [if_pos h1]
    simp [← h1]
  · rw [if_neg h1]
    by_cases h2 : s.length > n
    · rw [if_pos h2, if_pos rfl, slcTo_ok (by omega)]
      have : n - s.length = 0 := by omega
      simp [this]
    · rw [if_neg h2, padLoop_right, slcTo_ok (by simp; omega)]
      congr 1
      rw [List.take_append, List.take_append, List.take_replicate, List.take_replicate]
      congr 2
      omega

/-- **left padding with cut never panics** and is the model's `padL` (a longer input keeps its first `n` bytes) -/
theorem padLC_eq (fill n : Nat) (s : Bytes) : padLC fill n s = .ok (padL fill n s) := by
  unfold padLC padC padL
  by_cases h1 : s.length = n
  · rw [if_pos h1]
    simp [← h1]
  · rw [if_neg h1]
    by_cases h2 : s.length > n
    · rw [if_pos h2, if_pos rfl, slcTo_ok (by omega)]
      have : n - s.length = 0 := by omega
      simp [this]
    · rw [if_neg h2, padLoop_left, slcTo_ok (by simp; omega)]
      congr 1
      have hl : (List.replicate (n - s.length) fill ++ s).length = n := by simp; omega
      rw [List.take_append, hl]
      simp

/-- the numeric fields of the GSI block: `BytesPad([]byte(strconv.Itoa(v)), '0', w, PadCut)` -/
def numC (w : Nat) (v : Int) : Chk Bytes := padLC 0x30 w (ascii (itoa v))

/-- the numeric fields never panic and are the model's `num` -/
theorem numC_eq (w : Nat) (v : Int) : numC w v = .ok (num w v) := padLC_eq _ _ _

/-- `i[:p.length]` without the test `len(i) > p.length` in front of it -/
def padCutU (n : Nat) (s : Bytes) : Chk Bytes := slcTo s n

/-- **the test in front of the cut is necessary**: without it the cut panics exactly on the inputs that need padding -/
theorem padCutU_panics_iff (n : Nat) (s : Bytes) : padCutU n s = .error .slice ↔ s.length < n := by
  unfold padCutU slcTo
  by_cases h : n ≤ s.length
  · rw [if_pos h]; constructor
    · intro e; cases e
    · intro; omega
  · rw [if_neg h]; constructor
    · intro; omega
    · intro; rfl

/-- the final `o = o[:p.length]` is needed too: the loop builds more than `n` bytes as soon as one is missing -/
theorem padLoop_length (right : Bool) (fill n : Nat) (s : Bytes) (h : s.length < n) :
    (padLoop right fill (n - s.length) s).length = 2 * n - s.length := by
  cases right
  · rw [padLoop_left]; simp; omega
  · rw [padLoop_right]; simp; omega

example : padRC 0x20 3 [1, 2, 3, 4, 5] = .ok [1, 2, 3] := rfl
example : padRC 0x20 3 [1] = .ok [1, 0x20, 0x20] := rfl
example : padLC 0x30 3 [1] = .ok [0x30, 0x30, 1] := rfl
example : padLC 0x30 2 [1, 2, 3] = .ok [1, 2] := rfl
example : padCutU 3 [1] = .error .slice := rfl
example : padLoop true 0x20 2 [1] = [1, 0x20, 0x20, 0x20, 0x20] := rfl

/-! ## `newGSIBlock` -/

/-- which of the nil / length guards of `newGSIBlock` are in place (all of them in the repaired code) -/
structure Guards where
  /-- `if s.Metadata != nil` -/
  metadata : Bool := true
  /-- `if s.Metadata.STLCreationDate != nil` -/
  creation : Bool := true
  /-- `if s.Metadata.STLMaximumNumberOfDisplayableCharactersInAnyTextRow != nil` -/
  maxChars : Bool := true
  /-- `if s.Metadata.STLMaximumNumberOfDisplayableRows != nil` -/
  maxRows : Bool := true
  /-- `if s.Metadata.STLRevisionDate != nil` -/
  revisionDate : Bool := true
  /-- `if len(s.Items) > 0` -/
  items : Bool := true
  deriving Repr, DecidableEq

/-- `if p != nil { x = *p }` over the default `dflt`; without the guard: `x = *p` -/
def optG {α} (guard : Bool) (p : Option α) (dflt : α) : Chk α :=
  if !guard || p.isSome then deref p else pure dflt

/-- the guarded dereference never panics and is the model's `getD` -/
theorem optG_true {α} (p : Option α) (d : α) : optG true p d = .ok (p.getD d) := by
  cases p <;> rfl

/-- the guarded or unguarded dereference: a panic exactly when unguarded on nil -/
theorem optG_eq {α} (guard : Bool) (p : Option α) (d : α) :
    optG guard p d = if guard || p.isSome then .ok (p.getD d) else .error .nilDeref := by
  cases guard <;> cases p <;> rfl

/-- the `gsiBlock` literal `newGSIBlock` starts from -/
def gsiDefault (now : Date) (n : Nat) : WGSI := { m := defaultMeta now, langCode := lit "0F", n := n, tcf := 0 }

/-- the "Add metadata" part of `newGSIBlock`: every `s.Metadata.X` dereferences `s.Metadata` -/
def gsiMetaG (g : Guards) (now : Date) (md : Option Meta) (n : Nat) : Chk WGSI :=
  if !g.metadata || md.isSome then do
    let m ← deref md
    let creation ← optG g.creation m.creation now
    let maxChars ← optG g.maxChars m.maxChars 40
    let maxRows ← optG g.maxRows m.maxRows 23
    let revisionDate ← optG g.revisionDate m.revisionDate now
    pure { m := { m with creation := some creation,
                         dsc := if m.dsc.isEmpty then (defaultMeta now).dsc else m.dsc,
                         framerate := if (dfcOf m.framerate).isSome then m.framerate else 25,
                         maxChars := some maxChars, maxRows := some maxRows,
                         revisionDate := some revisionDate },
           langCode := (languageCodeOf m.language).getD (lit "0F"), n := n, tcf := 0 }
  else pure (gsiDefault now n)

/-- the "Timecode first in cue" part: `if len(s.Items) > 0 { … s.Items[0].StartAt + g.timecodeStartOfProgramme }` -/
def firstCueG (guard : Bool) (cues : List WCue) (tcp : Int) : Chk Int :=
  if !guard || cues.length > 0 then do
    let c ← idx cues 0
    pure (c.startAt + tcp)
  else pure 0

/-- `newGSIBlock(s)` with the guards `g` -/
def newGSIG (g : Guards) (now : Date) (md : Option Meta) (cues : List WCue) : Chk WGSI := do
  let g1 ← gsiMetaG g now md cues.length
  let tcf ← firstCueG g.items cues g1.m.tcp
  pure { g1 with tcf := tcf }

/-- `newGSIBlock(s)` as repaired -/
def newGSIC (now : Date) (md : Option Meta) (cues : List WCue) : Chk WGSI := newGSIG {} now md cues

/-- `newGSIBlock(s)` as pinned: no `if s.Metadata != nil` -/
def newGSIU (now : Date) (md : Option Meta) (cues : List WCue) : Chk WGSI := newGSIG { metadata := false } now md cues

/-- the value of the timecode-first-in-cue part: Go leaves the field 0 for an empty list, the model adds the
    programme start even then (not observable: `WriteToSTL` has returned `ErrNoSubtitlesToWrite` before) -/
theorem firstCueG_true (cues : List WCue) (tcp : Int) :
    firstCueG true cues tcp = .ok (match cues with | c :: _ => c.startAt + tcp | [] => 0) := by
  cases cues <;> rfl

/-- **`newGSIBlock` never panics**, for every metadata (nil or not, every optional field nil or not) and every
    cue list; its value is the model's `newGSI` — on the empty list up to the field `tcf`, which Go leaves 0 -/
theorem newGSIC_eq' (now : Date) (md : Option Meta) (cues : List WCue) :
    newGSIC now md cues =
      .ok { newGSI now md cues with tcf := if cues.isEmpty then 0 else (newGSI now md cues).tcf } := by
  unfold newGSIC newGSIG gsiMetaG
  cases md with
  | none => cases cues <;> simp [firstCueG_true, newGSI, gsiDefault, defaultMeta]
  | some m => cases cues <;> simp [firstCueG_true, newGSI, optG_true, deref]

/-- **`newGSIBlock` never panics** and is the model's `newGSI` on every list `WriteToSTL` hands it -/
theorem newGSIC_eq (now : Date) (md : Option Meta) (cues : List WCue) (h : cues ≠ []) :
    newGSIC now md cues = .ok (newGSI now md cues) := by
  rw [newGSIC_eq']
  cases cues with
  | nil => exact absurd rfl h
  | cons c cs => rfl

/-- non-vacuity of the discrepancy on the empty list: Go 0, model the programme start -/
example : newGSIC default (some { tcp := 5 }) [] = .ok { newGSI default (some { tcp := 5 }) [] with tcf := 0 } ∧
    (newGSI default (some { tcp := 5 }) []).tcf = 5 := ⟨by rw [newGSIC_eq']; rfl, rfl⟩

/-- what the model's `newGSI` always fills: the four values `gsiBytes` reads with `getD` -/
structure Filled (g : WGSI) : Prop where
  creation : g.m.creation.isSome = true
  revisionDate : g.m.revisionDate.isSome = true
  maxChars : g.m.maxChars.isSome = true
  maxRows : g.m.maxRows.isSome = true

/-- `newGSI` fills them, whatever the metadata -/
theorem newGSI_filled (now : Date) (md : Option Meta) (cues : List WCue) : Filled (newGSI now md cues) := by
  cases md <;> exact ⟨rfl, rfl, rfl, rfl⟩

/-! ### the guards of `newGSIBlock` are necessary -/

/-- the timecode-first-in-cue part panics exactly when the guard is dropped and the list is empty -/
theorem firstCueG_eq (guard : Bool) (cues : List WCue) (tcp : Int) :
    firstCueG guard cues tcp =
      if guard || !cues.isEmpty then .ok (match cues with | c :: _ => c.startAt + tcp | [] => 0)
      else .error .index := by
  cases guard <;> cases cues <;> rfl

/-- **each guard of `newGSIBlock` is necessary, and together they suffice**: with the guards `g` the function
    panics exactly when a dropped guard meets an absent part -/
theorem newGSIG_safe (g : Guards) (now : Date) (md : Option Meta) (cues : List WCue) :
    (newGSIG g now md cues).safe =
      ((g.metadata || md.isSome) &&
       (match md with
        | none => true
        | some m => (g.creation || m.creation.isSome) && (g.maxChars || m.maxChars.isSome) &&
                    (g.maxRows || m.maxRows.isSome) && (g.revisionDate || m.revisionDate.isSome)) &&
       (g.items || !cues.isEmpty)) := by
  unfold newGSIG gsiMetaG
  cases md with
  | none =>
    cases hm : g.metadata
    · rfl
    · simp only [firstCueG_eq, gsiDefault]
      by_cases hi : (g.items || !cues.isEmpty) = true
      · simp [hi, Chk.safe]
      · simp [hi, Chk.safe]
  | some m =>
    simp only [optG_eq, firstCueG_eq, deref, Option.isSome_some, Bool.or_true, if_true, ok_bind]
    by_cases h1 : (g.creation || m.creation.isSome) = true
    · by_cases h2 : (g.maxChars || m.maxChars.isSome) = true
      · by_cases h3 : (g.maxRows || m.maxRows.isSome) = true
        · by_cases h4 : (g.revisionDate || m.revisionDate.isSome) = true
          · by_cases hi : (g.items || !cues.isEmpty) = true
            · simp [h1, h2, h3, h4, hi, Chk.safe]
            · simp [h1, h2, h3, h4, hi, Chk.safe]
          · simp [h1, h2, h3, h4, Chk.safe]
        · simp [h1, h2, h3, Chk.safe]
      · simp [h1, h2, Chk.safe]
    · simp [h1, Chk.safe]

/-- **D15**: the pinned `newGSIBlock` (no `if s.Metadata != nil`) panics on subtitles without metadata, whatever the cues -/
theorem newGSIU_none (now : Date) (cues : List WCue) : newGSIU now none cues = .error .nilDeref := rfl

/-- with metadata the pinned `newGSIBlock` is the repaired one -/
theorem newGSIU_some (now : Date) (m : Meta) (cues : List WCue) : newGSIU now (some m) cues = newGSIC now (some m) cues := rfl

/-- the pinned `newGSIBlock` panics exactly when there is no metadata -/
theorem newGSIU_safe (now : Date) (md : Option Meta) (cues : List WCue) : (newGSIU now md cues).safe = md.isSome := by
  rw [newGSIU, newGSIG_safe]
  cases md <;> simp

/-- without `if s.Metadata.STLCreationDate != nil`: a panic exactly on metadata without creation date -/
theorem newGSIG_creation (now : Date) (m : Meta) (cues : List WCue) :
    (newGSIG { creation := false } now (some m) cues).safe = m.creation.isSome := by
  rw [newGSIG_safe]; simp

/-- without `if s.Metadata.STLRevisionDate != nil`: a panic exactly on metadata without revision date -/
theorem newGSIG_revisionDate (now : Date) (m : Meta) (cues : List WCue) :
    (newGSIG { revisionDate := false } now (some m) cues).safe = m.revisionDate.isSome := by
  rw [newGSIG_safe]; simp

/-- without `if s.Metadata.STLMaximumNumberOfDisplayableCharactersInAnyTextRow != nil` -/
theorem newGSIG_maxChars (now : Date) (m : Meta) (cues : List WCue) :
    (newGSIG { maxChars := false } now (some m) cues).safe = m.maxChars.isSome := by
  rw [newGSIG_safe]; simp

/-- without `if s.Metadata.STLMaximumNumberOfDisplayableRows != nil` -/
theorem newGSIG_maxRows (now : Date) (m : Meta) (cues : List WCue) :
    (newGSIG { maxRows := false } now (some m) cues).safe = m.maxRows.isSome := by
  rw [newGSIG_safe]; simp

/-- without `if len(s.Items) > 0`: `s.Items[0]` panics exactly on the empty list -/
theorem newGSIG_items (now : Date) (md : Option Meta) (cues : List WCue) :
    (newGSIG { items := false } now md cues).safe = !cues.isEmpty := by
  rw [newGSIG_safe]; cases md <;> simp

/-- … and it is the index panic -/
theorem newGSIG_items_nil (now : Date) (md : Option Meta) : newGSIG { items := false } now md [] = .error .index := by
  cases md with
  | none => rfl
  | some m => simp [newGSIG, gsiMetaG, optG_true, deref, firstCueG_eq]

/-- the repaired `newGSIBlock` is safe: all guards in place -/
example (now : Date) (md : Option Meta) (cues : List WCue) : (newGSIC now md cues).safe = true := by
  rw [newGSIC, newGSIG_safe]; cases md <;> rfl

/-- non-vacuity: metadata with every optional field nil, no cue -/
example : (newGSIC default (some {}) []).safe = true := rfl
example : (newGSIG { creation := false } default (some {}) []).safe = false := rfl
example : (newGSIG { creation := false } default (some { creation := some default }) []).safe = true := rfl

/-! ## `gsiBlock.bytes` -/

/-- `binary.BigEndian.PutUint32(bs, v)`: the early bounds check `_ = b[3]`, then four stores -/
def putUint32BE (bs : Bytes) (v : Nat) : Chk Bytes := do
  let _ ← idx bs 3
  pure ([v / 16777216 % 256, v / 65536 % 256, v / 256 % 256, v % 256] ++ bs.drop 4)

/-- `binary.BigEndian.PutUint16(bs, v)`: the early bounds check `_ = b[1]`, then two stores -/
def putUint16BE (bs : Bytes) (v : Nat) : Chk Bytes := do
  let _ ← idx bs 1
  pure ([v / 256 % 256, v % 256] ++ bs.drop 2)

/-- `binary.LittleEndian.PutUint16(bs, v)` -/
def putUint16LE (bs : Bytes) (v : Nat) : Chk Bytes := do
  let _ ← idx bs 1
  pure ([v % 256, v / 256 % 256] ++ bs.drop 2)

/-- the code page number field: `bs := make([]byte, 4)`, `PutUint32(bs, 3683632)`, `BytesPad(bs[1:], ' ', 3, …)`;
    answers the field and the buffer -/
def cpnFieldC : Chk (Bytes × Bytes) := do
  let bs ← putUint32BE (List.replicate 4 0) 3683632
  let s ← slcFrom bs 1
  let f ← padRC 0x20 3 s
  pure (f, bs)

/-- the character code table field: `PutUint16(bs, 12336)`, `BytesPad(bs[:2], ' ', 2, …)` -/
def cctFieldC (bs : Bytes) : Chk Bytes := do
  let bs ← putUint16BE bs 12336
  let s ← slcTo bs 2
  padRC 0x20 2 s

/-- the constant sites of `gsiBlock.bytes` are in range: "850" -/
theorem cpnFieldC_eq : cpnFieldC = .ok ([0x38, 0x35, 0x30], [0, 0x38, 0x35, 0x30]) := rfl

/-- the constant sites of `gsiBlock.bytes` are in range: "00" -/
theorem cctFieldC_eq : cctFieldC [0, 0x38, 0x35, 0x30] = .ok [0x30, 0x30] := rfl

/-- a scratch buffer of 3 bytes instead of 4 would make `PutUint32` panic: the sites are real -/
example : putUint32BE (List.replicate 3 0) 3683632 = .error .index := rfl

/-- `gsiBlock.bytes()`.  The four values the model keeps as `Option`s are dereferenced (no `getD` default) -/
def gsiBytesC (g : WGSI) : Chk Bytes := do
  let m := g.m
  let fr := m.framerate.toNat
  let (cpn, bs) ← cpnFieldC
  let dfc ← padRC 0x20 8 ((dfcOf m.framerate).getD [])
  let dsc ← padRC 0x20 1 m.dsc
  let cct ← cctFieldC bs
  let lc ← padRC 0x20 2 g.langCode
  let opt ← padRC 0x20 32 m.title
  let oet ← padRC 0x20 32 m.origEpisode
  let tpt ← padRC 0x20 32 m.translProgram
  let tet ← padRC 0x20 32 m.translEpisode
  let tn ← padRC 0x20 32 m.translName
  let tcd ← padRC 0x20 32 m.translContact
  let slr ← padRC 0x20 16 m.slr
  let cdv ← deref m.creation
  let cd ← padRC 0x20 6 (formatDate cdv)
  let rdv ← deref m.revisionDate
  let rd ← padRC 0x20 6 (formatDate rdv)
  let rn ← numC 2 m.revisionNumber
  let tnb ← numC 5 (g.n : Int)
  let tns ← numC 5 (g.n : Int)
  let tng ← numC 3 1
  let mncv ← deref m.maxChars
  let mnc ← numC 2 mncv
  let mnrv ← deref m.maxRows
  let mnr ← numC 2 mnrv
  let tcs ← padRC 0x20 1 (lit "1")
  let tcp ← padRC 0x20 8 (ascii (Duration.formatSTL m.tcp fr))
  let tcf ← padRC 0x20 8 (ascii (Duration.formatSTL g.tcf fr))
  let tnd ← padRC 0x20 1 (ascii (itoa 1))
  let dsn ← padRC 0x20 1 (ascii (itoa 1))
  let co ← padRC 0x20 3 m.country
  let pub ← padRC 0x20 32 m.publisher
  let en ← padRC 0x20 32 m.editorName
  let ecd ← padRC 0x20 32 m.editorContact
  let spare ← padRC 0x20 651 []
  pure (cpn ++ dfc ++ dsc ++ cct ++ lc ++ opt ++ oet ++ tpt ++ tet ++ tn ++ tcd ++ slr ++ cd ++ rd ++ rn ++ tnb ++ tns
        ++ tng ++ mnc ++ mnr ++ tcs ++ tcp ++ tcf ++ (tnd ++ dsn) ++ co ++ pub ++ en ++ ecd ++ spare)

/-- the timecode status field "1" -/
theorem padR_one : padR 0x20 1 (lit "1") = [0x31] := rfl
/-- the fields `strconv.Itoa(1)` (number of disks, disk sequence number) -/
theorem padR_itoa_one : padR 0x20 1 (ascii (itoa 1)) = [0x31] := by decide
/-- padding nothing gives the filler only -/
theorem padR_nil (fill n : Nat) : padR fill n [] = List.replicate n fill := by simp [padR]
/-- the spare bytes and the user defined area: 75 + 576 spaces -/
theorem padR_spare : padR 0x20 651 [] = List.replicate 651 0x20 := padR_nil _ _

/-- **`gsiBlock.bytes` never panics** on a block whose four optional values are filled, and is the model's `gsiBytes` -/
theorem gsiBytesC_eq (g : WGSI) (h : Filled g) : gsiBytesC g = .ok (gsiBytes g) := by
  obtain ⟨h1, h2, h3, h4⟩ := h
  obtain ⟨cd, hcd⟩ := Option.isSome_iff_exists.mp h1
  obtain ⟨rd, hrd⟩ := Option.isSome_iff_exists.mp h2
  obtain ⟨mc, hmc⟩ := Option.isSome_iff_exists.mp h3
  obtain ⟨mr, hmr⟩ := Option.isSome_iff_exists.mp h4
  unfold gsiBytesC gsiBytes
  simp only [cpnFieldC_eq, cctFieldC_eq, padRC_eq, numC_eq, hcd, hrd, hmc, hmr, deref, ok_bind, pure_eq,
    Option.getD_some, padR_one, padR_itoa_one, padR_spare]
  rfl

/-- the defaults `getD zeroDate` / `getD 0` of the model's `gsiBytes` are dead code: **the block `newGSIBlock`
    built is always filled** -/
theorem gsiBytesC_newGSI (now : Date) (md : Option Meta) (cues : List WCue) :
    gsiBytesC (newGSI now md cues) = .ok (gsiBytes (newGSI now md cues)) :=
  gsiBytesC_eq _ (newGSI_filled now md cues)

/-- an unfilled block would be a nil dereference: the `Filled` hypothesis is exactly what is needed -/
theorem gsiBytesC_safe (g : WGSI) :
    (gsiBytesC g).safe = (g.m.creation.isSome && g.m.revisionDate.isSome && g.m.maxChars.isSome && g.m.maxRows.isSome) := by
  unfold gsiBytesC
  simp only [cpnFieldC_eq, cctFieldC_eq, padRC_eq, numC_eq, ok_bind, pure_eq]
  cases g.m.creation with
  | none => rfl
  | some _ =>
    cases g.m.revisionDate with
    | none => rfl
    | some _ =>
      cases g.m.maxChars with
      | none => rfl
      | some _ =>
        cases g.m.maxRows with
        | none => rfl
        | some _ => rfl

/-! ## `newTTIBlock`, `ttiBlock.bytes` -/

/-- `stlJustificationCodeFromStyle(sa)`: `*sa.STLJustification` behind `sa == nil || sa.STLJustification == nil`
    (`guard = false`: the dereference alone) -/
def justCodeG (guard : Bool) (j : Option Int) : Chk Nat :=
  if guard && j.isNone then pure 1
  else do
    let v ← deref j
    pure (if v == 3 then 2 else if v == 2 then 1 else if v == 4 then 3 else if v == 1 then 0 else 1)

/-- `stlJustificationCodeFromStyle` as it is -/
def justCodeC (j : Option Int) : Chk Nat := justCodeG true j

/-- `stlVerticalPositionFromStyle(sa)`: `sa.STLPosition.VerticalPosition` behind `sa != nil && sa.STLPosition != nil` -/
def vpG (guard : Bool) (vp : Option Int) : Chk Int :=
  if !guard || vp.isSome then deref vp else pure 20

/-- `stlVerticalPositionFromStyle` as it is -/
def vpC (vp : Option Int) : Chk Int := vpG true vp

/-- the justification code never panics and is the model's `justCode` -/
theorem justCodeC_eq (j : Option Int) : justCodeC j = .ok (justCode j) := by
  cases j <;> rfl

/-- the vertical position never panics and is the model's `getD 20` -/
theorem vpC_eq (vp : Option Int) : vpC vp = .ok (vp.getD 20) := by
  cases vp <;> rfl

/-- without the nil test the justification code panics exactly on a cue without justification -/
theorem justCodeG_false_safe (j : Option Int) : (justCodeG false j).safe = j.isSome := by
  cases j <;> rfl

/-- without the nil test the vertical position panics exactly on a cue without position -/
theorem vpG_false_safe (vp : Option Int) : (vpG false vp).safe = vp.isSome := by
  cases vp <;> rfl

example : justCodeG false none = .error .nilDeref := rfl
example : vpG false none = .error .nilDeref := rfl

/-- `int(d.Nanoseconds()) * framerate / 1e9` of `formatDurationSTLBytes`: the only integer division of the two
    time code formatters, by a constant -/
def framesC (ns fr : Int) : Chk Int := tdivC (ns * fr) 1000000000

/-- the division by `1e9` never panics; on non-negative operands it is the `Nat` division of the model's `formatSTLBytes` -/
theorem framesC_eq (ns fr : Nat) : framesC (ns : Int) (fr : Int) = .ok ((ns * fr / 1000000000 : Nat) : Int) := by
  unfold framesC
  rw [tdivC_ok (by decide), ← Int.natCast_mul]
  rfl

/-- the division by `1e9` never panics, whatever the signs -/
theorem framesC_safe (ns fr : Int) : (framesC ns fr).safe = true := rfl

/-- `newTTIBlock(item, idx)` then `t.bytes(g)` (the two `t.timecode… += g.timecodeStartOfProgramme` of
    `WriteToSTL` included); `enc = false`: with the pinned `encodeTextSTL` -/
def ttiBytesG (enc : Bool) (g : WGSI) (k : Nat) (c : WCue) : Chk Bytes := do
  let fr := g.m.framerate.toNat
  let jc ← justCodeC c.just
  let vp ← vpC c.vp
  let sn ← putUint16LE (List.replicate 2 0) k
  let text ← encodeTextG enc (cueString c)
  let tf ← padRC 0x8F 112 text
  pure ([0] ++ sn ++ [255, 0] ++ Duration.formatSTLBytes (c.startAt + g.m.tcp) fr
        ++ Duration.formatSTLBytes (c.endAt + g.m.tcp) fr ++ [vpByte vp g.m.dsc, jc, 0] ++ tf)

/-- the TTI block with the repaired encoder -/
def ttiBytesC (g : WGSI) (k : Nat) (c : WCue) : Chk Bytes := ttiBytesG true g k c

/-- `encodeTextC_eq`, on the parametrised form -/
theorem encodeTextG_true (s : List Nat) : encodeTextG true s = .ok (encodeText s) := encodeTextC_eq s

/-- **`newTTIBlock` + `ttiBlock.bytes` never panic** and are the model's `ttiBytes`: any cue (no line, empty runs,
    text starting with combining marks, no style), any block number -/
theorem ttiBytesC_eq (g : WGSI) (k : Nat) (c : WCue) : ttiBytesC g k c = .ok (ttiBytes g k c) := by
  unfold ttiBytesC ttiBytesG ttiBytes
  simp only [justCodeC_eq, vpC_eq, encodeTextG_true, padRC_eq, ok_bind, pure_eq]
  rfl

/-- with the pinned encoder a cue whose (decomposed) text starts with a floating diacritic makes the block panic -/
theorem ttiBytesG_false_panics (g : WGSI) (k : Nat) (c : WCue) (d : Nat) (rest : List Nat)
    (hs : nfd (cueString c) = d :: rest) (hd : isDiacritic d = true) : ttiBytesG false g k c = .error .slice := by
  unfold ttiBytesG
  have := encodeTextU_panics (cueString c) d rest hs hd
  unfold encodeTextU at this
  simp only [justCodeC_eq, vpC_eq, ok_bind, this]
  rfl

/-! ## `WriteToSTL` -/

/-- `for idx, item := range s.Items { … o.Write(newTTIBlock(item, idx+1).bytes(g)) }` from index `k` on -/
def ttiLoopG (enc : Bool) (g : WGSI) : Nat → List WCue → Chk Bytes
  | _, [] => pure []
  | k, c :: cs => do
    let b ← ttiBytesG enc g (k + 1) c
    let rest ← ttiLoopG enc g (k + 1) cs
    pure (b ++ rest)

/-- the loop never panics and writes what the model writes -/
theorem ttiLoopC_eq (g : WGSI) : ∀ (cs : List WCue) (k : Nat),
    ttiLoopG true g k cs = .ok ((cs.zipIdx k).map fun (c, k) => ttiBytes g (k + 1) c).flatten := by
  intro cs
  induction cs with
  | nil => intro k; rfl
  | cons c cs ih =>
    intro k
    have := ttiBytesC_eq g (k + 1) c
    unfold ttiBytesC at this
    rw [ttiLoopG, this, ok_bind, ih, ok_bind]
    simp [List.zipIdx_cons]

/-- everything `WriteToSTL` does after the `len(s.Items) == 0` test, with the guards `gs` of `newGSIBlock` and
    the guard `enc` of `encodeTextSTL` -/
def writeBodyG (gs : Guards) (enc : Bool) (now : Date) (md : Option Meta) (cues : List WCue) : Chk Bytes := do
  let g ← newGSIG gs now md cues
  let hd ← gsiBytesC g
  let body ← ttiLoopG enc g 0 cues
  pure (hd ++ body)

/-- the body with every guard in place -/
def writeBodyC (now : Date) (md : Option Meta) (cues : List WCue) : Chk Bytes := writeBodyG {} true now md cues

/-- **the body of `WriteToSTL` never panics** — modelled domain or not (negative times, runes outside the NFD
    table: `writeUnmodelled` plays no part here) — and writes the model's `writeBody` -/
theorem writeBodyC_eq (now : Date) (md : Option Meta) (cues : List WCue) (h : cues ≠ []) :
    writeBodyC now md cues = .ok (writeBody now md cues) := by
  have hg := newGSIC_eq now md cues h
  unfold newGSIC at hg
  unfold writeBodyC writeBodyG writeBody
  rw [hg, ok_bind, gsiBytesC_newGSI, ok_bind, ttiLoopC_eq, ok_bind]
  rfl

/-- on the empty list too (never reached from `WriteToSTL`) the body does not panic -/
theorem writeBodyC_safe (now : Date) (md : Option Meta) (cues : List WCue) : (writeBodyC now md cues).safe = true := by
  cases cues with
  | nil =>
    have hg := newGSIC_eq' now md []
    unfold newGSIC at hg
    unfold writeBodyC writeBodyG
    rw [hg, ok_bind, gsiBytesC_eq _ ?_]
    · rfl
    · have := newGSI_filled now md []
      exact ⟨this.1, this.2, this.3, this.4⟩
  | cons c cs => rw [writeBodyC_eq now md (c :: cs) (by simp)]; rfl

/-- `Subtitles.WriteToSTL` with every index, slice and nil-pointer site checked.  The body runs on every
    non-empty cue list: whether the input lies in the modelled domain only decides how the *model* names the answer -/
def writeG (gs : Guards) (enc : Bool) (now : Date) (md : Option Meta) (cues : List WCue) : Chk (Res Bytes) :=
  if cues.length = 0 then pure .err
  else do
    let b ← writeBodyG gs enc now md cues
    pure (if writeUnmodelled md cues then .unmodelled else .ok b)

/-- `WriteToSTL` as repaired -/
def writeC (now : Date) (md : Option Meta) (cues : List WCue) : Chk (Res Bytes) := writeG {} true now md cues

/-- `WriteToSTL` as pinned: no `if s.Metadata != nil`, no `if len(o) == 0` -/
def writeU (now : Date) (md : Option Meta) (cues : List WCue) : Chk (Res Bytes) :=
  writeG { metadata := false } false now md cues

/-- **`WriteToSTL` never panics and is the model's `write`**, for every input: no metadata, metadata with every
    optional field nil, no cue, cues without lines, empty runs, texts that start with combining marks, … -/
theorem writeC_eq (now : Date) (md : Option Meta) (cues : List WCue) : writeC now md cues = .ok (write now md cues) := by
  unfold writeC writeG write
  cases cues with
  | nil => rfl
  | cons c cs =>
    have h1 : ¬ ((c :: cs).length = 0) := by simp
    have h2 : ¬ ((c :: cs).isEmpty = true) := by simp
    have hb := writeBodyC_eq now md (c :: cs) (by simp)
    unfold writeBodyC at hb
    rw [if_neg h1, if_neg h2, hb]
    rfl

/-- `WriteToSTL` never panics -/
theorem writeC_safe (now : Date) (md : Option Meta) (cues : List WCue) : (writeC now md cues).safe = true :=
  safe_of_eq_ok (writeC_eq now md cues)

/-- **D15 end to end**: the pinned `WriteToSTL` panics on every non-empty document without metadata -/
theorem writeU_no_metadata (now : Date) (cues : List WCue) (h : cues ≠ []) : writeU now none cues = .error .nilDeref := by
  cases cues with
  | nil => exact absurd rfl h
  | cons c cs => rfl

/-- **D17 end to end**: without the guard of `encodeTextSTL`, `WriteToSTL` panics on every document whose first
    cue's (decomposed) text starts with a floating diacritic — metadata or not, other guards in place -/
theorem writeG_enc_panics (now : Date) (md : Option Meta) (c : WCue) (cs : List WCue) (d : Nat) (rest : List Nat)
    (hs : nfd (cueString c) = d :: rest) (hd : isDiacritic d = true) :
    writeG {} false now md (c :: cs) = .error .slice := by
  have hg := newGSIC_eq now md (c :: cs) (by simp)
  unfold newGSIC at hg
  have h1 : ¬ ((c :: cs).length = 0) := by simp
  unfold writeG writeBodyG
  rw [if_neg h1, hg, ok_bind, gsiBytesC_newGSI, ok_bind, ttiLoopG, ttiBytesG_false_panics _ _ c d rest hs hd]
  rfl

/-- a cue whose only run is U+0301 -/
def acuteCue : WCue := { startAt := 0, endAt := 1000000000, lines := [[{ text := [0x0301] }]] }

/-- the pinned writer panics on it even with metadata; the repaired one writes 1024 + 128 bytes -/
example (now : Date) (md : Option Meta) : writeG {} false now md [acuteCue] = .error .slice :=
  writeG_enc_panics now md acuteCue [] 0x0301 [] nfd_acute (by decide)
example (now : Date) : writeU now none [acuteCue] = .error .nilDeref := writeU_no_metadata now _ (by simp)
example (now : Date) (md : Option Meta) : (writeC now md [acuteCue]).safe = true := writeC_safe _ _ _

/-- the length of an answer (0 when there is none) -/
def resLen (r : Chk (Res Bytes)) : Nat := match r with | .ok (.ok b) => b.length | _ => 0

/-- non-vacuity: no metadata, a text that starts with a combining mark — one GSI block and one TTI block -/
example : resLen (writeC default none [acuteCue]) = 1152 := by rw [writeC_eq]; decide +kernel

/-- non-vacuity: metadata with every optional field nil, a cue without lines, a cue whose only run is empty -/
example : resLen (writeC default (some {}) [{ startAt := 0, endAt := 1, lines := [] },
    { startAt := 0, endAt := 1, lines := [[{ text := [] }]] }]) = 1280 := by rw [writeC_eq]; decide +kernel

/-- non-vacuity: no cue is the error `ErrNoSubtitlesToWrite`, not a panic -/
example : writeC default none [] = .ok .err := rfl

end STLW
end Tot
end Astisub
