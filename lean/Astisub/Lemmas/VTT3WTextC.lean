import Astisub.Lemmas.VTT3WTextB

/-!
# Lemmas/VTT3WTextC — the decoder accepts the pieces of a written line

`Acc o s tags`: from any state whose stack is the outer stack `o` plus the open tags `tags` (no zero
timestamp pending or recorded), the decoder accepts the rest `s` of the line, ends with the stack `o`
and records no zero timestamp.  Every piece the writer emits is one backward step of `Acc`.
-/

namespace Astisub
namespace VTT3W
open Go Spec.VTT List
open VTTRead (textLine_nil textLine_char tagStep)
open SRT (escapeHTML)

/-- a state of the decoder between two pieces: stack `o ++ tags`, no zero timestamp -/
def Ready (o : List GTag) (tags : List VTT.Tag) (st : TextSt) : Prop :=
  st.stack = o ++ tags.map gOf ∧ Inv st

/-- the end of the line: the stack is `o` again, no run with timestamp 0 -/
def Post (o : List GTag) (f : TextSt) : Prop := f.stack = o ∧ ∀ r ∈ f.runs, r.ts ≠ some 0

def Acc (o : List GTag) (s : Str) (tags : List VTT.Tag) : Prop :=
  ∀ st, Ready o tags st → ∀ fuel, s.length + 1 ≤ fuel → ∃ f, textLine fuel s st = some f ∧ Post o f

theorem Acc_nil (o : List GTag) : Acc o [] [] := by
  intro st hr fuel hf
  obtain ⟨k, rfl⟩ : ∃ k, fuel = k + 1 := ⟨fuel - 1, by simp at hf; omega⟩
  obtain ⟨h1, _, h3⟩ := flushText_keeps st hr.2
  refine ⟨_, textLine_nil k st, ?_, h3.runs⟩
  rw [h1, hr.1]; simp

theorem ready_acc {o : List GTag} {tags : List VTT.Tag} {st : TextSt} (h : Ready o tags st) (a : Str) :
    Ready o tags { st with acc := a } := ⟨h.1, inv_acc st a h.2⟩

theorem Acc_char {o : List GTag} {c : Char} {s : Str} {tags : List VTT.Tag} (h1 : c ≠ '<') (h2 : c ≠ '&')
    (h : Acc o s tags) : Acc o (c :: s) tags := by
  intro st hr fuel hf
  obtain ⟨k, rfl⟩ : ∃ k, fuel = k + 1 := ⟨fuel - 1, by simp at hf; omega⟩
  rw [textLine_char k c s st h1 h2]
  exact h _ (ready_acc hr _) k (by simp at hf; omega)

theorem esc1_length_pos (c : Char) : 1 ≤ (C01.esc1 c).length := by
  unfold C01.esc1
  split
  · rw [litAmp5]; simp
  · split
    · rw [litLt4]; simp
    · split
      · rw [litNbsp6]; simp
      · simp

theorem Acc_esc1 {o : List GTag} (c : Char) {s : Str} {tags : List VTT.Tag} (h : Acc o s tags) :
    Acc o (C01.esc1 c ++ s) tags := by
  intro st hr fuel hf
  have := esc1_length_pos c
  obtain ⟨k, rfl⟩ : ∃ k, fuel = k + 1 := ⟨fuel - 1, by omega⟩
  rw [textLine_esc1]
  exact h _ (ready_acc hr _) k (by simp at hf; omega)

/-- an escaped text is accepted -/
theorem Acc_esc {o : List GTag} (t : Str) {s : Str} {tags : List VTT.Tag} (h : Acc o s tags) :
    Acc o (escapeHTML t ++ s) tags := by
  rw [C01.escape_eq_flatMap]
  induction t with
  | nil => simpa using h
  | cons c t ih =>
    rw [flatMap_cons, append_assoc]
    exact Acc_esc1 c ih

/-- a tag: flush, tag step, go on -/
theorem Acc_tag {o : List GTag} (body after : Str) (tags tags' : List VTT.Tag)
    (hb : ∀ c ∈ body, c ≠ '>' ∧ c ≠ '<' ∧ c ≠ '&')
    (hstep : ∀ st, Ready o tags st → ∃ st3, tagStep body st = some st3 ∧ Ready o tags' st3)
    (h : Acc o after tags') : Acc o ('<' :: (body ++ '>' :: after)) tags := by
  intro st hr fuel hf
  obtain ⟨k, rfl⟩ : ∃ k, fuel = k + 1 := ⟨fuel - 1, by simp at hf; omega⟩
  rw [textLine_tag k body after st hb]
  obtain ⟨h1, _, h3⟩ := flushText_keeps st hr.2
  obtain ⟨st3, e3, hr3⟩ := hstep (Spec.VTT.flushText st) ⟨by rw [h1, hr.1], h3⟩
  rw [e3]
  exact h st3 hr3 k (by simp at hf; omega)

theorem safe3 {c : Char} (h : TagSafe c) : c ≠ '>' ∧ c ≠ '<' ∧ c ≠ '&' := ⟨h.2.1, h.1, h.2.2.1⟩

/-- an opening tag pushes the tag -/
theorem Acc_open {o : List GTag} (t : VTT.Tag) (ht : t.wf = true) {s : Str} {tags : List VTT.Tag}
    (h : Acc o s (tags ++ [t])) : Acc o (VTT.Tag.startTag t ++ s) tags := by
  have w := VTT.wf_facts ht
  have e : VTT.Tag.startTag t ++ s = '<' :: (startBody t ++ '>' :: s) := by
    rw [startTag_body t w.name_ne]; simp
  rw [e]
  refine Acc_tag (startBody t) s tags (tags ++ [t]) (fun c hc => safe3 (startBody_chars t w c hc)) ?_ h
  intro st hr
  refine ⟨_, tagStep_startBody t ht st, ?_, hr.2.pend, hr.2.runs⟩
  simp [hr.1]

/-- a closing tag pops the tag -/
theorem Acc_close {o : List GTag} (t : VTT.Tag) (ht : t.wf = true) {s : Str} {tags : List VTT.Tag}
    (h : Acc o s tags) : Acc o (VTT.Tag.endTag t ++ s) (tags ++ [t]) := by
  have w := VTT.wf_facts ht
  have e : VTT.Tag.endTag t ++ s = '<' :: (('/' :: t.name) ++ '>' :: s) := by
    simp [VTT.Tag.endTag, w.name_ne, litClose]
  rw [e]
  refine Acc_tag ('/' :: t.name) s (tags ++ [t]) tags ?_ ?_ h
  · intro c hc
    rcases mem_cons.mp hc with e | hc
    · subst e; exact ⟨by decide, by decide, by decide⟩
    · exact safe3 (alnum_safe (w.alnum c hc)).1
  · intro st hr
    have es : st.stack = (o ++ tags.map gOf) ++ [gOf t] := by simp [hr.1]
    refine ⟨_, tagStep_pop t.name st (gOf t) (by rw [litV]; exact w.name_v) (by rw [es]; simp) rfl,
      ?_, hr.2.pend, hr.2.runs⟩
    simp [es]

theorem format_tagchars (t : Int) (h0 : 0 ≤ t) (h1 : t < 360000000000000) :
    ∀ c ∈ Duration.formatVTT t, isDigit c = true ∨ c = ':' ∨ c = '.' := by
  obtain ⟨a, b, c, d, e, f, g, i, j, ha, hb, hc, hd, he, hf, hg, hi, hj, hfmt⟩ := VTT.format_stamp t h0 h1
  rw [hfmt]
  intro x hx
  simp only [VTT.stamp, mem_cons, not_mem_nil, or_false] at hx
  rcases hx with rfl|rfl|rfl|rfl|rfl|rfl|rfl|rfl|rfl|rfl|rfl|rfl
  all_goals first
    | exact Or.inr (Or.inl rfl)
    | exact Or.inr (Or.inr rfl)
    | exact Or.inl (isDigit_digitChar (by assumption))

theorem timeChar_ne {c : Char} (h : isDigit c = true ∨ c = ':' ∨ c = '.') (x : Char)
    (hx : isDigit x = false) (h1 : x ≠ ':') (h2 : x ≠ '.') : c ≠ x := by
  rcases h with h | h | h
  · exact VTTRead.isDigit_ne h x hx
  · subst h; exact fun e => h1 e.symm
  · subst h; exact fun e => h2 e.symm

/-- an inline timestamp of at least one millisecond sets a non-zero pending instant -/
theorem Acc_ts {o : List GTag} (t : Int) (h0 : 1000000 ≤ t) (h1 : t < 360000000000000) {s : Str}
    {tags : List VTT.Tag} (h : Acc o s tags) : Acc o (VTT.tsText t ++ s) tags := by
  have e : VTT.tsText t ++ s = '<' :: (Duration.formatVTT t ++ '>' :: s) := by simp [VTT.tsText]
  rw [e]
  have hch := format_tagchars t (by omega) h1
  refine Acc_tag (Duration.formatVTT t) s tags tags ?_ ?_ h
  · intro c hc
    exact ⟨timeChar_ne (hch c hc) '>' (by decide) (by decide) (by decide),
      timeChar_ne (hch c hc) '<' (by decide) (by decide) (by decide),
      timeChar_ne (hch c hc) '&' (by decide) (by decide) (by decide)⟩
  · intro st hr
    obtain ⟨k, r, hk, hfmt⟩ := VTT.format_head t (by omega) h1
    have hts := inlineTs_format t (by omega) h1
    rw [hfmt] at hts ⊢
    refine ⟨_, tagStep_ts (digitChar k) r st _ (isDigit_digitChar hk) hts, hr.1, ?_, hr.2.runs⟩
    intro e
    have e2 := Option.some.inj e
    omega

end VTT3W
end Astisub
