import Astisub.Lemmas.VTTRead2TagView
import Astisub.Lemmas.SSARead2Scalar
import Astisub.Lemmas.VTTRead2Time

/-!
# Lemmas/VTT3WViewTags — the `WebVTTTags` attribute read twice

`tagsOfAttrs (tagsAttrs (tagsOfAttrs a)) = tagsOfAttrs a` for **every** attribute list `a`: the tags
obtained by parsing an attribute value are in canonical form, whatever the value was (no
well-formedness hypothesis).
-/

namespace Astisub
namespace VTT3W
open Go List

/-- the canonical text of `tagOfStr s`: the part before the first space, and the annotation if not empty -/
def canon (s : Str) : Str :=
  s.takeWhile (· != ' ') ++
    (if ((s.drop (s.takeWhile (· != ' ')).length).drop 1).isEmpty then []
     else ' ' :: (s.drop (s.takeWhile (· != ' ')).length).drop 1)

theorem head_join (n : Str) (cls : List Str) :
    n ++ (if cls.isEmpty then [] else '.' :: join ['.'] cls) = join ['.'] (n :: cls) := by
  cases cls with
  | nil => simp [join]
  | cons c cs => simp [join]

theorem tagOfStr_cases (s : Str) :
    ∃ n cls, splitC '.' (s.takeWhile (· != ' ')) = n :: cls ∧
      VTT.tagOfStr s = { name := n, classes := cls, annotation := (s.drop (s.takeWhile (· != ' ')).length).drop 1 } := by
  cases h : splitC '.' (s.takeWhile (· != ' ')) with
  | nil => exact absurd h (SSAR.splitC_ne_nil _ _)
  | cons n cls =>
    refine ⟨n, cls, rfl, ?_⟩
    unfold VTT.tagOfStr
    simp only [h]

theorem str_tagOfStr (s : Str) : VTT.Tag.str (VTT.tagOfStr s) = canon s := by
  obtain ⟨n, cls, hs, ht⟩ := tagOfStr_cases s
  rw [ht]
  unfold VTT.Tag.str canon
  simp only
  rw [head_join, ← hs, SSAR.join_splitC]

theorem head_nospace (s : Str) : ∀ c ∈ s.takeWhile (· != ' '), (fun c => c != ' ') c = true :=
  VTTRead.takeWhile_all (p := fun c => c != ' ') s

theorem takeWhile_canon (s : Str) : (canon s).takeWhile (· != ' ') = s.takeWhile (· != ' ') := by
  unfold canon
  rw [VTT.takeWhile_app_all _ _ (head_nospace s)]
  by_cases he : ((s.drop (s.takeWhile (· != ' ')).length).drop 1).isEmpty = true
  · simp only [he, if_true, takeWhile_nil, append_nil]
  · simp only [he, Bool.false_eq_true, if_false]
    simp

theorem ann_canon (s : Str) :
    ((canon s).drop (s.takeWhile (· != ' ')).length).drop 1 = (s.drop (s.takeWhile (· != ' ')).length).drop 1 := by
  unfold canon
  rw [VTT.drop_len_app]
  by_cases he : ((s.drop (s.takeWhile (· != ' ')).length).drop 1).isEmpty = true
  · simp only [he, if_true, drop_nil]
    have : (s.drop (s.takeWhile (· != ' ')).length).drop 1 = [] := by simpa using he
    rw [this]
  · simp only [he, Bool.false_eq_true, if_false, drop_succ_cons, drop_zero]

/-- parsing the canonical text of a parsed tag gives the same tag -/
theorem tagOfStr_canon (s : Str) : VTT.tagOfStr (canon s) = VTT.tagOfStr s := by
  obtain ⟨n, cls, hs, ht⟩ := tagOfStr_cases s
  obtain ⟨n', cls', hs', ht'⟩ := tagOfStr_cases (canon s)
  rw [ht, ht']
  rw [takeWhile_canon] at hs' ⊢
  rw [hs] at hs'
  cases hs'
  rw [ann_canon]

theorem tagOfStr_idem (s : Str) : VTT.tagOfStr (VTT.Tag.str (VTT.tagOfStr s)) = VTT.tagOfStr s := by
  rw [str_tagOfStr, tagOfStr_canon]

theorem mem_takeWhile {p : Char → Bool} : ∀ (l : Str), ∀ c ∈ l.takeWhile p, c ∈ l := by
  intro l c hc
  exact (takeWhile_sublist p).mem hc

theorem canon_mem (s : Str) : ∀ c ∈ canon s, c = ' ' ∨ c ∈ s := by
  intro c hc
  unfold canon at hc
  rcases mem_append.mp hc with h | h
  · exact Or.inr (mem_takeWhile s c h)
  · by_cases he : ((s.drop (s.takeWhile (· != ' ')).length).drop 1).isEmpty = true
    · rw [if_pos he] at h; cases h
    · rw [if_neg he] at h
      simp only [mem_cons] at h
      rcases h with h | h
      · exact Or.inl h
      · exact Or.inr (mem_of_mem_drop (mem_of_mem_drop h))

theorem canon_noBar (s : Str) (h : '|' ∉ s) : '|' ∉ canon s := by
  intro hm
  rcases canon_mem s _ hm with e | e
  · exact absurd e (by decide)
  · exact h e

/-! ### the attribute -/

theorem wtags_lookup (v : Str) :
    SRT.kvGet (some [("WebVTTTags".toList, v)]) "WebVTTTags" = some v := by
  unfold SRT.kvGet
  simp

theorem tagsOfAttrs_none (a : Attrs) (h : SRT.kvGet a "WebVTTTags" = none) : VTT.tagsOfAttrs a = [] := by
  unfold VTT.tagsOfAttrs
  rw [h]

theorem tagsOfAttrs_some (a : Attrs) (v : Str) (h : SRT.kvGet a "WebVTTTags" = some v) :
    VTT.tagsOfAttrs a = (splitC '|' v).map VTT.tagOfStr := by
  unfold VTT.tagsOfAttrs
  rw [h]

theorem tagsAttrs_nil : VTT.tagsAttrs [] = none := rfl

theorem tagsAttrs_cons (t : VTT.Tag) (ts : List VTT.Tag) :
    VTT.tagsAttrs (t :: ts) = some [("WebVTTTags".toList, VTT.tagsStr (t :: ts))] := rfl

theorem kvGet_none (k : String) : SRT.kvGet none k = none := rfl

theorem map_idem_parts (parts : List Str) :
    ((parts.map VTT.tagOfStr).map VTT.Tag.str).map VTT.tagOfStr = parts.map VTT.tagOfStr := by
  rw [map_map, map_map]
  apply map_congr_left
  intro p _
  exact tagOfStr_idem p

/-- **the tags of an attribute list are canonical**: printed and parsed again they are the same -/
theorem tagsOfAttrs_idem (a : Attrs) :
    VTT.tagsOfAttrs (VTT.tagsAttrs (VTT.tagsOfAttrs a)) = VTT.tagsOfAttrs a := by
  cases hk : SRT.kvGet a "WebVTTTags" with
  | none =>
    rw [tagsOfAttrs_none a hk, tagsAttrs_nil]
    exact tagsOfAttrs_none _ (kvGet_none _)
  | some v =>
    rw [tagsOfAttrs_some a v hk]
    cases hp : splitC '|' v with
    | nil => exact absurd hp (SSAR.splitC_ne_nil _ _)
    | cons p ps =>
      have hnb : ∀ q ∈ p :: ps, '|' ∉ q := by
        intro q hq; rw [← hp] at hq; exact SSAR.splitC_parts '|' v q hq
      rw [map_cons, tagsAttrs_cons, tagsOfAttrs_some _ _ (wtags_lookup _)]
      unfold VTT.tagsStr
      rw [← map_cons]
      rw [VTTRead.splitC_joinBar _ (by simp)]
      · exact map_idem_parts (p :: ps)
      · intro c hc
        rw [map_map] at hc
        simp only [mem_map, Function.comp] at hc
        obtain ⟨q, hq, rfl⟩ := hc
        rw [str_tagOfStr]
        exact canon_noBar q (hnb q hq)

end VTT3W
end Astisub
